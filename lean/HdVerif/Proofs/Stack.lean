import HdVerif.Model.Stack
import HdVerif.Proofs.Affine
import Mathlib.Data.List.Sort
import Mathlib.Data.List.Perm.Basic
import Mathlib.Data.List.Nodup
import Mathlib.Data.List.Range
import Mathlib.Data.List.Count
import Mathlib.Tactic.Ring
import Mathlib.Tactic.Linarith
import Mathlib.Tactic.FieldSimp
import Mathlib.Tactic.Positivity
/-! Helper lemmas for C11: sorting and ranking by counting, distance lists of regular stacks,
`np.unique` as a canonical form. -/
namespace HdVerif.Stack
open HdVerif HdVerif.Affine

/-! ## sorting -/

theorem insertRat_eq (x : Rat) (l : List Rat) : insertRat x l = l.orderedInsert (· ≤ ·) x := by
  induction l with
  | nil => rfl
  | cons y ys ih => simp only [insertRat, List.orderedInsert, ih]

theorem sortRat_eq (d : List Rat) : sortRat d = d.insertionSort (· ≤ ·) := by
  induction d with
  | nil => rfl
  | cons x xs ih =>
    have : sortRat (x :: xs) = insertRat x (sortRat xs) := rfl
    rw [this, ih, insertRat_eq]; rfl

theorem sortRat_perm (d : List Rat) : (sortRat d).Perm d := by
  rw [sortRat_eq]; exact List.perm_insertionSort _ d

theorem sortRat_sorted (d : List Rat) : (sortRat d).Pairwise (· ≤ ·) := by
  rw [sortRat_eq]; exact List.pairwise_insertionSort _ d

/-- sorting is determined by the multiset: any ascending rearrangement IS the sorted list -/
theorem sortRat_of_perm {d l : List Rat} (h : d.Perm l) (hs : l.Pairwise (· ≤ ·)) : sortRat d = l :=
  List.Perm.eq_of_pairwise (fun _ _ _ _ h1 h2 => le_antisymm h1 h2) (sortRat_sorted d) hs
    ((sortRat_perm d).trans h)

theorem sortRat_length (d : List Rat) : (sortRat d).length = d.length := (sortRat_perm d).length_eq

/-! ## ranks by counting -/

theorem ranksAux_length (all : List Rat) : ∀ (suf pre : List Rat), (ranksAux all pre suf).length = suf.length := by
  intro suf
  induction suf with
  | nil => intro pre; rfl
  | cons x xs ih => intro pre; simp [ranksAux, ih]

theorem ranks_length (d : List Rat) : (ranks d).length = d.length := ranksAux_length d d []

theorem ranksAux_nodup (all : List Rat) : ∀ (suf pre : List Rat), (pre ++ suf).Nodup →
    ranksAux all pre suf = suf.map fun x => all.countP (fun y => decide (y < x)) := by
  intro suf
  induction suf with
  | nil => intro pre _; rfl
  | cons x xs ih =>
    intro pre h
    have hx : x ∉ pre := by
      intro hm
      have := List.nodup_append.mp h
      exact this.2.2 x hm x (List.mem_cons_self) rfl
    have hc : pre.countP (fun y => decide (y = x)) = 0 := by
      rw [List.countP_eq_zero]
      intro y hy
      simp only [decide_eq_true_eq]
      intro e; exact hx (e ▸ hy)
    have h' : ((pre ++ [x]) ++ xs).Nodup := by simpa using h
    simp only [ranksAux, hc, Nat.add_zero, List.map_cons, ih (pre ++ [x]) h']

/-- without ties the rank of an element is the number of smaller elements -/
theorem ranks_nodup (d : List Rat) (h : d.Nodup) :
    ranks d = d.map fun x => d.countP (fun y => decide (y < x)) :=
  ranksAux_nodup d d [] (by simpa using h)

/-- ranks never depend on the order of the OTHER elements: equal lists up to permutation give each value the
same rank (tie-free case) -/
theorem rank_perm_invariant {d d' : List Rat} (h : d.Perm d') (x : Rat) :
    d.countP (fun y => decide (y < x)) = d'.countP (fun y => decide (y < x)) := h.countP_eq _

/-- rank order IS distance order (tie-free): smaller distance ⇒ smaller rank -/
theorem countP_lt_le (d : List Rat) {x y : Rat} (hxy : x ≤ y) :
    d.countP (fun z => decide (z < x)) ≤ d.countP (fun z => decide (z < y)) := by
  apply List.countP_mono_left
  intro z _ hz
  simp only [decide_eq_true_eq] at hz ⊢
  exact lt_of_lt_of_le hz hxy

theorem countP_lt_mono (d : List Rat) {x y : Rat} (hxy : x < y) (hx : x ∈ d) :
    d.countP (fun z => decide (z < x)) < d.countP (fun z => decide (z < y)) := by
  induction d with
  | nil => cases hx
  | cons z zs ih =>
    simp only [List.countP_cons]
    rcases List.mem_cons.mp hx with rfl | hm
    · have h1 : decide (x < x) = false := by simp
      have h2 : decide (x < y) = true := by simp [hxy]
      simp only [h1, h2]
      have := countP_lt_le zs (le_of_lt hxy)
      simp; omega
    · have := ih hm
      by_cases hz : z < x
      · have hz' : z < y := lt_trans hz hxy
        simp [hz, hz']; omega
      · by_cases hz' : z < y
        · simp [hz, hz']; omega
        · simp [hz, hz']; omega

/-! ## the distance list of a regular stack: `c + j·s` for plane numbers `j` -/

/-- distance of plane number `j` -/
def gdist (c s : Rat) (j : Nat) : Rat := c + (j : Rat) * s

theorem gdist_lt {c s : Rat} (hs : 0 < s) {i j : Nat} (h : i < j) : gdist c s i < gdist c s j := by
  unfold gdist
  have : (i : Rat) < (j : Rat) := by exact_mod_cast h
  nlinarith

theorem gdist_lt_iff {c s : Rat} (hs : 0 < s) {i j : Nat} : gdist c s i < gdist c s j ↔ i < j := by
  constructor
  · intro h
    by_contra hn
    rcases Nat.lt_or_ge j i with h' | h'
    · exact absurd (gdist_lt hs h') (not_lt.mpr (le_of_lt h))
    · have : i = j := by omega
      subst this; exact lt_irrefl _ h
  · exact gdist_lt hs

theorem gdist_injective {c s : Rat} (hs : 0 < s) : Function.Injective (gdist c s) := by
  intro i j h
  rcases Nat.lt_trichotomy i j with h' | h' | h'
  · exact absurd h (ne_of_lt (gdist_lt hs h'))
  · exact h'
  · exact absurd h.symm (ne_of_lt (gdist_lt hs h'))

theorem countP_lt_map {c s : Rat} (hs : 0 < s) (js : List Nat) (j : Nat) :
    (js.map (gdist c s)).countP (fun y => decide (y < gdist c s j)) = js.countP (fun i => decide (i < j)) := by
  rw [List.countP_map]
  congr 1
  funext i
  simp only [Function.comp, gdist_lt_iff hs]

theorem countP_lt_range (N j : Nat) : (List.range N).countP (fun i => decide (i < j)) = min j N := by
  induction N with
  | zero => simp
  | succ n ih =>
    rw [List.range_succ, List.countP_append, ih]
    by_cases h : n < j
    · simp [h]; omega
    · simp [h]; omega

/-- **ranks of a regular stack are the plane numbers**, whatever the input order -/
theorem ranks_affine {c s : Rat} (hs : 0 < s) {js : List Nat} {N : Nat} (hp : js.Perm (List.range N)) :
    ranks (js.map (gdist c s)) = js := by
  have hnd : js.Nodup := hp.nodup_iff.mpr List.nodup_range
  rw [ranks_nodup _ (hnd.map (gdist_injective hs)), List.map_map]
  conv_rhs => rw [← List.map_id js]
  apply List.map_congr_left
  intro j hj
  have hjN : j < N := by have := hp.mem_iff.mp hj; simpa using this
  simp only [Function.comp, countP_lt_map hs, hp.countP_eq, countP_lt_range, id]
  omega

theorem gdist_sorted (c s : Rat) (hs : 0 < s) (N : Nat) : ((List.range N).map (gdist c s)).Pairwise (· ≤ ·) := by
  rw [List.pairwise_map]
  exact List.Pairwise.imp (fun h => le_of_lt (gdist_lt hs h)) List.pairwise_lt_range

/-- **sorted distances of a regular stack**, whatever the input order -/
theorem sortRat_affine {c s : Rat} (hs : 0 < s) {js : List Nat} {N : Nat} (hp : js.Perm (List.range N)) :
    sortRat (js.map (gdist c s)) = (List.range N).map (gdist c s) :=
  sortRat_of_perm (hp.map _) (gdist_sorted c s hs N)

theorem diffs_affine (c s : Rat) : ∀ (n a : Nat), ∀ x ∈ diffs ((List.range' a n).map (gdist c s)), x = s := by
  intro n
  induction n with
  | zero => intro a x hx; simp [diffs] at hx
  | succ n ih =>
    intro a x hx
    cases n with
    | zero => simp [List.range', diffs] at hx
    | succ m =>
      simp only [List.range'_succ, List.map_cons, diffs, List.mem_cons] at hx
      rcases hx with rfl | hx
      · simp only [gdist]; push_cast; ring
      · apply ih (a + 1) x
        simpa only [List.range'_succ, List.map_cons] using hx

theorem head_affine (c s : Rat) (M : Nat) : ((List.range (M + 1)).map (gdist c s)).head? = some (gdist c s 0) := by
  simp [List.range_succ_eq_map]

theorem getLast_affine (c s : Rat) (M : Nat) : ((List.range (M + 1)).map (gdist c s)).getLast? = some (gdist c s M) := by
  simp [List.range_succ]

/-- the element of rank `r` -/
theorem atRank_map {α} (f : Nat → α) : ∀ (js : List Nat) (r : Nat), r ∈ js → atRank (js.map f) js r = some (f r) := by
  intro js
  induction js with
  | nil => intro r h; cases h
  | cons j js ih =>
    intro r h
    unfold atRank
    simp only [List.map_cons, List.zip_cons_cons, List.find?_cons]
    by_cases hj : j = r
    · subst hj; simp
    · have hm : r ∈ js := by
        rcases List.mem_cons.mp h with e | e
        · exact absurd e.symm hj
        · exact e
      have hb : (j == r) = false := by simp [hj]
      simp only [hb]
      exact ih r hm

/-! ## isClose facts -/

theorem rabs_nonneg (x : Rat) : 0 ≤ rabs x := by
  unfold rabs; split_ifs with h <;> linarith

theorem rabs_eq_abs (x : Rat) : rabs x = |x| := by
  unfold rabs
  split_ifs with h
  · rw [abs_of_neg h]
  · rw [abs_of_nonneg (not_lt.mp h)]

theorem isClose_self (a rtol atol : Rat) (hr : 0 ≤ rtol) (ha : 0 ≤ atol) : isClose a a rtol atol = true := by
  unfold isClose
  simp only [sub_self, decide_eq_true_eq]
  have : rabs 0 = 0 := by unfold rabs; simp
  rw [this]
  have := rabs_nonneg a
  positivity

/-! ## regular stacks in space -/

/-- position of plane number `j` of the regular stack through `o` with spacing `s` along `nrm` -/
def planePos (o nrm : V3) (s : Rat) (j : Nat) : V3 := o.add (V3.smul ((j : Rat) * s) nrm)

theorem dot_planePos (o nrm : V3) (s : Rat) (hn : nrm.dot nrm = 1) (j : Nat) :
    nrm.dot (planePos o nrm s j) = gdist (nrm.dot o) s j := by
  obtain ⟨a, b, c⟩ := o
  obtain ⟨x, y, z⟩ := nrm
  simp only [V3.dot] at hn
  simp only [planePos, V3.add, V3.smul, V3.dot, gdist]
  linear_combination ((j : Rat) * s) * hn

theorem planePos_span (o nrm : V3) (s : Rat) (M : Nat) :
    (planePos o nrm s M).sub (planePos o nrm s 0) = V3.smul ((M : Rat) * s) nrm := by
  obtain ⟨a, b, c⟩ := o
  obtain ⟨x, y, z⟩ := nrm
  simp only [planePos, V3.add, V3.smul, V3.sub, V3.mk.injEq]
  refine ⟨?_, ?_, ?_⟩ <;> push_cast <;> ring

/-- a multiple of the unit normal is perpendicular to the planes -/
theorem isPerpendicular_smul (nrm : V3) (hn : nrm.dot nrm = 1) {t : Rat} (ht : t ≠ 0) :
    isPerpendicular nrm (V3.smul t nrm) = true := by
  have h1 : nrm.dot (V3.smul t nrm) = t := by
    obtain ⟨x, y, z⟩ := nrm
    simp only [V3.dot] at hn
    simp only [V3.dot, V3.smul]
    linear_combination t * hn
  have h2 : (V3.smul t nrm).dot (V3.smul t nrm) = t * t := by
    rw [smul_dot_smul, hn]; ring
  have ht2 : 0 < t * t := mul_self_pos.mpr ht
  -- the translated tolerance lies strictly between 0 and 1 (whatever its current value, this is re-checked)
  have hp0 : 0 < perpTol := by decide +kernel
  have hp1 : perpTol < 1 := by decide +kernel
  have e1 : (1 - perpTol) * (1 - perpTol) < 1 := by nlinarith
  have e2 : 1 < (1 + perpTol) * (1 + perpTol) := by nlinarith
  simp only [isPerpendicular, h1, h2, Bool.and_eq_true, decide_eq_true_eq]
  exact ⟨⟨ht, mul_lt_of_lt_one_left ht2 e1⟩, lt_mul_of_one_lt_left ht2 e2⟩

theorem map_dot_planePos (o nrm : V3) (s : Rat) (hn : nrm.dot nrm = 1) (js : List Nat) :
    (js.map (planePos o nrm s)).map nrm.dot = js.map (gdist (nrm.dot o) s) := by
  rw [List.map_map]
  apply List.map_congr_left
  intro j _
  exact dot_planePos o nrm s hn j

/-- the mean spacing of a regular stack is `s` -/
theorem mean_spacing (c s : Rat) (M : Nat) (hM : 1 ≤ M) :
    (gdist c s M - gdist c s 0) / ((((M + 1 : Nat) : Rat)) - 1) = s := by
  have : (M : Rat) ≠ 0 := by
    have : (1 : Rat) ≤ (M : Rat) := by exact_mod_cast hM
    linarith
  have hden : (((M + 1 : Nat) : Rat)) - 1 = (M : Rat) := by push_cast; ring
  rw [hden, div_eq_iff this]
  simp only [gdist]
  push_cast
  ring

/-- **a regular stack is recognised** by the examination step (no gaps allowed, sorting on): for every input
order `js` of the plane numbers `0 … N−1` the spacing is `s` and the index of each plane is its number. -/
theorem examine_regular (o nrm : V3) (hn : nrm.dot nrm = 1) {s : Rat} (hs : 0 < s) {js : List Nat} {N : Nat}
    (hN : 2 ≤ N) (hp : js.Perm (List.range N)) {rtol atol : Rat} (hr : 0 ≤ rtol) (ha : 0 ≤ atol) (enforce : Bool) :
    examine nrm (js.map (planePos o nrm s)) true false none rtol atol enforce
      = .ok (some (s, js.map Int.ofNat)) := by
  obtain ⟨M, rfl⟩ : ∃ M, N = M + 1 := ⟨N - 1, by omega⟩
  have hM : 1 ≤ M := by omega
  have hlen : js.length = M + 1 := by rw [hp.length_eq, List.length_range]
  have h0 : 0 ∈ js := hp.mem_iff.mpr (by simp)
  have hMm : M ∈ js := hp.mem_iff.mpr (by simp)
  have hreg : ((diffs ((List.range (M + 1)).map (gdist (nrm.dot o) s))).all fun x => isClose x s rtol atol) = true := by
    rw [List.all_eq_true]
    intro x hx
    rw [List.range_eq_range'] at hx
    rw [diffs_affine _ _ _ _ x hx]
    exact isClose_self s rtol atol hr ha
  have hns : ¬ s < 0 := not_lt.mpr (le_of_lt hs)
  have hMs : ((M : Rat) * s) ≠ 0 := by
    have : (1 : Rat) ≤ (M : Rat) := by exact_mod_cast hM
    have : 0 < (M : Rat) * s := by positivity
    exact ne_of_gt this
  unfold examine
  simp only [map_dot_planePos o nrm s hn, if_true, ranks_affine hs hp, sortRat_affine hs hp, Bool.false_eq_true, if_false,
    spacingRegular, head_affine, getLast_affine, List.length_map, List.length_range, mean_spacing _ _ _ hM, hreg,
    Except.map, bind, Except.bind, pure, Except.pure, Bool.true_and, hlen, Nat.add_sub_cancel,
    atRank_map (planePos o nrm s) js 0 h0, atRank_map (planePos o nrm s) js M hMm, planePos_span,
    isPerpendicular_smul nrm hn hMs, rabs_of_pos hs, hns]
  simp

/-! ## `np.unique(axis=0)`: the canonical form of a set of rows -/

theorem lexLt_iff (a b : V3) : lexLt a b = true ↔
    a.x < b.x ∨ (a.x = b.x ∧ (a.y < b.y ∨ (a.y = b.y ∧ a.z < b.z))) := by
  simp [lexLt]

theorem lexLt_irrefl (a : V3) : lexLt a a = false := by
  rw [Bool.eq_false_iff, ne_eq, lexLt_iff]; simp

theorem lexLt_trans {a b c : V3} (h1 : lexLt a b = true) (h2 : lexLt b c = true) : lexLt a c = true := by
  rw [lexLt_iff] at *
  rcases h1 with h1 | ⟨e1, h1 | ⟨e1', h1⟩⟩ <;> rcases h2 with h2 | ⟨e2, h2 | ⟨e2', h2⟩⟩
  · left; linarith
  · left; linarith
  · left; linarith
  · left; linarith
  · right; exact ⟨by linarith, Or.inl (by linarith)⟩
  · right; exact ⟨by linarith, Or.inl (by linarith)⟩
  · left; linarith
  · right; exact ⟨by linarith, Or.inl (by linarith)⟩
  · right; exact ⟨by linarith, Or.inr ⟨by linarith, by linarith⟩⟩

theorem lexLt_trichotomy (a b : V3) : lexLt a b = true ∨ a = b ∨ lexLt b a = true := by
  obtain ⟨a1, a2, a3⟩ := a
  obtain ⟨b1, b2, b3⟩ := b
  simp only [lexLt_iff, V3.mk.injEq]
  rcases lt_trichotomy a1 b1 with h | h | h
  · left; left; exact h
  · rcases lt_trichotomy a2 b2 with h' | h' | h'
    · left; right; exact ⟨h, Or.inl h'⟩
    · rcases lt_trichotomy a3 b3 with h'' | h'' | h''
      · left; right; exact ⟨h, Or.inr ⟨h', h''⟩⟩
      · right; left; exact ⟨h, h', h''⟩
      · right; right; right; exact ⟨h.symm, Or.inr ⟨h'.symm, h''⟩⟩
    · right; right; right; exact ⟨h.symm, Or.inl h'⟩
  · right; right; left; exact h

theorem lexLt_asymm {a b : V3} (h1 : lexLt a b = true) (h2 : lexLt b a = true) : False := by
  have := lexLt_trans h1 h2
  rw [lexLt_irrefl] at this
  cases this

theorem mem_insertUniq (p q : V3) : ∀ (l : List V3), q ∈ insertUniq p l ↔ q = p ∨ q ∈ l := by
  intro l
  induction l with
  | nil => simp [insertUniq]
  | cons x xs ih =>
    unfold insertUniq
    split_ifs with h1 h2
    · simp
    · subst h2; simp
    · simp only [List.mem_cons, ih]; tauto

theorem mem_uniqueRows (q : V3) : ∀ (ps : List V3), q ∈ uniqueRows ps ↔ q ∈ ps := by
  intro ps
  induction ps with
  | nil => simp [uniqueRows]
  | cons p ps ih =>
    have : uniqueRows (p :: ps) = insertUniq p (uniqueRows ps) := rfl
    rw [this, mem_insertUniq, ih]; simp

theorem insertUniq_sorted (p : V3) : ∀ (l : List V3), l.Pairwise (fun a b => lexLt a b = true) →
    (insertUniq p l).Pairwise (fun a b => lexLt a b = true) := by
  intro l
  induction l with
  | nil => intro _; simp [insertUniq]
  | cons x xs ih =>
    intro h
    have hx := List.pairwise_cons.mp h
    unfold insertUniq
    split_ifs with h1 h2
    · refine List.pairwise_cons.mpr ⟨?_, h⟩
      intro y hy
      rcases List.mem_cons.mp hy with rfl | hy
      · exact h1
      · exact lexLt_trans h1 (hx.1 y hy)
    · exact h
    · refine List.pairwise_cons.mpr ⟨?_, ih hx.2⟩
      intro y hy
      rcases (mem_insertUniq p y xs).mp hy with rfl | hy
      · rcases lexLt_trichotomy y x with h | h | h
        · exact absurd h h1
        · exact absurd h h2
        · exact h
      · exact hx.1 y hy

theorem uniqueRows_sorted : ∀ (ps : List V3), (uniqueRows ps).Pairwise (fun a b => lexLt a b = true) := by
  intro ps
  induction ps with
  | nil => simp [uniqueRows]
  | cons p ps ih => exact insertUniq_sorted p _ ih

theorem uniqueRows_nodup (ps : List V3) : (uniqueRows ps).Nodup := by
  have := uniqueRows_sorted ps
  refine List.Pairwise.imp ?_ this
  intro a b h e
  subst e
  rw [lexLt_irrefl] at h
  cases h

/-- **`np.unique` is a canonical form**: it depends only on the SET of rows — in particular not on their order -/
theorem uniqueRows_congr {ps ps' : List V3} (h : ∀ q, q ∈ ps ↔ q ∈ ps') : uniqueRows ps = uniqueRows ps' := by
  apply List.Perm.eq_of_pairwise (le := fun a b => lexLt a b = true)
  · intro a b _ _ h1 h2; exact absurd (lexLt_asymm h1 h2) id
  · exact uniqueRows_sorted ps
  · exact uniqueRows_sorted ps'
  · rw [List.perm_ext_iff_of_nodup (uniqueRows_nodup ps) (uniqueRows_nodup ps')]
    intro q; rw [mem_uniqueRows, mem_uniqueRows]; exact h q

theorem uniqueRows_perm {ps ps' : List V3} (h : ps.Perm ps') : uniqueRows ps = uniqueRows ps' :=
  uniqueRows_congr (fun _ => h.mem_iff)

/-- no duplicates ⇒ nothing is dropped -/
theorem uniqueRows_perm_self {ps : List V3} (h : ps.Nodup) : (uniqueRows ps).Perm ps := by
  rw [List.perm_ext_iff_of_nodup (uniqueRows_nodup ps) h]
  intro q; exact mem_uniqueRows q ps

theorem uniqueRows_length_le (ps : List V3) : (uniqueRows ps).length ≤ ps.length := by
  induction ps with
  | nil => simp [uniqueRows]
  | cons p ps ih =>
    have e : uniqueRows (p :: ps) = insertUniq p (uniqueRows ps) := rfl
    have : ∀ l : List V3, (insertUniq p l).length ≤ l.length + 1 := by
      intro l
      induction l with
      | nil => simp [insertUniq]
      | cons x xs ih' => unfold insertUniq; split_ifs <;> simp <;> omega
    rw [e]; have := this (uniqueRows ps); simp; omega

/-- duplicates ⇒ `np.unique` is strictly shorter (this is the duplicate test of the code) -/
theorem uniqueRows_length_lt_iff (ps : List V3) : (uniqueRows ps).length < ps.length ↔ ¬ ps.Nodup := by
  constructor
  · intro h hn
    have := (uniqueRows_perm_self hn).length_eq
    omega
  · intro hn
    by_contra hlt
    have hlen : (uniqueRows ps).length = ps.length := by have := uniqueRows_length_le ps; omega
    apply hn
    -- a sublist-free argument: a surjection between lists of equal length from a nodup list
    have hsub : (uniqueRows ps).Subperm ps := by
      apply List.subperm_of_subset (uniqueRows_nodup ps)
      intro q hq; exact (mem_uniqueRows q ps).mp hq
    have hperm : (uniqueRows ps).Perm ps := hsub.perm_of_length_le (by omega)
    exact hperm.nodup_iff.mp (uniqueRows_nodup ps)

/-! ## from the examined rows back to the input rows -/

/-- a permutation of an image is the image of a permutation -/
theorem perm_map_exists {α β} (f : α → β) : ∀ {l m : List β}, l.Perm m → ∀ js : List α, m = js.map f →
    ∃ js' : List α, js'.Perm js ∧ l = js'.map f := by
  intro l m h
  induction h with
  | nil => intro js hjs; exact ⟨[], by cases js <;> simp_all, rfl⟩
  | cons x _ ih =>
    intro js hjs
    cases js with
    | nil => simp at hjs
    | cons j js0 =>
      simp only [List.map_cons, List.cons.injEq] at hjs
      obtain ⟨js', hp, he⟩ := ih js0 hjs.2
      exact ⟨j :: js', hp.cons j, by simp [hjs.1, he]⟩
  | swap x y l =>
    intro js hjs
    match js, hjs with
    | j1 :: j2 :: js0, hjs =>
      simp only [List.map_cons, List.cons.injEq] at hjs
      exact ⟨j2 :: j1 :: js0, List.Perm.swap j1 j2 js0, by simp [hjs.1, hjs.2.1, hjs.2.2]⟩
  | trans _ _ ih1 ih2 =>
    intro js hjs
    obtain ⟨js2, hp2, he2⟩ := ih2 js hjs
    obtain ⟨js1, hp1, he1⟩ := ih1 js2 he2
    exact ⟨js1, hp1.trans hp2, he1⟩

theorem idxOf_map_injective {α β} [DecidableEq α] [DecidableEq β] {f : α → β} (hf : Function.Injective f) (a : α) :
    ∀ l : List α, (l.map f).idxOf (f a) = l.idxOf a := by
  intro l
  induction l with
  | nil => rfl
  | cons x xs ih =>
    simp only [List.map_cons, List.idxOf_cons]
    by_cases h : x = a
    · subst h; simp
    · have : f x ≠ f a := fun e => h (hf e)
      have b1 : (f x == f a) = false := by simp [this]
      have b2 : (x == a) = false := by simp [h]
      simp only [b1, b2, cond_false, ih]

theorem getElem?_idxOf_map {α β} [DecidableEq α] (g : α → β) (a : α) :
    ∀ l : List α, a ∈ l → (l.map g)[l.idxOf a]? = some (g a) := by
  intro l
  induction l with
  | nil => intro h; cases h
  | cons x xs ih =>
    intro h
    by_cases hx : x = a
    · subst hx; simp
    · have hm : a ∈ xs := by
        rcases List.mem_cons.mp h with e | e
        · exact absurd e.symm hx
        · exact e
      simp [List.idxOf_cons, hx, ih hm]

/-- reading the indices back: every input row `f j` finds the index stored for plane number `j` -/
theorem readIndices_map {β} [DecidableEq β] {f : Nat → β} (hf : Function.Injective f) (js' js : List Nat)
    (hsub : ∀ j ∈ js, j ∈ js') :
    readIndices (js'.map Int.ofNat) (js.map fun j => (js'.map f).idxOf (f j)) = .ok (js.map Int.ofNat) := by
  unfold readIndices
  induction js with
  | nil => rfl
  | cons j js ih =>
    have hj : j ∈ js' := hsub j (List.mem_cons_self)
    have ih' := ih (fun k hk => hsub k (List.mem_cons_of_mem _ hk))
    simp only [List.map_cons, List.mapM_cons, idxOf_map_injective hf, getElem?_idxOf_map Int.ofNat j js' hj, bind,
      Except.bind, pure, Except.pure] at ih' ⊢
    rw [ih']

theorem planePos_injective (o nrm : V3) (hn : nrm.dot nrm = 1) {s : Rat} (hs : 0 < s) :
    Function.Injective (planePos o nrm s) := by
  intro i j h
  have := congrArg nrm.dot h
  rw [dot_planePos o nrm s hn, dot_planePos o nrm s hn] at this
  exact gdist_injective hs this



/-- the unique rows of a (possibly duplicated, arbitrarily ordered) regular stack are the planes `0 … N−1` in
some order -/
theorem uniqueRows_regular (o nrm : V3) (hn : nrm.dot nrm = 1) {s : Rat} (hs : 0 < s) (js : List Nat) (N : Nat)
    (hmem : ∀ j, j ∈ js ↔ j < N) :
    ∃ js' : List Nat, js'.Perm (List.range N) ∧ uniqueRows (js.map (planePos o nrm s)) = js'.map (planePos o nrm s) := by
  have hinj := planePos_injective o nrm hn hs
  have hperm : (uniqueRows (js.map (planePos o nrm s))).Perm ((List.range N).map (planePos o nrm s)) := by
    rw [List.perm_ext_iff_of_nodup (uniqueRows_nodup _) (List.nodup_range.map hinj)]
    intro q
    rw [mem_uniqueRows]
    simp only [List.mem_map, List.mem_range]
    constructor
    · rintro ⟨j, hj, rfl⟩; exact ⟨j, (hmem j).mp hj, rfl⟩
    · rintro ⟨j, hj, rfl⟩; exact ⟨j, (hmem j).mpr hj, rfl⟩
  exact perm_map_exists _ hperm _ rfl

/-- **regular stacks are recognised** (rows already parsed, normal given): planes `o + j·s·n`, the plane numbers
`js` of the input rows in ANY order, covering exactly `0 … N−1`, duplicates allowed when declared — the result
is the spacing `s` and, for every input row, its plane number. -/
theorem volumePositionsOf_regular (o nrm : V3) (hn : nrm.dot nrm = 1) {s : Rat} (hs : 0 < s) (js : List Nat) {N : Nat}
    (hN : 2 ≤ N) (hmem : ∀ j, j ∈ js ↔ j < N) (op : Opts) (hsort : op.sort = true) (hmiss : op.allowMissing = false)
    (hdup : op.allowDuplicate = true ∨ js.Nodup) {rtol atol : Rat} (hr : 0 ≤ rtol) (ha : 0 ≤ atol) :
    volumePositionsOf nrm (js.map (planePos o nrm s)) op none rtol atol = .ok (some (s, js.map Int.ofNat)) := by
  have hinj := planePos_injective o nrm hn hs
  obtain ⟨js', hp', hu⟩ := uniqueRows_regular o nrm hn hs js N hmem
  have hlen' : js'.length = N := by rw [hp'.length_eq, List.length_range]
  have hck : (!op.allowDuplicate && decide (N < js.length)) = false := by
    rcases hdup with h | h
    · simp [h]
    · have : js.Perm (List.range N) := by
        rw [List.perm_ext_iff_of_nodup h List.nodup_range]
        intro j; rw [hmem j, List.mem_range]
      have hl : js.length = N := by rw [this.length_eq, List.length_range]
      simp [hl]
  have hex := examine_regular o nrm hn hs hN hp' hr ha op.enforce
  have hread := readIndices_map hinj js' js (fun j hj => hp'.mem_iff.mpr (by simpa using (hmem j).mp hj))
  have hne : ¬ N = 1 := by omega
  have hidx : (indexIn (js'.map (planePos o nrm s)) ∘ planePos o nrm s)
      = fun j => (js'.map (planePos o nrm s)).idxOf (planePos o nrm s j) := rfl
  unfold volumePositionsOf
  simp only [hsort, if_true, hu, List.length_map, hlen', hmiss, hex, hck, hne, Bool.false_eq_true, if_false,
    bind, Except.bind, pure, Except.pure, List.map_map, hidx, hread]



/-! ## general stacks along a line: plane `j` at distance `g j`, `g` strictly increasing -/

theorem countP_lt_map_mono {g : Nat → Rat} (hg : StrictMono g) (js : List Nat) (j : Nat) :
    (js.map g).countP (fun y => decide (y < g j)) = js.countP (fun i => decide (i < j)) := by
  rw [List.countP_map]
  congr 1
  funext i
  simp only [Function.comp, hg.lt_iff_lt]

/-- ranks are the plane numbers, whatever the input order -/
theorem ranks_mono {g : Nat → Rat} (hg : StrictMono g) {js : List Nat} {N : Nat} (hp : js.Perm (List.range N)) :
    ranks (js.map g) = js := by
  have hnd : js.Nodup := hp.nodup_iff.mpr List.nodup_range
  rw [ranks_nodup _ (hnd.map hg.injective), List.map_map]
  conv_rhs => rw [← List.map_id js]
  apply List.map_congr_left
  intro j hj
  have hjN : j < N := by have := hp.mem_iff.mp hj; simpa using this
  simp only [Function.comp, countP_lt_map_mono hg, hp.countP_eq, countP_lt_range, id]
  omega

theorem sortRat_mono {g : Nat → Rat} (hg : StrictMono g) {js : List Nat} {N : Nat} (hp : js.Perm (List.range N)) :
    sortRat (js.map g) = (List.range N).map g := by
  apply sortRat_of_perm (hp.map _)
  rw [List.pairwise_map]
  exact List.Pairwise.imp (fun h => le_of_lt (hg h)) List.pairwise_lt_range

theorem head_mono (g : Nat → Rat) (M : Nat) : ((List.range (M + 1)).map g).head? = some (g 0) := by
  simp [List.range_succ_eq_map]

theorem getLast_mono (g : Nat → Rat) (M : Nat) : ((List.range (M + 1)).map g).getLast? = some (g M) := by
  simp [List.range_succ]

/-- **what the examination step decides for a stack along a line** (sorting on, no gaps allowed, no hint): rows
`f j` at strictly increasing distances `g j = n · f j`, given in ANY order `js` of `0 … M`.  The mean spacing is
`(g M − g 0)/M`; the stack is accepted iff every consecutive difference of `g` is close to it and the span
`f M − f 0` is perpendicular to the planes, and then every row gets its plane number. -/
theorem examine_line (nrm : V3) (f : Nat → V3) (g : Nat → Rat) (hfg : ∀ j, nrm.dot (f j) = g j) (hg : StrictMono g)
    {js : List Nat} {M : Nat} (hM : 1 ≤ M) (hp : js.Perm (List.range (M + 1))) (rtol atol : Rat) (enforce : Bool) :
    examine nrm (js.map f) true false none rtol atol enforce
      = .ok (if ((diffs ((List.range (M + 1)).map g)).all fun x => isClose x ((g M - g 0) / (M : Rat)) rtol atol)
                && isPerpendicular nrm ((f M).sub (f 0))
             then some ((g M - g 0) / (M : Rat), js.map Int.ofNat) else none) := by
  have hlen : js.length = M + 1 := by rw [hp.length_eq, List.length_range]
  have h0 : 0 ∈ js := hp.mem_iff.mpr (by simp)
  have hMm : M ∈ js := hp.mem_iff.mpr (by simp)
  have hd : (js.map f).map nrm.dot = js.map g := by
    rw [List.map_map]; apply List.map_congr_left; intro j _; exact hfg j
  have hden : (((M + 1 : Nat) : Rat)) - 1 = (M : Rat) := by push_cast; ring
  have hpos : 0 < (g M - g 0) / (M : Rat) := by
    have h1 : g 0 < g M := hg (by omega)
    have h2 : (0 : Rat) < (M : Rat) := by exact_mod_cast hM
    apply div_pos <;> linarith
  have hns : ¬ (g M - g 0) / (M : Rat) < 0 := not_lt.mpr (le_of_lt hpos)
  unfold examine
  simp only [hd, if_true, ranks_mono hg hp, sortRat_mono hg hp, Bool.false_eq_true, if_false,
    spacingRegular, head_mono, getLast_mono, List.length_map, List.length_range, hden,
    Except.map, bind, Except.bind, pure, Except.pure, hlen, Nat.add_sub_cancel,
    atRank_map f js 0 h0, atRank_map f js M hMm, rabs_of_pos hpos, hns, decide_false, Bool.and_false]
  by_cases hreg : ((diffs ((List.range (M + 1)).map g)).all fun x => isClose x ((g M - g 0) / (M : Rat)) rtol atol) = true
  · simp only [hreg, Bool.true_and]
    by_cases hperp : isPerpendicular nrm ((f M).sub (f 0)) = true
    · simp [hperp]
    · simp [hperp]
  · simp [hreg]



theorem line_injective (nrm : V3) (f : Nat → V3) (g : Nat → Rat) (hfg : ∀ j, nrm.dot (f j) = g j) (hg : StrictMono g) :
    Function.Injective f := by
  intro i j h
  apply hg.injective
  rw [← hfg i, ← hfg j, h]

theorem uniqueRows_line (nrm : V3) (f : Nat → V3) (g : Nat → Rat) (hfg : ∀ j, nrm.dot (f j) = g j) (hg : StrictMono g)
    (js : List Nat) (N : Nat) (hmem : ∀ j, j ∈ js ↔ j < N) :
    ∃ js' : List Nat, js'.Perm (List.range N) ∧ uniqueRows (js.map f) = js'.map f := by
  have hinj := line_injective nrm f g hfg hg
  have hperm : (uniqueRows (js.map f)).Perm ((List.range N).map f) := by
    rw [List.perm_ext_iff_of_nodup (uniqueRows_nodup _) (List.nodup_range.map hinj)]
    intro q
    rw [mem_uniqueRows]
    simp only [List.mem_map, List.mem_range]
    constructor
    · rintro ⟨j, hj, rfl⟩; exact ⟨j, (hmem j).mp hj, rfl⟩
    · rintro ⟨j, hj, rfl⟩; exact ⟨j, (hmem j).mpr hj, rfl⟩
  exact perm_map_exists _ hperm _ rfl

/-- **the decision of `get_volume_positions` for a stack along a line** (rows parsed, normal given, sorting on, no
gaps allowed, no hint): input rows `f j` for plane numbers `js` in any order, covering exactly `0 … M`, duplicates
allowed when declared. -/
theorem volumePositionsOf_line (nrm : V3) (f : Nat → V3) (g : Nat → Rat) (hfg : ∀ j, nrm.dot (f j) = g j)
    (hg : StrictMono g) (js : List Nat) {M : Nat} (hM : 1 ≤ M) (hmem : ∀ j, j ∈ js ↔ j < M + 1) (op : Opts)
    (hsort : op.sort = true) (hmiss : op.allowMissing = false) (hdup : op.allowDuplicate = true ∨ js.Nodup)
    (rtol atol : Rat) :
    volumePositionsOf nrm (js.map f) op none rtol atol
      = .ok (if ((diffs ((List.range (M + 1)).map g)).all fun x => isClose x ((g M - g 0) / (M : Rat)) rtol atol)
                && isPerpendicular nrm ((f M).sub (f 0))
             then some ((g M - g 0) / (M : Rat), js.map Int.ofNat) else none) := by
  have hinj := line_injective nrm f g hfg hg
  obtain ⟨js', hp', hu⟩ := uniqueRows_line nrm f g hfg hg js (M + 1) hmem
  have hlen' : js'.length = M + 1 := by rw [hp'.length_eq, List.length_range]
  have hck : (!op.allowDuplicate && decide (M + 1 < js.length)) = false := by
    rcases hdup with h | h
    · simp [h]
    · have : js.Perm (List.range (M + 1)) := by
        rw [List.perm_ext_iff_of_nodup h List.nodup_range]
        intro j; rw [hmem j, List.mem_range]
      have hl : js.length = M + 1 := by rw [this.length_eq, List.length_range]
      simp [hl]
  have hex := examine_line nrm f g hfg hg hM hp' rtol atol op.enforce
  have hread := readIndices_map hinj js' js (fun j hj => hp'.mem_iff.mpr (by simpa using (hmem j).mp hj))
  have hne : ¬ M + 1 = 1 := by omega
  have hidx : (indexIn (js'.map f) ∘ f) = fun j => (js'.map f).idxOf (f j) := rfl
  unfold volumePositionsOf
  simp only [hsort, if_true, hu, List.length_map, hlen', hmiss, hex, hck, hne, Bool.false_eq_true, if_false,
    bind, Except.bind, pure, Except.pure, List.map_map, hidx]
  split_ifs with hc
  · simp only [hread]
  · rfl

/-! ## the normal vector of a convention -/

theorem nlookup_L : Gen.normalAxisTable.lookup 'L' = some (-1, true) := by decide
theorem nlookup_U : Gen.normalAxisTable.lookup 'U' = some (-1, false) := by decide

/-- the positive normal of an index convention and handedness (specification): the cross product of the two
in-plane axes in the order of the convention, reversed for a left-handed system -/
def normalSpec (o : Ori) (cv : Char × Char) (rh : Bool) : V3 :=
  if rh then (axisVec o cv.1).cross (axisVec o cv.2) else (axisVec o cv.2).cross (axisVec o cv.1)

theorem normalVector_eval (o : Ori) {cv : Char × Char} (hcv : cv ∈ validConventions) (rh : Bool) :
    normalVector o cv rh = .ok (normalSpec o cv rh) := by
  rcases mem_validConventions hcv with rfl | rfl | rfl | rfl | rfl | rfl | rfl | rfl <;> cases rh <;>
    simp [normalVector, normalAxisOf, nlookup_R, nlookup_D, nlookup_L, nlookup_U, crossOrdered, Gen.normalCrossOrder,
      bind, Except.bind, pure, Except.pure, normalSpec, axisVec]

/-- it is a unit vector for orthonormal row / column cosines -/
theorem normalSpec_unit (o : Ori) (ho : OrthoPair o.row o.col) {cv : Char × Char} (hcv : cv ∈ validConventions)
    (rh : Bool) : (normalSpec o cv rh).dot (normalSpec o cv rh) = 1 := by
  have hp := axis_orthoPair o ho hcv
  cases rh
  · simp only [normalSpec, Bool.false_eq_true, if_false]
    have : OrthoPair (axisVec o cv.2) (axisVec o cv.1) := ⟨hp.n1, hp.n0, by
      have := hp.o01
      cases h1 : axisVec o cv.1; cases h2 : axisVec o cv.2
      simp only [h1, h2, V3.dot] at this ⊢; linarith⟩
    rw [V3.cross_dot_self, this.n0, this.n1, this.o01]; ring
  · simp only [normalSpec, if_true]
    rw [V3.cross_dot_self, hp.n0, hp.n1, hp.o01]; ring


/-! ## parsing rows -/

def rowOf (p : V3) : List Rat := [p.x, p.y, p.z]

theorem rowsToV3_rowOf (ps : List V3) : rowsToV3 (ps.map rowOf) = .ok ps := by
  unfold rowsToV3
  induction ps with
  | nil => rfl
  | cons p ps ih =>
    obtain ⟨x, y, z⟩ := p
    simp only [List.map_cons, List.mapM_cons, rowOf, V3.ofList, bind, Except.bind, pure, Except.pure] at ih ⊢
    rw [ih]


theorem diffs_mem_range' (g : Nat → Rat) : ∀ (n a k : Nat), k + 1 < n →
    g (a + k + 1) - g (a + k) ∈ diffs ((List.range' a n).map g) := by
  intro n
  induction n with
  | zero => intro a k h; omega
  | succ n ih =>
    intro a k h
    cases n with
    | zero => omega
    | succ m =>
      simp only [List.range'_succ, List.map_cons, diffs, List.mem_cons]
      cases k with
      | zero => left; simp
      | succ k =>
        right
        have := ih (a + 1) k (by omega)
        simp only [List.range'_succ, List.map_cons] at this
        have e1 : a + 1 + k + 1 = a + (k + 1) + 1 := by omega
        have e2 : a + 1 + k = a + (k + 1) := by omega
        rw [e1, e2] at this
        exact this

/-- every consecutive difference of `g` occurs in `np.diff` of the sorted distances -/
theorem diffs_mem (g : Nat → Rat) (N k : Nat) (h : k + 1 < N) :
    g (k + 1) - g k ∈ diffs ((List.range N).map g) := by
  rw [List.range_eq_range']
  have := diffs_mem_range' g N 0 k h
  simpa using this



theorem readIndices_total {α} (inv : List Int) (k : α → Nat) : ∀ (ps : List α), (∀ p ∈ ps, k p < inv.length) →
    readIndices inv (ps.map k) = .ok (ps.map fun p => inv.getD (k p) 0) := by
  intro ps
  unfold readIndices
  induction ps with
  | nil => intro _; rfl
  | cons p ps ih =>
    intro h
    have hp := h p (List.mem_cons_self)
    have ih' := ih (fun q hq => h q (List.mem_cons_of_mem _ hq))
    have e : inv[k p]? = some (inv.getD (k p) 0) := by
      rw [List.getD_eq_getElem?_getD, List.getElem?_eq_getElem hp]; rfl
    simp only [List.map_cons, List.mapM_cons, e, bind, Except.bind, pure, Except.pure] at ih' ⊢
    rw [ih']

theorem readIndices_fail {α} (inv : List Int) (k : α → Nat) : ∀ (ps : List α), (∃ p ∈ ps, inv.length ≤ k p) →
    readIndices inv (ps.map k) = .error .index := by
  intro ps
  unfold readIndices
  induction ps with
  | nil => rintro ⟨p, hp, _⟩; cases hp
  | cons p ps ih =>
    rintro ⟨q, hq, hlen⟩
    by_cases hp : inv.length ≤ k p
    · have e : inv[k p]? = none := List.getElem?_eq_none hp
      simp only [List.map_cons, List.mapM_cons, e, bind, Except.bind]
    · have e : inv[k p]? = some (inv.getD (k p) 0) := by
        rw [List.getD_eq_getElem?_getD, List.getElem?_eq_getElem (by omega)]; rfl
      have hq' : ∃ q ∈ ps, inv.length ≤ k q := by
        rcases List.mem_cons.mp hq with rfl | hq
        · exact absurd hlen hp
        · exact ⟨q, hq, hlen⟩
      have ih' := ih hq'
      simp only [List.map_cons, List.mapM_cons, e, bind, Except.bind, pure, Except.pure] at ih' ⊢
      rw [ih']

/-- **permutation equivariance** (sorting on): for two input orders of the same rows `get_volume_positions`
either fails alike, refuses both, or accepts both with the same spacing and ONE function from rows to volume
indices serving both orders — permuting the input permutes the output. -/
theorem volumePositionsOf_perm (nrm : V3) {ps ps' : List V3} (h : ps.Perm ps') (op : Opts) (hsort : op.sort = true)
    (hint : Option Rat) (rtol atol : Rat) :
    (∃ e, volumePositionsOf nrm ps op hint rtol atol = .error e ∧ volumePositionsOf nrm ps' op hint rtol atol = .error e) ∨
    (volumePositionsOf nrm ps op hint rtol atol = .ok none ∧ volumePositionsOf nrm ps' op hint rtol atol = .ok none) ∨
    (∃ sp, ∃ f : V3 → Int, volumePositionsOf nrm ps op hint rtol atol = .ok (some (sp, ps.map f)) ∧
      volumePositionsOf nrm ps' op hint rtol atol = .ok (some (sp, ps'.map f))) := by
  have hu : uniqueRows ps' = uniqueRows ps := (uniqueRows_perm h).symm
  have hl : ps'.length = ps.length := h.length_eq.symm
  unfold volumePositionsOf
  simp only [hu, hl, hsort, if_true, bind, Except.bind, pure, Except.pure]
  split_ifs with h1 h2
  · right; left; exact ⟨rfl, rfl⟩
  · right; right; exact ⟨_, fun _ => 0, rfl, rfl⟩
  · cases hex : examine nrm (uniqueRows ps) true op.allowMissing hint rtol atol op.enforce with
    | error e => left; exact ⟨e, rfl, rfl⟩
    | ok r =>
      cases r with
      | none => right; left; exact ⟨rfl, rfl⟩
      | some r =>
        obtain ⟨sp, inv⟩ := r
        simp only []
        by_cases hall : ∀ p ∈ ps, indexIn (uniqueRows ps) p < inv.length
        · right; right
          refine ⟨sp, fun p => inv.getD (indexIn (uniqueRows ps) p) 0, ?_, ?_⟩
          · rw [readIndices_total inv _ ps hall]
          · rw [readIndices_total inv _ ps' (fun p hp => hall p (h.mem_iff.mpr hp))]
        · left
          simp only [not_forall, not_lt, exists_prop] at hall
          obtain ⟨p, hp, hlen⟩ := hall
          refine ⟨.index, ?_, ?_⟩
          · rw [readIndices_fail inv _ ps ⟨p, hp, hlen⟩]
          · rw [readIndices_fail inv _ ps' ⟨p, h.mem_iff.mp hp, hlen⟩]

/-! ## sorting datasets, assembling a series -/

theorem idxOf?_of_mem {α} [DecidableEq α] (a : α) : ∀ (l : List α), a ∈ l → l.idxOf? a = some (l.idxOf a) := by
  intro l
  induction l with
  | nil => intro h; cases h
  | cons x xs ih =>
    intro h
    by_cases hx : x = a
    · subst hx; simp [List.idxOf?, List.findIdx?_cons]
    · have hm : a ∈ xs := by
        rcases List.mem_cons.mp h with e | e
        · exact absurd e.symm hx
        · exact e
      have := ih hm
      simp only [List.idxOf?] at this ⊢
      simp [List.findIdx?_cons, hx, this]

/-- `np.argsort` of the distances of a stack along a line, any input order: position `r` holds where plane `r` is -/
theorem argsort_mono {g : Nat → Rat} (hg : StrictMono g) {js : List Nat} {N : Nat} (hp : js.Perm (List.range N)) :
    argsort (js.map g) = (List.range N).map fun r => js.idxOf r := by
  have hlen : js.length = N := by rw [hp.length_eq, List.length_range]
  unfold argsort
  simp only [ranks_mono hg hp, List.length_map, hlen]
  rw [← List.filterMap_eq_map]
  apply List.filterMap_congr
  intro r hr
  exact idxOf?_of_mem r js (hp.mem_iff.mpr hr)

theorem filterMap_getElem_idxOf {β} (F : Nat → β) (js : List Nat) (N : Nat) (hsub : ∀ r < N, r ∈ js) :
    ((List.range N).map fun r => js.idxOf r).filterMap (fun i => (js.map F)[i]?) = (List.range N).map F := by
  rw [List.filterMap_map]
  have h : ∀ r ∈ List.range N, ((fun i => (js.map F)[i]?) ∘ fun r => js.idxOf r) r = (fun r => some (F r)) r := by
    intro r hr
    simp only [Function.comp]
    exact getElem?_idxOf_map F r js (hsub r (List.mem_range.mp hr))
  rw [List.filterMap_congr h]
  exact congrFun (List.filterMap_eq_map (f := F)) (List.range N)


theorem mapM_ok_of_forall {α β} (F : α → Except ErrKind β) (G : α → β) : ∀ (l : List α), (∀ a ∈ l, F a = .ok (G a)) →
    l.mapM F = .ok (l.map G) := by
  intro l
  induction l with
  | nil => intro _; rfl
  | cons a l ih =>
    intro h
    have ha := h a (List.mem_cons_self)
    have ih' := ih (fun b hb => h b (List.mem_cons_of_mem _ hb))
    simp only [List.mapM_cons, ha, ih', List.map_cons, bind, Except.bind, pure, Except.pure]


/-- the assembly order of a regular series is the plane order, whatever the input order -/
theorem seriesOrder_regular {α} (F : Nat → α) {js : List Nat} {N : Nat} (hp : js.Perm (List.range N)) :
    seriesOrder (js.map F) (js.map Int.ofNat) = .ok ((List.range N).map F) := by
  have hlen : js.length = N := by rw [hp.length_eq, List.length_range]
  unfold seriesOrder
  rw [List.length_map, hlen]
  apply mapM_ok_of_forall
  intro i hi
  have hi' : i ∈ js := hp.mem_iff.mpr hi
  have hinj : Function.Injective Int.ofNat := fun a b h => Int.ofNat.inj h
  have hm : (Int.ofNat i) ∈ js.map Int.ofNat := List.mem_map_of_mem hi'
  rw [idxOf?_of_mem _ _ hm, idxOf_map_injective hinj]
  simp only [getElem?_idxOf_map F i js hi']

/-! ## `sort=False`: the positions are examined in the order given -/

/-- the examination step without sorting on rows `f 0, f 1, …, f M` IN THIS ORDER at distances `g j` (any `g`):
the spacing is `(g M − g 0)/M` (signed), indices are `0 … M`. -/
theorem examine_unsorted (nrm : V3) (f : Nat → V3) (g : Nat → Rat) (hfg : ∀ j, nrm.dot (f j) = g j)
    {M : Nat} (rtol atol : Rat) (enforce : Bool) :
    examine nrm ((List.range (M + 1)).map f) false false none rtol atol enforce
      = .ok (let sp := (g M - g 0) / (M : Rat)
             let reg := (diffs ((List.range (M + 1)).map g)).all fun x => isClose x sp rtol atol
             if reg && enforce && decide (sp < 0) then none
             else if reg && isPerpendicular nrm ((f M).sub (f 0)) then
               some (rabs sp, (List.range (M + 1)).map Int.ofNat) else none) := by
  have hd : ((List.range (M + 1)).map f).map nrm.dot = (List.range (M + 1)).map g := by
    rw [List.map_map]; apply List.map_congr_left; intro j _; exact hfg j
  have hden : (((M + 1 : Nat) : Rat)) - 1 = (M : Rat) := by push_cast; ring
  have h0 : 0 ∈ List.range (M + 1) := by simp
  have hMm : M ∈ List.range (M + 1) := by simp
  unfold examine
  simp only [hd, Bool.false_eq_true, if_false, spacingRegular, head_mono, getLast_mono, List.length_map,
    List.length_range, hden, Except.map, bind, Except.bind, pure, Except.pure, Nat.add_sub_cancel,
    atRank_map f (List.range (M + 1)) 0 h0, atRank_map f (List.range (M + 1)) M hMm]
  split_ifs <;> rfl


theorem readIndices_range (n : Nat) : readIndices ((List.range n).map Int.ofNat) (List.range n) = .ok ((List.range n).map Int.ofNat) := by
  have := readIndices_total ((List.range n).map Int.ofNat) (fun k : Nat => k) (List.range n)
    (fun p hp => by simpa using hp)
  simp only [List.map_id'] at this
  rw [this]
  congr 1
  apply List.map_congr_left
  intro k hk
  have hk' : k < n := List.mem_range.mp hk
  simp [List.getD_eq_getElem?_getD, hk']

/-- **`sort=False`** (repaired behaviour): rows `f 0 … f M` examined IN THE GIVEN ORDER; distinct rows. -/
theorem volumePositionsOf_unsorted (nrm : V3) (f : Nat → V3) (g : Nat → Rat) (hfg : ∀ j, nrm.dot (f j) = g j)
    (hinj : Function.Injective f) {M : Nat} (hM : 1 ≤ M) (op : Opts) (hsort : op.sort = false)
    (hmiss : op.allowMissing = false) (rtol atol : Rat) :
    volumePositionsOf nrm ((List.range (M + 1)).map f) op none rtol atol
      = .ok (let sp := (g M - g 0) / (M : Rat)
             let reg := (diffs ((List.range (M + 1)).map g)).all fun x => isClose x sp rtol atol
             if reg && op.enforce && decide (sp < 0) then none
             else if reg && isPerpendicular nrm ((f M).sub (f 0)) then
               some (rabs sp, (List.range (M + 1)).map Int.ofNat) else none) := by
  have hnd : ((List.range (M + 1)).map f).Nodup := List.nodup_range.map hinj
  have hlt : ¬ (uniqueRows ((List.range (M + 1)).map f)).length < ((List.range (M + 1)).map f).length := by
    rw [uniqueRows_length_lt_iff]; exact not_not.mpr hnd
  have hlt' : ¬ (uniqueRows ((List.range (M + 1)).map f)).length < M + 1 := by simpa using hlt
  have hne : ¬ M + 1 = 1 := by omega
  unfold volumePositionsOf
  simp only [List.length_map, List.length_range, hlt', decide_false, Bool.and_false, Bool.false_eq_true, if_false, hsort,
    hne, hmiss, examine_unsorted nrm f g hfg rtol atol op.enforce, bind, Except.bind, pure, Except.pure]
  split_ifs <;> first | rfl | simp only [readIndices_range]


/-- `np.diff` of an arithmetic progression is constant -/
theorem diffs_const (g : Nat → Rat) (c : Rat) (hg : ∀ j, g (j + 1) - g j = c) : ∀ (n a : Nat), ∀ x ∈ diffs ((List.range' a n).map g), x = c := by
  intro n
  induction n with
  | zero => intro a x hx; simp [diffs] at hx
  | succ n ih =>
    intro a x hx
    cases n with
    | zero => simp [List.range', diffs] at hx
    | succ m =>
      simp only [List.range'_succ, List.map_cons, diffs, List.mem_cons] at hx
      rcases hx with rfl | hx
      · exact hg a
      · apply ih (a + 1) x
        simpa only [List.range'_succ, List.map_cons] using hx

/-! ## gaps allowed: smallest gap, multiples, rounding -/

theorem foldl_min_le (l : List Rat) : ∀ a : Rat, l.foldl min a ≤ a ∧ ∀ x ∈ l, l.foldl min a ≤ x := by
  induction l with
  | nil => intro a; exact ⟨le_refl _, fun x hx => by cases hx⟩
  | cons y ys ih =>
    intro a
    obtain ⟨h1, h2⟩ := ih (min a y)
    simp only [List.foldl_cons]
    refine ⟨le_trans h1 (min_le_left _ _), ?_⟩
    intro x hx
    rcases List.mem_cons.mp hx with rfl | hx
    · exact le_trans h1 (min_le_right _ _)
    · exact h2 x hx

theorem foldl_min_mem (l : List Rat) : ∀ a : Rat, l.foldl min a = a ∨ l.foldl min a ∈ l := by
  induction l with
  | nil => intro a; left; rfl
  | cons y ys ih =>
    intro a
    simp only [List.foldl_cons]
    rcases ih (min a y) with h | h
    · rcases min_choice a y with h' | h'
      · left; rw [h, h']
      · right; rw [h, h']; exact List.mem_cons_self
    · right; exact List.mem_cons_of_mem _ h

/-- `min()` of a non-empty list is its least element -/
theorem minList_eq {l : List Rat} {m : Rat} (hm : m ∈ l) (hle : ∀ x ∈ l, m ≤ x) : minList l = some m := by
  cases l with
  | nil => cases hm
  | cons a as =>
    simp only [minList, Option.some.injEq]
    obtain ⟨h1, h2⟩ := foldl_min_le as a
    apply le_antisymm
    · rcases List.mem_cons.mp hm with rfl | hm'
      · exact h1
      · exact h2 m hm'
    · rcases foldl_min_mem as a with h | h
      · rw [h]; exact hle a List.mem_cons_self
      · exact hle _ (List.mem_cons_of_mem _ h)

/-- every element of `np.diff` of `g 0 … g (N−1)` is a consecutive difference -/
theorem diffs_elem (g : Nat → Rat) : ∀ (n a : Nat), ∀ x ∈ diffs ((List.range' a n).map g),
    ∃ j, a ≤ j ∧ j + 1 < a + n ∧ x = g (j + 1) - g j := by
  intro n
  induction n with
  | zero => intro a x hx; simp [diffs] at hx
  | succ n ih =>
    intro a x hx
    cases n with
    | zero => simp [List.range', diffs] at hx
    | succ m =>
      simp only [List.range'_succ, List.map_cons, diffs, List.mem_cons] at hx
      rcases hx with rfl | hx
      · exact ⟨a, le_refl _, by omega, rfl⟩
      · have hx' : x ∈ diffs ((List.range' (a + 1) (m + 1)).map g) := by
          simpa only [List.range'_succ, List.map_cons] using hx
        obtain ⟨j, h1, h2, h3⟩ := ih (a + 1) x hx'
        exact ⟨j, by omega, by omega, h3⟩

/-- the least distance of a stack along a line, whatever the input order -/
theorem minList_mono {g : Nat → Rat} (hg : StrictMono g) {js : List Nat} {M : Nat} (hp : js.Perm (List.range (M + 1))) :
    minList (js.map g) = some (g 0) := by
  apply minList_eq
  · exact List.mem_map_of_mem (hp.mem_iff.mpr (by simp))
  · intro x hx
    obtain ⟨j, _, rfl⟩ := List.mem_map.mp hx
    exact hg.monotone (Nat.zero_le j)

theorem roundHalfEven_natCast (n : Nat) : roundHalfEven ((n : Nat) : Rat) = (n : Int) := by
  have := roundHalfEven_intCast (n : Int)
  simpa using this

/-! ## the refined spacing estimate (gaps allowed, no hint) -/

theorem refineSpacing_nil (s : Rat) : refineSpacing s [] = s := rfl

theorem refineSpacing_cons (s D : Rat) (ds : List Rat) :
    refineSpacing s (D :: ds)
      = refineSpacing (if 0 < roundHalfEven (D / s) then D / ((roundHalfEven (D / s) : Int) : Rat) else s) ds := rfl

/-- on an exact stack (every distance a whole multiple of `s`) the refinement changes nothing -/
theorem refineSpacing_exact {s : Rat} (hs : 0 < s) : ∀ (ds : List Rat), (∀ D ∈ ds, ∃ n : Nat, D = (n : Rat) * s) →
    refineSpacing s ds = s := by
  intro ds
  induction ds with
  | nil => intro _; rfl
  | cons D ds ih =>
    intro h
    obtain ⟨n, hn⟩ := h D List.mem_cons_self
    have hq : D / s = ((n : Nat) : Rat) := by rw [hn]; field_simp
    rw [refineSpacing_cons, hq, roundHalfEven_natCast]
    by_cases h0 : (0 : Int) < (n : Int)
    · have hn0 : ((n : Nat) : Rat) ≠ 0 := by
        have : 0 < n := by exact_mod_cast h0
        exact_mod_cast (Nat.pos_iff_ne_zero.mp this)
      have e : D / (((n : Int) : Int) : Rat) = s := by
        rw [hn]; push_cast; field_simp
      rw [if_pos h0, e]
      exact ih (fun D' hD' => h D' (List.mem_cons_of_mem _ hD'))
    · rw [if_neg h0]
      exact ih (fun D' hD' => h D' (List.mem_cons_of_mem _ hD'))

/-- the refined estimate stays positive (distances above the lowest plane are not negative) -/
theorem refineSpacing_pos : ∀ (ds : List Rat) {s : Rat}, 0 < s → (∀ D ∈ ds, 0 ≤ D) → 0 < refineSpacing s ds := by
  intro ds
  induction ds with
  | nil => intro s hs _; exact hs
  | cons D ds ih =>
    intro s hs h
    rw [refineSpacing_cons]
    apply ih _ (fun D' hD' => h D' (List.mem_cons_of_mem _ hD'))
    by_cases h0 : 0 < roundHalfEven (D / s)
    · rw [if_pos h0]
      have hD : 0 ≤ D := h D List.mem_cons_self
      have hn : (0 : Rat) < ((roundHalfEven (D / s) : Int) : Rat) := by exact_mod_cast h0
      rcases lt_or_eq_of_le hD with hpos | hz
      · exact div_pos hpos hn
      · exfalso
        rw [← hz, zero_div] at h0
        have : roundHalfEven 0 = 0 := by simpa using roundHalfEven_intCast 0
        rw [this] at h0; exact lt_irrefl _ h0
    · rw [if_neg h0]; exact hs

theorem estimateSpacing_of_min {ds : List Rat} {m : Rat} (hm : minList (diffs ds) = some m)
    (hz : isClose m 0 npRtol eqTol = false) :
    estimateSpacing ds = .ok (some (refineSpacing m (ds.tail.map fun x => x - ds.headD 0))) := by
  unfold estimateSpacing
  simp only [hm, hz, Bool.false_eq_true, if_false, pure, Except.pure]

theorem estimateSpacing_inv {ds : List Rat} {s : Rat} (h : estimateSpacing ds = .ok (some s)) :
    ∃ m, minList (diffs ds) = some m ∧ isClose m 0 npRtol eqTol = false ∧
      s = refineSpacing m (ds.tail.map fun x => x - ds.headD 0) := by
  unfold estimateSpacing at h
  cases hml : minList (diffs ds) with
  | none => simp [hml] at h
  | some m =>
    simp only [hml] at h
    split at h
    · cases h
    · rename_i hc
      simp only [pure, Except.pure, Except.ok.injEq, Option.some.injEq] at h
      exact ⟨m, rfl, by simpa using hc, h.symm⟩

/-- the gaps branch on a stack with missing planes: present planes `j = 0 … M` (in order of distance) carry the
plane numbers `k j` (`k` strictly increasing, `k 0 = 0`); the spacing is known from the hint or from two
neighbouring planes that are both present. -/
theorem examine_gaps (o nrm : V3) (hn : nrm.dot nrm = 1) {s : Rat} (hs : 0 < s) (k : Nat → Nat) (hk : StrictMono k)
    (hk0 : k 0 = 0) {js : List Nat} {M : Nat} (hM : 1 ≤ M) (hp : js.Perm (List.range (M + 1)))
    (hint : Option Rat)
    (hsp : hint = some s ∨ (hint = none ∧ (∃ j, j < M ∧ k (j + 1) = k j + 1) ∧ isClose s 0 npRtol eqTol = false))
    {rtol atol : Rat} (hr : 0 ≤ rtol) (ha : 0 ≤ atol) (enforce : Bool) :
    examine nrm (js.map fun j => planePos o nrm s (k j)) true true hint rtol atol enforce
      = .ok (some (s, js.map fun j => ((k j : Nat) : Int))) := by
  set c := nrm.dot o with hc
  let g : Nat → Rat := fun j => gdist c s (k j)
  have hg : StrictMono g := fun a b h => gdist_lt hs (hk h)
  have hlen : js.length = M + 1 := by rw [hp.length_eq, List.length_range]
  have h0 : 0 ∈ js := hp.mem_iff.mpr (by simp)
  have hMm : M ∈ js := hp.mem_iff.mpr (by simp)
  have hd : (js.map fun j => planePos o nrm s (k j)).map nrm.dot = js.map g := by
    rw [List.map_map]; apply List.map_congr_left; intro j _; exact dot_planePos o nrm s hn (k j)
  -- the spacing found
  have hmin : hint = none → minList (diffs ((List.range (M + 1)).map g)) = some s := by
    intro hnone
    rcases hsp with h | ⟨_, ⟨j, hj, hkj⟩, _⟩
    · rw [hnone] at h; cases h
    · apply minList_eq
      · have := diffs_mem g (M + 1) j (by omega)
        have e : g (j + 1) - g j = s := by
          simp only [g, gdist, hkj]; push_cast; ring
        rw [e] at this; exact this
      · intro x hx
        rw [List.range_eq_range'] at hx
        obtain ⟨i, _, _, rfl⟩ := diffs_elem g _ _ x hx
        have h1 : k i + 1 ≤ k (i + 1) := hk (Nat.lt_succ_self i)
        have h2 : ((k i : Nat) : Rat) + 1 ≤ ((k (i + 1) : Nat) : Rat) := by exact_mod_cast h1
        simp only [g, gdist]
        nlinarith
  have hmult : (js.map g).map (fun x => (x - g 0) / s) = js.map fun j => ((k j : Nat) : Rat) := by
    rw [List.map_map]
    apply List.map_congr_left
    intro j _
    simp only [Function.comp, g, gdist, hk0]
    rw [div_eq_iff (ne_of_gt hs)]; push_cast; ring
  have hround : (js.map fun j => ((k j : Nat) : Rat)).map roundHalfEven = js.map fun j => ((k j : Nat) : Int) := by
    rw [List.map_map]; apply List.map_congr_left; intro j _; exact roundHalfEven_natCast (k j)
  have htau : 0 ≤ rtol + atol / rabs s := add_nonneg hr (div_nonneg ha (rabs_nonneg s))
  have hreg : (((js.map fun j => ((k j : Nat) : Rat)).zip (js.map fun j => ((k j : Nat) : Int))).all
      fun mr => isClose mr.1 (mr.2 : Rat) 0 (rtol + atol / rabs s)) = true := by
    rw [List.zip_map', List.all_map, List.all_eq_true]
    intro j _
    simp only [Function.comp, Int.cast_natCast]
    exact isClose_self _ 0 _ (le_refl 0) htau
  have hnd : decide ((js.map fun j => ((k j : Nat) : Int)).Nodup) = true := by
    apply decide_eq_true
    have hjs : js.Nodup := hp.nodup_iff.mpr List.nodup_range
    refine List.Nodup.map ?_ hjs
    intro a b hab
    have : k a = k b := by simp only at hab; exact_mod_cast hab
    exact hk.injective this
  have hkM : ((k M : Nat) : Rat) * s ≠ 0 := by
    have h1 : M ≤ k M := hk.le_apply
    have h2 : (1 : Rat) ≤ ((k M : Nat) : Rat) := by exact_mod_cast (le_trans hM h1)
    have : 0 < ((k M : Nat) : Rat) * s := by positivity
    exact ne_of_gt this
  have hspan : (planePos o nrm s (k M)).sub (planePos o nrm s (k 0)) = V3.smul (((k M : Nat) : Rat) * s) nrm := by
    rw [hk0]; exact planePos_span o nrm s (k M)
  have hns : ¬ s < 0 := not_lt.mpr (le_of_lt hs)
  have hspm : spacingMissing (js.map g) ((List.range (M + 1)).map g) hint rtol atol
      = .ok (some (s, true, js.map fun j => ((k j : Nat) : Int))) := by
    unfold spacingMissing
    rcases hsp with h | ⟨h, _, hz⟩
    · subst h
      simp only [minList_mono hg hp, hmult, hround, hreg, hnd, Bool.and_self, bind, Except.bind, pure, Except.pure]
    · have hm := hmin h
      subst h
      have hest : estimateSpacing ((List.range (M + 1)).map g) = .ok (some s) := by
        rw [estimateSpacing_of_min hm hz]
        congr 2
        apply refineSpacing_exact hs
        intro D hD
        rw [List.mem_map] at hD
        obtain ⟨x, hx, rfl⟩ := hD
        have hx' : x ∈ (List.range (M + 1)).map g := List.mem_of_mem_tail hx
        rw [List.mem_map] at hx'
        obtain ⟨j, _, rfl⟩ := hx'
        refine ⟨k j, ?_⟩
        have h0' : ((List.range (M + 1)).map g).headD 0 = g 0 := by
          rw [List.range_succ_eq_map]; rfl
        rw [h0']
        simp only [g, gdist, hk0]; push_cast; ring
      simp only [hest, minList_mono hg hp, hmult, hround, hreg, hnd, Bool.and_self, bind, Except.bind, pure, Except.pure]
  unfold examine
  simp only [hd, if_true, ranks_mono hg hp, sortRat_mono hg hp, hspm, bind, Except.bind, pure, Except.pure,
    List.length_map, hlen, Nat.add_sub_cancel, Bool.true_and,
    atRank_map (fun j => planePos o nrm s (k j)) js 0 h0, atRank_map (fun j => planePos o nrm s (k j)) js M hMm,
    hspan, isPerpendicular_smul nrm hn hkM, rabs_of_pos hs, hns, decide_false, Bool.and_false, Bool.false_eq_true,
    if_false]


theorem readIndices_map' {β} [DecidableEq β] {f : Nat → β} (hf : Function.Injective f) (G : Nat → Int) (js' js : List Nat)
    (hsub : ∀ j ∈ js, j ∈ js') :
    readIndices (js'.map G) (js.map fun j => (js'.map f).idxOf (f j)) = .ok (js.map G) := by
  unfold readIndices
  induction js with
  | nil => rfl
  | cons j js ih =>
    have hj : j ∈ js' := hsub j (List.mem_cons_self)
    have ih' := ih (fun k hk => hsub k (List.mem_cons_of_mem _ hk))
    simp only [List.map_cons, List.mapM_cons, idxOf_map_injective hf, getElem?_idxOf_map G j js' hj, bind,
      Except.bind, pure, Except.pure] at ih' ⊢
    rw [ih']

/-- **stacks with gaps are recognised** (rows parsed, normal given, `allow_missing_positions`): planes
`o + k_j·s·n` for the present planes `j = 0 … M` (`k` strictly increasing, `k 0 = 0`), input in any order,
duplicates when declared; spacing from the hint or from two present neighbours. -/
theorem volumePositionsOf_gaps (o nrm : V3) (hn : nrm.dot nrm = 1) {s : Rat} (hs : 0 < s) (k : Nat → Nat) (hk : StrictMono k)
    (hk0 : k 0 = 0) (js : List Nat) {M : Nat} (hM : 1 ≤ M) (hmem : ∀ j, j ∈ js ↔ j < M + 1) (op : Opts)
    (hsort : op.sort = true) (hmiss : op.allowMissing = true) (hdup : op.allowDuplicate = true ∨ js.Nodup)
    (hint : Option Rat)
    (hsp : hint = some s ∨ (hint = none ∧ (∃ j, j < M ∧ k (j + 1) = k j + 1) ∧ isClose s 0 npRtol eqTol = false))
    {rtol atol : Rat} (hr : 0 ≤ rtol) (ha : 0 ≤ atol) :
    volumePositionsOf nrm (js.map fun j => planePos o nrm s (k j)) op hint rtol atol
      = .ok (some (s, js.map fun j => ((k j : Nat) : Int))) := by
  have hfg : ∀ j, nrm.dot (planePos o nrm s (k j)) = gdist (nrm.dot o) s (k j) := fun j => dot_planePos o nrm s hn (k j)
  have hg : StrictMono fun j => gdist (nrm.dot o) s (k j) := fun a b h => gdist_lt hs (hk h)
  have hinj := line_injective nrm _ _ hfg hg
  obtain ⟨js', hp', hu⟩ := uniqueRows_line nrm _ _ hfg hg js (M + 1) hmem
  have hlen' : js'.length = M + 1 := by rw [hp'.length_eq, List.length_range]
  have hck : (!op.allowDuplicate && decide (M + 1 < js.length)) = false := by
    rcases hdup with h | h
    · simp [h]
    · have : js.Perm (List.range (M + 1)) := by
        rw [List.perm_ext_iff_of_nodup h List.nodup_range]
        intro j; rw [hmem j, List.mem_range]
      have hl : js.length = M + 1 := by rw [this.length_eq, List.length_range]
      simp [hl]
  have hex := examine_gaps o nrm hn hs k hk hk0 hM hp' hint hsp hr ha op.enforce
  have hread := readIndices_map' hinj (fun j => ((k j : Nat) : Int)) js' js
    (fun j hj => hp'.mem_iff.mpr (by simpa using (hmem j).mp hj))
  have hne : ¬ M + 1 = 1 := by omega
  have hidx : (indexIn (js'.map fun j => planePos o nrm s (k j)) ∘ fun j => planePos o nrm s (k j))
      = fun j => (js'.map fun j => planePos o nrm s (k j)).idxOf (planePos o nrm s (k j)) := rfl
  unfold volumePositionsOf
  simp only [hsort, if_true, hu, List.length_map, hlen', hmiss, hex, hck, hne, Bool.false_eq_true, if_false,
    bind, Except.bind, pure, Except.pure, List.map_map, hidx, hread]

/-- lifting any decision of the examination step (sorting on) on a stack along a line to the whole function: if
for EVERY order `js'` of the planes the examination answers `R` with indices `js'.map G`, the function answers
`R` with indices `js.map G` for the input order `js` (duplicates when declared). -/
theorem volumePositionsOf_lift (nrm : V3) (f : Nat → V3) (g : Nat → Rat) (hfg : ∀ j, nrm.dot (f j) = g j)
    (hg : StrictMono g) (js : List Nat) {M : Nat} (hM : 1 ≤ M) (hmem : ∀ j, j ∈ js ↔ j < M + 1) (op : Opts)
    (hsort : op.sort = true) (hdup : op.allowDuplicate = true ∨ js.Nodup) (hint : Option Rat) (rtol atol : Rat)
    (G : Nat → Int) (R : Except ErrKind (Option Rat))
    (hex : ∀ js' : List Nat, js'.Perm (List.range (M + 1)) →
      examine nrm (js'.map f) true op.allowMissing hint rtol atol op.enforce
        = R.map (Option.map fun sp => (sp, js'.map G))) :
    volumePositionsOf nrm (js.map f) op hint rtol atol = R.map (Option.map fun sp => (sp, js.map G)) := by
  have hinj := line_injective nrm f g hfg hg
  obtain ⟨js', hp', hu⟩ := uniqueRows_line nrm f g hfg hg js (M + 1) hmem
  have hlen' : js'.length = M + 1 := by rw [hp'.length_eq, List.length_range]
  have hck : (!op.allowDuplicate && decide (M + 1 < js.length)) = false := by
    rcases hdup with h | h
    · simp [h]
    · have : js.Perm (List.range (M + 1)) := by
        rw [List.perm_ext_iff_of_nodup h List.nodup_range]
        intro j; rw [hmem j, List.mem_range]
      have hl : js.length = M + 1 := by rw [this.length_eq, List.length_range]
      simp [hl]
  have hread := readIndices_map' hinj G js' js (fun j hj => hp'.mem_iff.mpr (by simpa using (hmem j).mp hj))
  have hne : ¬ M + 1 = 1 := by omega
  have hidx : (indexIn (js'.map f) ∘ f) = fun j => (js'.map f).idxOf (f j) := rfl
  unfold volumePositionsOf
  simp only [hsort, if_true, hu, List.length_map, hlen', hex js' hp', hck, hne, Bool.false_eq_true, if_false,
    bind, Except.bind, pure, Except.pure, List.map_map, hidx]
  cases R with
  | error e => rfl
  | ok r =>
    cases r with
    | none => rfl
    | some sp => simp only [Except.map, Option.map, hread]

/-- the examination step with a spacing hint (no gaps allowed): a hint that is not within tolerance of the inferred
spacing is REPORTED (RuntimeError), a matching hint changes nothing. -/
theorem examine_line_hint (nrm : V3) (f : Nat → V3) (g : Nat → Rat) (hfg : ∀ j, nrm.dot (f j) = g j) (hg : StrictMono g)
    {js : List Nat} {M : Nat} (hM : 1 ≤ M) (hp : js.Perm (List.range (M + 1))) (h rtol atol : Rat) (enforce : Bool) :
    examine nrm (js.map f) true false (some h) rtol atol enforce
      = if isClose ((g M - g 0) / (M : Rat)) h rtol atol then examine nrm (js.map f) true false none rtol atol enforce
        else .error .runtime := by
  have hlen : js.length = M + 1 := by rw [hp.length_eq, List.length_range]
  have hd : (js.map f).map nrm.dot = js.map g := by
    rw [List.map_map]; apply List.map_congr_left; intro j _; exact hfg j
  have hden : (((M + 1 : Nat) : Rat)) - 1 = (M : Rat) := by push_cast; ring
  have hpos : 0 < (g M - g 0) / (M : Rat) := by
    have h1 : g 0 < g M := hg (by omega)
    have h2 : (0 : Rat) < (M : Rat) := by exact_mod_cast hM
    apply div_pos <;> linarith
  unfold examine
  simp only [hd, if_true, ranks_mono hg hp, sortRat_mono hg hp, Bool.false_eq_true, if_false,
    spacingRegular, head_mono, getLast_mono, List.length_map, List.length_range, hden, rabs_of_pos hpos]
  by_cases hc : isClose ((g M - g 0) / (M : Rat)) h rtol atol = true
  · simp [hc]
  · simp [hc, Except.map, bind, Except.bind]

/-! ## ranks in general (ties allowed): rank order refines distance order -/

theorem ranksAux_getElem (all : List Rat) : ∀ (suf pre : List Rat) (t : Nat) (ht : t < suf.length),
    (ranksAux all pre suf)[t]? = some (all.countP (fun y => decide (y < suf[t])) +
      (pre ++ suf.take t).countP (fun y => decide (y = suf[t]))) := by
  intro suf
  induction suf with
  | nil => intro pre t ht; simp at ht
  | cons x xs ih =>
    intro pre t ht
    cases t with
    | zero => simp [ranksAux]
    | succ t =>
      have ht' : t < xs.length := by simpa using ht
      have := ih (pre ++ [x]) t ht'
      simp only [ranksAux, List.getElem?_cons_succ, List.getElem_cons_succ, List.take_succ_cons, this]
      simp [List.append_assoc]

theorem ranks_getElem (d : List Rat) (a : Nat) (ha : a < d.length) :
    (ranks d)[a]? = some (d.countP (fun y => decide (y < d[a])) + (d.take a).countP (fun y => decide (y = d[a]))) := by
  have := ranksAux_getElem d d [] a ha
  simpa [ranks] using this

theorem countP_eq_take_lt (d : List Rat) (a : Nat) (ha : a < d.length) :
    (d.take a).countP (fun y => decide (y = d[a])) < d.countP (fun y => decide (y = d[a])) := by
  generalize hx : d[a] = x
  have hsplit : d.countP (fun y => decide (y = x)) = (d.take a).countP (fun y => decide (y = x))
      + (d.drop a).countP (fun y => decide (y = x)) := by
    rw [← List.countP_append, List.take_append_drop]
  have hdrop : d.drop a = d[a] :: d.drop (a + 1) := (List.drop_eq_getElem_cons ha)
  have : 0 < (d.drop a).countP (fun y => decide (y = x)) := by
    rw [hdrop, List.countP_cons, hx]
    simp
  omega

theorem countP_lt_add_eq_le (d : List Rat) (x y : Rat) (hxy : x < y) :
    d.countP (fun z => decide (z < x)) + d.countP (fun z => decide (z = x)) ≤ d.countP (fun z => decide (z < y)) := by
  induction d with
  | nil => simp
  | cons z zs ih =>
    simp only [List.countP_cons]
    by_cases h1 : z < x
    · have h2 : z < y := lt_trans h1 hxy
      have h3 : ¬ z = x := ne_of_lt h1
      simp [h1, h2, h3]; omega
    · by_cases h3 : z = x
      · subst h3; simp [hxy]; omega
      · by_cases h2 : z < y
        · simp [h1, h2, h3]; omega
        · simp [h1, h2, h3]; omega

/-- **smaller distance ⇒ smaller rank**, ties or not -/
theorem ranks_lt_of_lt (d : List Rat) (a b : Nat) (ha : a < d.length) (hb : b < d.length) (hlt : d[a] < d[b])
    (ra rb : Nat) (hra : (ranks d)[a]? = some ra) (hrb : (ranks d)[b]? = some rb) : ra < rb := by
  rw [ranks_getElem d a ha] at hra
  rw [ranks_getElem d b hb] at hrb
  cases hra; cases hrb
  have h1 := countP_eq_take_lt d a ha
  have h2 := countP_lt_add_eq_le d d[a] d[b] hlt
  omega

theorem bind_ok {α β} {x : Except ErrKind α} {f : α → Except ErrKind β} {b : β} (h : x >>= f = .ok b) :
    ∃ a, x = .ok a ∧ f a = .ok b := by
  cases x with
  | error e => simp [bind, Except.bind] at h
  | ok a => exact ⟨a, rfl, by simpa [bind, Except.bind] using h⟩

theorem spacingRegular_inv {ds : List Rat} {rk : List Nat} {hint : Option Rat} {rtol atol s : Rat} {reg : Bool}
    {inv' : List Int} (h : spacingRegular ds rk hint rtol atol = .ok (s, reg, inv')) : inv' = rk.map Int.ofNat := by
  unfold spacingRegular at h
  cases hh : ds.head? with
  | none => simp [hh] at h
  | some lo =>
    cases hl : ds.getLast? with
    | none => simp [hh, hl] at h
    | some hi =>
      simp only [hh, hl] at h
      cases hint with
      | none => simp only [Except.ok.injEq, Prod.mk.injEq] at h; exact h.2.2.symm
      | some x =>
        simp only [] at h
        split at h
        · cases h
        · simp only [Except.ok.injEq, Prod.mk.injEq] at h; exact h.2.2.symm

/-- what an accepting examination step (sorting on, no gaps) returns as indices: the ranks of the distances -/
theorem examine_some_inv {nrm : V3} {u : List V3} {hint : Option Rat} {rtol atol : Rat} {enforce : Bool} {sp : Rat}
    {inv : List Int} (h : examine nrm u true false hint rtol atol enforce = .ok (some (sp, inv))) :
    inv = (ranks (u.map nrm.dot)).map Int.ofNat := by
  unfold examine at h
  simp only [if_true, Bool.false_eq_true, if_false] at h
  obtain ⟨r, hr, h⟩ := bind_ok h
  cases hsr : spacingRegular (sortRat (u.map nrm.dot)) (ranks (u.map nrm.dot)) hint rtol atol with
  | error e => simp [hsr, Except.map] at hr
  | ok r' =>
    obtain ⟨s, reg, inv'⟩ := r'
    have hinv' := spacingRegular_inv hsr
    simp only [hsr, Except.map, Except.ok.injEq] at hr
    subst hr
    simp only [pure, Except.pure] at h
    split at h
    · cases h
    · split at h
      · split at h
        · simp only [Except.ok.injEq, Option.some.injEq, Prod.mk.injEq] at h
          rw [← h.2]; exact hinv'
        · cases h
      · cases h

theorem readIndices_getElem {α} (inv : List Int) (k : α → Nat) : ∀ (ps : List α) (vp : List Int),
    readIndices inv (ps.map k) = .ok vp → ∀ i (hi : i < ps.length), vp[i]? = inv[k ps[i]]? ∧ (inv[k ps[i]]?).isSome := by
  intro ps
  unfold readIndices
  induction ps with
  | nil => intro vp _ i hi; simp at hi
  | cons p ps ih =>
    intro vp h i hi
    simp only [List.map_cons, List.mapM_cons] at h
    obtain ⟨v, hv, h⟩ := bind_ok h
    obtain ⟨rest, hrest, h⟩ := bind_ok h
    simp only [pure, Except.pure, Except.ok.injEq] at h
    subst h
    have hp : inv[k p]? = some v := by
      cases hq : inv[k p]? with
      | none => simp [hq] at hv
      | some w => simp only [hq, pure, Except.pure, Except.ok.injEq] at hv; rw [hv]
    cases i with
    | zero => simp [hp]
    | succ i =>
      have hi' : i < ps.length := by simpa using hi
      have := ih rest hrest i hi'
      simpa using this

theorem foldl_max_ge (l : List Int) : ∀ a : Int, a ≤ l.foldl max a ∧ ∀ x ∈ l, x ≤ l.foldl max a := by
  induction l with
  | nil => intro a; exact ⟨le_refl _, fun x hx => by cases hx⟩
  | cons y ys ih =>
    intro a
    obtain ⟨h1, h2⟩ := ih (max a y)
    simp only [List.foldl_cons]
    refine ⟨le_trans (le_max_left _ _) h1, ?_⟩
    intro x hx
    rcases List.mem_cons.mp hx with rfl | hx
    · exact le_trans (le_max_right _ _) h1
    · exact h2 x hx

theorem foldl_max_mem (l : List Int) : ∀ a : Int, l.foldl max a = a ∨ l.foldl max a ∈ l := by
  induction l with
  | nil => intro a; left; rfl
  | cons y ys ih =>
    intro a
    simp only [List.foldl_cons]
    rcases ih (max a y) with h | h
    · rcases max_choice a y with h' | h'
      · left; rw [h, h']
      · right; rw [h, h']; exact List.mem_cons_self
    · right; exact List.mem_cons_of_mem _ h

theorem maxList_eq {l : List Int} {m : Int} (hm : m ∈ l) (hle : ∀ x ∈ l, x ≤ m) : maxList l = some m := by
  cases l with
  | nil => cases hm
  | cons a as =>
    simp only [maxList, Option.some.injEq]
    obtain ⟨h1, h2⟩ := foldl_max_ge as a
    apply le_antisymm
    · rcases foldl_max_mem as a with h | h
      · rw [h]; exact hle a List.mem_cons_self
      · exact hle _ (List.mem_cons_of_mem _ h)
    · rcases List.mem_cons.mp hm with rfl | hm'
      · exact h1
      · exact h2 m hm'

/-! ## gaps branch: rounding, the decision for a stack along a line, inversion for arbitrary rows -/


theorem floor_le' (x : Rat) : ((x.floor : Int) : Rat) ≤ x := Rat.le_floor_iff.mp (le_refl _)
theorem lt_floor_add_one' (x : Rat) : x < ((x.floor : Int) : Rat) + 1 := by
  have : x.floor < x.floor + 1 := by omega
  have := Rat.floor_lt_iff.mp this
  push_cast at this
  exact this

/-- rounding moves a number by at most one half -/
theorem roundHalfEven_near (x : Rat) :
    ((roundHalfEven x : Int) : Rat) - 1 / 2 ≤ x ∧ x ≤ ((roundHalfEven x : Int) : Rat) + 1 / 2 := by
  have h1 := floor_le' x
  have h2 := lt_floor_add_one' x
  unfold roundHalfEven
  simp only []
  split_ifs with a b c <;> push_cast <;> constructor <;> linarith

/-- rounding is monotone -/
theorem roundHalfEven_mono {x y : Rat} (h : x ≤ y) : roundHalfEven x ≤ roundHalfEven y := by
  by_contra hn
  have hlt : roundHalfEven y + 1 ≤ roundHalfEven x := by omega
  have hc : ((roundHalfEven y : Int) : Rat) + 1 ≤ ((roundHalfEven x : Int) : Rat) := by exact_mod_cast hlt
  have hx := (roundHalfEven_near x).1
  have hy := (roundHalfEven_near y).2
  have hxy : x = y := le_antisymm h (by linarith)
  subst hxy
  exact hn (le_refl _)



theorem minList_mem {l : List Rat} {m : Rat} (h : minList l = some m) : m ∈ l := by
  cases l with
  | nil => cases h
  | cons a as =>
    simp only [minList, Option.some.injEq] at h
    subst h
    rcases foldl_min_mem as a with h | h
    · rw [h]; exact List.mem_cons_self
    · exact List.mem_cons_of_mem _ h

theorem minList_le {l : List Rat} {m : Rat} (h : minList l = some m) : ∀ x ∈ l, m ≤ x := by
  cases l with
  | nil => cases h
  | cons a as =>
    simp only [minList, Option.some.injEq] at h
    subst h
    obtain ⟨h1, h2⟩ := foldl_min_le as a
    intro x hx
    rcases List.mem_cons.mp hx with rfl | hx
    · exact h1
    · exact h2 x hx

theorem diffs_nonneg : ∀ (l : List Rat), l.Pairwise (· ≤ ·) → ∀ x ∈ diffs l, 0 ≤ x := by
  intro l
  induction l with
  | nil => intro _ x hx; simp [diffs] at hx
  | cons a as ih =>
    intro h x hx
    cases as with
    | nil => simp [diffs] at hx
    | cons b bs =>
      simp only [diffs, List.mem_cons] at hx
      have hp := List.pairwise_cons.mp h
      rcases hx with rfl | hx
      · have := hp.1 b List.mem_cons_self; linarith
      · exact ih hp.2 x hx

theorem eqTol_pos : 0 < eqTol := by decide +kernel

/-- the spacing found in the gaps branch is positive: a positive hint, or the smallest gap of the sorted distances when
that is not zero within `1e-5` -/
theorem gaps_spacing_pos {d : List Rat} {s : Rat} (hm : minList (diffs (sortRat d)) = some s)
    (hz : isClose s 0 npRtol eqTol = false) : 0 < s := by
  have hnn : 0 ≤ s := diffs_nonneg _ (sortRat_sorted d) s (minList_mem hm)
  rcases lt_or_eq_of_le hnn with h | h
  · exact h
  · exfalso
    rw [← h] at hz
    have : isClose 0 0 npRtol eqTol = true := isClose_zero
    rw [this] at hz; cases hz

/-- … and so is the refined estimate -/
theorem estimateSpacing_pos {d : List Rat} {s : Rat} (h : estimateSpacing (sortRat d) = .ok (some s)) : 0 < s := by
  obtain ⟨m, hm, hz, rfl⟩ := estimateSpacing_inv h
  apply refineSpacing_pos _ (gaps_spacing_pos hm hz)
  intro D hD
  rw [List.mem_map] at hD
  obtain ⟨x, hx, rfl⟩ := hD
  have hs := sortRat_sorted d
  cases hl : sortRat d with
  | nil => rw [hl] at hx; cases hx
  | cons a t =>
    rw [hl] at hx hs
    simp only [List.tail_cons] at hx
    simp only [List.headD_cons]
    have := (List.pairwise_cons.mp hs).1 x hx
    linarith

/-- what the gaps branch returns: the least distance, the rounded multiples, and — when it calls the rows regular — every
multiple within tolerance of its rounding -/
theorem spacingMissing_inv {d ds : List Rat} {hint : Option Rat} {rtol atol s : Rat} {reg : Bool} {inv : List Int}
    (h : spacingMissing d ds hint rtol atol = .ok (some (s, reg, inv))) :
    ∃ dmin, minList d = some dmin ∧ inv = d.map (fun x => roundHalfEven ((x - dmin) / s)) ∧
      (reg = true → ∀ x ∈ d, isClose ((x - dmin) / s) ((roundHalfEven ((x - dmin) / s) : Int) : Rat) 0 (rtol + atol / rabs s) = true) ∧
      (reg = true → inv.Nodup) ∧
      (∀ hh, hint = some hh → s = hh) ∧
      (hint = none → estimateSpacing ds = .ok (some s)) := by
  unfold spacingMissing at h
  obtain ⟨sp, hsp, h⟩ := bind_ok h
  cases sp with
  | none => simp [pure, Except.pure] at h
  | some s' =>
    cases hdm : minList d with
    | none => simp [hdm, pure, Except.pure] at h
    | some dmin =>
      simp only [hdm, pure, Except.pure, Except.ok.injEq, Option.some.injEq, Prod.mk.injEq] at h
      obtain ⟨rfl, hreg, hinv⟩ := h
      refine ⟨dmin, rfl, ?_, ?_, ?_, ?_, ?_⟩
      · rw [← hinv, List.map_map]; rfl
      · intro hr x hx
        rw [← hreg, Bool.and_eq_true, List.all_eq_true] at hr
        have := hr.1 ((x - dmin) / s', roundHalfEven ((x - dmin) / s')) (by
          rw [List.map_map, List.zip_map', List.mem_map]
          exact ⟨x, hx, rfl⟩)
        exact this
      · intro hr
        rw [← hreg, Bool.and_eq_true] at hr
        rw [← hinv]
        exact of_decide_eq_true hr.2
      · intro hh hhint
        subst hhint
        simp only [pure, Except.pure, Except.ok.injEq, Option.some.injEq] at hsp
        exact hsp.symm
      · intro hnone
        subst hnone
        exact hsp



/-- **the decision of the examination step with gaps allowed, for a stack along a line** (rows `f j` at strictly increasing
distances `g j`, any input order): with the spacing `sp` (the hint, or the estimate `estimateSpacing`: smallest consecutive gap refined over the extent), plane `j` gets the
rounded multiple `round((g j − g 0)/sp)`; the stack is accepted iff every multiple is within `rtol + atol/|sp|` of its
rounding and the span is perpendicular. -/
theorem examine_gaps_line (nrm : V3) (f : Nat → V3) (g : Nat → Rat) (hfg : ∀ j, nrm.dot (f j) = g j) (hg : StrictMono g)
    {js : List Nat} {M : Nat} (hM : 1 ≤ M) (hp : js.Perm (List.range (M + 1))) {sp : Rat} (hsp0 : 0 < sp)
    (hint : Option Rat)
    (hsp : hint = some sp ∨ (hint = none ∧ estimateSpacing ((List.range (M + 1)).map g) = .ok (some sp)))
    (rtol atol : Rat) (enforce : Bool) :
    examine nrm (js.map f) true true hint rtol atol enforce
      = .ok (if ((List.range (M + 1)).all fun j =>
                  isClose ((g j - g 0) / sp) ((roundHalfEven ((g j - g 0) / sp) : Int) : Rat) 0 (rtol + atol / rabs sp))
                && decide (((List.range (M + 1)).map fun j => roundHalfEven ((g j - g 0) / sp)).Nodup)
                && isPerpendicular nrm ((f M).sub (f 0))
             then some (sp, js.map fun j => roundHalfEven ((g j - g 0) / sp)) else none) := by
  have hlen : js.length = M + 1 := by rw [hp.length_eq, List.length_range]
  have h0 : 0 ∈ js := hp.mem_iff.mpr (by simp)
  have hMm : M ∈ js := hp.mem_iff.mpr (by simp)
  have hd : (js.map f).map nrm.dot = js.map g := by
    rw [List.map_map]; apply List.map_congr_left; intro j _; exact hfg j
  have hmult : (js.map g).map (fun x => (x - g 0) / sp) = js.map fun j => (g j - g 0) / sp := by
    rw [List.map_map]; rfl
  have hround : (js.map fun j => (g j - g 0) / sp).map roundHalfEven = js.map fun j => roundHalfEven ((g j - g 0) / sp) := by
    rw [List.map_map]; rfl
  have hreg : (((js.map fun j => (g j - g 0) / sp).zip (js.map fun j => roundHalfEven ((g j - g 0) / sp))).all
      fun mr => isClose mr.1 (mr.2 : Rat) 0 (rtol + atol / rabs sp))
      = ((List.range (M + 1)).all fun j =>
          isClose ((g j - g 0) / sp) ((roundHalfEven ((g j - g 0) / sp) : Int) : Rat) 0 (rtol + atol / rabs sp)) := by
    rw [List.zip_map', List.all_map]
    exact hp.all_eq
  have hns : ¬ sp < 0 := not_lt.mpr (le_of_lt hsp0)
  have hndp : decide ((js.map fun j => roundHalfEven ((g j - g 0) / sp)).Nodup)
      = decide (((List.range (M + 1)).map fun j => roundHalfEven ((g j - g 0) / sp)).Nodup) := by
    have := (hp.map fun j => roundHalfEven ((g j - g 0) / sp)).nodup_iff
    simp only [this]
  have hspm : spacingMissing (js.map g) ((List.range (M + 1)).map g) hint rtol atol
      = .ok (some (sp, ((List.range (M + 1)).all fun j =>
          isClose ((g j - g 0) / sp) ((roundHalfEven ((g j - g 0) / sp) : Int) : Rat) 0 (rtol + atol / rabs sp))
          && decide (((List.range (M + 1)).map fun j => roundHalfEven ((g j - g 0) / sp)).Nodup),
          js.map fun j => roundHalfEven ((g j - g 0) / sp))) := by
    unfold spacingMissing
    rcases hsp with h | ⟨h, hest⟩
    · subst h
      simp only [minList_mono hg hp, hmult, hround, hreg, hndp, bind, Except.bind, pure, Except.pure]
    · subst h
      simp only [hest, minList_mono hg hp, hmult, hround, hreg, hndp, bind, Except.bind, pure, Except.pure]
  unfold examine
  simp only [hd, if_true, ranks_mono hg hp, sortRat_mono hg hp, hspm, bind, Except.bind, pure, Except.pure,
    List.length_map, hlen, Nat.add_sub_cancel,
    atRank_map f js 0 h0, atRank_map f js M hMm, rabs_of_pos hsp0, hns, decide_false, Bool.and_false, Bool.false_eq_true,
    if_false]
  split_ifs <;> simp_all



theorem examine_gaps_some {nrm : V3} {u : List V3} {hint : Option Rat} {rtol atol : Rat} {enforce : Bool} {spR : Rat}
    {inv : List Int} (h : examine nrm u true true hint rtol atol enforce = .ok (some (spR, inv))) :
    ∃ s, spacingMissing (u.map nrm.dot) (sortRat (u.map nrm.dot)) hint rtol atol = .ok (some (s, true, inv)) ∧ spR = rabs s := by
  unfold examine at h
  simp only [if_true] at h
  obtain ⟨r, hr, h⟩ := bind_ok h
  cases r with
  | none => simp [pure, Except.pure] at h
  | some r =>
    obtain ⟨s, reg, inv'⟩ := r
    simp only [pure, Except.pure] at h
    split at h
    · cases h
    · split at h
      · split at h
        · rename_i hc
          simp only [Except.ok.injEq, Option.some.injEq, Prod.mk.injEq] at h
          obtain ⟨h1, h2⟩ := h
          subst h2
          have hreg : reg = true := by
            simp only [Bool.and_eq_true] at hc; exact hc.1
          subst hreg
          exact ⟨s, hr, h1.symm⟩
        · cases h
      · cases h

/-! ## the spacing hint of a series -/

theorem commonHint_eq_some_iff (sbs : List (Option Rat)) (v : Rat) :
    commonHint sbs = some v ↔ (sbs.filterMap id ≠ [] ∧ ∀ x ∈ sbs.filterMap id, x = v) := by
  unfold commonHint
  cases h : sbs.filterMap id with
  | nil => simp
  | cons a as =>
    simp only [ne_eq, reduceCtorEq, not_false_eq_true, true_and, List.mem_cons, forall_eq_or_imp]
    by_cases hall : (as.all fun x => x == a) = true
    · simp only [hall, if_true, Option.some.injEq]
      rw [List.all_eq_true] at hall
      constructor
      · rintro rfl; exact ⟨rfl, fun x hx => by simpa using hall x hx⟩
      · rintro ⟨h1, _⟩; exact h1
    · simp only [hall, Bool.false_eq_true, if_false, reduceCtorEq, false_iff, not_and]
      intro h1 h2
      apply hall
      rw [List.all_eq_true]
      intro x hx
      simp [h2 x hx, h1]

/-- the spacing hint of a series does not depend on the order of the datasets -/
theorem commonHint_perm {sbs sbs' : List (Option Rat)} (h : sbs.Perm sbs') : commonHint sbs = commonHint sbs' := by
  have hp : (sbs.filterMap id).Perm (sbs'.filterMap id) := h.filterMap id
  apply Option.ext
  intro v
  simp only [commonHint_eq_some_iff]
  constructor
  · rintro ⟨h1, h2⟩
    exact ⟨fun e => h1 (by rw [e] at hp; exact List.Perm.eq_nil hp), fun x hx => h2 x (hp.mem_iff.mpr hx)⟩
  · rintro ⟨h1, h2⟩
    exact ⟨fun e => h1 (by rw [e] at hp; exact List.Perm.eq_nil hp.symm), fun x hx => h2 x (hp.mem_iff.mp hx)⟩

theorem commonHint_none (n : Nat) : commonHint (List.replicate n none) = none := by
  unfold commonHint
  have : (List.replicate n (none : Option Rat)).filterMap id = [] := by
    induction n with
    | zero => rfl
    | succ n ih => simp
  rw [this]

/-! ## spacing hint without gaps; the complete decision on a line -/

/-- **spacing hints without gaps**: for a stack along a line (any input order, duplicates when declared) a hint
within tolerance of the mean spacing changes nothing, any other hint is reported as an error. -/
theorem hint_checked_line (nrm : V3) (f : Nat → V3) (g : Nat → Rat) (hfg : ∀ j, nrm.dot (f j) = g j)
    (hg : StrictMono g) (js : List Nat) {M : Nat} (hM : 1 ≤ M) (hmem : ∀ j, j ∈ js ↔ j < M + 1) (op : Opts)
    (hsort : op.sort = true) (hmiss : op.allowMissing = false) (hdup : op.allowDuplicate = true ∨ js.Nodup)
    (h rtol atol : Rat) :
    volumePositionsOf nrm (js.map f) op (some h) rtol atol
      = if isClose ((g M - g 0) / (M : Rat)) h rtol atol then volumePositionsOf nrm (js.map f) op none rtol atol
        else .error .runtime := by
  rw [volumePositionsOf_line nrm f g hfg hg js hM hmem op hsort hmiss hdup rtol atol]
  by_cases hc : isClose ((g M - g 0) / (M : Rat)) h rtol atol = true
  · simp only [hc, if_true]
    have := volumePositionsOf_lift nrm f g hfg hg js hM hmem op hsort hdup (some h) rtol atol Int.ofNat
      (.ok (if ((diffs ((List.range (M + 1)).map g)).all fun x => isClose x ((g M - g 0) / (M : Rat)) rtol atol)
                && isPerpendicular nrm ((f M).sub (f 0)) then some ((g M - g 0) / (M : Rat)) else none))
      (fun js' hp' => by
        rw [hmiss, examine_line_hint nrm f g hfg hg hM hp' h rtol atol op.enforce, if_pos hc,
          examine_line nrm f g hfg hg hM hp' rtol atol op.enforce]
        simp only [Except.map]
        split_ifs <;> rfl)
    rw [this]
    simp only [Except.map]
    split_ifs <;> rfl
  · simp only [hc, Bool.false_eq_true, if_false]
    have := volumePositionsOf_lift nrm f g hfg hg js hM hmem op hsort hdup (some h) rtol atol Int.ofNat
      (.error .runtime)
      (fun js' hp' => by
        rw [hmiss, examine_line_hint nrm f g hfg hg hM hp' h rtol atol op.enforce, if_neg hc]
        rfl)
    rw [this]; rfl

/-- the decision of `get_volume_positions` on a stack along a line, hint included (no gaps) -/
def lineDecision (nrm : V3) (f : Nat → V3) (g : Nat → Rat) (M : Nat) (hint : Option Rat) (rtol atol : Rat) :
    Except ErrKind (Option Rat) :=
  let mean := (g M - g 0) / (M : Rat)
  let ok := ((diffs ((List.range (M + 1)).map g)).all fun x => isClose x mean rtol atol) && isPerpendicular nrm ((f M).sub (f 0))
  match hint with
  | some h => if isClose mean h rtol atol then .ok (if ok then some mean else none) else .error .runtime
  | none => .ok (if ok then some mean else none)

theorem volumePositionsOf_lineDecision (nrm : V3) (f : Nat → V3) (g : Nat → Rat) (hfg : ∀ j, nrm.dot (f j) = g j)
    (hg : StrictMono g) (js : List Nat) {M : Nat} (hM : 1 ≤ M) (hmem : ∀ j, j ∈ js ↔ j < M + 1) (op : Opts)
    (hsort : op.sort = true) (hmiss : op.allowMissing = false) (hdup : op.allowDuplicate = true ∨ js.Nodup)
    (hint : Option Rat) (rtol atol : Rat) :
    volumePositionsOf nrm (js.map f) op hint rtol atol
      = (lineDecision nrm f g M hint rtol atol).map (Option.map fun sp => (sp, js.map Int.ofNat)) := by
  cases hint with
  | none =>
    rw [volumePositionsOf_line nrm f g hfg hg js hM hmem op hsort hmiss hdup rtol atol]
    simp only [lineDecision, Except.map]
    split_ifs <;> rfl
  | some h =>
    rw [hint_checked_line nrm f g hfg hg js hM hmem op hsort hmiss hdup h rtol atol,
      volumePositionsOf_line nrm f g hfg hg js hM hmem op hsort hmiss hdup rtol atol]
    simp only [lineDecision, Except.map]
    split_ifs <;> rfl


theorem mean_spacing' (c s : Rat) (M : Nat) (hM : 1 ≤ M) : (gdist c s M - gdist c s 0) / (M : Rat) = s := by
  have := mean_spacing c s M hM
  have hden : (((M + 1 : Nat) : Rat)) - 1 = (M : Rat) := by push_cast; ring
  rw [hden] at this; exact this

/-! ## the refined estimate: exact on exact stacks, and following the true plane numbers on rounded / jittered stacks -/

/-- **the estimate is exact on exact stacks**: distances `c + k j · s` (plane numbers `k` strictly increasing from 0, two
neighbouring planes present, `s` not zero within `1e-5`): the smallest gap is `s`, every distance above the lowest plane is a
whole multiple of it, and the refinement leaves it unchanged. -/
theorem estimateSpacing_exact (c : Rat) {s : Rat} (hs : 0 < s) (hz : isClose s 0 npRtol eqTol = false) (k : Nat → Nat)
    (hk : StrictMono k) (hk0 : k 0 = 0) {M : Nat} (hadj : ∃ j, j < M ∧ k (j + 1) = k j + 1) :
    estimateSpacing ((List.range (M + 1)).map fun j => gdist c s (k j)) = .ok (some s) := by
  let g : Nat → Rat := fun j => gdist c s (k j)
  obtain ⟨j, hj, hkj⟩ := hadj
  have hm : minList (diffs ((List.range (M + 1)).map g)) = some s := by
    apply minList_eq
    · have := diffs_mem g (M + 1) j (by omega)
      have e : g (j + 1) - g j = s := by
        simp only [g, gdist, hkj]; push_cast; ring
      rw [e] at this; exact this
    · intro x hx
      rw [List.range_eq_range'] at hx
      obtain ⟨i, _, _, rfl⟩ := diffs_elem g _ _ x hx
      have h1 : k i + 1 ≤ k (i + 1) := hk (Nat.lt_succ_self i)
      have h2 : ((k i : Nat) : Rat) + 1 ≤ ((k (i + 1) : Nat) : Rat) := by exact_mod_cast h1
      simp only [g, gdist]
      nlinarith
  show estimateSpacing ((List.range (M + 1)).map g) = .ok (some s)
  rw [estimateSpacing_of_min hm hz]
  congr 2
  apply refineSpacing_exact hs
  intro D hD
  rw [List.mem_map] at hD
  obtain ⟨x, hx, rfl⟩ := hD
  have hx' : x ∈ (List.range (M + 1)).map g := List.mem_of_mem_tail hx
  rw [List.mem_map] at hx'
  obtain ⟨i, _, rfl⟩ := hx'
  refine ⟨k i, ?_⟩
  have h0' : ((List.range (M + 1)).map g).headD 0 = g 0 := by
    rw [List.range_succ_eq_map]; rfl
  rw [h0']
  simp only [g, gdist, hk0]; push_cast; ring

/-- a number strictly within one half of a whole number rounds to it -/
theorem roundHalfEven_eq_of_near {x : Rat} {n : Int} (h1 : (n : Rat) - 1 / 2 < x) (h2 : x < (n : Rat) + 1 / 2) :
    roundHalfEven x = n := by
  obtain ⟨a, b⟩ := roundHalfEven_near x
  have h3 : ((roundHalfEven x : Int) : Rat) < (n : Rat) + 1 := by linarith
  have h4 : (n : Rat) < ((roundHalfEven x : Int) : Rat) + 1 := by linarith
  have h3' : roundHalfEven x < n + 1 := by exact_mod_cast h3
  have h4' : n < roundHalfEven x + 1 := by exact_mod_cast h4
  omega

/-- one step of the refinement that hits the plane number `n > 0` of the plane at distance `D`: the estimate becomes `D / n` -/
theorem refineStep_hit {s D : Rat} {n : Nat} (hn : 0 < n) (hs : 0 < s) (h : |D - (n : Rat) * s| < s / 2) :
    (if 0 < roundHalfEven (D / s) then D / ((roundHalfEven (D / s) : Int) : Rat) else s) = D / (n : Rat) := by
  have hr : roundHalfEven (D / s) = (n : Int) := by
    apply roundHalfEven_eq_of_near
    · have := (abs_lt.mp h).1
      rw [lt_div_iff₀ hs]; push_cast; nlinarith
    · have := (abs_lt.mp h).2
      rw [div_lt_iff₀ hs]; push_cast; nlinarith
  rw [hr]
  have : (0 : Int) < (n : Int) := by exact_mod_cast hn
  rw [if_pos this]
  push_cast; rfl

/-- the refinement loop follows the true plane numbers as long as each step's rounding hits: start anywhere with an estimate `s₀`
that puts the first plane right, then every plane `j+1` is put right by the estimate `D j / k j` fitted to plane `j`. -/
theorem refineSpacing_chain (D : Nat → Rat) (k : Nat → Nat) :
    ∀ (n a : Nat) (s0 : Rat), 0 < s0 → (∀ j, a ≤ j → j ≤ a + n → 0 < k j ∧ 0 < D j) →
      |D a - (k a : Rat) * s0| < s0 / 2 →
      (∀ j, a ≤ j → j < a + n → |D (j + 1) * (k j : Rat) - (k (j + 1) : Rat) * D j| < D j / 2) →
      refineSpacing s0 ((List.range' a (n + 1)).map D) = D (a + n) / (k (a + n) : Rat) := by
  intro n
  induction n with
  | zero =>
    intro a s0 hs0 hpos h1 _
    rw [show (List.range' a (0 + 1)).map D = [D a] from rfl, refineSpacing_cons, refineSpacing_nil]
    exact refineStep_hit (hpos a (le_refl _) (by omega)).1 hs0 h1
  | succ n ih =>
    intro a s0 hs0 hpos h1 hstep
    rw [List.range'_succ, List.map_cons, refineSpacing_cons, refineStep_hit (hpos a (le_refl _) (by omega)).1 hs0 h1]
    have hka := (hpos a (le_refl _) (by omega)).1
    have hDa := (hpos a (le_refl _) (by omega)).2
    have hkaQ : (0 : Rat) < (k a : Rat) := by exact_mod_cast hka
    have hs1 : 0 < D a / (k a : Rat) := div_pos hDa hkaQ
    have := ih (a + 1) (D a / (k a : Rat)) hs1 (fun j h1 h2 => hpos j (by omega) (by omega)) ?_
      (fun j h1 h2 => hstep j (by omega) (by omega))
    · rw [this, show a + 1 + n = a + (n + 1) by omega]
    · have hst := hstep a (le_refl _) (by omega)
      have e : D (a + 1) - (k (a + 1) : Rat) * (D a / (k a : Rat))
          = (D (a + 1) * (k a : Rat) - (k (a + 1) : Rat) * D a) / (k a : Rat) := by
        field_simp
      rw [e, abs_div, abs_of_pos hkaQ, div_lt_iff₀ hkaQ]
      calc |D (a + 1) * (k a : Rat) - (k (a + 1) : Rat) * D a| < D a / 2 := hst
        _ = D a / (k a : Rat) / 2 * (k a : Rat) := by field_simp

theorem minList_ne_none {l : List Rat} {x : Rat} (h : x ∈ l) : ∃ m, minList l = some m := by
  cases l with
  | nil => cases h
  | cons a as => exact ⟨_, rfl⟩

/-- products of a bounded error with a plane number -/
theorem abs_mul_nat_le {e ε : Rat} (h : |e| ≤ ε) (n : Nat) : |e * (n : Rat)| ≤ ε * (n : Rat) := by
  rw [abs_mul, abs_of_nonneg (Nat.cast_nonneg n : (0 : Rat) ≤ (n : Rat))]
  exact mul_le_mul_of_nonneg_right h (Nat.cast_nonneg n)

/-- the refined estimate of a stack within `ε` of `g 0 + k j · s` whose plane numbers grow moderately is the spacing fitted to
the extent, `(g M − g 0) / k M` -/
theorem refineSpacing_jittered (g : Nat → Rat) (hg : StrictMono g) {M : Nat} (hM : 1 ≤ M) {s ε : Rat} (hε : 0 ≤ ε)
    (k : Nat → Nat) (hk : StrictMono k) (hk0 : k 0 = 0) (hadj : ∃ a, a < M ∧ k (a + 1) = k a + 1)
    (hnear : ∀ j, j ≤ M → |g j - g 0 - (k j : Rat) * s| ≤ ε)
    (hfirst : 2 * ε * (1 + 2 * (k 1 : Rat)) < s - 2 * ε)
    (hgrow : ∀ j, 1 ≤ j → j < M → 2 * ε * ((k j : Rat) + (k (j + 1) : Rat)) < (k j : Rat) * s - ε)
    {m : Rat} (hmin : minList (diffs ((List.range (M + 1)).map g)) = some m) :
    s - 2 * ε ≤ m ∧ m ≤ s + 2 * ε ∧
    refineSpacing m ((List.range M).map fun j => g (j + 1) - g 0) = (g M - g 0) / (k M : Rat) := by
  have hk1 : 1 ≤ k 1 := by have := hk (Nat.zero_lt_one); omega
  have hk1Q : (1 : Rat) ≤ (k 1 : Rat) := by exact_mod_cast hk1
  have hs : 2 * ε < s := by nlinarith
  have hs0 : 0 < s := by linarith
  -- bounds of the smallest gap
  obtain ⟨a, haM, hka⟩ := hadj
  have hle := minList_le hmin _ (diffs_mem g (M + 1) a (by omega))
  have hmem := minList_mem hmin
  rw [List.range_eq_range'] at hmem
  obtain ⟨b, _, hb, hmb⟩ := diffs_elem g (M + 1) 0 m hmem
  have Ea := abs_le.mp (hnear a (by omega))
  have Ea1 := abs_le.mp (hnear (a + 1) (by omega))
  have Eb := abs_le.mp (hnear b (by omega))
  have Eb1 := abs_le.mp (hnear (b + 1) (by omega))
  have hkaQ : (k (a + 1) : Rat) = (k a : Rat) + 1 := by rw [hka]; push_cast; ring
  have hkb : k b + 1 ≤ k (b + 1) := by have := hk (Nat.lt_succ_self b); simp only [Nat.succ_eq_add_one] at this; omega
  have hkbQ : (k b : Rat) + 1 ≤ (k (b + 1) : Rat) := by exact_mod_cast hkb
  have hm_hi : m ≤ s + 2 * ε := by
    have : g (a + 1) - g a = s + ((g (a + 1) - g 0 - (k (a + 1) : Rat) * s) - (g a - g 0 - (k a : Rat) * s)) := by
      rw [hkaQ]; ring
    linarith
  have hm_lo : s - 2 * ε ≤ m := by
    have : g (b + 1) - g b = ((k (b + 1) : Rat) - (k b : Rat)) * s
        + ((g (b + 1) - g 0 - (k (b + 1) : Rat) * s) - (g b - g 0 - (k b : Rat) * s)) := by ring
    have h2 : s ≤ ((k (b + 1) : Rat) - (k b : Rat)) * s := by nlinarith
    linarith
  have hm0 : 0 < m := by linarith
  refine ⟨hm_lo, hm_hi, ?_⟩
  -- the chain
  have hpos : ∀ j, 1 ≤ j → j ≤ 1 + (M - 1) → 0 < k j ∧ 0 < (fun j => g j - g 0) j := by
    intro j h1 _
    have h0j : 0 < j := by omega
    constructor
    · have := hk h0j; omega
    · have := hg h0j; simp only; linarith
  have hlist : ((List.range M).map fun j => g (j + 1) - g 0) = (List.range' 1 (M - 1 + 1)).map (fun j => g j - g 0) := by
    rw [show M - 1 + 1 = M by omega, List.range'_eq_map_range, List.map_map]
    apply List.map_congr_left
    intro j _
    simp only [Function.comp, Nat.add_comm 1 j]
  rw [hlist, refineSpacing_chain (fun j => g j - g 0) k (M - 1) 1 m hm0 hpos, show 1 + (M - 1) = M by omega]
  · -- first step
    have E1 := hnear 1 (by omega)
    have hδ : |m - s| ≤ 2 * ε := abs_le.mpr ⟨by linarith, by linarith⟩
    have h1 := abs_mul_nat_le hδ (k 1)
    have e : g 1 - g 0 - (k 1 : Rat) * m = (g 1 - g 0 - (k 1 : Rat) * s) - (m - s) * (k 1 : Rat) := by ring
    show |g 1 - g 0 - (k 1 : Rat) * m| < m / 2
    rw [e]
    calc |(g 1 - g 0 - (k 1 : Rat) * s) - (m - s) * (k 1 : Rat)|
        ≤ |g 1 - g 0 - (k 1 : Rat) * s| + |(m - s) * (k 1 : Rat)| := abs_sub _ _
      _ ≤ ε + 2 * ε * (k 1 : Rat) := add_le_add E1 h1
      _ < m / 2 := by linarith
  · -- later steps
    intro j h1 h2
    have hjM : j < M := by omega
    have Ej := hnear j (by omega)
    have Ej1 := hnear (j + 1) (by omega)
    have a1 := abs_mul_nat_le Ej1 (k j)
    have a2 := abs_mul_nat_le Ej (k (j + 1))
    have e : (g (j + 1) - g 0) * (k j : Rat) - (k (j + 1) : Rat) * (g j - g 0)
        = (g (j + 1) - g 0 - (k (j + 1) : Rat) * s) * (k j : Rat) - (g j - g 0 - (k j : Rat) * s) * (k (j + 1) : Rat) := by ring
    show |(g (j + 1) - g 0) * (k j : Rat) - (k (j + 1) : Rat) * (g j - g 0)| < (g j - g 0) / 2
    rw [e]
    have hDj : (k j : Rat) * s - ε ≤ g j - g 0 := by have := (abs_le.mp Ej).1; linarith
    calc |(g (j + 1) - g 0 - (k (j + 1) : Rat) * s) * (k j : Rat) - (g j - g 0 - (k j : Rat) * s) * (k (j + 1) : Rat)|
        ≤ |(g (j + 1) - g 0 - (k (j + 1) : Rat) * s) * (k j : Rat)| + |(g j - g 0 - (k j : Rat) * s) * (k (j + 1) : Rat)| := abs_sub _ _
      _ ≤ ε * (k j : Rat) + ε * (k (j + 1) : Rat) := add_le_add a1 a2
      _ < (g j - g 0) / 2 := by have := hgrow j h1 hjM; linarith

theorem ofList_rowOf (p : V3) : V3.ofList (rowOf p) = some p := by
  obtain ⟨x, y, z⟩ := p; rfl

theorem refineSpacing_append (s : Rat) (ds : List Rat) (D : Rat) :
    refineSpacing s (ds ++ [D])
      = (if 0 < roundHalfEven (D / refineSpacing s ds) then D / ((roundHalfEven (D / refineSpacing s ds) : Int) : Rat)
         else refineSpacing s ds) := by
  unfold refineSpacing
  rw [List.foldl_append]
  rfl

/-- the refined estimate is fitted to the LAST distance: if that distance rounds to a positive number `n` of (resulting) spacings,
the estimate is exactly `D / n` -/
theorem refineSpacing_fits_last (s : Rat) (ds : List Rat) {D : Rat} (hD : 0 < D)
    (hn : 0 < roundHalfEven (D / refineSpacing s (ds ++ [D]))) :
    refineSpacing s (ds ++ [D]) * ((roundHalfEven (D / refineSpacing s (ds ++ [D])) : Int) : Rat) = D := by
  rw [refineSpacing_append] at hn ⊢
  by_cases h : 0 < roundHalfEven (D / refineSpacing s ds)
  · rw [if_pos h] at hn ⊢
    have hq : (0 : Rat) < ((roundHalfEven (D / refineSpacing s ds) : Int) : Rat) := by exact_mod_cast h
    have e : D / (D / ((roundHalfEven (D / refineSpacing s ds) : Int) : Rat)) = ((roundHalfEven (D / refineSpacing s ds) : Int) : Rat) := by
      field_simp
    rw [e, roundHalfEven_intCast]
    field_simp
  · rw [if_neg h] at hn
    exact absurd hn h

/-- the refined estimate never exceeds a bound that the initial estimate and every distance respect: a step replaces it by
`D / n` with `n ≥ 1` -/
theorem refineSpacing_le_of_le {B : Rat} : ∀ (ds : List Rat) {s : Rat}, s ≤ B → (∀ D ∈ ds, 0 ≤ D ∧ D ≤ B) → refineSpacing s ds ≤ B := by
  intro ds
  induction ds with
  | nil => intro s hs _; exact hs
  | cons D ds ih =>
    intro s hs h
    rw [refineSpacing_cons]
    apply ih _ (fun D' hD' => h D' (List.mem_cons_of_mem _ hD'))
    by_cases h0 : 0 < roundHalfEven (D / s)
    · rw [if_pos h0]
      obtain ⟨hD0, hDB⟩ := h D List.mem_cons_self
      have hn : (1 : Rat) ≤ ((roundHalfEven (D / s) : Int) : Rat) := by exact_mod_cast h0
      calc D / ((roundHalfEven (D / s) : Int) : Rat) ≤ D / 1 := by
            apply div_le_div_of_nonneg_left hD0 (by norm_num) hn
        _ = D := by simp
        _ ≤ B := hDB
    · rw [if_neg h0]; exact hs

/-- a number that is at least 1 rounds to a positive whole number -/
theorem roundHalfEven_pos_of_one_le {x : Rat} (h : 1 ≤ x) : 0 < roundHalfEven x := by
  have := roundHalfEven_mono h
  have h1 : roundHalfEven 1 = 1 := by simpa using roundHalfEven_intCast 1
  rw [h1] at this
  omega

/-- arithmetic on `planePos`: on an exactly regular stack the origin of a slice selection (`plane 0 + start·s·n`) is the position of plane `start` -/
theorem selected_origin_is_plane_start (o nrm : V3) (s : Rat) (start : Nat) :
    (planePos o nrm s 0).add (V3.smul ((start : Rat) * s) nrm) = planePos o nrm s start := by
  obtain ⟨a, b, c⟩ := o
  obtain ⟨x, y, z⟩ := nrm
  simp only [planePos, V3.add, V3.smul, V3.mk.injEq]
  refine ⟨?_, ?_, ?_⟩ <;> push_cast <;> ring

theorem maxList_spec {l : List Int} {m : Int} (h : maxList l = some m) : m ∈ l ∧ ∀ x ∈ l, x ≤ m := by
  cases l with
  | nil => cases h
  | cons a as =>
    simp only [maxList, Option.some.injEq] at h
    subst h
    obtain ⟨h1, h2⟩ := foldl_max_ge as a
    refine ⟨?_, ?_⟩
    · rcases foldl_max_mem as a with e | e
      · rw [e]; exact List.mem_cons_self
      · exact List.mem_cons_of_mem _ e
    · intro x hx
      rcases List.mem_cons.mp hx with rfl | hx
      · exact h1
      · exact h2 x hx

theorem maxList_perm {l l' : List Int} (hp : l.Perm l') {m : Int} (h : maxList l = some m) : maxList l' = some m := by
  obtain ⟨h1, h2⟩ := maxList_spec h
  exact maxList_eq (hp.mem_iff.mp h1) (fun x hx => h2 x (hp.mem_iff.mpr hx))

/-- `getVolumePositions` on the rows of any list of at least two points -/
theorem getVolumePositions_rows_list (ps : List V3) (hlen : 2 ≤ ps.length) (ori : List Rat) (oo : Ori)
    (hori : Ori.ofList ori = some oo) {cv : Char × Char} (hcv : cv ∈ validConventions) (op : Opts)
    (hconv : op.conv = [cv.1, cv.2]) {hint : Option Rat} {rtol atol : Rat} (hopts : normaliseOpts op = .ok (hint, rtol, atol)) :
    getVolumePositions (ps.map rowOf) ori op
      = volumePositionsOf (normalSpec oo cv op.rightHanded) ps op hint rtol atol := by
  have hne : (ps.map rowOf).isEmpty = false := by
    cases ps with
    | nil => simp at hlen
    | cons j js => rfl
  have hl1 : ¬ ps.length = 1 := by omega
  unfold getVolumePositions
  simp only [hopts, hne, rowsToV3_rowOf, hl1, hori, hconv, normConvention_valid hcv, normalVector_eval oo hcv,
    bind, Except.bind, pure, Except.pure, Bool.false_eq_true, if_false]

theorem getVolumePositions_opts_error (rows : List (List Rat)) (ori : List Rat) (op : Opts) {e : ErrKind}
    (h : normaliseOpts op = .error e) : getVolumePositions rows ori op = .error e := by
  unfold getVolumePositions
  simp only [h, bind, Except.bind]

end HdVerif.Stack
