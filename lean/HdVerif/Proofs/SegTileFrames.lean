import HdVerif.Proofs.SegFrameLoop
import Mathlib.Data.Finset.Card
import Mathlib.Data.List.Dedup
/-! Lemmas for the tiles a TILED_SPARSE segmentation stores (`Model/SegFrameLoop.lean`, `tileFrames`): every frame is a tile
of the grid at the grid's position, the dimension index values are strictly monotone in row / column / x / y / z. -/
namespace HdVerif.SegTileFramesLemmas
open HdVerif HdVerif.Gen HdVerif.SegGeom HdVerif.SegGeom.V3 HdVerif.SegFrameLoop HdVerif.SegGeomLemmas HdVerif.SegFrameLoopLemmas

/-! ## `rankOf`: position among the sorted distinct values -/

theorem mem_distinctRat (l : List Rat) (a : Rat) : a ∈ distinctRat l ↔ a ∈ l := by
  induction l with
  | nil => simp [distinctRat]
  | cons b t ih =>
    simp only [distinctRat, List.mem_cons, List.mem_filter, ih, bne_iff_ne, ne_eq]
    constructor
    · rintro (h | ⟨h, _⟩)
      · exact Or.inl h
      · exact Or.inr h
    · rintro (h | h)
      · exact Or.inl h
      · by_cases hab : a = b
        · exact Or.inl hab
        · exact Or.inr ⟨h, hab⟩

theorem nodup_distinctRat (l : List Rat) : (distinctRat l).Nodup := by
  induction l with
  | nil => simp [distinctRat]
  | cons b t ih =>
    simp only [distinctRat, List.nodup_cons, List.mem_filter, bne_iff_ne, ne_eq, not_and, not_not]
    exact ⟨fun _ => trivial, ih.sublist List.filter_sublist⟩

theorem length_distinctRat (l : List Rat) : (distinctRat l).length = l.toFinset.card := by
  rw [← List.toFinset_card_of_nodup (nodup_distinctRat l)]
  congr 1
  ext a
  simp [mem_distinctRat]

/-- the dimension index value is strictly monotone in the value (for values that occur) -/
theorem rankOf_lt_iff (vals : List Rat) (v w : Rat) (hv : v ∈ vals) (_hw : w ∈ vals) : rankOf vals v < rankOf vals w ↔ v < w := by
  unfold rankOf
  rw [length_distinctRat, length_distinctRat]
  have key : ∀ a b : Rat, a ≤ b → (vals.filter (fun x => decide (x < a))).toFinset ⊆ (vals.filter (fun x => decide (x < b))).toFinset := by
    intro a b hab x hx
    simp only [List.mem_toFinset, List.mem_filter, decide_eq_true_eq] at hx ⊢
    exact ⟨hx.1, lt_of_lt_of_le hx.2 hab⟩
  constructor
  · intro h
    by_contra hc
    have := Finset.card_le_card (key w v (not_lt.mp hc))
    omega
  · intro h
    have hss : (vals.filter (fun x => decide (x < v))).toFinset ⊂ (vals.filter (fun x => decide (x < w))).toFinset := by
      refine Finset.ssubset_iff_of_subset (key v w (le_of_lt h)) |>.mpr ⟨v, ?_, ?_⟩
      · simp only [List.mem_toFinset, List.mem_filter, decide_eq_true_eq]; exact ⟨hv, h⟩
      · simp only [List.mem_toFinset, List.mem_filter, decide_eq_true_eq, not_and, not_lt]; exact fun _ => le_refl _
    have := Finset.card_lt_card hss
    omega

/-- the smallest stored value has index 1 -/
theorem rankOf_pos (vals : List Rat) (v : Rat) : 1 ≤ rankOf vals v := by unfold rankOf; omega

/-! ## the frames are tiles of the grid -/

/-- every frame of the plane loop is one of the kept tiles, with that tile's offset and position, and its dimension index
values are the ranks among the kept tiles -/
theorem mem_tileFramesOf (s : Option Nat) (om : Bool) (present : Option Nat → Nat → Bool) (vals : List Tile)
    (l : List (Tile × Nat)) (f : TileFrame) (hf : f ∈ tileFramesOf s om present vals l) :
    f.seg = s ∧ skipped s om (present s f.tile) = false ∧ (((f.row, f.col), f.pos), f.tile) ∈ l ∧
    f.div = [rankOf (vals.map (fun k => (k.1.1 : Rat))) (f.row : Rat), rankOf (vals.map (fun k => (k.1.2 : Rat))) (f.col : Rat),
      rankOf (vals.map (fun k => k.2.x)) f.pos.x, rankOf (vals.map (fun k => k.2.y)) f.pos.y, rankOf (vals.map (fun k => k.2.z)) f.pos.z] := by
  induction l with
  | nil => simp [tileFramesOf] at hf
  | cons a t ih =>
    obtain ⟨q, i⟩ := a
    simp only [tileFramesOf] at hf
    split at hf
    · obtain ⟨h1, h2, h3, h4⟩ := ih hf
      exact ⟨h1, h2, List.mem_cons_of_mem _ h3, h4⟩
    · rename_i hsk
      rcases List.mem_cons.mp hf with rfl | hf
      · exact ⟨rfl, by simpa using hsk, List.mem_cons_self, rfl⟩
      · obtain ⟨h1, h2, h3, h4⟩ := ih hf
        exact ⟨h1, h2, List.mem_cons_of_mem _ h3, h4⟩

/-- conversely: a kept tile that is not skipped has its frame -/
theorem tileFramesOf_complete (s : Option Nat) (om : Bool) (present : Option Nat → Nat → Bool) (vals : List Tile)
    (l : List (Tile × Nat)) (q : Tile) (i : Nat) (h : (q, i) ∈ l) (hsk : skipped s om (present s i) = false) :
    ∃ f ∈ tileFramesOf s om present vals l, f.seg = s ∧ f.tile = i ∧ f.row = q.1.1 ∧ f.col = q.1.2 ∧ f.pos = q.2 := by
  induction l with
  | nil => simp at h
  | cons a t ih =>
    obtain ⟨q', i'⟩ := a
    simp only [tileFramesOf]
    rcases List.mem_cons.mp h with heq | h
    · simp only [Prod.mk.injEq] at heq
      obtain ⟨rfl, rfl⟩ := heq
      rw [if_neg (by simp [hsk])]
      exact ⟨_, List.mem_cons_self, rfl, rfl, rfl, rfl, rfl⟩
    · obtain ⟨f, hf, hr⟩ := ih h
      split
      · exact ⟨f, hf, hr⟩
      · exact ⟨f, List.mem_cons_of_mem _ hf, hr⟩

theorem mem_tileGrid (R C tr tc : Nat) (rc : Int × Int) (h : rc ∈ tileGrid R C tr tc) :
    ∃ i j : Nat, i < (R + tr - 1) / tr ∧ j < (C + tc - 1) / tc ∧ rc = (((i * tr : Nat) : Int) + 1, ((j * tc : Nat) : Int) + 1) := by
  unfold tileGrid at h
  obtain ⟨i, hi, h2⟩ := List.mem_flatMap.mp h
  obtain ⟨j, hj, h3⟩ := List.mem_map.mp h2
  exact ⟨i, j, List.mem_range.mp hi, List.mem_range.mp hj, h3.symm⟩

/-- a tile of the grid starts inside the matrix -/
theorem tileGrid_inside (R C tr tc : Nat) (htr : 0 < tr) (htc : 0 < tc) (rc : Int × Int) (h : rc ∈ tileGrid R C tr tc) :
    1 ≤ rc.1 ∧ rc.1 ≤ R ∧ 1 ≤ rc.2 ∧ rc.2 ≤ C := by
  obtain ⟨i, j, hi, hj, rfl⟩ := mem_tileGrid R C tr tc rc h
  have h1 : i * tr + 1 ≤ R := by
    have := (Nat.lt_div_iff_mul_lt htr).mp hi
    have hm : tr * i = i * tr := Nat.mul_comm _ _
    omega
  have h2 : j * tc + 1 ≤ C := by
    have := (Nat.lt_div_iff_mul_lt htc).mp hj
    have hm : tc * j = j * tc := Nat.mul_comm _ _
    omega
  simp only
  refine ⟨by omega, by exact_mod_cast h1, by omega, by exact_mod_cast h2⟩

/-- **Every stored tile is a tile of the grid, recorded at the grid's position**; its dimension index values are the
ranks of its row / column offset and of its slide coordinates among the stored tiles -/
theorem mem_tileFrames (origin rowCos colCos : V3) (psRow psCol : Rat) (R C tr tc : Nat) (nonempty : List Bool) (om : Bool)
    (segs : List (Option Nat)) (present : Option Nat → Nat → Bool) (f : TileFrame)
    (hf : f ∈ tileFrames origin rowCos colCos psRow psCol R C tr tc nonempty om segs present) :
    f.seg ∈ segs ∧ (f.row, f.col) ∈ tileGrid R C tr tc ∧ (tileGrid R C tr tc)[f.tile]? = some (f.row, f.col) ∧
    f.pos = tilePosition origin rowCos colCos psRow psCol f.row f.col ∧
    skipped f.seg (omitEff nonempty om) (present f.seg f.tile) = false ∧
    (((f.row, f.col), f.pos), f.tile) ∈ keptTiles (tilesOf origin rowCos colCos psRow psCol R C tr tc) nonempty om := by
  unfold tileFrames at hf
  obtain ⟨s, hs, hfs⟩ := List.mem_flatMap.mp hf
  obtain ⟨h1, h2, h3, _⟩ := mem_tileFramesOf s _ present _ _ f hfs
  subst h1
  have hk := h3
  unfold keptTiles at h3
  have hz := (List.mem_filter.mp h3).1
  have hget := List.mem_zipIdx_iff_getElem?.mp hz
  simp only [tilesOf, List.getElem?_map, Option.map_eq_some_iff] at hget
  obtain ⟨rc, hrc, heq⟩ := hget
  simp only [Prod.mk.injEq] at heq
  obtain ⟨h4, h5⟩ := heq
  have : rc = (f.row, f.col) := h4
  subst this
  refine ⟨hs, List.mem_of_getElem? hrc, hrc, h5.symm, h2, hk⟩

end HdVerif.SegTileFramesLemmas
