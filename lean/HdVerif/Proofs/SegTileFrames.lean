import HdVerif.Proofs.SegFrameLoop
import HdVerif.Proofs.SegGeomTie
import HdVerif.Generated.T7b
import HdVerif.Generated.T7g
import HdVerif.Generated.TC10f
import Mathlib.Data.Finset.Card
import Mathlib.Data.List.Dedup
/-! Lemmas for the tiles a TILED_SPARSE segmentation stores (`Model/SegFrameLoop.lean`, `tileFrames`): every frame is a tile
of the grid at the grid's position, the dimension index values are strictly monotone in row / column / x / y / z. -/
namespace HdVerif.SegTileFramesLemmas
open HdVerif HdVerif.Gen HdVerif.SegGeom HdVerif.SegGeom.V3 HdVerif.SegFrameLoop HdVerif.SegGeomLemmas HdVerif.SegFrameLoopLemmas
open HdVerif.SegGeomTie

/-! ## `rankOf`: position among the sorted distinct values -/

theorem mem_distinctRat (l : List Rat) (a : Rat) : a ∈ distinctRat l ↔ a ∈ l := by
  induction l with
  | nil => simp [distinctRat]
  | cons b t ih =>
    simp only [distinctRat, List.mem_cons, List.mem_filter, ih, bne_iff_ne, ne_eq]
    constructor
    · rintro (h | ⟨h, _⟩)
      · exact Or.inl h
      · exact Or.inr h
    · rintro (h | h)
      · exact Or.inl h
      · by_cases hab : a = b
        · exact Or.inl hab
        · exact Or.inr ⟨h, hab⟩

theorem nodup_distinctRat (l : List Rat) : (distinctRat l).Nodup := by
  induction l with
  | nil => simp [distinctRat]
  | cons b t ih =>
    simp only [distinctRat, List.nodup_cons, List.mem_filter, bne_iff_ne, ne_eq, not_and, not_not]
    exact ⟨fun _ => trivial, ih.sublist List.filter_sublist⟩

theorem length_distinctRat (l : List Rat) : (distinctRat l).length = l.toFinset.card := by
  rw [← List.toFinset_card_of_nodup (nodup_distinctRat l)]
  congr 1
  ext a
  simp [mem_distinctRat]

/-- the dimension index value is strictly monotone in the value (for values that occur) -/
theorem rankOf_lt_iff (vals : List Rat) (v w : Rat) (hv : v ∈ vals) (_hw : w ∈ vals) : rankOf vals v < rankOf vals w ↔ v < w := by
  unfold rankOf
  rw [length_distinctRat, length_distinctRat]
  have key : ∀ a b : Rat, a ≤ b → (vals.filter (fun x => decide (x < a))).toFinset ⊆ (vals.filter (fun x => decide (x < b))).toFinset := by
    intro a b hab x hx
    simp only [List.mem_toFinset, List.mem_filter, decide_eq_true_eq] at hx ⊢
    exact ⟨hx.1, lt_of_lt_of_le hx.2 hab⟩
  constructor
  · intro h
    by_contra hc
    have := Finset.card_le_card (key w v (not_lt.mp hc))
    omega
  · intro h
    have hss : (vals.filter (fun x => decide (x < v))).toFinset ⊂ (vals.filter (fun x => decide (x < w))).toFinset := by
      refine Finset.ssubset_iff_of_subset (key v w (le_of_lt h)) |>.mpr ⟨v, ?_, ?_⟩
      · simp only [List.mem_toFinset, List.mem_filter, decide_eq_true_eq]; exact ⟨hv, h⟩
      · simp only [List.mem_toFinset, List.mem_filter, decide_eq_true_eq, not_and, not_lt]; exact fun _ => le_refl _
    have := Finset.card_lt_card hss
    omega

/-- the smallest stored value has index 1 -/
theorem rankOf_pos (vals : List Rat) (v : Rat) : 1 ≤ rankOf vals v := by unfold rankOf; omega

/-! ## the frames are tiles of the grid -/

/-- every frame of the plane loop is one of the kept tiles, with that tile's offset and position, and its dimension index
values are the ranks among the kept tiles -/
theorem mem_tileFramesOf (s : Option Nat) (om : Bool) (present : Option Nat → Nat → Bool) (vals : List Tile)
    (l : List (Tile × Nat)) (f : TileFrame) (hf : f ∈ tileFramesOf s om present vals l) :
    f.seg = s ∧ skipped s om (present s f.tile) = false ∧ (((f.row, f.col), f.pos), f.tile) ∈ l ∧
    f.div = [rankOf (vals.map (fun k => (k.1.1 : Rat))) (f.row : Rat), rankOf (vals.map (fun k => (k.1.2 : Rat))) (f.col : Rat),
      rankOf (vals.map (fun k => k.2.x)) f.pos.x, rankOf (vals.map (fun k => k.2.y)) f.pos.y, rankOf (vals.map (fun k => k.2.z)) f.pos.z] := by
  induction l with
  | nil => simp [tileFramesOf] at hf
  | cons a t ih =>
    obtain ⟨q, i⟩ := a
    simp only [tileFramesOf] at hf
    split at hf
    · obtain ⟨h1, h2, h3, h4⟩ := ih hf
      exact ⟨h1, h2, List.mem_cons_of_mem _ h3, h4⟩
    · rename_i hsk
      rcases List.mem_cons.mp hf with rfl | hf
      · exact ⟨rfl, by simpa using hsk, List.mem_cons_self, rfl⟩
      · obtain ⟨h1, h2, h3, h4⟩ := ih hf
        exact ⟨h1, h2, List.mem_cons_of_mem _ h3, h4⟩

/-- conversely: a kept tile that is not skipped has its frame -/
theorem tileFramesOf_complete (s : Option Nat) (om : Bool) (present : Option Nat → Nat → Bool) (vals : List Tile)
    (l : List (Tile × Nat)) (q : Tile) (i : Nat) (h : (q, i) ∈ l) (hsk : skipped s om (present s i) = false) :
    ∃ f ∈ tileFramesOf s om present vals l, f.seg = s ∧ f.tile = i ∧ f.row = q.1.1 ∧ f.col = q.1.2 ∧ f.pos = q.2 := by
  induction l with
  | nil => simp at h
  | cons a t ih =>
    obtain ⟨q', i'⟩ := a
    simp only [tileFramesOf]
    rcases List.mem_cons.mp h with heq | h
    · simp only [Prod.mk.injEq] at heq
      obtain ⟨rfl, rfl⟩ := heq
      rw [if_neg (by simp [hsk])]
      exact ⟨_, List.mem_cons_self, rfl, rfl, rfl, rfl, rfl⟩
    · obtain ⟨f, hf, hr⟩ := ih h
      split
      · exact ⟨f, hf, hr⟩
      · exact ⟨f, List.mem_cons_of_mem _ hf, hr⟩

theorem mem_tileGrid (R C tr tc : Nat) (rc : Int × Int) (h : rc ∈ tileGrid R C tr tc) :
    ∃ i j : Nat, i < (R + tr - 1) / tr ∧ j < (C + tc - 1) / tc ∧ rc = (((i * tr : Nat) : Int) + 1, ((j * tc : Nat) : Int) + 1) := by
  unfold tileGrid at h
  obtain ⟨i, hi, h2⟩ := List.mem_flatMap.mp h
  obtain ⟨j, hj, h3⟩ := List.mem_map.mp h2
  exact ⟨i, j, List.mem_range.mp hi, List.mem_range.mp hj, h3.symm⟩

/-- a tile of the grid starts inside the matrix -/
theorem tileGrid_inside (R C tr tc : Nat) (htr : 0 < tr) (htc : 0 < tc) (rc : Int × Int) (h : rc ∈ tileGrid R C tr tc) :
    1 ≤ rc.1 ∧ rc.1 ≤ R ∧ 1 ≤ rc.2 ∧ rc.2 ≤ C := by
  obtain ⟨i, j, hi, hj, rfl⟩ := mem_tileGrid R C tr tc rc h
  have h1 : i * tr + 1 ≤ R := by
    have := (Nat.lt_div_iff_mul_lt htr).mp hi
    have hm : tr * i = i * tr := Nat.mul_comm _ _
    omega
  have h2 : j * tc + 1 ≤ C := by
    have := (Nat.lt_div_iff_mul_lt htc).mp hj
    have hm : tc * j = j * tc := Nat.mul_comm _ _
    omega
  simp only
  refine ⟨by omega, by exact_mod_cast h1, by omega, by exact_mod_cast h2⟩

/-- **Every stored tile is a tile of the grid, recorded at the grid's position**; its dimension index values are the
ranks of its row / column offset and of its slide coordinates among the stored tiles -/
theorem mem_tileFrames (origin rowCos colCos : V3) (psRow psCol : Rat) (R C tr tc : Nat) (nonempty : List Bool) (om : Bool)
    (segs : List (Option Nat)) (present : Option Nat → Nat → Bool) (f : TileFrame)
    (hf : f ∈ tileFrames origin rowCos colCos psRow psCol R C tr tc nonempty om segs present) :
    f.seg ∈ segs ∧ (f.row, f.col) ∈ tileGrid R C tr tc ∧ (tileGrid R C tr tc)[f.tile]? = some (f.row, f.col) ∧
    f.pos = tilePosition origin rowCos colCos psRow psCol f.row f.col ∧
    skipped f.seg (omitEff nonempty om) (present f.seg f.tile) = false ∧
    (((f.row, f.col), f.pos), f.tile) ∈ keptTiles (tilesOf origin rowCos colCos psRow psCol R C tr tc) nonempty om := by
  unfold tileFrames at hf
  obtain ⟨s, hs, hfs⟩ := List.mem_flatMap.mp hf
  obtain ⟨h1, h2, h3, _⟩ := mem_tileFramesOf s _ present _ _ f hfs
  subst h1
  have hk := h3
  unfold keptTiles at h3
  have hz := (List.mem_filter.mp h3).1
  have hget := List.mem_zipIdx_iff_getElem?.mp hz
  simp only [tilesOf, List.getElem?_map, Option.map_eq_some_iff] at hget
  obtain ⟨rc, hrc, heq⟩ := hget
  simp only [Prod.mk.injEq] at heq
  obtain ⟨h4, h5⟩ := heq
  have : rc = (f.row, f.col) := h4
  subst this
  refine ⟨hs, List.mem_of_getElem? hrc, hrc, h5.symm, h2, hk⟩

/-! ## bridge: tile grid and tile positions from the regenerated expressions of `compute_tile_positions_per_frame` -/

/-- the tile grid written from the regenerated expressions: tile counts `Gen.tilesPerAxisFloor` (T7b), running order
`Gen.tileGridRanges` (T7g: fastest range first), offsets `Gen.tileOffsetOf` (T7g: 0-based pixel index pair handed to the
transformer, 1-based offset pair reported) -/
def tileGridGen (R C tr tc : Nat) : List (Int × Int) :=
  match tilesPerAxisFloor tr tc R C with
  | .error _ => []
  | .ok (nc, nr) =>
    match tileGridRanges nc nr with
    | .error _ => []
    | .ok (fast, slow) =>
      (List.range slow.toNat).flatMap (fun (i : Nat) => (List.range fast.toNat).map (fun (j : Nat) =>
        match tileOffsetOf (j : Int) (i : Int) tr tc with
        | .ok (_, _, c1, r1) => (r1, c1)
        | .error _ => (0, 0)))

/-- index direction code of `Gen.rotSelect` for a letter of an index convention -/
def convCode (c : Char) : Int := if c = 'R' then 0 else if c = 'L' then 1 else if c = 'D' then 2 else 3

/-- `PixelToReferenceTransformer(image_position, image_orientation, pixel_spacing)` on the 0-based pixel index `(p0, p1)`:
`create_affine_matrix_from_attributes` with its DEFAULT index convention (`Gen.affineDefaultConvention`, TC10f; the
transformer passes none: `Gen.pixToRefCall`) and the regenerated column selections of `create_rotation_matrix`
(`Gen.rotSelect`, TC03rot) -/
def pixToRefGen (origin rowCos colCos : V3) (psRow psCol : Rat) (p0 p1 : Int) : V3 :=
  match affineDefaultConvention with
  | [a, b] =>
    match rotSelect (convCode a), rotSelect (convCode b) with
    | .ok (c0, s0, q0), .ok (c1, s1, q1) =>
      add (add origin (smul ((p0 : Rat) * pickSp psRow psCol q0) (pickCos rowCos colCos c0 s0)))
        (smul ((p1 : Rat) * pickSp psRow psCol q1) (pickCos rowCos colCos c1 s1))
    | _, _ => origin
  | _ => origin

theorem ceil_div_eq (n t : Nat) (hn : 0 < n) (ht : 0 < t) : Int.fdiv ((n : Int) - 1) (t : Int) + 1 = (((n + t - 1) / t : Nat) : Int) := by
  have h1 : (0 : Int) ≤ (n : Int) - 1 := by omega
  have h2 : (0 : Int) ≤ (t : Int) := by omega
  rw [Int.fdiv_eq_ediv_of_nonneg _ h2]
  have : ((n : Int) - 1) = ((n - 1 : Nat) : Int) := by omega
  rw [this]
  norm_cast
  have : n + t - 1 = (n - 1) + t := by omega
  rw [this, Nat.add_div_right _ ht]

/-- **bridge 5a**: the grid of the model is the regenerated enumeration -/
theorem tileGrid_eq_gen (R C tr tc : Nat) (hR : 0 < R) (hC : 0 < C) (htr : 0 < tr) (htc : 0 < tc) :
    tileGrid R C tr tc = tileGridGen R C tr tc := by
  unfold tileGrid tileGridGen tilesPerAxisFloor tileGridRanges tileOffsetOf
  simp only [ceil_div_eq R tr hR htr, ceil_div_eq C tc hC htc, Int.toNat_natCast]
  apply List.flatMap_congr
  intro i _
  apply List.map_congr_left
  intro j _
  simp only [Prod.mk.injEq]
  constructor <;> push_cast <;> ring

/-- **bridge 5b**: the position the model gives a tile is the regenerated transformer on the regenerated 0-based pixel
index pair of that tile -/
theorem tilePosition_eq_gen (origin rowCos colCos : V3) (psRow psCol : Rat) (i j : Nat) (tr tc : Nat) :
    match tileOffsetOf (j : Int) (i : Int) tr tc with
    | .ok (p0, p1, c1, r1) => tilePosition origin rowCos colCos psRow psCol r1 c1 = pixToRefGen origin rowCos colCos psRow psCol p0 p1
    | .error _ => False := by
  unfold tileOffsetOf
  simp only
  unfold tilePosition pixToRefGen affineDefaultConvention rotSelect convCode
  simp only [pickCos, pickSp]
  obtain ⟨ox, oy, oz⟩ := origin
  obtain ⟨rx, ry, rz⟩ := rowCos
  obtain ⟨cx, cy, cz⟩ := colCos
  simp [add, smul]
  refine ⟨by ring, by ring, by ring⟩

end HdVerif.SegTileFramesLemmas
