import HdVerif.Proofs.SegReadCombine
/-! C02 helper lemmas: the combination loop gives the same answer for every order of the rows of one output frame
(the SQL query only orders by output frame).  Generalised copies of the assembly lemmas of `SegReadCombine.lean`
over any list `rows` with the same members as the join and pairwise different segments. -/
namespace HdVerif.SegReadLemmas
open HdVerif HdVerif.Gen HdVerif.SegRead

section order1
variable (st : Stored) (wf : WfStack st) (segs : List Nat) (relabel : Bool) (hnd : segs.Nodup) (k : Nat)
  (hsub : ∀ s ∈ segs, s ∈ st.segNums) (hbin : ∀ f ∈ st.frames, f.key = k → f.seg ∈ segs → FrameBinary st.type st.mfv f) (d : DType)
  (hcap : ∀ s ∈ segs, outVal segs relabel s ≤ d.maxVal)
  (rows : List (SFrame × Nat))
  (hmem : ∀ r, r ∈ rows ↔ r ∈ joinRows st.frames (chanTable segs (remapValues segs true relabel)) k)
  (hpw : rows.Pairwise (fun a b => a.1.seg ≠ b.1.seg))
include wf hnd hsub hbin hcap hmem hpw

theorem rows_frameBinary' :
    ∀ r ∈ rows, FrameBinary st.type st.mfv r.1 := by
  intro r hr
  obtain ⟨h1, h2, h3, _⟩ := row_facts st wf segs relabel hnd k r ((hmem r).mp hr)
  exact hbin r.1 h1 h2 h3

theorem rows_val_le' :
    ∀ r ∈ rows, (r.2 : Int) ≤ d.maxVal := by
  intro r hr
  obtain ⟨_, _, hs, hv, _⟩ := row_facts st wf segs relabel hnd k r ((hmem r).mp hr)
  rw [hv]; exact hcap _ hs

theorem rows_ok' :
    RowsOk st.npix (rows.map
      (absRow st.type st.mfv)) := by
  intro bv hbv
  obtain ⟨r, hr, rfl⟩ := List.mem_map.mp hbv
  obtain ⟨hf, _, hs, hv, _⟩ := row_facts st wf segs relabel hnd k r ((hmem r).mp hr)
  refine ⟨?_, binPlane_binary _ _ _ (rows_frameBinary' st wf segs relabel hnd k hsub hbin d hcap rows hmem hpw r hr), ?_⟩
  · simp only [absRow]; rw [binPlane_length]; exact wf.len r.1 hf
  · simp only [absRow]; rw [hv]; exact outVal_pos segs relabel _ hs (wf.pos _ (hsub _ hs))

/-- covering, seen from a row -/
theorem row_cov_iff' (r : SFrame × Nat)
    (hr : r ∈ rows) (i : Nat) :
    covI (absRow st.type st.mfv r).1 i ↔ covers st k r.1.seg i := by
  obtain ⟨_, _, _, _, hpl⟩ := row_facts st wf segs relabel hnd k r ((hmem r).mp hr)
  simp only [absRow]
  rw [cov_binPlane _ _ _ (rows_frameBinary' st wf segs relabel hnd k hsub hbin d hcap rows hmem hpw r hr)]
  unfold covers frameCovers
  rw [hpl]

/-- accepted: the overlap check is skipped, or no two requested segments overlap at `k` -/
theorem combineRow_ok' (skip : Bool) (hno : skip = true ∨ NoOverlap st segs k) :
    combineRow st.type st.mfv skip d st.npix rows =
      .ok (maxFold (rows.map
        (absRow st.type st.mfv)) (zeros st.npix)) := by
  rw [combineRow_abs _ _ _ _ _ _ (rows_frameBinary' st wf segs relabel hnd k hsub hbin d hcap rows hmem hpw)
    (rows_val_le' st wf segs relabel hnd k hsub hbin d hcap rows hmem hpw)]
  cases skip with
  | true => exact loop_skip _ _
  | false =>
    have hno' : NoOverlap st segs k := by
      rcases hno with h | h
      · cases h
      · exact h
    apply loop_ok st.npix _ _ (rows_ok' st wf segs relabel hnd k hsub hbin d hcap rows hmem hpw) (by simp [zeros])
    · intro o ho; have := List.eq_of_mem_replicate ho; omega
    · intro bv _ i ⟨_, h⟩; exact zeros_not_cov _ _ h
    · rw [List.pairwise_map]
      apply List.Pairwise.imp_of_mem _ hpw
      intro a b ha hb hab i ⟨h1, h2⟩
      rw [row_cov_iff' st wf segs relabel hnd k hsub hbin d hcap rows hmem hpw a ha] at h1
      rw [row_cov_iff' st wf segs relabel hnd k hsub hbin d hcap rows hmem hpw b hb] at h2
      exact hno' _ (row_facts st wf segs relabel hnd k a ((hmem a).mp ha)).2.2.1 _ (row_facts st wf segs relabel hnd k b ((hmem b).mp hb)).2.2.1
        hab i ⟨h1, h2⟩

/-- refused: the check is on and two different requested segments share a pixel at `k` -/
theorem combineRow_overlap' (s₁ s₂ i : Nat) (h1 : s₁ ∈ segs) (h2 : s₂ ∈ segs) (hne : s₁ ≠ s₂)
    (hc1 : covers st k s₁ i) (hc2 : covers st k s₂ i) :
    combineRow st.type st.mfv false d st.npix rows =
      .error .runtime := by
  rw [combineRow_abs _ _ _ _ _ _ (rows_frameBinary' st wf segs relabel hnd k hsub hbin d hcap rows hmem hpw)
    (rows_val_le' st wf segs relabel hnd k hsub hbin d hcap rows hmem hpw)]
  apply loop_err st.npix _ _ (rows_ok' st wf segs relabel hnd k hsub hbin d hcap rows hmem hpw) (by simp [zeros])
  · intro o ho; have := List.eq_of_mem_replicate ho; omega
  · right
    intro hp
    obtain ⟨f1, hr1j, hs1, _⟩ := row_of_covers st wf segs relabel hnd k s₁ i h1 hc1
    obtain ⟨f2, hr2j, hs2, _⟩ := row_of_covers st wf segs relabel hnd k s₂ i h2 hc2
    have hr1 := (hmem _).mpr hr1j
    have hr2 := (hmem _).mpr hr2j
    have hp' := List.pairwise_map.mp hp
    have hne' : (f1, outValNat segs relabel s₁) ≠ (f2, outValNat segs relabel s₂) := by
      intro h
      have : f1 = f2 := (Prod.mk.inj h).1
      exact hne (by rw [← hs1, ← hs2, this])
    have hcov1 := (row_cov_iff' st wf segs relabel hnd k hsub hbin d hcap rows hmem hpw _ hr1 i).mpr (by simpa [hs1] using hc1)
    have hcov2 := (row_cov_iff' st wf segs relabel hnd k hsub hbin d hcap rows hmem hpw _ hr2 i).mpr (by simpa [hs2] using hc2)
    rcases pairwise_either _ _ hp' _ _ hr1 hr2 hne' with h | h
    · exact h i ⟨hcov1, hcov2⟩
    · exact h i ⟨hcov2, hcov1⟩

end order1



section order2
variable (st : Stored) (wf : WfStack st) (segs : List Nat) (relabel : Bool) (hnd : segs.Nodup) (k : Nat)
  (hsub : ∀ s ∈ segs, s ∈ st.segNums) (hbin : ∀ f ∈ st.frames, f.key = k → f.seg ∈ segs → FrameBinary st.type st.mfv f) (d : DType)
  (hcap : ∀ s ∈ segs, outVal segs relabel s ≤ d.maxVal)
  (rows : List (SFrame × Nat))
  (hmem : ∀ r, r ∈ rows ↔ r ∈ joinRows st.frames (chanTable segs (remapValues segs true relabel)) k)
  (hpw : rows.Pairwise (fun a b => a.1.seg ≠ b.1.seg))
include wf hnd hsub hbin hcap hmem hpw

/-- every pixel of the loop's result is the combined value the property asks for -/
theorem combined_pixel' (i : Nat) (hi : i < st.npix) :
    ∃ v, (maxFold (rows.map
        (absRow st.type st.mfv)) (zeros st.npix))[i]? = some v ∧ IsCombinedValue st segs relabel k i v := by
  have hok := rows_ok' st wf segs relabel hnd k hsub hbin d hcap rows hmem hpw
  refine ⟨_, maxFold_get st.npix _ _ hok (by simp [zeros]) i hi, ?_⟩
  have hz : (zeros st.npix).getD i 0 = 0 := by
    rw [List.getD_eq_getElem?_getD]; simp [zeros, List.getElem?_replicate, hi]
  rw [hz]
  constructor
  · intro s hs hc
    obtain ⟨f, hrj, hfs, _⟩ := row_of_covers st wf segs relabel hnd k s i hs hc
    have hr := (hmem _).mpr hrj
    have hcov := (row_cov_iff' st wf segs relabel hnd k hsub hbin d hcap rows hmem hpw _ hr i).mpr (by simpa [hfs] using hc)
    have := maxAt_dominates st.npix _ hok i 0 _ (List.mem_map.mpr ⟨_, hr, rfl⟩) hcov
    simp only [absRow] at this
    rw [outValNat_eq segs relabel s hs] at this
    exact this
  · rcases maxAt_attained st.npix _ hok i 0 (by omega) with h | ⟨bv, hbv, hcv, h⟩
    · left; exact h
    · right
      obtain ⟨r, hr, rfl⟩ := List.mem_map.mp hbv
      obtain ⟨_, _, hs, hv, _⟩ := row_facts st wf segs relabel hnd k r ((hmem r).mp hr)
      refine ⟨r.1.seg, hs, (row_cov_iff' st wf segs relabel hnd k hsub hbin d hcap rows hmem hpw r hr i).mp hcv, ?_⟩
      rw [h]; simp only [absRow]; exact hv

end order2


theorem isCombinedValue_unique (st : Stored) (segs : List Nat) (relabel : Bool) (k i : Nat) (v v' : Int)
    (hpos : ∀ s ∈ segs, 0 < s) (h : IsCombinedValue st segs relabel k i v)
    (h' : IsCombinedValue st segs relabel k i v') : v = v' := by
  obtain ⟨hd, ha⟩ := h
  obtain ⟨hd', ha'⟩ := h'
  rcases ha with h0 | ⟨s, hs, hc, hv⟩ <;> rcases ha' with h0' | ⟨s', hs', hc', hv'⟩
  · omega
  · have := hd s' hs' hc'
    have := outVal_pos segs relabel s' hs' (hpos s' hs')
    omega
  · have := hd' s hs hc
    have := outVal_pos segs relabel s hs (hpos s hs)
    omega
  · have h1 := hd s' hs' hc'
    have h2 := hd' s hs hc
    omega

/-- **The order of the rows inside one output frame does not matter**: the loop gives the same result (the same
array, or the same refusal) for every permutation of the rows the join delivers. -/
theorem combineRow_perm (st : Stored) (wf : WfStack st) (segs : List Nat) (relabel : Bool) (hnd : segs.Nodup) (k : Nat)
    (hsub : ∀ s ∈ segs, s ∈ st.segNums) (hbin : ∀ f ∈ st.frames, f.key = k → f.seg ∈ segs → FrameBinary st.type st.mfv f) (d : DType)
    (hcap : ∀ s ∈ segs, outVal segs relabel s ≤ d.maxVal) (skip : Bool) (rows' : List (SFrame × Nat))
    (hperm : rows'.Perm (joinRows st.frames (chanTable segs (remapValues segs true relabel)) k)) :
    combineRow st.type st.mfv skip d st.npix rows' =
      combineRow st.type st.mfv skip d st.npix (joinRows st.frames (chanTable segs (remapValues segs true relabel)) k) := by
  have hmem : ∀ r, r ∈ rows' ↔ r ∈ joinRows st.frames (chanTable segs (remapValues segs true relabel)) k :=
    fun r => hperm.mem_iff
  have hpw : rows'.Pairwise (fun a b => a.1.seg ≠ b.1.seg) :=
    (hperm.pairwise_iff (fun h => fun h' => h h'.symm)).mpr (joinRows_pairwise st wf segs relabel hnd k)
  have hpos : ∀ s ∈ segs, 0 < s := fun s hs => wf.pos s (hsub s hs)
  by_cases hno : skip = true ∨ NoOverlap st segs k
  · rw [combineRow_ok' st wf segs relabel hnd k hsub hbin d hcap rows' hmem hpw skip hno,
      combineRow_ok st wf segs relabel hnd k hsub hbin d hcap skip hno]
    congr 1
    apply List.ext_getElem?
    intro i
    by_cases hi : i < st.npix
    · obtain ⟨v, hv, hcv⟩ := combined_pixel' st wf segs relabel hnd k hsub hbin d hcap rows' hmem hpw i hi
      obtain ⟨v', hv', hcv'⟩ := combined_pixel st wf segs relabel hnd k hsub hbin d hcap i hi
      rw [hv, hv', isCombinedValue_unique st segs relabel k i v v' hpos hcv hcv']
    · have l1 := maxFold_length st.npix _ (zeros st.npix)
        (rows_ok' st wf segs relabel hnd k hsub hbin d hcap rows' hmem hpw) (by simp [zeros])
      have l2 := maxFold_length st.npix _ (zeros st.npix)
        (rows_ok st wf segs relabel hnd k hsub hbin d hcap) (by simp [zeros])
      rw [List.getElem?_eq_none (by omega), List.getElem?_eq_none (by omega)]
  · have hs : skip = false := by
      cases skip
      · rfl
      · exact absurd (Or.inl rfl) hno
    have hov : ¬ NoOverlap st segs k := fun h => hno (Or.inr h)
    have : ∃ s₁ ∈ segs, ∃ s₂ ∈ segs, s₁ ≠ s₂ ∧ ∃ i, covers st k s₁ i ∧ covers st k s₂ i := by
      apply Classical.byContradiction
      intro hne
      apply hov
      intro s₁ h1 s₂ h2 hne12 i hcv
      exact hne ⟨s₁, h1, s₂, h2, hne12, i, hcv⟩
    obtain ⟨s₁, h1, s₂, h2, hne12, i, hc1, hc2⟩ := this
    rw [hs, combineRow_overlap' st wf segs relabel hnd k hsub hbin d hcap rows' hmem hpw s₁ s₂ i h1 h2 hne12 hc1 hc2,
      combineRow_overlap st wf segs relabel hnd k hsub hbin d hcap s₁ s₂ i h1 h2 hne12 hc1 hc2]


end HdVerif.SegReadLemmas
