import HdVerif.Model.SegGeom
import HdVerif.Generated.TC03getitem
import HdVerif.Generated.TC03volpos
import HdVerif.Generated.TC03rot
import HdVerif.Proofs.SegGeom
/-! C03: three hand-written parts of `Model/SegGeom.lean` use exactly the expressions the current source contains
(regenerated on every run as `Generated/TC03getitem.lean`, `TC03volpos.lean`, `TC03rot.lean`):

* `getitemAxis`      ↔ `volume.py::_VolumeBase._prepare_getitem_index` (bounds test of `_check_slice`, emptiness test,
                       size and new-origin index of one axis);
* `normHint`, `defaultSpacing`, `regularMissing`, `regularStrict`, the three tolerances
                     ↔ `spatial.py::get_volume_positions`;
* `fromAttributes`   ↔ `spatial.py::create_rotation_matrix` under `VOLUME_INDEX_CONVENTION`, `slices_first=True`,
                       right-handed (the values `Volume.from_attributes` passes, pinned by `Gen.wiringVolume`).

What stays hand-written in these bridges and is named as such: CPython's `slice.indices` for step 1
(`sliceIndices1`), one element of `np.allclose` (`allCloseElem`), `np.round` (`roundHalfEven`), the dictionary from the
selector codes of `Gen.rotSelect` to vectors / spacings (`pickCos`, `pickSp`). -/
namespace HdVerif.SegGeomTie
open HdVerif HdVerif.Gen HdVerif.SegGeom HdVerif.SegGeom.V3 HdVerif.SegGeomLemmas

/-! ## 1. `Volume.__getitem__`, one axis -/

/-- CPython's `slice(start, stop).indices(n)[:2]` for step 1 (hand-written: C code of the interpreter) -/
def sliceIndices1 (start stop : Option Int) (n : Int) : Int × Int :=
  (match start with
   | none => 0
   | some s => if s < 0 then imax (s + n) 0 else imin s n,
   match stop with
   | none => n
   | some s => if s < 0 then imax (s + n) 0 else imin s n)

/-- one axis of `_prepare_getitem_index`, written with the regenerated expressions only -/
def getitemAxisGen (start stop : Option Int) (n : Int) : Except ErrKind (Int × Int) :=
  match getitemCheckSlice start stop n with
  | .error e => .error e
  | .ok _ => getitemAxisStep (sliceIndices1 start stop n).1 (sliceIndices1 start stop n).2 1

theorem getitemAxisStep_one (first last : Int) :
    getitemAxisStep first last 1 = if last - first ≤ 0 then .error .index else .ok (first, last - first) := by
  unfold getitemAxisStep
  by_cases h : last - first ≤ 0
  · rw [if_pos h]
    by_cases h0 : last - first = 0
    · simp [h0]
    · have hlt : last - first < 0 := by omega
      simp [h0, hlt]
  · rw [if_neg h]
    have h0 : ¬ (last - first = 0) := by omega
    have hlt : ¬ (last - first < 0) := by omega
    simp [h0, hlt]

/-- **bridge 1**: the model's axis of `Volume.__getitem__` is the regenerated bounds test followed by the regenerated
per-axis arithmetic on `slice.indices` -/
theorem getitemAxis_eq_gen (start stop : Option Int) (n : Int) :
    getitemAxis start stop n = getitemAxisGen start stop n := by
  unfold getitemAxis getitemAxisGen getitemCheckSlice
  cases start with
  | none =>
    cases stop with
    | none => simp [getitemAxisStep_one, sliceIndices1]
    | some e =>
      by_cases hb : (decide (e < -n - 1) || decide (e > n)) = true
      · simp [hb]
      · simp only [Bool.not_eq_true] at hb
        simp [hb, getitemAxisStep_one, sliceIndices1]
  | some s =>
    cases stop with
    | none =>
      by_cases ha : (decide (s < -n) || decide (s ≥ n)) = true
      · simp [ha]
      · simp only [Bool.not_eq_true] at ha
        simp [ha, getitemAxisStep_one, sliceIndices1]
    | some e =>
      by_cases ha : (decide (s < -n) || decide (s ≥ n)) = true
      · simp [ha]
      · simp only [Bool.not_eq_true] at ha
        by_cases hb : (decide (e < -n - 1) || decide (e > n)) = true
        · simp [ha, hb]
        · simp only [Bool.not_eq_true] at hb
          simp [ha, hb, getitemAxisStep_one, sliceIndices1]

/-! ## 2. `get_volume_positions` -/

/-- the tolerances of the model are the module constants of the current source -/
theorem tolerances_eq_gen : tolSpacing = vpTolSpacing ∧ tolEq = vpTolEq ∧ tolPerp = vpTolPerp := by
  refine ⟨?_, ?_, ?_⟩ <;> simp [tolSpacing, vpTolSpacing, tolEq, vpTolEq, tolPerp, vpTolPerp]

/-- the normalisation of the hint is the regenerated block (its result 0 stands for "no hint") -/
theorem normHint_eq_gen (h : Option Rat) :
    normHint h = (match h, vpNormHint h with
      | none, _ => .ok none
      | some _, .ok v => .ok (some v)
      | some _, .error e => .error e) := by
  cases h with
  | none => rfl
  | some h =>
    simp only [normHint, vpNormHint, rabs]
    by_cases h0 : h = 0
    · subst h0; simp
    · by_cases hn : h < 0
      · have : ¬ (-h = 0) := by intro hh; apply h0; linarith
        simp [h0, hn, this]
      · simp [h0, hn]

/-- the spacing reported for a single (distinct) position is the regenerated conditional expression -/
theorem defaultSpacing_eq_gen (h : Option Rat) : vpSingleSpacing h = .ok (defaultSpacing h) := by
  cases h <;> simp [vpSingleSpacing, defaultSpacing]

/-- one element of `np.allclose(a, b, rtol, atol)` (hand-written: numpy) -/
def allCloseElem (a b : Rat) (tol : Rat × Rat) : Bool := rabs (a - b) ≤ tol.2 + tol.1 * rabs b

theorem allCloseElem_missing (m r x : Rat) :
    allCloseElem m r (((0 : Rat) / 1), (vpTolSpacing + ((0 : Rat) / 1) / x)) = decide (rabs (m - r) ≤ tolSpacing) := by
  simp [allCloseElem, tolSpacing, vpTolSpacing]

/-- one pass of the refinement loop of the estimated spacing, from the regenerated ratio `distance / spacing`, guard
`n_spacings > 0` and update `distance / n_spacings` (hand-written: Python's `round` = half to even, `roundHalfEven`) -/
def refineStepGen (s D : Rat) : Rat :=
  match vpRefineRatio D s with
  | .error _ => s
  | .ok q =>
    match vpRefineGuard (roundHalfEven q), vpRefined D (roundHalfEven q) with
    | .ok true, .ok v => v
    | _, _ => s

/-- the estimate without a hint: smallest gap of the sorted distinct distances (hand-written: `np.diff`, `min`), refused
when 0 within the regenerated `vpTolEq`, refined by the regenerated loop body over `sorted[1:] − sorted[0]` (the iterable
is checked textually by the target) -/
def estimateSpacingGen (du : List Rat) : Option Rat :=
  match minGap du with
  | none => none
  | some gp =>
    if rabs gp ≤ vpTolEq then none else
    match sortRat du with
    | [] => none
    | lo :: rest => some ((rest.map (fun d => d - lo)).foldl refineStepGen gp)

/-- the `allow_missing_positions` branch, written with the regenerated refinement, multiple, tolerance and constants
(hand-written remainder: `np.unique` / `len` of the distinct-multiples test = `allDistinct`) -/
def regularMissingGen (ds du : List Rat) (dmin dmax : Rat) (hint : Option Rat) (perp : Bool) : Option (Rat × List Int) :=
  let spacing? : Option Rat := match hint with
    | some h => some h
    | none => estimateSpacingGen du
  match spacing? with
  | none => none
  | some sp =>
    if sp == 0 then none else
    match vpMissingTol sp with
    | .error _ => none
    | .ok tol =>
      let mlt := fun d => match vpMultiple d dmin dmax sp with | .ok m => m | .error _ => 0
      let mult := ds.map mlt
      let regular := mult.all (fun m => allCloseElem m (roundHalfEven m : Rat) tol) &&
        allDistinct (du.map (fun d => roundHalfEven (mlt d)))
      if regular && perp then some (rabs sp, mult.map roundHalfEven) else none

theorem refineStep_eq_gen (s D : Rat) :
    (if 0 < roundHalfEven (D / s) then D / ((roundHalfEven (D / s) : Int) : Rat) else s) = refineStepGen s D := by
  unfold refineStepGen vpRefineRatio vpRefineGuard vpRefined
  simp only
  by_cases h : 0 < roundHalfEven (D / s)
  · have : decide (roundHalfEven (D / s) > 0) = true := by simpa using h
    rw [if_pos h, this]
  · have : decide (roundHalfEven (D / s) > 0) = false := by simpa using h
    rw [if_neg h, this]

theorem estimateSpacing_eq_gen (du : List Rat) : estimateSpacing du = estimateSpacingGen du := by
  unfold estimateSpacing estimateSpacingGen refineSpacing
  have hte : tolEq = vpTolEq := tolerances_eq_gen.2.1
  rw [hte]
  have hf : (fun (s D : Rat) => if 0 < roundHalfEven (D / s) then D / ((roundHalfEven (D / s) : Int) : Rat) else s) = refineStepGen := by
    funext s D; exact refineStep_eq_gen s D
  rw [hf]
  rfl

/-- **bridge 2a**: the gaps-allowed branch of the model uses the regenerated refinement of the estimated spacing (ratio,
guard, update of the loop body), the regenerated multiple `(d − d.min())/spacing`, the regenerated tolerance pair of the
regularity test and the regenerated zero-gap tolerance -/
theorem regularMissing_eq_gen (ds du : List Rat) (dmin dmax : Rat) (hint : Option Rat) (perp : Bool) :
    regularMissing ds du dmin hint perp = regularMissingGen ds du dmin dmax hint perp := by
  unfold regularMissing regularMissingGen
  rw [estimateSpacing_eq_gen]
  simp only [vpMissingTol, vpMultiple, allCloseElem_missing]
  rfl

/-- the strict branch, written with the regenerated mean gap -/
def regularStrictGen (ds du : List Rat) (dmin dmax : Rat) (hint : Option Rat) (perp : Bool) :
    Except ErrKind (Option (Rat × List Int)) :=
  match vpMeanGap dmin dmax (du.length : Int) with
  | .error e => .error e
  | .ok sp =>
    if hintMismatch sp hint then .error .runtime else
    let regular := (diffs (sortRat du)).all (fun d => isClose d sp vpTolSpacing)
    if regular && perp then
      .ok (some (rabs sp, ds.map (fun d => ((du.filter (fun e => e < d)).length : Int)))) else .ok none

/-- **bridge 2b**: the strict branch of the model uses the regenerated spacing `(last − first)/(count − 1)` -/
theorem regularStrict_eq_gen (ds du : List Rat) (dmin dmax : Rat) (hint : Option Rat) (perp : Bool) :
    regularStrict ds du dmin dmax hint perp = regularStrictGen ds du dmin dmax hint perp := by
  unfold regularStrict regularStrictGen vpMeanGap
  have hts : tolSpacing = vpTolSpacing := tolerances_eq_gen.1
  rw [hts]
  simp only [Int.cast_sub, Int.cast_one]

theorem perp_1d (x : Rat) :
    ((if x - 1 < 0 then -(x - 1) else x - 1) < 1 / 1000 ∨ (if x + 1 < 0 then -(x + 1) else x + 1) < 1 / 1000) ↔
      ((1 - 1 / 1000) * (1 - 1 / 1000) < x * x ∧ x * x < (1 + 1 / 1000) * (1 + 1 / 1000)) := by
  constructor
  · rintro (h | h) <;> split_ifs at h <;> constructor <;> nlinarith
  · rintro ⟨h1, h2⟩
    by_cases hx : 0 ≤ x
    · left; split_ifs <;> nlinarith
    · right; split_ifs <;> nlinarith

/-- **bridge 2c**: the model's perpendicularity test on squares is the regenerated test on the normalised dot product
(stated for spans whose length `r` is rational — the model avoids the square root) -/
theorem isPerp_eq_gen (n span : V3) (r : Rat) (hr : 0 < r) (hrr : r * r = dot span span) :
    vpIsPerp (dot n span / r) = .ok (isPerp n span) := by
  unfold vpIsPerp isPerp
  simp only [Except.ok.injEq]
  set x := dot n span / r with hx
  have hd : dot n span = x * r := by rw [hx]; field_simp
  have h := perp_1d x
  rw [Bool.eq_iff_iff]
  simp only [Bool.or_eq_true, Bool.and_eq_true, decide_eq_true_eq, tolPerp, vpTolPerp, ← hrr, hd]
  have hr2 : 0 < r * r := mul_pos hr hr
  have e1 : x * r * (x * r) = (x * x) * (r * r) := by ring
  rw [e1]
  constructor
  · intro hh
    obtain ⟨a, b⟩ := h.mp (by simpa using hh)
    constructor <;> nlinarith
  · rintro ⟨a, b⟩
    have a' : (1 - 1 / 1000) * (1 - 1 / 1000) < x * x := by
      by_contra hc
      have : x * x * (r * r) ≤ (1 - 1 / 1000) * (1 - 1 / 1000) * (r * r) := by nlinarith
      linarith
    have b' : x * x < (1 + 1 / 1000) * (1 + 1 / 1000) := by
      by_contra hc
      have : (1 + 1 / 1000) * (1 + 1 / 1000) * (r * r) ≤ x * x * (r * r) := by nlinarith
      linarith
    simpa using h.mpr ⟨a', b'⟩

/-! ## 3. `VolumeGeometry.from_attributes` -/

/-- the vector a selector pair of `Gen.rotSelect` stands for -/
def pickCos (rowCos colCos : V3) (sel sign : Int) : V3 := smul (sign : Rat) (if sel = 0 then rowCos else colCos)
/-- the spacing a selector of `Gen.rotSelect` stands for (`pixel_spacing = [between rows, between columns]`) -/
def pickSp (psRow psCol : Rat) (sel : Int) : Rat := if sel = 0 then psCol else psRow

/-- `create_affine_matrix_from_attributes(…, index_convention=VOLUME_INDEX_CONVENTION, slices_first=True)`, written
with the regenerated selections only -/
def fromAttributesGen (origin rowCos colCos : V3) (psRow psCol sbs : Rat) : Except ErrKind Aff :=
  match rotSpacingCheck psRow psCol, rotSelect rotVolumeConvention.1, rotSelect rotVolumeConvention.2,
      rotCrossOrder true, rotNormalColumn true with
  | .error e, _, _, _, _ => .error e
  | .ok _, .ok (c0, s0, p0), .ok (c1, s1, p1), .ok (i, j), .ok k =>
    let v0 := pickCos rowCos colCos c0 s0
    let v1 := pickCos rowCos colCos c1 s1
    let col (m : Int) : V3 := if m = 0 then v0 else v1
    let n := cross (col i) (col j)
    let a : Aff :=
      if k = 0 then ⟨smul sbs n, smul (pickSp psRow psCol p0) v0, smul (pickSp psRow psCol p1) v1, origin⟩
      else ⟨smul (pickSp psRow psCol p0) v0, smul (pickSp psRow psCol p1) v1, smul sbs n, origin⟩
    if orthogonalCols a then .ok a else .error .value
  | _, _, _, _, _ => .error .other

theorem smul_one_rat (v : V3) : smul 1 v = v := by
  cases v; simp [smul]

/-- **bridge 3**: the affine the model builds from the recorded attributes selects cosines, signs and spacings the way
the regenerated branches of `create_rotation_matrix` do for the volume convention -/
theorem fromAttributes_eq_gen (origin rowCos colCos : V3) (psRow psCol sbs : Rat) :
    fromAttributes origin rowCos colCos psRow psCol sbs = fromAttributesGen origin rowCos colCos psRow psCol sbs := by
  unfold fromAttributes fromAttributesGen rotSpacingCheck rotSelect rotVolumeConvention rotCrossOrder rotNormalColumn
  by_cases h : (decide (psRow ≤ 0) || decide (psCol ≤ 0)) = true
  · simp [h]
  · simp only [Bool.not_eq_true] at h
    simp [h, pickCos, pickSp, normal, smul_one_rat] <;> rfl

end HdVerif.SegGeomTie
