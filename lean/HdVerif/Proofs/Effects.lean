import HdVerif.Model.Effects
/-! Soundness of the alias analysis of `Model/Effects.lean`: a program accepted by `pureProg` never changes location 0
(the object's stored pixel cells), whatever statements run, in whatever order, however often. -/
namespace HdVerif.Effects

theorem closed_stored (al : List Nat) (prog : List Stmt) (h : closed al prog = true) (s : Stmt) (hs : s ∈ prog)
    (hi : s.inplace = false) (hr : s.rhs = .stored) : s.target ∈ al := by
  unfold closed at h
  have := List.all_eq_true.mp h s hs
  simp only [hi, Bool.false_or, hr] at this
  simpa using this

theorem closed_alias (al : List Nat) (prog : List Stmt) (h : closed al prog = true) (s : Stmt) (hs : s ∈ prog)
    (hi : s.inplace = false) (n : Nat) (hn : n ∈ s.rhs.names) (hal : n ∈ al) : s.target ∈ al := by
  unfold closed at h
  have := List.all_eq_true.mp h s hs
  simp only [hi, Bool.false_or] at this
  cases hr : s.rhs with
  | stored => rw [hr] at hn; simp [Rhs.names] at hn
  | fresh => rw [hr] at hn; simp [Rhs.names] at hn
  | view ns =>
    rw [hr] at this hn
    simp only [Rhs.names] at this hn
    have hany : ns.any al.contains = true := List.any_eq_true.mpr ⟨n, hn, by simpa using hal⟩
    simp only [hany, Bool.not_true, Bool.false_or] at this
    simpa using this
  | unknown ns =>
    rw [hr] at this hn
    simp only [Rhs.names] at this hn
    have hany : ns.any al.contains = true := List.any_eq_true.mpr ⟨n, hn, by simpa using hal⟩
    simp only [hany, Bool.not_true, Bool.false_or] at this
    simpa using this

theorem step_sound (al : List Nat) (prog : List Stmt) (hc : closed al prog = true)
    (hw : noObjectWrite al prog = true) (σ σ' : St) (hinv : Inv al σ) (h : Step prog σ σ') :
    σ'.store 0 = σ.store 0 ∧ Inv al σ' := by
  cases h with
  | bindStored s hs hi hr =>
    refine ⟨rfl, ?_⟩
    intro x hx
    simp only [St.bind] at hx
    by_cases hxt : x = s.target
    · rw [hxt]; exact closed_stored al prog hc s hs hi hr
    · simp only [hxt, ↓reduceIte] at hx; exact hinv x hx
  | bindNew s hs hi l hl =>
    refine ⟨rfl, ?_⟩
    intro x hx
    simp only [St.bind] at hx
    by_cases hxt : x = s.target
    · simp only [hxt, ↓reduceIte, Option.some.injEq] at hx; exact absurd hx hl
    · simp only [hxt, ↓reduceIte] at hx; exact hinv x hx
  | bindAlias s hs hi n hn =>
    refine ⟨rfl, ?_⟩
    intro x hx
    simp only [St.bind] at hx
    by_cases hxt : x = s.target
    · simp only [hxt, ↓reduceIte] at hx
      rw [hxt]; exact closed_alias al prog hc s hs hi n hn (hinv n hx)
    · simp only [hxt, ↓reduceIte] at hx; exact hinv x hx
  | writeInPlace s hs hi l v _ hl =>
    have hl0 : l ≠ 0 := by
      intro h0
      have hmem : s.target ∈ al := hinv s.target (by rw [hl, h0])
      have := List.all_eq_true.mp hw s hs
      simp only [hi, Bool.true_and, Bool.not_eq_true'] at this
      have hc' : al.contains s.target = true := by simpa using hmem
      rw [hc'] at this; cases this
    refine ⟨?_, ?_⟩
    · simp only [St.write]
      have : ¬ (0 = l) := fun h => hl0 h.symm
      simp [this]
    · intro x hx; exact hinv x hx

/-- **Soundness**: if the may-alias set is closed under the program and no in-place statement targets a name in it, no
execution built from the program's statements changes the object's cells. -/
theorem exec_preserves_object (al : List Nat) (prog : List Stmt) (hc : closed al prog = true)
    (hw : noObjectWrite al prog = true) (σ σ' : St) (hinv : Inv al σ) (h : Exec prog σ σ') :
    σ'.store 0 = σ.store 0 ∧ Inv al σ' := by
  induction h with
  | refl => exact ⟨rfl, hinv⟩
  | step _ hstep ih =>
    obtain ⟨h1, h2⟩ := ih
    obtain ⟨h3, h4⟩ := step_sound al prog hc hw _ _ h2 hstep
    exact ⟨h3.trans h1, h4⟩

/-- the form used by the property theorems -/
theorem pureProg_sound (init : List Nat) (prog : List Stmt) (hp : pureProg init prog = true) (σ σ' : St)
    (hinit : ∀ x, σ.env x = some 0 → x ∈ init) (h : Exec prog σ σ') : σ'.store 0 = σ.store 0 := by
  unfold pureProg at hp
  simp only [Bool.and_eq_true] at hp
  obtain ⟨⟨hi, hc⟩, hw⟩ := hp
  have hinv : Inv (mayAlias init prog) σ := by
    intro x hx
    have := List.all_eq_true.mp hi x (hinit x hx)
    simpa using this
  exact (exec_preserves_object _ prog hc hw σ σ' hinv h).1

end HdVerif.Effects
