import HdVerif.Model.PixelPipeline
import Mathlib.Tactic.Ring
import Mathlib.Tactic.Linarith
import Mathlib.Tactic.FieldSimp
import Mathlib.Tactic.Push
import Mathlib.Tactic.SplitIfs
/-! Helper lemmas for C06 (window function, table lookup, folding). -/
namespace HdVerif.PixelPipelineLemmas
open HdVerif HdVerif.Gen HdVerif.PixelPipeline

/-- clipping `t * R + lo` to `[lo, lo + R]` is the three-piece definition of the standard -/
theorem clip_pieces (t R lo : Rat) (hR : 0 < R) :
    min (max (t * R + lo) lo) (lo + R) = if t ≤ 0 then lo else if t > 1 then lo + R else t * R + lo := by
  split_ifs with h1 h2
  · have : t * R ≤ 0 := mul_nonpos_of_nonpos_of_nonneg h1 hR.le
    rw [max_eq_right (by linarith), min_eq_left (by linarith)]
  · have : R < t * R := by nlinarith
    rw [max_eq_left (by linarith), min_eq_right (by linarith)]
  · push Not at h1 h2
    have h3 : 0 < t * R := mul_pos h1 hR
    have h4 : t * R ≤ R := by nlinarith
    rw [max_eq_left (by linarith), min_eq_left (by linarith)]

theorem clip_pieces_inv (t R lo : Rat) (hR : 0 < R) :
    min (max (-t * R + (lo + R)) lo) (lo + R) = (lo + R) + lo - (if t ≤ 0 then lo else if t > 1 then lo + R else t * R + lo) := by
  split_ifs with h1 h2
  · have : t * R ≤ 0 := mul_nonpos_of_nonpos_of_nonneg h1 hR.le
    rw [max_eq_left (by linarith), min_eq_right (by linarith)]; ring
  · have : R < t * R := by nlinarith
    rw [max_eq_right (by linarith), min_eq_left (by linarith)]; ring
  · push Not at h1 h2
    have h3 : 0 < t * R := mul_pos h1 hR
    have h4 : t * R ≤ R := by nlinarith
    rw [max_eq_left (by linarith), min_eq_left (by linarith)]; ring

/-- the translated window function with LINEAR_EXACT is the standard's three-piece definition -/
theorem window_exact (c w lo hi x : Rat) (hw : 0 < w) (hr : lo < hi) (inv : Bool) :
    voiWindowLinear x c w "LINEAR_EXACT" lo hi inv
      = .ok (if inv then hi + lo - refExact c w lo hi x else refExact c w lo hi x) := by
  obtain ⟨R, rfl⟩ : ∃ R, hi = lo + R := ⟨hi - lo, by ring⟩
  have hw' : w ≠ 0 := ne_of_gt hw
  have hR : 0 < R := by linarith
  have key := clip_pieces ((x - c) / w + 1/2) R lo hR
  have keyi := clip_pieces_inv ((x - c) / w + 1/2) R lo hR
  have e1 : (x - (c - w / (2 / 1))) * ((lo + R - lo) / w) + lo = ((x - c) / w + 1/2) * R + lo := by
    field_simp; ring
  have e2 : (c - w / (2 / 1) - x) * ((lo + R - lo) / w) + (lo + R) = -((x - c) / w + 1/2) * R + (lo + R) := by
    field_simp; ring
  have c1 : ((x - c) / w + 1/2 ≤ 0) ↔ x ≤ c - w / 2 := by
    rw [div_add' _ _ _ hw', div_le_iff₀ hw]; constructor <;> intro h <;> linarith
  have c2 : ((x - c) / w + 1/2 > 1) ↔ x > c + w / 2 := by
    rw [gt_iff_lt, div_add' _ _ _ hw', lt_div_iff₀ hw]; constructor <;> intro h <;> linarith
  have hlo : lo + R - lo = R := by ring
  unfold voiWindowLinear refExact
  have hs : ("LINEAR_EXACT" == "LINEAR") = false := by decide
  simp only [hs, Bool.false_eq_true, ↓reduceIte]
  cases inv
  · simp only [Bool.false_eq_true, ↓reduceIte]
    rw [e1, key]
    simp only [c1, c2, hlo]
  · simp only [↓reduceIte]
    rw [e2, keyi]
    simp only [c1, c2, hlo]

/-- the translated window function with LINEAR is the three-piece definition of PS3.3 C.11.2.1.2.1 -/
theorem window_linear (c w lo hi x : Rat) (hw : 1 < w) (hr : lo < hi) (inv : Bool) :
    voiWindowLinear x c w "LINEAR" lo hi inv
      = .ok (if inv then hi + lo - refLinear c w lo hi x else refLinear c w lo hi x) := by
  obtain ⟨R, rfl⟩ : ∃ R, hi = lo + R := ⟨hi - lo, by ring⟩
  have hw1 : 0 < w - 1 := by linarith
  have hw' : w - 1 ≠ 0 := ne_of_gt hw1
  have hR : 0 < R := by linarith
  have key := clip_pieces ((x - (c - 1/2)) / (w - 1) + 1/2) R lo hR
  have keyi := clip_pieces_inv ((x - (c - 1/2)) / (w - 1) + 1/2) R lo hR
  have e1 : (x - (c - w / (2 / 1))) * ((lo + R - lo) / (w - 1)) + lo = ((x - (c - 1/2)) / (w - 1) + 1/2) * R + lo := by
    field_simp; ring
  have e2 : (c - w / (2 / 1) - x) * ((lo + R - lo) / (w - 1)) + (lo + R)
      = -((x - (c - 1/2)) / (w - 1) + 1/2) * R + (lo + R) := by
    field_simp; ring
  have c1 : ((x - (c - 1/2)) / (w - 1) + 1/2 ≤ 0) ↔ x ≤ c - 1/2 - (w - 1) / 2 := by
    rw [div_add' _ _ _ hw', div_le_iff₀ hw1]; constructor <;> intro h <;> linarith
  have c2 : ((x - (c - 1/2)) / (w - 1) + 1/2 > 1) ↔ x > c - 1/2 + (w - 1) / 2 := by
    rw [gt_iff_lt, div_add' _ _ _ hw', lt_div_iff₀ hw1]; constructor <;> intro h <;> linarith
  have hlo : lo + R - lo = R := by ring
  unfold voiWindowLinear refLinear
  simp only [beq_self_eq_true, ↓reduceIte, Int.cast_one]
  cases inv
  · simp only [Bool.false_eq_true, ↓reduceIte]
    rw [e1, key]
    simp only [c1, c2, hlo]
  · simp only [↓reduceIte]
    rw [e2, keyi]
    simp only [c1, c2, hlo]

/-- folding a window through `x = m s + b` is exact algebra (no order reasoning): LINEAR_EXACT / SIGMOID form -/
theorem fold_exact_value (c w b m lo hi s : Rat) (hm : m ≠ 0) (hw : w ≠ 0) (fn : String) (hfn : (fn == "LINEAR") = false)
    (inv : Bool) :
    voiWindowLinear s ((c - b) / m) (w / m) fn lo hi inv = voiWindowLinear (m * s + b) c w fn lo hi inv := by
  unfold voiWindowLinear
  simp only [hfn, Bool.false_eq_true, ↓reduceIte]
  have e1 : (s - ((c - b) / m - w / m / (2 / 1))) * ((hi - lo) / (w / m))
      = (m * s + b - (c - w / (2 / 1))) * ((hi - lo) / w) := by
    field_simp; ring
  have e2 : ((c - b) / m - w / m / (2 / 1) - s) * ((hi - lo) / (w / m))
      = (c - w / (2 / 1) - (m * s + b)) * ((hi - lo) / w) := by
    field_simp; ring
  rw [e1, e2]

/-- ... and the LINEAR form, with the (c - 1/2) and (w - 1) terms -/
theorem fold_linear_value (c w b m lo hi s : Rat) (hm : m ≠ 0) (hw : w - 1 ≠ 0) (inv : Bool) :
    voiWindowLinear s ((c - 1/2 - b) / m + 1/2) ((w - 1/1) / m + 1/1) "LINEAR" lo hi inv
      = voiWindowLinear (m * s + b) c w "LINEAR" lo hi inv := by
  unfold voiWindowLinear
  simp only [beq_self_eq_true, ↓reduceIte, Int.cast_one]
  have e1 : (s - ((c - 1/2 - b) / m + 1/2 - ((w - 1/1) / m + 1/1) / (2 / 1))) * ((hi - lo) / ((w - 1/1) / m + 1/1 - 1))
      = (m * s + b - (c - w / (2 / 1))) * ((hi - lo) / (w - 1)) := by
    have : (w - 1/1) / m + 1/1 - 1 = (w - 1) / m := by ring
    rw [this]; field_simp; ring
  have e2 : ((c - 1/2 - b) / m + 1/2 - ((w - 1/1) / m + 1/1) / (2 / 1) - s) * ((hi - lo) / ((w - 1/1) / m + 1/1 - 1))
      = (c - w / (2 / 1) - (m * s + b)) * ((hi - lo) / (w - 1)) := by
    have : (w - 1/1) / m + 1/1 - 1 = (w - 1) / m := by ring
    rw [this]; field_simp; ring
  rw [e1, e2]

theorem fold_sigmoid_value (c w b m s : Rat) (hm : m ≠ 0) (hw : w ≠ 0) (inv : Bool) :
    voiSigmoidArg s ((c - b) / m) (w / m) inv = voiSigmoidArg (m * s + b) c w inv := by
  unfold voiSigmoidArg
  cases inv <;> simp only [Bool.false_eq_true, ↓reduceIte] <;> congr 1 <;> field_simp <;> ring

/-! ### table lookup -/

theorem applyLutIndex_clip (first x n : Int) :
    applyLutIndex first true x n = .ok (min (max x first) (first + n - 1) - first) := by
  unfold applyLutIndex
  by_cases hf : first = 0
  · subst hf; simp
  · have : (first != 0) = true := by simpa using hf
    simp [this]

theorem getIdx_nat {α} (l : List α) (i : Nat) (h : i < l.length) : getIdx l (i : Int) = .ok l[i] := by
  unfold getIdx
  have : ¬ ((i : Int) < 0) := by omega
  simp [this, h]

theorem getIdx_of {α} (l : List α) (i : Int) (k : Nat) (hk : i = (k : Int)) (h : k < l.length) :
    getIdx l i = .ok l[k] := by
  subst hk; exact getIdx_nat l k h

/-- `apply_lut` with clipping: below / above the table -> first / last entry, inside -> the entry -/
theorem applyLut_eq_refLookup {α} (table : List α) (first x : Int) :
    applyLut table first true x = refLookup table first x := by
  unfold applyLut
  rw [applyLutIndex_clip]
  cases table with
  | nil =>
    simp only [refLookup, List.length_nil]
    unfold getIdx
    have : (min (max x first) (first + ((0 : Nat) : Int) - 1) - first) < 0 := by omega
    simp
  | cons a t =>
    simp only [refLookup]
    have hn : ((a :: t).length : Int) = (t.length : Int) + 1 := by simp
    split_ifs with h1 h2
    · have : min (max x first) (first + ((a :: t).length : Int) - 1) - first = ((0 : Nat) : Int) := by
        rw [hn]; omega
      rw [getIdx_of _ _ 0 this (by simp)]; simp
    · have : min (max x first) (first + ((a :: t).length : Int) - 1) - first = ((t.length : Nat) : Int) := by
        rw [hn] at h2 ⊢; omega
      rw [getIdx_of _ _ t.length this (by simp)]
      congr 1
      rw [List.getLast_eq_getElem]
      simp
    · have : min (max x first) (first + ((a :: t).length : Int) - 1) - first = x - first := by
        rw [hn] at h2 ⊢; omega
      rw [this]

theorem applyLut_noclip_outside {α} (table : List α) (first x : Int)
    (h : x < first ∨ x > first + (table.length : Int) - 1) : applyLut table first false x = .error .value := by
  unfold applyLut applyLutIndex
  have : (decide (x < first) || decide (x > first + (table.length : Int) - 1)) = true := by
    rcases h with h | h <;> simp [h]
  simp [this]

theorem applyLut_noclip_inside {α} (table : List α) (first x : Int)
    (h1 : first ≤ x) (h2 : x ≤ first + (table.length : Int) - 1) : applyLut table first false x = getIdx table (x - first) := by
  unfold applyLut applyLutIndex
  have a : ¬ x < first := by omega
  have b : ¬ x > first + (table.length : Int) - 1 := by omega
  by_cases hf : first = 0
  · subst hf
    have b' : ¬ ((table.length : Int) - 1 < x) := by omega
    simp [a, b']
  · have hb : (first != 0) = true := by simpa using hf
    simp [a, b, hb]

/-- a table mapped entry by entry is the lookup followed by the map -/
theorem getIdx_map {α β} (f : α → β) (l : List α) (i : Int) :
    getIdx (l.map f) i = (match getIdx l i with | .ok v => .ok (f v) | .error e => .error e) := by
  unfold getIdx
  by_cases h : i < 0
  · simp [h]
  · simp only [h, ↓reduceIte, List.getElem?_map]
    cases l[i.toNat]? <;> simp

theorem applyLut_map {α β} (f : α → β) (l : List α) (first : Int) (clip : Bool) (x : Int) :
    applyLut (l.map f) first clip x = (match applyLut l first clip x with | .ok v => .ok (f v) | .error e => .error e) := by
  unfold applyLut
  rw [List.length_map]
  cases applyLutIndex first clip x l.length with
  | error e => rfl
  | ok i => simp only [getIdx_map]

theorem refLookup_map {α β} (f : α → β) (l : List α) (first : Int) (x : Int) :
    refLookup (l.map f) first x = (match refLookup l first x with | .ok v => .ok (f v) | .error e => .error e) := by
  rw [← applyLut_eq_refLookup, ← applyLut_eq_refLookup, applyLut_map]

/-! ### tables built entry by entry -/

theorem mapExcept_of_total {α β} (f : α → Except ErrKind β) (hf : ∀ a, ∃ b, f a = .ok b) (l : List α) :
    ∃ d, mapExcept f l = .ok d := by
  induction l with
  | nil => exact ⟨[], rfl⟩
  | cons a t ih =>
    obtain ⟨b, hb⟩ := hf a
    obtain ⟨d, hd⟩ := ih
    exact ⟨b :: d, by simp [mapExcept, hb, hd]⟩

theorem mapExcept_getElem {α β} (f : α → Except ErrKind β) (l : List α) (d : List β) (h : mapExcept f l = .ok d) :
    d.length = l.length ∧ ∀ (i : Nat) (hi : i < l.length) (hi' : i < d.length), f l[i] = .ok d[i] := by
  induction l generalizing d with
  | nil =>
    simp [mapExcept] at h; subst h; simp
  | cons a t ih =>
    simp only [mapExcept] at h
    split at h
    · simp at h
    · rename_i b hb
      split at h
      · simp at h
      · rename_i bs hbs
        simp at h; subst h
        obtain ⟨hl, hall⟩ := ih bs hbs
        refine ⟨by simp [hl], ?_⟩
        intro i hi hi'
        cases i with
        | zero => simpa using hb
        | succ i => simpa using hall i (by simpa using hi) (by simpa using hi')

theorem getIdx_mapExcept {α β} (f : α → Except ErrKind β) (l : List α) (d : List β) (h : mapExcept f l = .ok d) (i : Int) :
    getIdx d i = (match getIdx l i with | .ok v => f v | .error e => .error e) := by
  obtain ⟨hl, hall⟩ := mapExcept_getElem f l d h
  unfold getIdx
  by_cases hi : i < 0
  · simp [hi]
  · simp only [hi, ↓reduceIte]
    by_cases hk : i.toNat < l.length
    · have hk' : i.toNat < d.length := by omega
      rw [List.getElem?_eq_getElem hk, List.getElem?_eq_getElem hk']
      simp [hall i.toNat hk hk']
    · have hk' : ¬ i.toNat < d.length := by omega
      rw [List.getElem?_eq_none (by omega), List.getElem?_eq_none (by omega)]

theorem applyLut_mapExcept {α β} (f : α → Except ErrKind β) (l : List α) (d : List β) (h : mapExcept f l = .ok d)
    (first : Int) (clip : Bool) (x : Int) :
    applyLut d first clip x = (match applyLut l first clip x with | .ok v => f v | .error e => .error e) := by
  unfold applyLut
  rw [(mapExcept_getElem f l d h).1]
  cases applyLutIndex first clip x l.length with
  | error e => rfl
  | ok i => simp only [getIdx_mapExcept f l d h]

theorem windowOut_linear_total (fn : WinFn) (c w lo hi : Rat) (inv : Bool) (x : Rat) :
    ∃ o, windowOut fn c w lo hi inv x = .ok o := by
  cases fn <;> simp [windowOut, voiWindowLinear, voiSigmoidArg]

/-! ### min / max of a table -/

theorem foldl_min_le (t : List Nat) (a : Nat) : t.foldl min a ≤ a ∧ ∀ v ∈ t, t.foldl min a ≤ v := by
  induction t generalizing a with
  | nil => simp
  | cons b t ih =>
    simp only [List.foldl_cons, List.mem_cons, forall_eq_or_imp]
    obtain ⟨h1, h2⟩ := ih (min a b)
    refine ⟨le_trans h1 (Nat.min_le_left _ _), le_trans h1 (Nat.min_le_right _ _), h2⟩

theorem le_foldl_max (t : List Nat) (a : Nat) : a ≤ t.foldl max a ∧ ∀ v ∈ t, v ≤ t.foldl max a := by
  induction t generalizing a with
  | nil => simp
  | cons b t ih =>
    simp only [List.foldl_cons, List.mem_cons, forall_eq_or_imp]
    obtain ⟨h1, h2⟩ := ih (max a b)
    refine ⟨le_trans (Nat.le_max_left _ _) h1, le_trans (Nat.le_max_right _ _) h1, h2⟩

theorem listMin_le (data : List Nat) (mn : Nat) (h : listMin data = some mn) : ∀ v ∈ data, mn ≤ v := by
  cases data with
  | nil => simp [listMin] at h
  | cons a t =>
    simp only [listMin, Option.some.injEq] at h
    subst h
    intro v hv
    rcases List.mem_cons.mp hv with rfl | hv
    · exact (foldl_min_le t _).1
    · exact (foldl_min_le t a).2 v hv

theorem le_listMax (data : List Nat) (mx : Nat) (h : listMax data = some mx) : ∀ v ∈ data, v ≤ mx := by
  cases data with
  | nil => simp [listMax] at h
  | cons a t =>
    simp only [listMax, Option.some.injEq] at h
    subst h
    intro v hv
    rcases List.mem_cons.mp hv with rfl | hv
    · exact (le_foldl_max t _).1
    · exact (le_foldl_max t a).2 v hv

/-- with clipping on, a non-empty table answers every input with one of its entries -/
theorem applyLut_clip_total' {α} (a : α) (t : List α) (first x : Int) :
    ∃ v, applyLut (a :: t) first true x = .ok v ∧ v ∈ a :: t := by
  rw [applyLut_eq_refLookup]
  simp only [refLookup]
  split_ifs with h1 h2
  · exact ⟨a, rfl, by simp⟩
  · exact ⟨_, rfl, List.getLast_mem _⟩
  · have hl : ((a :: t).length : Int) = (t.length : Int) + 1 := by simp
    obtain ⟨k, hk⟩ : ∃ k : Nat, x - first = (k : Int) := ⟨(x - first).toNat, by omega⟩
    have hk' : k < (a :: t).length := by simp; omega
    rw [hk, getIdx_nat _ k hk']
    exact ⟨_, rfl, List.getElem_mem _⟩

/-! ### scaled VOI LUTs -/

/-- value of a scaled (and optionally inverted) VOI LUT entry -/
def scaledEntry (mn mx : Nat) (lo hi : Rat) (inv : Bool) (v : Nat) : Rat :=
  let y := (((v : Int) : Rat) - ((mn : Int) : Rat)) / (((mx : Int) : Rat) - ((mn : Int) : Rat)) * (hi - lo) + lo
  if inv then hi + lo - y else y

theorem scaledLut_eq (a : Nat) (t : List Nat) (mn mx : Nat) (lo hi : Rat) (inv : Bool)
    (hmn : listMin (a :: t) = some mn) (hmx : listMax (a :: t) = some mx) (hne : mx ≠ mn) :
    scaledLut (a :: t) lo hi inv = .ok ((a :: t).map (scaledEntry mn mx lo hi inv)) := by
  unfold scaledLut
  rw [hmn, hmx]
  simp only [hne, ↓reduceIte]
  congr 1
  apply List.map_congr_left
  intro v _
  have hd : (((mx : Int) : Rat) - ((mn : Int) : Rat)) ≠ 0 := by
    intro h
    have : ((mx : Int) : Rat) = ((mn : Int) : Rat) := by linarith
    exact hne (by exact_mod_cast this)
  unfold scaledEntry
  cases inv
  · simp only [Bool.false_eq_true, ↓reduceIte]; field_simp
  · simp only [↓reduceIte]; field_simp; ring

theorem refVoi_lut_int (vfirst : Int) (a : Nat) (t : List Nat) (mn mx : Nat) (lo hi : Rat) (v : Nat)
    (hmn : listMin (a :: t) = some mn) (hmx : listMax (a :: t) = some mx) (hne : mx ≠ mn) :
    refVoi (.lut vfirst (a :: t)) lo hi ((v : Int) : Rat) =
      (match refLookup (a :: t) vfirst (v : Int) with
       | .ok e => .ok (.val (scaledEntry mn mx lo hi false e))
       | .error e => .error e) := by
  simp only [refVoi, hmn, hmx, hne, ↓reduceIte, Rat.den_intCast, ne_eq, not_true_eq_false, Rat.num_intCast]
  cases h : refLookup (a :: t) vfirst (v : Int) <;> simp [scaledEntry]

end HdVerif.PixelPipelineLemmas
