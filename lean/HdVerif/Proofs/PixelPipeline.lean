import HdVerif.Model.PixelPipeline
import HdVerif.Proofs.RatFloor
import HdVerif.Generated.T6h
import Mathlib.Tactic.Ring
import Mathlib.Tactic.Linarith
import Mathlib.Tactic.FieldSimp
import Mathlib.Tactic.Push
import Mathlib.Tactic.SplitIfs
/-! Helper lemmas for C06 (window function, table lookup, folding). -/
namespace HdVerif.PixelPipelineLemmas
open HdVerif HdVerif.Gen HdVerif.PixelPipeline

/-- clipping `t * R + lo` to `[lo, lo + R]` is the three-piece definition of the standard -/
theorem clip_pieces (t R lo : Rat) (hR : 0 < R) :
    min (max (t * R + lo) lo) (lo + R) = if t ≤ 0 then lo else if t > 1 then lo + R else t * R + lo := by
  split_ifs with h1 h2
  · have : t * R ≤ 0 := mul_nonpos_of_nonpos_of_nonneg h1 hR.le
    rw [max_eq_right (by linarith), min_eq_left (by linarith)]
  · have : R < t * R := by nlinarith
    rw [max_eq_left (by linarith), min_eq_right (by linarith)]
  · push Not at h1 h2
    have h3 : 0 < t * R := mul_pos h1 hR
    have h4 : t * R ≤ R := by nlinarith
    rw [max_eq_left (by linarith), min_eq_left (by linarith)]

theorem clip_pieces_inv (t R lo : Rat) (hR : 0 < R) :
    min (max (-t * R + (lo + R)) lo) (lo + R) = (lo + R) + lo - (if t ≤ 0 then lo else if t > 1 then lo + R else t * R + lo) := by
  split_ifs with h1 h2
  · have : t * R ≤ 0 := mul_nonpos_of_nonpos_of_nonneg h1 hR.le
    rw [max_eq_left (by linarith), min_eq_right (by linarith)]; ring
  · have : R < t * R := by nlinarith
    rw [max_eq_right (by linarith), min_eq_left (by linarith)]; ring
  · push Not at h1 h2
    have h3 : 0 < t * R := mul_pos h1 hR
    have h4 : t * R ≤ R := by nlinarith
    rw [max_eq_left (by linarith), min_eq_left (by linarith)]; ring

/-- the translated window function with LINEAR_EXACT is the standard's three-piece definition -/
theorem window_exact (c w lo hi x : Rat) (hw : 0 < w) (hr : lo < hi) (inv : Bool) :
    voiWindowLinear x c w "LINEAR_EXACT" lo hi inv
      = .ok (if inv then hi + lo - refExact c w lo hi x else refExact c w lo hi x) := by
  obtain ⟨R, rfl⟩ : ∃ R, hi = lo + R := ⟨hi - lo, by ring⟩
  have hw' : w ≠ 0 := ne_of_gt hw
  have hR : 0 < R := by linarith
  have key := clip_pieces ((x - c) / w + 1/2) R lo hR
  have keyi := clip_pieces_inv ((x - c) / w + 1/2) R lo hR
  have e1 : (x - (c - w / (2 / 1))) * ((lo + R - lo) / w) + lo = ((x - c) / w + 1/2) * R + lo := by
    field_simp; ring
  have e2 : (c - w / (2 / 1) - x) * ((lo + R - lo) / w) + (lo + R) = -((x - c) / w + 1/2) * R + (lo + R) := by
    field_simp; ring
  have c1 : ((x - c) / w + 1/2 ≤ 0) ↔ x ≤ c - w / 2 := by
    rw [div_add' _ _ _ hw', div_le_iff₀ hw]; constructor <;> intro h <;> linarith
  have c2 : ((x - c) / w + 1/2 > 1) ↔ x > c + w / 2 := by
    rw [gt_iff_lt, div_add' _ _ _ hw', lt_div_iff₀ hw]; constructor <;> intro h <;> linarith
  have hlo : lo + R - lo = R := by ring
  unfold voiWindowLinear refExact
  have hs : ("LINEAR_EXACT" == "LINEAR") = false := by decide
  simp only [hs, Bool.false_and, Bool.false_eq_true, ↓reduceIte]
  cases inv
  · simp only [Bool.false_eq_true, ↓reduceIte]
    rw [e1, key]
    simp only [c1, c2, hlo]
  · simp only [↓reduceIte]
    rw [e2, keyi]
    simp only [c1, c2, hlo]

/-- the translated window function with LINEAR is the three-piece definition of PS3.3 C.11.2.1.2.1, for every width
    >= 1: width 1 is the step at c - 1/2 (its own branch in the source since the fix of C06-linear-width-one) -/
theorem window_linear (c w lo hi x : Rat) (hw : 1 ≤ w) (hr : lo < hi) (inv : Bool) :
    voiWindowLinear x c w "LINEAR" lo hi inv
      = .ok (if inv then hi + lo - refLinear c w lo hi x else refLinear c w lo hi x) := by
  rcases eq_or_lt_of_le hw with h1 | hw
  · -- width exactly 1: the step
    subst h1
    unfold voiWindowLinear refLinear
    have e : c - (1 : Rat) / (2 / 1) = c - 1 / 2 := by norm_num
    have e2 : c - 1 / 2 - ((1 : Rat) - 1) / 2 = c - 1 / 2 := by norm_num
    have e3 : c - 1 / 2 + ((1 : Rat) - 1) / 2 = c - 1 / 2 := by norm_num
    simp only [beq_self_eq_true, Int.cast_one, Bool.and_self, ↓reduceIte, e, e2, e3, decide_eq_true_eq]
    by_cases hx : x ≤ c - 1 / 2
    · simp only [hx, ↓reduceIte]
      cases inv <;> simp
    · have hx' : x > c - 1 / 2 := lt_of_not_ge hx
      simp only [hx, hx', ↓reduceIte]
      cases inv <;> simp
  obtain ⟨R, rfl⟩ : ∃ R, hi = lo + R := ⟨hi - lo, by ring⟩
  have hw1 : 0 < w - 1 := by linarith
  have hw' : w - 1 ≠ 0 := ne_of_gt hw1
  have hwne : (w == (1 : Rat)) = false := by
    have : w ≠ 1 := ne_of_gt hw
    simpa using this
  have hR : 0 < R := by linarith
  have key := clip_pieces ((x - (c - 1/2)) / (w - 1) + 1/2) R lo hR
  have keyi := clip_pieces_inv ((x - (c - 1/2)) / (w - 1) + 1/2) R lo hR
  have e1 : (x - (c - w / (2 / 1))) * ((lo + R - lo) / (w - 1)) + lo = ((x - (c - 1/2)) / (w - 1) + 1/2) * R + lo := by
    field_simp; ring
  have e2 : (c - w / (2 / 1) - x) * ((lo + R - lo) / (w - 1)) + (lo + R)
      = -((x - (c - 1/2)) / (w - 1) + 1/2) * R + (lo + R) := by
    field_simp; ring
  have c1 : ((x - (c - 1/2)) / (w - 1) + 1/2 ≤ 0) ↔ x ≤ c - 1/2 - (w - 1) / 2 := by
    rw [div_add' _ _ _ hw', div_le_iff₀ hw1]; constructor <;> intro h <;> linarith
  have c2 : ((x - (c - 1/2)) / (w - 1) + 1/2 > 1) ↔ x > c - 1/2 + (w - 1) / 2 := by
    rw [gt_iff_lt, div_add' _ _ _ hw', lt_div_iff₀ hw1]; constructor <;> intro h <;> linarith
  have hlo : lo + R - lo = R := by ring
  unfold voiWindowLinear refLinear
  simp only [beq_self_eq_true, ↓reduceIte, Int.cast_one, hwne, Bool.and_false, Bool.false_eq_true]
  cases inv
  · simp only [Bool.false_eq_true, ↓reduceIte]
    rw [e1, key]
    simp only [c1, c2, hlo]
  · simp only [↓reduceIte]
    rw [e2, keyi]
    simp only [c1, c2, hlo]

/-- folding a window through `x = m s + b` is exact algebra (no order reasoning): LINEAR_EXACT / SIGMOID form -/
theorem fold_exact_value (c w b m lo hi s : Rat) (hm : m ≠ 0) (hw : w ≠ 0) (fn : String) (hfn : (fn == "LINEAR") = false)
    (inv : Bool) :
    voiWindowLinear s ((c - b) / m) (w / m) fn lo hi inv = voiWindowLinear (m * s + b) c w fn lo hi inv := by
  unfold voiWindowLinear
  simp only [hfn, Bool.false_and, Bool.false_eq_true, ↓reduceIte]
  have e1 : (s - ((c - b) / m - w / m / (2 / 1))) * ((hi - lo) / (w / m))
      = (m * s + b - (c - w / (2 / 1))) * ((hi - lo) / w) := by
    field_simp; ring
  have e2 : ((c - b) / m - w / m / (2 / 1) - s) * ((hi - lo) / (w / m))
      = (c - w / (2 / 1) - (m * s + b)) * ((hi - lo) / w) := by
    field_simp; ring
  rw [e1, e2]

/-- ... and the LINEAR form, with the (c - 1/2) and (w - 1) terms (width != 1: neither side is the step) -/
theorem fold_linear_value (c w b m lo hi s : Rat) (hm : m ≠ 0) (hw : w - 1 ≠ 0) (inv : Bool) :
    voiWindowLinear s ((c - 1/2 - b) / m + 1/2) ((w - 1/1) / m + 1/1) "LINEAR" lo hi inv
      = voiWindowLinear (m * s + b) c w "LINEAR" lo hi inv := by
  unfold voiWindowLinear
  have hw1 : (w == (1 : Rat)) = false := by
    have : w ≠ 1 := fun h => hw (by rw [h]; ring)
    simpa using this
  have hw2 : (((w - 1/1) / m + 1/1) == (1 : Rat)) = false := by
    have : (w - 1/1) / m + 1/1 ≠ 1 := by
      intro h
      have h0 : (w - 1/1) / m = 0 := by linarith
      rcases div_eq_zero_iff.mp h0 with h1 | h1
      · exact hw (by linarith)
      · exact hm h1
    simpa using this
  simp only [beq_self_eq_true, ↓reduceIte, Int.cast_one, hw1, hw2, Bool.and_false, Bool.false_eq_true]
  have e1 : (s - ((c - 1/2 - b) / m + 1/2 - ((w - 1/1) / m + 1/1) / (2 / 1))) * ((hi - lo) / ((w - 1/1) / m + 1/1 - 1))
      = (m * s + b - (c - w / (2 / 1))) * ((hi - lo) / (w - 1)) := by
    have : (w - 1/1) / m + 1/1 - 1 = (w - 1) / m := by ring
    rw [this]; field_simp; ring
  have e2 : ((c - 1/2 - b) / m + 1/2 - ((w - 1/1) / m + 1/1) / (2 / 1) - s) * ((hi - lo) / ((w - 1/1) / m + 1/1 - 1))
      = (c - w / (2 / 1) - (m * s + b)) * ((hi - lo) / (w - 1)) := by
    have : (w - 1/1) / m + 1/1 - 1 = (w - 1) / m := by ring
    rw [this]; field_simp; ring
  rw [e1, e2]

/-- width exactly 1 behind a rescale with POSITIVE slope: the folded window is the step at the stored value whose
    rescaled value is c - 1/2 (behind a negative slope the effective width is 1 again and the direction of the step is
    lost: open finding C06-linear-width-one-negative-slope) -/
theorem fold_linear_value_unit (c b m lo hi s : Rat) (hm : 0 < m) (inv : Bool) :
    voiWindowLinear s ((c - 1/2 - b) / m + 1/2) (((1 : Rat) - 1/1) / m + 1/1) "LINEAR" lo hi inv
      = voiWindowLinear (m * s + b) c 1 "LINEAR" lo hi inv := by
  have hw : ((1 : Rat) - 1/1) / m + 1/1 = 1 := by norm_num
  rw [hw]
  unfold voiWindowLinear
  have e : (c - 1/2 - b) / m + 1/2 - (1 : Rat) / (2 / 1) = (c - 1/2 - b) / m := by norm_num
  have e' : c - (1 : Rat) / (2 / 1) = c - 1/2 := by norm_num
  have hiff : s ≤ (c - 1/2 - b) / m ↔ m * s + b ≤ c - 1/2 := by
    rw [le_div_iff₀ hm]; constructor <;> intro h <;> linarith
  simp only [beq_self_eq_true, Int.cast_one, Bool.and_self, ↓reduceIte, e, e', hiff]

theorem fold_sigmoid_value (c w b m s : Rat) (hm : m ≠ 0) (hw : w ≠ 0) (inv : Bool) :
    voiSigmoidArg s ((c - b) / m) (w / m) inv = voiSigmoidArg (m * s + b) c w inv := by
  unfold voiSigmoidArg
  cases inv <;> simp only [Bool.false_eq_true, ↓reduceIte] <;> congr 1 <;> field_simp <;> ring

/-! ### table lookup -/

theorem applyLutIndex_clip (first x n : Int) :
    applyLutIndex first true x n = .ok (min (max x first) (first + n - 1) - first) := by
  unfold applyLutIndex
  by_cases hf : first = 0
  · subst hf; simp
  · have : (first != 0) = true := by simpa using hf
    simp [this]

theorem getIdx_nat {α} (l : List α) (i : Nat) (h : i < l.length) : getIdx l (i : Int) = .ok l[i] := by
  unfold getIdx
  have : ¬ ((i : Int) < 0) := by omega
  simp [this, h]

theorem getIdx_of {α} (l : List α) (i : Int) (k : Nat) (hk : i = (k : Int)) (h : k < l.length) :
    getIdx l i = .ok l[k] := by
  subst hk; exact getIdx_nat l k h

/-- `apply_lut` with clipping: below / above the table -> first / last entry, inside -> the entry -/
theorem applyLut_eq_refLookup {α} (table : List α) (first x : Int) :
    applyLut table first true x = refLookup table first x := by
  unfold applyLut
  rw [applyLutIndex_clip]
  cases table with
  | nil =>
    simp only [refLookup, List.length_nil]
    unfold getIdx
    have : (min (max x first) (first + ((0 : Nat) : Int) - 1) - first) < 0 := by omega
    simp
  | cons a t =>
    simp only [refLookup]
    have hn : ((a :: t).length : Int) = (t.length : Int) + 1 := by simp
    split_ifs with h1 h2
    · have : min (max x first) (first + ((a :: t).length : Int) - 1) - first = ((0 : Nat) : Int) := by
        rw [hn]; omega
      rw [getIdx_of _ _ 0 this (by simp)]; simp
    · have : min (max x first) (first + ((a :: t).length : Int) - 1) - first = ((t.length : Nat) : Int) := by
        rw [hn] at h2 ⊢; omega
      rw [getIdx_of _ _ t.length this (by simp)]
      congr 1
      rw [List.getLast_eq_getElem]
      simp
    · have : min (max x first) (first + ((a :: t).length : Int) - 1) - first = x - first := by
        rw [hn] at h2 ⊢; omega
      rw [this]

theorem applyLut_noclip_outside {α} (table : List α) (first x : Int)
    (h : x < first ∨ x > first + (table.length : Int) - 1) : applyLut table first false x = .error .value := by
  unfold applyLut applyLutIndex
  have : (decide (x < first) || decide (x > first + (table.length : Int) - 1)) = true := by
    rcases h with h | h <;> simp [h]
  simp [this]

theorem applyLut_noclip_inside {α} (table : List α) (first x : Int)
    (h1 : first ≤ x) (h2 : x ≤ first + (table.length : Int) - 1) : applyLut table first false x = getIdx table (x - first) := by
  unfold applyLut applyLutIndex
  have a : ¬ x < first := by omega
  have b : ¬ x > first + (table.length : Int) - 1 := by omega
  by_cases hf : first = 0
  · subst hf
    have b' : ¬ ((table.length : Int) - 1 < x) := by omega
    simp [a, b']
  · have hb : (first != 0) = true := by simpa using hf
    simp [a, b, hb]

/-- a table mapped entry by entry is the lookup followed by the map -/
theorem getIdx_map {α β} (f : α → β) (l : List α) (i : Int) :
    getIdx (l.map f) i = (match getIdx l i with | .ok v => .ok (f v) | .error e => .error e) := by
  unfold getIdx
  by_cases h : i < 0
  · simp [h]
  · simp only [h, ↓reduceIte, List.getElem?_map]
    cases l[i.toNat]? <;> simp

theorem applyLut_map {α β} (f : α → β) (l : List α) (first : Int) (clip : Bool) (x : Int) :
    applyLut (l.map f) first clip x = (match applyLut l first clip x with | .ok v => .ok (f v) | .error e => .error e) := by
  unfold applyLut
  rw [List.length_map]
  cases applyLutIndex first clip x l.length with
  | error e => rfl
  | ok i => simp only [getIdx_map]

theorem refLookup_map {α β} (f : α → β) (l : List α) (first : Int) (x : Int) :
    refLookup (l.map f) first x = (match refLookup l first x with | .ok v => .ok (f v) | .error e => .error e) := by
  rw [← applyLut_eq_refLookup, ← applyLut_eq_refLookup, applyLut_map]

/-! ### tables built entry by entry -/

theorem mapExcept_of_total {α β} (f : α → Except ErrKind β) (hf : ∀ a, ∃ b, f a = .ok b) (l : List α) :
    ∃ d, mapExcept f l = .ok d := by
  induction l with
  | nil => exact ⟨[], rfl⟩
  | cons a t ih =>
    obtain ⟨b, hb⟩ := hf a
    obtain ⟨d, hd⟩ := ih
    exact ⟨b :: d, by simp [mapExcept, hb, hd]⟩

theorem mapExcept_getElem {α β} (f : α → Except ErrKind β) (l : List α) (d : List β) (h : mapExcept f l = .ok d) :
    d.length = l.length ∧ ∀ (i : Nat) (hi : i < l.length) (hi' : i < d.length), f l[i] = .ok d[i] := by
  induction l generalizing d with
  | nil =>
    simp [mapExcept] at h; subst h; simp
  | cons a t ih =>
    simp only [mapExcept] at h
    split at h
    · simp at h
    · rename_i b hb
      split at h
      · simp at h
      · rename_i bs hbs
        simp at h; subst h
        obtain ⟨hl, hall⟩ := ih bs hbs
        refine ⟨by simp [hl], ?_⟩
        intro i hi hi'
        cases i with
        | zero => simpa using hb
        | succ i => simpa using hall i (by simpa using hi) (by simpa using hi')

theorem getIdx_mapExcept {α β} (f : α → Except ErrKind β) (l : List α) (d : List β) (h : mapExcept f l = .ok d) (i : Int) :
    getIdx d i = (match getIdx l i with | .ok v => f v | .error e => .error e) := by
  obtain ⟨hl, hall⟩ := mapExcept_getElem f l d h
  unfold getIdx
  by_cases hi : i < 0
  · simp [hi]
  · simp only [hi, ↓reduceIte]
    by_cases hk : i.toNat < l.length
    · have hk' : i.toNat < d.length := by omega
      rw [List.getElem?_eq_getElem hk, List.getElem?_eq_getElem hk']
      simp [hall i.toNat hk hk']
    · have hk' : ¬ i.toNat < d.length := by omega
      rw [List.getElem?_eq_none (by omega), List.getElem?_eq_none (by omega)]

theorem applyLut_mapExcept {α β} (f : α → Except ErrKind β) (l : List α) (d : List β) (h : mapExcept f l = .ok d)
    (first : Int) (clip : Bool) (x : Int) :
    applyLut d first clip x = (match applyLut l first clip x with | .ok v => f v | .error e => .error e) := by
  unfold applyLut
  rw [(mapExcept_getElem f l d h).1]
  cases applyLutIndex first clip x l.length with
  | error e => rfl
  | ok i => simp only [getIdx_mapExcept f l d h]

theorem windowOut_linear_total (fn : WinFn) (c w lo hi : Rat) (inv : Bool) (x : Rat) :
    ∃ o, windowOut fn c w lo hi inv x = .ok o := by
  cases fn <;> simp [windowOut, voiWindowLinear, voiSigmoidArg]

/-! ### min / max of a table -/

theorem foldl_min_le (t : List Nat) (a : Nat) : t.foldl min a ≤ a ∧ ∀ v ∈ t, t.foldl min a ≤ v := by
  induction t generalizing a with
  | nil => simp
  | cons b t ih =>
    simp only [List.foldl_cons, List.mem_cons, forall_eq_or_imp]
    obtain ⟨h1, h2⟩ := ih (min a b)
    refine ⟨le_trans h1 (Nat.min_le_left _ _), le_trans h1 (Nat.min_le_right _ _), h2⟩

theorem le_foldl_max (t : List Nat) (a : Nat) : a ≤ t.foldl max a ∧ ∀ v ∈ t, v ≤ t.foldl max a := by
  induction t generalizing a with
  | nil => simp
  | cons b t ih =>
    simp only [List.foldl_cons, List.mem_cons, forall_eq_or_imp]
    obtain ⟨h1, h2⟩ := ih (max a b)
    refine ⟨le_trans (Nat.le_max_left _ _) h1, le_trans (Nat.le_max_right _ _) h1, h2⟩

theorem listMin_le (data : List Nat) (mn : Nat) (h : listMin data = some mn) : ∀ v ∈ data, mn ≤ v := by
  cases data with
  | nil => simp [listMin] at h
  | cons a t =>
    simp only [listMin, Option.some.injEq] at h
    subst h
    intro v hv
    rcases List.mem_cons.mp hv with rfl | hv
    · exact (foldl_min_le t _).1
    · exact (foldl_min_le t a).2 v hv

theorem le_listMax (data : List Nat) (mx : Nat) (h : listMax data = some mx) : ∀ v ∈ data, v ≤ mx := by
  cases data with
  | nil => simp [listMax] at h
  | cons a t =>
    simp only [listMax, Option.some.injEq] at h
    subst h
    intro v hv
    rcases List.mem_cons.mp hv with rfl | hv
    · exact (le_foldl_max t _).1
    · exact (le_foldl_max t a).2 v hv

/-- with clipping on, a non-empty table answers every input with one of its entries -/
theorem applyLut_clip_total' {α} (a : α) (t : List α) (first x : Int) :
    ∃ v, applyLut (a :: t) first true x = .ok v ∧ v ∈ a :: t := by
  rw [applyLut_eq_refLookup]
  simp only [refLookup]
  split_ifs with h1 h2
  · exact ⟨a, rfl, by simp⟩
  · exact ⟨_, rfl, List.getLast_mem _⟩
  · have hl : ((a :: t).length : Int) = (t.length : Int) + 1 := by simp
    obtain ⟨k, hk⟩ : ∃ k : Nat, x - first = (k : Int) := ⟨(x - first).toNat, by omega⟩
    have hk' : k < (a :: t).length := by simp; omega
    rw [hk, getIdx_nat _ k hk']
    exact ⟨_, rfl, List.getElem_mem _⟩

/-! ### scaled VOI LUTs -/

/-- value of a scaled (and optionally inverted) VOI LUT entry -/
def scaledEntry (mn mx : Nat) (lo hi : Rat) (inv : Bool) (v : Nat) : Rat :=
  let y := (((v : Int) : Rat) - ((mn : Int) : Rat)) / (((mx : Int) : Rat) - ((mn : Int) : Rat)) * (hi - lo) + lo
  if inv then hi + lo - y else y

theorem scaledLut_eq (a : Nat) (t : List Nat) (mn mx : Nat) (lo hi : Rat) (inv : Bool)
    (hmn : listMin (a :: t) = some mn) (hmx : listMax (a :: t) = some mx) (hne : mx ≠ mn) :
    scaledLut (a :: t) lo hi inv = .ok ((a :: t).map (scaledEntry mn mx lo hi inv)) := by
  unfold scaledLut
  rw [hmn, hmx]
  simp only [hne, ↓reduceIte]
  congr 1
  apply List.map_congr_left
  intro v _
  have hd : (((mx : Int) : Rat) - ((mn : Int) : Rat)) ≠ 0 := by
    intro h
    have : ((mx : Int) : Rat) = ((mn : Int) : Rat) := by linarith
    exact hne (by exact_mod_cast this)
  unfold scaledEntry
  cases inv
  · simp only [Bool.false_eq_true, ↓reduceIte]; field_simp
  · simp only [↓reduceIte]; field_simp; ring

theorem refVoi_lut_intZ (vfirst : Int) (a : Nat) (t : List Nat) (mn mx : Nat) (lo hi : Rat) (z : Int)
    (hmn : listMin (a :: t) = some mn) (hmx : listMax (a :: t) = some mx) (hne : mx ≠ mn) :
    refVoi (.lut vfirst (a :: t)) lo hi (z : Rat) =
      (match refLookup (a :: t) vfirst z with
       | .ok e => .ok (.val (scaledEntry mn mx lo hi false e))
       | .error e => .error e) := by
  simp only [refVoi, hmn, hmx, hne, ↓reduceIte, Rat.den_intCast, ne_eq, not_true_eq_false, Rat.num_intCast]
  cases h : refLookup (a :: t) vfirst z <;> simp [scaledEntry]

theorem refVoi_lut_int (vfirst : Int) (a : Nat) (t : List Nat) (mn mx : Nat) (lo hi : Rat) (v : Nat)
    (hmn : listMin (a :: t) = some mn) (hmx : listMax (a :: t) = some mx) (hne : mx ≠ mn) :
    refVoi (.lut vfirst (a :: t)) lo hi ((v : Int) : Rat) =
      (match refLookup (a :: t) vfirst (v : Int) with
       | .ok e => .ok (.val (scaledEntry mn mx lo hi false e))
       | .error e => .error e) :=
  refVoi_lut_intZ vfirst a t mn mx lo hi (v : Int) hmn hmx hne

/-! ### LUT descriptor / data encoding -/

theorem encode8_eq (data : List Nat) (h : ∀ v ∈ data, v < 256) : encodeEntries 8 data = data := by
  induction data with
  | nil => rfl
  | cons a t ih =>
    have ha : a % 256 = a := Nat.mod_eq_of_lt (h a (by simp))
    have := ih (fun v hv => h v (by simp [hv]))
    simp only [encodeEntries, entryBytes, List.flatMap_cons, ↓reduceIte, ha] at this ⊢
    simp [this]

theorem decode16_encode16 (data : List Nat) (h : ∀ v ∈ data, v < 65536) :
    decode16 (encodeEntries 16 data) = .ok data := by
  induction data with
  | nil => rfl
  | cons a t ih =>
    have ha : a < 65536 := h a (by simp)
    have := ih (fun v hv => h v (by simp [hv]))
    have e : a % 256 + 256 * (a / 256 % 256) = a := by omega
    simp only [encodeEntries, entryBytes, List.flatMap_cons] at this ⊢
    simp [decode16, this, e]

theorem encode16_length (data : List Nat) : (encodeEntries 16 data).length = 2 * data.length := by
  induction data with
  | nil => rfl
  | cons a t ih =>
    simp only [encodeEntries, entryBytes, List.flatMap_cons] at ih ⊢
    simp [ih]; omega

/-- the accessors on any item whose descriptor and data follow PS3.3 C.11.1.1: `d0` entries (0 = 65536) of
`bits` bits, packed little endian, 8-bit tables optionally padded to an even number of bytes -/
theorem lut_access (d0 first : Int) (bits : Nat) (data : List Nat) (pad : Bool)
    (hb : bits = 8 ∨ bits = 16) (hv : ∀ v ∈ data, v < 2 ^ bits)
    (hlen : 1 ≤ data.length ∧ data.length ≤ 65536)
    (hd0 : d0 = if data.length = 65536 then 0 else (data.length : Int))
    (hpad : pad = true → bits = 8 ∧ data.length % 2 = 1) :
    let ds : LutDs := ⟨[d0, first, (bits : Int)], encodeEntries bits data ++ (if pad then [0] else [])⟩
    lutData ds = .ok data ∧ firstMapped ds = .ok first ∧ numberOfEntries ds = .ok (data.length : Int) := by
  intro ds
  have hn : numberOfEntries ds = .ok (data.length : Int) := by
    simp only [numberOfEntries, descr, ds, List.getElem?_cons_zero, hd0]
    split_ifs with h1 h2 h2
    · simp [h1]
    · simp at h2
    · omega
    · rfl
  refine ⟨?_, by simp [firstMapped, descr, ds], hn⟩
  unfold lutData
  rw [hn]
  have hdes : descr ds 2 = .ok (bits : Int) := by simp [descr, ds]
  rw [hdes]
  rcases hb with rfl | rfl
  · have he := encode8_eq data (by simpa using hv)
    simp only [ds, he]
    cases pad with
    | true =>
      have hodd := (hpad rfl).2
      have h1 : ((data.length : Int) % 2 = 1) := by omega
      simp [decodeEntries, h1]
    | false =>
      simp [decodeEntries]
  · have hdec := decode16_encode16 data (by simpa using hv)
    have hp : pad = false := by
      cases pad with
      | true => exact absurd (hpad rfl).1 (by decide)
      | false => rfl
    subst hp
    simp [ds, decodeEntries, hdec]

/-! ### selectors -/

/-- Python list indexing: positions 0..n-1 from the front, -1..-n from the back, anything else refused -/
theorem pyGet_spec {α} (l : List α) (k : Int) :
    pyGet l k = if 0 ≤ k ∧ k < l.length then l[k.toNat]?
      else if -(l.length : Int) ≤ k ∧ k < 0 then l[(l.length + k).toNat]? else none := by
  unfold pyGet
  by_cases h0 : k < 0
  · have h1 : ¬ (0 ≤ k ∧ k < l.length) := by omega
    simp only [h0, ↓reduceIte, h1]
    by_cases h2 : -k ≤ (l.length : Int)
    · have h3 : -(l.length : Int) ≤ k ∧ True := ⟨by omega, trivial⟩
      simp only [h2, ↓reduceIte, h3.1, and_self]
      congr 1; omega
    · have h3 : ¬ (-(l.length : Int) ≤ k) := by omega
      simp [h2, h3]
  · simp only [h0, ↓reduceIte]
    by_cases h1 : k < l.length
    · have : 0 ≤ k ∧ k < l.length := ⟨by omega, h1⟩
      simp [this]
    · have h2 : ¬ (0 ≤ k ∧ k < l.length) := by omega
      have h3 : ¬ (-(l.length : Int) ≤ k ∧ k < 0) := by omega
      have : l.length ≤ k.toNat := by omega
      simp [List.getElem?_eq_none this]

/-- Python `list.index`: the first position holding the value -/
theorem pyIndex_spec {α} [DecidableEq α] (l : List α) (x : α) (j : Nat) :
    pyIndex l x = some j ↔ (l[j]? = some x ∧ ∀ i, i < j → l[i]? ≠ some x) := by
  induction l generalizing j with
  | nil => simp [pyIndex]
  | cons a t ih =>
    unfold pyIndex
    by_cases h : a = x
    · subst h
      simp only [↓reduceIte, Option.some.injEq]
      constructor
      · intro hj; subst hj; simp
      · intro ⟨_, h2⟩
        cases j with
        | zero => rfl
        | succ j => exact absurd (by simp) (h2 0 (by omega))
    · simp only [h, ↓reduceIte, Option.map_eq_some_iff]
      constructor
      · intro ⟨i, hi, hij⟩
        subst hij
        obtain ⟨h1, h2⟩ := (ih i).mp hi
        refine ⟨by simpa using h1, ?_⟩
        intro m hm
        cases m with
        | zero => simpa using h
        | succ m => simpa using h2 m (by omega)
      · intro ⟨h1, h2⟩
        cases j with
        | zero => simp at h1; exact absurd h1 h
        | succ j =>
          refine ⟨j, (ih j).mpr ⟨by simpa using h1, ?_⟩, rfl⟩
          intro i hi
          simpa using h2 (i + 1) (by omega)

theorem pyIndex_none {α} [DecidableEq α] (l : List α) (x : α) : pyIndex l x = none ↔ x ∉ l := by
  induction l with
  | nil => simp [pyIndex]
  | cons a t ih =>
    unfold pyIndex
    by_cases h : a = x
    · subst h; simp
    · simp only [h, ↓reduceIte, Option.map_eq_none_iff, ih, List.mem_cons, not_or]
      constructor
      · intro h2; exact ⟨fun e => h e.symm, h2⟩
      · intro h2; exact h2.2

theorem pickValue_eq_pyGet {α} (vals : List α) (k : Int) (h : vals ≠ []) : pickValue vals k = pyGet vals k := by
  cases vals with
  | nil => exact absurd rfl h
  | cons a t =>
    cases t with
    | nil =>
      rw [pyGet_spec]
      simp only [pickValue, List.length_singleton]
      by_cases h0 : k = 0
      · subst h0; simp
      · by_cases h1 : k = -1
        · subst h1; simp
        · have : ¬ (k = 0 ∨ k = -1) := by omega
          have a1 : ¬ (0 ≤ k ∧ k < 1) := by omega
          have a2 : ¬ (-1 ≤ k ∧ k < 0) := by omega
          simp [this, a1, a2]
    | cons b t => rfl

/-! ### placement -/

/-- the per-frame item of frame `f` does not carry the parameters -/
def AbsentAt {α} (pl : Placed α) (f : Nat) : Prop := pl.perFrame[f]? = none ∨ pl.perFrame[f]? = some none

/-- **Per-frame over shared (over image level)**: parameters given for the frame itself are the ones used. -/
theorem find_per_frame {α} (pl : Placed α) (f : Nat) (a : α) (h : pl.perFrame[f]? = some (some a)) :
    pl.find f = some (a, false) := by
  simp [Placed.find, Placed.candidates, h, firstHit]

/-- no per-frame parameters: the shared ones, marked as applying to all frames -/
theorem find_shared {α} (pl : Placed α) (f : Nat) (a : α) (h : AbsentAt pl f) (hs : pl.shared = some a) :
    pl.find f = some (a, true) := by
  rcases h with h | h <;> simp [Placed.find, Placed.candidates, h, hs, firstHit]

/-- neither per-frame nor shared: the image level -/
theorem find_image {α} (pl : Placed α) (f : Nat) (h : AbsentAt pl f) (hs : pl.shared = none) :
    pl.find f = pl.image.map (·, true) := by
  rcases h with h | h <;> cases hi : pl.image <;> simp [Placed.find, Placed.candidates, h, hs, hi, firstHit]

/-- a functional group is given per frame either for every frame or for none (PS3.3 C.7.6.16.1) -/
def Uniform {α} (pl : Placed α) (n : Nat) : Prop :=
  (∀ f, f < n → ∃ a, pl.perFrame[f]? = some (some a)) ∨ (∀ f, f < n → AbsentAt pl f)

theorem find_stable {α} (pl : Placed α) (n f f0 : Nat) (hu : Uniform pl n) (h0 : f0 < n) (hf : f < n)
    (hsh : ∀ a, pl.find f0 ≠ some (a, false)) : pl.find f = pl.find f0 := by
  rcases hu with hu | hu
  · obtain ⟨a, ha⟩ := hu f0 h0
    exact absurd (find_per_frame pl f0 a ha) (hsh a)
  · have e : ∀ g, g < n → pl.find g = firstHit [(pl.shared, true), (pl.image, true)] := by
      intro g hg
      rcases hu g hg with h | h <;> simp [Placed.find, Placed.candidates, h, firstHit]
    rw [e f hf, e f0 h0]

theorem find_shared_flag {α} (pl : Placed α) (f : Nat) (a : α) (sh : Bool) (h : pl.find f = some (a, sh)) :
    sh = false ↔ ∃ b, pl.perFrame[f]? = some (some b) := by
  unfold Placed.find Placed.candidates at h
  cases hp : pl.perFrame[f]? with
  | none =>
    rw [hp] at h
    cases hs : pl.shared <;> cases hi : pl.image <;> simp [hs, hi, firstHit] at h <;> simp [← h.2]
  | some o =>
    rw [hp] at h
    cases o with
    | some b => simp [firstHit] at h; simp [← h.2]
    | none =>
      cases hs : pl.shared <;> cases hi : pl.image <;> simp [hs, hi, firstHit] at h <;> simp [← h.2]

theorem opt_find_stable {α} (pl : Placed α) (use : Bool) (n f f0 : Nat) (hu : Uniform pl n) (h0 : f0 < n) (hf : f < n)
    (hflag : (match (if use then pl.find f0 else none) with | some (_, sh) => sh | none => true) = true) :
    (if use then pl.find f else none) = (if use then pl.find f0 else none) := by
  cases use with
  | false => rfl
  | true =>
    simp only [↓reduceIte] at hflag ⊢
    apply find_stable pl n f f0 hu h0 hf
    intro a ha
    rw [ha] at hflag
    simp at hflag

/-! ### a table read with a stride (VOI LUT behind an integer rescale) -/

/-- closed form of a clipped lookup -/
theorem refLookup_closed {α} (l : List α) (first x : Int) :
    refLookup l first x = getIdx l (min (max x first) (first + (l.length : Int) - 1) - first) := by
  rw [← applyLut_eq_refLookup]
  unfold applyLut
  rw [applyLutIndex_clip]

theorem refLookup_shift {α} (l : List α) (first x : Int) : refLookup l first x = refLookup l 0 (x - first) := by
  rw [refLookup_closed, refLookup_closed]
  congr 1
  omega

theorem getIdx_reverse {α} (l : List α) (i : Int) (h0 : 0 ≤ i) (h1 : i < l.length) :
    getIdx l.reverse i = getIdx l ((l.length : Int) - 1 - i) := by
  obtain ⟨k, rfl⟩ : ∃ k : Nat, i = (k : Int) := ⟨i.toNat, by omega⟩
  have hk : k < l.length := by omega
  rw [getIdx_nat _ k (by simpa using hk)]
  have : (l.length : Int) - 1 - (k : Int) = ((l.length - 1 - k : Nat) : Int) := by omega
  rw [this, getIdx_nat _ _ (by omega)]
  congr 1
  simp [List.getElem_reverse]

theorem refLookup_reverse {α} (l : List α) (e : Int) :
    refLookup l.reverse 0 e = refLookup l 0 ((l.length : Int) - 1 - e) := by
  rw [refLookup_closed, refLookup_closed]
  cases l with
  | nil => simp [getIdx]
  | cons a t =>
    have hl : ((a :: t).reverse.length : Int) = (t.length : Int) + 1 := by simp
    have hl' : ((a :: t).length : Int) = (t.length : Int) + 1 := by simp
    rw [getIdx_reverse _ _ (by rw [hl]; omega) (by rw [hl] at *; rw [hl']; omega)]
    congr 1
    rw [hl, hl']
    omega

theorem stride_eq {α} (a : α) (t : List α) (k : Nat) (hk : 1 ≤ k) :
    stride (a :: t) k = (List.range (t.length / k + 1)).map (fun j => (a :: t).getD (j * k) a) := by
  unfold stride
  have hL : ((a :: t).length + k - 1) / k = t.length / k + 1 := by
    have : (a :: t).length + k - 1 = t.length + k := by simp
    rw [this, Nat.add_div_right _ (by omega)]
  rw [hL, ← List.filterMap_eq_map]
  apply List.filterMap_congr
  intro j hj
  have hj' : j < t.length / k + 1 := by simpa using hj
  have : j * k < (a :: t).length := by
    have h1 : j ≤ t.length / k := by omega
    have h2 : j * k ≤ t.length / k * k := Nat.mul_le_mul_right k h1
    have h3 : t.length / k * k ≤ t.length := Nat.div_mul_le_self _ _
    simp; omega
  simp [List.getD, List.getElem?_eq_getElem this]


/-- the table `T[::k]` (plus `T[-1:]` when the stride skips the final entry) looked up at `d` is `T` looked up
at `k * d`, clipping included on both sides -/
theorem strided_lookup {α} (a : α) (t : List α) (k : Nat) (hk : 1 ≤ k) (d : Int) :
    refLookup (stride (a :: t) k ++ (if k ≠ 1 ∧ t.length % k ≠ 0 then (a :: t).drop t.length else [])) 0 d
      = refLookup (a :: t) 0 ((k : Int) * d) := by
  rw [refLookup_closed, refLookup_closed, stride_eq a t k hk]
  generalize hQ : t.length / k = Q
  generalize hS' : (List.range (Q + 1)).map (fun j => (a :: t).getD (j * k) a) = S
  have hS : S = (List.range (Q + 1)).map (fun j => (a :: t).getD (j * k) a) := hS'.symm
  have hSlen : S.length = Q + 1 := by simp [hS]
  have hdm : k * Q + t.length % k = t.length := by rw [← hQ]; exact Nat.div_add_mod t.length k
  have hR : t.length % k < k := Nat.mod_lt _ (by omega)
  have hlenT : ((a :: t).length : Int) = (t.length : Int) + 1 := by simp
  have hlenT' : (a :: t).length = t.length + 1 := by simp
  -- entries of the strided part
  have hgetS : ∀ j : Nat, j ≤ Q → ∀ (E : List α), getIdx (S ++ E) (j : Int) = getIdx (a :: t) ((k : Int) * (j : Int)) := by
    intro j hj E
    have h1 : j * k ≤ Q * k := Nat.mul_le_mul_right k hj
    have hc : Q * k = k * Q := Nat.mul_comm _ _
    have h2 : j * k < (a :: t).length := by rw [hlenT']; omega
    have e : (k : Int) * (j : Int) = ((j * k : Nat) : Int) := by push_cast; ring
    have hjS : j < S.length := by omega
    rw [e, getIdx_nat _ _ h2, getIdx_nat _ j (by rw [List.length_append]; omega)]
    congr 1
    rw [List.getElem_append_left hjS]
    simp [hS, List.getD, List.getElem?_eq_getElem h2]
  -- the clipped position in T
  have hposT : ∀ dn : Nat, dn ≤ Q →
      min (max ((k : Int) * (dn : Int)) 0) (0 + ((a :: t).length : Int) - 1) - 0 = (k : Int) * (dn : Int) := by
    intro dn hdQ
    have h1 : dn * k ≤ Q * k := Nat.mul_le_mul_right k hdQ
    have hc : Q * k = k * Q := Nat.mul_comm _ _
    have : (k : Int) * (dn : Int) = ((dn * k : Nat) : Int) := by push_cast; ring
    rw [hlenT, this]; omega
  have hposT_above : ∀ dn : Nat, Q + 1 ≤ dn →
      min (max ((k : Int) * (dn : Int)) 0) (0 + ((a :: t).length : Int) - 1) - 0 = ((t.length : Nat) : Int) := by
    intro dn hgt
    have h1 : (Q + 1) * k ≤ dn * k := Nat.mul_le_mul_right k hgt
    have hc : (Q + 1) * k = k * Q + k := by ring
    have : (k : Int) * (dn : Int) = ((dn * k : Nat) : Int) := by push_cast; ring
    rw [hlenT, this]; omega
  have hposT_below : d < 0 →
      min (max ((k : Int) * d) 0) (0 + ((a :: t).length : Int) - 1) - 0 = (k : Int) * ((0 : Nat) : Int) := by
    intro hd0
    have hkd : (k : Int) * d < 0 := Int.mul_neg_of_pos_of_neg (by omega) hd0
    rw [hlenT]; push_cast; omega
  by_cases happ : k ≠ 1 ∧ t.length % k ≠ 0
  · -- the final entry is appended
    rw [if_pos happ]
    have hlen : ((S ++ (a :: t).drop t.length).length : Int) = (Q : Int) + 2 := by
      rw [List.length_append, hSlen]; simp; omega
    rw [hlen]
    by_cases hd0 : d < 0
    · have e1 : min (max d 0) (0 + ((Q : Int) + 2) - 1) - 0 = ((0 : Nat) : Int) := by omega
      rw [e1, hposT_below hd0]
      exact hgetS 0 (by omega) _
    · obtain ⟨dn, rfl⟩ : ∃ dn : Nat, d = (dn : Int) := ⟨d.toNat, by omega⟩
      by_cases hdQ : dn ≤ Q
      · have e1 : min (max (dn : Int) 0) (0 + ((Q : Int) + 2) - 1) - 0 = (dn : Int) := by omega
        rw [e1, hposT dn hdQ]
        exact hgetS dn hdQ _
      · have e1 : min (max (dn : Int) 0) (0 + ((Q : Int) + 2) - 1) - 0 = ((Q + 1 : Nat) : Int) := by omega
        rw [e1, hposT_above dn (by omega)]
        have hi : Q + 1 < (S ++ (a :: t).drop t.length).length := by
          rw [List.length_append, hSlen]; simp
        rw [getIdx_nat _ _ hi, getIdx_nat _ _ (by rw [hlenT']; omega)]
        congr 1
        rw [List.getElem_append_right (by omega)]
        simp [hSlen]
  · -- the stride ends on the final entry
    rw [if_neg happ, List.append_nil]
    have hdiv : t.length = Q * k := by
      have : t.length % k = 0 := by
        by_contra h
        have hk1 : k = 1 := by
          by_contra h1; exact happ ⟨h1, h⟩
        subst hk1; omega
      rw [this] at hdm
      rw [Nat.mul_comm]; omega
    have hlen : (S.length : Int) = (Q : Int) + 1 := by rw [hSlen]; simp
    rw [hlen]
    have hget' : ∀ j : Nat, j ≤ Q → getIdx S (j : Int) = getIdx (a :: t) ((k : Int) * (j : Int)) := by
      intro j hj
      have := hgetS j hj []
      simpa using this
    by_cases hd0 : d < 0
    · have e1 : min (max d 0) (0 + ((Q : Int) + 1) - 1) - 0 = ((0 : Nat) : Int) := by omega
      rw [e1, hposT_below hd0]
      exact hget' 0 (by omega)
    · obtain ⟨dn, rfl⟩ : ∃ dn : Nat, d = (dn : Int) := ⟨d.toNat, by omega⟩
      by_cases hdQ : dn ≤ Q
      · have e1 : min (max (dn : Int) 0) (0 + ((Q : Int) + 1) - 1) - 0 = (dn : Int) := by omega
        rw [e1, hposT dn hdQ]
        exact hget' dn hdQ
      · have e1 : min (max (dn : Int) 0) (0 + ((Q : Int) + 1) - 1) - 0 = ((Q : Nat) : Int) := by omega
        rw [e1, hposT_above dn (by omega), hget' Q (le_refl _)]
        congr 1
        rw [hdiv]; push_cast; ring

theorem strided_lookup' {α} (T : List α) (hT : T ≠ []) (k : Nat) (hk : 1 ≤ k) (d : Int) :
    refLookup (stride T k ++ (if k ≠ 1 ∧ (T.length - 1) % k ≠ 0 then T.drop (T.length - 1) else [])) 0 d
      = refLookup T 0 ((k : Int) * d) := by
  obtain ⟨a, t, rfl⟩ := List.exists_cons_of_ne_nil hT
  simpa using strided_lookup a t k hk d

/-! ### the translated VOI-LUT folding -/

theorem rat_trunc_int (z : Int) : (if (z : Rat) < 0 then Rat.ceil (z : Rat) else Rat.floor (z : Rat)) = z := by
  split_ifs <;> simp

theorem foldVoiLut_nonint (m b : Rat) (n vfirst : Int)
    (h : ¬ (b = ((Rat.floor b : Int) : Rat) ∧ m = ((Rat.floor m : Int) : Rat))) :
    foldVoiLut m b n vfirst = .error .value := by
  unfold foldVoiLut
  have : (!(b == ((Rat.floor b : Int) : Rat) && m == ((Rat.floor m : Int) : Rat))) = true := by
    simp only [Bool.not_eq_true', Bool.and_eq_false_imp, beq_iff_eq, beq_eq_false_iff_ne, ne_eq]
    intro hb hm; exact h ⟨hb, hm⟩
  simp only [this, ↓reduceIte]

/-- the folding on integer slope / intercept -/
theorem foldVoiLut_int (mi bi n vfirst : Int) :
    foldVoiLut (mi : Rat) (bi : Rat) n vfirst =
      (let vf := vfirst + (if mi < 0 then n - 1 else 0)
       let q : Rat := (((vf - bi : Int)) : Rat) / (mi : Rat)
       if q = ((Rat.floor q : Int) : Rat)
       then .ok (decide (mi < 0), |mi|, (|mi| != 1) && (Int.fmod (n - 1) |mi| != 0), (if q < 0 then Rat.ceil q else Rat.floor q))
       else .error .value) := by
  unfold foldVoiLut
  simp only [Rat.floor_intCast, Rat.ceil_intCast, ite_self, beq_self_eq_true, Bool.and_self, Bool.not_true,
    Bool.false_eq_true, ↓reduceIte, Bool.not_false, Bool.true_and, Bool.not_not]
  have habs : (if mi < 0 then -mi else mi) = |mi| := by
    split_ifs with h
    · exact (abs_of_neg h).symm
    · exact (abs_of_nonneg (by omega)).symm
  rw [habs]
  by_cases hneg : mi < 0
  · simp only [hneg, decide_true, ↓reduceIte]
    generalize (((vfirst + (n - 1) - bi : Int)) : Rat) / (mi : Rat) = q
    by_cases hq : q = ((Rat.floor q : Int) : Rat)
    · have : (q == ((Rat.floor q : Int) : Rat)) = true := by simpa using hq
      simp only [this, Bool.not_true, Bool.false_eq_true, ↓reduceIte, if_pos hq]
    · have : (q == ((Rat.floor q : Int) : Rat)) = false := by simpa using hq
      simp only [this, Bool.not_false, ↓reduceIte, if_neg hq]
  · simp only [hneg, decide_false, ↓reduceIte, Bool.false_eq_true, add_zero]
    generalize (((vfirst - bi : Int)) : Rat) / (mi : Rat) = q
    by_cases hq : q = ((Rat.floor q : Int) : Rat)
    · have : (q == ((Rat.floor q : Int) : Rat)) = true := by simpa using hq
      simp only [this, Bool.not_true, Bool.false_eq_true, ↓reduceIte, if_pos hq]
    · have : (q == ((Rat.floor q : Int) : Rat)) = false := by simpa using hq
      simp only [this, Bool.not_false, ↓reduceIte, if_neg hq]

/-- what an accepted folding returns -/
theorem foldVoiLut_ok (m b : Rat) (n vfirst : Int) (rev : Bool) (step : Int) (app : Bool) (fo : Int) (hm : m ≠ 0)
    (h : foldVoiLut m b n vfirst = .ok (rev, step, app, fo)) :
    ∃ mi bi : Int, m = (mi : Rat) ∧ b = (bi : Rat) ∧ mi ≠ 0 ∧ rev = decide (mi < 0) ∧ step = |mi| ∧
      app = ((|mi| != 1) && (Int.fmod (n - 1) |mi| != 0)) ∧
      (vfirst + (if mi < 0 then n - 1 else 0)) - bi = mi * fo := by
  by_cases hint : b = ((Rat.floor b : Int) : Rat) ∧ m = ((Rat.floor m : Int) : Rat)
  · obtain ⟨hb, hmm⟩ := hint
    generalize Rat.floor b = bi at hb
    generalize Rat.floor m = mi at hmm
    subst hb hmm
    have hmi : mi ≠ 0 := by
      intro h0; apply hm; simp [h0]
    rw [foldVoiLut_int] at h
    simp only at h
    generalize hvf : (vfirst + if mi < 0 then n - 1 else 0) = vf at h ⊢
    generalize hqq : (((vf - bi : Int)) : Rat) / (mi : Rat) = q at h
    by_cases hq : q = ((Rat.floor q : Int) : Rat)
    · rw [if_pos hq] at h
      simp only [Except.ok.injEq, Prod.mk.injEq] at h
      obtain ⟨h1, h2, h3, h4⟩ := h
      refine ⟨mi, bi, rfl, rfl, hmi, h1.symm, h2.symm, h3.symm, ?_⟩
      generalize hz : Rat.floor q = z at hq h4
      have hfo : fo = z := by
        rw [← h4, hq]
        exact rat_trunc_int z
      have hmiq : (mi : Rat) ≠ 0 := by exact_mod_cast hmi
      have : (((vf - bi : Int)) : Rat) = (mi : Rat) * (z : Rat) := by
        rw [← hq, ← hqq]; field_simp
      rw [hfo, hvf]
      exact_mod_cast this
    · rw [if_neg hq] at h
      cases h
  · rw [foldVoiLut_nonint m b n vfirst hint] at h
    cases h

/-- core of the rescale + VOI LUT folding, on any table -/
theorem folded_table_lookup {α} (S : List α) (hS : S ≠ []) (mi bi vfirst fo s : Int) (hmi : mi ≠ 0)
    (hfo : (vfirst + (if mi < 0 then (S.length : Int) - 1 else 0)) - bi = mi * fo) :
    let T := if decide (mi < 0) = true then S.reverse else S
    let app := (|mi| != 1) && (Int.fmod ((S.length : Int) - 1) |mi| != 0)
    refLookup (stride T |mi|.toNat ++ (if app then T.drop (T.length - 1) else [])) fo s
      = refLookup S vfirst (mi * s + bi) := by
  obtain ⟨k, hkabs⟩ : ∃ k : Nat, |mi| = (k : Int) := Int.eq_ofNat_of_zero_le (abs_nonneg mi)
  rw [hkabs]
  simp only [Int.toNat_natCast]
  obtain ⟨T, hTdef⟩ : ∃ T, T = if decide (mi < 0) = true then S.reverse else S := ⟨_, rfl⟩
  obtain ⟨app, happdef⟩ : ∃ app, app = (((k : Int) != 1) && (Int.fmod ((S.length : Int) - 1) (k : Int) != 0)) := ⟨_, rfl⟩
  rw [← hTdef, ← happdef]
  have hk : 1 ≤ k := by
    have : 0 < |mi| := abs_pos.mpr hmi
    omega
  have hTlen : T.length = S.length := by
    rw [hTdef]; split_ifs <;> simp
  have hTne : T ≠ [] := by
    intro h; apply hS; apply List.eq_nil_of_length_eq_zero; rw [← hTlen, h]; rfl
  have hSpos : 1 ≤ S.length := by
    cases S with
    | nil => exact absurd rfl hS
    | cons a t => simp
  -- the Bool `app` of the translated code is the condition of `strided_lookup'`
  have happ : (app = true) ↔ (k ≠ 1 ∧ (T.length - 1) % k ≠ 0) := by
    rw [happdef]
    simp only [Bool.and_eq_true, bne_iff_ne, ne_eq]
    rw [fmod_pos _ _ (by omega), hTlen]
    have e1 : ((S.length : Int) - 1) = ((S.length - 1 : Nat) : Int) := by omega
    rw [e1, ← Int.natCast_mod]
    constructor
    · intro ⟨h1, h2⟩
      exact ⟨by intro h; apply h1; rw [h]; rfl, by intro h; apply h2; rw [h]; rfl⟩
    · intro ⟨h1, h2⟩
      exact ⟨by intro h; apply h1; exact_mod_cast h, by intro h; apply h2; exact_mod_cast h⟩
  have hif : (if app then T.drop (T.length - 1) else []) =
      (if k ≠ 1 ∧ (T.length - 1) % k ≠ 0 then T.drop (T.length - 1) else []) := by
    by_cases h : app = true
    · rw [if_pos h, if_pos (happ.mp h)]
    · rw [if_neg h, if_neg (fun hc => h (happ.mpr hc))]
  rw [hif, refLookup_shift, strided_lookup' T hTne _ hk, refLookup_shift S vfirst]
  by_cases hneg : mi < 0
  · have hT : T = S.reverse := by simp [hTdef, hneg]
    rw [hT, refLookup_reverse]
    congr 1
    rw [if_pos hneg] at hfo
    rw [← hkabs, abs_of_neg hneg]
    have : mi * fo = vfirst + ((S.length : Int) - 1) - bi := hfo.symm
    have e : -mi * (s - fo) = -(mi * s) + mi * fo := by ring
    rw [e, this]; ring
  · have hT : T = S := by simp [hTdef, hneg]
    rw [hT]
    congr 1
    rw [if_neg hneg] at hfo
    rw [← hkabs, abs_of_nonneg (by omega)]
    have : mi * fo = vfirst + 0 - bi := hfo.symm
    have e : mi * (s - fo) = mi * s - mi * fo := by ring
    rw [e, this]; ring

/-- the parameter sets the pipeline clause is claimed for: what PS3.3 allows and the flag stage guarantees -/
structure WellFormed (p : Params) (st : Stages) : Prop where
  /-- voi_output_range is increasing (the library refuses anything else) -/
  range : p.lo < p.hi
  /-- stages are only chosen where parameters exist (`flag_none_iff_present`: OnlyPresent) -/
  mod_present : st.modality = true → p.modality ≠ .none
  voi_present : st.voi = true → p.voi ≠ .none
  /-- window widths: LINEAR >= 1 (width 1 is the step), LINEAR_EXACT > 0, SIGMOID != 0 -/
  win_linear : ∀ c w, st.voi = true → p.voi = .window .linear c w → 1 ≤ w
  /-- a LINEAR window of width exactly 1 behind a rescale: positive slope only (behind a negative slope the folded step
      loses its direction: open finding C06-linear-width-one-negative-slope) -/
  unit_slope : ∀ m b c, st.modality = true → p.modality = .rescale m b → st.voi = true → p.voi = .window .linear c 1 → 0 < m
  win_exact : ∀ c w, st.voi = true → p.voi = .window .exact c w → 0 < w
  win_sigmoid : ∀ c w, st.voi = true → p.voi = .window .sigmoid c w → w ≠ 0
  /-- RescaleSlope is not 0 in front of a window -/
  slope : ∀ m b fn c w, st.modality = true → p.modality = .rescale m b → st.voi = true → p.voi = .window fn c w → m ≠ 0
  /-- a VOI LUT is not constant (its scaling divides by max - min) -/
  voi_lut : ∀ f d, st.voi = true → p.voi = .lut f d → ∃ mn mx, listMin d = some mn ∧ listMax d = some mx ∧ mx ≠ mn
  /-- a modality LUT has entries -/
  mod_lut : ∀ f d, st.modality = true → p.modality = .lut f d → d ≠ []

/-- which transforms a parameter set contains (what `__init__` finds in the datasets that apply to the frame) -/
def presentOf (p : Params) (icc inverse : Bool) : Present :=
  ⟨match p.rwvm with | .none => false | _ => true,
   match p.modality with | .none => false | _ => true,
   match p.voi with | .none => false | _ => true, icc, inverse⟩

/-- the shared frame loop equals reading every frame with its own transform, for uniformly placed groups -/
theorem getWith_eq {ρ μ ω β} (im : Meta ρ μ ω) (useRw useMod useVoi : Bool) (apply : Found ρ μ ω → Nat → β)
    (n f0 : Nat) (fs : List Nat) (h0 : f0 < n) (hfs : ∀ f ∈ fs, f < n)
    (h1 : Uniform im.rwvm n) (h2 : Uniform im.rescale n) (h3 : Uniform im.voi n) :
    getWith im useRw useMod useVoi apply f0 fs = fs.map (getFrame im useRw useMod useVoi apply) := by
  unfold getWith getFrame
  simp only []
  apply List.map_congr_left
  intro f hf
  have hfn := hfs f hf
  by_cases hall : (discover im useRw useMod useVoi f0).all = true
  · simp only [hall, ↓reduceIte]
    suffices discover im useRw useMod useVoi f = discover im useRw useMod useVoi f0 by rw [this]
    unfold discover at hall ⊢
    cases hr : (if useRw then im.rwvm.find f0 else none) with
    | some x =>
      obtain ⟨r, sh⟩ := x
      rw [hr] at hall
      simp only at hall
      have : (if useRw then im.rwvm.find f else none) = (if useRw then im.rwvm.find f0 else none) :=
        opt_find_stable _ useRw n f f0 h1 h0 hfn (by rw [hr]; exact hall)
      rw [this, hr]
    | none =>
      rw [hr] at hall
      have hrf : (if useRw then im.rwvm.find f else none) = none := by
        rw [opt_find_stable _ useRw n f f0 h1 h0 hfn (by rw [hr]), hr]
      rw [hrf]
      simp only [Bool.and_eq_true] at hall ⊢
      rw [opt_find_stable _ useMod n f f0 h2 h0 hfn hall.1, opt_find_stable _ useVoi n f f0 h3 h0 hfn hall.2]
  · simp [hall]

/-! ### argument forwarding of the read entry points (table T6h) -/

/-- the caller's options every read entry point has to hand on unchanged -/
def forwardedOptions : List String :=
  ["apply_real_world_transform", "real_world_value_map_selector", "apply_modality_transform", "apply_voi_transform",
   "voi_transform_selector", "voi_output_range", "apply_presentation_lut", "apply_palette_color_lut", "apply_icc_profile"]

/-- a site forwards option `o` unchanged: keyword `o = o` -/
def siteForwards (s : CallSite) (o : String) : Bool := s.kws.contains (o, o)

/-- the output type reaches the transform as `output_dtype=dtype`, the assembling helpers as `dtype=dtype` -/
def siteForwardsDtype (s : CallSite) : Bool :=
  if s.kind == "transform" then s.kws.contains ("output_dtype", "dtype") else s.kws.contains ("dtype", "dtype")

end HdVerif.PixelPipelineLemmas
