import HdVerif.Model.PixelPipeline
import Mathlib.Tactic.Ring
import Mathlib.Tactic.Linarith
import Mathlib.Tactic.FieldSimp
import Mathlib.Tactic.Push
import Mathlib.Tactic.SplitIfs
/-! Helper lemmas for C06 (window function, table lookup, folding). -/
namespace HdVerif.PixelPipelineLemmas
open HdVerif HdVerif.Gen HdVerif.PixelPipeline

/-- clipping `t * R + lo` to `[lo, lo + R]` is the three-piece definition of the standard -/
theorem clip_pieces (t R lo : Rat) (hR : 0 < R) :
    min (max (t * R + lo) lo) (lo + R) = if t ≤ 0 then lo else if t > 1 then lo + R else t * R + lo := by
  split_ifs with h1 h2
  · have : t * R ≤ 0 := mul_nonpos_of_nonpos_of_nonneg h1 hR.le
    rw [max_eq_right (by linarith), min_eq_left (by linarith)]
  · have : R < t * R := by nlinarith
    rw [max_eq_left (by linarith), min_eq_right (by linarith)]
  · push Not at h1 h2
    have h3 : 0 < t * R := mul_pos h1 hR
    have h4 : t * R ≤ R := by nlinarith
    rw [max_eq_left (by linarith), min_eq_left (by linarith)]

theorem clip_pieces_inv (t R lo : Rat) (hR : 0 < R) :
    min (max (-t * R + (lo + R)) lo) (lo + R) = (lo + R) + lo - (if t ≤ 0 then lo else if t > 1 then lo + R else t * R + lo) := by
  split_ifs with h1 h2
  · have : t * R ≤ 0 := mul_nonpos_of_nonpos_of_nonneg h1 hR.le
    rw [max_eq_left (by linarith), min_eq_right (by linarith)]; ring
  · have : R < t * R := by nlinarith
    rw [max_eq_right (by linarith), min_eq_left (by linarith)]; ring
  · push Not at h1 h2
    have h3 : 0 < t * R := mul_pos h1 hR
    have h4 : t * R ≤ R := by nlinarith
    rw [max_eq_left (by linarith), min_eq_left (by linarith)]; ring

/-- the translated window function with LINEAR_EXACT is the standard's three-piece definition -/
theorem window_exact (c w lo hi x : Rat) (hw : 0 < w) (hr : lo < hi) (inv : Bool) :
    voiWindowLinear x c w "LINEAR_EXACT" lo hi inv
      = .ok (if inv then hi + lo - refExact c w lo hi x else refExact c w lo hi x) := by
  obtain ⟨R, rfl⟩ : ∃ R, hi = lo + R := ⟨hi - lo, by ring⟩
  have hw' : w ≠ 0 := ne_of_gt hw
  have hR : 0 < R := by linarith
  have key := clip_pieces ((x - c) / w + 1/2) R lo hR
  have keyi := clip_pieces_inv ((x - c) / w + 1/2) R lo hR
  have e1 : (x - (c - w / (2 / 1))) * ((lo + R - lo) / w) + lo = ((x - c) / w + 1/2) * R + lo := by
    field_simp; ring
  have e2 : (c - w / (2 / 1) - x) * ((lo + R - lo) / w) + (lo + R) = -((x - c) / w + 1/2) * R + (lo + R) := by
    field_simp; ring
  have c1 : ((x - c) / w + 1/2 ≤ 0) ↔ x ≤ c - w / 2 := by
    rw [div_add' _ _ _ hw', div_le_iff₀ hw]; constructor <;> intro h <;> linarith
  have c2 : ((x - c) / w + 1/2 > 1) ↔ x > c + w / 2 := by
    rw [gt_iff_lt, div_add' _ _ _ hw', lt_div_iff₀ hw]; constructor <;> intro h <;> linarith
  have hlo : lo + R - lo = R := by ring
  unfold voiWindowLinear refExact
  have hs : ("LINEAR_EXACT" == "LINEAR") = false := by decide
  simp only [hs, Bool.false_eq_true, ↓reduceIte]
  cases inv
  · simp only [Bool.false_eq_true, ↓reduceIte]
    rw [e1, key]
    simp only [c1, c2, hlo]
  · simp only [↓reduceIte]
    rw [e2, keyi]
    simp only [c1, c2, hlo]

/-- the translated window function with LINEAR is the three-piece definition of PS3.3 C.11.2.1.2.1 -/
theorem window_linear (c w lo hi x : Rat) (hw : 1 < w) (hr : lo < hi) (inv : Bool) :
    voiWindowLinear x c w "LINEAR" lo hi inv
      = .ok (if inv then hi + lo - refLinear c w lo hi x else refLinear c w lo hi x) := by
  obtain ⟨R, rfl⟩ : ∃ R, hi = lo + R := ⟨hi - lo, by ring⟩
  have hw1 : 0 < w - 1 := by linarith
  have hw' : w - 1 ≠ 0 := ne_of_gt hw1
  have hR : 0 < R := by linarith
  have key := clip_pieces ((x - (c - 1/2)) / (w - 1) + 1/2) R lo hR
  have keyi := clip_pieces_inv ((x - (c - 1/2)) / (w - 1) + 1/2) R lo hR
  have e1 : (x - (c - w / (2 / 1))) * ((lo + R - lo) / (w - 1)) + lo = ((x - (c - 1/2)) / (w - 1) + 1/2) * R + lo := by
    field_simp; ring
  have e2 : (c - w / (2 / 1) - x) * ((lo + R - lo) / (w - 1)) + (lo + R)
      = -((x - (c - 1/2)) / (w - 1) + 1/2) * R + (lo + R) := by
    field_simp; ring
  have c1 : ((x - (c - 1/2)) / (w - 1) + 1/2 ≤ 0) ↔ x ≤ c - 1/2 - (w - 1) / 2 := by
    rw [div_add' _ _ _ hw', div_le_iff₀ hw1]; constructor <;> intro h <;> linarith
  have c2 : ((x - (c - 1/2)) / (w - 1) + 1/2 > 1) ↔ x > c - 1/2 + (w - 1) / 2 := by
    rw [gt_iff_lt, div_add' _ _ _ hw', lt_div_iff₀ hw1]; constructor <;> intro h <;> linarith
  have hlo : lo + R - lo = R := by ring
  unfold voiWindowLinear refLinear
  simp only [beq_self_eq_true, ↓reduceIte, Int.cast_one]
  cases inv
  · simp only [Bool.false_eq_true, ↓reduceIte]
    rw [e1, key]
    simp only [c1, c2, hlo]
  · simp only [↓reduceIte]
    rw [e2, keyi]
    simp only [c1, c2, hlo]

/-- folding a window through `x = m s + b` is exact algebra (no order reasoning): LINEAR_EXACT / SIGMOID form -/
theorem fold_exact_value (c w b m lo hi s : Rat) (hm : m ≠ 0) (hw : w ≠ 0) (fn : String) (hfn : (fn == "LINEAR") = false)
    (inv : Bool) :
    voiWindowLinear s ((c - b) / m) (w / m) fn lo hi inv = voiWindowLinear (m * s + b) c w fn lo hi inv := by
  unfold voiWindowLinear
  simp only [hfn, Bool.false_eq_true, ↓reduceIte]
  have e1 : (s - ((c - b) / m - w / m / (2 / 1))) * ((hi - lo) / (w / m))
      = (m * s + b - (c - w / (2 / 1))) * ((hi - lo) / w) := by
    field_simp; ring
  have e2 : ((c - b) / m - w / m / (2 / 1) - s) * ((hi - lo) / (w / m))
      = (c - w / (2 / 1) - (m * s + b)) * ((hi - lo) / w) := by
    field_simp; ring
  rw [e1, e2]

/-- ... and the LINEAR form, with the (c - 1/2) and (w - 1) terms -/
theorem fold_linear_value (c w b m lo hi s : Rat) (hm : m ≠ 0) (hw : w - 1 ≠ 0) (inv : Bool) :
    voiWindowLinear s ((c - 1/2 - b) / m + 1/2) ((w - 1/1) / m + 1/1) "LINEAR" lo hi inv
      = voiWindowLinear (m * s + b) c w "LINEAR" lo hi inv := by
  unfold voiWindowLinear
  simp only [beq_self_eq_true, ↓reduceIte, Int.cast_one]
  have e1 : (s - ((c - 1/2 - b) / m + 1/2 - ((w - 1/1) / m + 1/1) / (2 / 1))) * ((hi - lo) / ((w - 1/1) / m + 1/1 - 1))
      = (m * s + b - (c - w / (2 / 1))) * ((hi - lo) / (w - 1)) := by
    have : (w - 1/1) / m + 1/1 - 1 = (w - 1) / m := by ring
    rw [this]; field_simp; ring
  have e2 : ((c - 1/2 - b) / m + 1/2 - ((w - 1/1) / m + 1/1) / (2 / 1) - s) * ((hi - lo) / ((w - 1/1) / m + 1/1 - 1))
      = (c - w / (2 / 1) - (m * s + b)) * ((hi - lo) / (w - 1)) := by
    have : (w - 1/1) / m + 1/1 - 1 = (w - 1) / m := by ring
    rw [this]; field_simp; ring
  rw [e1, e2]

theorem fold_sigmoid_value (c w b m s : Rat) (hm : m ≠ 0) (hw : w ≠ 0) (inv : Bool) :
    voiSigmoidArg s ((c - b) / m) (w / m) inv = voiSigmoidArg (m * s + b) c w inv := by
  unfold voiSigmoidArg
  cases inv <;> simp only [Bool.false_eq_true, ↓reduceIte] <;> congr 1 <;> field_simp <;> ring

/-! ### table lookup -/

theorem applyLutIndex_clip (first x n : Int) :
    applyLutIndex first true x n = .ok (min (max x first) (first + n - 1) - first) := by
  unfold applyLutIndex
  by_cases hf : first = 0
  · subst hf; simp
  · have : (first != 0) = true := by simpa using hf
    simp [this]

theorem getIdx_nat {α} (l : List α) (i : Nat) (h : i < l.length) : getIdx l (i : Int) = .ok l[i] := by
  unfold getIdx
  have : ¬ ((i : Int) < 0) := by omega
  simp [this, h]

theorem getIdx_of {α} (l : List α) (i : Int) (k : Nat) (hk : i = (k : Int)) (h : k < l.length) :
    getIdx l i = .ok l[k] := by
  subst hk; exact getIdx_nat l k h

/-- `apply_lut` with clipping: below / above the table -> first / last entry, inside -> the entry -/
theorem applyLut_eq_refLookup {α} (table : List α) (first x : Int) :
    applyLut table first true x = refLookup table first x := by
  unfold applyLut
  rw [applyLutIndex_clip]
  cases table with
  | nil =>
    simp only [refLookup, List.length_nil]
    unfold getIdx
    have : (min (max x first) (first + ((0 : Nat) : Int) - 1) - first) < 0 := by omega
    simp
  | cons a t =>
    simp only [refLookup]
    have hn : ((a :: t).length : Int) = (t.length : Int) + 1 := by simp
    split_ifs with h1 h2
    · have : min (max x first) (first + ((a :: t).length : Int) - 1) - first = ((0 : Nat) : Int) := by
        rw [hn]; omega
      rw [getIdx_of _ _ 0 this (by simp)]; simp
    · have : min (max x first) (first + ((a :: t).length : Int) - 1) - first = ((t.length : Nat) : Int) := by
        rw [hn] at h2 ⊢; omega
      rw [getIdx_of _ _ t.length this (by simp)]
      congr 1
      rw [List.getLast_eq_getElem]
      simp
    · have : min (max x first) (first + ((a :: t).length : Int) - 1) - first = x - first := by
        rw [hn] at h2 ⊢; omega
      rw [this]

theorem applyLut_noclip_outside {α} (table : List α) (first x : Int)
    (h : x < first ∨ x > first + (table.length : Int) - 1) : applyLut table first false x = .error .value := by
  unfold applyLut applyLutIndex
  have : (decide (x < first) || decide (x > first + (table.length : Int) - 1)) = true := by
    rcases h with h | h <;> simp [h]
  simp [this]

theorem applyLut_noclip_inside {α} (table : List α) (first x : Int)
    (h1 : first ≤ x) (h2 : x ≤ first + (table.length : Int) - 1) : applyLut table first false x = getIdx table (x - first) := by
  unfold applyLut applyLutIndex
  have a : ¬ x < first := by omega
  have b : ¬ x > first + (table.length : Int) - 1 := by omega
  by_cases hf : first = 0
  · subst hf
    have b' : ¬ ((table.length : Int) - 1 < x) := by omega
    simp [a, b']
  · have hb : (first != 0) = true := by simpa using hf
    simp [a, b, hb]

/-- a table mapped entry by entry is the lookup followed by the map -/
theorem getIdx_map {α β} (f : α → β) (l : List α) (i : Int) :
    getIdx (l.map f) i = (match getIdx l i with | .ok v => .ok (f v) | .error e => .error e) := by
  unfold getIdx
  by_cases h : i < 0
  · simp [h]
  · simp only [h, ↓reduceIte, List.getElem?_map]
    cases l[i.toNat]? <;> simp

theorem applyLut_map {α β} (f : α → β) (l : List α) (first : Int) (clip : Bool) (x : Int) :
    applyLut (l.map f) first clip x = (match applyLut l first clip x with | .ok v => .ok (f v) | .error e => .error e) := by
  unfold applyLut
  rw [List.length_map]
  cases applyLutIndex first clip x l.length with
  | error e => rfl
  | ok i => simp only [getIdx_map]

theorem refLookup_map {α β} (f : α → β) (l : List α) (first : Int) (x : Int) :
    refLookup (l.map f) first x = (match refLookup l first x with | .ok v => .ok (f v) | .error e => .error e) := by
  rw [← applyLut_eq_refLookup, ← applyLut_eq_refLookup, applyLut_map]

/-! ### tables built entry by entry -/

theorem mapExcept_of_total {α β} (f : α → Except ErrKind β) (hf : ∀ a, ∃ b, f a = .ok b) (l : List α) :
    ∃ d, mapExcept f l = .ok d := by
  induction l with
  | nil => exact ⟨[], rfl⟩
  | cons a t ih =>
    obtain ⟨b, hb⟩ := hf a
    obtain ⟨d, hd⟩ := ih
    exact ⟨b :: d, by simp [mapExcept, hb, hd]⟩

theorem mapExcept_getElem {α β} (f : α → Except ErrKind β) (l : List α) (d : List β) (h : mapExcept f l = .ok d) :
    d.length = l.length ∧ ∀ (i : Nat) (hi : i < l.length) (hi' : i < d.length), f l[i] = .ok d[i] := by
  induction l generalizing d with
  | nil =>
    simp [mapExcept] at h; subst h; simp
  | cons a t ih =>
    simp only [mapExcept] at h
    split at h
    · simp at h
    · rename_i b hb
      split at h
      · simp at h
      · rename_i bs hbs
        simp at h; subst h
        obtain ⟨hl, hall⟩ := ih bs hbs
        refine ⟨by simp [hl], ?_⟩
        intro i hi hi'
        cases i with
        | zero => simpa using hb
        | succ i => simpa using hall i (by simpa using hi) (by simpa using hi')

theorem getIdx_mapExcept {α β} (f : α → Except ErrKind β) (l : List α) (d : List β) (h : mapExcept f l = .ok d) (i : Int) :
    getIdx d i = (match getIdx l i with | .ok v => f v | .error e => .error e) := by
  obtain ⟨hl, hall⟩ := mapExcept_getElem f l d h
  unfold getIdx
  by_cases hi : i < 0
  · simp [hi]
  · simp only [hi, ↓reduceIte]
    by_cases hk : i.toNat < l.length
    · have hk' : i.toNat < d.length := by omega
      rw [List.getElem?_eq_getElem hk, List.getElem?_eq_getElem hk']
      simp [hall i.toNat hk hk']
    · have hk' : ¬ i.toNat < d.length := by omega
      rw [List.getElem?_eq_none (by omega), List.getElem?_eq_none (by omega)]

theorem applyLut_mapExcept {α β} (f : α → Except ErrKind β) (l : List α) (d : List β) (h : mapExcept f l = .ok d)
    (first : Int) (clip : Bool) (x : Int) :
    applyLut d first clip x = (match applyLut l first clip x with | .ok v => f v | .error e => .error e) := by
  unfold applyLut
  rw [(mapExcept_getElem f l d h).1]
  cases applyLutIndex first clip x l.length with
  | error e => rfl
  | ok i => simp only [getIdx_mapExcept f l d h]

theorem windowOut_linear_total (fn : WinFn) (c w lo hi : Rat) (inv : Bool) (x : Rat) :
    ∃ o, windowOut fn c w lo hi inv x = .ok o := by
  cases fn <;> simp [windowOut, voiWindowLinear, voiSigmoidArg]

/-! ### min / max of a table -/

theorem foldl_min_le (t : List Nat) (a : Nat) : t.foldl min a ≤ a ∧ ∀ v ∈ t, t.foldl min a ≤ v := by
  induction t generalizing a with
  | nil => simp
  | cons b t ih =>
    simp only [List.foldl_cons, List.mem_cons, forall_eq_or_imp]
    obtain ⟨h1, h2⟩ := ih (min a b)
    refine ⟨le_trans h1 (Nat.min_le_left _ _), le_trans h1 (Nat.min_le_right _ _), h2⟩

theorem le_foldl_max (t : List Nat) (a : Nat) : a ≤ t.foldl max a ∧ ∀ v ∈ t, v ≤ t.foldl max a := by
  induction t generalizing a with
  | nil => simp
  | cons b t ih =>
    simp only [List.foldl_cons, List.mem_cons, forall_eq_or_imp]
    obtain ⟨h1, h2⟩ := ih (max a b)
    refine ⟨le_trans (Nat.le_max_left _ _) h1, le_trans (Nat.le_max_right _ _) h1, h2⟩

theorem listMin_le (data : List Nat) (mn : Nat) (h : listMin data = some mn) : ∀ v ∈ data, mn ≤ v := by
  cases data with
  | nil => simp [listMin] at h
  | cons a t =>
    simp only [listMin, Option.some.injEq] at h
    subst h
    intro v hv
    rcases List.mem_cons.mp hv with rfl | hv
    · exact (foldl_min_le t _).1
    · exact (foldl_min_le t a).2 v hv

theorem le_listMax (data : List Nat) (mx : Nat) (h : listMax data = some mx) : ∀ v ∈ data, v ≤ mx := by
  cases data with
  | nil => simp [listMax] at h
  | cons a t =>
    simp only [listMax, Option.some.injEq] at h
    subst h
    intro v hv
    rcases List.mem_cons.mp hv with rfl | hv
    · exact (le_foldl_max t _).1
    · exact (le_foldl_max t a).2 v hv

/-- with clipping on, a non-empty table answers every input with one of its entries -/
theorem applyLut_clip_total' {α} (a : α) (t : List α) (first x : Int) :
    ∃ v, applyLut (a :: t) first true x = .ok v ∧ v ∈ a :: t := by
  rw [applyLut_eq_refLookup]
  simp only [refLookup]
  split_ifs with h1 h2
  · exact ⟨a, rfl, by simp⟩
  · exact ⟨_, rfl, List.getLast_mem _⟩
  · have hl : ((a :: t).length : Int) = (t.length : Int) + 1 := by simp
    obtain ⟨k, hk⟩ : ∃ k : Nat, x - first = (k : Int) := ⟨(x - first).toNat, by omega⟩
    have hk' : k < (a :: t).length := by simp; omega
    rw [hk, getIdx_nat _ k hk']
    exact ⟨_, rfl, List.getElem_mem _⟩

/-! ### scaled VOI LUTs -/

/-- value of a scaled (and optionally inverted) VOI LUT entry -/
def scaledEntry (mn mx : Nat) (lo hi : Rat) (inv : Bool) (v : Nat) : Rat :=
  let y := (((v : Int) : Rat) - ((mn : Int) : Rat)) / (((mx : Int) : Rat) - ((mn : Int) : Rat)) * (hi - lo) + lo
  if inv then hi + lo - y else y

theorem scaledLut_eq (a : Nat) (t : List Nat) (mn mx : Nat) (lo hi : Rat) (inv : Bool)
    (hmn : listMin (a :: t) = some mn) (hmx : listMax (a :: t) = some mx) (hne : mx ≠ mn) :
    scaledLut (a :: t) lo hi inv = .ok ((a :: t).map (scaledEntry mn mx lo hi inv)) := by
  unfold scaledLut
  rw [hmn, hmx]
  simp only [hne, ↓reduceIte]
  congr 1
  apply List.map_congr_left
  intro v _
  have hd : (((mx : Int) : Rat) - ((mn : Int) : Rat)) ≠ 0 := by
    intro h
    have : ((mx : Int) : Rat) = ((mn : Int) : Rat) := by linarith
    exact hne (by exact_mod_cast this)
  unfold scaledEntry
  cases inv
  · simp only [Bool.false_eq_true, ↓reduceIte]; field_simp
  · simp only [↓reduceIte]; field_simp; ring

theorem refVoi_lut_int (vfirst : Int) (a : Nat) (t : List Nat) (mn mx : Nat) (lo hi : Rat) (v : Nat)
    (hmn : listMin (a :: t) = some mn) (hmx : listMax (a :: t) = some mx) (hne : mx ≠ mn) :
    refVoi (.lut vfirst (a :: t)) lo hi ((v : Int) : Rat) =
      (match refLookup (a :: t) vfirst (v : Int) with
       | .ok e => .ok (.val (scaledEntry mn mx lo hi false e))
       | .error e => .error e) := by
  simp only [refVoi, hmn, hmx, hne, ↓reduceIte, Rat.den_intCast, ne_eq, not_true_eq_false, Rat.num_intCast]
  cases h : refLookup (a :: t) vfirst (v : Int) <;> simp [scaledEntry]

/-! ### LUT descriptor / data encoding -/

theorem encode8_eq (data : List Nat) (h : ∀ v ∈ data, v < 256) : encodeEntries 8 data = data := by
  induction data with
  | nil => rfl
  | cons a t ih =>
    have ha : a % 256 = a := Nat.mod_eq_of_lt (h a (by simp))
    have := ih (fun v hv => h v (by simp [hv]))
    simp only [encodeEntries, entryBytes, List.flatMap_cons, ↓reduceIte, ha] at this ⊢
    simp [this]

theorem decode16_encode16 (data : List Nat) (h : ∀ v ∈ data, v < 65536) :
    decode16 (encodeEntries 16 data) = .ok data := by
  induction data with
  | nil => rfl
  | cons a t ih =>
    have ha : a < 65536 := h a (by simp)
    have := ih (fun v hv => h v (by simp [hv]))
    have e : a % 256 + 256 * (a / 256 % 256) = a := by omega
    simp only [encodeEntries, entryBytes, List.flatMap_cons] at this ⊢
    simp [decode16, this, e]

theorem encode16_length (data : List Nat) : (encodeEntries 16 data).length = 2 * data.length := by
  induction data with
  | nil => rfl
  | cons a t ih =>
    simp only [encodeEntries, entryBytes, List.flatMap_cons] at ih ⊢
    simp [ih]; omega

/-- the accessors on any item whose descriptor and data follow PS3.3 C.11.1.1: `d0` entries (0 = 65536) of
`bits` bits, packed little endian, 8-bit tables optionally padded to an even number of bytes -/
theorem lut_access (d0 first : Int) (bits : Nat) (data : List Nat) (pad : Bool)
    (hb : bits = 8 ∨ bits = 16) (hv : ∀ v ∈ data, v < 2 ^ bits)
    (hlen : 1 ≤ data.length ∧ data.length ≤ 65536)
    (hd0 : d0 = if data.length = 65536 then 0 else (data.length : Int))
    (hpad : pad = true → bits = 8 ∧ data.length % 2 = 1) :
    let ds : LutDs := ⟨[d0, first, (bits : Int)], encodeEntries bits data ++ (if pad then [0] else [])⟩
    lutData ds = .ok data ∧ firstMapped ds = .ok first ∧ numberOfEntries ds = .ok (data.length : Int) := by
  intro ds
  have hn : numberOfEntries ds = .ok (data.length : Int) := by
    simp only [numberOfEntries, descr, ds, List.getElem?_cons_zero, hd0]
    split_ifs with h1 h2 h2
    · simp [h1]
    · simp at h2
    · omega
    · rfl
  refine ⟨?_, by simp [firstMapped, descr, ds], hn⟩
  unfold lutData
  rw [hn]
  have hdes : descr ds 2 = .ok (bits : Int) := by simp [descr, ds]
  rw [hdes]
  rcases hb with rfl | rfl
  · have he := encode8_eq data (by simpa using hv)
    simp only [ds, he]
    cases pad with
    | true =>
      have hodd := (hpad rfl).2
      have h1 : ((data.length : Int) % 2 = 1) := by omega
      simp [decodeEntries, h1]
    | false =>
      simp [decodeEntries]
  · have hdec := decode16_encode16 data (by simpa using hv)
    have hp : pad = false := by
      cases pad with
      | true => exact absurd (hpad rfl).1 (by decide)
      | false => rfl
    subst hp
    simp [ds, decodeEntries, hdec]

/-! ### selectors -/

/-- Python list indexing: positions 0..n-1 from the front, -1..-n from the back, anything else refused -/
theorem pyGet_spec {α} (l : List α) (k : Int) :
    pyGet l k = if 0 ≤ k ∧ k < l.length then l[k.toNat]?
      else if -(l.length : Int) ≤ k ∧ k < 0 then l[(l.length + k).toNat]? else none := by
  unfold pyGet
  by_cases h0 : k < 0
  · have h1 : ¬ (0 ≤ k ∧ k < l.length) := by omega
    simp only [h0, ↓reduceIte, h1]
    by_cases h2 : -k ≤ (l.length : Int)
    · have h3 : -(l.length : Int) ≤ k ∧ True := ⟨by omega, trivial⟩
      simp only [h2, ↓reduceIte, h3.1, and_self]
      congr 1; omega
    · have h3 : ¬ (-(l.length : Int) ≤ k) := by omega
      simp [h2, h3]
  · simp only [h0, ↓reduceIte]
    by_cases h1 : k < l.length
    · have : 0 ≤ k ∧ k < l.length := ⟨by omega, h1⟩
      simp [this]
    · have h2 : ¬ (0 ≤ k ∧ k < l.length) := by omega
      have h3 : ¬ (-(l.length : Int) ≤ k ∧ k < 0) := by omega
      have : l.length ≤ k.toNat := by omega
      simp [List.getElem?_eq_none this]

/-- Python `list.index`: the first position holding the value -/
theorem pyIndex_spec {α} [DecidableEq α] (l : List α) (x : α) (j : Nat) :
    pyIndex l x = some j ↔ (l[j]? = some x ∧ ∀ i, i < j → l[i]? ≠ some x) := by
  induction l generalizing j with
  | nil => simp [pyIndex]
  | cons a t ih =>
    unfold pyIndex
    by_cases h : a = x
    · subst h
      simp only [↓reduceIte, Option.some.injEq]
      constructor
      · intro hj; subst hj; simp
      · intro ⟨_, h2⟩
        cases j with
        | zero => rfl
        | succ j => exact absurd (by simp) (h2 0 (by omega))
    · simp only [h, ↓reduceIte, Option.map_eq_some_iff]
      constructor
      · intro ⟨i, hi, hij⟩
        subst hij
        obtain ⟨h1, h2⟩ := (ih i).mp hi
        refine ⟨by simpa using h1, ?_⟩
        intro m hm
        cases m with
        | zero => simpa using h
        | succ m => simpa using h2 m (by omega)
      · intro ⟨h1, h2⟩
        cases j with
        | zero => simp at h1; exact absurd h1 h
        | succ j =>
          refine ⟨j, (ih j).mpr ⟨by simpa using h1, ?_⟩, rfl⟩
          intro i hi
          simpa using h2 (i + 1) (by omega)

theorem pyIndex_none {α} [DecidableEq α] (l : List α) (x : α) : pyIndex l x = none ↔ x ∉ l := by
  induction l with
  | nil => simp [pyIndex]
  | cons a t ih =>
    unfold pyIndex
    by_cases h : a = x
    · subst h; simp
    · simp only [h, ↓reduceIte, Option.map_eq_none_iff, ih, List.mem_cons, not_or]
      constructor
      · intro h2; exact ⟨fun e => h e.symm, h2⟩
      · intro h2; exact h2.2

theorem pickValue_eq_pyGet {α} (vals : List α) (k : Int) (h : vals ≠ []) : pickValue vals k = pyGet vals k := by
  cases vals with
  | nil => exact absurd rfl h
  | cons a t =>
    cases t with
    | nil =>
      rw [pyGet_spec]
      simp only [pickValue, List.length_singleton]
      by_cases h0 : k = 0
      · subst h0; simp
      · by_cases h1 : k = -1
        · subst h1; simp
        · have : ¬ (k = 0 ∨ k = -1) := by omega
          have a1 : ¬ (0 ≤ k ∧ k < 1) := by omega
          have a2 : ¬ (-1 ≤ k ∧ k < 0) := by omega
          simp [this, a1, a2]
    | cons b t => rfl

/-! ### placement -/

/-- the per-frame item of frame `f` does not carry the parameters -/
def AbsentAt {α} (pl : Placed α) (f : Nat) : Prop := pl.perFrame[f]? = none ∨ pl.perFrame[f]? = some none

/-- **Per-frame over shared (over image level)**: parameters given for the frame itself are the ones used. -/
theorem find_per_frame {α} (pl : Placed α) (f : Nat) (a : α) (h : pl.perFrame[f]? = some (some a)) :
    pl.find f = some (a, false) := by
  simp [Placed.find, Placed.candidates, h, firstHit]

/-- no per-frame parameters: the shared ones, marked as applying to all frames -/
theorem find_shared {α} (pl : Placed α) (f : Nat) (a : α) (h : AbsentAt pl f) (hs : pl.shared = some a) :
    pl.find f = some (a, true) := by
  rcases h with h | h <;> simp [Placed.find, Placed.candidates, h, hs, firstHit]

/-- neither per-frame nor shared: the image level -/
theorem find_image {α} (pl : Placed α) (f : Nat) (h : AbsentAt pl f) (hs : pl.shared = none) :
    pl.find f = pl.image.map (·, true) := by
  rcases h with h | h <;> cases hi : pl.image <;> simp [Placed.find, Placed.candidates, h, hs, hi, firstHit]

/-- a functional group is given per frame either for every frame or for none (PS3.3 C.7.6.16.1) -/
def Uniform {α} (pl : Placed α) (n : Nat) : Prop :=
  (∀ f, f < n → ∃ a, pl.perFrame[f]? = some (some a)) ∨ (∀ f, f < n → AbsentAt pl f)

theorem find_stable {α} (pl : Placed α) (n f : Nat) (hu : Uniform pl n) (h0 : 0 < n) (hf : f < n)
    (hsh : ∀ a, pl.find 0 ≠ some (a, false)) : pl.find f = pl.find 0 := by
  rcases hu with hu | hu
  · obtain ⟨a, ha⟩ := hu 0 h0
    exact absurd (find_per_frame pl 0 a ha) (hsh a)
  · have e : ∀ g, g < n → pl.find g = firstHit [(pl.shared, true), (pl.image, true)] := by
      intro g hg
      rcases hu g hg with h | h <;> simp [Placed.find, Placed.candidates, h, firstHit]
    rw [e f hf, e 0 h0]

theorem find_shared_flag {α} (pl : Placed α) (f : Nat) (a : α) (sh : Bool) (h : pl.find f = some (a, sh)) :
    sh = false ↔ ∃ b, pl.perFrame[f]? = some (some b) := by
  unfold Placed.find Placed.candidates at h
  cases hp : pl.perFrame[f]? with
  | none =>
    rw [hp] at h
    cases hs : pl.shared <;> cases hi : pl.image <;> simp [hs, hi, firstHit] at h <;> simp [← h.2]
  | some o =>
    rw [hp] at h
    cases o with
    | some b => simp [firstHit] at h; simp [← h.2]
    | none =>
      cases hs : pl.shared <;> cases hi : pl.image <;> simp [hs, hi, firstHit] at h <;> simp [← h.2]

theorem opt_find_stable {α} (pl : Placed α) (use : Bool) (n f : Nat) (hu : Uniform pl n) (h0 : 0 < n) (hf : f < n)
    (hflag : (match (if use then pl.find 0 else none) with | some (_, sh) => sh | none => true) = true) :
    (if use then pl.find f else none) = (if use then pl.find 0 else none) := by
  cases use with
  | false => rfl
  | true =>
    simp only [↓reduceIte] at hflag ⊢
    apply find_stable pl n f hu h0 hf
    intro a ha
    rw [ha] at hflag
    simp at hflag

end HdVerif.PixelPipelineLemmas
