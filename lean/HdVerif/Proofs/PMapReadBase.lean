import HdVerif.Proofs.FrameAccess
/-! C19: the five facts about C05's REGENERATED read skeletons that `Proofs/PMapRead.lean` builds on -- frame numbers outside the
image are refused, the in-memory and the lazy byte range of frame `i` of a native image of >= 8 bits is frame `i`, the cached branch
returns element `i` -- proved here over the same regenerated definitions (`Gen.stdFrameIndex`, `rawFrameRange`, `lazy*`,
`singleSkel` / `batchSkel`: T1, T1b, T4, T11, T11b, T11c) and the lemma file `Proofs/FrameAccess.lean`.  The statements and proofs
are those of `Props/C05.lean` (`frame_number_rejected`, `memory_frame_bytes_any`, `lazy_frame_bytes_any`, `cached_frame`,
`cached_frame_rejected`), restated so that the C19 check does not have to build C05's other proof files (offset tables,
encapsulated byte streams, frame paths), which change independently. -/
namespace HdVerif.PMapBase
open HdVerif HdVerif.Bits HdVerif.Gen HdVerif.FrameAccess HdVerif.FrameAccessLemmas

theorem frame_number_rejected (k N : Int) (asIndex : Bool)
    (h : (if asIndex then k else k - 1) < 0 ∨ N ≤ (if asIndex then k else k - 1)) :
    stdFrameIndex k asIndex N = .error .index := by
  unfold stdFrameIndex
  grind (splits := 40)

theorem memory_frame_bytes_any (frames : List (List Nat)) (rows cols samples bits : Nat) (pi : String)
    (hb : bits ≠ 1)
    (hlen : ∀ f ∈ frames, f.length = frameBytes rows cols samples bits pi)
    (i : Nat) (hi : i < frames.length) :
    memFrameBytes frames.flatten rows cols samples bits frames.length pi ((i : Int) + 1) false = .ok frames[i] := by
  have h1 : stdFrameIndex ((i : Int) + 1) false frames.length = .ok (i : Int) := by
    rw [stdFrameIndex_ok_iff]; simp; omega
  unfold memFrameBytes Skel.frameBytes Skel.index
  simp only [singleSkel, singleStdArgs, singleRawArgs, singleDecodeIndex, bind, Except.bind]
  rw [h1]
  simp only []
  unfold memRaw
  simp only [bind, Except.bind]
  unfold rawFrameRange
  have hb' : (((bits : Int)) == 1) = false := by
    have : (bits : Int) ≠ 1 := by exact_mod_cast hb
    simpa using this
  simp only [hb', Bool.false_and, Bool.false_eq_true, ↓reduceIte, fdiv_pos _ 8 (by omega)]
  have e : (bits : Int) * (if (pi == "YBR_FULL_422") = true then (rows : Int) * cols * 2 else (rows : Int) * cols * samples) / 8
      = ((frameBytes rows cols samples bits pi : Nat) : Int) := by
    unfold frameBytes
    by_cases hp : pi = "YBR_FULL_422"
    · simp [hp]
    · have : (pi == "YBR_FULL_422") = false := by simpa using hp
      simp [hp, this]
  rw [e]
  generalize frameBytes rows cols samples bits pi = L at *
  have e2 : (i : Int) * (L : Int) = ((i * L : Nat) : Int) := by push_cast; rfl
  have e3 : ((i * L : Nat) : Int) + (L : Int) = ((i * L + L : Nat) : Int) := by push_cast; rfl
  rw [e2, e3, slice_nat]
  unfold pySlice
  have : i * L + L - i * L = L := by omega
  rw [this, flatten_drop_take frames L hlen i hi]

theorem lazy_frame_bytes_any (frames : List (List Nat)) (rows cols samples bits : Nat) (pi : String)
    (hb : bits ≠ 1) (hpos : 0 < frameBytes rows cols samples bits pi)
    (hlen : ∀ f ∈ frames, f.length = frameBytes rows cols samples bits pi)
    (i : Nat) (hi : i < frames.length) :
    lazyFrameBytes frames.flatten rows cols samples bits frames.length pi ((i : Int) + 1) false = .ok frames[i] := by
  have h1 : stdFrameIndex ((i : Int) + 1) false frames.length = .ok (i : Int) := by
    rw [stdFrameIndex_ok_iff]; simp; omega
  have h2 : lazyIndexGuard (i : Int) frames.length = .ok (i : Int) := by
    rw [lazyIndexGuard_ok_iff]; omega
  unfold lazyFrameBytes Skel.frameBytes Skel.index
  simp only [singleSkel, singleStdArgs, singleRawArgs, singleDecodeIndex, bind, Except.bind]
  rw [h1]
  simp only []
  unfold lazyRaw
  simp only [bind, Except.bind, h2]
  have hb' : (((bits : Int)) == 1) = false := by
    have : (bits : Int) ≠ 1 := by exact_mod_cast hb
    simpa using this
  have hbne : ¬ ((bits : Int) = 1) := by exact_mod_cast hb
  have hbpf : lazyBytesPerFrame ((rows : Int) * cols * samples) bits pi rows cols
      = .ok ((frameBytes rows cols samples bits pi : Nat) : Int) := by
    unfold lazyBytesPerFrame frameBytes
    simp only [hb', Bool.false_eq_true, ↓reduceIte, Bool.not_false, fdiv_pos _ 8 (by omega)]
    by_cases hp : pi = "YBR_FULL_422"
    · simp [hp]; congr 1; rw [Int.mul_comm]
    · have : (pi == "YBR_FULL_422") = false := by simpa using hp
      simp [hp, this]; congr 1; rw [Int.mul_comm]
  rw [hbpf]
  simp only [hbne, ↓reduceIte]
  unfold lazyOffsetByte lazyReadLength
  simp only [hb', Bool.false_eq_true, ↓reduceIte]
  generalize hL : frameBytes rows cols samples bits pi = L at *
  have e2 : (i : Int) * (L : Int) = ((i * L : Nat) : Int) := by push_cast; rfl
  have e3 : ((i * L : Nat) : Int) + (L : Int) = ((i * L + L : Nat) : Int) := by push_cast; rfl
  rw [e2, e3, slice_nat]
  unfold pySlice
  have : i * L + L - i * L = L := by omega
  rw [this, flatten_drop_take frames L hlen i hi]
  have : frames[i].length ≠ 0 := by rw [hlen _ (List.getElem_mem hi)]; omega
  simp [this]

theorem cached_frame {α} (sk : Skel) (hsk : sk = singleSkel ∨ sk = batchSkel) (frames : List α) (whole : α)
    (hw : frames.length = 1 → frames = [whole]) (i : Nat) (hi : i < frames.length) (asIndex : Bool) :
    sk.cached frames whole (if asIndex then (i : Int) else (i : Int) + 1) asIndex = .ok frames[i] := by
  have h1 : stdFrameIndex (if asIndex then (i : Int) else (i : Int) + 1) asIndex (frames.length : Int) = .ok (i : Int) := by
    rw [stdFrameIndex_ok_iff]; cases asIndex <;> simp <;> omega
  unfold Skel.cached Skel.index
  rcases hsk with rfl | rfl
  all_goals
    simp only [singleSkel, batchSkel, singleStdArgs, batchStdArgs, singleCacheIndex, batchCacheIndex, bind, Except.bind, h1]
    by_cases hn : frames.length = 1
    · have hf := hw hn
      have hi0 : i = 0 := by omega
      subst hi0
      simp [hn, hf]
    · have hn' : ¬ ((frames.length : Int) = 1) := by omega
      simp only [hn', ↓reduceIte, pyIndex]
      have : ¬ ((i : Int) < 0) := by omega
      simp [this, hi]

theorem cached_frame_rejected {α} (sk : Skel) (hsk : sk = singleSkel ∨ sk = batchSkel) (frames : List α) (whole : α)
    (k : Int) (asIndex : Bool)
    (h : (if asIndex then k else k - 1) < 0 ∨ (frames.length : Int) ≤ (if asIndex then k else k - 1)) :
    sk.cached frames whole k asIndex = .error .index := by
  unfold Skel.cached Skel.index
  rcases hsk with rfl | rfl
  all_goals
    simp only [singleSkel, batchSkel, singleStdArgs, batchStdArgs, bind, Except.bind,
      frame_number_rejected k (frames.length : Int) asIndex h]

end HdVerif.PMapBase
