import HdVerif.Proofs.Aliasing
import HdVerif.Proofs.C20Tables
import HdVerif.Model.VR
import HdVerif.Generated.T20uid
import HdVerif.Generated.T20pkg
import HdVerif.Generated.T20calls
/-!
# Bridges between hand-written C20 definitions and expressions regenerated from the source

* `Model/VR.lean: fromUuid / renderUid` (hand-written: root followed by the decimal of the integer) vs the f-string of
  `UID.from_uuid` as it stands (`Gen.uuidRender`, regenerated part by part);
* `Model/AliasTables.lean: allEntries / allCtors` (hand-written concatenations of per-file tables, generated from hand-written file
  lists) vs a scan of **all** modules of the package (`Gen.pkgConverters`, `Gen.pkgConstructors`);
* the call rules of the alias extractor for nested converter calls (`translate/targets_C20.py`, hand-written) and
  `Model/AliasTables.lean: rebuildsContainer` (hand-written name list) vs the callees' own programs and signatures
  (`Gen.converterCalls`, `Gen.converterCopyDefaults`).
-/
set_option linter.unusedSimpArgs false
namespace HdVerif.C20Tie
open HdVerif HdVerif.VR HdVerif.Aliasing HdVerif.Gen

/-- the model of `UID.from_uuid` renders exactly the f-string of the source -/
theorem fromUuid_is_source_expression (n : Nat) :
    fromUuid uuidRoot n = if n < 2 ^ 128 then .ok (uuidRender n) else .error .value := by
  unfold fromUuid renderUid uuidRender
  have : uuidRoot.toList = "2.25.".toList := by decide
  split <;> simp [this]

/-- every converter a class of the package defines (scan of all modules) is in the converter tables -/
theorem converter_tables_cover_package : (pkgConverters.all fun n => tabled allEntries n) = true := by decide +kernel

/-- every constructor / alternative constructor of the package is in the constructor tables or on the explicit exclusion list -/
theorem constructor_tables_cover_package :
    (pkgConstructors.all fun n => tabled allCtors n || excludedConstructors.contains n) = true := by decide +kernel

/-- the entries a call `Callee.method(...)` as written can refer to -/
def entriesOf (n : String) : List Entry := allEntries.filter fun e => e.name == n || e.name == n ++ " (arms merged)"

/-- does the rule the extractor applies to a converter call agree with what the callee's own program does?  (Callees written as
`cls.` / `super().` / through a variable resolve to several classes and are covered by the two global facts below.) -/
def ruleAgrees (call : String × String) : Bool :=
  (entriesOf call.1).all fun e =>
    if call.2 == "rebuild" then e.hasCopy && rebuildsContainer e
    else if call.2 == "default" then
      -- no `copy` argument: a converter without the parameter never writes its input; one with it copies by default
      if e.hasCopy then copyLeavesOriginal e else neverWritesInputs e
    else if call.2 == "copy" then e.hasCopy && copyLeavesOriginal e
    else if call.2 == "inplace" || call.2 == "flag" then
      e.hasCopy && !rebuildsContainer e && nocopyReturnsSame e && copyLeavesOriginal e
    else call.2 == "private"

/-- the part of `ruleAgrees` that is about names and flags only (the behaviour of each entry was evaluated once, in its own
module under `Proofs/C20Tables/`) -/
def ruleFlags (call : String × String) : Bool :=
  (entriesOf call.1).all fun e =>
    if call.2 == "rebuild" then e.hasCopy && rebuildsContainer e
    else if call.2 == "default" then true
    else if call.2 == "copy" then e.hasCopy
    else if call.2 == "inplace" || call.2 == "flag" then e.hasCopy && !rebuildsContainer e
    else call.2 == "private"

private theorem flags_ok : (converterCalls.all ruleFlags) = true := by decide +kernel

/-- what `converterOk` says about an entry, spelled out -/
theorem facts_of_ok {e : Entry} (h : converterOk e = true) :
    (e.hasCopy = true → copyLeavesOriginal e = true ∧ (rebuildsContainer e == !nocopyReturnsSame e) = true ∧ 0 < e.nIn) ∧
    (e.hasCopy = false → neverWritesInputs e = true) ∧ wellFormed e = true := by
  unfold converterOk at h
  simp only [Bool.and_eq_true] at h
  refine ⟨fun hc => ?_, fun hc => ?_, h.1⟩
  · have h2 := h.2
    simp only [hc, cond_true, Bool.and_eq_true, decide_eq_true_eq] at h2
    exact ⟨h2.1.2, h2.2, h2.1.1⟩
  · have h2 := h.2
    simpa only [hc, cond_false] using h2

private theorem ruleAgrees_of_flags (call : String × String) (h : ruleFlags call = true) : ruleAgrees call = true := by
  unfold ruleAgrees
  unfold ruleFlags at h
  apply List.all_eq_true.mpr
  intro e he
  have hf := List.all_eq_true.mp h e he
  have hin : e ∈ allEntries := (List.mem_filter.mp he).1
  obtain ⟨hcopy, hno, _⟩ := facts_of_ok (C20Tables.entry_ok hin)
  cases hc : e.hasCopy
  · have h1 := hno hc
    simp only [hc, h1, Bool.false_and] at hf ⊢
    exact hf
  · obtain ⟨h1, h2, _⟩ := hcopy hc
    cases hr : rebuildsContainer e
    · rw [hr] at h2
      have h3 : nocopyReturnsSame e = true := by
        cases h4 : nocopyReturnsSame e
        · rw [h4] at h2; cases h2
        · rfl
      simp only [hc, hr, h1, h3, Bool.true_and, Bool.and_self, Bool.not_false, Bool.and_true] at hf ⊢
      exact hf
    · simp only [hc, hr, h1, Bool.true_and, Bool.and_self, Bool.not_true, Bool.and_false, Bool.false_and] at hf ⊢
      exact hf

/-- **call rules = callee behaviour**: for every converter call in the package, the rule the extractor models the call by is
what the callee's regenerated program does (returns its argument for `copy=False`, a new object otherwise; rebuilders exactly where
the rebuild rule is used) -/
theorem converter_call_rules_agree : (converterCalls.all ruleAgrees) = true := by
  apply List.all_eq_true.mpr
  intro call hcall
  exact ruleAgrees_of_flags call (List.all_eq_true.mp flags_ok call hcall)

/-- every converter's `copy` parameter defaults to `True` (so a call without the argument — also one through `cls`, `super()` or a
class held in a variable — copies) -/
theorem converter_copy_defaults_true : (converterCopyDefaults.all fun x => x.2) = true := by decide

/-- the hand-written list `rebuildsContainer` names exactly the converters whose program returns a new object for `copy=False` -/
theorem rebuilders_are_exactly_the_non_returning :
    (allEntries.all fun e => !e.hasCopy || (rebuildsContainer e == !nocopyReturnsSame e)) = true := by
  apply List.all_eq_true.mpr
  intro e he
  obtain ⟨hcopy, _, _⟩ := facts_of_ok (C20Tables.entry_ok he)
  cases hc : e.hasCopy
  · rfl
  · simp only [Bool.not_true, Bool.false_or]
    exact (hcopy hc).2.1

end HdVerif.C20Tie
