import HdVerif.Model.PixelPipeline
/-! The flag table of C06 checked cell by cell in the kernel (`decide +kernel`; no Mathlib needed). -/
namespace HdVerif.PixelFlags
open HdVerif HdVerif.Gen HdVerif.PixelPipeline

instance decForallTri {p : Tri → Prop} [DecidablePred p] : Decidable (∀ x, p x) :=
  if h1 : p .t then if h2 : p .f then if h3 : p .n then
    isTrue (by intro x; cases x <;> assumption)
  else isFalse (fun h => h3 (h _)) else isFalse (fun h => h2 (h _)) else isFalse (fun h => h1 (h _))

instance decForallCType {p : CType → Prop} [DecidablePred p] : Decidable (∀ x, p x) :=
  if h1 : p .mono then if h2 : p .color then if h3 : p .palette then
    isTrue (by intro x; cases x <;> assumption)
  else isFalse (fun h => h3 (h _)) else isFalse (fun h => h2 (h _)) else isFalse (fun h => h1 (h _))

/-- the whole table, cell by cell, in the kernel: 3^5 * 2 flag tuples x 3 colour types x 2^5 presence patterns -/
theorem flags_table_cells : ∀ (rw mod voi pal icc : Tri) (pres : Bool) (ct : CType) (a b c d e : Bool),
    toOpt (stageOutcome ⟨rw, mod, voi, pal, icc, pres⟩ ct ⟨a, b, c, d, e⟩)
      = specOutcome ⟨rw, mod, voi, pal, icc, pres⟩ ct ⟨a, b, c, d, e⟩ := by
  decide +kernel

/-- a stage flagged True is applied -/
def TrueApplied (fl : Flags) (st : Stages) : Prop :=
  (fl.rw = .t → st.rwvm = true) ∧ (fl.mod = .t → st.modality = true) ∧ (fl.voi = .t → st.voi = true) ∧
  (fl.pal = .t → st.palette = true) ∧ (fl.icc = .t → st.icc = true)

/-- a stage flagged False is never applied -/
def FalseNever (fl : Flags) (st : Stages) : Prop :=
  (fl.rw = .f → st.rwvm = false) ∧ (fl.mod = .f → st.modality = false) ∧ (fl.voi = .f → st.voi = false) ∧
  (fl.pal = .f → st.palette = false) ∧ (fl.icc = .f → st.icc = false) ∧ (fl.pres = false → st.invert = false)

/-- nothing that is absent from the datasets is applied -/
def OnlyPresent (p : Present) (st : Stages) : Prop :=
  (st.rwvm = true → p.rwvm = true) ∧ (st.modality = true → p.modality = true) ∧ (st.voi = true → p.voi = true) ∧
  (st.icc = true → p.icc = true) ∧ (st.invert = true → p.inverse = true)

/-- a stage flagged None is applied iff it is present (and applies to the colour type, and is not superseded) -/
def NoneIffPresent (fl : Flags) (ct : CType) (p : Present) (st : Stages) : Prop :=
  (fl.rw = .n → (st.rwvm = true ↔ (ct = .mono ∧ p.rwvm = true ∧ fl.mod ≠ .t))) ∧
  (fl.mod = .n → (st.modality = true ↔ (ct = .mono ∧ p.modality = true ∧ st.rwvm = false))) ∧
  (fl.voi = .n → (st.voi = true ↔ (ct = .mono ∧ p.voi = true ∧ st.rwvm = false))) ∧
  (fl.pal = .n → (st.palette = true ↔ ct = .palette)) ∧
  (fl.icc = .n → (st.icc = true ↔ (ct ≠ .mono ∧ p.icc = true))) ∧
  (fl.pres = true → (st.invert = true ↔ (ct = .mono ∧ p.inverse = true ∧ st.rwvm = false)))

/-- the real-world value map supersedes the other monochrome stages; colour types have their own stages -/
def Exclusive (ct : CType) (st : Stages) : Prop :=
  (st.rwvm = true → st.modality = false ∧ st.voi = false ∧ st.invert = false) ∧
  (ct ≠ .mono → st.rwvm = false ∧ st.modality = false ∧ st.voi = false ∧ st.invert = false) ∧
  (ct = .mono → st.palette = false ∧ st.icc = false)

instance (fl : Flags) (st : Stages) : Decidable (TrueApplied fl st) := by unfold TrueApplied; infer_instance
instance (fl : Flags) (st : Stages) : Decidable (FalseNever fl st) := by unfold FalseNever; infer_instance
instance (p : Present) (st : Stages) : Decidable (OnlyPresent p st) := by unfold OnlyPresent; infer_instance
instance (fl : Flags) (ct : CType) (p : Present) (st : Stages) : Decidable (NoneIffPresent fl ct p st) := by
  unfold NoneIffPresent; infer_instance
instance (ct : CType) (st : Stages) : Decidable (Exclusive ct st) := by unfold Exclusive; infer_instance

/-- consequences of the specification table alone (no translated code involved) -/
theorem spec_facts : ∀ (rw mod voi pal icc : Tri) (pres : Bool) (ct : CType) (a b c d e : Bool),
    ∀ st ∈ specOutcome ⟨rw, mod, voi, pal, icc, pres⟩ ct ⟨a, b, c, d, e⟩,
      TrueApplied ⟨rw, mod, voi, pal, icc, pres⟩ st ∧ FalseNever ⟨rw, mod, voi, pal, icc, pres⟩ st ∧
      OnlyPresent ⟨a, b, c, d, e⟩ st ∧ NoneIffPresent ⟨rw, mod, voi, pal, icc, pres⟩ ct ⟨a, b, c, d, e⟩ st ∧
      Exclusive ct st := by
  decide +kernel

/-- refusals of the table are exactly: contradictory flags, or a stage flagged True that cannot be applied -/
def SpecRefusal (fl : Flags) (ct : CType) (p : Present) : Prop :=
  (fl.rw = .t ∧ fl.mod = .t) ∨ (fl.rw ≠ .t ∧ fl.voi ≠ .f ∧ fl.mod = .f) ∨ (fl.icc ≠ .f ∧ fl.pal = .f) ∨
  (fl.rw = .t ∧ (ct ≠ .mono ∨ p.rwvm = false)) ∨
  (fl.mod = .t ∧ (ct ≠ .mono ∨ p.modality = false)) ∨
  (fl.voi = .t ∧ (ct ≠ .mono ∨ p.voi = false ∨ fl.rw = .t ∨ (fl.rw = .n ∧ fl.mod ≠ .t ∧ p.rwvm = true))) ∨
  (fl.pal = .t ∧ ct ≠ .palette) ∨
  (fl.icc = .t ∧ (ct = .mono ∨ p.icc = false))

instance (fl : Flags) (ct : CType) (p : Present) : Decidable (SpecRefusal fl ct p) := by
  unfold SpecRefusal; infer_instance

theorem spec_refusal : ∀ (rw mod voi pal icc : Tri) (pres : Bool) (ct : CType) (a b c d e : Bool),
    specOutcome ⟨rw, mod, voi, pal, icc, pres⟩ ct ⟨a, b, c, d, e⟩ = none
      ↔ SpecRefusal ⟨rw, mod, voi, pal, icc, pres⟩ ct ⟨a, b, c, d, e⟩ := by
  decide +kernel

end HdVerif.PixelFlags
