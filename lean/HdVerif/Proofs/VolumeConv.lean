import HdVerif.Proofs.VolumeAccess
import HdVerif.Proofs.VolumeOrient
/-! C08 (round 2, later): `get_affine(output_convention)` — specification and bridge to the source run on symbols (T9p). -/
namespace HdVerif.VolLemmas
open HdVerif HdVerif.Gen HdVerif.Vol

theorem coord_pos (d : Dir) (g : Geom) (j : I3) :
    d.coord (g.pos j) = d.coord g.t + (j.i0 : Rat) * d.coord g.c0 + ((j.i1 : Rat) * d.coord g.c1 + (j.i2 : Rat) * d.coord g.c2) := by
  cases d <;> simp [Dir.coord, Geom.pos, V3.add, V3.smul] <;> ring

/-- **`get_affine(o)` maps every index to the same physical point, expressed in convention `o`** -/
theorem inConvention_pos (g : Geom) (o : Orient) (j : I3) : (g.inConvention o).pos j = convPoint o (g.pos j) := by
  apply V3.ext'
  · simp only [convPoint, coord_pos]; simp [Geom.inConvention, Geom.pos, convPoint, V3.add, V3.smul]
  · simp only [convPoint, coord_pos]; simp [Geom.inConvention, Geom.pos, convPoint, V3.add, V3.smul]
  · simp only [convPoint, coord_pos]; simp [Geom.inConvention, Geom.pos, convPoint, V3.add, V3.smul]

/-- **Bridge (T9p)**: for each of the 48 conventions the current source of `_transform_affine_to_convention` (from L, P, H),
run on a symbolic affine, gives exactly the rows of `Geom.inConvention` -/
theorem convAffine_is_inConvention (g : Geom) (o : Orient) (ho : o ∈ allOrients) :
    convAffine o.1.code o.2.1.code o.2.2.code g.entry = some (g.inConvention o).rows12 := by
  obtain ⟨a, b, c⟩ := o
  cases a <;> cases b <;> cases c <;>
    first
    | (exfalso; revert ho; decide)
    | (simp [convAffine, Dir.code, Geom.inConvention, convPoint, Dir.coord, Geom.rows12, Geom.entry])

end HdVerif.VolLemmas
