import HdVerif.Proofs.VolumeOrient
/-! C08 (round 2, later): `get_closest_patient_orientation` and `to_patient_orientation` for EVERY geometry (rotated ones
included): the greedy rule of the code, that it always yields one of the 48 orientations, and what the re-orientation does. -/
namespace HdVerif.VolLemmas
open HdVerif HdVerif.Gen HdVerif.Vol

/-- `sortRows`: the three rows, each once, by non-increasing magnitude of the column's entry -/
theorem sortRows_spec (v : V3) :
    (sortRows v).1 ≠ (sortRows v).2.1 ∧ (sortRows v).1 ≠ (sortRows v).2.2 ∧ (sortRows v).2.1 ≠ (sortRows v).2.2 ∧
    absR (v.get (sortRows v).2.1) ≤ absR (v.get (sortRows v).1) ∧ absR (v.get (sortRows v).2.2) ≤ absR (v.get (sortRows v).2.1) := by
  by_cases h1 : absR v.x < absR v.y <;> by_cases h2 : absR v.y < absR v.z <;> by_cases h3 : absR v.x < absR v.z <;>
    simp [sortRows, insertDesc, h1, h2, h3, V3.get] <;> (try constructor) <;> linarith

/-- the rows `get_closest_patient_orientation` assigns to the three columns (greedy, in column order) -/
def closestRows (g : Geom) : Ax × Ax × Ax :=
  let r0 := pickRow (sortRows g.c0) []
  let r1 := pickRow (sortRows g.c1) [r0]
  let r2 := pickRow (sortRows g.c2) [r0, r1]
  (r0, r1, r2)

theorem closest_eq_rows (g : Geom) :
    closest g = (dirOf g.c0 (closestRows g).1, dirOf g.c1 (closestRows g).2.1, dirOf g.c2 (closestRows g).2.2) := by
  simp only [closest, closestRows]

theorem ax_three {a b c : Ax} (h1 : a ≠ b) (h2 : a ≠ c) (h3 : b ≠ c) (r : Ax) : r = a ∨ r = b ∨ r = c := by
  cases a <;> cases b <;> cases c <;> cases r <;> simp_all

/-- **the greedy rule of `get_closest_patient_orientation`, for every affine**: column 0 gets the row of its largest entry
(magnitude); column 1 the row of its largest entry among the rows still free; column 2 the remaining row; the three rows are
distinct -/
theorem closestRows_greedy (g : Geom) :
    let r := closestRows g
    (∀ x, absR (g.c0.get x) ≤ absR (g.c0.get r.1)) ∧
    r.2.1 ≠ r.1 ∧ (∀ x, x ≠ r.1 → absR (g.c1.get x) ≤ absR (g.c1.get r.2.1)) ∧
    r.2.2 ≠ r.1 ∧ r.2.2 ≠ r.2.1 := by
  obtain ⟨a1, a2, a3, a4, a5⟩ := sortRows_spec g.c0
  obtain ⟨b1, b2, b3, b4, b5⟩ := sortRows_spec g.c1
  obtain ⟨c1, c2, c3, _, _⟩ := sortRows_spec g.c2
  simp only [closestRows]
  have p0 : pickRow (sortRows g.c0) [] = (sortRows g.c0).1 := pickRow_first (by simp)
  rw [p0]
  refine ⟨?_, ?_⟩
  · intro x
    rcases ax_three a1 a2 a3 x with rfl | rfl | rfl
    · exact le_refl _
    · exact a4
    · exact le_trans a5 a4
  · generalize (sortRows g.c0).1 = r0
    -- column 1
    have hr1 : pickRow (sortRows g.c1) [r0] ≠ r0 ∧ ∀ x, x ≠ r0 → absR (g.c1.get x) ≤ absR (g.c1.get (pickRow (sortRows g.c1) [r0])) := by
      simp only [pickRow, List.contains_cons, List.contains_nil, Bool.or_false]
      by_cases e1 : (sortRows g.c1).1 = r0
      · have e2 : (sortRows g.c1).2.1 ≠ r0 := fun h => b1 (e1.trans h.symm)
        have k1 : ((sortRows g.c1).1 == r0) = true := by simpa using e1
        have k2 : ((sortRows g.c1).2.1 == r0) = false := by simpa using e2
        simp only [k1, k2, Bool.not_true, Bool.false_eq_true, if_false, Bool.not_false, if_true]
        refine ⟨e2, fun x hx => ?_⟩
        rcases ax_three b1 b2 b3 x with rfl | rfl | rfl
        · exact absurd e1 hx
        · exact le_refl _
        · exact b5
      · have k1 : ((sortRows g.c1).1 == r0) = false := by simpa using e1
        simp only [k1, Bool.not_false, if_true]
        refine ⟨e1, fun x _ => ?_⟩
        rcases ax_three b1 b2 b3 x with rfl | rfl | rfl
        · exact le_refl _
        · exact b4
        · exact le_trans b5 b4
    obtain ⟨h10, h1max⟩ := hr1
    refine ⟨h10, h1max, ?_⟩
    generalize pickRow (sortRows g.c1) [r0] = r1 at h10 ⊢
    -- column 2: the first of its three distinct rows that is neither r0 nor r1
    simp only [pickRow, List.contains_cons, List.contains_nil, Bool.or_false]
    generalize (sortRows g.c2).1 = x at c1 c2 ⊢
    generalize (sortRows g.c2).2.1 = y at c1 c3 ⊢
    generalize (sortRows g.c2).2.2 = z at c2 c3 ⊢
    cases x <;> cases y <;> cases z <;> cases r0 <;> cases r1 <;> simp_all

/-- an orientation whose three letters lie on three different patient axes is one of the 48 -/
theorem mem_allOrients_of_rows (o : Orient) (h : o.1.row ≠ o.2.1.row ∧ o.1.row ≠ o.2.2.row ∧ o.2.1.row ≠ o.2.2.row) :
    o ∈ allOrients := by
  obtain ⟨a, b, c⟩ := o
  cases a <;> cases b <;> cases c <;> first | (exfalso; simp [Dir.row] at h; done) | decide

theorem dirOf_row (v : V3) (r : Ax) : (dirOf v r).row = r := by
  unfold dirOf
  split <;> cases r <;> rfl

/-- **`get_closest_patient_orientation` always answers with one of the 48 orientations** — for every affine, however rotated -/
theorem closest_mem_allOrients (g : Geom) : closest g ∈ allOrients := by
  obtain ⟨_, h1, _, h2, h3⟩ := closestRows_greedy g
  apply mem_allOrients_of_rows
  rw [closest_eq_rows]
  simp only [dirOf_row]
  exact ⟨fun h => h1 h.symm, fun h => h2 h.symm, fun h => h3 h.symm⟩

/-- **`to_patient_orientation` on every geometry** (PATIENT coordinate system, any rotation): every one of the 48 requests is
accepted; output axis `k` is input axis `j_k` (a permutation), reversed or not, such that the letter the closest orientation
gave axis `j_k` — reversed if the axis is — is the requested letter `des_k` -/
theorem toPatientOrientation_all (sz : AxMap → Int) {g : Geom} {des : Orient} (hd : des ∈ allOrients) (hp : g.Pos) :
    ∃ r q, ∃ f0 f1 f2 : Bool, toOrientationG sz .patient g (orientChars des) = .ok r ∧ PermValid q ∧
      r.1.c0 = V3.smul (if f0 then -1 else 1) (g.col q.1) ∧ r.1.c1 = V3.smul (if f1 then -1 else 1) (g.col q.2.1) ∧
      r.1.c2 = V3.smul (if f2 then -1 else 1) (g.col q.2.2) ∧
      (if f0 then (orientGet (closest g) q.1).opp else orientGet (closest g) q.1) = des.1 ∧
      (if f1 then (orientGet (closest g) q.2.1).opp else orientGet (closest g) q.2.1) = des.2.1 ∧
      (if f2 then (orientGet (closest g) q.2.2).opp else orientGet (closest g) q.2.2) = des.2.2 := by
  have hc := closest_mem_allOrients g
  have hplan := List.all_eq_true.mp (List.all_eq_true.mp plan_48x48 (closest g) hc) des hd
  unfold planOk at hplan
  simp only [Bool.and_eq_true] at hplan
  obtain ⟨hn, hrest⟩ := hplan
  split at hn
  · rename_i d hnd
    have hde : d = des := by simpa using hn
    subst hde
    split at hrest
    · cases hrest
    · rename_i perm flips hpl
      simp only [Bool.and_eq_true, Bool.not_eq_true'] at hrest
      obtain ⟨hf, hrest⟩ := hrest
      split at hrest
      · cases hrest
      · rename_i q hq
        simp only [Bool.and_eq_true, beq_iff_eq] at hrest
        obtain ⟨⟨e0, e1⟩, e2⟩ := hrest
        obtain ⟨r, hr, c0, c1, c2⟩ := toOrientationG_result sz hp hnd hpl hf hq
        exact ⟨r, q, flips.contains q.1.toInt, flips.contains q.2.1.toInt, flips.contains q.2.2.toInt, hr,
          permOfList_valid hq, c0, c1, c2, e0, e1, e2⟩
  · cases hn

end HdVerif.VolLemmas
