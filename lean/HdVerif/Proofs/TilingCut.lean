import HdVerif.Proofs.TilingRegion
/-! Cutting a matrix into tiles (`get_tile_array`, the tiling loop of the Segmentation constructor) and
reading it back. -/
namespace HdVerif.TilingLemmas
open HdVerif HdVerif.Gen HdVerif.Tiling

/-! ## The tile helpers (T6, T7b) -/

theorem tilesPerAxisFloor_eq (tr tc R C : Int) (hr : 1 ≤ tr) (hc : 1 ≤ tc) :
    tilesPerAxisFloor tr tc R C = .ok (nTiles C tc, nTiles R tr) := by
  unfold tilesPerAxisFloor nTiles
  simp only [fdiv_pos _ _ (show 0 < tr by omega), fdiv_pos _ _ (show 0 < tc by omega)]

theorem nTiles_pos (n t : Int) (hn : 1 ≤ n) (ht : 1 ≤ t) : 1 ≤ nTiles n t := by
  unfold nTiles
  have := Int.ediv_nonneg (show 0 ≤ n - 1 by omega) (show 0 ≤ t by omega)
  omega

/-- `compute_tile_positions_per_frame` enumerates the grid row-major, as (column offset, row offset) -/
theorem tileOffsets_eq (tr tc R C : Int) (hr : 1 ≤ tr) (hc : 1 ≤ tc) (hR : 1 ≤ R) (hC : 1 ≤ C) :
    tileOffsets tr tc R C = .ok ((gridPos R C tr tc).map (fun p => (p.2, p.1))) := by
  unfold tileOffsets
  rw [if_neg (by omega), tilesPerAxisFloor_eq tr tc R C hr hc]
  simp only
  rw [if_neg (by have := nTiles_pos R tr hR hr; have := nTiles_pos C tc hC hc; omega)]
  unfold gridPos
  simp only [List.map_flatMap, List.map_map]
  congr 1
  apply List.flatMap_congr
  intro i _
  apply List.map_congr_left
  intro j _
  simp only [Function.comp]
  rw [Int.mul_comm j tc, Int.mul_comm i tr, Int.add_comm (tc * j) 1, Int.add_comm (tr * i) 1]

/-- `get_tile_array` at a grid position inside the matrix: succeeds, holds the matrix under the tile and
zeros in the padding -/
theorem getTileArray_spec {α} (z : α) (M : Img α) (R C ro co tr tc : Int) (hr : 1 ≤ tr) (hc : 1 ≤ tc)
    (h1 : 1 ≤ ro) (h2 : ro ≤ R) (h3 : 1 ≤ co) (h4 : co ≤ C) :
    ∃ fr, getTileArray z M R C ro co tr tc = .ok fr ∧
      ∀ a b, 0 ≤ a → a < tr → 0 ≤ b → b < tc →
        fr a b = if ro - 1 + a < R ∧ co - 1 + b < C then M (ro - 1 + a) (co - 1 + b) else z := by
  unfold getTileArray
  cases hb : tileArrayBounds ro co tr tc R C with
  | error e =>
    exfalso
    unfold tileArrayBounds at hb
    grind
  | ok v =>
    obtain ⟨r0, r1, c0, c1, pr, pc⟩ := v
    have hs : r0 = ro - 1 ∧ r1 = min (ro - 1 + tr) R ∧ c0 = co - 1 ∧ c1 = min (co - 1 + tc) C ∧ 0 ≤ pr ∧ 0 ≤ pc := by
      unfold tileArrayBounds at hb
      grind
    obtain ⟨e1, e2, e3, e4, e5, e6⟩ := hs
    simp only
    rw [if_neg (by omega)]
    refine ⟨_, rfl, ?_⟩
    intro a b ha0 ha1 hb0 hb1
    subst e1 e2 e3 e4
    rw [pyNorm_id _ _ (by omega) (by omega), pyNorm_id _ _ (by omega) (by omega), pyNorm_id _ _ (by omega) (by omega),
      pyNorm_id _ _ (by omega) (by omega)]
    by_cases hin : ro - 1 + a < R ∧ co - 1 + b < C
    · rw [if_pos hin, if_pos (by omega)]
    · rw [if_neg hin, if_neg (by omega)]


/-- … and has the shape of a frame -/
theorem getTileShape_spec (R C ro co tr tc : Int) (hr : 1 ≤ tr) (hc : 1 ≤ tc)
    (h1 : 1 ≤ ro) (h2 : ro ≤ R) (h3 : 1 ≤ co) (h4 : co ≤ C) : getTileShape R C ro co tr tc = .ok (tr, tc) := by
  unfold getTileShape
  cases hb : tileArrayBounds ro co tr tc R C with
  | error e => exfalso; unfold tileArrayBounds at hb; grind
  | ok v =>
    obtain ⟨r0, r1, c0, c1, pr, pc⟩ := v
    have hh : r0 = ro - 1 ∧ r1 = min (ro - 1 + tr) R ∧ c0 = co - 1 ∧ c1 = min (co - 1 + tc) C ∧
        pr = ro - 1 + tr - min (ro - 1 + tr) R ∧ pc = co - 1 + tc - min (co - 1 + tc) C := by
      unfold tileArrayBounds at hb
      grind
    obtain ⟨rfl, rfl, rfl, rfl, rfl, rfl⟩ := hh
    simp only
    rw [if_neg (by omega), pyNorm_id _ _ (by omega) (by omega), pyNorm_id _ _ (by omega) (by omega),
      pyNorm_id _ _ (by omega) (by omega), pyNorm_id _ _ (by omega) (by omega)]
    congr 2 <;> omega

/-- `mapM` in `Except`: a successful result has the same length and is pointwise the successful image -/
theorem mapM_ok_spec {β γ} (f : β → Except ErrKind γ) : ∀ (l : List β) (l' : List γ), l.mapM f = .ok l' →
    l'.length = l.length ∧ ∀ (i : Nat) (x : β), l[i]? = some x → ∃ y, l'[i]? = some y ∧ f x = .ok y := by
  intro l
  induction l with
  | nil =>
    intro l' h
    simp only [List.mapM_nil, pure, Except.pure, Except.ok.injEq] at h
    subst h; simp
  | cons a l ih =>
    intro l' h
    rw [List.mapM_cons] at h
    simp only [bind, Except.bind, pure, Except.pure] at h
    cases ha : f a with
    | error e => simp [ha] at h
    | ok y =>
      rw [ha] at h
      simp only at h
      cases hl : l.mapM f with
      | error e => simp [hl] at h
      | ok ys =>
        rw [hl] at h
        simp only [Except.ok.injEq] at h
        subst h
        obtain ⟨i1, i2⟩ := ih ys hl
        refine ⟨by simp [i1], ?_⟩
        intro i x hx
        cases i with
        | zero =>
          simp only [List.getElem?_cons_zero, Option.some.injEq] at hx
          subst hx
          exact ⟨y, by simp, ha⟩
        | succ i =>
          simp only [List.getElem?_cons_succ] at hx ⊢
          exact i2 i x hx

/-- `mapM` in `Except` succeeds when the function succeeds on every element -/
theorem mapM_total {β γ} (f : β → Except ErrKind γ) (l : List β) (h : ∀ x ∈ l, ∃ y, f x = .ok y) : ∃ l', l.mapM f = .ok l' := by
  induction l with
  | nil => exact ⟨[], rfl⟩
  | cons a l ih =>
    obtain ⟨y, hy⟩ := h a (by simp)
    obtain ⟨ys, hys⟩ := ih (fun x hx => h x (by simp [hx]))
    refine ⟨y :: ys, ?_⟩
    rw [List.mapM_cons, hy, hys]
    rfl

theorem mem_iota' (n k : Int) : k ∈ iota n ↔ 0 ≤ k ∧ k < n := mem_iota n k

theorem imgAllZero_spec {α} [BEq α] [LawfulBEq α] (z : α) (t : Img α) (h w : Int) (hz : imgAllZero z t h w = true)
    (i j : Int) (hi0 : 0 ≤ i) (hi1 : i < h) (hj0 : 0 ≤ j) (hj1 : j < w) : t i j = z := by
  unfold imgAllZero at hz
  rw [List.all_eq_true] at hz
  have := hz i ((mem_iota h i).mpr ⟨hi0, hi1⟩)
  rw [List.all_eq_true] at this
  have := this j ((mem_iota w j).mpr ⟨hj0, hj1⟩)
  exact eq_of_beq this


/-- what the tiling loop produces for one segment -/
theorem cutTilesAux_spec {α} (z : α) (M : Img α) (R C tr tc ch : Int) (offs : List (Int × Int)) :
    ∀ (keep : List Bool) (base : Nat) (rows : List LutRow) (frs : List (Img α)),
    cutTilesAux z M R C tr tc ch offs keep base = .ok (rows, frs) →
    rows.length = frs.length ∧
    (rows.map (fun r => (r.cp, r.rp))).Sublist offs ∧
    (∀ r ∈ rows, r.ch = ch ∧ base ≤ r.fi ∧ r.fi < base + frs.length ∧
      ∃ fr, frs[r.fi - base]? = some fr ∧ getTileArray z M R C r.rp r.cp tr tc = .ok fr) ∧
    (∀ (t : Nat) (o : Int × Int), offs[t]? = some o → keep[t]? = some true → ∃ r ∈ rows, (r.cp, r.rp) = o) := by
  induction offs with
  | nil =>
    intro keep base rows frs h
    unfold cutTilesAux at h
    simp only [Except.ok.injEq, Prod.mk.injEq] at h
    obtain ⟨rfl, rfl⟩ := h
    simp
  | cons o offs ih =>
    intro keep base rows frs h
    obtain ⟨co, ro⟩ := o
    cases keep with
    | nil => simp [cutTilesAux] at h
    | cons k ks =>
      unfold cutTilesAux at h
      cases k with
      | true =>
        simp only [if_true] at h
        cases hg : getTileArray z M R C ro co tr tc with
        | error e => simp [hg] at h
        | ok t =>
          rw [hg] at h
          simp only at h
          split at h
          · simp at h
          cases hrec : cutTilesAux z M R C tr tc ch offs ks (base + 1) with
          | error e => simp [hrec] at h
          | ok v =>
            obtain ⟨rows', frs'⟩ := v
            rw [hrec] at h
            simp only [Except.ok.injEq, Prod.mk.injEq] at h
            obtain ⟨rfl, rfl⟩ := h
            obtain ⟨i1, i2, i3, i4⟩ := ih ks (base + 1) rows' frs' hrec
            refine ⟨by simp [i1], ?_, ?_, ?_⟩
            · simp only [List.map_cons]
              exact List.Sublist.cons_cons _ i2
            · intro r hr
              rcases List.mem_cons.mp hr with rfl | hr'
              · refine ⟨rfl, Nat.le_refl _, by simp, t, by simp, hg⟩
              · obtain ⟨a1, a2, a3, fr, a4, a5⟩ := i3 r hr'
                refine ⟨a1, by omega, by simp; omega, fr, ?_, a5⟩
                have : r.fi - base = (r.fi - (base + 1)) + 1 := by omega
                rw [this, List.getElem?_cons_succ]
                exact a4
            · intro t' o' ho hk
              cases t' with
              | zero =>
                simp only [List.getElem?_cons_zero, Option.some.injEq] at ho
                exact ⟨_, List.mem_cons_self, ho⟩
              | succ t' =>
                simp only [List.getElem?_cons_succ] at ho hk
                obtain ⟨r, hr, he⟩ := i4 t' o' ho hk
                exact ⟨r, List.mem_cons_of_mem _ hr, he⟩
      | false =>
        simp only [Bool.false_eq_true, if_false] at h
        obtain ⟨i1, i2, i3, i4⟩ := ih ks base rows frs h
        refine ⟨i1, List.Sublist.cons _ i2, i3, ?_⟩
        intro t' o' ho hk
        cases t' with
        | zero => simp at hk
        | succ t' =>
          simp only [List.getElem?_cons_succ] at ho hk
          exact i4 t' o' ho hk

/-- what the tiling loop of the constructor produces for all segments -/
theorem cutSegments_spec {α} (z : α) (R C tr tc : Int) (offs : List (Int × Int)) :
    ∀ (Ms : List (Int × Img α)) (keep : List (List Bool)) (base : Nat) (rows : List LutRow) (frames : List (Img α)),
    cutSegments z R C tr tc offs Ms keep base = .ok (rows, frames) →
    (∀ r ∈ rows, (r.cp, r.rp) ∈ offs ∧ base ≤ r.fi ∧ ∃ m ∈ Ms, r.ch = m.1 ∧
      ∃ fr, frames[r.fi - base]? = some fr ∧ getTileArray z m.2 R C r.rp r.cp tr tc = .ok fr) ∧
    (offs.Nodup → (Ms.map Prod.fst).Nodup → (rows.map key3).Nodup) ∧
    (∀ (s : Nat) (m : Int × Img α) (k : List Bool), Ms[s]? = some m → keep[s]? = some k →
      ∀ (t : Nat) (o : Int × Int), offs[t]? = some o → k[t]? = some true → ∃ r ∈ rows, r.ch = m.1 ∧ (r.cp, r.rp) = o) := by
  intro Ms
  induction Ms with
  | nil =>
    intro keep base rows frames h
    unfold cutSegments at h
    simp only [Except.ok.injEq, Prod.mk.injEq] at h
    obtain ⟨rfl, rfl⟩ := h
    simp
  | cons m Ms ih =>
    intro keep base rows frames h
    obtain ⟨ch, M⟩ := m
    cases keep with
    | nil => simp [cutSegments] at h
    | cons k ks =>
      unfold cutSegments at h
      cases h1 : cutTilesAux z M R C tr tc ch offs k base with
      | error e => simp [h1] at h
      | ok v =>
        obtain ⟨rows1, frs1⟩ := v
        rw [h1] at h
        simp only at h
        cases h2 : cutSegments z R C tr tc offs Ms ks (base + frs1.length) with
        | error e => simp [h2] at h
        | ok v =>
          obtain ⟨rows2, frs2⟩ := v
          rw [h2] at h
          simp only [Except.ok.injEq, Prod.mk.injEq] at h
          obtain ⟨rfl, rfl⟩ := h
          obtain ⟨a1, a2, a3, a4⟩ := cutTilesAux_spec z M R C tr tc ch offs k base rows1 frs1 h1
          obtain ⟨b1, b2, b3⟩ := ih ks (base + frs1.length) rows2 frs2 h2
          refine ⟨?_, ?_, ?_⟩
          · intro r hr
            rcases List.mem_append.mp hr with hr1 | hr2
            · obtain ⟨c1, c2, c3, fr, c4, c5⟩ := a3 r hr1
              refine ⟨a2.subset (List.mem_map_of_mem (f := fun r : LutRow => (r.cp, r.rp)) hr1), c2, (ch, M), by simp, c1, fr, ?_, c5⟩
              rw [List.getElem?_append_left (by omega)]
              exact c4
            · obtain ⟨c1, c2, m, hm, c3, fr, c4, c5⟩ := b1 r hr2
              refine ⟨c1, by omega, m, by simp [hm], c3, fr, ?_, c5⟩
              rw [List.getElem?_append_right (by omega)]
              have : r.fi - base - frs1.length = r.fi - (base + frs1.length) := by omega
              rw [this]
              exact c4
          · intro hnd hms
            rw [List.map_cons, List.nodup_cons] at hms
            rw [List.map_append, List.nodup_append]
            refine ⟨?_, b2 hnd hms.2, ?_⟩
            · have : (rows1.map (fun r : LutRow => (r.cp, r.rp))).Nodup := List.Nodup.sublist a2 hnd
              have e : rows1.map (fun r : LutRow => (r.cp, r.rp)) = (rows1.map key3).map (fun k => (k.2.1, k.1)) := by
                rw [List.map_map]; rfl
              rw [e] at this
              exact List.Nodup.of_map _ this
            · intro x hx y hy hxy
              obtain ⟨r, hr, rfl⟩ := List.mem_map.mp hx
              obtain ⟨r', hr', rfl⟩ := List.mem_map.mp hy
              have e1 := (a3 r hr).1
              obtain ⟨_, _, m', hm', e2, _⟩ := b1 r' hr'
              have : r.ch = r'.ch := by
                unfold key3 at hxy
                simp only [Prod.mk.injEq] at hxy
                exact hxy.2.2
              apply hms.1
              rw [List.mem_map]
              exact ⟨m', hm', by omega⟩
          · intro s m' k' hs hk t o ho hkt
            cases s with
            | zero =>
              simp only [List.getElem?_cons_zero, Option.some.injEq] at hs hk
              subst hs hk
              obtain ⟨r, hr, he⟩ := a4 t o ho hkt
              exact ⟨r, List.mem_append_left _ hr, (a3 r hr).1, he⟩
            | succ s =>
              simp only [List.getElem?_cons_succ] at hs hk
              obtain ⟨r, hr, he⟩ := b3 s m' k' hs hk t o ho hkt
              exact ⟨r, List.mem_append_right _ hr, he⟩

theorem allTrue_getElem (ne : List (List Bool)) (s t : Nat) (k : List Bool) (b : Bool)
    (hk : (ne.map (fun l => l.map (fun _ => true)))[s]? = some k) (hb : k[t]? = some b) : b = true := by
  rw [List.getElem?_map] at hk
  cases hne : ne[s]? with
  | none => simp [hne] at hk
  | some l =>
    simp only [hne, Option.map_some, Option.some.injEq] at hk
    subst hk
    rw [List.getElem?_map] at hb
    cases hl : l[t]? with
    | none => simp [hl] at hb
    | some x => simp [hl] at hb; exact hb.symm ▸ rfl

theorem keepMask_spec {α} [BEq α] (z : α) (Ms : List (Int × Img α)) (R C tr tc : Int) (offs : List (Int × Int)) (omitEmpty : Bool)
    (keep : List (List Bool)) (h : keepMask z Ms R C tr tc offs omitEmpty = .ok keep) :
    keep.length = Ms.length ∧ (∀ (s : Nat) (k : List Bool), keep[s]? = some k → k.length = offs.length) ∧
    (∀ (s t : Nat) (m : Int × Img α) (k : List Bool) (o : Int × Int), Ms[s]? = some m → keep[s]? = some k → offs[t]? = some o →
      k[t]? = some false → ∃ tile, getTileArray z m.2 R C o.2 o.1 tr tc = .ok tile ∧ imgAllZero z tile tr tc = true) ∧
    (omitEmpty = false → ∀ (s t : Nat) (k : List Bool) (b : Bool), keep[s]? = some k → k[t]? = some b → b = true) := by
  unfold keepMask at h
  cases hne : Ms.mapM (fun m => offs.mapM (tileNonEmpty z R C tr tc m)) with
  | error e => rw [hne] at h; simp at h
  | ok ne =>
    rw [hne] at h
    simp only at h
    obtain ⟨n1, n2⟩ := mapM_ok_spec _ Ms ne hne
    -- facts about `ne`
    have lenrow : ∀ (s : Nat) (k : List Bool), ne[s]? = some k → k.length = offs.length := by
      intro s k hk
      have hs : s < Ms.length := by
        have := (List.getElem?_eq_some_iff.mp hk).1; omega
      obtain ⟨y, hy1, hy2⟩ := n2 s Ms[s] (List.getElem?_eq_getElem hs)
      rw [hk] at hy1
      simp only [Option.some.injEq] at hy1
      subst hy1
      exact (mapM_ok_spec _ offs k hy2).1
    have zero : ∀ (s t : Nat) (m : Int × Img α) (k : List Bool) (o : Int × Int), Ms[s]? = some m → ne[s]? = some k → offs[t]? = some o →
        k[t]? = some false → ∃ tile, getTileArray z m.2 R C o.2 o.1 tr tc = .ok tile ∧ imgAllZero z tile tr tc = true := by
      intro s t m k o hm hk ho hkt
      obtain ⟨y, hy1, hy2⟩ := n2 s m hm
      rw [hk] at hy1
      simp only [Option.some.injEq] at hy1
      subst hy1
      obtain ⟨b, hb1, hb2⟩ := (mapM_ok_spec _ offs k hy2).2 t o ho
      rw [hkt] at hb1
      simp only [Option.some.injEq] at hb1
      subst hb1
      unfold tileNonEmpty at hb2
      cases hg : getTileArray z m.2 R C o.2 o.1 tr tc with
      | error e => rw [hg] at hb2; simp at hb2
      | ok tile =>
        rw [hg] at hb2
        simp only [Except.ok.injEq, Bool.not_eq_false'] at hb2
        exact ⟨tile, rfl, hb2⟩
    have allT : ∀ (keep : List (List Bool)), keep = ne.map (fun l => l.map (fun _ => true)) →
        keep.length = Ms.length ∧ (∀ (s : Nat) (k : List Bool), keep[s]? = some k → k.length = offs.length) ∧
        (∀ (s t : Nat) (k : List Bool) (b : Bool), keep[s]? = some k → k[t]? = some b → b = true) := by
      intro keep hkeep
      subst hkeep
      refine ⟨by simp [n1], ?_, fun s t k b hk hb => allTrue_getElem ne s t k b hk hb⟩
      intro s k hk
      rw [List.getElem?_map] at hk
      cases hs : ne[s]? with
      | none => simp [hs] at hk
      | some l =>
        simp only [hs, Option.map_some, Option.some.injEq] at hk
        subst hk
        simp [lenrow s l hs]
    by_cases ho : omitEmpty = true
    · subst ho
      simp only [Bool.not_true, Bool.false_eq_true, if_false] at h
      split at h
      · simp only [Except.ok.injEq] at h
        obtain ⟨a1, a2, a3⟩ := allT keep h.symm
        refine ⟨a1, a2, ?_, by intro hc; cases hc⟩
        intro s t m k o _ hk _ hkt
        have := a3 s t k false hk hkt
        cases this
      · simp only [Except.ok.injEq] at h
        subst h
        exact ⟨n1, lenrow, zero, by intro hc; cases hc⟩
    · have ho' : omitEmpty = false := by simpa using ho
      subst ho'
      simp only [Bool.not_false, if_true, Except.ok.injEq] at h
      obtain ⟨a1, a2, a3⟩ := allT keep h.symm
      refine ⟨a1, a2, ?_, fun _ => a3⟩
      intro s t m k o _ hk _ hkt
      have := a3 s t k false hk hkt
      cases this


theorem cutTilesAux_total {α} (z : α) (M : Img α) (R C tr tc ch : Int) (offs : List (Int × Int)) :
    ∀ (keep : List Bool) (base : Nat), keep.length = offs.length →
    (∀ o ∈ offs, (∃ t, getTileArray z M R C o.2 o.1 tr tc = .ok t) ∧ getTileShape R C o.2 o.1 tr tc = .ok (tr, tc)) →
    ∃ rows frs, cutTilesAux z M R C tr tc ch offs keep base = .ok (rows, frs) := by
  induction offs with
  | nil => intro keep base _ _; exact ⟨[], [], by unfold cutTilesAux; rfl⟩
  | cons o offs ih =>
    intro keep base hl hg
    obtain ⟨co, ro⟩ := o
    cases keep with
    | nil => simp at hl
    | cons k ks =>
      unfold cutTilesAux
      cases k with
      | true =>
        obtain ⟨⟨t, ht⟩, hsh⟩ := hg (co, ro) (by simp)
        obtain ⟨rows, frs, hrec⟩ := ih ks (base + 1) (by simpa using hl) (fun o ho => hg o (by simp [ho]))
        simp only [if_true]
        rw [ht]
        simp only at hsh ⊢
        rw [if_neg (by rw [hsh]; simp), hrec]
        exact ⟨_, _, rfl⟩
      | false =>
        simp only [Bool.false_eq_true, if_false]
        exact ih ks base (by simpa using hl) (fun o ho => hg o (by simp [ho]))

theorem cutSegments_total {α} (z : α) (R C tr tc : Int) (offs : List (Int × Int)) :
    ∀ (Ms : List (Int × Img α)) (keep : List (List Bool)) (base : Nat), keep.length = Ms.length →
    (∀ (s : Nat) (k : List Bool), keep[s]? = some k → k.length = offs.length) →
    (∀ m ∈ Ms, ∀ o ∈ offs, (∃ t, getTileArray z m.2 R C o.2 o.1 tr tc = .ok t) ∧ getTileShape R C o.2 o.1 tr tc = .ok (tr, tc)) →
    ∃ rows frames, cutSegments z R C tr tc offs Ms keep base = .ok (rows, frames) := by
  intro Ms
  induction Ms with
  | nil => intro keep base _ _ _; exact ⟨[], [], by unfold cutSegments; rfl⟩
  | cons m Ms ih =>
    intro keep base hl hk hg
    obtain ⟨ch, M⟩ := m
    cases keep with
    | nil => simp at hl
    | cons k ks =>
      unfold cutSegments
      obtain ⟨rows1, frs1, h1⟩ := cutTilesAux_total z M R C tr tc ch offs k base (hk 0 k (by simp)) (fun o ho => hg (ch, M) (by simp) o ho)
      obtain ⟨rows2, frs2, h2⟩ := ih ks (base + frs1.length) (by simpa using hl)
        (fun s k' hs => hk (s + 1) k' (by simpa using hs)) (fun m hm => hg m (by simp [hm]))
      rw [h1]
      simp only
      rw [h2]
      exact ⟨_, _, rfl⟩

theorem keepMask_total {α} [BEq α] (z : α) (Ms : List (Int × Img α)) (R C tr tc : Int) (offs : List (Int × Int)) (omitEmpty : Bool)
    (hg : ∀ m ∈ Ms, ∀ o ∈ offs, ∃ t, getTileArray z m.2 R C o.2 o.1 tr tc = .ok t) :
    ∃ keep, keepMask z Ms R C tr tc offs omitEmpty = .ok keep := by
  unfold keepMask
  obtain ⟨ne, hne⟩ := mapM_total (fun m => offs.mapM (tileNonEmpty z R C tr tc m)) Ms (by
    intro m hm
    apply mapM_total
    intro o ho
    obtain ⟨t, ht⟩ := hg m hm o ho
    exact ⟨_, by unfold tileNonEmpty; rw [ht]⟩)
  rw [hne]
  simp only
  split
  · exact ⟨_, rfl⟩
  · split <;> exact ⟨_, rfl⟩

/-- every offset of the enumeration is a grid position inside the matrix -/
theorem gridPos_in_matrix (R C tr tc : Int) (hr : 1 ≤ tr) (hc : 1 ≤ tc) (p : Int × Int) (hp : p ∈ gridPos R C tr tc) :
    1 ≤ p.1 ∧ p.1 ≤ R ∧ 1 ≤ p.2 ∧ p.2 ≤ C := by
  obtain ⟨a, b⟩ := p
  rw [mem_gridPos] at hp
  obtain ⟨k, l, hk0, hk1, hl0, hl1, rfl, rfl⟩ := hp
  have := axis_start_in tr R k hr hk0 hk1
  have := axis_start_in tc C l hc hl0 hl1
  have := Int.mul_nonneg (show 0 ≤ tr by omega) hk0
  have := Int.mul_nonneg (show 0 ≤ tc by omega) hl0
  simp only
  omega


theorem swap_inj : Function.Injective (fun p : Int × Int => (p.2, p.1)) := by
  intro p q h
  simp only [Prod.mk.injEq] at h
  exact Prod.ext h.2 h.1

/-- **Tile, then read (explicit positions).**  `Segmentation(tile_pixel_array=True)` with TILED_SPARSE followed by
`get_total_pixel_matrix` for segment `c`: for every matrix size, tile size (dividing or not), list of segment
matrices with distinct numbers, `omit_empty_frames` on or off, and every accepted request with
`start ≤ end`, the result is the requested part of the matrix handed in for segment `c`. -/
theorem tileThenRead_sparse {α} [BEq α] [LawfulBEq α] (z : α) (Ms : List (Int × Img α)) (R C tr tc : Int)
    (hr : 1 ≤ tr) (hc : 1 ≤ tc) (hR : 1 ≤ R) (hC : 1 ≤ C) (hnd : (Ms.map Prod.fst).Nodup)
    (c : Int) (M : Img α) (hM : (c, M) ∈ Ms) (omitEmpty : Bool)
    (rs re cs ce : Option Int) (ai : Bool) (r0 r1 c0 c1 : Int)
    (hstd : stdRowColIndices rs re cs ce R C ai false = .ok (r0, r1, c0, c1)) (hr01 : r0 ≤ r1) (hc01 : c0 ≤ c1) :
    ∃ out, tileThenRead z Ms R C tr tc false omitEmpty c rs re cs ce ai = .ok (r1 - r0, c1 - c0, out) ∧
      ∀ i j, 0 ≤ i → i < r1 - r0 → 0 ≤ j → j < c1 - c0 → out i j = M (r0 - 1 + i) (c0 - 1 + j) := by
  obtain ⟨g1, g2, g3, g4, g5, g6, g7, g8⟩ := stdRowCol_range_num hstd
  have hoffs := tileOffsets_eq tr tc R C hr hc hR hC
  -- every tile can be cut
  have hget : ∀ m ∈ Ms, ∀ o ∈ (gridPos R C tr tc).map (fun p => (p.2, p.1)),
      (∃ t, getTileArray z m.2 R C o.2 o.1 tr tc = .ok t) ∧ getTileShape R C o.2 o.1 tr tc = .ok (tr, tc) := by
    intro m _ o ho
    obtain ⟨p, hp, rfl⟩ := List.mem_map.mp ho
    obtain ⟨b1, b2, b3, b4⟩ := gridPos_in_matrix R C tr tc hr hc p hp
    obtain ⟨fr, hfr, _⟩ := getTileArray_spec z m.2 R C p.1 p.2 tr tc hr hc b1 b2 b3 b4
    exact ⟨⟨fr, hfr⟩, getTileShape_spec R C p.1 p.2 tr tc hr hc b1 b2 b3 b4⟩
  obtain ⟨keep, hkeep⟩ := keepMask_total z Ms R C tr tc _ omitEmpty (fun m hm o ho => (hget m hm o ho).1)
  obtain ⟨k1, k2, k3, _⟩ := keepMask_spec z Ms R C tr tc _ omitEmpty keep hkeep
  obtain ⟨rows, frames, hcs⟩ := cutSegments_total z R C tr tc _ Ms keep 0 k1 k2 hget
  obtain ⟨s1, s2, s3⟩ := cutSegments_spec z R C tr tc _ Ms keep 0 rows frames hcs
  have hoffnd : ((gridPos R C tr tc).map (fun p => (p.2, p.1))).Nodup := (gridPos_nodup R C tr tc hr hc).map swap_inj
  -- the read
  have hu : uniqueKey (some c) rows = true := by
    unfold uniqueKey
    simp only
    exact (uniquePos_iff rows).mpr (s2 hoffnd hnd)
  have hcut : TableCutFrom M R C tr tc (chanRows (some c) rows) frames := by
    intro r hrm
    unfold chanRows at hrm
    simp only [List.mem_filter, decide_eq_true_eq] at hrm
    obtain ⟨hrr, hch⟩ := hrm
    obtain ⟨hin, _, m, hm, hmc, fr, hfr, hgt⟩ := s1 r hrr
    have hmeq : m = (c, M) := by
      have h1 : m.1 = c := by omega
      -- distinct segment numbers: the entry with number c is (c, M)
      have := List.inj_on_of_nodup_map hnd hm hM (by simpa using h1)
      exact this
    subst hmeq
    obtain ⟨p, hp, hpe⟩ := List.mem_map.mp hin
    simp only [Prod.mk.injEq] at hpe
    obtain ⟨b1, b2, b3, b4⟩ := gridPos_in_matrix R C tr tc hr hc p hp
    obtain ⟨fr', hfr', hspec⟩ := getTileArray_spec z M R C r.rp r.cp tr tc hr hc (by omega) (by omega) (by omega) (by omega)
    simp only at hgt
    rw [hgt] at hfr'
    simp only [Except.ok.injEq] at hfr'
    subst hfr'
    refine ⟨fr, by simpa using hfr, ?_⟩
    intro a b ha0 ha1 hb0 hb1 hra hcb
    rw [hspec a b ha0 ha1 hb0 hb1, if_pos ⟨hra, hcb⟩]
  obtain ⟨out, hout, hpix⟩ := readRegion_general z M rows frames R C tr tc (some c) rs re cs ce ai false true hr hc hu hcut
    r0 r1 c0 c1 hstd (Or.inl rfl) hr01 hc01
  refine ⟨out, ?_, ?_⟩
  · unfold tileThenRead
    simp only [Bool.false_and, Bool.false_eq_true, if_false, hoffs, hkeep, hcs]
    exact hout
  · intro i j hi0 hi1 hj0 hj1
    obtain ⟨p1, p2⟩ := hpix i j hi0 hi1 hj0 hj1
    by_cases hcov : ∃ r ∈ chanRows (some c) rows, inTile tr tc r (r0 + i) (c0 + j)
    · exact p1 hcov
    · rw [p2 hcov]
      -- the grid tile containing the pixel was omitted, hence is zero in M
      obtain ⟨e0, e1, e2⟩ := axis_cover_exists tr (r0 + i) hr (by omega)
      obtain ⟨f0, f1, f2⟩ := axis_cover_exists tc (c0 + j) hc (by omega)
      have hp : (1 + tr * ((r0 + i - 1) / tr), 1 + tc * ((c0 + j - 1) / tc)) ∈ gridPos R C tr tc := by
        rw [mem_gridPos]
        exact ⟨_, _, e0, axis_index_lt tr R (r0 + i) hr (by omega), f0, axis_index_lt tc C (c0 + j) hc (by omega), rfl, rfl⟩
      have ho : (1 + tc * ((c0 + j - 1) / tc), 1 + tr * ((r0 + i - 1) / tr)) ∈ (gridPos R C tr tc).map (fun p => (p.2, p.1)) :=
        List.mem_map.mpr ⟨_, hp, rfl⟩
      obtain ⟨t, ht⟩ := List.getElem?_of_mem ho
      obtain ⟨s, hs⟩ := List.getElem?_of_mem hM
      have hsl : s < keep.length := by
        have := (List.getElem?_eq_some_iff.mp hs).1; omega
      have hk : keep[s]? = some keep[s] := List.getElem?_eq_getElem hsl
      have htl : t < keep[s].length := by
        have := k2 s keep[s] hk
        have := (List.getElem?_eq_some_iff.mp ht).1
        omega
      have hkt : keep[s][t]? = some keep[s][t] := List.getElem?_eq_getElem htl
      cases hb : keep[s][t] with
      | true =>
        exfalso
        rw [hb] at hkt
        obtain ⟨r, hrr, hrc, hrp⟩ := s3 s (c, M) keep[s] hs hk t _ ht hkt
        simp only [Prod.mk.injEq] at hrp
        apply hcov
        refine ⟨r, ?_, ?_⟩
        · unfold chanRows
          simp only [List.mem_filter, decide_eq_true_eq]
          exact ⟨hrr, hrc⟩
        · unfold inTile
          omega
      | false =>
        rw [hb] at hkt
        obtain ⟨tile, htile, hzero⟩ := k3 s t (c, M) keep[s] _ hs hk ht hkt
        obtain ⟨b1, b2, b3, b4⟩ := gridPos_in_matrix R C tr tc hr hc _ hp
        simp only at b1 b2 b3 b4 htile
        obtain ⟨fr', hfr', hspec⟩ := getTileArray_spec z M R C (1 + tr * ((r0 + i - 1) / tr)) (1 + tc * ((c0 + j - 1) / tc)) tr tc hr hc b1 b2 b3 b4
        rw [htile] at hfr'
        simp only [Except.ok.injEq] at hfr'
        subst hfr'
        have hz := imgAllZero_spec z tile tr tc hzero (r0 + i - (1 + tr * ((r0 + i - 1) / tr))) (c0 + j - (1 + tc * ((c0 + j - 1) / tc)))
          (by omega) (by omega) (by omega) (by omega)
        rw [hspec _ _ (by omega) (by omega) (by omega) (by omega), if_pos (by omega)] at hz
        rw [← hz]
        congr 1 <;> omega


end HdVerif.TilingLemmas
