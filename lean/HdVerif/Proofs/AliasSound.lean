import HdVerif.Model.AliasConcrete
/-!
# Soundness of the alias-flow analysis against the store semantics (C20), for all programs of the language

`Inv`: either the analysis has already logged a write to a parameter region (or given up: `overflow`), or the abstract state
covers the concrete one (`Sim`): every concrete reference lies in the region set of its abstract counterpart, every stored
reference is covered by a link, every `must` entry is a reference that certainly exists, and no cell of the caller has changed.
`exec_inv` shows by induction over statements that every step keeps `Inv`; the three `sound_*` theorems read off what a check
on the final abstract state says about the final concrete state.
-/
set_option linter.unusedSimpArgs false
set_option linter.unusedVariables false
set_option linter.unnecessarySimpa false
namespace HdVerif.Aliasing

/-- region `r` is in the bit set `m` -/
abbrev mem (r m : Nat) : Prop := m.testBit r = true

theorem mem_or {r a b : Nat} : mem r (a ||| b) ↔ mem r a ∨ mem r b := by
  simp [mem, Nat.testBit_or]

theorem mem_two_pow {r k : Nat} : mem r (2 ^ k) ↔ k = r := by
  simp [mem, Nat.testBit_two_pow]

theorem and_ne_zero_of_mem {r a b : Nat} (ha : mem r a) (hb : mem r b) : Nat.beq (a &&& b) 0 = false := by
  cases h : Nat.beq (a &&& b) 0
  · rfl
  · have h0 := Nat.eq_of_beq_eq_true h
    have : (a &&& b).testBit r = true := by rw [Nat.testBit_and]; simp [mem] at ha hb; simp [ha, hb]
    rw [h0, Nat.zero_testBit] at this
    cases this

theorem mem_of_and_ne_zero {a b : Nat} (h : Nat.beq (a &&& b) 0 = false) : ∃ r, mem r a ∧ mem r b := by
  have hne := Nat.ne_of_beq_eq_false h
  apply Classical.byContradiction
  intro hno
  apply hne
  apply Nat.eq_of_testBit_eq
  intro i
  rw [Nat.zero_testBit, Nat.testBit_and]
  cases ha : a.testBit i <;> cases hb : b.testBit i <;> simp
  exact hno ⟨i, ha, hb⟩

/-! ## set lemmas about the analysis' helpers -/

theorem mem_targets {al : List (Nat × Nat × Nat)} {f H T R r rt : Nat} (hl : (f, H, T) ∈ al) (hH : mem r H) (hR : mem r R)
    (ht : mem rt T) : mem rt (targets al f R) := by
  induction al with
  | nil => cases hl
  | cons a rest ih =>
    obtain ⟨g, h, t⟩ := a
    unfold targets
    rcases List.mem_cons.mp hl with heq | hin
    · injection heq with h1 h2
      injection h2 with h2 h3
      subst h1 h2 h3
      have h1 : Nat.beq f f = true := by simp
      have h2 := and_ne_zero_of_mem hH hR
      simp only [h1, h2, Bool.not_false, Bool.and_self, cond_true]
      exact mem_or.mpr (Or.inl ht)
    · have := ih hin
      cases hc : (Nat.beq g f && !(Nat.beq (h &&& R) 0))
      · simpa using this
      · simp only [cond_true]
        exact mem_or.mpr (Or.inr this)

theorem mem_mustOf {am : List (Nat × Nat)} {f r : Nat} (h : mem r (mustOf am f)) : ∃ m, (f, m) ∈ am ∧ mem r m := by
  induction am with
  | nil => simp [mustOf, mem] at h
  | cons a rest ih =>
    obtain ⟨g, m⟩ := a
    unfold mustOf at h
    cases hc : Nat.beq g f
    · simp only [hc, cond_false] at h
      obtain ⟨m', hm, hr⟩ := ih h
      exact ⟨m', List.mem_cons_of_mem _ hm, hr⟩
    · simp only [hc, cond_true] at h
      have hg := Nat.eq_of_beq_eq_true hc
      subst hg
      rcases mem_or.mp h with h1 | h1
      · exact ⟨m, List.mem_cons_self, h1⟩
      · obtain ⟨m', hm, hr⟩ := ih h1
        exact ⟨m', List.mem_cons_of_mem _ hm, hr⟩

theorem mem_viewSet_of_targets {al am f R rt} (h : mem rt (targets al f R)) : mem rt (viewSet al am f R) := by
  unfold viewSet; exact mem_or.mpr (Or.inl h)

theorem mem_viewSet_of_keep {al am f R r} (hR : mem r R) (hm : ¬ mem r (mustOf am f)) : mem r (viewSet al am f R) := by
  unfold viewSet
  apply mem_or.mpr; right
  simp only [mem, Nat.testBit_xor, Nat.testBit_and] at *
  simp [hR, hm]

theorem mem_step_of_mem {al : List (Nat × Nat × Nat)} {r : Nat} : ∀ {seen : Nat}, mem r seen → mem r (step al seen) := by
  induction al with
  | nil => intro seen h; simpa [step] using h
  | cons a rest ih =>
    intro seen h
    obtain ⟨g, hh, t⟩ := a
    unfold step
    apply ih
    cases hc : Nat.beq (hh &&& seen) 0
    · simp only [cond_false]; exact mem_or.mpr (Or.inl h)
    · simpa using h

theorem mem_closure_of_mem {al : List (Nat × Nat × Nat)} {r : Nat} : ∀ (fuel : Nat) {seen : Nat}, mem r seen →
    mem r (closure al fuel seen)
  | 0, _, h => by simpa [closure] using h
  | fuel + 1, _, h => by unfold closure; exact mem_closure_of_mem fuel (mem_step_of_mem h)

theorem closedUnder_sound {al : List (Nat × Nat × Nat)} {c : Nat} (hc : closedUnder al c = true) {f H T r rt : Nat}
    (hl : (f, H, T) ∈ al) (hH : mem r H) (hr : mem r c) (ht : mem rt T) : mem rt c := by
  induction al with
  | nil => cases hl
  | cons a rest ih =>
    obtain ⟨g, h, t⟩ := a
    unfold closedUnder at hc
    simp only [Bool.and_eq_true, Bool.or_eq_true] at hc
    rcases List.mem_cons.mp hl with heq | hin
    · injection heq with h1 h2
      injection h2 with h2 h3
      subst h1 h2 h3
      rcases hc.1 with h0 | h1
      · rw [and_ne_zero_of_mem hH hr] at h0; cases h0
      · have := Nat.eq_of_beq_eq_true h1
        rw [← this]
        exact mem_or.mpr (Or.inl ht)
    · exact ih hc.2 hin

/-! ## the concrete helpers -/

theorem mem_targetsC {cf : List (Nat × Nat × Nat)} {c f t : Nat} : t ∈ targetsC cf c f ↔ (c, f, t) ∈ cf := by
  unfold targetsC
  simp only [List.mem_map, List.mem_filter, Bool.and_eq_true, beq_iff_eq]
  constructor
  · rintro ⟨⟨a, b, d⟩, ⟨hm, h1, h2⟩, h3⟩
    simp only at h1 h2 h3
    subst h1 h2 h3
    exact hm
  · intro h
    exact ⟨(c, f, t), ⟨h, rfl, rfl⟩, rfl⟩

theorem pick_mem (ch : Nat → Nat) (tick d : Nat) {ts : List Nat} (h : ts ≠ []) : pick ch tick d ts ∈ ts := by
  unfold pick
  have hl : 0 < ts.length := List.length_pos_iff.mpr h
  have hlt : ch tick % ts.length < ts.length := Nat.mod_lt _ hl
  rw [List.getD_eq_getElem?_getD, List.getElem?_eq_getElem hlt]
  exact List.getElem_mem hlt

theorem mem_viewC {cf : List (Nat × Nat × Nat)} {c f t : Nat} (h : t ∈ viewC cf c f) :
    (targetsC cf c f = [] ∧ t = c) ∨ (c, f, t) ∈ cf := by
  unfold viewC at h
  split at h
  · rename_i heq
    left; exact ⟨heq, by simpa using h⟩
  · right; exact mem_targetsC.mp h


/-! ## the relation between a concrete and an abstract state -/

section
variable (W : World) (nIn : Nat)

/-- region `r` stands for cell `c`: any parameter region for a cell of the caller, the `k`-th new region for the `k`-th new cell -/
def compat (c r : Nat) : Prop := (c < W.base ∧ r < nIn) ∨ (W.base ≤ c ∧ r = nIn + (c - W.base))

/-- an abstract root reference names its cell exactly: the `i`-th argument as passed, or the `k`-th new cell -/
def Exact (c m : Nat) : Prop :=
  (∃ i, i < nIn ∧ m = 2 ^ i ∧ c = W.args.getD i 0) ∨ (∃ k, m = 2 ^ (nIn + k) ∧ c = W.base + k)

def RelV (val : CVal) (R : Ref) : Prop :=
  (∃ r, mem r R.mask ∧ compat W nIn val.cell r) ∧ (R.root = true → val.direct = true ∧ Exact W nIn val.cell R.mask)

def RelEnv (ce : List (Nat × CVal)) (ae : List (Nat × Ref)) : Prop :=
  ∀ x, (lookupC ce x = none ∧ lookup ae x = none) ∨ ∃ c r, lookupC ce x = some c ∧ lookup ae x = some r ∧ RelV W nIn c r

def RelFields (cf al : List (Nat × Nat × Nat)) : Prop :=
  ∀ h f t, (h, f, t) ∈ cf →
    (h < W.base ∧ t < W.base) ∨
    (W.base ≤ h ∧ ∃ H T, (f, H, T) ∈ al ∧ mem (nIn + (h - W.base)) H ∧ ∃ rt, mem rt T ∧ compat W nIn t rt)

def RelMust (cf : List (Nat × Nat × Nat)) (am : List (Nat × Nat)) : Prop :=
  ∀ f m, (f, m) ∈ am → ∀ r, mem r m → nIn ≤ r ∧ ∃ t, (W.base + (r - nIn), f, t) ∈ cf

def RelNext (cn an : Nat) : Prop := W.base ≤ cn ∧ an = nIn + (cn - W.base)

variable {W nIn}

/-- one stored reference of a covered cell: either everything stays with the caller, or a link covers it -/
theorem field_step {cf al : List (Nat × Nat × Nat)} (hf : RelFields W nIn cf al) {c f t r R : Nat}
    (hc : compat W nIn c r) (hR : mem r R) (h : (c, f, t) ∈ cf) :
    (c < W.base ∧ t < W.base ∧ r < nIn) ∨ ∃ rt, mem rt (targets al f R) ∧ compat W nIn t rt := by
  rcases hf c f t h with ⟨h1, h2⟩ | ⟨h1, H, T, hl, hH, rt, hrt, hct⟩
  · left
    rcases hc with ⟨_, h4⟩ | ⟨h3, _⟩
    · exact ⟨h1, h2, h4⟩
    · omega
  · right
    rcases hc with ⟨h3, _⟩ | ⟨_, h4⟩
    · omega
    · subst h4
      exact ⟨rt, mem_targets hl hH hR hrt, hct⟩

/-- a parameter region is never a `must` holder -/
theorem not_must_of_lt {cf : List (Nat × Nat × Nat)} {am : List (Nat × Nat)} (hm : RelMust W nIn cf am) {f r : Nat} (hr : r < nIn) :
    ¬ mem r (mustOf am f) := by
  intro h
  obtain ⟨m, hin, hrm⟩ := mem_mustOf h
  have := (hm f m hin r hrm).1
  omega

/-- a covered cell without anything stored under `f` is not a `must` holder for `f` -/
theorem not_must_of_empty {cf : List (Nat × Nat × Nat)} {am : List (Nat × Nat)} (hm : RelMust W nIn cf am) {c f r : Nat}
    (hc : compat W nIn c r) (he : targetsC cf c f = []) : ¬ mem r (mustOf am f) := by
  intro h
  obtain ⟨m, hin, hrm⟩ := mem_mustOf h
  obtain ⟨h1, t, ht⟩ := hm f m hin r hrm
  rcases hc with ⟨_, h4⟩ | ⟨h3, h4⟩
  · omega
  · have : W.base + (r - nIn) = c := by omega
    rw [this] at ht
    have := mem_targetsC.mpr ht
    rw [he] at this
    cases this

/-- one level of `c.f`: every candidate of the concrete view is covered by the abstract view -/
theorem view_level {cf al : List (Nat × Nat × Nat)} {am : List (Nat × Nat)} (hf : RelFields W nIn cf al)
    (hm : RelMust W nIn cf am) {c f t r R : Nat} (hc : compat W nIn c r) (hR : mem r R) (h : t ∈ viewC cf c f) :
    ∃ rt, mem rt (viewSet al am f R) ∧ compat W nIn t rt := by
  rcases mem_viewC h with ⟨he, heq⟩ | hin
  · subst heq
    exact ⟨r, mem_viewSet_of_keep hR (not_must_of_empty hm hc he), hc⟩
  · rcases field_step hf hc hR hin with ⟨h1, h2, h3⟩ | ⟨rt, hrt, hct⟩
    · exact ⟨r, mem_viewSet_of_keep hR (not_must_of_lt hm h3), Or.inl ⟨h2, h3⟩⟩
    · exact ⟨rt, mem_viewSet_of_targets hrt, hct⟩

theorem relV_view {val : CVal} {m : Nat} (h : ∃ r, mem r m ∧ compat W nIn val.cell r) : RelV W nIn val ⟨m, false⟩ :=
  ⟨h, fun h => by cases h⟩

/-- **expressions**: the value of a concrete evaluation is covered by the abstract one, and the allocation counters stay
in step -/
theorem eval_sound (ch : Nat → Nat) {ce : List (Nat × CVal)} {ae : List (Nat × Ref)} {cf al : List (Nat × Nat × Nat)}
    {am : List (Nat × Nat)} (henv : RelEnv W nIn ce ae) (hf : RelFields W nIn cf al) (hm : RelMust W nIn cf am) :
    ∀ (e : Expr) (cn tick an : Nat), RelNext W nIn cn an →
      RelV W nIn (evalC ch ce cf cn tick e).1 (eval ae al am an e).1 ∧
      RelNext W nIn (evalC ch ce cf cn tick e).2.1 (eval ae al am an e).2
  | .var x, cn, tick, an, hn => by
    unfold evalC eval
    rcases henv x with ⟨h1, h2⟩ | ⟨c, r, h1, h2, h3⟩
    · rw [h1, h2]
      refine ⟨⟨⟨an, mem_two_pow.mpr rfl, Or.inr ⟨hn.1, hn.2⟩⟩, fun _ => ⟨rfl, Or.inr ⟨cn - W.base, ?_, ?_⟩⟩⟩, ?_⟩
      · simp only []; rw [hn.2]
      · simp only []; have := hn.1; omega
      · exact ⟨by have := hn.1; simp only []; omega, by have := hn.1; have := hn.2; simp only []; omega⟩
    · rw [h1, h2]
      exact ⟨h3, hn⟩
  | .fresh, cn, tick, an, hn => by
    unfold evalC eval
    refine ⟨⟨⟨an, mem_two_pow.mpr rfl, Or.inr ⟨hn.1, hn.2⟩⟩, fun _ => ⟨rfl, Or.inr ⟨cn - W.base, ?_, ?_⟩⟩⟩, ?_⟩
    · simp only []; rw [hn.2]
    · simp only []; have := hn.1; omega
    · exact ⟨by have := hn.1; simp only []; omega, by have := hn.1; have := hn.2; simp only []; omega⟩
  | .join a b, cn, tick, an, hn => by
    unfold evalC eval
    have ha := eval_sound ch henv hf hm a cn tick an hn
    generalize evalC ch ce cf cn tick a = pa at ha ⊢
    generalize eval ae al am an a = qa at ha ⊢
    obtain ⟨ca, n1, t1⟩ := pa
    obtain ⟨ra, m1⟩ := qa
    simp only at ha ⊢
    have hb := eval_sound ch henv hf hm b n1 t1 m1 ha.2
    generalize evalC ch ce cf n1 t1 b = pb at hb ⊢
    generalize eval ae al am m1 b = qb at hb ⊢
    obtain ⟨cb, n2, t2⟩ := pb
    obtain ⟨rb, m2⟩ := qb
    simp only at ha hb ⊢
    refine ⟨?_, hb.2⟩
    split
    · obtain ⟨r, hr, hc⟩ := ha.1.1
      exact relV_view ⟨r, mem_or.mpr (Or.inl hr), hc⟩
    · obtain ⟨r, hr, hc⟩ := hb.1.1
      exact relV_view ⟨r, mem_or.mpr (Or.inr hr), hc⟩
  | .view f e, cn, tick, an, hn => by
    unfold evalC eval
    have he := eval_sound ch henv hf hm e cn tick an hn
    generalize evalC ch ce cf cn tick e = pe at he ⊢
    generalize eval ae al am an e = qe at he ⊢
    obtain ⟨c, n, t⟩ := pe
    obtain ⟨R, m⟩ := qe
    simp only at he ⊢
    obtain ⟨r, hr, hc⟩ := he.1.1
    by_cases h0 : f = 0
    · subst h0
      simp only [if_true, Nat.beq_refl, cond_true]
      exact ⟨relV_view ⟨r, hr, hc⟩, he.2⟩
    · have hb0 : Nat.beq f 0 = false := by
        cases h : Nat.beq f 0
        · rfl
        · exact absurd (Nat.eq_of_beq_eq_true h) h0
      simp only [h0, if_false, hb0, cond_false]
      by_cases h4 : f = 4
      · subst h4
        simp only [if_true, Nat.beq_refl, cond_true]
        split
        · rename_i hts
          have he4 : targetsC cf c.cell 4 = [] := (List.append_eq_nil_iff.mp hts).1
          exact ⟨relV_view ⟨r, mem_or.mpr (Or.inl (mem_viewSet_of_keep hr (not_must_of_empty hm hc he4))), hc⟩, he.2⟩
        · rename_i ts hts
          have hp := pick_mem ch t c.cell hts
          generalize pick ch t c.cell _ = p at hp
          refine ⟨relV_view ?_, he.2⟩
          rcases List.mem_append.mp hp with h1 | h1
          · obtain ⟨rt, hrt, hct⟩ := view_level hf hm hc hr (show p ∈ viewC cf c.cell 4 by
              unfold viewC; split
              · rename_i heq; rw [heq] at h1; cases h1
              · exact h1)
            exact ⟨rt, mem_or.mpr (Or.inl hrt), hct⟩
          · obtain ⟨mm, hmm, hpm⟩ := List.mem_flatMap.mp h1
            rcases field_step hf hc hr (mem_targetsC.mp hmm) with ⟨h1, h2, h3⟩ | ⟨rm, hrm, hcm⟩
            · -- everything stays with the caller: the parameter region itself is kept
              have hp_lt : p < W.base := by
                rcases mem_viewC hpm with ⟨_, heq⟩ | hin
                · omega
                · rcases hf mm 1 p hin with ⟨_, h5⟩ | ⟨h5, _⟩
                  · exact h5
                  · omega
              exact ⟨r, mem_or.mpr (Or.inl (mem_viewSet_of_keep hr (not_must_of_lt hm h3))), Or.inl ⟨hp_lt, h3⟩⟩
            · obtain ⟨rt, hrt, hct⟩ := view_level hf hm hcm hrm hpm
              exact ⟨rt, mem_or.mpr (Or.inr hrt), hct⟩
      · have hb4 : Nat.beq f 4 = false := by
          cases h : Nat.beq f 4
          · rfl
          · exact absurd (Nat.eq_of_beq_eq_true h) h4
        simp only [h4, if_false, hb4, cond_false]
        split
        · rename_i hts
          exact ⟨relV_view ⟨r, mem_viewSet_of_keep hr (not_must_of_empty hm hc hts), hc⟩, he.2⟩
        · rename_i ts hts
          have hp := pick_mem ch t c.cell hts
          generalize pick ch t c.cell _ = p at hp
          obtain ⟨rt, hrt, hct⟩ := view_level hf hm hc hr (show p ∈ viewC cf c.cell f by
              unfold viewC; split
              · rename_i heq; rw [heq] at hp; cases hp
              · exact hp)
          exact ⟨relV_view ⟨rt, hrt, hct⟩, he.2⟩


/-! ## statements -/

variable (W nIn)

/-- the abstract state covers the concrete one -/
structure Sim (cs : CState) (as : AState) : Prop where
  halted : cs.halted = as.halted
  next : RelNext W nIn cs.next as.next
  env : RelEnv W nIn cs.env as.env
  fields : RelFields W nIn cs.fields as.links
  must : RelMust W nIn cs.fields as.must
  store : ∀ c, c < W.base → cs.store c = W.store c
  result : (cs.result = none ∧ as.result = none) ∨ ∃ c r, cs.result = some c ∧ as.result = some r ∧ RelV W nIn c r

/-- the analysis has logged a write to a parameter region, or given up -/
def Bad (as : AState) : Prop := as.overflow = true ∨ ∃ r, r < nIn ∧ mem r as.writes

def Inv (cs : CState) (as : AState) : Prop := Bad nIn as ∨ Sim W nIn cs as

variable {W nIn}

mutual
theorem bad_mono (v : Nat) : ∀ (st : Stmt) (s : AState), Bad nIn s → Bad nIn (exec v st s)
  | .assign x e, s, h => by
    unfold exec
    cases s.halted
    · simp only [cond_false]; exact h
    · exact h
  | .write e, s, h => by
    unfold exec
    cases s.halted
    · simp only [cond_false]
      rcases h with h | ⟨r, h1, h2⟩
      · exact Or.inl h
      · exact Or.inr ⟨r, h1, mem_or.mpr (Or.inr h2)⟩
    · exact h
  | .writeDeep e, s, h => by
    unfold exec
    cases s.halted
    · simp only [cond_false]
      rcases h with h | ⟨r, h1, h2⟩
      · left; simp only [h, Bool.true_or]
      · exact Or.inr ⟨r, h1, mem_or.mpr (Or.inr h2)⟩
    · exact h
  | .link a f b, s, h => by
    unfold exec
    cases s.halted
    · simp only [cond_false]
      rcases h with h | ⟨r, h1, h2⟩
      · exact Or.inl h
      · exact Or.inr ⟨r, h1, mem_or.mpr (Or.inr h2)⟩
    · exact h
  | .ite c t e, s, h => by
    unfold exec
    cases s.halted
    · simp only [cond_false]
      cases v.testBit c
      · exact badList_mono v e s h
      · exact badList_mono v t s h
    · exact h
  | .ret e, s, h => by
    unfold exec
    cases s.halted
    · simp only [cond_false]; exact h
    · exact h
  | .raise, s, h => by
    unfold exec
    cases s.halted
    · exact h
    · exact h
  | .widen ws, s, h => by
    unfold exec
    cases s.halted
    · simp only [cond_false]
      rcases h with h | h
      · left; simp only [h, Bool.true_or]
      · exact Or.inr h
    · exact h

theorem badList_mono (v : Nat) : ∀ (p : List Stmt) (s : AState), Bad nIn s → Bad nIn (execList v p s)
  | [], s, h => by unfold execList; exact h
  | st :: rest, s, h => by unfold execList; exact badList_mono v rest _ (bad_mono v st s h)
end

theorem relEnv_cons {ce : List (Nat × CVal)} {ae : List (Nat × Ref)} (h : RelEnv W nIn ce ae) (x : Nat) {c : CVal} {r : Ref}
    (hv : RelV W nIn c r) : RelEnv W nIn ((x, c) :: ce) ((x, r) :: ae) := by
  intro y
  unfold lookupC lookup
  cases Nat.beq x y
  · simpa using h y
  · right; exact ⟨c, r, rfl, rfl, hv⟩

theorem relFields_cons_links {cf al : List (Nat × Nat × Nat)} (h : RelFields W nIn cf al) (l : Nat × Nat × Nat) :
    RelFields W nIn cf (l :: al) := by
  intro hh f t hin
  rcases h hh f t hin with h1 | ⟨h1, H, T, hl, rest⟩
  · exact Or.inl h1
  · exact Or.inr ⟨h1, H, T, List.mem_cons_of_mem _ hl, rest⟩

/-- every cell reachable from a covered cell is covered by a set that contains the seed and is closed under the links -/
theorem reach_sound {cf al : List (Nat × Nat × Nat)} (hf : RelFields W nIn cf al) {hit : Nat}
    (hclosed : closedUnder al hit = true) {c r : Nat} (hc : compat W nIn c r) (hr : mem r hit) {k : Nat}
    (hk : Reach cf c k) : ∃ rk, mem rk hit ∧ compat W nIn k rk := by
  induction hk with
  | refl => exact ⟨r, hr, hc⟩
  | @step b f t _ hin ih =>
    obtain ⟨rb, hrb, hcb⟩ := ih
    rcases hf b f t hin with ⟨h1, h2⟩ | ⟨h1, H, T, hl, hH, rt, hrt, hct⟩
    · rcases hcb with ⟨_, h4⟩ | ⟨h3, _⟩
      · exact ⟨rb, hrb, Or.inl ⟨h2, h4⟩⟩
      · omega
    · rcases hcb with ⟨h3, _⟩ | ⟨_, h4⟩
      · omega
      · subst h4
        exact ⟨rt, closedUnder_sound hclosed hl hH hrb hrt, hct⟩

theorem lt_of_compat_lt {c r : Nat} (h : compat W nIn c r) (hc : c < W.base) : r < nIn := by
  rcases h with ⟨_, h2⟩ | ⟨h1, _⟩
  · exact h2
  · omega

theorem eq_of_compat_ge {c r : Nat} (h : compat W nIn c r) (hc : W.base ≤ c) : r = nIn + (c - W.base) := by
  rcases h with ⟨h1, _⟩ | ⟨_, h2⟩
  · omega
  · exact h2

/-- a weak update only enlarges the region set of a bound variable: whatever the environment covered, it still covers -/
theorem relEnv_widenRound {ce : List (Nat × CVal)} (links : List (Nat × Nat × Nat)) (must : List (Nat × Nat)) (next : Nat) :
    ∀ (ws : List (Nat × Expr)) (ae : List (Nat × Ref)), RelEnv W nIn ce ae → RelEnv W nIn ce (widenRound links must next ws ae)
  | [], ae, h => by unfold widenRound; exact h
  | (x, e) :: rest, ae, h => by
    unfold widenRound
    cases hl : lookup ae x with
    | none => exact relEnv_widenRound links must next rest ae h
    | some o =>
      apply relEnv_widenRound links must next rest
      intro y
      unfold lookup
      cases hxy : Nat.beq x y
      · simpa using h y
      · have e' := Nat.eq_of_beq_eq_true hxy
        subst e'
        rcases h x with ⟨_, h2⟩ | ⟨c, r, h1, h2, h3⟩
        · rw [hl] at h2; cases h2
        · rw [hl] at h2
          injection h2 with h2
          subst h2
          right
          obtain ⟨r0, hr0, hc0⟩ := h3.1
          exact ⟨c, _, h1, rfl, ⟨r0, mem_or.mpr (Or.inl hr0), hc0⟩, fun hh => by cases hh⟩

theorem relEnv_widenFix {ce : List (Nat × CVal)} (links : List (Nat × Nat × Nat)) (must : List (Nat × Nat)) (next : Nat)
    (ws : List (Nat × Expr)) : ∀ (fuel : Nat) (ae : List (Nat × Ref)), RelEnv W nIn ce ae →
      RelEnv W nIn ce (widenFix links must next ws fuel ae).1
  | 0, ae, h => by unfold widenFix; exact h
  | fuel + 1, ae, h => by
    unfold widenFix
    have h1 := relEnv_widenRound (W := W) (nIn := nIn) links must next ws ae h
    simp only []
    cases natListBeq (widenMasks (widenRound links must next ws ae) ws) (widenMasks ae ws)
    · simp only [cond_false]; exact relEnv_widenFix links must next ws fuel _ h1
    · simp only [cond_true]; exact h1

mutual
/-- **statements**: every step keeps the invariant, whatever the valuation, the oracle and the effect of writes -/
theorem exec_inv (v : Nat) (ch : Nat → Nat) (w : Nat → Nat → Nat) :
    ∀ (st : Stmt) (cs : CState) (as : AState), Inv W nIn cs as → Inv W nIn (execC v ch w st cs) (exec v st as)
  | st, cs, as, Or.inl hbad => Or.inl (bad_mono v st as hbad)
  | .assign x e, cs, as, Or.inr h => by
    unfold execC exec
    rw [h.halted]
    cases hh : as.halted
    · simp only [Bool.false_eq_true, if_false, cond_false]
      have he := eval_sound ch h.env h.fields h.must e cs.next cs.tick as.next h.next
      generalize evalC ch cs.env cs.fields cs.next cs.tick e = pc at he ⊢
      generalize eval as.env as.links as.must as.next e = pa at he ⊢
      obtain ⟨c, n, t⟩ := pc
      obtain ⟨r, m⟩ := pa
      simp only at he ⊢
      right
      exact ⟨by simpa using h.halted.trans hh, he.2, relEnv_cons h.env x he.1, h.fields, h.must, h.store, h.result⟩
    · simp only [if_true, cond_true]; exact Or.inr h
  | .write e, cs, as, Or.inr h => by
    unfold execC exec
    rw [h.halted]
    cases hh : as.halted
    · simp only [Bool.false_eq_true, if_false, cond_false]
      have he := eval_sound ch h.env h.fields h.must e cs.next cs.tick as.next h.next
      generalize evalC ch cs.env cs.fields cs.next cs.tick e = pc at he ⊢
      generalize eval as.env as.links as.must as.next e = pa at he ⊢
      obtain ⟨c, n, t⟩ := pc
      obtain ⟨r, m⟩ := pa
      simp only at he ⊢
      obtain ⟨r0, hr0, hc0⟩ := he.1.1
      by_cases hb : c.cell < W.base
      · left; right
        exact ⟨r0, lt_of_compat_lt hc0 hb, mem_or.mpr (Or.inl hr0)⟩
      · right
        refine ⟨by simpa using h.halted.trans hh, he.2, h.env, h.fields, h.must, ?_, h.result⟩
        intro k hk
        have : k ≠ c.cell := by omega
        simp only [this, if_false]
        exact h.store k hk
    · simp only [if_true, cond_true]; exact Or.inr h
  | .writeDeep e, cs, as, Or.inr h => by
    unfold execC exec
    rw [h.halted]
    cases hh : as.halted
    · simp only [Bool.false_eq_true, if_false, cond_false]
      have he := eval_sound ch h.env h.fields h.must e cs.next cs.tick as.next h.next
      generalize evalC ch cs.env cs.fields cs.next cs.tick e = pc at he ⊢
      generalize eval as.env as.links as.must as.next e = pa at he ⊢
      obtain ⟨c, n, t⟩ := pc
      obtain ⟨r, m⟩ := pa
      simp only at he ⊢
      obtain ⟨r0, hr0, hc0⟩ := he.1.1
      cases hcl : closedUnder as.links (closure as.links (as.links.length + 1) r.mask)
      · left; left; simp
      · by_cases hbad : ∃ r1, r1 < nIn ∧ mem r1 (closure as.links (as.links.length + 1) r.mask)
        · obtain ⟨r1, h1, h2⟩ := hbad
          left; right
          exact ⟨r1, h1, mem_or.mpr (Or.inl h2)⟩
        · right
          refine ⟨by simpa using h.halted.trans hh, he.2, h.env, h.fields, h.must, ?_, h.result⟩
          intro k hk
          have : ¬ Reach cs.fields c.cell k := by
            intro hreach
            obtain ⟨rk, hrk, hck⟩ := reach_sound h.fields hcl hc0 (mem_closure_of_mem _ hr0) hreach
            exact hbad ⟨rk, lt_of_compat_lt hck hk, hrk⟩
          simp only [this, if_false]
          exact h.store k hk
    · simp only [if_true, cond_true]; exact Or.inr h
  | .link a f b, cs, as, Or.inr h => by
    unfold execC exec
    rw [h.halted]
    cases hh : as.halted
    · simp only [Bool.false_eq_true, if_false, cond_false]
      have ha := eval_sound ch h.env h.fields h.must a cs.next cs.tick as.next h.next
      generalize evalC ch cs.env cs.fields cs.next cs.tick a = pc at ha ⊢
      generalize eval as.env as.links as.must as.next a = pa at ha ⊢
      obtain ⟨ca, n1, t1⟩ := pc
      obtain ⟨ra, m1⟩ := pa
      simp only at ha ⊢
      have hb := eval_sound ch h.env h.fields h.must b n1 t1 m1 ha.2
      generalize evalC ch cs.env cs.fields n1 t1 b = pc at hb ⊢
      generalize eval as.env as.links as.must m1 b = pa at hb ⊢
      obtain ⟨cb, n2, t2⟩ := pc
      obtain ⟨rb, m2⟩ := pa
      simp only at hb ⊢
      obtain ⟨r0, hr0, hc0⟩ := ha.1.1
      obtain ⟨r1, hr1, hc1⟩ := hb.1.1
      by_cases hlt : ca.cell < W.base
      · left; right
        exact ⟨r0, lt_of_compat_lt hc0 hlt, mem_or.mpr (Or.inl hr0)⟩
      · have hge : W.base ≤ ca.cell := by omega
        have hr0eq := eq_of_compat_ge hc0 hge
        right
        refine ⟨by simpa using h.halted.trans hh, hb.2, h.env, ?_, ?_, ?_, h.result⟩
        · intro hh' f' t' hin
          rcases List.mem_cons.mp hin with heq | hin'
          · injection heq with e1 e2
            injection e2 with e2 e3
            subst e1 e2 e3
            right
            exact ⟨hge, ra.mask, rb.mask, List.mem_cons_self, by rw [← hr0eq]; exact hr0, r1, hr1, hc1⟩
          · exact relFields_cons_links h.fields _ hh' f' t' hin'
        · intro f' m' hin r hr
          have hold : ∀ f' m', (f', m') ∈ as.must → ∀ r, mem r m' → nIn ≤ r ∧ ∃ t, (W.base + (r - nIn), f', t) ∈
              (ca.cell, f, cb.cell) :: cs.fields := by
            intro f' m' hin r hr
            obtain ⟨g1, t, g2⟩ := h.must f' m' hin r hr
            exact ⟨g1, t, List.mem_cons_of_mem _ g2⟩
          cases hs : Nat.beq ra.mask (2 ^ Nat.log2 ra.mask)
          · simp only [hs, cond_false] at hin
            exact hold f' m' hin r hr
          · simp only [hs, cond_true] at hin
            rcases List.mem_cons.mp hin with heq | hin'
            · injection heq with e1 e2
              subst e1 e2
              have hpow := Nat.eq_of_beq_eq_true hs
              have hr' : mem r (2 ^ Nat.log2 ra.mask) := by rw [← hpow]; exact hr
              have hr0' : mem r0 (2 ^ Nat.log2 ra.mask) := by rw [← hpow]; exact hr0
              have e1 := mem_two_pow.mp hr'
              have e2 := mem_two_pow.mp hr0'
              have : r = r0 := by omega
              subst this
              refine ⟨by omega, cb.cell, ?_⟩
              have : W.base + (r - nIn) = ca.cell := by omega
              rw [this]
              exact List.mem_cons_self
            · exact hold f' m' hin' r hr
        · intro k hk
          have : k ≠ ca.cell := by omega
          simp only [this, if_false]
          exact h.store k hk
    · simp only [if_true, cond_true]; exact Or.inr h
  | .ite c t e, cs, as, Or.inr h => by
    unfold execC exec
    rw [h.halted]
    cases hh : as.halted
    · simp only [Bool.false_eq_true, if_false, cond_false]
      cases v.testBit c
      · simp only [Bool.false_eq_true, if_false, cond_false]
        exact execList_inv v ch w e cs as (Or.inr h)
      · simp only [if_true, cond_true]
        exact execList_inv v ch w t cs as (Or.inr h)
    · simp only [if_true, cond_true]; exact Or.inr h
  | .ret e, cs, as, Or.inr h => by
    unfold execC exec
    rw [h.halted]
    cases hh : as.halted
    · simp only [Bool.false_eq_true, if_false, cond_false]
      have he := eval_sound ch h.env h.fields h.must e cs.next cs.tick as.next h.next
      generalize evalC ch cs.env cs.fields cs.next cs.tick e = pc at he ⊢
      generalize eval as.env as.links as.must as.next e = pa at he ⊢
      obtain ⟨c, n, t⟩ := pc
      obtain ⟨r, m⟩ := pa
      simp only at he ⊢
      right
      exact ⟨rfl, he.2, h.env, h.fields, h.must, h.store, Or.inr ⟨c, r, rfl, rfl, he.1⟩⟩
    · simp only [if_true, cond_true]; exact Or.inr h
  | .raise, cs, as, Or.inr h => by
    unfold execC exec
    rw [h.halted]
    cases hh : as.halted
    · simp only [Bool.false_eq_true, if_false, cond_false]
      right
      exact ⟨rfl, h.next, h.env, h.fields, h.must, h.store, h.result⟩
    · simp only [if_true, cond_true]; exact Or.inr h
  | .widen ws, cs, as, Or.inr h => by
    unfold execC exec
    cases hh : as.halted
    · simp only [cond_false]
      right
      have he := relEnv_widenFix (W := W) (nIn := nIn) as.links as.must as.next ws (ws.length * (as.next + 1) + 1) as.env h.env
      generalize widenFix as.links as.must as.next ws (ws.length * (as.next + 1) + 1) as.env = p at he ⊢
      obtain ⟨env', ok⟩ := p
      exact ⟨h.halted.trans hh, h.next, he, h.fields, h.must, h.store, h.result⟩
    · simp only [cond_true]; exact Or.inr h

theorem execList_inv (v : Nat) (ch : Nat → Nat) (w : Nat → Nat → Nat) :
    ∀ (p : List Stmt) (cs : CState) (as : AState), Inv W nIn cs as → Inv W nIn (execListC v ch w p cs) (execList v p as)
  | [], cs, as, h => by unfold execListC execList; exact h
  | st :: rest, cs, as, h => by
    unfold execListC execList
    exact execList_inv v ch w rest _ _ (exec_inv v ch w st cs as h)
end


/-! ## which object a root reference is: a second, unconditional simulation

A reference the analysis calls *root* (`⟨2^k, true⟩`) arises only from a parameter, an allocation, or a copy of such a variable —
never from a view or a join.  Whatever was written or stored in the meantime (an in-place conversion writes its argument), such a
reference names its cell exactly.  This needs neither links nor `must` nor the write log. -/

def RelRoot (W : World) (nIn : Nat) (val : CVal) (R : Ref) : Prop :=
  R.root = true → val.direct = true ∧ Exact W nIn val.cell R.mask

def RelEnvR (W : World) (nIn : Nat) (ce : List (Nat × CVal)) (ae : List (Nat × Ref)) : Prop :=
  ∀ x, (lookupC ce x = none ∧ lookup ae x = none) ∨ ∃ c r, lookupC ce x = some c ∧ lookup ae x = some r ∧ RelRoot W nIn c r

theorem evalR_sound (ch : Nat → Nat) {ce : List (Nat × CVal)} {ae : List (Nat × Ref)} (cf al : List (Nat × Nat × Nat))
    (am : List (Nat × Nat)) (henv : RelEnvR W nIn ce ae) :
    ∀ (e : Expr) (cn tick an : Nat), RelNext W nIn cn an →
      RelRoot W nIn (evalC ch ce cf cn tick e).1 (eval ae al am an e).1 ∧
      RelNext W nIn (evalC ch ce cf cn tick e).2.1 (eval ae al am an e).2
  | .var x, cn, tick, an, hn => by
    unfold evalC eval
    rcases henv x with ⟨h1, h2⟩ | ⟨c, r, h1, h2, h3⟩
    · rw [h1, h2]
      refine ⟨fun _ => ⟨rfl, Or.inr ⟨cn - W.base, ?_, ?_⟩⟩, ?_⟩
      · simp only []; rw [hn.2]
      · simp only []; have := hn.1; omega
      · exact ⟨by have := hn.1; simp only []; omega, by have := hn.1; have := hn.2; simp only []; omega⟩
    · rw [h1, h2]
      exact ⟨h3, hn⟩
  | .fresh, cn, tick, an, hn => by
    unfold evalC eval
    refine ⟨fun _ => ⟨rfl, Or.inr ⟨cn - W.base, ?_, ?_⟩⟩, ?_⟩
    · simp only []; rw [hn.2]
    · simp only []; have := hn.1; omega
    · exact ⟨by have := hn.1; simp only []; omega, by have := hn.1; have := hn.2; simp only []; omega⟩
  | .join a b, cn, tick, an, hn => by
    unfold evalC eval
    have ha := evalR_sound ch cf al am henv a cn tick an hn
    generalize evalC ch ce cf cn tick a = pa at ha ⊢
    generalize eval ae al am an a = qa at ha ⊢
    obtain ⟨ca, n1, t1⟩ := pa
    obtain ⟨ra, m1⟩ := qa
    simp only at ha ⊢
    have hb := evalR_sound ch cf al am henv b n1 t1 m1 ha.2
    generalize evalC ch ce cf n1 t1 b = pb at hb ⊢
    generalize eval ae al am m1 b = qb at hb ⊢
    obtain ⟨cb, n2, t2⟩ := pb
    obtain ⟨rb, m2⟩ := qb
    simp only at ha hb ⊢
    exact ⟨fun h => (by cases h), hb.2⟩
  | .view f e, cn, tick, an, hn => by
    unfold evalC eval
    have he := evalR_sound ch cf al am henv e cn tick an hn
    generalize evalC ch ce cf cn tick e = pe at he ⊢
    generalize eval ae al am an e = qe at he ⊢
    obtain ⟨c, n, t⟩ := pe
    obtain ⟨R, m⟩ := qe
    simp only at he ⊢
    have h2 := he.2
    constructor
    · cases Nat.beq f 0 <;> cases Nat.beq f 4 <;> exact fun h => by cases h
    · have hA : ∀ (x y z : Ref), (bif Nat.beq f 0 then (x, m) else bif Nat.beq f 4 then (y, m) else (z, m)).2 = m := by
        intro x y z; cases Nat.beq f 0 <;> cases Nat.beq f 4 <;> rfl
      rw [hA]
      split
      · exact h2
      · split <;> exact h2

/-- the part of the states the root references depend on -/
structure SimR (W : World) (nIn : Nat) (cs : CState) (as : AState) : Prop where
  halted : cs.halted = as.halted
  next : RelNext W nIn cs.next as.next
  env : RelEnvR W nIn cs.env as.env
  result : (cs.result = none ∧ as.result = none) ∨ ∃ c r, cs.result = some c ∧ as.result = some r ∧ RelRoot W nIn c r

theorem relEnvR_cons {ce : List (Nat × CVal)} {ae : List (Nat × Ref)} (h : RelEnvR W nIn ce ae) (x : Nat) {c : CVal} {r : Ref}
    (hv : RelRoot W nIn c r) : RelEnvR W nIn ((x, c) :: ce) ((x, r) :: ae) := by
  intro y
  unfold lookupC lookup
  cases Nat.beq x y
  · simpa using h y
  · right; exact ⟨c, r, rfl, rfl, hv⟩

theorem relEnvR_widenRound {ce : List (Nat × CVal)} (links : List (Nat × Nat × Nat)) (must : List (Nat × Nat)) (next : Nat) :
    ∀ (ws : List (Nat × Expr)) (ae : List (Nat × Ref)), RelEnvR W nIn ce ae → RelEnvR W nIn ce (widenRound links must next ws ae)
  | [], ae, h => by unfold widenRound; exact h
  | (x, e) :: rest, ae, h => by
    unfold widenRound
    cases hl : lookup ae x with
    | none => exact relEnvR_widenRound links must next rest ae h
    | some o =>
      apply relEnvR_widenRound links must next rest
      intro y
      unfold lookup
      cases hxy : Nat.beq x y
      · simpa using h y
      · have e' := Nat.eq_of_beq_eq_true hxy
        subst e'
        rcases h x with ⟨_, h2⟩ | ⟨c, r, h1, h2, _⟩
        · rw [hl] at h2; cases h2
        · right
          exact ⟨c, _, h1, rfl, fun hh => by cases hh⟩

theorem relEnvR_widenFix {ce : List (Nat × CVal)} (links : List (Nat × Nat × Nat)) (must : List (Nat × Nat)) (next : Nat)
    (ws : List (Nat × Expr)) : ∀ (fuel : Nat) (ae : List (Nat × Ref)), RelEnvR W nIn ce ae →
      RelEnvR W nIn ce (widenFix links must next ws fuel ae).1
  | 0, ae, h => by unfold widenFix; exact h
  | fuel + 1, ae, h => by
    unfold widenFix
    have h1 := relEnvR_widenRound (W := W) (nIn := nIn) links must next ws ae h
    simp only []
    cases natListBeq (widenMasks (widenRound links must next ws ae) ws) (widenMasks ae ws)
    · simp only [cond_false]; exact relEnvR_widenFix links must next ws fuel _ h1
    · simp only [cond_true]; exact h1

mutual
theorem execR_inv (v : Nat) (ch : Nat → Nat) (w : Nat → Nat → Nat) :
    ∀ (st : Stmt) (cs : CState) (as : AState), SimR W nIn cs as → SimR W nIn (execC v ch w st cs) (exec v st as)
  | .assign x e, cs, as, h => by
    unfold execC exec
    rw [h.halted]
    cases hh : as.halted
    · simp only [Bool.false_eq_true, if_false, cond_false]
      have he := evalR_sound ch cs.fields as.links as.must h.env e cs.next cs.tick as.next h.next
      generalize evalC ch cs.env cs.fields cs.next cs.tick e = pc at he ⊢
      generalize eval as.env as.links as.must as.next e = pa at he ⊢
      obtain ⟨c, n, t⟩ := pc
      obtain ⟨r, m⟩ := pa
      simp only at he ⊢
      exact ⟨by simpa using h.halted.trans hh, he.2, relEnvR_cons h.env x he.1, h.result⟩
    · simp only [if_true, cond_true]; exact h
  | .write e, cs, as, h => by
    unfold execC exec
    rw [h.halted]
    cases hh : as.halted
    · simp only [Bool.false_eq_true, if_false, cond_false]
      have he := evalR_sound ch cs.fields as.links as.must h.env e cs.next cs.tick as.next h.next
      generalize evalC ch cs.env cs.fields cs.next cs.tick e = pc at he ⊢
      generalize eval as.env as.links as.must as.next e = pa at he ⊢
      obtain ⟨c, n, t⟩ := pc
      obtain ⟨r, m⟩ := pa
      simp only at he ⊢
      exact ⟨by simpa using h.halted.trans hh, he.2, h.env, h.result⟩
    · simp only [if_true, cond_true]; exact h
  | .writeDeep e, cs, as, h => by
    unfold execC exec
    rw [h.halted]
    cases hh : as.halted
    · simp only [Bool.false_eq_true, if_false, cond_false]
      have he := evalR_sound ch cs.fields as.links as.must h.env e cs.next cs.tick as.next h.next
      generalize evalC ch cs.env cs.fields cs.next cs.tick e = pc at he ⊢
      generalize eval as.env as.links as.must as.next e = pa at he ⊢
      obtain ⟨c, n, t⟩ := pc
      obtain ⟨r, m⟩ := pa
      simp only at he ⊢
      exact ⟨by simpa using h.halted.trans hh, he.2, h.env, h.result⟩
    · simp only [if_true, cond_true]; exact h
  | .link a f b, cs, as, h => by
    unfold execC exec
    rw [h.halted]
    cases hh : as.halted
    · simp only [Bool.false_eq_true, if_false, cond_false]
      have ha := evalR_sound ch cs.fields as.links as.must h.env a cs.next cs.tick as.next h.next
      generalize evalC ch cs.env cs.fields cs.next cs.tick a = pc at ha ⊢
      generalize eval as.env as.links as.must as.next a = pa at ha ⊢
      obtain ⟨ca, n1, t1⟩ := pc
      obtain ⟨ra, m1⟩ := pa
      simp only at ha ⊢
      have hb := evalR_sound ch cs.fields as.links as.must h.env b n1 t1 m1 ha.2
      generalize evalC ch cs.env cs.fields n1 t1 b = pc at hb ⊢
      generalize eval as.env as.links as.must m1 b = pa at hb ⊢
      obtain ⟨cb, n2, t2⟩ := pc
      obtain ⟨rb, m2⟩ := pa
      simp only at hb ⊢
      exact ⟨by simpa using h.halted.trans hh, hb.2, h.env, h.result⟩
    · simp only [if_true, cond_true]; exact h
  | .ite c t e, cs, as, h => by
    unfold execC exec
    rw [h.halted]
    cases hh : as.halted
    · simp only [Bool.false_eq_true, if_false, cond_false]
      cases v.testBit c
      · simp only [Bool.false_eq_true, if_false, cond_false]
        exact execListR_inv v ch w e cs as h
      · simp only [if_true, cond_true]
        exact execListR_inv v ch w t cs as h
    · simp only [if_true, cond_true]; exact h
  | .ret e, cs, as, h => by
    unfold execC exec
    rw [h.halted]
    cases hh : as.halted
    · simp only [Bool.false_eq_true, if_false, cond_false]
      have he := evalR_sound ch cs.fields as.links as.must h.env e cs.next cs.tick as.next h.next
      generalize evalC ch cs.env cs.fields cs.next cs.tick e = pc at he ⊢
      generalize eval as.env as.links as.must as.next e = pa at he ⊢
      obtain ⟨c, n, t⟩ := pc
      obtain ⟨r, m⟩ := pa
      simp only at he ⊢
      exact ⟨rfl, he.2, h.env, Or.inr ⟨c, r, rfl, rfl, he.1⟩⟩
    · simp only [if_true, cond_true]; exact h
  | .raise, cs, as, h => by
    unfold execC exec
    rw [h.halted]
    cases hh : as.halted
    · simp only [Bool.false_eq_true, if_false, cond_false]
      exact ⟨rfl, h.next, h.env, h.result⟩
    · simp only [if_true, cond_true]; exact h
  | .widen ws, cs, as, h => by
    unfold execC exec
    cases hh : as.halted
    · simp only [cond_false]
      have he := relEnvR_widenFix (W := W) (nIn := nIn) as.links as.must as.next ws (ws.length * (as.next + 1) + 1) as.env h.env
      generalize widenFix as.links as.must as.next ws (ws.length * (as.next + 1) + 1) as.env = p at he ⊢
      obtain ⟨env', ok⟩ := p
      exact ⟨h.halted.trans hh, h.next, he, h.result⟩
    · simp only [cond_true]; exact h

theorem execListR_inv (v : Nat) (ch : Nat → Nat) (w : Nat → Nat → Nat) :
    ∀ (p : List Stmt) (cs : CState) (as : AState), SimR W nIn cs as → SimR W nIn (execListC v ch w p cs) (execList v p as)
  | [], cs, as, h => by unfold execListC execList; exact h
  | st :: rest, cs, as, h => by
    unfold execListC execList
    exact execListR_inv v ch w rest _ _ (execR_inv v ch w st cs as h)
end

/-! ## whole calls -/

theorem lookup_map (g : Nat → Ref) (l : List Nat) (x : Nat) :
    lookup (l.map fun i => (i, g i)) x = if x ∈ l then some (g x) else none := by
  induction l with
  | nil => simp [lookup]
  | cons a rest ih =>
    simp only [List.map_cons, lookup]
    cases h : Nat.beq a x
    · have := Nat.ne_of_beq_eq_false h
      simp only [cond_false, ih, List.mem_cons]
      have : ¬ x = a := fun e => this e.symm
      simp [this]
    · have := Nat.eq_of_beq_eq_true h
      subst this
      simp

theorem lookupC_map (g : Nat → CVal) (l : List Nat) (x : Nat) :
    lookupC (l.map fun i => (i, g i)) x = if x ∈ l then some (g x) else none := by
  induction l with
  | nil => simp [lookupC]
  | cons a rest ih =>
    simp only [List.map_cons, lookupC]
    cases h : Nat.beq a x
    · have := Nat.ne_of_beq_eq_false h
      simp only [cond_false, ih, List.mem_cons]
      have : ¬ x = a := fun e => this e.symm
      simp [this]
    · have := Nat.eq_of_beq_eq_true h
      subst this
      simp

/-- at the call the abstract state covers the concrete one, whatever the caller's world looks like -/
theorem init_sim (hW : W.ok nIn) : Sim W nIn (initC W nIn) (init nIn) := by
  obtain ⟨hlen, hargs, hfields⟩ := hW
  refine ⟨rfl, ⟨Nat.le_refl _, by simp [init, initC]⟩, ?_, ?_, ?_, fun _ _ => rfl, Or.inl ⟨rfl, rfl⟩⟩
  · intro x
    simp only [init, initC, lookup_map, lookupC_map, List.mem_range]
    by_cases hx : x < nIn
    · right
      refine ⟨⟨W.args.getD x 0, true⟩, ⟨2 ^ x, true⟩, by simp [hx], by simp [hx],
        ⟨x, mem_two_pow.mpr rfl, Or.inl ⟨?_, hx⟩⟩, fun _ => ⟨rfl, Or.inl ⟨x, hx, rfl, rfl⟩⟩⟩
      have hx' : x < W.args.length := by omega
      simp only [List.getD_eq_getElem?_getD, List.getElem?_eq_getElem hx', Option.getD_some]
      exact hargs _ (List.getElem_mem hx')
    · left; simp [hx]
  · intro h f t hin
    exact Or.inl (hfields (h, f, t) hin)
  · intro f m hin
    cases hin

/-- **simulation, whole call**: after any run of any program, either the analysis has logged a write to a parameter region
(or given up), or its final state covers the final concrete state -/
theorem run_inv (p : Prog) (hW : W.ok nIn) (v : Nat) (ch : Nat → Nat) (w : Nat → Nat → Nat) :
    Inv W nIn (runC p nIn W v ch w) (analyse p nIn v) :=
  execList_inv v ch w p _ _ (Or.inr (init_sim hW))

theorem not_bad_of_clean {s : AState} (h : cleanInputs nIn s = true) : ¬ Bad nIn s := by
  unfold cleanInputs at h
  simp only [Bool.and_eq_true, Bool.not_eq_true'] at h
  rintro (ho | ⟨r, hr, hm⟩)
  · rw [h.1] at ho; cases ho
  · have h0 := Nat.eq_of_beq_eq_true h.2
    have : (s.writes &&& (2 ^ nIn - 1)).testBit r = true := by
      rw [Nat.testBit_and, Nat.testBit_two_pow_sub_one]; simp [mem] at hm; simp [hm, hr]
    rw [h0, Nat.zero_testBit] at this
    cases this

/-- **soundness of `cleanInputs`**: if the analysis of a program under valuation `v` logs no write to a parameter region, then in
every concrete run under `v` — any world of the caller (shared and nested arguments included), any oracle, any effect of
writes — every cell of the caller ends with the content it had -/
theorem sound_clean (p : Prog) (hW : W.ok nIn) (v : Nat) (ch : Nat → Nat) (w : Nat → Nat → Nat)
    (h : cleanInputs nIn (analyse p nIn v) = true) (c : Nat) (hc : c < W.base) :
    (runC p nIn W v ch w).store c = W.store c := by
  rcases run_inv p hW v ch w with hbad | hsim
  · exact absurd hbad (not_bad_of_clean h)
  · exact hsim.store c hc

/-- **soundness of `freshResult`**: moreover what is returned is a cell allocated during the call -/
theorem sound_fresh (p : Prog) (hW : W.ok nIn) (v : Nat) (ch : Nat → Nat) (w : Nat → Nat → Nat)
    (h : freshResult nIn (analyse p nIn v) = true) :
    (∀ c, c < W.base → (runC p nIn W v ch w).store c = W.store c) ∧
    ∀ val, (runC p nIn W v ch w).result = some val → W.base ≤ val.cell := by
  unfold freshResult at h
  simp only [Bool.and_eq_true] at h
  refine ⟨fun c hc => sound_clean p hW v ch w h.1 c hc, fun val hval => ?_⟩
  rcases run_inv p hW v ch w with hbad | hsim
  · exact absurd hbad (not_bad_of_clean h.1)
  · rcases hsim.result with ⟨h1, _⟩ | ⟨c, r, h1, h2, ⟨r0, hr0, hc0⟩, _⟩
    · rw [h1] at hval; cases hval
    · rw [h1] at hval
      injection hval with hval
      subst hval
      have h3 := h.2
      rw [h2] at h3
      simp only at h3
      have h0 := Nat.eq_of_beq_eq_true h3
      rcases hc0 with ⟨_, h5⟩ | ⟨h4, _⟩
      · have : (r.mask &&& (2 ^ nIn - 1)).testBit r0 = true := by
          rw [Nat.testBit_and, Nat.testBit_two_pow_sub_one]; simp [mem] at hr0; simp [hr0, h5]
        rw [h0, Nat.zero_testBit] at this
        cases this
      · exact h4

theorem simR_of_sim {cs : CState} {as : AState} (h : Sim W nIn cs as) : SimR W nIn cs as := by
  refine ⟨h.halted, h.next, ?_, ?_⟩
  · intro x
    rcases h.env x with h1 | ⟨c, r, h1, h2, h3⟩
    · exact Or.inl h1
    · exact Or.inr ⟨c, r, h1, h2, h3.2⟩
  · rcases h.result with h1 | ⟨c, r, h1, h2, h3⟩
    · exact Or.inl h1
    · exact Or.inr ⟨c, r, h1, h2, h3.2⟩

/-- **soundness of `sameResult`**: whatever is returned is the very object passed as argument 0 — also when the function
converts that object in place -/
theorem sound_same (p : Prog) (hW : W.ok nIn) (hn : 0 < nIn) (v : Nat) (ch : Nat → Nat) (w : Nat → Nat → Nat)
    (h : sameResult (analyse p nIn v) = true) (val : CVal)
    (hval : (runC p nIn W v ch w).result = some val) : val = ⟨W.args.getD 0 0, true⟩ := by
  unfold sameResult at h
  have hsim : SimR W nIn (runC p nIn W v ch w) (analyse p nIn v) :=
    execListR_inv v ch w p _ _ (simR_of_sim (init_sim hW))
  rcases hsim.result with ⟨h1, _⟩ | ⟨c, r, h1, h2, hroot⟩
  · rw [h1] at hval; cases hval
  · rw [h1] at hval
    injection hval with hval
    subst hval
    rw [h2] at h
    simp only [beq_iff_eq] at h
    subst h
    obtain ⟨hd, hex⟩ := hroot rfl
    rcases hex with ⟨i, hi, hpow, hcell⟩ | ⟨k, hpow, _⟩
    · have : i = 0 := by
        have : mem 0 (2 ^ i) := by simp only [] at hpow; rw [← hpow]; decide
        exact mem_two_pow.mp this
      subst this
      cases c
      simp only at hd hcell
      rw [hd, hcell]
    · have : nIn + k = 0 := by
        have : mem 0 (2 ^ (nIn + k)) := by simp only [] at hpow; rw [← hpow]; decide
        exact mem_two_pow.mp this
      omega

end

end HdVerif.Aliasing
