import HdVerif.Model.SRDocument
/-! Lemmas about `constructSR` (option handling of the SR document constructors). -/
namespace HdVerif.SREvidence
open HdVerif

theorem srCompletionFlag_eq (b : Bool) : Gen.srCompletionFlag b = .ok (if b then "COMPLETE" else "PARTIAL") := by
  cases b <;> rfl

theorem srPreliminaryFlag_eq (b : Bool) : Gen.srPreliminaryFlag b = .ok (if b then "FINAL" else "PRELIMINARY") := by
  cases b <;> rfl

theorem srVerificationFlag_eq (b : Bool) : Gen.srVerificationFlag b = .ok (if b then "VERIFIED" else "UNVERIFIED") := by
  cases b <;> rfl

theorem srInstitutionStored_eq (i d : Bool) : Gen.srInstitutionStored i d = .ok (i, i && d) := by
  cases i <;> cases d <;> rfl

/-- `constructSR` in closed form: the two outer guards, then the decision core, then the option attributes -/
theorem constructSR_eq (o : Options) (a : DocArgs) :
    constructSR o a =
      if a.evidence.isEmpty then .error .value else
      if !Gen.srSupportedTransferSyntaxes.contains o.transferSyntax then .error .value else
      match buildSR (o.core a) with
      | .error e => .error e
      | .ok d =>
        .ok { doc := d,
              completion := if o.isComplete then "COMPLETE" else "PARTIAL",
              preliminary := if o.isFinal then "FINAL" else "PRELIMINARY",
              verification := if a.verified then "VERIFIED" else "UNVERIFIED",
              observers := (if a.verified then
                              match o.observer, o.organization with
                              | some n, some g => [⟨n, g⟩]
                              | _, _ => []
                            else []),
              institution := if o.institution.isSome then o.institution else none,
              department := if (o.institution.isSome && o.department.isSome) then o.department else none,
              procedureCodes := match o.procedureCodes with | some l => l | none => [],
              requested := o.requested } := by
  unfold constructSR
  simp only [srCompletionFlag_eq, srPreliminaryFlag_eq, srVerificationFlag_eq, srInstitutionStored_eq]
  split
  · rfl
  split
  · rfl
  cases hb : buildSR (o.core a) <;> rfl

/-- the verification guard of the decision core refuses a verified document without both details -/
theorem buildSR_verified_details (a : DocArgs) (d : Doc) (h : buildSR a = .ok d) (hv : a.verified = true) :
    a.hasObserver = true ∧ a.hasOrganization = true := by
  unfold buildSR at h
  split at h
  · cases h
  split at h
  · cases h
  rename_i _ hg
  unfold Gen.srVerifiedGuard at hg
  cases ho : a.hasObserver <;> cases hg' : a.hasOrganization <;> simp [hv, ho, hg'] at hg ⊢

end HdVerif.SREvidence
