import HdVerif.Proofs.SegRoundtrip
import HdVerif.Generated.T22
import HdVerif.Generated.T23
import HdVerif.Generated.T24
/-! C01 tie pass: hand-written decisions of `Model/SegEncode.lean` use exactly the expressions the current source
contains (regenerated as `Generated/T22..T24.lean` on every run).  Each statement breaks when the corresponding
comparison, constant, index or branch order of the source changes its meaning. -/
namespace HdVerif.SegEncodeLemmas
open HdVerif HdVerif.Gen HdVerif.SegEncode

/-! ## T22: value guards of `_check_and_cast_pixel_array` -/

/-- the model's fast test for undescribed labels (described numbers exactly 1..n) is the regenerated comparison of the
    largest pixel with the number of segments -/
theorem undescribed_fast_gen (segs : List Nat) (ps : List (List Nat))
    (hc : ((List.range' 1 segs.length).all (· ∈ segs) && segs.all (fun s => decide (1 ≤ s) && decide (s ≤ segs.length))) = true) :
    castUndescribedFast (segs.length : Int) (listMax (ps.map listMax) : Int) = .ok (undescribed segs ps) := by
  unfold castUndescribedFast undescribed
  simp only [hc, ↓reduceIte, Except.ok.injEq]
  rw [Bool.eq_iff_iff]
  simp

/-- the stacked-integer branch of `castValues` is: the regenerated refusal on the maximum, then the overlap decision -/
theorem castValues_intStack_gen (segs : List Nat) (t : SegType) (ps : List (List (List Nat))) :
    castValues segs t (.intStack ps) =
      (match castStackMaxGuard (listMax (ps.map fun pl => listMax (pl.map listMax)) : Int) with
       | .error e => .error e
       | .ok _ => .ok (Mask.intStack ps, overlapOfStack segs.length ps)) := by
  unfold castStackMaxGuard
  simp only [castValues]
  by_cases h : listMax (ps.map fun pl => listMax (pl.map listMax)) > 1
  · have : decide (((listMax (ps.map fun pl => listMax (pl.map listMax)) : Nat) : Int) > 1) = true := by simp; omega
    simp [h, this]
  · have : decide (((listMax (ps.map fun pl => listMax (pl.map listMax)) : Nat) : Int) > 1) = false := by simp; omega
    simp [h, this]

def overlapCode : Overlap → Int
  | .no => 0 | .yes => 1 | .undefined => 2

/-- per pixel the model's overlap test is the regenerated one ... -/
theorem overlapSum_gen (ch : List Nat) : castOverlapSum (sumNat ch : Int) = .ok (decide (sumNat ch > 1)) := by
  unfold castOverlapSum
  simp only [Except.ok.injEq]
  rw [Bool.eq_iff_iff]
  simp

/-- ... and the model's `overlapOfStack` is the regenerated decision (branch order: all zero, one channel, sums) -/
theorem overlapOfStack_gen (n : Nat) (ps : List (List (List Nat))) :
    castOverlapInt (listMax (ps.map fun pl => listMax (pl.map listMax)) : Int) (n : Int)
        (ps.any (fun pl => pl.any (fun ch => decide (sumNat ch > 1))))
      = .ok (overlapCode (overlapOfStack n ps)) := by
  unfold castOverlapInt overlapOfStack
  simp only []
  by_cases h0 : listMax (ps.map fun pl => listMax (pl.map listMax)) = 0
  · simp [h0, overlapCode]
  · have a : (((listMax (ps.map fun pl => listMax (pl.map listMax)) : Nat) : Int) == 0) = false := by
      have : ((listMax (ps.map fun pl => listMax (pl.map listMax)) : Nat) : Int) ≠ 0 := by omega
      simpa using this
    by_cases h1 : n = 1
    · simp [h0, a, h1, overlapCode]
    · have b : ((n : Int) == 1) = false := by
        have : (n : Int) ≠ 1 := by omega
        simpa using this
      cases hany : ps.any (fun pl => pl.any (fun ch => decide (sumNat ch > 1))) <;> simp [h0, a, h1, b, hany, overlapCode]

/-- float masks: the model's per-value range test is the regenerated refusal (applied to a single value) -/
theorem floatRange_gen (x : Rat) : (castFloatRange x x = .error .value) ↔ (x < 0 ∨ 1 < x) := by
  unfold castFloatRange
  simp only []
  by_cases h : x < 0 ∨ 1 < x
  · have : (decide (x < (0 : Rat) / 1) || decide (x > (1 : Rat) / 1)) = true := by
      rcases h with h | h <;> simp [h]
    simp only [this, ↓reduceIte, true_iff]
    exact h
  · have : (decide (x < (0 : Rat) / 1) || decide (x > (1 : Rat) / 1)) = false := by
      simp only [not_or, not_lt] at h
      simp [h.1, h.2]
    simp only [this, Bool.false_eq_true, ↓reduceIte, Bool.not_false, h, iff_false]
    intro hc; cases hc

/-- ... and so is the "genuine fraction" test for BINARY / LABELMAP -/
theorem floatNonBoolean_gen (x : Rat) : castFloatNonBoolean x = .ok (decide (0 < x ∧ x < 1)) := by
  unfold castFloatNonBoolean
  simp only [Except.ok.injEq]
  rw [Bool.eq_iff_iff]
  simp

/-- a 2-D/3-D array of fractions (`ndim == 3` after the lift) that passed the range test is refused exactly under the
    regenerated test on the number of described segments (fix d437594) -/
theorem castValues_fltLabel_fraction_gen (segs : List Nat) (ps : List (List Rat))
    (hr : (ps.any fun pl => pl.any fun x => decide (x < 0 ∨ 1 < x)) = false) :
    castValues segs .fractional (.fltLabel ps) =
      (match castFloatFractionGuard (segs.length : Int) 3 with
       | .error e => .error e
       | .ok _ => .ok (Mask.fltLabel ps, Overlap.no)) := by
  unfold castFloatFractionGuard
  simp only [castValues, hr, Bool.false_eq_true, ↓reduceIte]
  by_cases h : segs.length > 1
  · have : decide ((segs.length : Int) > 1) = true := by simp; omega
    simp [h, this]
  · have : decide ((segs.length : Int) > 1) = false := by simp; omega
    simp [h, this]

/-- a binary 2-D/3-D float mask (range and 0/1 tests passed; its largest value is 1 iff it holds a 1) is refused exactly
    under the regenerated label-1 test (fix f08a76b) -/
theorem castValues_fltLabel_binary_gen (segs : List Nat) (t : SegType) (ht : t ≠ .fractional) (ps : List (List Rat))
    (hr : (ps.any fun pl => pl.any fun x => decide (x < 0 ∨ 1 < x)) = false)
    (hb : (ps.any fun pl => pl.any fun x => decide (0 < x ∧ x < 1)) = false) :
    castValues segs t (.fltLabel ps) =
      (match castFloatLabelGuard 3 (if (ps.any fun pl => pl.any fun x => decide (x = 1)) then 1 else 0)
          (decide (1 ∉ segs)) with
       | .error e => .error e
       | .ok _ => .ok (Mask.intLabel (ps.map (·.map ratToNat)), Overlap.no)) := by
  unfold castFloatLabelGuard
  simp only [castValues, hr, hb, ht, Bool.false_eq_true, ↓reduceIte]
  cases hany : (ps.any fun pl => pl.any fun x => decide (x = 1)) <;> by_cases h1 : 1 ∈ segs <;> simp [h1]

/-! ## T23: decisions of the frame loop and of `_get_segment_pixel_array` -/

/-- a frame is kept unless it belongs to a single segment and the regenerated skip test holds -/
theorem keep_gen (omt : Bool) (sg : Option Nat) (px : List Nat) :
    ∃ b, loopSkipGuard omt (px.any (· != 0)) = .ok b ∧ keep omt sg px = !(sg.isSome && b) := by
  refine ⟨omt && !(px.any (· != 0)), rfl, ?_⟩
  unfold keep
  cases sg <;> cases omt <;> simp

/-- segment `s` of a stack is read from the regenerated channel index -/
theorem channelIndex_gen (s : Nat) (hs : 1 ≤ s) : segChannelIndex (s : Int) = .ok ((s - 1 : Nat) : Int) := by
  unfold segChannelIndex
  simp only [Except.ok.injEq]
  omega

/-- the value a binary pixel is stretched to is the regenerated product -/
theorem stretchValue_gen (v mfv : Nat) : segStretchValue (v : Int) (mfv : Int) = .ok ((v * mfv : Nat) : Int) := by
  unfold segStretchValue
  simp only [Except.ok.injEq]
  push_cast
  rfl

/-- stretching binary values (FRACTIONAL) happens exactly under the regenerated guard -/
theorem stretch_gen (mfv w : Nat) (b : List Nat) :
    ∃ g, segStretchGuard (mfv : Int) = .ok g ∧
      stretch .fractional mfv w b = if g then b.map (fun v => wrap w (v * mfv)) else b := by
  refine ⟨decide (mfv ≠ 1), ?_, ?_⟩
  · unfold segStretchGuard
    simp only [Except.ok.injEq]
    rw [Bool.eq_iff_iff]
    simp
  · unfold stretch
    by_cases h : mfv = 1
    · simp [h]
    · simp [h]

/-- fractions: `quantise` rounds (half to even) exactly the regenerated product -/
theorem quantise_gen (mfv : Nat) (x : Rat) :
    ∃ p, segFractionProduct x (mfv : Int) = .ok p ∧ quantise mfv x = (roundHalfEven p).toNat := by
  refine ⟨x * (mfv : Rat), ?_, rfl⟩
  unfold segFractionProduct
  simp

/-! ## T24: source-frame numbering on both sides -/

/-- the refusal of `get_pixels_by_source_frame` without the flag, in the model, is the regenerated test applied to the
    regenerated frame numbers: plane `p` is frame `pffgFrameNumber p`, missing iff above the largest recorded number -/
theorem missingRefusal_byFrame_gen (o : SegObj) (request : List Nat) :
    missingRefusal o request .byFrame =
      if request.any (fun p =>
          match pffgFrameNumber (p : Int) with
          | .ok f => (match srcFrameMissing f (listMax (o.keys.map (fun k =>
                          match pffgFrameNumber (k.2 : Int) with | .ok g => g.toNat | .error _ => 0)) : Int) with
                      | .ok b => b | .error _ => false)
          | .error _ => false)
      then some .value else none := by
  unfold missingRefusal pffgFrameNumber srcFrameMissing
  have e : (o.keys.map fun k => ((k.2 : Int) + 1).toNat) = o.keys.map (·.2 + 1) := by
    apply List.map_congr_left; intro k _; omega
  have hf : (fun p : Nat => decide (((p : Int) + 1) > ((listMax (o.keys.map (·.2 + 1)) : Nat) : Int)))
      = (fun p => decide (listMax (o.keys.map (·.2 + 1)) < p + 1)) := by
    funext p
    rw [Bool.eq_iff_iff]
    simp
    omega
  simp only [e, hf]

/-- every frame number the constructor records is admissible for the read side -/
theorem recorded_numbers_positive (p : Nat) :
    ∃ f, pffgFrameNumber (p : Int) = .ok f ∧ srcFramePositive f = .ok true := by
  refine ⟨(p : Int) + 1, rfl, ?_⟩
  unfold srcFramePositive
  simp only [Except.ok.injEq, decide_eq_true_eq]
  omega

end HdVerif.SegEncodeLemmas
