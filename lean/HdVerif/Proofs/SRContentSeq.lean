import HdVerif.Model.SRContentSeq
/-! Helper lemmas for C14: the shadow index as a refinement of the list. -/
namespace HdVerif.SRContentSeqLemmas
open HdVerif HdVerif.SRContentSeq

/-- the items of `l` whose concept name is `n`, in list order -/
def byName (n : Nat) (l : List Item) : List Item := l.filter (fun it => it.name == n)

/-- `lut` indexes exactly the multiset `M` -/
def LutFor (lut : Lut) (M : List Item) : Prop := ∀ n, (lut n).Perm (byName n M)

/-- the refinement invariant: every bucket is a permutation of the items of that name in the list -/
def Inv (s : Seq) : Prop := LutFor s.lut s.items

/-- the property's relationship-type rule for one item of a sequence with the given flags -/
def relOk (isRoot isSr : Bool) (it : Item) : Prop :=
  if isRoot then it.rel = none else (isSr = true → it.rel ≠ none)

instance (r s : Bool) (it : Item) : Decidable (relOk r s it) := by unfold relOk; infer_instance

def RelRule (s : Seq) : Prop := ∀ it ∈ s.items, relOk s.isRoot s.isSr it

def FlagsOk (s : Seq) : Prop := s.isRoot = true → s.isSr = true

/-- everything that holds of a reachable sequence -/
structure WF (s : Seq) : Prop where
  inv : Inv s
  rule : RelRule s
  flags : FlagsOk s

theorem byName_append (n : Nat) (a b : List Item) : byName n (a ++ b) = byName n a ++ byName n b := by
  simp [byName]

theorem byName_cons_eq (x : Item) (l : List Item) : byName x.name (x :: l) = x :: byName x.name l := by
  simp [byName]

theorem byName_cons_ne {n : Nat} (x : Item) (l : List Item) (h : n ≠ x.name) : byName n (x :: l) = byName n l := by
  have : ¬ x.name = n := fun e => h e.symm
  simp [byName, this]

theorem byName_perm (n : Nat) {a b : List Item} (h : a.Perm b) : (byName n a).Perm (byName n b) :=
  List.Perm.filter _ h

theorem mem_byName {n : Nat} {x : Item} {l : List Item} : x ∈ byName n l ↔ x ∈ l ∧ x.name = n := by
  simp [byName]

theorem LutFor_perm {lut : Lut} {M M' : List Item} (h : M.Perm M') (H : LutFor lut M) : LutFor lut M' :=
  fun n => (H n).trans (byName_perm n h)

theorem LutFor_empty : LutFor emptyLut [] := by
  intro n; simp [emptyLut, byName]

theorem LutFor_add {lut : Lut} {M : List Item} (x : Item) (H : LutFor lut M) : LutFor (lutAdd lut x) (M ++ [x]) := by
  intro n
  unfold lutAdd
  by_cases h : n = x.name
  · subst h
    simp only [↓reduceIte, byName_append, byName_cons_eq]
    exact List.Perm.append_right _ (H _)
  · simp only [h, ↓reduceIte, byName_append, byName_cons_ne x [] h]
    simpa [byName] using H n

theorem LutFor_addAll {lut : Lut} {M : List Item} (xs : List Item) (H : LutFor lut M) :
    LutFor (lutAddAll lut xs) (M ++ xs) := by
  induction xs generalizing lut M with
  | nil => simpa [lutAddAll] using H
  | cons x xs ih =>
    have := ih (LutFor_add x H)
    simpa [lutAddAll, List.append_assoc] using this

theorem LutFor_remove {lut : Lut} {M : List Item} (x : Item) (H : LutFor lut (x :: M)) :
    ∃ lut', lutRemove lut x = .ok lut' ∧ LutFor lut' M := by
  have hx : x ∈ lut x.name := by
    have := (H x.name).mem_iff (a := x)
    rw [byName_cons_eq] at this
    exact this.mpr (by simp)
  refine ⟨_, by unfold lutRemove; rw [if_pos hx], ?_⟩
  intro n
  by_cases h : n = x.name
  · subst h
    simp only [↓reduceIte]
    have := List.Perm.erase x (H x.name)
    rw [byName_cons_eq, List.erase_cons_head] at this
    exact this
  · simp only [h, ↓reduceIte]
    have := H n
    rwa [byName_cons_ne x M h] at this

theorem LutFor_removeAll {lut : Lut} (old : List Item) {M : List Item} (H : LutFor lut (old ++ M)) :
    ∃ lut', lutRemoveAll lut old = (lut', none) ∧ LutFor lut' M := by
  induction old generalizing lut with
  | nil => exact ⟨lut, rfl, by simpa using H⟩
  | cons x xs ih =>
    obtain ⟨l1, h1, H1⟩ := LutFor_remove x (M := xs ++ M) (by simpa using H)
    obtain ⟨l2, h2, H2⟩ := ih H1
    exact ⟨l2, by simp [lutRemoveAll, h1, h2], H2⟩

/-- membership in a bucket is membership in the list -/
theorem mem_lut_iff {s : Seq} (h : Inv s) (x : Item) : x ∈ s.lut x.name ↔ x ∈ s.items := by
  rw [(h x.name).mem_iff, mem_byName]; simp

/-! ## decomposition of the list around the positions an operation touches -/

theorem split_at (l : List Item) {a b : Nat} (h : a ≤ b) :
    l.Perm ((l.drop a).take (b - a) ++ (l.take a ++ l.drop b)) := by
  have e : l = l.take a ++ ((l.drop a).take (b - a) ++ l.drop b) := by
    have h2 : (l.drop a).drop (b - a) = l.drop b := by
      rw [List.drop_drop]; congr 1; omega
    rw [← h2, List.take_append_drop, List.take_append_drop]
  have p : (l.take a ++ ((l.drop a).take (b - a) ++ l.drop b)).Perm
      ((l.drop a).take (b - a) ++ (l.take a ++ l.drop b)) := by
    rw [← List.append_assoc, ← List.append_assoc]
    exact List.Perm.append_right _ List.perm_append_comm
  exact (List.Perm.of_eq e).trans p

theorem set_perm (l : List Item) {k : Nat} (x : Item) (h : k < l.length) :
    (l.set k x).Perm ((l.take k ++ l.drop (k + 1)) ++ [x]) := by
  rw [List.set_eq_take_append_cons_drop, if_pos h, List.append_assoc]
  exact List.Perm.append_left _ (List.perm_append_singleton x _).symm

theorem keep_remove_perm (l : List Item) (idxs : List Nat) (off : Nat) :
    l.Perm (keepIdxs l idxs off ++ removeIdxs l idxs off) := by
  have := (List.filter_append_perm (fun p : Item × Nat => idxs.contains p.2) (l.zipIdx off)).map Prod.fst
  rw [List.map_append, List.zipIdx_map_fst] at this
  exact this.symm

theorem getSel_delSel_perm (l : List Item) (sel : Sel) (h : ∀ a b, sel = .plain a b → a ≤ b) :
    l.Perm (getSel l sel ++ delSel l sel) := by
  cases sel with
  | plain a b => exact split_at l (h a b rfl)
  | ext asc rev =>
    cases rev with
    | true =>
      simp only [getSel, delSel, ↓reduceIte]
      exact (keep_remove_perm l asc 0).trans (List.Perm.append_right _ (List.reverse_perm _).symm)
    | false =>
      simp only [getSel, delSel, Bool.false_eq_true, ↓reduceIte]
      exact keep_remove_perm l asc 0

theorem removeIdxs_cons_in (a : Item) (l : List Item) (idxs : List Nat) (pos : Nat) (h : idxs.contains pos = true) :
    removeIdxs (a :: l) idxs pos = removeIdxs l idxs (pos + 1) := by
  have h' : pos ∈ idxs := by simpa using h
  simp [removeIdxs, List.zipIdx_cons, h']

theorem removeIdxs_cons_out (a : Item) (l : List Item) (idxs : List Nat) (pos : Nat) (h : idxs.contains pos = false) :
    removeIdxs (a :: l) idxs pos = a :: removeIdxs l idxs (pos + 1) := by
  have h' : pos ∉ idxs := by simpa using h
  simp [removeIdxs, List.zipIdx_cons, h']

theorem setWalk_perm (l : List Item) (idxs : List Nat) (xs : List Item) (pos : Nat) (l' : List Item)
    (h : setWalk l idxs xs pos = some l') : l'.Perm (removeIdxs l idxs pos ++ xs) := by
  induction l generalizing xs pos l' with
  | nil =>
    cases xs with
    | nil => simp [setWalk] at h; subst h; simp [removeIdxs]
    | cons x xs => simp [setWalk] at h
  | cons a l ih =>
    unfold setWalk at h
    by_cases hc : idxs.contains pos = true
    · rw [if_pos hc] at h
      cases xs with
      | nil => simp at h
      | cons x xs' =>
        simp only [Option.map_eq_some_iff] at h
        obtain ⟨l'', h1, h2⟩ := h
        subst h2
        rw [removeIdxs_cons_in a l idxs pos hc]
        exact ((ih xs' (pos + 1) l'' h1).cons x).trans List.perm_middle.symm
    · rw [if_neg hc] at h
      simp only [Option.map_eq_some_iff] at h
      obtain ⟨l'', h1, h2⟩ := h
      subst h2
      rw [removeIdxs_cons_out a l idxs pos (by simpa using hc)]
      exact (ih xs (pos + 1) l'' h1).cons a

theorem setSel_perm (l xs : List Item) (sel : Sel) (l' : List Item) (h : setSel l xs sel = .ok l') :
    l'.Perm (delSel l sel ++ xs) := by
  cases sel with
  | plain a b =>
    simp only [setSel, Except.ok.injEq] at h
    subst h
    simp only [delSel, List.append_assoc]
    exact List.Perm.append_left _ List.perm_append_comm
  | ext asc rev =>
    simp only [setSel] at h
    by_cases hl : xs.length ≠ asc.length
    · rw [if_pos hl] at h; cases h
    · rw [if_neg hl] at h
      cases hw : setWalk l asc (if rev = true then xs.reverse else xs) 0 with
      | none => rw [hw] at h; cases h
      | some l'' =>
        rw [hw] at h
        have := setWalk_perm l asc _ 0 l'' hw
        cases h
        simp only [delSel]
        cases rev with
        | true => exact this.trans (List.Perm.append_left _ (List.reverse_perm _))
        | false => exact this

/-- a resolved plain slice has its bounds in order -/
theorem resolveSlice_plain {n : Nat} {start stop step : Option Int} {sel : Sel}
    (h : resolveSlice n start stop step = .ok sel) : ∀ a b, sel = .plain a b → a ≤ b := by
  intro a b hs
  subst hs
  unfold resolveSlice at h
  simp only at h
  split at h
  · cases h
  · split at h
    · simp only [Except.ok.injEq, Sel.plain.injEq] at h
      obtain ⟨h1, h2⟩ := h
      subst h1
      split at h2 <;> omega
    · split at h <;> cases h

theorem normIdx_lt {n : Nat} {i : Int} {k : Nat} (h : normIdx n i = .ok k) : k < n := by
  unfold normIdx at h
  by_cases hi : i < 0
  · simp only [hi, ↓reduceIte] at h
    by_cases hc : 0 ≤ i + (n : Int) ∧ i + (n : Int) < n
    · rw [if_pos hc] at h; cases h; omega
    · rw [if_neg hc] at h; cases h
  · simp only [hi, ↓reduceIte] at h
    by_cases hc : 0 ≤ i ∧ i < n
    · rw [if_pos hc] at h; cases h; omega
    · rw [if_neg hc] at h; cases h

/-! ## checks -/

theorem checkAll_ok {f : Item → Except ErrKind Unit} {xs : List Item} :
    checkAll f xs = .ok () ↔ ∀ x ∈ xs, f x = .ok () := by
  induction xs with
  | nil => simp [checkAll]
  | cons x xs ih =>
    unfold checkAll
    cases hx : f x with
    | ok u => cases u; simp [ih, hx]
    | error e => simp [hx]

theorem appendCheck_ok_iff {s : Seq} (hf : FlagsOk s) (it : Item) :
    appendCheck s it = .ok () ↔ relOk s.isRoot s.isSr it := by
  unfold appendCheck relOk FlagsOk at *
  cases hr : s.isRoot <;> cases hs : s.isSr <;> cases hrel : it.rel <;> simp_all [Gen.csAppendCheck, unitOf]

theorem appendCheck_err {s : Seq} (it : Item) (e : ErrKind) (h : appendCheck s it = .error e) : e = .attribute := by
  unfold appendCheck at h
  cases hr : s.isRoot <;> cases hs : s.isSr <;> cases hrel : it.rel <;> simp_all [Gen.csAppendCheck, unitOf]

theorem setitemCheck_ok_iff {s : Seq} (hf : FlagsOk s) (it : Item) :
    setitemCheck s it = .ok () ↔ relOk s.isRoot s.isSr it := by
  unfold setitemCheck relOk FlagsOk at *
  cases hr : s.isRoot <;> cases hs : s.isSr <;> cases hrel : it.rel <;> simp_all [Gen.csSetitemCheck, unitOf]

theorem setitemCheck_err {s : Seq} (it : Item) (e : ErrKind) (h : setitemCheck s it = .error e) : e = .attribute := by
  unfold setitemCheck at h
  cases hr : s.isRoot <;> cases hs : s.isSr <;> cases hrel : it.rel <;> simp_all [Gen.csSetitemCheck, unitOf]

theorem insertCheck_ok_iff (s : Seq) (it : Item) :
    insertCheck s it = .ok () ↔ relOk s.isRoot s.isSr it := by
  unfold insertCheck relOk
  cases hr : s.isRoot <;> cases hs : s.isSr <;> cases hrel : it.rel <;> simp_all [Gen.csInsertCheck, unitOf]

theorem insertCheck_err {s : Seq} (it : Item) (e : ErrKind) (h : insertCheck s it = .error e) : e = .attribute := by
  unfold insertCheck at h
  cases hr : s.isRoot <;> cases hs : s.isSr <;> cases hrel : it.rel <;> simp_all [Gen.csInsertCheck, unitOf]

theorem ctorCheck_relOk {r sr : Bool} {it : Item} (h : ctorCheck r sr it = .ok ()) : relOk r sr it := by
  unfold ctorCheck at h
  unfold relOk
  cases r <;> cases sr <;> cases hrel : it.rel <;> cases hc : it.isContainer <;> simp_all [Gen.csCtorCheck, unitOf]

/-- what the constructor accepts (stronger than the rule: root items must be containers, items of non-SR
sequences must have no relationship type) -/
theorem ctorCheck_ok_iff (r sr : Bool) (it : Item) :
    ctorCheck r sr it = .ok () ↔
      (if r then it.rel = none ∧ it.isContainer = true else if sr then it.rel ≠ none else it.rel = none) := by
  unfold ctorCheck
  cases r <;> cases sr <;> cases hrel : it.rel <;> cases hc : it.isContainer <;> simp_all [Gen.csCtorCheck, unitOf]

theorem ctorFlags_ok_iff (r sr : Bool) : (∃ b, Gen.csCtorFlags r sr = .ok b) ↔ (r = true → sr = true) := by
  cases r <;> cases sr <;> simp [Gen.csCtorFlags]

/-- flags are carried over -/
def Same (s s' : Seq) : Prop := s'.isRoot = s.isRoot ∧ s'.isSr = s.isSr

theorem Same.refl (s : Seq) : Same s s := ⟨rfl, rfl⟩
theorem Same.trans {a b c : Seq} (h1 : Same a b) (h2 : Same b c) : Same a c :=
  ⟨h2.1.trans h1.1, h2.2.trans h1.2⟩

/-! ## construction -/

theorem construct_ok {items : List Item} {r sr : Bool} {s : Seq} (h : construct items r sr = .ok s) :
    s.items = items ∧ s.isRoot = r ∧ s.isSr = sr ∧ WF s ∧ (∀ x ∈ items, ctorCheck r sr x = .ok ()) := by
  unfold construct at h
  cases hfl : Gen.csCtorFlags r sr with
  | error e => simp only [hfl] at h; cases h
  | ok b =>
    simp only [hfl] at h
    cases hc : checkAll (ctorCheck r sr) items with
    | error e => simp only [hc] at h; cases h
    | ok u =>
      simp only [hc] at h
      cases h
      have hall := checkAll_ok.mp (by cases u; exact hc)
      refine ⟨rfl, rfl, rfl, ⟨?_, ?_, ?_⟩, hall⟩
      · have := LutFor_addAll items LutFor_empty
        simpa [Inv] using this
      · intro it hit
        exact ctorCheck_relOk (hall it hit)
      · exact (ctorFlags_ok_iff r sr).mp ⟨b, hfl⟩

theorem construct_iff (items : List Item) (r sr : Bool) :
    (∃ s, construct items r sr = .ok s) ↔
      ((r = true → sr = true) ∧ ∀ it ∈ items,
        (if r then it.rel = none ∧ it.isContainer = true else if sr then it.rel ≠ none else it.rel = none)) := by
  constructor
  · rintro ⟨s, h⟩
    obtain ⟨_, _, _, hw, hall⟩ := construct_ok h
    refine ⟨?_, fun it hit => (ctorCheck_ok_iff r sr it).mp (hall it hit)⟩
    have := hw.flags
    obtain ⟨_, h2, h3, _⟩ := construct_ok h
    unfold FlagsOk at this
    rw [h2, h3] at this
    exact this
  · rintro ⟨hf, hall⟩
    obtain ⟨b, hb⟩ := (ctorFlags_ok_iff r sr).mpr hf
    have hc : checkAll (ctorCheck r sr) items = .ok () :=
      checkAll_ok.mpr (fun it hit => (ctorCheck_ok_iff r sr it).mpr (hall it hit))
    exact ⟨{ items := items, lut := lutAddAll emptyLut items, isRoot := r, isSr := sr }, by unfold construct; simp only [hb, hc]⟩

/-! ## append / extend / insert -/

theorem append_wf {s : Seq} (h : WF s) (it : Item) : WF (append s it).1 ∧ Same s (append s it).1 := by
  unfold append
  cases hc : appendCheck s it with
  | error e => exact ⟨h, Same.refl s⟩
  | ok u =>
    refine ⟨⟨LutFor_add it h.inv, ?_, h.flags⟩, Same.refl s⟩
    intro x hx
    simp only [List.mem_append, List.mem_singleton] at hx
    rcases hx with hx | hx
    · exact h.rule x hx
    · subst hx; exact (appendCheck_ok_iff h.flags x).mp hc

theorem append_accepts {s : Seq} (h : WF s) (it : Item) (hr : relOk s.isRoot s.isSr it) :
    append s it = ({ s with lut := lutAdd s.lut it, items := s.items ++ [it] }, none) := by
  unfold append
  rw [(appendCheck_ok_iff h.flags it).mpr hr]

theorem append_refuses {s : Seq} (h : WF s) (it : Item) (hr : ¬ relOk s.isRoot s.isSr it) :
    append s it = (s, some .attribute) := by
  unfold append
  cases hc : appendCheck s it with
  | error e => rw [appendCheck_err it e hc]
  | ok u => exact absurd ((appendCheck_ok_iff h.flags it).mp hc) hr

theorem extend_wf {s : Seq} (h : WF s) (xs : List Item) : WF (extend s xs).1 ∧ Same s (extend s xs).1 := by
  induction xs generalizing s with
  | nil => exact ⟨h, Same.refl s⟩
  | cons x xs ih =>
    unfold extend
    have ha := append_wf h x
    cases hs : append s x with
    | mk s' e =>
      rw [hs] at ha
      cases e with
      | none =>
        have := ih ha.1
        exact ⟨this.1, ha.2.trans this.2⟩
      | some e => exact ha

theorem extend_accepts {s : Seq} (h : WF s) (xs : List Item) (hr : ∀ x ∈ xs, relOk s.isRoot s.isSr x) :
    ∃ s', extend s xs = (s', none) ∧ s'.items = s.items ++ xs ∧ WF s' ∧ Same s s' := by
  induction xs generalizing s with
  | nil => exact ⟨s, rfl, by simp, h, Same.refl s⟩
  | cons x xs ih =>
    have hx := append_accepts h x (hr x (by simp))
    have hw := append_wf h x
    rw [hx] at hw
    obtain ⟨s', h1, h2, h3, h4⟩ := ih hw.1 (by
      intro y hy
      have := hr y (by simp [hy])
      simpa using this)
    refine ⟨s', ?_, ?_, h3, hw.2.trans h4⟩
    · unfold extend; rw [hx]; exact h1
    · rw [h2]; simp

/-- `extend` refuses at the first item that breaks the rule; what came before stays in -/
theorem extend_refuses {s : Seq} (h : WF s) (pre : List Item) (bad : Item) (post : List Item)
    (hpre : ∀ x ∈ pre, relOk s.isRoot s.isSr x) (hbad : ¬ relOk s.isRoot s.isSr bad) :
    ∃ s', extend s (pre ++ bad :: post) = (s', some .attribute) ∧ s'.items = s.items ++ pre := by
  induction pre generalizing s with
  | nil =>
    refine ⟨s, ?_, by simp⟩
    simp only [List.nil_append]
    unfold extend
    rw [append_refuses h bad hbad]
  | cons x pre ih =>
    have hx := append_accepts h x (hpre x (by simp))
    have hw := append_wf h x
    rw [hx] at hw
    obtain ⟨s', h1, h2⟩ := ih hw.1 (by
      intro y hy
      have := hpre y (by simp [hy])
      simpa using this) (by simpa using hbad)
    refine ⟨s', ?_, ?_⟩
    · simp only [List.cons_append]
      unfold extend; rw [hx]; exact h1
    · rw [h2]; simp

theorem insert_perm (l : List Item) (p : Nat) (it : Item) : (l.take p ++ it :: l.drop p).Perm (l ++ [it]) := by
  have : (l.take p ++ it :: l.drop p).Perm (it :: (l.take p ++ l.drop p)) := List.perm_middle
  rw [List.take_append_drop] at this
  exact this.trans (List.perm_append_singleton it l).symm

theorem insert_wf {s : Seq} (h : WF s) (pos : Int) (it : Item) : WF (SRContentSeq.insert s pos it).1 ∧ Same s (SRContentSeq.insert s pos it).1 := by
  unfold SRContentSeq.insert
  cases hc : insertCheck s it with
  | error e => exact ⟨h, Same.refl s⟩
  | ok u =>
    refine ⟨⟨?_, ?_, h.flags⟩, Same.refl s⟩
    · exact LutFor_perm (insert_perm _ _ _).symm (LutFor_add it h.inv)
    · intro x hx
      have hx' := (insert_perm s.items (insertPos s.items.length pos) it).mem_iff.mp hx
      simp only [List.mem_append, List.mem_singleton] at hx'
      rcases hx' with hx' | hx'
      · exact h.rule x hx'
      · subst hx'; exact (insertCheck_ok_iff s x).mp hc

theorem insert_accepts (s : Seq) (pos : Int) (it : Item) (hr : relOk s.isRoot s.isSr it) :
    (SRContentSeq.insert s pos it).2 = none ∧
    (SRContentSeq.insert s pos it).1.items = s.items.take (insertPos s.items.length pos) ++ it :: s.items.drop (insertPos s.items.length pos) := by
  unfold SRContentSeq.insert
  rw [(insertCheck_ok_iff s it).mpr hr]
  exact ⟨rfl, rfl⟩

theorem insert_refuses (s : Seq) (pos : Int) (it : Item) (hr : ¬ relOk s.isRoot s.isSr it) :
    SRContentSeq.insert s pos it = (s, some .attribute) := by
  unfold SRContentSeq.insert
  cases hc : insertCheck s it with
  | error e => rw [insertCheck_err it e hc]
  | ok u => exact absurd ((insertCheck_ok_iff s it).mp hc) hr

/-! ## `__setitem__` / `__delitem__` -/

theorem commitReplace_wf {s : Seq} {items' old new rest : List Item} (h : WF s)
    (h1 : s.items.Perm (old ++ rest)) (h2 : items'.Perm (rest ++ new))
    (hn : ∀ x ∈ new, relOk s.isRoot s.isSr x) :
    ∃ s', commitReplace s items' old new = (s', none) ∧ s'.items = items' ∧ WF s' ∧ Same s s' := by
  obtain ⟨lut1, hl, H1⟩ := LutFor_removeAll old (LutFor_perm h1 h.inv)
  refine ⟨{ s with items := items', lut := lutAddAll lut1 new }, ?_, rfl, ⟨?_, ?_, h.flags⟩, Same.refl s⟩
  · unfold commitReplace; rw [hl]
  · exact LutFor_perm h2.symm (LutFor_addAll new H1)
  · intro x hx
    have := h2.mem_iff.mp hx
    simp only [List.mem_append] at this
    rcases this with hx' | hx'
    · exact h.rule x (h1.mem_iff.mpr (by simp [hx']))
    · exact hn x hx'

theorem commitDelete_wf {s : Seq} {items' old : List Item} (h : WF s) (h1 : s.items.Perm (old ++ items')) :
    ∃ s', commitDelete s items' old = (s', none) ∧ s'.items = items' ∧ WF s' ∧ Same s s' := by
  obtain ⟨lut1, hl, H1⟩ := LutFor_removeAll old (LutFor_perm h1 h.inv)
  refine ⟨{ s with items := items', lut := lut1 }, ?_, rfl, ⟨H1, ?_, h.flags⟩, Same.refl s⟩
  · unfold commitDelete; rw [hl]
  · intro x hx
    exact h.rule x (h1.mem_iff.mpr (by simp [hx]))

/-- an accepted `seq[i] = x` -/
theorem setItem_accepts {s : Seq} (h : WF s) (i : Int) (x : Item) (k : Nat)
    (hr : relOk s.isRoot s.isSr x) (hk : normIdx s.items.length i = .ok k) :
    ∃ s', setItem s i x = (s', none) ∧ s'.items = s.items.set k x ∧ WF s' ∧ Same s s' := by
  unfold setItem
  rw [(setitemCheck_ok_iff h.flags x).mpr hr, hk]
  have hlt := normIdx_lt hk
  exact commitReplace_wf (rest := s.items.take k ++ s.items.drop (k + 1)) h
    (by simpa using split_at s.items (Nat.le_succ k)) (set_perm s.items x hlt)
    (by intro y hy; simp only [List.mem_singleton] at hy; subst hy; exact hr)

theorem setItem_wf {s : Seq} (h : WF s) (i : Int) (x : Item) : WF (setItem s i x).1 ∧ Same s (setItem s i x).1 := by
  cases hc : setitemCheck s x with
  | error e => unfold setItem; rw [hc]; exact ⟨h, Same.refl s⟩
  | ok u =>
    cases hk : normIdx s.items.length i with
    | error e => unfold setItem; rw [hc, hk]; exact ⟨h, Same.refl s⟩
    | ok k =>
      obtain ⟨s', h1, _, h3, h4⟩ := setItem_accepts h i x k ((setitemCheck_ok_iff h.flags x).mp hc) hk
      rw [h1]; exact ⟨h3, h4⟩

theorem setItem_refuses {s : Seq} (h : WF s) (i : Int) (x : Item) (hr : ¬ relOk s.isRoot s.isSr x) :
    setItem s i x = (s, some .attribute) := by
  unfold setItem
  cases hc : setitemCheck s x with
  | error e => rw [setitemCheck_err x e hc]
  | ok u => exact absurd ((setitemCheck_ok_iff h.flags x).mp hc) hr

/-- an accepted `seq[a:b:c] = xs` -/
theorem setSlice_accepts {s : Seq} (h : WF s) (a b c : Option Int) (xs : List Item) (sel : Sel) (items' : List Item)
    (hr : ∀ x ∈ xs, relOk s.isRoot s.isSr x) (hsel : resolveSlice s.items.length a b c = .ok sel)
    (hset : setSel s.items xs sel = .ok items') :
    ∃ s', setSlice s a b c xs = (s', none) ∧ s'.items = items' ∧ WF s' ∧ Same s s' := by
  unfold setSlice
  simp only [checkAll_ok.mpr (fun x hx => (setitemCheck_ok_iff h.flags x).mpr (hr x hx)), hsel, hset]
  exact commitReplace_wf (rest := delSel s.items sel) h
    (getSel_delSel_perm s.items sel (resolveSlice_plain hsel)) (setSel_perm s.items xs sel items' hset) hr

theorem setSlice_wf {s : Seq} (h : WF s) (a b c : Option Int) (xs : List Item) :
    WF (setSlice s a b c xs).1 ∧ Same s (setSlice s a b c xs).1 := by
  cases hc : checkAll (setitemCheck s) xs with
  | error e => unfold setSlice; rw [hc]; exact ⟨h, Same.refl s⟩
  | ok u =>
    cases hsel : resolveSlice s.items.length a b c with
    | error e => unfold setSlice; rw [hc, hsel]; exact ⟨h, Same.refl s⟩
    | ok sel =>
      cases hset : setSel s.items xs sel with
      | error e => unfold setSlice; simp only [hc, hsel, hset]; exact ⟨h, Same.refl s⟩
      | ok items' =>
        obtain ⟨s', h1, _, h3, h4⟩ := setSlice_accepts h a b c xs sel items'
          (fun x hx => (setitemCheck_ok_iff h.flags x).mp (checkAll_ok.mp hc x hx)) hsel hset
        rw [h1]; exact ⟨h3, h4⟩

theorem setSlice_refuses {s : Seq} (h : WF s) (a b c : Option Int) (xs : List Item)
    (hr : ∃ x ∈ xs, ¬ relOk s.isRoot s.isSr x) : ∃ e, setSlice s a b c xs = (s, some e) := by
  unfold setSlice
  cases hc : checkAll (setitemCheck s) xs with
  | error e => exact ⟨e, rfl⟩
  | ok u =>
    obtain ⟨x, hx, hbad⟩ := hr
    exact absurd ((setitemCheck_ok_iff h.flags x).mp (checkAll_ok.mp hc x hx)) hbad

theorem delItem_accepts {s : Seq} (h : WF s) (i : Int) (k : Nat) (hk : normIdx s.items.length i = .ok k) :
    ∃ s', delItem s i = (s', none) ∧ s'.items = s.items.take k ++ s.items.drop (k + 1) ∧ WF s' ∧ Same s s' := by
  unfold delItem
  rw [hk]
  exact commitDelete_wf h (by simpa using split_at s.items (Nat.le_succ k))

theorem delItem_wf {s : Seq} (h : WF s) (i : Int) : WF (delItem s i).1 ∧ Same s (delItem s i).1 := by
  cases hk : normIdx s.items.length i with
  | error e => unfold delItem; rw [hk]; exact ⟨h, Same.refl s⟩
  | ok k =>
    obtain ⟨s', h1, _, h3, h4⟩ := delItem_accepts h i k hk
    rw [h1]; exact ⟨h3, h4⟩

theorem delSlice_accepts {s : Seq} (h : WF s) (a b c : Option Int) (sel : Sel)
    (hsel : resolveSlice s.items.length a b c = .ok sel) :
    ∃ s', delSlice s a b c = (s', none) ∧ s'.items = delSel s.items sel ∧ WF s' ∧ Same s s' := by
  unfold delSlice
  rw [hsel]
  exact commitDelete_wf h (getSel_delSel_perm s.items sel (resolveSlice_plain hsel))

theorem delSlice_wf {s : Seq} (h : WF s) (a b c : Option Int) : WF (delSlice s a b c).1 ∧ Same s (delSlice s a b c).1 := by
  cases hsel : resolveSlice s.items.length a b c with
  | error e => unfold delSlice; rw [hsel]; exact ⟨h, Same.refl s⟩
  | ok sel =>
    obtain ⟨s', h1, _, h3, h4⟩ := delSlice_accepts h a b c sel hsel
    rw [h1]; exact ⟨h3, h4⟩

/-! ## queries -/

theorem eqv_name {x y : Item} (h : y.eqv x = true) : y.name = x.name := by
  unfold Item.eqv at h
  simp only [Bool.and_eq_true, beq_iff_eq] at h
  exact h.1.1.1.1

theorem eqv_refl (x : Item) : x.eqv x = true := by simp [Item.eqv]

/-- some entry of the bucket is `==` x iff some item of the list is -/
theorem any_lut_iff {s : Seq} (h : Inv s) (x : Item) :
    (s.lut x.name).any (fun y => y.eqv x) = s.items.any (fun y => y.eqv x) := by
  rw [Bool.eq_iff_iff, List.any_eq_true, List.any_eq_true]
  constructor
  · rintro ⟨y, hy, he⟩
    exact ⟨y, (mem_byName.mp ((h x.name).mem_iff.mp hy)).1, he⟩
  · rintro ⟨y, hy, he⟩
    exact ⟨y, (h x.name).mem_iff.mpr (mem_byName.mpr ⟨hy, eqv_name he⟩), he⟩

theorem index_spec {s : Seq} (h : Inv s) (x : Item) :
    index s x = if s.items.any (fun y => y.eqv x) then .ok (s.items.findIdx (fun y => y.eqv x)) else .error .value := by
  unfold index
  rw [any_lut_iff h x]
  by_cases hx : s.items.any (fun y => y.eqv x) = true
  · rw [if_pos hx, if_pos hx]
    have : s.items.findIdx (fun y => y.eqv x) < s.items.length := by
      rw [List.findIdx_lt_length]
      obtain ⟨y, hy, he⟩ := List.any_eq_true.mp hx
      exact ⟨y, hy, he⟩
    rw [if_pos this]
  · rw [if_neg hx, if_neg hx]

theorem contains_spec {s : Seq} (h : Inv s) (x : Item) : contains s x = s.items.any (fun y => y.eqv x) := by
  unfold contains
  rw [index_spec h x]
  by_cases hx : s.items.any (fun y => y.eqv x) = true <;> simp [hx]

theorem collect_spec {s : Seq} (h : WF s) (xs : List Item) (hr : ∀ x ∈ xs, relOk s.isRoot s.isSr x) :
    ∃ r, collect s xs = .ok r ∧ r.items = xs ∧ WF r ∧ Same s r := by
  unfold collect
  obtain ⟨b, hflag⟩ := (ctorFlags_ok_iff s.isRoot s.isSr).mpr h.flags
  have hc : construct [] s.isRoot s.isSr
      = .ok { items := [], lut := lutAddAll emptyLut [], isRoot := s.isRoot, isSr := s.isSr } := by
    unfold construct; simp only [hflag, checkAll]
  rw [hc]
  obtain ⟨_, _, _, hw, _⟩ := construct_ok hc
  obtain ⟨r, h1, h2, h3, h4⟩ := extend_accepts hw xs hr
  refine ⟨r, ?_, by simpa using h2, h3, ?_⟩
  · simp only [h1]
  · exact ⟨h4.1, h4.2⟩

theorem find_spec {s : Seq} (h : WF s) (n : Nat) :
    ∃ r, find s n = .ok r ∧ r.items = s.lut n ∧ r.items.Perm (byName n s.items) ∧ WF r ∧ Same s r := by
  have hr : ∀ x ∈ s.lut n, relOk s.isRoot s.isSr x := by
    intro x hx
    have := ((h.inv n).mem_iff.mp hx)
    exact h.rule x (mem_byName.mp this).1
  obtain ⟨r, h1, h2, h3, h4⟩ := collect_spec h (s.lut n) hr
  exact ⟨r, h1, h2, h2 ▸ h.inv n, h3, h4⟩

theorem getNodes_spec {s : Seq} (h : WF s) :
    ∃ r, getNodes s = .ok r ∧ r.items = s.items.filter (·.hasContent) ∧ WF r ∧ Same s r :=
  collect_spec h _ (fun x hx => h.rule x (List.mem_filter.mp hx).1)

/-! ## the mixins and whole histories -/

theorem pop_wf {s : Seq} (h : WF s) (i : Option Int) : WF (pop s i).1 ∧ Same s (pop s i).1 := delItem_wf h _

theorem remove_wf {s : Seq} (h : WF s) (x : Item) : WF (remove s x).1 ∧ Same s (remove s x).1 := by
  unfold remove
  cases index s x with
  | error e => exact ⟨h, Same.refl s⟩
  | ok k => exact delItem_wf h _

theorem swap_wf {s : Seq} (h : WF s) (i j : Nat) : WF (swap s i j).1 ∧ Same s (swap s i j).1 := by
  unfold swap
  cases s.items[j]? with
  | none => exact ⟨h, Same.refl s⟩
  | some b =>
    cases s.items[i]? with
    | none => exact ⟨h, Same.refl s⟩
    | some a =>
      simp only
      have h1 := setItem_wf h i b
      cases hs : setItem s i b with
      | mk s1 e =>
        rw [hs] at h1
        cases e with
        | some e => exact h1
        | none =>
          have h2 := setItem_wf h1.1 j a
          exact ⟨h2.1, h1.2.trans h2.2⟩

theorem reverseLoop_wf (n : Nat) (k : Nat) {s : Seq} (h : WF s) :
    WF (reverseLoop n k s).1 ∧ Same s (reverseLoop n k s).1 := by
  induction k generalizing s with
  | zero => exact ⟨h, Same.refl s⟩
  | succ k ih =>
    unfold reverseLoop
    simp only
    have h1 := swap_wf h (n / 2 - (k + 1)) (n - (n / 2 - (k + 1)) - 1)
    cases hs : swap s (n / 2 - (k + 1)) (n - (n / 2 - (k + 1)) - 1) with
    | mk s1 e =>
      rw [hs] at h1
      cases e with
      | some e => exact h1
      | none =>
        have h2 := ih h1.1
        exact ⟨h2.1, h1.2.trans h2.2⟩

theorem reverse_wf {s : Seq} (h : WF s) : WF (reverse s).1 ∧ Same s (reverse s).1 := reverseLoop_wf _ _ h

theorem clearLoop_wf (fuel : Nat) {s : Seq} (h : WF s) : WF (clearLoop fuel s).1 ∧ Same s (clearLoop fuel s).1 := by
  induction fuel generalizing s with
  | zero => exact ⟨h, Same.refl s⟩
  | succ fuel ih =>
    unfold clearLoop
    have h1 := pop_wf h none
    cases hs : pop s none with
    | mk s1 e =>
      rw [hs] at h1
      cases e with
      | none =>
        have h2 := ih h1.1
        exact ⟨h2.1, h1.2.trans h2.2⟩
      | some e => cases e <;> exact h1

theorem clear_wf {s : Seq} (h : WF s) : WF (clear s).1 ∧ Same s (clear s).1 := clearLoop_wf _ h

theorem intoRes_wf {s : Seq} (h : WF s) {r : Except ErrKind Seq} (hr : ∀ q, r = .ok q → WF q ∧ Same s q) :
    WF (intoRes s r).1 ∧ Same s (intoRes s r).1 := by
  cases r with
  | error e => exact ⟨h, Same.refl s⟩
  | ok q => exact hr q rfl

theorem step_wf {s : Seq} (h : WF s) (op : Op) : WF (step s op).1 ∧ Same s (step s op).1 := by
  cases op with
  | append x => exact append_wf h x
  | extend xs => exact extend_wf h xs
  | iadd xs => exact extend_wf h xs
  | extendSelf => exact extend_wf h s.items
  | insert pos x => exact insert_wf h pos x
  | insertBad x =>
    simp only [step, insertBad]
    cases insertCheck s x <;> exact ⟨h, Same.refl s⟩
  | setItem i x => exact setItem_wf h i x
  | setSlice a b c xs => exact setSlice_wf h a b c xs
  | delItem i => exact delItem_wf h i
  | delSlice a b c => exact delSlice_wf h a b c
  | pop i => exact pop_wf h i
  | remove x => exact remove_wf h x
  | reverse => exact reverse_wf h
  | clear => exact clear_wf h
  | intoFind n =>
    apply intoRes_wf h
    intro q hq
    obtain ⟨r, h1, _, _, h4, h5⟩ := find_spec h n
    rw [h1] at hq; cases hq; exact ⟨h4, h5⟩
  | intoNodes =>
    apply intoRes_wf h
    intro q hq
    obtain ⟨r, h1, _, h4, h5⟩ := getNodes_spec h
    rw [h1] at hq; cases hq; exact ⟨h4, h5⟩
  | appendOther => exact ⟨h, Same.refl s⟩
  | extendOther pre =>
    simp only [step, extendOther]
    have h1 := extend_wf h pre
    cases hs : extend s pre with
    | mk s1 e =>
      rw [hs] at h1
      cases e <;> exact h1
  | insertOther => exact ⟨h, Same.refl s⟩
  | setOther pre =>
    simp only [step, setOther]
    cases checkAll (setitemCheck s) pre <;> exact ⟨h, Same.refl s⟩

theorem run_wf {s : Seq} (h : WF s) (ops : List Op) : WF (run s ops) ∧ Same s (run s ops) := by
  induction ops generalizing s with
  | nil => exact ⟨h, Same.refl s⟩
  | cons op ops ih =>
    have h1 := step_wf h op
    have h2 := ih h1.1
    exact ⟨h2.1, h1.2.trans h2.2⟩

theorem fromSequence_ok {items : List Item} {r sr : Bool} {s : Seq} (h : fromSequence items r sr = .ok s) :
    construct items r sr = .ok s := by
  unfold fromSequence at h
  split at h
  · cases h
  · exact h

/-- every sequence that can arise: any construction path, then any history of operations (refused ones
included, with whatever partial effect they leave), possibly continuing on the result of `find` /
`get_nodes` -/
inductive Reachable : Seq → Prop
  | ctor {items : List Item} {r sr : Bool} {s : Seq} : construct items r sr = .ok s → Reachable s
  | fromSeq {items : List Item} {r sr : Bool} {s : Seq} : fromSequence items r sr = .ok s → Reachable s
  | step {s : Seq} (op : Op) : Reachable s → Reachable (step s op).1
  | copied {s : Seq} (f : Nat → Nat) : Reachable s → Reachable (relabel f s)      -- `deepcopy` / pickling

theorem byName_relabel (f : Nat → Nat) (n : Nat) (l : List Item) :
    byName n (l.map (relabelItem f)) = (byName n l).map (relabelItem f) := by
  unfold byName
  rw [List.filter_map]
  rfl

/-- a deep copy is as consistent as its original -/
theorem relabel_wf {s : Seq} (h : WF s) (f : Nat → Nat) : WF (relabel f s) ∧ Same s (relabel f s) := by
  refine ⟨⟨?_, ?_, h.flags⟩, rfl, rfl⟩
  · intro n
    show ((s.lut n).map (relabelItem f)).Perm (byName n (s.items.map (relabelItem f)))
    rw [byName_relabel]
    exact (h.inv n).map _
  · intro it hit
    obtain ⟨x, hx, rfl⟩ := List.mem_map.mp hit
    exact h.rule x hx

theorem Reachable.wf {s : Seq} (h : Reachable s) : WF s := by
  induction h with
  | ctor hc => exact (construct_ok hc).2.2.2.1
  | fromSeq hc => exact (construct_ok (fromSequence_ok hc)).2.2.2.1
  | step op _ ih => exact (step_wf ih op).1
  | copied f _ ih => exact (relabel_wf ih f).1

theorem Reachable.run {s : Seq} (h : Reachable s) (ops : List Op) : Reachable (run s ops) := by
  induction ops generalizing s with
  | nil => exact h
  | cons op ops ih => exact ih (Reachable.step op h)

theorem construct_refuses {items : List Item} {r sr : Bool} (h : ∃ it ∈ items, ¬ relOk r sr it) :
    ∃ e, construct items r sr = .error e := by
  cases hc : construct items r sr with
  | error e => exact ⟨e, rfl⟩
  | ok s =>
    obtain ⟨it, hit, hbad⟩ := h
    exact absurd (ctorCheck_relOk ((construct_ok hc).2.2.2.2 it hit)) hbad

/-! ## extended-slice assignment cannot fail half-way: the walk uses up its values -/

theorem keepIdxs_cons_in (a : Item) (l : List Item) (idxs : List Nat) (pos : Nat) (h : idxs.contains pos = true) :
    keepIdxs (a :: l) idxs pos = a :: keepIdxs l idxs (pos + 1) := by
  have h' : pos ∈ idxs := by simpa using h
  simp [keepIdxs, List.zipIdx_cons, h']

theorem keepIdxs_cons_out (a : Item) (l : List Item) (idxs : List Nat) (pos : Nat) (h : idxs.contains pos = false) :
    keepIdxs (a :: l) idxs pos = keepIdxs l idxs (pos + 1) := by
  have h' : pos ∉ idxs := by simpa using h
  simp [keepIdxs, List.zipIdx_cons, h']

theorem setWalk_isSome (l : List Item) (idxs : List Nat) (xs : List Item) (pos : Nat)
    (h : xs.length = (keepIdxs l idxs pos).length) : (setWalk l idxs xs pos).isSome = true := by
  induction l generalizing xs pos with
  | nil =>
    have : xs = [] := by simpa [keepIdxs] using h
    subst this
    simp [setWalk]
  | cons a l ih =>
    unfold setWalk
    by_cases hc : idxs.contains pos = true
    · rw [if_pos hc]
      rw [keepIdxs_cons_in a l idxs pos hc] at h
      cases xs with
      | nil => simp at h
      | cons x xs' =>
        simp only [Option.isSome_map]
        exact ih xs' (pos + 1) (by simpa using h)
    · rw [if_neg hc]
      rw [keepIdxs_cons_out a l idxs pos (by simpa using hc)] at h
      simp only [Option.isSome_map]
      exact ih xs (pos + 1) h

theorem keepIdxs_length (l : List Item) (idxs : List Nat) (hn : idxs.Nodup) (hb : ∀ i ∈ idxs, i < l.length) :
    (keepIdxs l idxs 0).length = idxs.length := by
  unfold keepIdxs
  rw [List.length_map]
  have e : ((l.zipIdx 0).filter (fun p => idxs.contains p.2)).length
      = (((l.zipIdx 0).map Prod.snd).filter (fun i => idxs.contains i)).length := by
    rw [List.filter_map, List.length_map]; rfl
  rw [e, List.zipIdx_map_snd]
  apply List.Perm.length_eq
  rw [List.perm_ext_iff_of_nodup ((List.nodup_range' 1).sublist List.filter_sublist |> fun h => h) hn]
  intro a
  simp only [List.mem_filter, List.mem_range', List.contains_iff_mem]
  constructor
  · intro h; exact h.2
  · intro h; exact ⟨⟨a, hb a h, by omega⟩, h⟩

theorem adjustBound_pos (n : Nat) (st v : Int) (h : 0 < st) : 0 ≤ adjustBound n st v ∧ adjustBound n st v ≤ n := by
  unfold adjustBound
  split <;> split <;> (try split) <;> omega

theorem adjustBound_neg (n : Nat) (st v : Int) (h : st < 0) : -1 ≤ adjustBound n st v ∧ adjustBound n st v ≤ (n : Int) - 1 := by
  unfold adjustBound
  split <;> split <;> (try split) <;> omega

theorem sliceAdjust_pos (n : Nat) (a b : Option Int) (st : Int) (h : 0 < st) :
    0 ≤ (sliceAdjust n a b st).1 ∧ (sliceAdjust n a b st).1 ≤ n ∧ 0 ≤ (sliceAdjust n a b st).2 ∧ (sliceAdjust n a b st).2 ≤ n := by
  unfold sliceAdjust
  have h1 := fun v => adjustBound_pos n st v h
  cases a <;> cases b <;> simp only [] <;> (try split) <;> (try split) <;>
    first | omega | (refine ⟨?_, ?_, ?_, ?_⟩ <;> first | omega | exact (h1 _).1 | exact (h1 _).2)

theorem sliceAdjust_neg (n : Nat) (a b : Option Int) (st : Int) (h : st < 0) :
    -1 ≤ (sliceAdjust n a b st).1 ∧ (sliceAdjust n a b st).1 ≤ (n : Int) - 1 ∧ -1 ≤ (sliceAdjust n a b st).2 ∧
      (sliceAdjust n a b st).2 ≤ (n : Int) - 1 := by
  unfold sliceAdjust
  have h1 := fun v => adjustBound_neg n st v h
  cases a <;> cases b <;> simp only [] <;> (try split) <;> (try split) <;>
    first | omega | (refine ⟨?_, ?_, ?_, ?_⟩ <;> first | omega | exact (h1 _).1 | exact (h1 _).2)

theorem range'_bound (s len step N : Nat) (h : len = 0 ∨ s + step * (len - 1) < N) :
    ∀ i ∈ List.range' s len step, i < N := by
  intro i hi
  obtain ⟨j, hj, e⟩ := List.mem_range'.mp hi
  rcases h with h | h
  · omega
  · have : step * j ≤ step * (len - 1) := Nat.mul_le_mul_left _ (by omega)
    omega

theorem resolveSlice_ext {n : Nat} {a b c : Option Int} {asc : List Nat} {rev : Bool}
    (h : resolveSlice n a b c = .ok (.ext asc rev)) : asc.Nodup ∧ ∀ i ∈ asc, i < n := by
  unfold resolveSlice at h
  simp only at h
  split at h
  · cases h
  · rename_i hst0
    split at h
    · cases h
    · rename_i hst1
      split at h
      · rename_i hpos
        -- positive step
        simp only [Except.ok.injEq, Sel.ext.injEq] at h
        obtain ⟨h, _⟩ := h
        subst h
        have hb := sliceAdjust_pos n a b (c.getD 1) hpos
        generalize (sliceAdjust n a b (c.getD 1)).1 = s at *
        generalize (sliceAdjust n a b (c.getD 1)).2 = e at *
        generalize c.getD 1 = st at *
        refine ⟨List.nodup_range' _ (by omega), ?_⟩
        apply range'_bound
        by_cases hse : s < e
        · right
          rw [if_pos hse]
          have hq : st * ((e - s - 1) / st) ≤ e - s - 1 := Int.mul_ediv_self_le (by omega)
          have hq0 : 0 ≤ (e - s - 1) / st := Int.ediv_nonneg (by omega) (by omega)
          generalize (e - s - 1) / st = q at *
          have e1 : (q + 1).toNat - 1 = q.toNat := by omega
          rw [e1]
          have e2 : ((st.toNat * q.toNat : Nat) : Int) = st * q := by
            push_cast
            rw [Int.toNat_of_nonneg (by omega), Int.toNat_of_nonneg hq0]
          generalize st * q = m at *
          generalize st.toNat * q.toNat = m' at *
          omega
        · left
          rw [if_neg hse]; rfl
      · rename_i hpos
        -- negative step
        simp only [Except.ok.injEq, Sel.ext.injEq] at h
        obtain ⟨h, _⟩ := h
        subst h
        have hneg : c.getD 1 < 0 := by omega
        have hb := sliceAdjust_neg n a b (c.getD 1) hneg
        generalize (sliceAdjust n a b (c.getD 1)).1 = s at *
        generalize (sliceAdjust n a b (c.getD 1)).2 = e at *
        generalize c.getD 1 = st at *
        refine ⟨List.nodup_range' _ (by omega), ?_⟩
        apply range'_bound
        by_cases hse : e < s
        · right
          rw [if_pos hse]
          have hq : (-st) * ((s - e - 1) / (-st)) ≤ s - e - 1 := Int.mul_ediv_self_le (by omega)
          have hq0 : 0 ≤ (s - e - 1) / (-st) := Int.ediv_nonneg (by omega) (by omega)
          generalize (s - e - 1) / (-st) = q at *
          have e1 : (q + 1).toNat - 1 = q.toNat := by omega
          rw [e1]
          have e0 : q + 1 - 1 = q := by omega
          rw [e0]
          have e2 : (((-st).toNat * q.toNat : Nat) : Int) = (-st) * q := by
            push_cast
            rw [Int.toNat_of_nonneg (by omega), Int.toNat_of_nonneg hq0]
          have e3 : q * (-st) = (-st) * q := Int.mul_comm _ _
          rw [e3]
          generalize (-st) * q = m at *
          generalize (-st).toNat * q.toNat = m' at *
          omega
        · left
          rw [if_neg hse]; rfl

/-- on a resolved extended slice, assignment of as many items as the slice has positions succeeds -/
theorem setSel_ext_ok {l xs : List Item} {a b c : Option Int} {asc : List Nat} {rev : Bool}
    (hsel : resolveSlice l.length a b c = .ok (.ext asc rev)) (hlen : xs.length = asc.length) :
    ∃ l', setSel l xs (.ext asc rev) = .ok l' := by
  obtain ⟨hn, hb⟩ := resolveSlice_ext hsel
  have hk := keepIdxs_length l asc hn hb
  have hsome := setWalk_isSome l asc (if rev = true then xs.reverse else xs) 0 (by
    rw [hk]; cases rev <;> simp [hlen])
  simp only [setSel]
  rw [if_neg (by simpa using hlen)]
  cases hw : setWalk l asc (if rev = true then xs.reverse else xs) 0 with
  | none => rw [hw] at hsome; cases hsome
  | some l' => exact ⟨l', rfl⟩

theorem setSel_ext_mismatch {l xs : List Item} {asc : List Nat} {rev : Bool} (hlen : xs.length ≠ asc.length) :
    setSel l xs (.ext asc rev) = .error .value := by
  simp only [setSel]
  rw [if_pos hlen]

theorem getSel_ext_length {l : List Item} {a b c : Option Int} {asc : List Nat} {rev : Bool}
    (hsel : resolveSlice l.length a b c = .ok (.ext asc rev)) : (getSel l (.ext asc rev)).length = asc.length := by
  obtain ⟨hn, hb⟩ := resolveSlice_ext hsel
  simp only [getSel]
  cases rev <;> simp [keepIdxs_length l asc hn hb]

/-! ## the hand-written operations are the interpretation of the regenerated programs (tie T, `T14p`) -/
section Programs
open HdVerif.SRSeqIR
set_option linter.unusedSimpArgs false

theorem checkAll_single (f : Item → Except ErrKind Unit) (x : Item) : checkAll f [x] = f x := by
  simp only [checkAll]
  cases f x with
  | ok u => cases u; rfl
  | error e => rfl

theorem append_is_program (s : Seq) (x : Item) : append s x = runAppend [x] s := by
  unfold append runAppend runWith
  simp only [Gen.csProg_append, execProg, execStmt, checkFn, checkAll_single]
  cases appendCheck s x with
  | error e => rfl
  | ok u => simp [lutAddAll]

theorem extend_eachCall (s : Seq) (xs : List Item) : extend s xs = eachCall runAppend xs s := by
  induction xs generalizing s with
  | nil => rfl
  | cons x xs ih =>
    simp only [extend, eachCall, ← append_is_program]
    cases h : append s x with
    | mk s' e =>
      cases e with
      | some e => rfl
      | none => exact ih s'

theorem extend_is_program (s : Seq) (xs : List Item) : extend s xs = runExtend xs s := by
  unfold runExtend runWith
  simp only [Gen.csProg_extend, execProg, execStmt, call1, ← extend_eachCall]
  cases extend s xs with
  | mk s' e => cases e <;> rfl

theorem iadd_is_program (s : Seq) (xs : List Item) : step s (.iadd xs) = runIadd xs s := by
  unfold runIadd runWith
  simp only [step, Gen.csProg_iadd, execProg, execStmt, call2, ← extend_is_program]
  cases extend s xs with
  | mk s' e => cases e <;> rfl

theorem insert_is_program (s : Seq) (pos : Int) (x : Item) : SRContentSeq.insert s pos x = runInsert pos [x] s := by
  unfold SRContentSeq.insert runInsert runWith
  simp only [Gen.csProg_insert, execProg, execStmt, checkFn, checkAll_single]
  cases insertCheck s x with
  | error e => rfl
  | ok u => simp [lutAddAll]

theorem insertBad_is_program (s : Seq) (x : Item) : insertBad s x = runInsertBad [x] s := by
  unfold insertBad runInsertBad runWith
  simp only [Gen.csProg_insert, execProg, execStmt, checkFn, checkAll_single]
  cases insertCheck s x with
  | error e => rfl
  | ok u => rfl

theorem setItem_is_program (s : Seq) (i : Int) (x : Item) : setItem s i x = runSetitem (.int i) [x] s := by
  unfold setItem runSetitem runWith commitReplace
  simp only [Gen.csProg_setitem, execProg, execStmt, checkFn, checkAll_single, resolveIdx]
  cases hc : setitemCheck s x with
  | error e => rfl
  | ok u =>
    cases hk : normIdx s.items.length i with
    | error e => simp only [hk]
    | ok k =>
      simp only [hk, getR, setR]
      cases hl : lutRemoveAll s.lut (List.take 1 (List.drop k s.items)) with
      | mk l e => cases e <;> simp only [hl]

theorem setSlice_is_program (s : Seq) (a b c : Option Int) (xs : List Item) :
    setSlice s a b c xs = runSetitem (.slice a b c) xs s := by
  unfold setSlice runSetitem runWith commitReplace
  simp only [Gen.csProg_setitem, execProg, execStmt, checkFn, resolveIdx]
  cases hc : checkAll (setitemCheck s) xs with
  | error e => rfl
  | ok u =>
    cases hk : resolveSlice s.items.length a b c with
    | error e => simp only [hk]
    | ok sel =>
      simp only [hk, getR, setR]
      cases hs : setSel s.items xs sel with
      | error e => simp only [hs]
      | ok l =>
        simp only [hs]
        cases hl : lutRemoveAll s.lut (getSel s.items sel) with
        | mk l e => cases e <;> simp only [hl]

theorem delItem_is_program (s : Seq) (i : Int) : delItem s i = runDelitem (.int i) s := by
  unfold delItem runDelitem runWith commitDelete
  simp only [Gen.csProg_delitem, execProg, execStmt, resolveIdx]
  cases hk : normIdx s.items.length i with
  | error e => simp only [hk]
  | ok k =>
    simp only [hk, getR, delR]
    cases hl : lutRemoveAll s.lut (List.take 1 (List.drop k s.items)) with
    | mk l e => cases e <;> simp only [hl, hk]

theorem delSlice_is_program (s : Seq) (a b c : Option Int) : delSlice s a b c = runDelitem (.slice a b c) s := by
  unfold delSlice runDelitem runWith commitDelete
  simp only [Gen.csProg_delitem, execProg, execStmt, resolveIdx]
  cases hk : resolveSlice s.items.length a b c with
  | error e => simp only [hk]
  | ok sel =>
    simp only [hk, getR, delR]
    cases hl : lutRemoveAll s.lut (getSel s.items sel) with
    | mk l e => cases e <;> simp only [hl, hk]

theorem construct_is_program (items : List Item) (r sr : Bool) : construct items r sr = runInit items r sr := by
  unfold construct runInit
  simp only [Gen.csProg_init, execProg, execStmt, checkFn]
  cases Gen.csCtorFlags r sr with
  | error e => rfl
  | ok b =>
    simp only
    cases checkAll (ctorCheck r sr) items with
    | error e => rfl
    | ok u => rfl

theorem find_is_program (s : Seq) (n : Nat) : find s n = execCollect Gen.csProg_find s n := by
  unfold find collect execCollect
  simp only [Gen.csProg_find, flagOf]

theorem getNodes_is_program (s : Seq) : getNodes s = execCollect Gen.csProg_get_nodes s 0 := by
  unfold getNodes collect execCollect
  simp only [Gen.csProg_get_nodes, flagOf]

theorem index_is_program (s : Seq) (x : Item) : index s x = execIndex Gen.csProg_index s x := by
  unfold index execIndex
  simp only [Gen.csProg_index, Bool.not_true, Bool.false_eq_true, ↓reduceIte, Bool.true_and]
  by_cases h : (s.lut x.name).any (fun y => y.eqv x) = true
  · simp [h]
  · simp [h]

theorem contains_is_program : Gen.csContainsViaIndex = true := by decide

end Programs

/-! ## functional specifications of the `MutableSequence` mixins -/

theorem normIdx_last (n : Nat) : normIdx (n + 1) (-1) = .ok n := by
  unfold normIdx
  simp only [show ((-1 : Int) < 0) by decide, ↓reduceIte]
  have h : (0 : Int) ≤ -1 + ((n + 1 : Nat) : Int) ∧ -1 + ((n + 1 : Nat) : Int) < ((n + 1 : Nat) : Int) := by omega
  rw [if_pos h]
  congr 1
  omega

theorem normIdx_empty (i : Int) : normIdx 0 i = .error .index := by
  unfold normIdx
  by_cases h : i < 0
  · simp only [h, ↓reduceIte]; rw [if_neg (by omega)]
  · simp only [h, ↓reduceIte]; rw [if_neg (by omega)]

theorem clearLoop_spec (n : Nat) : ∀ s : Seq, WF s → s.items.length = n →
    ∃ s', clearLoop (n + 1) s = (s', none) ∧ s'.items = [] ∧ WF s' ∧ Same s s' := by
  induction n with
  | zero =>
    intro s hw hl
    refine ⟨s, ?_, List.eq_nil_of_length_eq_zero hl, hw, Same.refl s⟩
    unfold clearLoop pop delItem
    simp only [Option.getD_none, hl, normIdx_empty]
  | succ n ih =>
    intro s hw hl
    obtain ⟨s1, h1, h2, h3, h4⟩ := delItem_accepts hw (-1) n (by rw [hl]; exact normIdx_last n)
    have hl1 : s1.items.length = n := by
      rw [h2]; simp [List.length_take, List.length_drop, hl]
    obtain ⟨s', h5, h6, h7, h8⟩ := ih s1 h3 hl1
    refine ⟨s', ?_, h6, h7, h4.trans h8⟩
    rw [clearLoop]
    simp only [pop, Option.getD_none, h1]
    exact h5

/-- `clear()` empties a reachable sequence (and leaves a consistent, empty index) -/
theorem clear_spec {s : Seq} (hw : WF s) : ∃ s', clear s = (s', none) ∧ s'.items = [] ∧ WF s' :=
  let ⟨s', h1, h2, h3, _⟩ := clearLoop_spec s.items.length s hw rfl
  ⟨s', h1, h2, h3⟩

theorem normIdx_nat (n k : Nat) (h : k < n) : normIdx n (k : Int) = .ok k := by
  unfold normIdx
  simp only [show ¬ ((k : Int) < 0) by omega, ↓reduceIte]
  rw [if_pos (by omega)]
  simp

/-- one round of `reverse` on a reachable sequence: both assignments are accepted (the items come from the
sequence itself) and exchange the two positions -/
theorem swap_spec {s : Seq} (hw : WF s) (i j : Nat) (a b : Item) (hi : s.items[i]? = some a) (hj : s.items[j]? = some b) :
    ∃ s', swap s i j = (s', none) ∧ s'.items = (s.items.set i b).set j a ∧ WF s' ∧ Same s s' := by
  have hil : i < s.items.length := (List.getElem?_eq_some_iff.mp hi).1
  have hjl : j < s.items.length := (List.getElem?_eq_some_iff.mp hj).1
  have ha : a ∈ s.items := List.mem_of_getElem? hi
  have hb : b ∈ s.items := List.mem_of_getElem? hj
  obtain ⟨s1, h1, h2, h3, h4⟩ := setItem_accepts hw (i : Int) b i (hw.rule b hb) (normIdx_nat _ _ hil)
  have hra : relOk s1.isRoot s1.isSr a := by rw [h4.1, h4.2]; exact hw.rule a ha
  have hjl1 : j < s1.items.length := by rw [h2]; simpa using hjl
  obtain ⟨s2, h5, h6, h7, h8⟩ := setItem_accepts h3 (j : Int) a j hra (normIdx_nat _ _ hjl1)
  refine ⟨s2, ?_, by rw [h6, h2], h7, h4.trans h8⟩
  unfold swap
  simp only [hi, hj, h1, h5]

/-- state of the list after the rounds `0 … i-1` of `reverse` -/
def RevTo (n : Nat) (orig : List Item) (i : Nat) (l : List Item) : Prop :=
  l.length = n ∧ ∀ p, p < n → l[p]? = if p < i ∨ n - i ≤ p then orig[n - 1 - p]? else orig[p]?

theorem reverseLoop_spec (orig : List Item) (n : Nat) (hn : orig.length = n) (k : Nat) :
    ∀ s : Seq, k ≤ n / 2 → WF s → RevTo n orig (n / 2 - k) s.items →
      ∃ s', reverseLoop n k s = (s', none) ∧ RevTo n orig (n / 2) s'.items ∧ WF s' ∧ Same s s' := by
  induction k with
  | zero => intro s _ hw hr; exact ⟨s, rfl, by simpa using hr, hw, Same.refl s⟩
  | succ k ih =>
    intro s hk hw hr
    obtain ⟨hlen, hget⟩ := hr
    have hi : n / 2 - (k + 1) < n / 2 := by omega
    generalize hidef : n / 2 - (k + 1) = i at *
    have hin : i < n := by omega
    have hjn : n - i - 1 < n := by omega
    have hai := hget i hin
    rw [if_neg (by omega)] at hai
    have haj := hget (n - i - 1) hjn
    rw [if_neg (by omega)] at haj
    obtain ⟨a, ha⟩ : ∃ a, orig[i]? = some a := ⟨orig[i]'(by omega), by simp⟩
    obtain ⟨b, hb⟩ : ∃ b, orig[n - i - 1]? = some b := ⟨orig[n - i - 1]'(by omega), by simp⟩
    obtain ⟨s1, h1, h2, h3, h4⟩ := swap_spec hw i (n - i - 1) a b (hai.trans ha) (haj.trans hb)
    have hr1 : RevTo n orig (n / 2 - k) s1.items := by
      have e : n / 2 - k = i + 1 := by omega
      rw [e, h2]
      refine ⟨by simp [hlen], ?_⟩
      intro p hp
      rw [List.getElem?_set, List.getElem?_set]
      by_cases hpj : n - i - 1 = p
      · subst hpj
        rw [if_pos rfl, if_pos (by simp [hlen]; omega), if_pos (by omega)]
        have : n - 1 - (n - i - 1) = i := by omega
        rw [this, ha]
      · rw [if_neg hpj]
        by_cases hpi : i = p
        · subst hpi
          rw [if_pos rfl, if_pos (by omega), if_pos (by omega)]
          have : n - 1 - i = n - i - 1 := by omega
          rw [this, hb]
        · rw [if_neg hpi, hget p hp]
          by_cases hc : p < i ∨ n - i ≤ p
          · rw [if_pos hc, if_pos (by omega)]
          · rw [if_neg hc, if_neg (by omega)]
    obtain ⟨s', h5, h6, h7, h8⟩ := ih s1 (by omega) h3 hr1
    refine ⟨s', ?_, h6, h7, h4.trans h8⟩
    rw [reverseLoop]
    simp only [hidef, h1]
    exact h5

theorem revTo_half (orig l : List Item) (n : Nat) (hn : orig.length = n) (h : RevTo n orig (n / 2) l) : l = orig.reverse := by
  obtain ⟨hlen, hget⟩ := h
  apply List.ext_getElem?
  intro p
  by_cases hp : p < n
  · rw [hget p hp, List.getElem?_reverse (by omega), hn]
    by_cases hc : p < n / 2 ∨ n - n / 2 ≤ p
    · rw [if_pos hc]
    · rw [if_neg hc]
      have : n - 1 - p = p := by omega
      rw [this]
  · rw [List.getElem?_eq_none (by omega), List.getElem?_eq_none (by simp; omega)]

/-- `reverse()` reverses a reachable sequence (through `__setitem__`, so the index stays consistent) -/
theorem reverse_spec {s : Seq} (hw : WF s) : ∃ s', reverse s = (s', none) ∧ s'.items = s.items.reverse ∧ WF s' := by
  have h0 : RevTo s.items.length s.items (s.items.length / 2 - s.items.length / 2) s.items := by
    refine ⟨rfl, fun p hp => ?_⟩
    rw [if_neg (by omega)]
  obtain ⟨s', h1, h2, h3, _⟩ := reverseLoop_spec s.items s.items.length rfl (s.items.length / 2) s (Nat.le_refl _) hw h0
  exact ⟨s', h1, revTo_half s.items s'.items _ rfl h2, h3⟩

/-- `remove(x)` deletes the first item that is `==` x (it goes through the repaired `index`) -/
theorem remove_spec {s : Seq} (hw : WF s) (x : Item) (hx : s.items.any (fun y => y.eqv x) = true) :
    ∃ s', remove s x = (s', none) ∧
      s'.items = s.items.take (s.items.findIdx (fun y => y.eqv x)) ++ s.items.drop (s.items.findIdx (fun y => y.eqv x) + 1) ∧
      WF s' := by
  have hi := index_spec hw.inv x
  rw [if_pos hx] at hi
  have hlt : s.items.findIdx (fun y => y.eqv x) < s.items.length := by
    rw [List.findIdx_lt_length]
    obtain ⟨y, hy, he⟩ := List.any_eq_true.mp hx
    exact ⟨y, hy, he⟩
  obtain ⟨s', h1, h2, h3, _⟩ := delItem_accepts hw (s.items.findIdx (fun y => y.eqv x) : Int) _ (normIdx_nat _ _ hlt)
  refine ⟨s', ?_, h2, h3⟩
  unfold remove
  simp only [hi, h1]

end HdVerif.SRContentSeqLemmas
