import HdVerif.Proofs.TilingCut
/-! TILED_FULL: the table implied by frame order is the table with explicit positions and nothing omitted. -/
namespace HdVerif.TilingLemmas
open HdVerif HdVerif.Gen HdVerif.Tiling

/-- table rows of one channel with all tiles present: frame indices count up from `base` -/
def rowsOf (ch : Int) (offs : List (Int × Int)) (base : Nat) : List LutRow :=
  (offs.zipIdx base).map (fun x => ⟨x.1.2, x.1.1, x.2, ch⟩)

/-- … of all channels, channel after channel -/
def segRows (offs : List (Int × Int)) : List Int → Nat → List LutRow
  | [], _ => []
  | ch :: chs, base => rowsOf ch offs base ++ segRows offs chs (base + offs.length)

theorem cutTilesAux_allTrue {α} (z : α) (M : Img α) (R C tr tc ch : Int) (offs : List (Int × Int)) :
    ∀ (keep : List Bool) (base : Nat) (rows : List LutRow) (frs : List (Img α)), (∀ b ∈ keep, b = true) →
    cutTilesAux z M R C tr tc ch offs keep base = .ok (rows, frs) → rows = rowsOf ch offs base ∧ frs.length = offs.length := by
  induction offs with
  | nil =>
    intro keep base rows frs _ h
    unfold cutTilesAux at h
    simp only [Except.ok.injEq, Prod.mk.injEq] at h
    obtain ⟨rfl, rfl⟩ := h
    simp [rowsOf]
  | cons o offs ih =>
    intro keep base rows frs hk h
    obtain ⟨co, ro⟩ := o
    cases keep with
    | nil => simp [cutTilesAux] at h
    | cons k ks =>
      have : k = true := hk k (by simp)
      subst this
      unfold cutTilesAux at h
      simp only [if_true] at h
      cases hg : getTileArray z M R C ro co tr tc with
      | error e => simp [hg] at h
      | ok t =>
        rw [hg] at h
        simp only at h
        split at h
        · simp at h
        cases hrec : cutTilesAux z M R C tr tc ch offs ks (base + 1) with
        | error e => simp [hrec] at h
        | ok v =>
          obtain ⟨rows', frs'⟩ := v
          rw [hrec] at h
          simp only [Except.ok.injEq, Prod.mk.injEq] at h
          obtain ⟨rfl, rfl⟩ := h
          obtain ⟨i1, i2⟩ := ih ks (base + 1) rows' frs' (fun b hb => hk b (by simp [hb])) hrec
          subst i1
          simp [rowsOf, i2]

theorem cutSegments_allTrue {α} (z : α) (R C tr tc : Int) (offs : List (Int × Int)) :
    ∀ (Ms : List (Int × Img α)) (keep : List (List Bool)) (base : Nat) (rows : List LutRow) (frames : List (Img α)),
    (∀ k ∈ keep, ∀ b ∈ k, b = true) →
    cutSegments z R C tr tc offs Ms keep base = .ok (rows, frames) → rows = segRows offs (Ms.map Prod.fst) base := by
  intro Ms
  induction Ms with
  | nil =>
    intro keep base rows frames _ h
    unfold cutSegments at h
    simp only [Except.ok.injEq, Prod.mk.injEq] at h
    simp [segRows, h.1.symm]
  | cons m Ms ih =>
    intro keep base rows frames hk h
    obtain ⟨ch, M⟩ := m
    cases keep with
    | nil => simp [cutSegments] at h
    | cons k ks =>
      unfold cutSegments at h
      cases h1 : cutTilesAux z M R C tr tc ch offs k base with
      | error e => simp [h1] at h
      | ok v =>
        obtain ⟨rows1, frs1⟩ := v
        rw [h1] at h
        simp only at h
        cases h2 : cutSegments z R C tr tc offs Ms ks (base + frs1.length) with
        | error e => simp [h2] at h
        | ok v =>
          obtain ⟨rows2, frs2⟩ := v
          rw [h2] at h
          simp only [Except.ok.injEq, Prod.mk.injEq] at h
          obtain ⟨rfl, rfl⟩ := h
          obtain ⟨a1, a2⟩ := cutTilesAux_allTrue z M R C tr tc ch offs k base rows1 frs1 (hk k (by simp)) h1
          rw [a2] at h2
          have := ih ks (base + offs.length) rows2 frs2 (fun k' hk' => hk k' (by simp [hk'])) h2
          simp [segRows, a1, this]


/-- closed form of `compute_tile_positions_per_frame` -/
def tpOf (tr tc R C : Int) (g : Geo) : List ((Int × Int) × (Rat × Rat × Rat)) :=
  (iota (nTiles R tr)).flatMap (fun i => (iota (nTiles C tc)).map (fun j => ((j * tc + 1, i * tr + 1), pixToRef g (j * tc) (i * tr))))

theorem tilePositions_eq (tr tc R C : Int) (g : Geo) (hr : 1 ≤ tr) (hc : 1 ≤ tc) (hR : 1 ≤ R) (hC : 1 ≤ C) :
    tilePositions tr tc R C g = .ok (tpOf tr tc R C g) := by
  unfold tilePositions
  rw [if_neg (by omega), tilesPerAxisFloor_eq tr tc R C hr hc]
  simp only
  rw [if_neg (by have := nTiles_pos R tr hR hr; have := nTiles_pos C tc hC hc; omega)]
  rfl

theorem tpOf_fst (tr tc R C : Int) (g : Geo) : (tpOf tr tc R C g).map Prod.fst = (gridPos R C tr tc).map (fun p => (p.2, p.1)) := by
  unfold tpOf gridPos
  simp only [List.map_flatMap, List.map_map]
  congr 1
  funext i
  apply List.map_congr_left
  intro j _
  simp only [Function.comp]
  rw [Int.mul_comm j tc, Int.mul_comm i tr, Int.add_comm (tc * j) 1, Int.add_comm (tr * i) 1]

/-- one chunk of `iter_tiled_full_frame_data`: the tiles of one (channel, focal plane); `zf` gives the z origin of a
focal plane -/
def iterChunk (tr tc R C : Int) (g : Geo) (zf : Int → Rat) (chp : Option Int × Int) :
    List (Option Int × Int × Int × Int × Rat × Rat × Rat) :=
  (tpOf tr tc R C { g with oz := zf chp.2 }).map (fun p => (chp.1, chp.2, p.1.1, p.1.2, p.2.1, p.2.2.1, p.2.2.2))

/-- of the translated z origin of a focal plane (T7e) the tile *positions in the pixel matrix* only need that it is
defined, so C04 does not depend on its value (the value is used in `Proofs/TilingHelpers.lean`, C12) -/
theorem tiledFullZOffset_total (sbs z0 : Rat) : ∃ zf : Int → Rat, ∀ si, tiledFullZOffset si sbs z0 = .ok (zf si) :=
  ⟨fun si => match tiledFullZOffset si sbs z0 with | .ok z => z | .error _ => 0, fun si => by unfold tiledFullZOffset; rfl⟩

/-- closed form of `iter_tiled_full_frame_data`: channels outermost, then focal planes, then tiles row-major -/
theorem iterTiledFull_eq_of (channels : List (Option Int)) (planes tr tc R C : Int) (g : Geo) (sbs : Rat) (zf : Int → Rat)
    (hz : ∀ si, tiledFullZOffset si sbs g.oz = .ok (zf si))
    (hr : 1 ≤ tr) (hc : 1 ≤ tc) (hR : 1 ≤ R) (hC : 1 ≤ C) :
    iterTiledFull channels planes tr tc R C g sbs =
      .ok ((channels.flatMap (fun ch => (iota planes).map (fun p => (ch, p + 1)))).flatMap (iterChunk tr tc R C g zf)) := by
  unfold iterTiledFull
  generalize (channels.flatMap (fun ch => (iota planes).map (fun p => (ch, p + 1)))) = chps
  induction chps with
  | nil => rfl
  | cons x xs ih =>
    rw [List.foldr_cons, ih]
    simp only
    rw [hz]
    simp only
    rw [tilePositions_eq tr tc R C _ hr hc hR hC]
    simp only [List.flatMap_cons]
    rfl

theorem iota_one : iota 1 = [0] := by decide

/-- how a reader turns one item of `iter_tiled_full_frame_data` and its position in the iteration into a table row -/
def mkFullRow (x : (Option Int × Int × Int × Int × Rat × Rat × Rat) × Nat) : LutRow :=
  ⟨x.1.2.2.2.1, x.1.2.2.1, x.2, match x.1.1 with | some c => c | none => 0⟩

theorem chunk_rows (tr tc R C : Int) (g : Geo) (zf : Int → Rat) (ch p : Int) (base : Nat) :
    ((iterChunk tr tc R C g zf (some ch, p)).zipIdx base).map mkFullRow =
      rowsOf ch ((gridPos R C tr tc).map (fun p => (p.2, p.1))) base := by
  unfold iterChunk rowsOf
  rw [← tpOf_fst tr tc R C { g with oz := zf p }]
  simp only [List.zipIdx_map, List.map_map]
  apply List.map_congr_left
  intro x _
  rfl

theorem chunk_length (tr tc R C : Int) (g : Geo) (zf : Int → Rat) (chp : Option Int × Int) :
    (iterChunk tr tc R C g zf chp).length = ((gridPos R C tr tc).map (fun p => (p.2, p.1))).length := by
  unfold iterChunk
  rw [List.length_map, ← tpOf_fst tr tc R C _, List.length_map]

theorem full_rows (tr tc R C : Int) (g : Geo) (zf : Int → Rat) (chans : List Int) : ∀ (base : Nat),
    (((chans.map (fun c => (some c, (1 : Int)))).flatMap (iterChunk tr tc R C g zf)).zipIdx base).map mkFullRow =
      segRows ((gridPos R C tr tc).map (fun p => (p.2, p.1))) chans base := by
  induction chans with
  | nil => intro base; simp [segRows]
  | cons ch chs ih =>
    intro base
    simp only [List.map_cons, List.flatMap_cons, List.zipIdx_append, List.map_append, segRows]
    rw [chunk_rows, chunk_length, ih]

/-- the table a reader derives for a TILED_FULL image is the table the constructor would have written with
explicit positions and nothing omitted (whatever the z origins of the focal planes are) -/
theorem tiledFullLut_eq (chans : List Int) (tr tc R C : Int) (hr : 1 ≤ tr) (hc : 1 ≤ tc) (hR : 1 ≤ R) (hC : 1 ≤ C) :
    tiledFullLut (chans.map some) 1 tr tc R C = .ok (segRows ((gridPos R C tr tc).map (fun p => (p.2, p.1))) chans 0) := by
  unfold tiledFullLut
  obtain ⟨zf, hz⟩ := tiledFullZOffset_total 1 0
  rw [iterTiledFull_eq_of _ _ _ _ _ _ _ _ zf hz hr hc hR hC]
  simp only
  have e : ((chans.map some).flatMap (fun ch => (iota 1).map (fun p => (ch, p + 1)))) = chans.map (fun c => (some c, (1 : Int))) := by
    rw [iota_one]
    induction chans with
    | nil => rfl
    | cons c cs ih =>
      rw [List.map_cons, List.flatMap_cons, ih]
      rfl
  rw [e]
  congr 1
  exact full_rows tr tc R C _ zf chans 0


/-! ## General list lemmas: chunks of constant length -/

theorem flatMap_const_length {β γ} (xs : List β) (f : β → List γ) (n : Nat) (h : ∀ x ∈ xs, (f x).length = n) :
    (xs.flatMap f).length = xs.length * n := by
  induction xs with
  | nil => simp
  | cons x xs ih =>
    rw [List.flatMap_cons, List.length_append, h x (by simp), ih (fun y hy => h y (by simp [hy])), List.length_cons, Nat.succ_mul]
    omega

/-- element `a·n + b` of a concatenation of chunks of length `n` is element `b` of chunk `a` -/
theorem flatMap_getElem_const {β γ} (f : β → List γ) (n : Nat) : ∀ (xs : List β) (a b : Nat) (x : β),
    (∀ y ∈ xs, (f y).length = n) → b < n → xs[a]? = some x → (xs.flatMap f)[a * n + b]? = (f x)[b]? := by
  intro xs
  induction xs with
  | nil => intro a b x _ _ hx; simp at hx
  | cons y ys ih =>
    intro a b x hlen hb hx
    rw [List.flatMap_cons]
    cases a with
    | zero =>
      simp only [List.getElem?_cons_zero, Option.some.injEq] at hx
      subst hx
      rw [Nat.zero_mul, Nat.zero_add, List.getElem?_append_left (by rw [hlen y (by simp)]; exact hb)]
    | succ a =>
      simp only [List.getElem?_cons_succ] at hx
      have e : (a + 1) * n + b = (f y).length + (a * n + b) := by
        rw [hlen y (by simp), Nat.succ_mul]; omega
      rw [e, List.getElem?_append_right (by omega)]
      have : (f y).length + (a * n + b) - (f y).length = a * n + b := by omega
      rw [this]
      exact ih a b x (fun z hz => hlen z (by simp [hz])) hb hx

theorem iota_getElem (n : Int) (k : Nat) (hk : (k : Int) < n) : (iota n)[k]? = some (k : Int) := by
  unfold iota
  rw [List.getElem?_map, List.getElem?_range (by omega)]
  rfl

theorem iota_length_nat (n : Int) : (iota n).length = n.toNat := by
  unfold iota; simp

/-- first item of a chunk of `iter_tiled_full_frame_data`: the tile at (1, 1) -/
theorem iterChunk_head (tr tc R C : Int) (g : Geo) (zf : Int → Rat) (chp : Option Int × Int) (hr : 1 ≤ tr) (hc : 1 ≤ tc) (hR : 1 ≤ R) (hC : 1 ≤ C) :
    ∃ q, (iterChunk tr tc R C g zf chp)[0]? = some q ∧ q.2.2.1 = 1 ∧ q.2.2.2.1 = 1 := by
  unfold iterChunk tpOf
  rw [List.getElem?_map]
  have h := flatMap_getElem_const (fun i => (iota (nTiles C tc)).map (fun j => ((j * tc + 1, i * tr + 1), pixToRef { g with oz := zf chp.2 } (j * tc) (i * tr))))
    (nTiles C tc).toNat (iota (nTiles R tr)) 0 0 (0 : Int) (fun y _ => by rw [List.length_map, iota_length_nat])
    (by have := nTiles_pos C tc hC hc; omega) (iota_getElem _ 0 (by have := nTiles_pos R tr hR hr; omega))
  rw [Nat.zero_mul, Nat.add_zero] at h
  rw [h, List.getElem?_map, iota_getElem _ 0 (by have := nTiles_pos C tc hC hc; omega)]
  simp only [Option.map_some]
  exact ⟨_, rfl, by simp, by simp⟩

/-- **several focal planes**: in the table derived for a TILED_FULL image with two or more focal planes every tile position
occurs once per plane, so a region read without a channel query fails the uniqueness test -/
theorem tiledFullLut_planes_not_unique (ch : Option Int) (planes tr tc R C : Int) (hp : 2 ≤ planes)
    (hr : 1 ≤ tr) (hc : 1 ≤ tc) (hR : 1 ≤ R) (hC : 1 ≤ C) :
    ∃ lut, tiledFullLut [ch] planes tr tc R C = .ok lut ∧ uniqueKey none lut = false := by
  unfold tiledFullLut
  obtain ⟨zf, hz⟩ := tiledFullZOffset_total 1 0
  rw [iterTiledFull_eq_of _ _ _ _ _ _ _ _ zf hz hr hc hR hC]
  refine ⟨_, rfl, ?_⟩
  rw [Bool.eq_false_iff]
  intro hu
  unfold uniqueKey at hu
  simp only at hu
  rw [uniquePos_iff, List.map_map, List.map_map, List.nodup_iff_getElem?_ne_getElem?] at hu
  -- frames 0 and N (= first tile of planes 1 and 2) carry the same position
  set N := (nTiles R tr).toNat * (nTiles C tc).toNat with hN
  have hNpos : 0 < N := by
    have := nTiles_pos R tr hR hr; have := nTiles_pos C tc hC hc
    exact Nat.mul_pos (by omega) (by omega)
  set chps := ([ch].flatMap (fun ch => (iota planes).map (fun p => (ch, p + 1)))) with hchps
  have hc0 : chps[0]? = some (ch, (0 : Int) + 1) := by
    rw [hchps]; simp only [List.flatMap_cons, List.flatMap_nil, List.append_nil]
    rw [List.getElem?_map, iota_getElem planes 0 (by omega)]; rfl
  have hc1 : chps[1]? = some (ch, (1 : Int) + 1) := by
    rw [hchps]; simp only [List.flatMap_cons, List.flatMap_nil, List.append_nil]
    rw [List.getElem?_map, iota_getElem planes 1 (by omega)]; rfl
  have hlen : ∀ y ∈ chps, (iterChunk tr tc R C ⟨0, 0, 0, 1, 0, 0, 0, 1, 0, 1, 1⟩ zf y).length = N := by
    intro y _
    rw [chunk_length, List.length_map]
    unfold gridPos
    rw [flatMap_const_length _ _ (nTiles C tc).toNat (fun x _ => by rw [List.length_map, iota_length_nat]), iota_length_nat]
  have e0 := flatMap_getElem_const (iterChunk tr tc R C ⟨0, 0, 0, 1, 0, 0, 0, 1, 0, 1, 1⟩ zf) N chps 0 0 _ hlen hNpos hc0
  have e1 := flatMap_getElem_const (iterChunk tr tc R C ⟨0, 0, 0, 1, 0, 0, 0, 1, 0, 1, 1⟩ zf) N chps 1 0 _ hlen hNpos hc1
  obtain ⟨q0, h0, a0, b0⟩ := iterChunk_head tr tc R C ⟨0, 0, 0, 1, 0, 0, 0, 1, 0, 1, 1⟩ zf (ch, (0 : Int) + 1) hr hc hR hC
  obtain ⟨q1, h1, a1, b1⟩ := iterChunk_head tr tc R C ⟨0, 0, 0, 1, 0, 0, 0, 1, 0, 1, 1⟩ zf (ch, (1 : Int) + 1) hr hc hR hC
  rw [h0] at e0
  rw [h1] at e1
  simp only [Nat.zero_mul, Nat.one_mul, Nat.add_zero] at e0 e1
  have hNlen : N < (List.map ((key3 ∘ fun r => { rp := r.rp, cp := r.cp, fi := r.fi, ch := 0 }) ∘ fun x : (Option Int × Int × Int × Int × Rat × Rat × Rat) × Nat =>
      ({ rp := x.1.2.2.2.1, cp := x.1.2.2.1, fi := x.2, ch := match x.1.1 with | some c => c | none => 0 } : LutRow))
      (chps.flatMap (iterChunk tr tc R C ⟨0, 0, 0, 1, 0, 0, 0, 1, 0, 1, 1⟩ zf)).zipIdx).length := by
    rw [List.length_map, List.length_zipIdx]
    exact (List.getElem?_eq_some_iff.mp e1).1
  apply hu 0 N hNpos hNlen
  rw [List.getElem?_map, List.getElem?_map, List.getElem?_zipIdx, List.getElem?_zipIdx, e0, e1]
  simp only [Option.map_some, Function.comp, key3, a0, b0, a1, b1]

/-- with `allow_missing_combinations` the TILED_FULL flag does not influence a region read -/
theorem readRegion_full_irrelevant {α} (z : α) (lut : List LutRow) (frames : List (Img α)) (R C th tw : Int) (chan : Option Int)
    (rs re cs ce : Option Int) (ai full full' : Bool) :
    readRegion z lut frames R C th tw chan rs re cs ce ai full true = readRegion z lut frames R C th tw chan rs re cs ce ai full' true := by
  unfold readRegion
  simp

/-- **TILED_FULL and TILED_SPARSE give the same result**: with nothing omitted, tiling with implied positions and
reading back is the same computation as with explicit positions -/
theorem tileThenRead_full_eq_sparse {α} [BEq α] (z : α) (Ms : List (Int × Img α)) (R C tr tc : Int)
    (hr : 1 ≤ tr) (hc : 1 ≤ tc) (hR : 1 ≤ R) (hC : 1 ≤ C) (c : Int) (rs re cs ce : Option Int) (ai : Bool) :
    tileThenRead z Ms R C tr tc true false c rs re cs ce ai = tileThenRead z Ms R C tr tc false false c rs re cs ce ai := by
  unfold tileThenRead
  simp only [Bool.and_false, Bool.false_eq_true, if_false, if_true]
  rw [tileOffsets_eq tr tc R C hr hc hR hC]
  simp only
  cases hk : keepMask z Ms R C tr tc ((gridPos R C tr tc).map (fun p => (p.2, p.1))) false with
  | error e => rfl
  | ok keep =>
    simp only
    cases hcs : cutSegments z R C tr tc ((gridPos R C tr tc).map (fun p => (p.2, p.1))) Ms keep 0 with
    | error e => rfl
    | ok v =>
      obtain ⟨rows, frames⟩ := v
      simp only
      obtain ⟨_, _, _, k4⟩ := keepMask_spec z Ms R C tr tc _ false keep hk
      have hall : ∀ k ∈ keep, ∀ b ∈ k, b = true := by
        intro k hkm b hb
        obtain ⟨s, hs⟩ := List.getElem?_of_mem hkm
        obtain ⟨t, ht⟩ := List.getElem?_of_mem hb
        exact k4 rfl s t k b hs ht
      have hrows := cutSegments_allTrue z R C tr tc _ Ms keep 0 rows frames hall hcs
      have hfull : tiledFullLut (Ms.map (fun m => some m.1)) 1 tr tc R C = .ok rows := by
        have : Ms.map (fun m => some m.1) = (Ms.map Prod.fst).map some := by rw [List.map_map]; rfl
        rw [this, tiledFullLut_eq _ tr tc R C hr hc hR hC, hrows]
      rw [hfull]
      simp only
      exact readRegion_full_irrelevant z rows frames R C tr tc (some c) rs re cs ce ai true false


/-- the table implied by frame order for a single-channel TILED_FULL image: frame `k` sits at the `k`-th position of
the row-major grid -/
theorem tiledFullLut_single (ch : Int) (tr tc R C : Int) (hr : 1 ≤ tr) (hc : 1 ≤ tc) (hR : 1 ≤ R) (hC : 1 ≤ C) :
    ∃ lut, tiledFullLut [some ch] 1 tr tc R C = .ok lut ∧ lut.map pos = gridPos R C tr tc ∧
      ∀ r ∈ lut, (gridPos R C tr tc)[r.fi]? = some (r.rp, r.cp) := by
  refine ⟨_, tiledFullLut_eq [ch] tr tc R C hr hc hR hC, ?_, ?_⟩
  · simp only [segRows, List.append_nil, rowsOf, List.map_map]
    have : (pos ∘ fun x : (Int × Int) × Nat => (⟨x.1.2, x.1.1, x.2, ch⟩ : LutRow)) = (fun p : Int × Int => (p.2, p.1)) ∘ Prod.fst := by
      funext x; rfl
    rw [this, ← List.map_map, List.zipIdx_map_fst, List.map_map]
    have : ((fun p : Int × Int => (p.2, p.1)) ∘ fun p : Int × Int => (p.2, p.1)) = id := by funext x; rfl
    rw [this, List.map_id]
  · intro r hrm
    simp only [segRows, List.append_nil, rowsOf, List.mem_map] at hrm
    obtain ⟨x, hx, rfl⟩ := hrm
    have := List.mem_zipIdx_iff_getElem?.mp hx
    rw [List.getElem?_map] at this
    simp only
    cases hg : (gridPos R C tr tc)[x.2]? with
    | none => simp [hg] at this
    | some p =>
      simp only [hg, Option.map_some, Option.some.injEq] at this
      rw [← this]

/-- **TILED_FULL region read**: positions implied by frame order.  If frame `k` was cut from `M` at the `k`-th
position of the row-major grid, every accepted request returns the requested part of `M`. -/
theorem readRegion_tiled_full {α} (z : α) (M : Img α) (frames : List (Img α)) (ch : Int) (R C th tw : Int)
    (ht : 1 ≤ th) (hw : 1 ≤ tw) (hR : 1 ≤ R) (hC : 1 ≤ C)
    (hframes : ∀ (k : Nat) (p : Int × Int), (gridPos R C th tw)[k]? = some p →
      ∃ fr, frames[k]? = some fr ∧ FrameCutFrom M R C th tw p.1 p.2 fr)
    (rs re cs ce : Option Int) (ai am : Bool) (r0 r1 c0 c1 : Int)
    (hstd : stdRowColIndices rs re cs ce R C ai false = .ok (r0, r1, c0, c1)) (hr : r0 ≤ r1) (hc : c0 ≤ c1) :
    ∃ lut out, tiledFullLut [some ch] 1 th tw R C = .ok lut ∧
      readRegion z lut frames R C th tw none rs re cs ce ai true am = .ok (r1 - r0, c1 - c0, out) ∧
      ∀ i j, 0 ≤ i → i < r1 - r0 → 0 ≤ j → j < c1 - c0 → out i j = M (r0 - 1 + i) (c0 - 1 + j) := by
  obtain ⟨lut, hlut, hpos, hfi⟩ := tiledFullLut_single ch th tw R C ht hw hR hC
  have hg : IsGridTable R C th tw lut := by unfold IsGridTable; rw [hpos]
  have hcut : TableCutFrom M R C th tw lut frames := fun r hrm => hframes r.fi (r.rp, r.cp) (hfi r hrm)
  obtain ⟨out, ho, hp⟩ := readRegion_grid z M lut frames R C th tw ht hw hg hcut rs re cs ce ai true am r0 r1 c0 c1 hstd hr hc
  exact ⟨lut, out, hlut, ho, hp⟩

/-- **Omitted tiles read as zeros.**  A table holding some of the grid tiles (each at most once), with frames cut
from `M`, where every grid tile that is absent is entirely zero in `M`: with `allow_missing_combinations`
every accepted request still returns the requested part of `M`. -/
theorem readRegion_sparse_zero_fill {α} (z : α) (M : Img α) (lut : List LutRow) (frames : List (Img α)) (R C th tw : Int)
    (ht : 1 ≤ th) (hw : 1 ≤ tw) (hnd : (lut.map pos).Nodup)
    (hcut : TableCutFrom M R C th tw lut frames)
    (hzero : ∀ p ∈ gridPos R C th tw, p ∉ lut.map pos →
      ∀ a b, 0 ≤ a → a < th → 0 ≤ b → b < tw → p.1 - 1 + a < R → p.2 - 1 + b < C → M (p.1 - 1 + a) (p.2 - 1 + b) = z)
    (rs re cs ce : Option Int) (ai full : Bool) (r0 r1 c0 c1 : Int)
    (hstd : stdRowColIndices rs re cs ce R C ai false = .ok (r0, r1, c0, c1)) (hr : r0 ≤ r1) (hc : c0 ≤ c1) :
    ∃ out, readRegion z lut frames R C th tw none rs re cs ce ai full true = .ok (r1 - r0, c1 - c0, out) ∧
      ∀ i j, 0 ≤ i → i < r1 - r0 → 0 ≤ j → j < c1 - c0 → out i j = M (r0 - 1 + i) (c0 - 1 + j) := by
  obtain ⟨g1, g2, g3, g4, g5, g6, g7, g8⟩ := stdRowCol_range_num hstd
  obtain ⟨out, hout, hpix⟩ := readRegion_general z M lut frames R C th tw none rs re cs ce ai full true ht hw
    (uniqueKey_none_of_nodup lut hnd) hcut r0 r1 c0 c1 hstd (Or.inl rfl) hr hc
  refine ⟨out, hout, ?_⟩
  intro i j hi0 hi1 hj0 hj1
  obtain ⟨p1, p2⟩ := hpix i j hi0 hi1 hj0 hj1
  by_cases hcov : ∃ r ∈ chanRows none lut, inTile th tw r (r0 + i) (c0 + j)
  · exact p1 hcov
  · rw [p2 hcov]
    obtain ⟨e0, e1, e2⟩ := axis_cover_exists th (r0 + i) ht (by omega)
    obtain ⟨f0, f1, f2⟩ := axis_cover_exists tw (c0 + j) hw (by omega)
    have hp : (1 + th * ((r0 + i - 1) / th), 1 + tw * ((c0 + j - 1) / tw)) ∈ gridPos R C th tw := by
      rw [mem_gridPos]
      exact ⟨_, _, e0, axis_index_lt th R (r0 + i) ht (by omega), f0, axis_index_lt tw C (c0 + j) hw (by omega), rfl, rfl⟩
    have habs : (1 + th * ((r0 + i - 1) / th), 1 + tw * ((c0 + j - 1) / tw)) ∉ lut.map pos := by
      intro hm
      obtain ⟨r, hrm, hrp⟩ := List.mem_map.mp hm
      unfold pos at hrp
      simp only [Prod.mk.injEq] at hrp
      exact hcov ⟨r, hrm, by unfold inTile; omega⟩
    have := hzero _ hp habs (r0 + i - (1 + th * ((r0 + i - 1) / th))) (c0 + j - (1 + tw * ((c0 + j - 1) / tw)))
      (by omega) (by omega) (by omega) (by omega) (by simp only; omega) (by simp only; omega)
    rw [← this]
    congr 1 <;> simp only <;> omega


/-- count of the selected rows of a table on the grid without repeated positions, in terms of the selected grid tiles
that are present -/
theorem selected_count_le (R C th tw : Int) (ht : 1 ≤ th) (hw : 1 ≤ tw) (rows : List LutRow)
    (hsub : ∀ r ∈ rows, pos r ∈ gridPos R C th tw) (hnd : (rows.map pos).Nodup)
    (r0 r1 c0 c1 : Int) (h1 : 1 ≤ r0) (h1' : r0 ≤ R) (h2 : r0 ≤ r1) (h3 : r1 ≤ R + 1) (h4 : 1 ≤ c0) (h4' : c0 ≤ C) (h5 : c0 ≤ c1) (h6 : c1 ≤ C + 1) :
    ((rows.filter (selected r0 r1 c0 c1 th tw)).length : Int) ≤
      (Int.fdiv (r1 - 2) th - Int.fdiv (r0 - 1) th + 1) * (Int.fdiv (c1 - 2) tw - Int.fdiv (c0 - 1) tw + 1) ∧
    (((rows.filter (selected r0 r1 c0 c1 th tw)).length : Int) =
      (Int.fdiv (r1 - 2) th - Int.fdiv (r0 - 1) th + 1) * (Int.fdiv (c1 - 2) tw - Int.fdiv (c0 - 1) tw + 1) ↔
      ∀ p ∈ gridPos R C th tw, selP r0 r1 c0 c1 th tw p = true → p ∈ rows.map pos) := by
  -- the grid itself as a table
  have hgT : IsGridTable R C th tw ((gridPos R C th tw).map (fun p => (⟨p.1, p.2, 0, 0⟩ : LutRow))) := by
    unfold IsGridTable
    rw [List.map_map]
    have : (pos ∘ fun p : Int × Int => (⟨p.1, p.2, 0, 0⟩ : LutRow)) = id := by funext p; rfl
    rw [this, List.map_id]
  have hcount := selected_count R C th tw ht hw _ hgT r0 r1 c0 c1 h1 h1' h2 h3 h4 h4' h5 h6
  have eG : (((gridPos R C th tw).map (fun p => (⟨p.1, p.2, 0, 0⟩ : LutRow))).filter (selected r0 r1 c0 c1 th tw)).length =
      ((gridPos R C th tw).filter (selP r0 r1 c0 c1 th tw)).length := by
    rw [List.filter_map, List.length_map]
    congr 1
    apply List.filter_congr
    intro p _
    simp only [Function.comp]
    rw [selected_eq_selP]
    rfl
  rw [eG] at hcount
  rw [← hcount]
  have e1 : (rows.filter (selected r0 r1 c0 c1 th tw)).length = ((rows.map pos).filter (selP r0 r1 c0 c1 th tw)).length := by
    rw [List.filter_map, List.length_map]
    congr 1
    apply List.filter_congr
    intro r _
    exact selected_eq_selP r0 r1 c0 c1 th tw r
  rw [e1]
  have hndL : ((rows.map pos).filter (selP r0 r1 c0 c1 th tw)).Nodup := hnd.filter _
  have hndG : ((gridPos R C th tw).filter (selP r0 r1 c0 c1 th tw)).Nodup := (gridPos_nodup R C th tw ht hw).filter _
  have hss : (rows.map pos).filter (selP r0 r1 c0 c1 th tw) ⊆ (gridPos R C th tw).filter (selP r0 r1 c0 c1 th tw) := by
    intro p hp
    rw [List.mem_filter] at hp ⊢
    obtain ⟨r, hr, rfl⟩ := List.mem_map.mp hp.1
    exact ⟨hsub r hr, hp.2⟩
  have hle := hndL.length_le_of_subset hss
  refine ⟨by exact_mod_cast hle, ?_⟩
  constructor
  · intro heq p hp hsel
    have heq' : ((rows.map pos).filter (selP r0 r1 c0 c1 th tw)).length = ((gridPos R C th tw).filter (selP r0 r1 c0 c1 th tw)).length := by
      exact_mod_cast heq
    -- equal lengths + inclusion of duplicate-free lists: same elements
    have hsub2 : (gridPos R C th tw).filter (selP r0 r1 c0 c1 th tw) ⊆ (rows.map pos).filter (selP r0 r1 c0 c1 th tw) :=
      (List.subperm_of_subset hndL hss).perm_of_length_le (by omega) |>.symm.subset
    have := hsub2 (List.mem_filter.mpr ⟨hp, hsel⟩)
    exact (List.mem_filter.mp this).1
  · intro hall
    have hsub2 : (gridPos R C th tw).filter (selP r0 r1 c0 c1 th tw) ⊆ (rows.map pos).filter (selP r0 r1 c0 c1 th tw) := by
      intro p hp
      rw [List.mem_filter] at hp ⊢
      exact ⟨hall p hp.1 hp.2, hp.2⟩
    have hle2 := hndG.length_le_of_subset hsub2
    have : ((rows.map pos).filter (selP r0 r1 c0 c1 th tw)).length = ((gridPos R C th tw).filter (selP r0 r1 c0 c1 th tw)).length := by omega
    exact_mod_cast this


end HdVerif.TilingLemmas
