import HdVerif.Proofs.SegRead
/-! C02 helper lemmas: the LABELMAP branch (remapping table, one-hot expansion, frame loop). -/
namespace HdVerif.SegReadLemmas
open HdVerif HdVerif.Gen HdVerif.SegRead

theorem pyIndex_remapTable (segs : List Nat) (combine relabel : Bool) (bg numIn : Nat) (d : DType) (v : Nat)
    (hv : v ≤ numIn) :
    pyIndex (remapTable segs combine relabel bg numIn d) (v : Int) =
      .ok (castVal d (remapEntry segs combine relabel bg numIn v)) := by
  unfold pyIndex remapTable
  have h0 : ¬ ((v : Int) < 0) := by omega
  simp only [h0, ↓reduceIte, Int.toNat_natCast]
  have : ((List.range (numIn + 1)).map fun s => castVal d (remapEntry segs combine relabel bg numIn s))[v]? =
      some (castVal d (remapEntry segs combine relabel bg numIn v)) := by
    rw [List.getElem?_map, List.getElem?_range (by omega)]
    rfl
  rw [this]

theorem oneHot_nat (d : DType) (n v : Nat) (hv : v ≤ n) :
    oneHot d n (v : Int) = .ok ((List.range' 1 n).map fun (k : Nat) => if v = k then (1 : Int) else 0) := by
  unfold oneHot
  have h0 : ¬ ((v : Int) < 0) := by omega
  have h1 : ¬ ((v : Int) > (n : Int)) := by omega
  simp only [h0, ↓reduceIte, h1, false_or]
  congr 1
  apply List.map_congr_left
  intro k _
  by_cases h : v = k
  · simp [h, castVal_one]
  · have : ¬ ((v : Int) = (k : Int)) := by omega
    simp [h, this, castVal_zero]

theorem foldl_last {α β} (g : α → β) (l : List α) (init : β) :
    l.foldl (fun _ x => g x) init = (match l.getLast? with | some x => g x | none => init) := by
  induction l generalizing init with
  | nil => rfl
  | cons a t ih =>
    rw [List.foldl_cons, ih]
    cases t with
    | nil => rfl
    | cons b t' =>
      rw [List.getLast?_cons_cons]
      cases h : (b :: t').getLast? with
      | some x => rfl
      | none => simp at h

theorem labelRow_eq (d : DType) (st : Stored) (k : Nat) :
    labelRow d st.npix (st.frames.filter (fun f => f.key == k)) = castFrame d ((rawLabels st k).map Int.ofNat) := by
  unfold labelRow rawLabels
  rw [foldl_last (fun f => castFrame d (natFrame f))]
  cases (st.frames.filter (fun f => f.key == k)).getLast? with
  | some f => rfl
  | none =>
    simp only [zeros, castFrame, List.map_replicate]
    simp [castVal_zero]


theorem rawLabels_mem (st : Stored) (wf : WfLabel st) (k p : Nat) (hp : p ∈ rawLabels st k) :
    p = 0 ∨ p ∈ st.segNums := by
  unfold rawLabels at hp
  cases h : (st.frames.filter (fun f => f.key == k)).getLast? with
  | some f =>
    rw [h] at hp
    have hf : f ∈ st.frames.filter (fun f => f.key == k) := List.mem_of_getLast? h
    exact wf.described f (List.mem_filter.mp hf).1 p hp
  | none =>
    rw [h] at hp
    exact Or.inl (List.eq_of_mem_replicate hp)



/-- the remapping table of a read, in closed form -/
def tableOf (st : Stored) (rq : Req) (d interm : DType) : List Int :=
  remapTable rq.segs rq.combine rq.relabel st.bg (max (st.bg + 1) (listMax st.segNums + 1))
    (if rq.combine then d else interm)

/-- the translated cell function (T8e) in closed form -/
theorem remapCell_eq (combine relabel : Bool) (dc ic : Int) (s maxS bg : Nat) (req : Bool) (fi : Nat) :
    remapCell combine relabel dc ic (s : Int) (maxS : Int) (bg : Int) req (fi : Int) =
      .ok (((max (bg + 1) (maxS + 1) + 1 : Nat) : Int), (if combine then dc else ic),
        (if combine && !relabel then
           (if s < max (bg + 1) (maxS + 1) then (if req then (s : Int) else (bg : Int)) else 0)
         else (if s < max (bg + 1) (maxS + 1) + 1 then (if req then ((fi + 1 : Nat) : Int) else 0) else 0))) := by
  unfold remapCell
  cases combine <;> cases relabel <;> cases req <;> simp <;> (try grind)

/-- the table the model builds from the translated cells is the closed-form table -/
theorem remapTableT_eq (st : Stored) (rq : Req) (d interm : DType) :
    remapTableT st rq d interm = .ok (tableOf st rq d interm) := by
  unfold remapTableT tableOf remapTable
  simp only [remapCell_eq, bind, Except.bind]
  have hcode : DType.ofCode (if rq.combine = true then d.code else interm.code) =
      some (if rq.combine then d else interm) := by
    cases rq.combine <;> simp [ofCode_code]
  simp only [hcode, Int.toNat_natCast]
  apply mapM_ok
  intro s hs
  have hs' : s < max (st.bg + 1) (listMax st.segNums + 1) + 1 := List.mem_range.mp hs
  simp only [pure, Except.pure, Except.ok.injEq]
  congr 1
  unfold remapEntry
  by_cases hcr : (rq.combine && !rq.relabel) = true
  · simp only [hcr, ↓reduceIte]
  · simp only [hcr, Bool.false_eq_true, ↓reduceIte, hs']

theorem labelmapFrame_remap (st : Stored) (rq : Req) (d interm : DType) (raw : List Nat)
    (hraw : ∀ v ∈ raw, v ≤ listMax st.segNums) :
    labelmapFrame (some (tableOf st rq d interm)) (raw.map Int.ofNat) =
      .ok (raw.map fun v => castVal (if rq.combine then d else interm)
        (remapEntry rq.segs rq.combine rq.relabel st.bg (max (st.bg + 1) (listMax st.segNums + 1)) v)) := by
  unfold labelmapFrame tableOf
  simp only []
  rw [List.mapM_map]
  apply mapM_ok
  intro v hv
  show pyIndex _ (Int.ofNat v) = _
  have := pyIndex_remapTable rq.segs rq.combine rq.relabel st.bg (max (st.bg + 1) (listMax st.segNums + 1))
    (if rq.combine then d else interm) v (by have := hraw v hv; omega)
  exact this


theorem firstIdx_lt (segs : List Nat) (v : Nat) (h : segs.contains v = true) : firstIdx segs v < segs.length := by
  unfold firstIdx
  apply List.findIdx_lt_length_of_exists
  exact ⟨v, by simpa using h, by simp⟩

theorem remap_combine_norelabel (segs : List Nat) (d : DType) (numIn v : Nat) (hv : v < numIn)
    (hcap : (listMax segs : Int) ≤ d.maxVal) :
    castVal d (remapEntry segs true false 0 numIn v) = outVal segs false v := by
  unfold remapEntry outVal
  simp only [Bool.not_false, Bool.and_self, ↓reduceIte, hv, Bool.false_eq_true]
  by_cases hc : segs.contains v = true
  · simp only [hc, ↓reduceIte]
    have : v ≤ listMax segs := le_listMax segs v (by simpa using hc)
    exact castVal_of_le d v (by omega) (by omega)
  · simp only [hc, Bool.false_eq_true, ↓reduceIte]
    simpa using castVal_zero d

theorem remap_position (segs : List Nat) (combine relabel : Bool) (h : (combine && !relabel) = false)
    (d : DType) (bg numIn v : Nat) (hcap : (segs.length : Int) ≤ d.maxVal) :
    castVal d (remapEntry segs combine relabel bg numIn v) = posVal segs v := by
  unfold remapEntry posVal posNat
  simp only [h, Bool.false_eq_true, ↓reduceIte]
  by_cases hc : segs.contains v = true
  · simp only [hc, ↓reduceIte]
    have := firstIdx_lt segs v hc
    exact castVal_of_le d _ (by omega) (by omega)
  · simp only [hc, Bool.false_eq_true, ↓reduceIte]
    exact castVal_zero d

theorem outVal_relabel (segs : List Nat) (v : Nat) : outVal segs true v = posVal segs v := by
  unfold outVal posVal posNat
  cases hc : segs.contains v <;> simp



theorem rawLabels_le (st : Stored) (wf : WfLabel st) (k v : Nat) (hv : v ∈ rawLabels st k) :
    v ≤ listMax st.segNums := by
  rcases rawLabels_mem st wf k v hv with rfl | h
  · exact Nat.zero_le _
  · exact le_listMax _ _ h

/-- remapping path of a combined read, one output frame -/
theorem labelmap_frame_combined_remap (st : Stored) (rq : Req) (d interm : DType) (wf : WfLabel st)
    (hc : rq.combine = true)
    (hint : ∀ s ∈ st.segNums, (s : Int) ≤ interm.maxVal)
    (hcap : (if rq.relabel then (rq.segs.length : Int) else (listMax rq.segs : Int)) ≤ d.maxVal) (k : Nat) :
    labelmapFrame (some (tableOf st rq d interm)) (labelRow interm st.npix (st.frames.filter (fun f => f.key == k))) =
      .ok ((rawLabels st k).map (outVal rq.segs rq.relabel)) := by
  rw [labelRow_eq, castFrame_id, labelmapFrame_remap st rq d interm _ (rawLabels_le st wf k)]
  · congr 1
    apply List.map_congr_left
    intro v hv
    simp only [hc, ↓reduceIte, wf.bg]
    have hvn : v < max (0 + 1) (listMax st.segNums + 1) := by
      have := rawLabels_le st wf k v hv; omega
    cases hr : rq.relabel with
    | false =>
      rw [hr] at hcap
      exact remap_combine_norelabel rq.segs d _ v hvn (by simpa using hcap)
    | true =>
      rw [hr] at hcap
      rw [outVal_relabel]
      exact remap_position rq.segs true true (by simp) d 0 _ v (by simpa using hcap)
  · intro v hv
    obtain ⟨p, hp, rfl⟩ := List.mem_map.mp hv
    refine ⟨by simp, ?_⟩
    rcases rawLabels_mem st wf k p hp with rfl | h
    · have := one_le_maxVal interm; simp; omega
    · exact hint p h

/-- path without remapping (every stored segment requested, combined, not relabelled), one output frame -/
theorem labelmap_frame_combined_direct (st : Stored) (rq : Req) (d : DType) (wf : WfLabel st)
    (hall : ∀ s ∈ st.segNums, s ∈ rq.segs) (hcap : (listMax rq.segs : Int) ≤ d.maxVal) (k : Nat) :
    labelmapFrame none (labelRow d st.npix (st.frames.filter (fun f => f.key == k))) =
      .ok ((rawLabels st k).map (outVal rq.segs false)) := by
  unfold labelmapFrame
  simp only []
  rw [labelRow_eq, castFrame_id]
  · congr 1
    apply List.map_congr_left
    intro v hv
    unfold outVal
    rcases rawLabels_mem st wf k v hv with rfl | h
    · simp
    · have : v ∈ rq.segs := hall v h
      simp [this]
  · intro v hv
    obtain ⟨p, hp, rfl⟩ := List.mem_map.mp hv
    refine ⟨by simp, ?_⟩
    rcases rawLabels_mem st wf k p hp with rfl | h
    · have := one_le_maxVal d; simp; omega
    · have := le_listMax rq.segs p (hall p h)
      simp; omega



theorem interm_holds (st : Stored) (wf : WfLabel st) :
    ∃ interm, DType.ofCode (st.bitsStored : Int) = some interm ∧ ∀ s ∈ st.segNums, (s : Int) ≤ interm.maxVal := by
  rcases wf.bits with hb | hb
  · refine ⟨.u8, by rw [hb]; rfl, ?_⟩
    intro s hs
    have := wf.fit s hs
    rw [hb] at this
    simp [DType.maxVal]; omega
  · refine ⟨.u16, by rw [hb]; rfl, ?_⟩
    intro s hs
    have := wf.fit s hs
    rw [hb] at this
    simp [DType.maxVal]; omega

/-- the range check of the frame transform never fires on the remapping path: the intermediate dtype is the stored one -/
theorem range_ok_interm (st : Stored) (wf : WfLabel st) (interm : DType)
    (hi : DType.ofCode (st.bitsStored : Int) = some interm) (keys : List Nat) :
    (keys.all fun k => (st.frames.filter (fun f => f.key == k)).all (frameInRange st.bitsStored interm)) = true := by
  have hna : rangeCheckActive st.bitsStored interm = false := by
    rcases wf.bits with hb | hb
    · rw [hb] at hi ⊢
      have : interm = .u8 := by
        have h8 : DType.ofCode ((8 : Nat) : Int) = some .u8 := rfl
        rw [h8] at hi; exact (Option.some.inj hi).symm
      subst this; rfl
    · rw [hb] at hi ⊢
      have : interm = .u16 := by
        have h16 : DType.ofCode ((16 : Nat) : Int) = some .u16 := rfl
        rw [h16] at hi; exact (Option.some.inj hi).symm
      subst this; rfl
  simp [frameInRange, hna]

/-- … nor on the direct path when every stored value fits the output dtype -/
theorem range_ok_direct (st : Stored) (wf : WfLabel st) (d : DType) (segs : List Nat)
    (hall : ∀ s ∈ st.segNums, s ∈ segs) (hcap : (listMax segs : Int) ≤ d.maxVal) (keys : List Nat) :
    (keys.all fun k => (st.frames.filter (fun f => f.key == k)).all (frameInRange st.bitsStored d)) = true := by
  rw [List.all_eq_true]; intro k _
  rw [List.all_eq_true]; intro f hf
  unfold frameInRange
  have hfm : f ∈ st.frames := (List.mem_filter.mp hf).1
  have : (f.pix.all fun p => decide ((p : Int) ≤ d.maxVal)) = true := by
    rw [List.all_eq_true]; intro p hp
    rcases wf.described f hfm p hp with rfl | h
    · have := one_le_maxVal d; simp; omega
    · have := le_listMax segs p (hall p h)
      simp; omega
  simp [this]

theorem labelmapRead_combined (st : Stored) (rq : Req) (d : DType) (wf : WfLabel st)
    (hc : rq.combine = true) (hne : rq.segs ≠ [])
    (hcap : (if rq.relabel then (rq.segs.length : Int) else (listMax rq.segs : Int)) ≤ d.maxVal) :
    labelmapRead st rq d =
      .ok (.combined (rq.keys.map fun k => (rawLabels st k).map (outVal rq.segs rq.relabel))) := by
  have hlen : (1 : Int) ≤ (rq.segs.length : Int) := by
    cases h : rq.segs with
    | nil => exact absurd h hne
    | cons a t => simp; omega
  unfold labelmapRead
  rw [labelmapDecision_eq rq.combine rq.relabel d.code _ _ _ st.bitsStored wf.bits hlen]
  simp only [bind, Except.bind, hc]
  by_cases hr : (!true || rq.relabel || decide ((0 : Int) < (nXor rq.segs st.segNums : Nat))) = true
  · obtain ⟨interm, hi, hfit⟩ := interm_holds st wf
    have hrg : (!rq.keys.all fun k => (st.frames.filter (fun f => f.key == k)).all (frameInRange st.bitsStored interm)) = false := by
      rw [range_ok_interm st wf interm hi]; rfl
    simp only [hr, ↓reduceIte, hi, hrg, Bool.false_eq_true,
      remapTableT_eq, Functor.map, Except.map, List.mapM_map, Function.comp_def]
    rw [mapM_ok _ (fun k => (rawLabels st k).map (outVal rq.segs rq.relabel)) rq.keys
      (fun k _ => labelmap_frame_combined_remap st rq d interm wf hc hfit hcap k)]
  · have hr' : (!true || rq.relabel || decide ((0 : Int) < (nXor rq.segs st.segNums : Nat))) = false := by
      simpa using hr
    have hrel : rq.relabel = false := by
      cases h : rq.relabel <;> simp [h] at hr' ⊢
    have hx : nXor rq.segs st.segNums = 0 := by
      cases h : rq.relabel <;> simp [h] at hr'
      omega
    rw [hrel] at hcap
    have hrg : (!rq.keys.all fun k => (st.frames.filter (fun f => f.key == k)).all (frameInRange st.bitsStored d)) = false := by
      rw [range_ok_direct st wf d rq.segs (nXor_zero_sub _ _ hx) (by simpa using hcap)]; rfl
    simp only [hr', Bool.false_eq_true, ↓reduceIte, ofCode_code, hrg,
      pure, Except.pure, List.mapM_map, Function.comp_def]
    rw [hrel]
    rw [mapM_ok _ (fun k => (rawLabels st k).map (outVal rq.segs false)) rq.keys
      (fun k _ => labelmap_frame_combined_direct st rq d wf (nXor_zero_sub _ _ hx) (by simpa using hcap) k)]



theorem posNat_le (segs : List Nat) (v : Nat) : posNat segs v ≤ segs.length := by
  unfold posNat
  by_cases hc : segs.contains v = true
  · simp only [hc, ↓reduceIte]; have := firstIdx_lt segs v hc; omega
  · have hc' : segs.contains v = false := by simpa using hc
    simp only [hc', Bool.false_eq_true, ↓reduceIte]; omega

/-- frames of a stacked LABELMAP read after remapping: 1-based positions in the request -/
theorem labelmap_frame_stacked (st : Stored) (rq : Req) (d interm : DType) (wf : WfLabel st)
    (hc : rq.combine = false)
    (hint : ∀ s ∈ st.segNums, (s : Int) ≤ interm.maxVal)
    (hlen : (rq.segs.length : Int) ≤ interm.maxVal) (k : Nat) :
    labelmapFrame (some (tableOf st rq d interm)) (labelRow interm st.npix (st.frames.filter (fun f => f.key == k))) =
      .ok ((rawLabels st k).map (posVal rq.segs)) := by
  rw [labelRow_eq, castFrame_id, labelmapFrame_remap st rq d interm _ (rawLabels_le st wf k)]
  · congr 1
    apply List.map_congr_left
    intro v _
    simp only [hc, Bool.false_eq_true, ↓reduceIte]
    exact remap_position rq.segs false rq.relabel (by simp) interm _ _ v hlen
  · intro v hv
    obtain ⟨p, hp, rfl⟩ := List.mem_map.mp hv
    refine ⟨by simp, ?_⟩
    rcases rawLabels_mem st wf k p hp with rfl | h
    · have := one_le_maxVal interm; simp; omega
    · exact hint p h

theorem oneHot_frame (d : DType) (segs : List Nat) (raw : List Nat) :
    ((raw.map (posVal segs)).mapM (oneHot d segs.length)) =
      .ok (raw.map fun v => (List.range' 1 segs.length).map fun (k : Nat) => if posNat segs v = k then (1 : Int) else 0) := by
  rw [List.mapM_map]
  apply mapM_ok
  intro v _
  exact oneHot_nat d segs.length (posNat segs v) (posNat_le segs v)

theorem transposeTo_oneHot (n : Nat) (raw : List Nat) (g : Nat → Nat) :
    transposeTo n (raw.map fun v => (List.range' 1 n).map fun (k : Nat) => if g v = k then (1 : Int) else 0) =
      (List.range n).map fun c => raw.map fun v => if g v = c + 1 then (1 : Int) else 0 := by
  unfold transposeTo
  apply List.map_congr_left
  intro c hc
  rw [List.map_map]
  apply List.map_congr_left
  intro v _
  have hc' : c < n := List.mem_range.mp hc
  simp only [Function.comp, List.getD_eq_getElem?_getD, List.getElem?_map]
  rw [List.getElem?_range' (by omega)]
  simp [Nat.add_comm]



theorem interm_holds' (st : Stored) (wf : WfLabel st) :
    ∃ interm, DType.ofCode (st.bitsStored : Int) = some interm ∧ (∀ s ∈ st.segNums, (s : Int) ≤ interm.maxVal) ∧
      ((2 : Int) ^ st.bitsStored - 1 ≤ interm.maxVal) := by
  rcases wf.bits with hb | hb
  · refine ⟨.u8, by rw [hb]; rfl, ?_, by rw [hb]; simp [DType.maxVal]⟩
    intro s hs
    have := wf.fit s hs
    rw [hb] at this
    simp [DType.maxVal]; omega
  · refine ⟨.u16, by rw [hb]; rfl, ?_, by rw [hb]; simp [DType.maxVal]⟩
    intro s hs
    have := wf.fit s hs
    rw [hb] at this
    simp [DType.maxVal]; omega

theorem labelmapRead_stacked (st : Stored) (rq : Req) (d : DType) (wf : WfLabel st)
    (hc : rq.combine = false) (hne : rq.segs ≠ []) (hlen : rq.segs.length < 2 ^ st.bitsStored) :
    labelmapRead st rq d =
      .ok (.stacked 1 (rq.keys.map fun k => (List.range rq.segs.length).map fun c =>
        (rawLabels st k).map fun v => if posNat rq.segs v = c + 1 then (1 : Int) else 0)) := by
  have hlen1 : (1 : Int) ≤ (rq.segs.length : Int) := by
    cases h : rq.segs with
    | nil => exact absurd h hne
    | cons a t => simp; omega
  obtain ⟨interm, hi, hfit, hmax⟩ := interm_holds' st wf
  have hlen' : (rq.segs.length : Int) ≤ interm.maxVal := by
    have : ((rq.segs.length : Nat) : Int) < (2 : Int) ^ st.bitsStored := by exact_mod_cast hlen
    omega
  unfold labelmapRead
  rw [labelmapDecision_eq rq.combine rq.relabel d.code _ _ _ st.bitsStored wf.bits hlen1]
  have hrg : (!rq.keys.all fun k => (st.frames.filter (fun f => f.key == k)).all (frameInRange st.bitsStored interm)) = false := by
    rw [range_ok_interm st wf interm hi]; rfl
  simp only [bind, Except.bind, hc, Bool.not_false, Bool.true_or, ↓reduceIte, hi, Bool.false_eq_true, hrg,
    remapTableT_eq, Functor.map, Except.map, List.mapM_map, Function.comp_def]
  rw [mapM_ok _ (fun k => (rawLabels st k).map (posVal rq.segs)) rq.keys
    (fun k _ => labelmap_frame_stacked st rq d interm wf hc hfit hlen' k)]
  simp only []
  rw [List.mapM_map, mapM_ok _ (fun k => (List.range rq.segs.length).map fun c =>
        (rawLabels st k).map fun v => if posNat rq.segs v = c + 1 then (1 : Int) else 0)]
  · rfl
  · intro k _
    simp only [Function.comp, oneHot_frame, pure, Except.pure]
    rw [transposeTo_oneHot]



/-! ### the entry points -/

theorem frameAdmitted_iff (k : Nat) (a : Bool) (m : Nat) :
    (frameAdmitted (k : Int) a (m : Int)).isOk = (decide (k ≠ 0) && (a || decide (k ≤ m))) := by
  unfold frameAdmitted
  by_cases h0 : k = 0
  · subst h0; simp [Except.isOk, Except.toBool]
  · have hk' : 0 < k := by omega
    by_cases hm : k ≤ m
    · have hm' : ¬ ((k : Int) > (m : Int)) := by omega
      cases a <;> simp [Except.isOk, Except.toBool, h0, hm, hk', hm']
    · have hm' : ((k : Int) > (m : Int)) := by omega
      cases a <;> simp [Except.isOk, Except.toBool, h0, hm, hk', hm']

/-- the translated per-number checks (T8f) over the whole request, in closed form -/
theorem framesAdmitted_eq (st : Stored) (a : Bool) (keys : List Nat) :
    framesAdmitted st a keys =
      (!(keys.any (· == 0)) && (a || !(keys.any fun k => decide (k > listMax (st.frames.map (·.key)))))) := by
  unfold framesAdmitted
  simp only [frameAdmitted_iff]
  induction keys with
  | nil => simp
  | cons k t ih =>
    simp only [List.all_cons, ih, List.any_cons]
    cases a <;> simp <;> grind

/-- what an entry point refuses: frame number 0, or a stack value unknown to the reference tables without the assertion -/
theorem entryRefuses_eq (st : Stored) (mode : Mode) (a : Bool) (keys : List Nat) :
    entryRefuses st mode a keys = (zeroFrameRequested mode keys || (!a && missingRefused st mode keys)) := by
  unfold entryRefuses zeroFrameRequested missingRefused
  cases mode with
  | bySource => simp
  | div => simp
  | all => simp
  | frame uid =>
    simp only [framesAdmitted_eq]
    cases a <;> cases (st.frameSrcs.contains uid) <;> cases (keys.any (· == 0)) <;>
      cases (keys.any fun k => decide (k > listMax (st.frames.map (·.key)))) <;> simp

/-- the translated check of indexing by source (T8q) in closed form -/
theorem sourceIndexingAllowed_eq (ign tf lu ln ss : Bool) :
    (sourceIndexingAllowed ign tf lu ln ss).isOk = (!tf && (ign || (!lu && !ln)) && ss) := by
  unfold sourceIndexingAllowed
  cases ign <;> cases tf <;> cases lu <;> cases ln <;> cases ss <;> rfl

/-- reading by source instance / frame is refused iff the object is TILED_FULL, or does not say for every source that spatial
locations are preserved and the caller did not opt out, or some frame has several sources -/
theorem sourceIndexingRefused_eq (st : Stored) (mode : Mode) (ign : Bool) :
    sourceIndexingRefused st mode ign =
      (match mode with
       | .bySource | .frame _ => st.tiledFull || (!ign && st.locPreserved != some true) || !st.singleSource
       | _ => false) := by
  unfold sourceIndexingRefused
  cases mode <;> simp only [sourceIndexingAllowed_eq] <;>
    cases st.tiledFull <;> cases ign <;> cases st.singleSource <;> rcases st.locPreserved with _ | _ | _ <;> rfl

theorem read_eq_readCore (st : Stored) (mode : Mode) (a : Bool) (rq : Req)
    (h0 : sourceIndexingRefused st mode rq.ignoreSpatial = false) (h1 : rq.segs ≠ []) (h2 : rq.keys ≠ [])
    (h3 : ∀ k ∈ rq.keys, k ≠ 0) (hu : framesUnique st = true) (hsi : st.type = .labelmap ∨ st.segIndexed = true)
    (hm : a = true ∨ missingRefused st mode rq.keys = false) :
    SegRead.read st mode a rq = readCore (effective st mode) rq := by
  unfold SegRead.read
  have e1 : rq.segs.isEmpty = false := by cases h : rq.segs <;> simp_all
  have e2 : rq.keys.isEmpty = false := by cases h : rq.keys <;> simp_all
  have e3 : zeroFrameRequested mode rq.keys = false := by
    unfold zeroFrameRequested
    cases mode <;> simp
    intro k hk; exact h3 k hk
  have e4 : (!a && missingRefused st mode rq.keys) = false := by
    rcases hm with rfl | h <;> simp_all
  have e5 : (decide (st.type ≠ .labelmap) && !st.segIndexed) = false := by
    rcases hsi with h | h <;> simp [h]
  simp only [h0, e1, e2, e5, hu, entryRefuses_eq, e3, e4, Bool.false_eq_true, ↓reduceIte, Bool.not_true, Bool.or_self]

theorem read_missing_refused (st : Stored) (mode : Mode) (rq : Req)
    (hm : missingRefused st mode rq.keys = true) :
    ∃ e, SegRead.read st mode false rq = .error e := by
  unfold SegRead.read
  by_cases e0 : sourceIndexingRefused st mode rq.ignoreSpatial = true
  · exact ⟨.runtime, by simp [e0]⟩
  simp only [e0, Bool.false_eq_true, ↓reduceIte]
  by_cases e1 : rq.segs.isEmpty = true
  · exact ⟨.value, by simp [e1]⟩
  by_cases e2 : rq.keys.isEmpty = true
  · exact ⟨.value, by simp [e1, e2]⟩
  by_cases e5 : (decide (st.type ≠ .labelmap) && !st.segIndexed) = true
  · exact ⟨.key, by simp only [e1, e2, e5, Bool.false_eq_true, ↓reduceIte]⟩
  simp only [e1, e2, e5, Bool.false_eq_true, ↓reduceIte]
  by_cases e4 : framesUnique st = true
  · exact ⟨.key, by simp [e4, entryRefuses_eq, hm]⟩
  · exact ⟨.runtime, by simp [e4]⟩

/-! ### reading the output values -/

theorem outVal_ne_zero (segs : List Nat) (relabel : Bool) (v : Nat) (h : outVal segs relabel v ≠ 0) : v ∈ segs := by
  unfold outVal at h
  by_cases hc : segs.contains v = true
  · simpa using hc
  · simp only [hc, Bool.false_eq_true, ↓reduceIte, ne_eq, not_true_eq_false] at h

theorem outVal_not_mem (segs : List Nat) (relabel : Bool) (v : Nat) (h : v ∉ segs) : outVal segs relabel v = 0 := by
  unfold outVal
  have : segs.contains v = false := by simpa using h
  simp only [this, Bool.false_eq_true, ↓reduceIte]

theorem outVal_own (segs : List Nat) (v : Nat) (h : v ∈ segs) : outVal segs false v = v := by
  unfold outVal
  have : segs.contains v = true := by simpa using h
  simp only [this, ↓reduceIte, Bool.false_eq_true]

theorem firstIdx_getElem (segs : List Nat) (v : Nat) (h : v ∈ segs) :
    ∃ hlt : firstIdx segs v < segs.length, segs[firstIdx segs v] = v := by
  have hc : segs.contains v = true := by simpa using h
  have hlt := firstIdx_lt segs v hc
  refine ⟨hlt, ?_⟩
  have := @List.findIdx_getElem _ (· == v) segs hlt
  exact eq_of_beq this

theorem outVal_position (segs : List Nat) (v : Nat) (h : v ∈ segs) :
    ∃ i, ∃ hi : i < segs.length, segs[i] = v ∧ (∀ j (hj : j < i), segs[j]'(by omega) ≠ v) ∧
      outVal segs true v = ((i + 1 : Nat) : Int) := by
  obtain ⟨hlt, hget⟩ := firstIdx_getElem segs v h
  refine ⟨firstIdx segs v, hlt, hget, ?_, ?_⟩
  · intro j hj
    have := (List.findIdx_eq (p := (· == v)) hlt).mp rfl
    have h2 := this.2 j hj
    simpa using h2
  · unfold outVal
    have : segs.contains v = true := by simpa using h
    simp only [this, ↓reduceIte]

theorem posNat_eq_succ_iff (segs : List Nat) (hnd : segs.Nodup) (v c : Nat) :
    posNat segs v = c + 1 ↔ segs[c]? = some v := by
  unfold posNat
  by_cases hc : segs.contains v = true
  · simp only [hc, ↓reduceIte]
    have hm : v ∈ segs := by simpa using hc
    obtain ⟨hlt, hget⟩ := firstIdx_getElem segs v hm
    constructor
    · intro h
      have : firstIdx segs v = c := by omega
      subst this
      rw [List.getElem?_eq_getElem hlt, hget]
    · intro h
      obtain ⟨hc', hcv⟩ := List.getElem?_eq_some_iff.mp h
      have : firstIdx segs v = c := by
        apply (List.findIdx_eq (p := (· == v)) hc').mpr
        refine ⟨by simp [hcv], ?_⟩
        intro j hj
        have hne := (List.pairwise_iff_getElem.mp hnd) j c (by omega) hc' hj
        rw [hcv] at hne
        simpa using hne
      omega
  · have hc' : segs.contains v = false := by simpa using hc
    simp only [hc', Bool.false_eq_true, ↓reduceIte]
    constructor
    · intro h; omega
    · intro h
      have : v ∈ segs := List.mem_of_getElem? h
      exact absurd (by simpa using this) hc


/-! ### construction-time combination -/

theorem listMax_le_of_forall (l : List Nat) (m : Nat) (h : ∀ x ∈ l, x ≤ m) : listMax l ≤ m := by
  unfold listMax
  have : ∀ a, a ≤ m → l.foldl max a ≤ m := by
    induction l with
    | nil => intro a ha; exact ha
    | cons b t ih =>
      intro a ha
      rw [List.foldl_cons]
      exact ih (fun x hx => h x (by simp [hx])) (max a b) (by have := h b (by simp); omega)
  exact this 0 (Nat.zero_le _)

theorem combinePixel_zero (chans : List Nat) (h : ∀ c ∈ chans, c = 0) : combinePixel chans = 0 := by
  have hm : listMax chans = 0 := by
    have := listMax_le_of_forall chans 0 (fun x hx => by rw [h x hx]; exact Nat.le_refl 0)
    omega
  unfold combinePixel
  match chans, h with
  | [c], h => exact h c (by simp)
  | [], _ => simp [hm]
  | a :: b :: t, _ => simp [hm]

theorem combinePixel_one (chans : List Nat) (hbin : ∀ c ∈ chans, c = 0 ∨ c = 1) (j : Nat)
    (hj : chans[j]? = some 1) (huniq : ∀ i, chans[i]? = some 1 → i = j) : combinePixel chans = j + 1 := by
  have hjl : j < chans.length := (List.getElem?_eq_some_iff.mp hj).1
  have hm : listMax chans = 1 := by
    have h1 := listMax_le_of_forall chans 1 (fun x hx => by rcases hbin x hx with h | h <;> omega)
    have h2 := le_listMax chans 1 (List.mem_of_getElem? hj)
    omega
  have harg : argmaxFirst chans = j := by
    unfold argmaxFirst
    rw [hm]
    apply (List.findIdx_eq hjl).mpr
    constructor
    · have := (List.getElem?_eq_some_iff.mp hj).2; simp [this]
    · intro i hi
      have hil : i < chans.length := by omega
      have : chans[i] ≠ 1 := by
        intro h1
        have := huniq i (by rw [List.getElem?_eq_getElem hil, h1])
        omega
      simpa using this
  unfold combinePixel
  match chans, hj, hjl, hm, harg with
  | [c], hj, hjl, _, _ =>
    have : j = 0 := by simp at hjl; omega
    subst this
    simp at hj; omega
  | [], _, hjl, _, _ => simp at hjl
  | a :: b :: t, _, _, hm, harg => simp only [hm, harg]; omega


end HdVerif.SegReadLemmas
