import HdVerif.Model.Offsets
import HdVerif.Generated.T11d
import HdVerif.Proofs.RatFloor
/-! C05: the hand-written loops of `Model/Offsets.lean` use exactly the expressions the current source of
`io._build_bot` and `ImageFileReader.read_frame_raw` contains (regenerated as `Generated/T11d.lean` on every run).
A change of the start markers, of the refused item lengths, of the recorded offset, of the distance to the next
item, of the frame/fragment choice, of `stop_at` or of the running count breaks one of these statements. -/
namespace HdVerif.Offsets
open HdVerif HdVerif.Gen

/-- the marker test of the model is membership in the regenerated `_START_MARKERS` -/
theorem isStart_eq_marker (d : Frag) : isStart d = startMarkers.contains (d.take 2) := by
  simp only [isStart, startMarkers, List.contains, List.elem, Bool.or_false]
  cases (d.take 2 == [0xFF, 0xD8]) <;> cases (d.take 2 == [0xFF, 0x4F]) <;> rfl

/-- one iteration of the model's `_build_bot` loop, written with the regenerated expressions only -/
def botStepGen (f : Frag) (pos : Nat) (acc : List Nat × List Nat) : Except ErrKind (Nat × (List Nat × List Nat)) := do
  let _ ← botLengthCheck f.length
  let off ← botOffset pos 0
  let nxt ← botNextPosition pos f.length
  .ok (nxt.toNat, (acc.1 ++ [off.toNat], if startMarkers.contains (f.take 2) then acc.2 ++ [off.toNat] else acc.2))

/-- the model's loop is the iteration of the regenerated step -/
theorem botLoop_cons (f : Frag) (fs : List Frag) (pos : Nat) (acc : List Nat × List Nat) :
    botLoop (f :: fs) pos acc =
      (match botStepGen f pos acc with
       | .ok (p, a) => botLoop fs p a
       | .error e => .error e) := by
  obtain ⟨frag, frm⟩ := acc
  simp only [botLoop, botStepGen, botLengthCheck, botOffset, botNextPosition, bind, Except.bind, isStart_eq_marker,
    fmod_pos _ 2 (by omega)]
  by_cases h1 : f.length % 2 = 1
  · have : ((f.length : Int) % 2 != 0) = true := by simp; omega
    simp [h1, this]
  · by_cases h2 : f.length = 0
    · have : ((f.length : Int) % 2 != 0) = false := by simp; omega
      simp [h2]
    · have a : ((f.length : Int) % 2 != 0) = false := by simp; omega
      have b : ((f.length : Int) == 0) = false := by
        have : (f.length : Int) ≠ 0 := by omega
        simpa using this
      have c : ((pos : Int) + 4 + 4 + (f.length : Int)).toNat = pos + 8 + f.length := by omega
      simp [h1, h2, a, b, c]

/-- the final choice of `buildBot` is the regenerated one -/
theorem buildBot_choice (fs : List Frag) (n : Nat) :
    buildBot fs n =
      (match botLoop fs 0 ([], []) with
       | .error e => .error e
       | .ok (frag, frm) =>
         match botChoice frm.length frag.length n with
         | .ok 0 => .ok frm
         | .ok _ => .ok frag
         | .error e => .error e) := by
  simp only [buildBot, bind, Except.bind, botChoice]
  cases botLoop fs 0 ([], []) with
  | error e => rfl
  | ok p =>
    obtain ⟨frag, frm⟩ := p
    by_cases h1 : frm.length = n
    · have : ((frm.length : Int) == (n : Int)) = true := by simp; omega
      simp [h1]
    · have a : ((frm.length : Int) == (n : Int)) = false := by simp; omega
      by_cases h2 : frag.length = n
      · have : ((frag.length : Int) == (n : Int)) = true := by simp; omega
        simp [h1, h2, a]
      · have b : ((frag.length : Int) == (n : Int)) = false := by simp; omega
        simp [h1, h2, a, b]

/-- one iteration of the fragment walk of `read_frame_raw` advances the running count by the regenerated amount -/
theorem readLoop_cons (f : Frag) (fs : List Frag) (n stopAt : Int) (acc : List Frag) :
    readLoop (f :: fs) n stopAt acc =
      if n = stopAt then acc
      else match readAdvance n f.length with
        | .ok n' => readLoop fs n' stopAt (acc ++ [f])
        | .error _ => acc := by
  simp only [readLoop, readAdvance]
  split
  · rfl
  · congr 1; omega

/-- `stop_at`, the bounding table entry and the start of the running count in `readFrameRaw` are the regenerated ones -/
theorem readFrameRaw_stop (fs : List Frag) (table : List Nat) (i off : Nat) (h : table[i]? = some off) :
    readFrameRaw fs table i =
      (match readNextEntry i, readStart with
       | .ok j, .ok n0 =>
         let stopAt : Except ErrKind Int := match table[j.toNat]? with
           | some nxt => readStopAt nxt off
           | none => readStopAtLast
         match stopAt with
         | .ok s => (do
             let rest ← seekFrag fs 0 off
             let data := (readLoop rest n0 s []).flatten
             if data.length = 0 then .error .other else .ok data)
         | .error e => .error e
       | _, _ => .error .other) := by
  have hj : ((i : Int) + 1).toNat = i + 1 := by omega
  simp only [readFrameRaw, h, readNextEntry, readStart, readStopAt, readStopAtLast, hj]
  cases table[i + 1]? <;> rfl

end HdVerif.Offsets
