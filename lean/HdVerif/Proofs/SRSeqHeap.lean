import HdVerif.Model.SRSeqHeap
import HdVerif.Proofs.SRContentSeq
/-! Helper lemmas for the store interpretation of the method programs (C14, several sequences). -/
namespace HdVerif.SRSeqHeapLemmas
open HdVerif HdVerif.SRContentSeq HdVerif.SRSeqIR HdVerif.SRSeqHeap
set_option linter.unusedSimpArgs false

/-- the locations a sequence's dict points to -/
def owned (q : HSeq) (ℓ : Loc) : Prop := ∃ n, q.lut n = some ℓ

/-- a sequence fits a store: its lists are allocated, and different names have different lists -/
structure Wf (σ : Store) (q : HSeq) : Prop where
  alloc : ∀ n ℓ, q.lut n = some ℓ → ℓ < σ.next
  inj : ∀ n m ℓ, q.lut n = some ℓ → q.lut m = some ℓ → n = m

/-- what a run on `q` may do to the store: only grow it, write only to `q`'s own or to fresh locations, and
end with a sequence that fits and owns nothing but what it owned or what is fresh -/
structure Good (σ : Store) (q : HSeq) (σ' : Store) (q' : HSeq) : Prop where
  wf : Wf σ' q'
  mono : σ.next ≤ σ'.next
  frame : ∀ ℓ, ℓ < σ.next → ¬ owned q ℓ → σ'.heap ℓ = σ.heap ℓ
  own : ∀ ℓ, owned q' ℓ → owned q ℓ ∨ σ.next ≤ ℓ

theorem Good.refl {σ : Store} {q : HSeq} (h : Wf σ q) : Good σ q σ q :=
  ⟨h, Nat.le_refl _, fun _ _ _ => rfl, fun _ h => Or.inl h⟩

theorem Good.trans {σ σ' σ'' : Store} {q q' q'' : HSeq} (a : Good σ q σ' q') (b : Good σ' q' σ'' q'') : Good σ q σ'' q'' := by
  refine ⟨b.wf, Nat.le_trans a.mono b.mono, ?_, ?_⟩
  · intro ℓ hl hn
    have h1 : ¬ owned q' ℓ := by
      intro ho
      rcases a.own ℓ ho with h | h
      · exact hn h
      · exact absurd hl (Nat.not_lt.mpr h)
    rw [b.frame ℓ (Nat.lt_of_lt_of_le hl a.mono) h1, a.frame ℓ hl hn]
  · intro ℓ ho
    rcases b.own ℓ ho with h | h
    · exact a.own ℓ h
    · exact Or.inr (Nat.le_trans a.mono h)

/-- same list and flags, possibly another dict -/
def SameRest (q q' : HSeq) : Prop := q'.items = q.items ∧ q'.isRoot = q.isRoot ∧ q'.isSr = q.isSr

theorem hLutAdd_spec {σ : Store} {q : HSeq} (hw : Wf σ q) (x : Item) :
    Good σ q (hLutAdd σ q x).1 (hLutAdd σ q x).2 ∧
    bucket (hLutAdd σ q x).1 (hLutAdd σ q x).2 = lutAdd (bucket σ q) x ∧ SameRest q (hLutAdd σ q x).2 := by
  unfold hLutAdd
  cases hx : q.lut x.name with
  | some ℓ =>
    simp only
    refine ⟨⟨⟨hw.alloc, hw.inj⟩, Nat.le_refl _, ?_, fun _ h => Or.inl h⟩, ?_, rfl, rfl, rfl⟩
    · intro k _ hk
      simp only [setHeap]
      rw [if_neg (fun (e : k = ℓ) => hk ⟨x.name, e ▸ hx⟩)]
    · funext n
      unfold bucket lutAdd
      by_cases hn : n = x.name
      · subst hn; simp [hx, setHeap]
      · rw [if_neg hn]
        cases hq : q.lut n with
        | none => simp only [hq]
        | some k =>
          simp only [hq, setHeap]
          rw [if_neg (fun (e : k = ℓ) => hn (hw.inj n x.name ℓ (e ▸ hq) hx))]
  | none =>
    simp only
    refine ⟨⟨⟨?_, ?_⟩, Nat.le_succ _, ?_, ?_⟩, ?_, rfl, rfl, rfl⟩
    · intro n ℓ h
      simp only at h
      by_cases hn : n = x.name
      · rw [if_pos hn] at h; cases h; exact Nat.lt_succ_self _
      · rw [if_neg hn] at h; exact Nat.lt_succ_of_lt (hw.alloc n ℓ h)
    · intro n m ℓ h1 h2
      simp only at h1 h2
      by_cases hn : n = x.name <;> by_cases hm : m = x.name
      · rw [hn, hm]
      · rw [if_pos hn] at h1; rw [if_neg hm] at h2; cases h1
        exact absurd (hw.alloc m _ h2) (Nat.lt_irrefl _)
      · rw [if_neg hn] at h1; rw [if_pos hm] at h2; cases h2
        exact absurd (hw.alloc n _ h1) (Nat.lt_irrefl _)
      · rw [if_neg hn] at h1; rw [if_neg hm] at h2; exact hw.inj n m ℓ h1 h2
    · intro k hk _
      simp only
      rw [if_neg (Nat.ne_of_lt hk)]
    · intro ℓ ⟨n, h⟩
      simp only at h
      by_cases hn : n = x.name
      · rw [if_pos hn] at h; cases h; exact Or.inr (Nat.le_refl _)
      · rw [if_neg hn] at h; exact Or.inl ⟨n, h⟩
    · funext n
      unfold bucket lutAdd
      by_cases hn : n = x.name
      · subst hn; simp [hx]
      · simp only [hn, ↓reduceIte]
        cases hq : q.lut n with
        | none => simp only [hq]
        | some k =>
          simp only [hq]
          rw [if_neg (Nat.ne_of_lt (hw.alloc n k hq))]

theorem SameRest.refl (q : HSeq) : SameRest q q := ⟨rfl, rfl, rfl⟩
theorem SameRest.trans {a b c : HSeq} (h1 : SameRest a b) (h2 : SameRest b c) : SameRest a c :=
  ⟨h2.1.trans h1.1, h2.2.1.trans h1.2.1, h2.2.2.trans h1.2.2⟩

theorem hLutAddAll_spec {σ : Store} {q : HSeq} (hw : Wf σ q) (xs : List Item) :
    Good σ q (hLutAddAll σ q xs).1 (hLutAddAll σ q xs).2 ∧
    bucket (hLutAddAll σ q xs).1 (hLutAddAll σ q xs).2 = lutAddAll (bucket σ q) xs ∧
    SameRest q (hLutAddAll σ q xs).2 := by
  induction xs generalizing σ q with
  | nil => exact ⟨Good.refl hw, rfl, SameRest.refl q⟩
  | cons x xs ih =>
    obtain ⟨g1, b1, r1⟩ := hLutAdd_spec hw x
    obtain ⟨g2, b2, r2⟩ := ih g1.wf
    simp only [hLutAddAll, lutAddAll]
    exact ⟨g1.trans g2, by rw [b2, b1], r1.trans r2⟩

theorem hLutRemove_spec {σ : Store} {q : HSeq} (hw : Wf σ q) (x : Item) :
    (∀ e, lutRemove (bucket σ q) x = .error e → hLutRemove σ q x = .error e) ∧
    (∀ lut', lutRemove (bucket σ q) x = .ok lut' →
      ∃ σ', hLutRemove σ q x = .ok σ' ∧ bucket σ' q = lut' ∧ Good σ q σ' q) := by
  unfold lutRemove hLutRemove
  cases hx : q.lut x.name with
  | none =>
    have hb : bucket σ q x.name = [] := by simp [bucket, hx]
    constructor
    · intro e h; rw [hb] at h; simp at h; rw [← h]
    · intro l h; rw [hb] at h; simp at h
  | some ℓ =>
    have hb : bucket σ q x.name = σ.heap ℓ := by simp [bucket, hx]
    simp only [hb]
    by_cases hm : x ∈ σ.heap ℓ
    · simp only [hm, ↓reduceIte]
      constructor
      · intro e h; cases h
      · intro l h
        cases h
        refine ⟨_, rfl, ?_, ⟨⟨hw.alloc, hw.inj⟩, Nat.le_refl _, ?_, fun _ h => Or.inl h⟩⟩
        · funext n
          unfold bucket
          by_cases hn : n = x.name
          · subst hn; simp [hx, setHeap]
          · simp only [hn, ↓reduceIte]
            cases hq : q.lut n with
            | none => simp only [hq]
            | some k =>
              simp only [hq, setHeap]
              rw [if_neg (fun (e : k = ℓ) => hn (hw.inj n x.name ℓ (e ▸ hq) hx))]
        · intro k _ hk
          simp only [setHeap]
          rw [if_neg (fun (e : k = ℓ) => hk ⟨x.name, e ▸ hx⟩)]
    · simp only [hm, ↓reduceIte]
      constructor
      · intro e h; cases h; rfl
      · intro l h; cases h

theorem hLutRemoveAll_spec {σ : Store} {q : HSeq} (hw : Wf σ q) (xs : List Item) :
    (hLutRemoveAll σ q xs).2 = (lutRemoveAll (bucket σ q) xs).2 ∧
    bucket (hLutRemoveAll σ q xs).1 q = (lutRemoveAll (bucket σ q) xs).1 ∧
    Good σ q (hLutRemoveAll σ q xs).1 q := by
  induction xs generalizing σ with
  | nil => exact ⟨rfl, rfl, Good.refl hw⟩
  | cons x xs ih =>
    obtain ⟨he, hok⟩ := hLutRemove_spec hw x
    cases hr : lutRemove (bucket σ q) x with
    | error e =>
      simp only [hLutRemoveAll, lutRemoveAll, hr, he e hr]
      exact ⟨trivial, trivial, Good.refl hw⟩
    | ok lut' =>
      obtain ⟨σ', h1, h2, h3⟩ := hok lut' hr
      obtain ⟨i1, i2, i3⟩ := ih h3.wf
      simp only [hLutRemoveAll, lutRemoveAll, hr, h1]
      rw [h2] at i1 i2
      exact ⟨i1, i2, h3.trans i3⟩

/-! ## statements that never look at the index -/

theorem checkFn_lut (fl : Bool × Bool) (s : Seq) (L : Lut) (c : CheckId) :
    checkFn fl { s with lut := L } c = checkFn fl s c := by
  cases c <;> rfl

theorem execStmt_nonindex (call : MethodId → List Item → Seq → Res) (fl : Bool × Bool) (idx : Idx) (args : List Item)
    (s : Seq) (old : List Item) (st : MStmt) (hst : isIndexStmt st = false) :
    execStmt call fl idx args ⟨s, old⟩ st =
      (match execStmt noCall fl idx args ⟨{ s with lut := emptyLut }, old⟩ st with
       | (m, e) => (⟨{ m.s with lut := s.lut }, m.old⟩, e)) := by
  cases st <;> simp only [isIndexStmt, Bool.true_eq_false] at hst
  case setFlags => rfl
  case flags => simp only [execStmt]; cases Gen.csCtorFlags fl.1 fl.2 <;> rfl
  case normArgs => rfl
  case checkEach c =>
    simp only [execStmt, checkFn_lut]
    cases checkAll (checkFn fl s c) args <;> rfl
  case bindOld =>
    simp only [execStmt]
    cases resolveIdx s.items.length idx <;> rfl
  case listInit => rfl
  case listAppend => rfl
  case listInsert => simp only [execStmt]; cases idx <;> rfl
  case listAssign =>
    simp only [execStmt]
    cases resolveIdx s.items.length idx with
    | error e => rfl
    | ok r => simp only; cases setR s.items args r <;> rfl
  case listDelete =>
    simp only [execStmt]
    cases resolveIdx s.items.length idx <;> rfl

/-! ## the store interpretation refines the functional one -/

def CallRefines (callH : HCall) (call : MethodId → List Item → Seq → Res) : Prop :=
  ∀ m args σ q, Wf σ q →
    abs (callH m args σ q).1.1 (callH m args σ q).1.2 = (call m args (abs σ q)).1 ∧
    (callH m args σ q).2 = (call m args (abs σ q)).2 ∧
    Good σ q (callH m args σ q).1.1 (callH m args σ q).1.2

theorem hEachCall_refines {fH : List Item → Store → HSeq → (Store × HSeq) × Option ErrKind} {f : List Item → Seq → Res}
    (hf : ∀ args σ q, Wf σ q → abs (fH args σ q).1.1 (fH args σ q).1.2 = (f args (abs σ q)).1 ∧
      (fH args σ q).2 = (f args (abs σ q)).2 ∧ Good σ q (fH args σ q).1.1 (fH args σ q).1.2)
    (xs : List Item) (σ : Store) (q : HSeq) (hw : Wf σ q) :
    abs (hEachCall fH xs σ q).1.1 (hEachCall fH xs σ q).1.2 = (eachCall f xs (abs σ q)).1 ∧
    (hEachCall fH xs σ q).2 = (eachCall f xs (abs σ q)).2 ∧
    Good σ q (hEachCall fH xs σ q).1.1 (hEachCall fH xs σ q).1.2 := by
  induction xs generalizing σ q with
  | nil => exact ⟨rfl, rfl, Good.refl hw⟩
  | cons x xs ih =>
    obtain ⟨h1, h2, h3⟩ := hf [x] σ q hw
    simp only [hEachCall, eachCall]
    cases hr : fH [x] σ q with
    | mk r e =>
      obtain ⟨σ', q'⟩ := r
      rw [hr] at h1 h2 h3
      simp only at h1 h2 h3
      cases hf' : f [x] (abs σ q) with
      | mk s' e' =>
        rw [hf'] at h1 h2
        simp only at h1 h2
        subst h2
        cases e with
        | some e => simp only; exact ⟨h1, (by first | trivial | rfl), h3⟩
        | none =>
          simp only
          obtain ⟨i1, i2, i3⟩ := ih σ' q' h3.wf
          rw [h1] at i1 i2
          exact ⟨i1, i2, h3.trans i3⟩

theorem abs_plain (σ : Store) (q : HSeq) : { abs σ q with lut := emptyLut } = plain q := rfl

theorem hExecStmt_refines {callH : HCall} {call : MethodId → List Item → Seq → Res} (hc : CallRefines callH call)
    (fl : Bool × Bool) (idx : Idx) (args : List Item) (h : HSt) (hw : Wf h.σ h.q) (st : MStmt) :
    abs (hExecStmt callH fl idx args h st).1.σ (hExecStmt callH fl idx args h st).1.q
        = (execStmt call fl idx args ⟨abs h.σ h.q, h.old⟩ st).1.s ∧
    (hExecStmt callH fl idx args h st).1.old = (execStmt call fl idx args ⟨abs h.σ h.q, h.old⟩ st).1.old ∧
    (hExecStmt callH fl idx args h st).2 = (execStmt call fl idx args ⟨abs h.σ h.q, h.old⟩ st).2 ∧
    Good h.σ h.q (hExecStmt callH fl idx args h st).1.σ (hExecStmt callH fl idx args h st).1.q := by
  by_cases hst : isIndexStmt st = true
  · cases st <;> simp only [isIndexStmt, Bool.false_eq_true] at hst
    case lutInit =>
      simp only [hExecStmt, execStmt]
      refine ⟨?_, (by first | trivial | rfl), (by first | trivial | rfl), ⟨⟨?_, ?_⟩, Nat.le_refl _, fun _ _ _ => rfl, ?_⟩⟩
      · simp only [abs]; congr 1
      · intro n ℓ h'; cases h'
      · intro n m ℓ h'; cases h'
      · intro ℓ ⟨n, h'⟩; cases h'
    case lutAppendArgs =>
      obtain ⟨g, b, r⟩ := hLutAddAll_spec hw args
      simp only [hExecStmt, execStmt]
      refine ⟨?_, (by first | trivial | rfl), (by first | trivial | rfl), g⟩
      simp only [abs, b, r.1, r.2.1, r.2.2]
    case lutRemoveOld =>
      obtain ⟨e1, b, g⟩ := hLutRemoveAll_spec hw h.old
      simp only [hExecStmt, execStmt]
      refine ⟨?_, (by first | trivial | rfl), ?_, g⟩
      · simp only [abs, b]
      · exact e1
    case forEachArg m =>
      obtain ⟨i1, i2, i3⟩ := hEachCall_refines (hc m) args h.σ h.q hw
      simp only [hExecStmt, execStmt]
      exact ⟨i1, (by first | trivial | rfl), i2, i3⟩
    case call m =>
      obtain ⟨i1, i2, i3⟩ := hc m args h.σ h.q hw
      simp only [hExecStmt, execStmt]
      exact ⟨i1, (by first | trivial | rfl), i2, i3⟩
  · have hst' : isIndexStmt st = false := by simpa using hst
    rw [execStmt_nonindex call fl idx args (abs h.σ h.q) h.old st hst', abs_plain]
    have hH : hExecStmt callH fl idx args h st =
        (match execStmt noCall fl idx args ⟨plain h.q, h.old⟩ st with
         | (m, e) => ({ h with q := { h.q with items := m.s.items, isRoot := m.s.isRoot, isSr := m.s.isSr }, old := m.old }, e)) := by
      cases st <;> simp only [isIndexStmt, Bool.true_eq_false] at hst' <;> rfl
    rw [hH]
    cases execStmt noCall fl idx args ⟨plain h.q, h.old⟩ st with
    | mk m e =>
      simp only
      refine ⟨(by first | trivial | rfl), (by first | trivial | rfl), (by first | trivial | rfl), ⟨⟨hw.alloc, hw.inj⟩, Nat.le_refl _, fun _ _ _ => rfl, fun _ h' => Or.inl h'⟩⟩

theorem hExecProg_refines {callH : HCall} {call : MethodId → List Item → Seq → Res} (hc : CallRefines callH call)
    (fl : Bool × Bool) (idx : Idx) (args : List Item) (prog : List MStmt) (h : HSt) (hw : Wf h.σ h.q) :
    abs (hExecProg callH fl idx args prog h).1.σ (hExecProg callH fl idx args prog h).1.q
        = (execProg call fl idx args prog ⟨abs h.σ h.q, h.old⟩).1.s ∧
    (hExecProg callH fl idx args prog h).1.old = (execProg call fl idx args prog ⟨abs h.σ h.q, h.old⟩).1.old ∧
    (hExecProg callH fl idx args prog h).2 = (execProg call fl idx args prog ⟨abs h.σ h.q, h.old⟩).2 ∧
    Good h.σ h.q (hExecProg callH fl idx args prog h).1.σ (hExecProg callH fl idx args prog h).1.q := by
  induction prog generalizing h with
  | nil => exact ⟨rfl, rfl, rfl, Good.refl hw⟩
  | cons st r ih =>
    obtain ⟨a1, a2, a3, a4⟩ := hExecStmt_refines hc fl idx args h hw st
    simp only [hExecProg, execProg]
    cases hs : hExecStmt callH fl idx args h st with
    | mk h' e =>
      rw [hs] at a1 a2 a3 a4
      simp only at a1 a2 a3 a4
      cases hf : execStmt call fl idx args ⟨abs h.σ h.q, h.old⟩ st with
      | mk m e' =>
        rw [hf] at a1 a2 a3
        simp only at a1 a2 a3
        subst a3
        cases e with
        | some e => simp only; exact ⟨a1, a2, (by first | trivial | rfl), a4⟩
        | none =>
          simp only
          obtain ⟨i1, i2, i3, i4⟩ := ih h' a4.wf
          have hm : (⟨abs h'.σ h'.q, h'.old⟩ : MSt) = m := by
            cases m; simp only at a1 a2; rw [a1, a2]
          rw [hm] at i1 i2 i3
          exact ⟨i1, i2, i3, a4.trans i4⟩

theorem hRunWith_refines {callH : HCall} {call : MethodId → List Item → Seq → Res} (hc : CallRefines callH call)
    (prog : List MStmt) (idx : Idx) (args : List Item) (σ : Store) (q : HSeq) (hw : Wf σ q) :
    abs (hRunWith callH prog idx args σ q).1.1 (hRunWith callH prog idx args σ q).1.2
        = (runWith call prog idx args (abs σ q)).1 ∧
    (hRunWith callH prog idx args σ q).2 = (runWith call prog idx args (abs σ q)).2 ∧
    Good σ q (hRunWith callH prog idx args σ q).1.1 (hRunWith callH prog idx args σ q).1.2 := by
  obtain ⟨a1, _, a3, a4⟩ := hExecProg_refines hc (q.isRoot, q.isSr) idx args prog ⟨σ, q, []⟩ hw
  unfold hRunWith runWith
  exact ⟨a1, a3, a4⟩

theorem noCall_refines : CallRefines hNoCall noCall := fun _ _ _ _ hw => ⟨rfl, rfl, Good.refl hw⟩

theorem call1_refines : CallRefines hCall1 call1 := by
  intro m args σ q hw
  cases m with
  | append => exact hRunWith_refines noCall_refines _ _ args σ q hw
  | extend => exact ⟨rfl, rfl, Good.refl hw⟩

theorem call2_refines : CallRefines hCall2 call2 := by
  intro m args σ q hw
  cases m with
  | append => exact hRunWith_refines noCall_refines _ _ args σ q hw
  | extend => exact hRunWith_refines call1_refines _ _ args σ q hw

/-- the blank object a constructor starts from -/
def blank : HSeq := { items := [], lut := fun _ => none, isRoot := false, isSr := true }

theorem blank_wf (σ : Store) : Wf σ blank := ⟨fun _ _ h => (by cases h), fun _ _ _ h => (by cases h)⟩

theorem hRunInit_refines (items : List Item) (r sr : Bool) (σ : Store) :
    (∀ e, runInit items r sr = .error e → hRunInit items r sr σ = .error e) ∧
    (∀ s, runInit items r sr = .ok s → ∃ σ' q', hRunInit items r sr σ = .ok (σ', q') ∧ abs σ' q' = s ∧ Good σ blank σ' q') := by
  obtain ⟨a1, _, a3, a4⟩ := hExecProg_refines call2_refines (r, sr) .none items Gen.csProg_init ⟨σ, blank, []⟩ (blank_wf σ)
  have hb : abs σ blank = { items := [], lut := emptyLut, isRoot := false, isSr := true } := rfl
  unfold runInit hRunInit
  simp only [hb] at a1 a3
  change _ ∧ _
  cases hh : hExecProg hCall2 (r, sr) .none items Gen.csProg_init ⟨σ, blank, []⟩ with
  | mk h e =>
    rw [hh] at a1 a3 a4
    simp only at a1 a3 a4
    cases hf : execProg call2 (r, sr) .none items Gen.csProg_init ⟨{ items := [], lut := emptyLut, isRoot := false, isSr := true }, []⟩ with
    | mk m e' =>
      rw [hf] at a1 a3
      simp only at a1 a3
      subst a3
      have hh' : hExecProg hCall2 (r, sr) .none items Gen.csProg_init
          ⟨σ, { items := [], lut := fun _ => none, isRoot := false, isSr := true }, []⟩ = (h, e) := hh
      cases e with
      | some e =>
        simp only [hh']
        exact ⟨fun e' he => (by cases he; rfl), fun s hs => (by cases hs)⟩
      | none =>
        simp only [hh']
        exact ⟨fun e' he => (by cases he), fun s hs => (by cases hs; exact ⟨h.σ, h.q, rfl, a1, a4⟩)⟩

/-! ## operations on one sequence leave every other sequence of the store alone -/

theorem frame_other {σ σ' : Store} {q q' p : HSeq} (g : Good σ q σ' q') (hp : Wf σ p)
    (hd : ∀ ℓ, owned p ℓ → ¬ owned q ℓ) :
    abs σ' p = abs σ p ∧ Wf σ' p ∧ (∀ ℓ, owned p ℓ → ¬ owned q' ℓ) := by
  refine ⟨?_, ⟨fun n ℓ h => Nat.lt_of_lt_of_le (hp.alloc n ℓ h) g.mono, hp.inj⟩, ?_⟩
  · simp only [abs]
    congr 1
    funext n
    unfold bucket
    cases hn : p.lut n with
    | none => rfl
    | some ℓ => exact g.frame ℓ (hp.alloc n ℓ hn) (hd ℓ ⟨n, hn⟩)
  · intro ℓ ho ho'
    rcases g.own ℓ ho' with h | h
    · exact hd ℓ ho h
    · obtain ⟨n, hn⟩ := ho
      exact absurd (hp.alloc n ℓ hn) (Nat.not_lt.mpr h)

/-- a pool of sequences in one store: each fits, and no list is shared -/
structure PoolWf (σ : Store) (pool : List HSeq) : Prop where
  wf : ∀ p ∈ pool, Wf σ p
  sep : ∀ (i j : Nat) (p p' : HSeq), i ≠ j → pool[i]? = some p → pool[j]? = some p' → ∀ ℓ, owned p ℓ → ¬ owned p' ℓ

theorem pool_step {σ σ' : Store} {pool : List HSeq} {i : Nat} {q q' : HSeq} (hp : PoolWf σ pool)
    (hi : pool[i]? = some q) (g : Good σ q σ' q') :
    PoolWf σ' (pool.set i q') ∧ ∀ j p, j ≠ i → pool[j]? = some p → abs σ' p = abs σ p := by
  have hil : i < pool.length := (List.getElem?_eq_some_iff.mp hi).1
  have others : ∀ j p, j ≠ i → pool[j]? = some p → abs σ' p = abs σ p ∧ Wf σ' p ∧ (∀ ℓ, owned p ℓ → ¬ owned q' ℓ) := by
    intro j p hj hpj
    exact frame_other g (hp.wf p (List.mem_of_getElem? hpj)) (hp.sep j i p q hj hpj hi)
  refine ⟨⟨?_, ?_⟩, fun j p hj hpj => (others j p hj hpj).1⟩
  · intro p hpm
    obtain ⟨k, hk, hkp⟩ := List.getElem_of_mem hpm
    have hk' : k < pool.length := by simpa using hk
    by_cases hki : k = i
    · subst hki; simp at hkp; subst hkp; exact g.wf
    · have : pool[k]? = some p := by
        rw [List.getElem_set_ne (Ne.symm hki)] at hkp
        exact List.getElem?_eq_some_iff.mpr ⟨hk', hkp⟩
      exact (others k p hki this).2.1
  · intro a b p p' hab ha hb ℓ ho ho'
    rw [List.getElem?_set] at ha hb
    by_cases hai : i = a
    · rw [if_pos hai, if_pos hil] at ha
      cases ha
      have hbi : ¬ i = b := fun e => hab (hai.symm.trans e)
      rw [if_neg hbi] at hb
      exact (others b p' (fun e => hbi e.symm) hb).2.2 ℓ ho' ho
    · rw [if_neg hai] at ha
      by_cases hbi : i = b
      · rw [if_pos hbi, if_pos hil] at hb
        cases hb
        exact (others a p (fun e => hai e.symm) ha).2.2 ℓ ho ho'
      · rw [if_neg hbi] at hb
        exact hp.sep a b p p' hab ha hb ℓ ho ho'

/-- a freshly constructed sequence joins the pool without sharing anything -/
theorem pool_add {σ σ' : Store} {pool : List HSeq} {q' : HSeq} (hp : PoolWf σ pool) (g : Good σ blank σ' q') :
    PoolWf σ' (pool ++ [q']) ∧ ∀ p ∈ pool, abs σ' p = abs σ p := by
  have others : ∀ p ∈ pool, abs σ' p = abs σ p ∧ Wf σ' p ∧ (∀ ℓ, owned p ℓ → ¬ owned q' ℓ) := by
    intro p hpm
    exact frame_other g (hp.wf p hpm) (fun ℓ _ ⟨n, hn⟩ => (by cases hn))
  refine ⟨⟨?_, ?_⟩, fun p hpm => (others p hpm).1⟩
  · intro p hpm
    simp only [List.mem_append, List.mem_singleton] at hpm
    rcases hpm with h | h
    · exact (others p h).2.1
    · subst h; exact g.wf
  · intro a b p p' hab ha hb ℓ ho ho'
    rw [List.getElem?_append] at ha hb
    by_cases hal : a < pool.length
    · rw [if_pos hal] at ha
      by_cases hbl : b < pool.length
      · rw [if_pos hbl] at hb
        exact hp.sep a b p p' hab ha hb ℓ ho ho'
      · rw [if_neg hbl] at hb
        have : p' = q' := by
          cases hbb : b - pool.length with
          | zero => rw [hbb] at hb; simpa using hb.symm
          | succ k => rw [hbb] at hb; simp at hb
        subst this
        exact (others p (List.mem_of_getElem? ha)).2.2 ℓ ho ho'
    · rw [if_neg hal] at ha
      have hpq : p = q' := by
        cases haa : a - pool.length with
        | zero => rw [haa] at ha; simpa using ha.symm
        | succ k => rw [haa] at ha; simp at ha
      subst hpq
      by_cases hbl : b < pool.length
      · rw [if_pos hbl] at hb
        exact (others p' (List.mem_of_getElem? hb)).2.2 ℓ ho' ho
      · rw [if_neg hbl] at hb
        exfalso
        have h1 : a - pool.length = 0 := by
          cases haa : a - pool.length with
          | zero => rfl
          | succ k => rw [haa] at ha; simp at ha
        have h2 : b - pool.length = 0 := by
          cases hbb : b - pool.length with
          | zero => rfl
          | succ k => rw [hbb] at hb; simp at hb
        omega

/-! ## all operations of a sequence over the store -/

inductive HOp
  | append (x : Item) | extend (xs : List Item) | iadd (xs : List Item) | insert (pos : Int) (x : Item)
  | setItem (i : Int) (x : Item) | setSlice (a b c : Option Int) (xs : List Item)
  | delItem (i : Int) | delSlice (a b c : Option Int)

def HOp.toOp : HOp → Op
  | .append x => .append x | .extend xs => .extend xs | .iadd xs => .iadd xs | .insert p x => .insert p x
  | .setItem i x => .setItem i x | .setSlice a b c xs => .setSlice a b c xs
  | .delItem i => .delItem i | .delSlice a b c => .delSlice a b c

/-- the regenerated programs, run over the store -/
def hStep (σ : Store) (q : HSeq) : HOp → (Store × HSeq) × Option ErrKind
  | .append x => hRunAppend [x] σ q
  | .extend xs => hRunExtend xs σ q
  | .iadd xs => hRunIadd xs σ q
  | .insert p x => hRunInsert p [x] σ q
  | .setItem i x => hRunSetitem (.int i) [x] σ q
  | .setSlice a b c xs => hRunSetitem (.slice a b c) xs σ q
  | .delItem i => hRunDelitem (.int i) σ q
  | .delSlice a b c => hRunDelitem (.slice a b c) σ q

open HdVerif.SRContentSeqLemmas in
theorem hStep_refines (σ : Store) (q : HSeq) (hw : Wf σ q) (op : HOp) :
    abs (hStep σ q op).1.1 (hStep σ q op).1.2 = (step (abs σ q) op.toOp).1 ∧
    (hStep σ q op).2 = (step (abs σ q) op.toOp).2 ∧
    Good σ q (hStep σ q op).1.1 (hStep σ q op).1.2 := by
  cases op with
  | append x =>
    have := hRunWith_refines noCall_refines Gen.csProg_append .none [x] σ q hw
    simp only [hStep, HOp.toOp, step, append_is_program]; exact this
  | extend xs =>
    have := hRunWith_refines call1_refines Gen.csProg_extend .none xs σ q hw
    simp only [hStep, HOp.toOp, step, extend_is_program]; exact this
  | iadd xs =>
    have := hRunWith_refines call2_refines Gen.csProg_iadd .none xs σ q hw
    have e := iadd_is_program (abs σ q) xs
    simp only [hStep, HOp.toOp]; rw [e]; exact this
  | insert p x =>
    have := hRunWith_refines call2_refines Gen.csProg_insert (.pos p) [x] σ q hw
    simp only [hStep, HOp.toOp, step, insert_is_program]; exact this
  | setItem i x =>
    have := hRunWith_refines call2_refines Gen.csProg_setitem (.int i) [x] σ q hw
    simp only [hStep, HOp.toOp, step, setItem_is_program]; exact this
  | setSlice a b c xs =>
    have := hRunWith_refines call2_refines Gen.csProg_setitem (.slice a b c) xs σ q hw
    simp only [hStep, HOp.toOp, step, setSlice_is_program]; exact this
  | delItem i =>
    have := hRunWith_refines call2_refines Gen.csProg_delitem (.int i) [] σ q hw
    simp only [hStep, HOp.toOp, step, delItem_is_program]; exact this
  | delSlice a b c =>
    have := hRunWith_refines call2_refines Gen.csProg_delitem (.slice a b c) [] σ q hw
    simp only [hStep, HOp.toOp, step, delSlice_is_program]; exact this

end HdVerif.SRSeqHeapLemmas
