import HdVerif.Generated.T4o
import HdVerif.Proofs.RatFloor
/-! Emptiness of a float mask pixel as judged for `omit_empty_frames` vs the value stored for it (T4o). -/
namespace HdVerif.TilingLemmas
open HdVerif HdVerif.Gen

/-- the two translated expressions — "occupied?" in the constructor's omit-empty block and the rounding in
`_get_segment_pixel_array` — agree: a pixel is judged empty iff the value stored for it is 0 -/
theorem occupied_iff_stored_ne_zero (v : Rat) (m : Int) :
    ∃ b s, fractionOccupied v m = .ok b ∧ fractionStored v m = .ok s ∧ (b = false ↔ s = 0) := by
  unfold fractionOccupied fractionStored
  refine ⟨_, _, rfl, rfl, ?_⟩
  simp only [Int.cast_zero, bne_eq_false_iff_eq]

/-- stored values are integers (so the cast to the integer pixel type changes nothing) -/
theorem stored_is_integral (v : Rat) (m : Int) : ∃ k : Int, fractionStored v m = .ok (k : Rat) := by
  unfold fractionStored
  exact ⟨_, rfl⟩

end HdVerif.TilingLemmas
