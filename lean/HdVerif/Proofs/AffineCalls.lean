import HdVerif.Model.AffineCalls
import HdVerif.Proofs.Affine
set_option linter.unusedSimpArgs false
namespace HdVerif.Affine

theorem mapM_ok_map {α β : Type} (f : α → Except ErrKind β) (g : α → β) (l : List α) (h : ∀ x ∈ l, f x = .ok (g x)) :
    l.mapM f = .ok (l.map g) := by
  induction l with
  | nil => rfl
  | cons x xs ih =>
    rw [List.mapM_cons, h x (List.mem_cons_self), ih (fun y hy => h y (List.mem_cons_of_mem _ hy))]
    rfl

theorem mapM_ok_length {α β : Type} (f : α → Except ErrKind β) (l : List α) (out : List β) (h : l.mapM f = .ok out) :
    out.length = l.length := by
  induction l generalizing out with
  | nil => simp [List.mapM_nil, pure, Except.pure] at h; subst h; rfl
  | cons x xs ih =>
    rw [List.mapM_cons] at h
    cases hx : f x with
    | error e => simp [hx, bind, Except.bind] at h
    | ok y =>
      cases hxs : xs.mapM f with
      | error e => simp [hx, hxs, bind, Except.bind] at h
      | ok ys =>
        simp [hx, hxs, bind, Except.bind, pure, Except.pure] at h
        subst h
        simp [ih ys hxs]

/-- a row `[x, y]` under the constant rows `[0, 1]` is the point `(x, y, 0)` -/
theorem callRow_pad01 (s : CallSpec) (hp : s.pad = [0, 1]) (a : Aff) (x y : Rat) :
    callRow s a [x, y] = .ok ((a.apply ⟨x, y, 0⟩).toList.take s.keep) := by
  simp [callRow, hp, Aff.applyHom, Aff.apply, bind, Except.bind, pure, Except.pure]

/-- a row `[x, y, z]` under the constant row `[1]` is the point `(x, y, z)` -/
theorem callRow_pad1 (s : CallSpec) (hp : s.pad = [1]) (a : Aff) (v : V3) :
    callRow s a v.toList = .ok ((a.apply v).toList.take s.keep) := by
  cases v
  simp [callRow, hp, Aff.applyHom, Aff.apply, V3.toList, bind, Except.bind, pure, Except.pure]

/-! ## refusal by shape and dtype -/

theorem callSpec_lowdim (s : CallSpec) (a : Aff) (d r : Bool) (b : Batch) (h : b.ndim < 2) :
    callSpec s a d r b = .error .index := by
  simp [callSpec, h]

theorem callSpec_width (s : CallSpec) (a : Aff) (d r : Bool) (b : Batch) (h : 2 ≤ b.ndim) (hw : b.width ≠ s.width) :
    callSpec s a d r b = .error .value := by
  simp [callSpec, Nat.not_lt.mpr h, hw]

theorem callSpec_dtype (s : CallSpec) (a : Aff) (d r : Bool) (b : Batch) (h : 2 ≤ b.ndim) (hw : b.width = s.width)
    (hi : s.intOnly = true) (hb : b.isInt = false) : callSpec s a d r b = .error .type := by
  simp [callSpec, Nat.not_lt.mpr h, hw, hi, hb]

theorem callSpec_highdim (s : CallSpec) (a : Aff) (d r : Bool) (b : Batch) (h : 2 < b.ndim) (hw : b.width = s.width)
    (hi : s.intOnly = true → b.isInt = true) : callSpec s a d r b = .error .value := by
  have h2 : ¬ b.ndim < 2 := by omega
  have h3 : b.ndim ≠ 2 := by omega
  by_cases hs : s.intOnly = true
  · simp [callSpec, h2, h3, hw, hs, hi hs]
  · simp [callSpec, h2, h3, hw, hs]

/-- a two-dimensional array of the right width and dtype: the body of `__call__` -/
theorem callSpec_body (s : CallSpec) (a : Aff) (d r : Bool) (b : Batch) (hn : b.ndim = 2) (hw : b.width = s.width)
    (hi : s.intOnly = true → b.isInt = true) :
    callSpec s a d r b = callBody s a d r b.rows := by
  unfold callSpec
  have h3 : ¬ ((s.intOnly && !b.isInt) = true) := by
    by_cases hs : s.intOnly = true
    · simp [hs, hi hs]
    · simp [hs]
  rw [if_neg (by omega), if_neg (by simp [hw]), if_neg h3, if_neg (by simp [hn])]


/-- entry-wise rounding under the rounding flag -/
def rnd (flag : Bool) (x : Rat) : Rat := if flag then ((roundHalfEven x : Int) : Rat) else x

theorem rnd_false : rnd false = id := by funext x; simp [rnd]
theorem rnd_true : rnd true = fun x => ((roundHalfEven x : Int) : Rat) := by funext x; simp [rnd]

/-- the body of a `__call__` without an out-of-plane test: every row through the affine, then rounding if asked -/
theorem callBody_nodrop (s : CallSpec) (hd : s.drop = none) (a : Aff) (d r : Bool) (rows : List (List Rat))
    (g : List Rat → List Rat) (h : ∀ row ∈ rows, callRow s a row = .ok (g row)) :
    callBody s a d r rows = .ok ((rows.map g).map (·.map (rnd (s.hasRound && r)))) := by
  unfold callBody
  rw [mapM_ok_map _ g rows h, hd]
  by_cases hr : (s.hasRound && r) = true
  · simp [hr, rnd_false, rnd_true, bind, Except.bind, pure, Except.pure]
  · simp [hr, rnd_false, rnd_true, bind, Except.bind, pure, Except.pure]

/-- … and with one: refused as soon as ONE row lies beyond the threshold (tested on the un-rounded values), otherwise the
tested column is cut, then rounding if asked -/
theorem callBody_drop (s : CallSpec) {col : Nat} {thr : Rat} {k : Nat} (hd : s.drop = some (col, thr, k)) (a : Aff) (d r : Bool)
    (rows : List (List Rat)) (g : List Rat → List Rat) (h : ∀ row ∈ rows, callRow s a row = .ok (g row)) :
    callBody s a d r rows =
      if d && (rows.map g).any (fun row => rabs (row.getD col 0) > thr) then .error .runtime
      else .ok (((rows.map g).map (fun row => if d then row.take k else row)).map (·.map (rnd (s.hasRound && r)))) := by
  unfold callBody
  rw [mapM_ok_map _ g rows h, hd]
  cases d
  · by_cases hr : (s.hasRound && r) = true
    · simp [hr, rnd_false, rnd_true, bind, Except.bind, pure, Except.pure]
    · simp [hr, rnd_false, rnd_true, bind, Except.bind, pure, Except.pure]
  · by_cases hany : ((rows.map g).any (fun row => rabs (row.getD col 0) > thr)) = true
    · simp only [bind, Except.bind, pure, Except.pure, if_true, hany, Bool.true_and]
    · simp only [bind, Except.bind, pure, Except.pure, if_true, hany, Bool.true_and]
      by_cases hr : (s.hasRound && r) = true
      · simp [hr, rnd_false, rnd_true]
      · simp [hr, rnd_false, rnd_true]


/-! ## batches of index pairs / image coordinates (classes with constant rows `[0, 1]`) and of points (`[1]`) -/

def rowsOfPairs (pts : List (Rat × Rat)) : List (List Rat) := pts.map fun p => [p.1, p.2]
def rowsOfInts (pts : List (Int × Int)) : List (List Rat) := pts.map fun p => [(p.1 : Rat), (p.2 : Rat)]
def rowsOfPoints (vs : List V3) : List (List Rat) := vs.map V3.toList

theorem rowsOfInts_eq (pts : List (Int × Int)) : rowsOfInts pts = rowsOfPairs (pts.map fun p => ((p.1 : Rat), (p.2 : Rat))) := by
  simp [rowsOfInts, rowsOfPairs]

theorem callSpec_pairs (s : CallSpec) (hp : s.pad = [0, 1]) (hd : s.drop = none) (hw : s.width = 2) (a : Aff) (d r i : Bool)
    (hi : s.intOnly = true → i = true) (pts : List (Rat × Rat)) :
    callSpec s a d r (Batch.ofRows 2 i (rowsOfPairs pts))
      = .ok (pts.map fun p => ((a.apply ⟨p.1, p.2, 0⟩).toList.take s.keep).map (rnd (s.hasRound && r))) := by
  rw [callSpec_body s a d r _ rfl (by simp [Batch.ofRows, hw]) (by simpa [Batch.ofRows] using hi)]
  have h : ∀ row ∈ (Batch.ofRows 2 i (rowsOfPairs pts)).rows,
      callRow s a row = .ok ((fun row => ((a.apply ⟨row.getD 0 0, row.getD 1 0, 0⟩).toList.take s.keep)) row) := by
    intro row hrow
    simp only [Batch.ofRows, rowsOfPairs, List.mem_map] at hrow
    obtain ⟨p, _, rfl⟩ := hrow
    rw [callRow_pad01 s hp]
    simp
  rw [callBody_nodrop s hd a d r _ _ h]
  simp [Batch.ofRows, rowsOfPairs, List.map_map, Function.comp_def]

theorem callSpec_points (s : CallSpec) (hp : s.pad = [1]) {col : Nat} {thr : Rat} {k : Nat} (hd : s.drop = some (col, thr, k))
    (hw : s.width = 3) (a : Aff) (d r i : Bool) (hi : s.intOnly = true → i = true) (vs : List V3) :
    callSpec s a d r (Batch.ofRows 3 i (rowsOfPoints vs))
      = if d && vs.any (fun v => rabs (((a.apply v).toList.take s.keep).getD col 0) > thr) then .error .runtime
        else .ok (vs.map fun v => (if d then ((a.apply v).toList.take s.keep).take k else (a.apply v).toList.take s.keep).map
                    (rnd (s.hasRound && r))) := by
  rw [callSpec_body s a d r _ rfl (by simp [Batch.ofRows, hw]) (by simpa [Batch.ofRows] using hi)]
  have h : ∀ row ∈ (Batch.ofRows 3 i (rowsOfPoints vs)).rows,
      callRow s a row = .ok ((fun row => ((a.apply ⟨row.getD 0 0, row.getD 1 0, row.getD 2 0⟩).toList.take s.keep)) row) := by
    intro row hrow
    simp only [Batch.ofRows, rowsOfPoints, List.mem_map] at hrow
    obtain ⟨v, _, rfl⟩ := hrow
    rw [callRow_pad1 s hp]
    cases v; simp [V3.toList]
  rw [callBody_drop s hd a d r _ _ h]
  have e : ∀ v : V3, (⟨v.toList[0]?.getD 0, v.toList[1]?.getD 0, v.toList[2]?.getD 0⟩ : V3) = v := by
    intro v; cases v; simp [V3.toList]
  simp [Batch.ofRows, rowsOfPoints, List.map_map, Function.comp_def, List.any_map, e]


/-! ## the six classes -/

/-- the regenerated specs, spelled out (a change of any `__call__` changes this table) -/
theorem callSpecs_table :
    Gen.pixToRefCallSpec = (2, true, [0, 1], 3, none, false) ∧
    Gen.refToPixCallSpec = (3, false, [1], 3, some (2, 1 / 2, 2), true) ∧
    Gen.pixToPixCallSpec = (2, true, [0, 1], 2, none, true) ∧
    Gen.imgToRefCallSpec = (2, false, [0, 1], 3, none, false) ∧
    Gen.refToImgCallSpec = (3, false, [1], 3, some (2, 1 / 2, 2), false) ∧
    Gen.imgToImgCallSpec = (2, false, [0, 1], 2, none, false) :=
  ⟨rfl, rfl, rfl, rfl, rfl, rfl⟩

theorem take3_toList (v : V3) : v.toList.take 3 = v.toList := by cases v; rfl
theorem take2_toList (v : V3) : v.toList.take 2 = [v.x, v.y] := by cases v; rfl
theorem getD2_toList (v : V3) : v.toList[2]?.getD 0 = v.z := by cases v; rfl

/-- **PixelToReferenceTransformer on a batch** = the point map on every row -/
theorem pixToRefCall_batch {pos ori : List Rat} {ps : Spacing} {a : Aff} (ha : pixToRefAffine pos ori ps = .ok a)
    (pts : List (Int × Int)) :
    pixToRefCall pos ori ps (Batch.ofRows 2 true (rowsOfInts pts))
      = .ok (pts.map fun p => (a.apply ⟨(p.1 : Rat), (p.2 : Rat), 0⟩).toList) := by
  simp only [pixToRefCall, ha, bind, Except.bind]
  rw [rowsOfInts_eq, callSpec_pairs _ rfl rfl rfl a false false true (fun _ => rfl)]
  simp [CallSpec.keep, CallSpec.hasRound, Gen.pixToRefCallSpec, take3_toList, rnd_false, List.map_map, Function.comp_def]

theorem imgToRefCall_batch {pos ori : List Rat} {ps : Spacing} {a : Aff} (ha : imgToRefAffine pos ori ps = .ok a) (i : Bool)
    (pts : List (Rat × Rat)) :
    imgToRefCall pos ori ps (Batch.ofRows 2 i (rowsOfPairs pts)) = .ok (pts.map fun p => (a.apply ⟨p.1, p.2, 0⟩).toList) := by
  simp only [imgToRefCall, ha, bind, Except.bind]
  rw [callSpec_pairs _ rfl rfl rfl a false false i (fun h => by cases h)]
  simp [CallSpec.keep, CallSpec.hasRound, Gen.imgToRefCallSpec, take3_toList, rnd_false]

theorem pixToPixCall_batch {posF oriF : List Rat} {psF : Spacing} {posT oriT : List Rat} {psT : Spacing} {a : Aff}
    (ha : pixToPixAffine posF oriF psF posT oriT psT = .ok a) (r : Bool) (pts : List (Int × Int)) :
    pixToPixCall posF oriF psF posT oriT psT r (Batch.ofRows 2 true (rowsOfInts pts))
      = .ok (pts.map fun p => [rnd r (a.apply ⟨(p.1 : Rat), (p.2 : Rat), 0⟩).x, rnd r (a.apply ⟨(p.1 : Rat), (p.2 : Rat), 0⟩).y]) := by
  simp only [pixToPixCall, ha, bind, Except.bind]
  rw [rowsOfInts_eq, callSpec_pairs _ rfl rfl rfl a false r true (fun _ => rfl)]
  simp [CallSpec.keep, CallSpec.hasRound, Gen.pixToPixCallSpec, take2_toList, List.map_map, Function.comp_def]

theorem imgToImgCall_batch {posF oriF : List Rat} {psF : Spacing} {posT oriT : List Rat} {psT : Spacing} {a : Aff}
    (ha : imgToImgAffine posF oriF psF posT oriT psT = .ok a) (i : Bool) (pts : List (Rat × Rat)) :
    imgToImgCall posF oriF psF posT oriT psT (Batch.ofRows 2 i (rowsOfPairs pts))
      = .ok (pts.map fun p => [(a.apply ⟨p.1, p.2, 0⟩).x, (a.apply ⟨p.1, p.2, 0⟩).y]) := by
  simp only [imgToImgCall, ha, bind, Except.bind]
  rw [callSpec_pairs _ rfl rfl rfl a false false i (fun h => by cases h)]
  simp [CallSpec.keep, CallSpec.hasRound, Gen.imgToImgCallSpec, take2_toList, rnd_false]

/-- **ReferenceToPixelTransformer on a batch**: with `drop_slice_index` refused as soon as one point is more than half a slice
off the plane (tested BEFORE rounding), else the slice index is cut; then rounding under `round_output` -/
theorem refToPixCall_batch {pos ori : List Rat} {ps : Spacing} {sbs : Rat} {a : Aff}
    (ha : invAffineFromAttributes pos ori ps sbs = .ok a) (r d i : Bool) (vs : List V3) :
    refToPixCall pos ori ps sbs r d (Batch.ofRows 3 i (rowsOfPoints vs))
      = if d && vs.any (fun v => rabs (a.apply v).z > 1 / 2) then .error .runtime
        else .ok (vs.map fun v => (if d then [(a.apply v).x, (a.apply v).y] else (a.apply v).toList).map (rnd r)) := by
  simp only [refToPixCall, ha, bind, Except.bind]
  rw [callSpec_points _ rfl (col := 2) (thr := 1 / 2) (k := 2) rfl rfl a d r i (fun h => by cases h)]
  simp [CallSpec.keep, CallSpec.hasRound, Gen.refToPixCallSpec, take3_toList, take2_toList, getD2_toList]

theorem refToImgCall_batch {pos ori : List Rat} {ps : Spacing} {sbs : Rat} {a : Aff}
    (ha : refToImgAffine pos ori ps sbs = .ok a) (d i : Bool) (vs : List V3) :
    refToImgCall pos ori ps sbs d (Batch.ofRows 3 i (rowsOfPoints vs))
      = if d && vs.any (fun v => rabs (a.apply v).z > 1 / 2) then .error .runtime
        else .ok (vs.map fun v => if d then [(a.apply v).x, (a.apply v).y] else (a.apply v).toList) := by
  simp only [refToImgCall, ha, bind, Except.bind]
  rw [callSpec_points _ rfl (col := 2) (thr := 1 / 2) (k := 2) rfl rfl a d false i (fun h => by cases h)]
  simp [CallSpec.keep, CallSpec.hasRound, Gen.refToImgCallSpec, take3_toList, take2_toList, getD2_toList, rnd_false]


/-- **only arrays of shape (n, k) with the class's k (and integer dtype where demanded) are accepted**, and the answer has one
row per input row -/
theorem callSpec_ok_shape (s : CallSpec) (a : Aff) (d r : Bool) (b : Batch) (out : List (List Rat))
    (h : callSpec s a d r b = .ok out) :
    b.ndim = 2 ∧ b.width = s.width ∧ (s.intOnly = true → b.isInt = true) ∧ out.length = b.rows.length := by
  unfold callSpec at h
  by_cases h1 : b.ndim < 2
  · rw [if_pos h1] at h; cases h
  rw [if_neg h1] at h
  by_cases h2 : b.width ≠ s.width
  · rw [if_pos h2] at h; cases h
  rw [if_neg h2] at h
  by_cases h3 : (s.intOnly && !b.isInt) = true
  · rw [if_pos h3] at h; cases h
  rw [if_neg h3] at h
  by_cases h4 : b.ndim ≠ 2
  · rw [if_pos h4] at h; cases h
  rw [if_neg h4] at h
  refine ⟨not_not.mp h4, not_not.mp h2, ?_, ?_⟩
  · intro hs
    cases hb : b.isInt with
    | true => rfl
    | false => exact absurd (by simp [hs, hb]) h3
  · unfold callBody at h
    cases hm : b.rows.mapM (callRow s a) with
    | error e => simp [hm, bind, Except.bind] at h
    | ok o1 =>
      have hl := mapM_ok_length _ _ _ hm
      simp only [hm, bind, Except.bind] at h
      -- every later stage maps over the rows
      have key : ∀ o2 : List (List Rat), o2.length = b.rows.length →
          (if (s.hasRound && r) = true then (pure (o2.map (·.map (fun x => ((roundHalfEven x : Int) : Rat)))) : Except ErrKind _)
           else pure o2) = .ok out → out.length = b.rows.length := by
        intro o2 hl2 ho
        by_cases hr : (s.hasRound && r) = true
        · rw [if_pos hr] at ho; cases ho; simp [hl2]
        · rw [if_neg hr] at ho; cases ho; exact hl2
      cases hdrop : s.drop with
      | none =>
        simp only [hdrop, pure, Except.pure] at h
        exact key o1 hl h
      | some t =>
        obtain ⟨col, thr, k⟩ := t
        simp only [hdrop] at h
        cases d
        · simp only [pure, Except.pure, Bool.false_eq_true, if_false] at h
          exact key o1 hl h
        · by_cases hany : (o1.any fun row => decide (rabs (row.getD col 0) > thr)) = true
          · rw [if_pos rfl, if_pos hany] at h; cases h
          · rw [if_pos rfl, if_neg hany] at h
            exact key (o1.map (fun x => x.take k)) (by simp [hl]) (by simpa only [pure, Except.pure] using h)


/-! ## the point helpers are the batch transformers on a one-row array -/

/-- **`map_pixel_into_coordinate_system` agrees with the batch transformer / the point map** -/
theorem mapPixel_eq (c r : Int) (pos ori : List Rat) (ps : Spacing) :
    mapPixelIntoCoordinateSystemB [c, r] pos ori ps = pixToRef pos ori ps c r := by
  unfold mapPixelIntoCoordinateSystemB pixToRef
  simp only [Gen.mapPixelCall]
  cases ha : pixToRefAffine pos ori ps with
  | error e => simp [pixToRefCall, ha, bind, Except.bind]
  | ok a =>
    have hb := pixToRefCall_batch ha [(c, r)]
    simp only [rowsOfInts, List.map_cons, List.map_nil] at hb
    simp only [List.length_cons, List.length_nil, List.map_cons, List.map_nil]
    rw [show (0 + 1 + 1 : Nat) = 2 from rfl, hb]
    simp only [bind, Except.bind, pure, Except.pure, V3.toList]

/-- an index that is not a pair is refused -/
theorem mapPixel_wrong_length (index : List Int) (h : index.length ≠ 2) {pos ori : List Rat} {ps : Spacing} {a : Aff}
    (ha : pixToRefAffine pos ori ps = .ok a) : mapPixelIntoCoordinateSystemB index pos ori ps = .error .value := by
  unfold mapPixelIntoCoordinateSystemB
  simp only [Gen.mapPixelCall, pixToRefCall, ha, bind, Except.bind]
  rw [callSpec_width _ _ _ _ _ (by simp [Batch.ofRows]) (by simpa [Batch.ofRows, CallSpec.width, Gen.pixToRefCallSpec] using h)]

/-- **`map_coordinate_into_pixel_matrix` agrees with the rounding batch transformer / the rounded point map** (Python's `round`
after `np.around` changes nothing) -/
theorem mapCoordinate_eq (v : V3) (pos ori : List Rat) (ps : Spacing) (sbs : Option Rat) :
    mapCoordinateIntoPixelMatrixB v.toList pos ori ps sbs = refToPixRounded pos ori ps (sbs.getD 1) v := by
  unfold mapCoordinateIntoPixelMatrixB refToPixRounded refToPix
  have e1 : sbs.getD Gen.mapCoordinateDefaultSpacingBetweenSlices = sbs.getD 1 := by
    cases sbs <;> simp [Gen.mapCoordinateDefaultSpacingBetweenSlices]
  simp only [Gen.mapCoordinateCall, Option.getD_some, e1]
  cases ha : invAffineFromAttributes pos ori ps (sbs.getD 1) with
  | error e => simp [refToPixCall, ha, bind, Except.bind]
  | ok a =>
    have hb := refToPixCall_batch ha Gen.refToPixDefaultRound Gen.refToPixDefaultDrop false [v]
    simp only [rowsOfPoints, List.map_cons, List.map_nil] at hb
    have hl : v.toList.length = 3 := by cases v; rfl
    rw [hl, hb]
    simp only [Gen.refToPixDefaultDrop, Gen.refToPixDefaultRound, Bool.false_and, Bool.false_eq_true, if_false, rnd_true,
      bind, Except.bind, pure, Except.pure, V3.toList, List.map_cons, List.map_nil, roundHalfEven_intCast]

end HdVerif.Affine
