import HdVerif.Proofs.Affine
namespace HdVerif.Affine

theorem V3.dot_comm (a b : V3) : a.dot b = b.dot a := by
  cases a; cases b; simp only [V3.dot]; ring

theorem V3.neg_dot (a b : V3) : a.neg.dot b = -(a.dot b) := by
  cases a; cases b; simp only [V3.dot, V3.neg]; ring

theorem V3.dot_neg (a b : V3) : a.dot b.neg = -(a.dot b) := by
  cases a; cases b; simp only [V3.dot, V3.neg]; ring

theorem V3.sub_dot (a b c : V3) : (a.sub b).dot c = a.dot c - b.dot c := by
  cases a; cases b; cases c; simp only [V3.dot, V3.sub]; ring

theorem V3.neg_neg' (a : V3) : a.neg.neg = a := by
  cases a; simp [V3.neg]

theorem rabs_neg (x : Rat) : rabs (-x) = rabs x := by
  unfold rabs
  by_cases h : x < 0
  · have : ¬ (-x < 0) := by linarith
    simp [h, this]
  · by_cases h0 : x = 0
    · subst h0; simp
    · have : -x < 0 := by
        have : 0 < x := lt_of_le_of_ne (not_lt.mp h) (Ne.symm h0)
        linarith
      simp [h, this]

theorem rabs_nonneg (x : Rat) : 0 ≤ rabs x := by
  unfold rabs; split <;> linarith

theorem rabs_eq_abs (x : Rat) : rabs x = |x| := by
  unfold rabs
  by_cases h : x < 0
  · simp [h, abs_of_neg h]
  · simp [h, abs_of_nonneg (not_lt.mp h)]

/-- **the coplanarity decision, exactly**: `_are_images_coplanar` says yes iff the normals are parallel within the
tolerance AND the SIGNED offset of one origin from the other plane, measured along the first normal, is below it. -/
theorem areCoplanar_iff (P Q : Plane) :
    areCoplanar P.pos P.o Q.pos Q.o
      = .ok (decide (1 - rabs (P.nrm.dot Q.nrm) ≤ eqTol ∧ rabs ((P.pos.sub Q.pos).dot P.nrm) < eqTol)) := by
  rw [V3.sub_dot]
  by_cases h1 : 1 - rabs (P.nrm.dot Q.nrm) ≤ eqTol
  · by_cases h2 : rabs (P.pos.dot P.nrm - Q.pos.dot P.nrm) < eqTol
    · rw [areCoplanar_true P Q h1 h2]; simp [h1, h2]
    · rw [areCoplanar_false P Q (Or.inr (not_lt.mp h2))]; simp [h2]
  · rw [areCoplanar_false P Q (Or.inl (not_le.mp h1))]; simp [h1]


/-- the inverse affine of a valid plane (slice spacing 1) as a value -/
theorem pixToPixAffine_eval (P Q : Plane) (hP : P.Valid) (hQ : Q.Valid) :
    ∃ mi, (Q.fwd 1).m.inv = .ok mi ∧
      pixToPixAffine P.posL P.oriL P.ps Q.posL Q.oriL Q.ps
        = (if 1 - rabs (P.nrm.dot Q.nrm) ≤ eqTol ∧ rabs ((P.pos.sub Q.pos).dot P.nrm) < eqTol
           then .ok ((Aff.mk mi (mi.mulVec Q.pos).neg).comp (P.fwd 1)) else .error .value) := by
  obtain ⟨mi, hmi, hinv⟩ := invAffine_eval Q hQ (sbs := 1) one_ne_zero
  refine ⟨mi, hmi, ?_⟩
  have hfwd : affineFromAttributes P.posL P.oriL P.ps 1 ['R', 'D'] false true = .ok (P.fwd 1) := by
    have := affineFromAttributes_eval P hP.hr hP.hc (cv := ('R', 'D')) (Or.inl rfl) false true 1
    simp only at this
    rw [this, ← fwd_eq_frame]; rfl
  simp only [pixToPixAffine, ofList_posL, ofList_oriL, areCoplanar_iff, hfwd, hinv, bind, Except.bind, pure, Except.pure]
  by_cases h : 1 - rabs (P.nrm.dot Q.nrm) ≤ eqTol ∧ rabs ((P.pos.sub Q.pos).dot P.nrm) < eqTol
  · rw [if_pos h, decide_eq_true h]; rfl
  · rw [if_neg h, decide_eq_false h]; rfl

/-- **the pixel-to-pixel constructor accepts exactly the pairs the coplanarity decision accepts** (valid planes) -/
theorem pixToPix_ok_iff (P Q : Plane) (hP : P.Valid) (hQ : Q.Valid) (c r : Int) :
    (∃ q, pixToPix P.posL P.oriL P.ps Q.posL Q.oriL Q.ps c r = .ok q) ↔
      (1 - rabs (P.nrm.dot Q.nrm) ≤ eqTol ∧ rabs ((P.pos.sub Q.pos).dot P.nrm) < eqTol) := by
  obtain ⟨mi, _, he⟩ := pixToPixAffine_eval P Q hP hQ
  unfold pixToPix
  rw [he]
  by_cases h : 1 - rabs (P.nrm.dot Q.nrm) ≤ eqTol ∧ rabs ((P.pos.sub Q.pos).dot P.nrm) < eqTol
  · rw [if_pos h]; simp only [bind, Except.bind, pure, Except.pure]; exact ⟨fun _ => h, fun _ => ⟨_, rfl⟩⟩
  · rw [if_neg h]; simp only [bind, Except.bind]; exact ⟨fun hq => (by obtain ⟨_, hq⟩ := hq; cases hq), fun h' => absurd h' h⟩


/-! ## exactly coplanar planes: transfer of in-plane points, inverses, composition -/

/-- the same geometric plane: normals equal or opposite, equal offset along the normal -/
structure SamePlane (P Q : Plane) : Prop where
  par : Q.nrm = P.nrm ∨ Q.nrm = P.nrm.neg
  off : P.pos.dot P.nrm = Q.pos.dot P.nrm

theorem SamePlane.refl (P : Plane) : SamePlane P P := ⟨Or.inl rfl, rfl⟩

theorem SamePlane.symm {P Q : Plane} (h : SamePlane P Q) : SamePlane Q P := by
  obtain ⟨hp, ho⟩ := h
  rcases hp with e | e
  · exact ⟨Or.inl e.symm, by rw [e, ho]⟩
  · refine ⟨Or.inr (by rw [e, V3.neg_neg']), ?_⟩
    rw [e, V3.dot_neg, V3.dot_neg, ho]

theorem SamePlane.trans {P Q R : Plane} (h1 : SamePlane P Q) (h2 : SamePlane Q R) : SamePlane P R := by
  obtain ⟨hp1, ho1⟩ := h1
  obtain ⟨hp2, ho2⟩ := h2
  have ho2' : Q.pos.dot P.nrm = R.pos.dot P.nrm := by
    rcases hp1 with e | e
    · rw [e] at ho2; exact ho2
    · rw [e, V3.dot_neg, V3.dot_neg] at ho2; linarith
  refine ⟨?_, ho1.trans ho2'⟩
  rcases hp1 with e1 | e1 <;> rcases hp2 with e2 | e2
  · exact Or.inl (e2.trans e1)
  · exact Or.inr (by rw [e2, e1])
  · exact Or.inr (by rw [e2, e1])
  · exact Or.inl (by rw [e2, e1, V3.neg_neg'])

/-- a point of the forward affine with slice coordinate 0 has the plane's own offset along the normal -/
theorem fwd_in_plane (P : Plane) (s x y : Rat) : P.nrm.dot ((P.fwd s).apply ⟨x, y, 0⟩) = P.nrm.dot P.pos := by
  rw [nrm_dot_fwd]; ring

/-- the slice coordinate the inverse affine assigns to a point: its signed offset from the plane along the normal,
in units of `sbs · |n|²` -/
theorem inv_slice_coordinate (Q : Plane) {sbs : Rat} {mi : M3} (hmi : (Q.fwd sbs).m.inv = .ok mi) (v : V3) :
    ((Aff.mk mi (mi.mulVec Q.pos).neg).apply v).z * sbs * Q.nrm.dot Q.nrm = (v.sub Q.pos).dot Q.nrm := by
  have hr := Aff.inv_apply_right hmi Q.pos v
  have h := nrm_dot_fwd Q sbs ((Aff.mk mi (mi.mulVec Q.pos).neg).apply v)
  simp only [Plane.fwd] at hr h
  rw [hr] at h
  rw [V3.sub_dot, V3.dot_comm v, V3.dot_comm Q.pos]
  linarith

/-- in-plane points of `P` are in-plane points of any `Q` in the same plane: the dropped slice index is exactly 0 -/
theorem samePlane_transfer {P Q : Plane} (h : SamePlane P Q) (hQ : Q.Valid) {mi : M3} (hmi : (Q.fwd 1).m.inv = .ok mi)
    (s x y : Rat) : ((Aff.mk mi (mi.mulVec Q.pos).neg).apply ((P.fwd s).apply ⟨x, y, 0⟩)).z = 0 := by
  have hz := inv_slice_coordinate Q hmi ((P.fwd s).apply ⟨x, y, 0⟩)
  have hin := fwd_in_plane P s x y
  have hQn : Q.nrm.dot Q.nrm ≠ 0 := V3.dot_self_ne_zero hQ.hn
  obtain ⟨hp, ho⟩ := h
  have key : (((P.fwd s).apply ⟨x, y, 0⟩).sub Q.pos).dot Q.nrm = 0 := by
    rw [V3.sub_dot]
    rcases hp with e | e
    · rw [e, V3.dot_comm _ P.nrm, hin, V3.dot_comm P.nrm, ho]; ring
    · rw [e, V3.dot_neg, V3.dot_neg, V3.dot_comm _ P.nrm, hin, V3.dot_comm P.nrm, ho]; ring
  rw [key] at hz
  have : ((Aff.mk mi (mi.mulVec Q.pos).neg).apply ((P.fwd s).apply ⟨x, y, 0⟩)).z * Q.nrm.dot Q.nrm = 0 := by linarith
  rcases mul_eq_zero.mp this with h0 | h0
  · exact h0
  · exact absurd h0 hQn

/-- the pixel-to-pixel affine between two valid planes in the same plane maps `(x, y, 0)` to some `(x', y', 0)` and the
affine of the opposite direction maps that back: **P2P(B,A) ∘ P2P(A,B) = id**, with nothing lost by dropping the slice index -/
theorem p2p_roundtrip {P Q : Plane} (_hP : P.Valid) (hQ : Q.Valid) (h : SamePlane P Q) {mp mq : M3}
    (hmp : (P.fwd 1).m.inv = .ok mp) (hmq : (Q.fwd 1).m.inv = .ok mq) (x y : Rat) :
    ∃ x' y', ((Aff.mk mq (mq.mulVec Q.pos).neg).comp (P.fwd 1)).apply ⟨x, y, 0⟩ = ⟨x', y', 0⟩ ∧
      ((Aff.mk mp (mp.mulVec P.pos).neg).comp (Q.fwd 1)).apply ⟨x', y', 0⟩ = ⟨x, y, 0⟩ := by
  have hz := samePlane_transfer h hQ hmq 1 x y
  generalize hq : (Aff.mk mq (mq.mulVec Q.pos).neg).apply ((P.fwd 1).apply ⟨x, y, 0⟩) = q at hz
  obtain ⟨qx, qy, qz⟩ := q
  simp only at hz
  subst hz
  refine ⟨qx, qy, ?_, ?_⟩
  · rw [Aff.comp_apply, hq]
  · rw [Aff.comp_apply, ← hq]
    have := Aff.inv_apply_right hmq Q.pos ((P.fwd 1).apply ⟨x, y, 0⟩)
    simp only [Plane.fwd] at this ⊢
    rw [this]
    exact Aff.inv_apply_left hmp P.pos ⟨x, y, 0⟩

/-- **P2P(B,C) ∘ P2P(A,B) = P2P(A,C)** on in-plane points, for three valid planes in the same plane -/
theorem p2p_compose {P Q R : Plane} (hQ : Q.Valid) (h : SamePlane P Q) {mq mr : M3}
    (hmq : (Q.fwd 1).m.inv = .ok mq) (_hmr : (R.fwd 1).m.inv = .ok mr) (x y : Rat) :
    ∃ x' y', ((Aff.mk mq (mq.mulVec Q.pos).neg).comp (P.fwd 1)).apply ⟨x, y, 0⟩ = ⟨x', y', 0⟩ ∧
      ((Aff.mk mr (mr.mulVec R.pos).neg).comp (Q.fwd 1)).apply ⟨x', y', 0⟩
        = ((Aff.mk mr (mr.mulVec R.pos).neg).comp (P.fwd 1)).apply ⟨x, y, 0⟩ := by
  have hz := samePlane_transfer h hQ hmq 1 x y
  generalize hq : (Aff.mk mq (mq.mulVec Q.pos).neg).apply ((P.fwd 1).apply ⟨x, y, 0⟩) = q at hz
  obtain ⟨qx, qy, qz⟩ := q
  simp only at hz
  subst hz
  refine ⟨qx, qy, ?_, ?_⟩
  · rw [Aff.comp_apply, hq]
  · rw [Aff.comp_apply, Aff.comp_apply, ← hq]
    have := Aff.inv_apply_right hmq Q.pos ((P.fwd 1).apply ⟨x, y, 0⟩)
    simp only [Plane.fwd] at this ⊢
    rw [this]


theorem SamePlane.unit {P Q : Plane} (h : SamePlane P Q) (hn : P.nrm.dot P.nrm = 1) : Q.nrm.dot Q.nrm = 1 := by
  rcases h.par with e | e
  · rw [e, hn]
  · rw [e, V3.neg_dot, V3.dot_neg, hn]; ring

/-- planes in the same plane (unit normals) pass the coplanarity decision -/
theorem SamePlane.accepted {P Q : Plane} (h : SamePlane P Q) (hn : P.nrm.dot P.nrm = 1) :
    1 - rabs (P.nrm.dot Q.nrm) ≤ eqTol ∧ rabs ((P.pos.sub Q.pos).dot P.nrm) < eqTol := by
  constructor
  · rcases h.par with e | e
    · rw [e, hn]; decide +kernel
    · rw [e, V3.dot_neg, hn]; decide +kernel
  · rw [V3.sub_dot, h.off, sub_self]; decide +kernel

/-- both directions of the pixel-to-pixel transformer between two valid planes in the same plane exist and undo each other -/
theorem pixToPix_roundtrip (P Q : Plane) (hP : P.Valid) (hQ : Q.Valid) (hn : P.nrm.dot P.nrm = 1) (h : SamePlane P Q) :
    ∃ ab ba, pixToPixAffine P.posL P.oriL P.ps Q.posL Q.oriL Q.ps = .ok ab ∧
      pixToPixAffine Q.posL Q.oriL Q.ps P.posL P.oriL P.ps = .ok ba ∧
      ∀ x y : Rat, ∃ x' y', ab.apply ⟨x, y, 0⟩ = ⟨x', y', 0⟩ ∧ ba.apply ⟨x', y', 0⟩ = ⟨x, y, 0⟩ := by
  obtain ⟨mq, hmq, hab⟩ := pixToPixAffine_eval P Q hP hQ
  obtain ⟨mp, hmp, hba⟩ := pixToPixAffine_eval Q P hQ hP
  rw [if_pos (h.accepted hn)] at hab
  rw [if_pos (h.symm.accepted (h.unit hn))] at hba
  exact ⟨_, _, hab, hba, fun x y => p2p_roundtrip hP hQ h hmp hmq x y⟩

/-- composition of pixel-to-pixel transformers along three valid planes in the same plane -/
theorem pixToPix_compose (P Q R : Plane) (hP : P.Valid) (hQ : Q.Valid) (hR : R.Valid) (hn : P.nrm.dot P.nrm = 1)
    (h1 : SamePlane P Q) (h2 : SamePlane Q R) :
    ∃ ab bc ac, pixToPixAffine P.posL P.oriL P.ps Q.posL Q.oriL Q.ps = .ok ab ∧
      pixToPixAffine Q.posL Q.oriL Q.ps R.posL R.oriL R.ps = .ok bc ∧
      pixToPixAffine P.posL P.oriL P.ps R.posL R.oriL R.ps = .ok ac ∧
      ∀ x y : Rat, ∃ x' y', ab.apply ⟨x, y, 0⟩ = ⟨x', y', 0⟩ ∧ bc.apply ⟨x', y', 0⟩ = ac.apply ⟨x, y, 0⟩ := by
  obtain ⟨mq, hmq, hab⟩ := pixToPixAffine_eval P Q hP hQ
  obtain ⟨mr, hmr, hbc⟩ := pixToPixAffine_eval Q R hQ hR
  obtain ⟨mr', hmr', hac⟩ := pixToPixAffine_eval P R hP hR
  rw [hmr] at hmr'
  cases hmr'
  rw [if_pos (h1.accepted hn)] at hab
  rw [if_pos (h2.accepted (h1.unit hn))] at hbc
  rw [if_pos ((h1.trans h2).accepted hn)] at hac
  exact ⟨_, _, _, hab, hbc, hac, fun x y => p2p_compose hQ h1 hmq hmr x y⟩

/-- the pixel-to-pixel transformer of a plane with itself is the identity on in-plane points -/
theorem pixToPix_self (P : Plane) (hP : P.Valid) (hn : P.nrm.dot P.nrm = 1) :
    ∃ a, pixToPixAffine P.posL P.oriL P.ps P.posL P.oriL P.ps = .ok a ∧ ∀ x y : Rat, a.apply ⟨x, y, 0⟩ = ⟨x, y, 0⟩ := by
  obtain ⟨mp, hmp, ha⟩ := pixToPixAffine_eval P P hP hP
  rw [if_pos ((SamePlane.refl P).accepted hn)] at ha
  refine ⟨_, ha, fun x y => ?_⟩
  rw [Aff.comp_apply]
  exact Aff.inv_apply_left hmp P.pos ⟨x, y, 0⟩

/-- for planes with equal or opposite unit normals the decision is exactly "signed distance below the tolerance" -/
theorem pixToPix_ok_iff_distance (P Q : Plane) (hP : P.Valid) (hQ : Q.Valid) (hn : P.nrm.dot P.nrm = 1)
    (hpar : Q.nrm = P.nrm ∨ Q.nrm = P.nrm.neg) (c r : Int) :
    (∃ q, pixToPix P.posL P.oriL P.ps Q.posL Q.oriL Q.ps c r = .ok q) ↔ rabs ((Q.pos.sub P.pos).dot P.nrm) < eqTol := by
  rw [pixToPix_ok_iff P Q hP hQ c r]
  have h1 : 1 - rabs (P.nrm.dot Q.nrm) ≤ eqTol := by
    rcases hpar with e | e
    · rw [e, hn]; decide +kernel
    · rw [e, V3.dot_neg, hn]; decide +kernel
  have h2 : rabs ((P.pos.sub Q.pos).dot P.nrm) = rabs ((Q.pos.sub P.pos).dot P.nrm) := by
    rw [V3.sub_dot, V3.sub_dot, ← rabs_neg]; congr 1; ring
  rw [h2]
  exact ⟨fun h => h.2, fun h => ⟨h1, h⟩⟩

end HdVerif.Affine
