import HdVerif.Proofs.Codec
import HdVerif.Proofs.FrameAccess
import HdVerif.Model.CodecGlue
import HdVerif.Generated.T13g
/-! C07, the glue: every reader of the image classes hands `decode_frame` the data set's own attributes (bridge over the
call sites REGENERATED as `Gen.frameCodecCallSites`, T13g), the frame index matters only where the docstring of
`decode_frame` says so, and a frame cut out of a bit-packed multi-frame element is recovered for every index. -/
namespace HdVerif.Codec
open HdVerif HdVerif.Bits HdVerif.Gen HdVerif.FrameAccessLemmas

/-- **Bridge over T13g.**  At each of the four sites that call `decode_frame` the current source passes ALL eleven parameters, each
in a normal form under which the call is `readFrame` (`readerSource`); at each of the five sites that call `encode_frame`
(or submit it to a worker pool) the object's own attributes (`writerSource`); and the table holds no other site. -/
theorem call_sites_tie :
    (∀ s ∈ decodeSites, siteAgrees frameCodecCallSites s "decode_frame" readerSource = true) ∧
    (∀ s ∈ encodeSites, siteAgrees frameCodecCallSites s "encode_frame" writerSource = true) ∧
    (∀ r ∈ frameCodecCallSites, r.1 ∈ decodeSites ++ encodeSites) ∧
    frameCodecCallSites ≠ [] := by
  decide +kernel

theorem written_params (p : Params) (x : Frame) : (PixelModule.written p x).params = p := by
  cases p; rfl

/-- Bits Stored absent: the image readers decode with Bits Allocated -/
theorem withoutStored_params (m : PixelModule) :
    m.withoutStored.params = { m.params with bitsStored := m.bitsAllocated } := rfl

/-- route 1 of `decode_frame` is the native single-bit branch and nothing else -/
theorem decodeRoute_one_iff (enc : Bool) (ba s : Int) (pi : String) (pr : Int) (pc : Option Int) :
    decodeFrameRoute enc ba s pi pr pc = .ok 1 ↔ (ba = 1 ∧ enc = false) := by
  unfold decodeFrameRoute
  cases pc <;> cases enc <;> simp only [] <;> grind (splits := 40)

/-- **`index` has no effect** outside the native single-bit branch (the claim of `decode_frame`'s docstring) -/
theorem decode_index_irrelevant (c : CodecImpl) (conv : List Int → List Int) (p : Params) (rows cols samples : Nat)
    (bytes : List Nat) (i j : Int) (h : ¬ (p.bitsAllocated = 1 ∧ isEncapsulated p.ts = false)) :
    decodeFrame c conv p rows cols samples bytes i = decodeFrame c conv p rows cols samples bytes j := by
  unfold decodeFrame
  cases hr : decodeFrameRoute (isEncapsulated p.ts) p.bitsAllocated samples p.pi p.pixelRepresentation p.planar with
  | error e => rfl
  | ok r =>
    have h1 : r ≠ 1 := by
      intro e; subst e
      exact h ((decodeRoute_one_iff _ _ _ _ _ _).mp hr)
    simp only [bind, Except.bind, h1, ↓reduceIte]

/-- ... and inside it when the frame fills whole bytes (every frame then starts on a byte boundary) -/
theorem decode_index_irrelevant_aligned (c : CodecImpl) (conv : List Int → List Int) (p : Params) (rows cols samples : Nat)
    (bytes : List Nat) (i : Int) (h8 : (rows * cols * samples) % 8 = 0) :
    decodeFrame c conv p rows cols samples bytes i = decodeFrame c conv p rows cols samples bytes 0 := by
  unfold decodeFrame
  cases hr : decodeFrameRoute (isEncapsulated p.ts) p.bitsAllocated samples p.pi p.pixelRepresentation p.planar with
  | error e => rfl
  | ok r =>
    by_cases h1 : r = 1
    · subst h1
      simp only [bind, Except.bind, ↓reduceIte]
      rw [bitSlice_eq, bitSlice_eq]
      have e : ((rows : Int) * (cols : Int) * (samples : Int)) = ((rows * cols * samples : Nat) : Int) := by push_cast; rfl
      have hm : ((rows * cols * samples : Nat) : Int) % 8 = 0 := by exact_mod_cast h8
      rw [e]
      have : (i * ((rows * cols * samples : Nat) : Int)) % 8 = 0 := by
        rw [Int.mul_emod, hm]; simp
      rw [this]; simp
    · simp only [bind, Except.bind, h1, ↓reduceIte]

/-- **Single-bit frames inside a multi-frame element** (any frame size, divisible by 8 or not): the bytes that cover frame `i`
of the bit-packed concatenation (`floor(i*n/8) .. ceil((i+1)*n/8)`, what `get_raw_frame` cuts -- C05) decode, with
`index = i`, to frame `i`. -/
theorem native_bits_multiframe (c : CodecImpl) (conv : List Int → List Int) (p : Params) (rows cols samples : Nat)
    (frames : List (List Bool)) (hn : 0 < rows * cols * samples) (hlen : ∀ f ∈ frames, f.length = rows * cols * samples)
    (hts : p.ts ∈ nativeSyntaxes) (hba : p.bitsAllocated = 1) (i : Nat) (hi : i < frames.length) :
    decodeFrame c conv p rows cols samples
        (pySlice (pack frames.flatten) ((i * (rows * cols * samples)) / 8) (((i + 1) * (rows * cols * samples) + 7) / 8)) (i : Int)
      = .ok (frames[i].map (fun b => if b then 1 else 0)) := by
  unfold decodeFrame
  rw [isEncapsulated_native _ hts, hba, decodeRoute_bits]
  simp only [bind, Except.bind, ↓reduceIte]
  rw [bitSlice_eq]
  simp only []
  have ec : ((i : Int) * ((rows : Int) * (cols : Int) * (samples : Int))) % 8 = ((i * (rows * cols * samples) % 8 : Nat) : Int) := by
    push_cast; rfl
  have ed : ((i * (rows * cols * samples) % 8 : Nat) : Int) + (rows : Int) * (cols : Int) * (samples : Int)
      = ((i * (rows * cols * samples) % 8 + rows * cols * samples : Nat) : Int) := by
    push_cast; rfl
  rw [ec, ed]
  have hs : ∀ {α} (l : List α) (a b : Nat), slice l (a : Int) (b : Int) = .ok (pySlice l a b) := by
    intro α l a b
    unfold slice
    have : ¬ ((a : Int) < 0 ∨ (b : Int) < 0) := by omega
    simp [this]
  rw [hs, extract_frame_nat frames (rows * cols * samples) hn hlen i hi]
  simp only [hlen _ (List.getElem_mem hi), ↓reduceIte]

/-! ### reading back what a writer encoded -/

/-- **A reader returns the frame a writer encoded** (native single bits; native cells of a multiple of 8 bits; the
encapsulated syntaxes on the region where the codec is lossless), whatever frame index it passes -- except for the photometric
interpretations pydicom converts while decoding (open finding C07-ybr-full-decoded-as-rgb). -/
theorem reader_returns_encoded_frame_partial (c : CodecImpl) (hc : c.LosslessOn codecRegion) (conv : List Int → List Int)
    (p : Params) (x : Frame) (bytes : List Nat) (index : Int) (hwf : x.WF)
    (hcase : (p.ts ∈ nativeSyntaxes ∧ p.bitsAllocated = 1) ∨
             (p.ts ∈ nativeSyntaxes ∧ p.bitsAllocated ≠ 1 ∧ p.bitsAllocated % 8 = 0) ∨ codecRegion p)
    (hnc : convertsColour p.pi x.spp = false) (henc : encodeFrame c p x = .ok bytes) :
    readFrame c conv (PixelModule.written p x) bytes index = .ok x.data := by
  unfold readFrame
  rw [written_params]
  show decodeFrame c conv p x.rows x.cols x.spp bytes index = .ok x.data
  rcases hcase with ⟨hts, hba⟩ | ⟨hts, hba, hmul⟩ | hD
  · -- an accepted stand-alone 1-bit frame fills whole bytes
    obtain ⟨r, hr, _⟩ := encodeFrame_ok c p x bytes henc
    obtain ⟨_, hn⟩ := accepted_native p x r hr hts
    have h8 : (x.rows * x.cols * x.spp) % 8 = 0 := by
      obtain ⟨_, _, h3⟩ := hn
      rcases h3 with h3 | h3
      · have := h3.2.1
        rw [Req.of_spp] at this
        simp only [Req.of] at this
        have e : ((x.rows : Int) * (x.cols : Int) * (x.spp : Int)) = ((x.rows * x.cols * x.spp : Nat) : Int) := by push_cast; rfl
        rw [e] at this
        exact_mod_cast this
      · exact absurd hba h3.1
    rw [decode_index_irrelevant_aligned c conv p x.rows x.cols x.spp bytes index h8]
    exact (native_bits_roundtrip c conv p x bytes hwf hts hba henc).1
  · rw [decode_index_irrelevant c conv p x.rows x.cols x.spp bytes index 0 (fun h => hba h.1)]
    have := (native_cells_decode c conv p x bytes hwf hts hba hmul henc).2.1
    simpa [hnc] using this
  · have hts : isEncapsulated p.ts = true := by
      rcases hD with ⟨h, _⟩ | h <;> rw [h] <;> decide
    rw [decode_index_irrelevant c conv p x.rows x.cols x.spp bytes index 0 (fun h => by rw [hts] at h; exact absurd h.2 (by decide))]
    have := encapsulated_decode c codecRegion hc conv p x bytes hts hD henc
    simpa [hnc] using this

/-- **Bits Stored absent** (the fall-back of the image readers): decoding with Bits Allocated in its place returns the
encoded frame as well -- every accepted sample fits the stored bits, so the bits above them are sign / zero extension. -/
theorem reader_without_bits_stored (c : CodecImpl) (conv : List Int → List Int) (p : Params) (x : Frame) (bytes : List Nat)
    (index : Int) (hwf : x.WF) (hts : p.ts ∈ nativeSyntaxes) (hba : p.bitsAllocated ≠ 1) (hmul : p.bitsAllocated % 8 = 0)
    (hnc : convertsColour p.pi x.spp = false) (henc : encodeFrame c p x = .ok bytes) :
    readFrame c conv (PixelModule.written p x).withoutStored bytes index = .ok x.data := by
  -- the same frame is accepted with bits stored = bits allocated, giving the same bytes
  have hp' : (PixelModule.written p x).withoutStored.params = { p with bitsStored := p.bitsAllocated } := by
    cases p; rfl
  unfold readFrame
  rw [hp']
  show decodeFrame c conv { p with bitsStored := p.bitsAllocated } x.rows x.cols x.spp bytes index = .ok x.data
  obtain ⟨r, hr, hb⟩ := encodeFrame_ok c p x bytes henc
  obtain ⟨hcm, hn⟩ := accepted_native p x r hr hts
  -- the request with all allocated bits stored is accepted on the same route
  have hacc : AcceptSpec (Req.of { p with bitsStored := p.bitsAllocated } x) r := by
    obtain ⟨hshape, hpl, hpr, hpi, hbs1, hbs2⟩ := hcm
    refine ⟨⟨hshape, hpl, hpr, hpi, ?_, ?_⟩, Or.inl ?_⟩
    · simp only [Req.of] at hbs1 hbs2 ⊢; omega
    · simp only [Req.of]; omega
    · obtain ⟨h1, h2, h3⟩ := hn
      refine ⟨h1, h2, ?_⟩
      rcases h3 with h3 | h3
      · exact absurd h3.1 (by simpa [Req.of] using hba)
      · refine Or.inr ⟨h3.1, h3.2.1, h3.2.2.1, h3.2.2.2.1, ?_, h3.2.2.2.2.2⟩
        intro hlt; simp only [Req.of] at hlt; omega
  have hr' : encodeRoute { p with bitsStored := p.bitsAllocated } x = .ok r := by
    rw [encodeRoute_eq]; exact route_complete _ r hacc
  have hr2 : r = 2 := by
    obtain ⟨_, _, h3⟩ := hn
    rcases h3 with h3 | h3
    · exact absurd h3.1 (by simpa [Req.of] using hba)
    · exact h3.2.2.2.2.2
  have hbytes : bytes = encodeCells x.dtype.itemsize x.data := by
    rcases hb with hb | hb | hb
    · exact absurd hr2 (by rw [hb.1]; decide)
    · exact hb.2.2
    · exact absurd hr2 hb.2.1
  have henc' : encodeFrame c { p with bitsStored := p.bitsAllocated } x = .ok bytes := by
    obtain ⟨v, hv, hv1⟩ := (route_of_full _ r).mp (by rw [← encodeRoute_eq]; exact hr')
    unfold encodeFrame
    rw [encodeRouteFull_eq, hv]
    simp only [bind, Except.bind, hv1, hr2]
    simp [hbytes]
  rw [decode_index_irrelevant c conv { p with bitsStored := p.bitsAllocated } x.rows x.cols x.spp bytes index 0 (fun h => hba h.1)]
  have := (native_cells_decode c conv { p with bitsStored := p.bitsAllocated } x bytes hwf hts hba hmul henc').2.1
  simpa [hnc] using this

end HdVerif.Codec
