import HdVerif.Generated.T3
/-! `_Image._standardize_row_column_indices` (translated, T3) against a per-argument specification.

`normStart x n asIdx` / `normEnd x n asIdx`: what a start / end argument denotes on an axis of length `n`, as a
1-based number (start in `1..n`, end in `1..n+1`), or `none` when it must be refused:
`None` is the first row / one past the last row; a non-negative 0-based index `v` is the number `v + 1`;
a negative value `v` counts from the end (`-1` is the last row) in both conventions; `0` is not a 1-based
number; everything outside the axis is refused (no wrap-around, no clamping).

The function has 4 optional arguments: every statement is proved per `some/none` arm (16 arms; the
decision tree of one arm is closed by `grind` in 1-8 s) and then combined by case analysis. -/
namespace HdVerif.TilingLemmas
open HdVerif HdVerif.Gen

def normStart (x : Option Int) (n : Int) (asIdx : Bool) : Option Int :=
  match x with
  | none => if 1 ≤ n then some 1 else none
  | some v =>
    let v1 := if asIdx = true ∧ 0 ≤ v then v + 1 else v
    if v1 = 0 ∨ n < v1 ∨ v1 < -n then none else some (if v1 < 0 then n + v1 + 1 else v1)

def normEnd (x : Option Int) (n : Int) (asIdx : Bool) : Option Int :=
  match x with
  | none => if 0 ≤ n then some (n + 1) else none
  | some v =>
    let v1 := if asIdx = true ∧ 0 ≤ v then v + 1 else v
    if v1 = 0 ∨ n + 1 < v1 ∨ v1 < -n then none else some (if v1 < 0 then n + v1 + 1 else v1)

/-- the shift between 1-based numbers and the requested output convention -/
def outShift (oi : Bool) : Int := if oi then 1 else 0

theorem normStart_range {x : Option Int} {n : Int} {ai : Bool} {a : Int} (h : normStart x n ai = some a) : 1 ≤ a ∧ a ≤ n := by
  unfold normStart at h
  cases x with
  | none => simp only at h; split at h <;> simp at h; omega
  | some v => simp only at h; grind

theorem normEnd_range {x : Option Int} {n : Int} {ai : Bool} {a : Int} (h : normEnd x n ai = some a) : 1 ≤ a ∧ a ≤ n + 1 := by
  unfold normEnd at h
  cases x with
  | none => simp only at h; split at h <;> simp at h; omega
  | some v => simp only at h; grind


theorem std_mp_nnnn (rows cols : Int) (ai oi : Bool) (a b c d : Int)
    (h : stdRowColIndices none none none none rows cols ai oi = .ok (a, b, c, d)) :
    normStart none rows ai = some (a + outShift oi) ∧ normEnd none rows ai = some (b + outShift oi) ∧
    normStart none cols ai = some (c + outShift oi) ∧ normEnd none cols ai = some (d + outShift oi) := by
  simp only [stdRowColIndices] at h
  refine ⟨?_, ?_, ?_, ?_⟩ <;> (simp only [normStart, normEnd, outShift]; grind (splits := 80))

theorem std_mpr_nnnn (rows cols : Int) (ai oi : Bool) (a b c d : Int)
    (h1 : normStart none rows ai = some (a + outShift oi)) (h2 : normEnd none rows ai = some (b + outShift oi))
    (h3 : normStart none cols ai = some (c + outShift oi)) (h4 : normEnd none cols ai = some (d + outShift oi)) :
    stdRowColIndices none none none none rows cols ai oi = .ok (a, b, c, d) := by
  simp only [normStart, normEnd, outShift] at h1 h2 h3 h4
  simp only [stdRowColIndices]
  grind (splits := 80)

theorem std_err_nnnn (rows cols : Int) (ai oi : Bool) (e : ErrKind)
    (h : stdRowColIndices none none none none rows cols ai oi = .error e) : e = .value := by
  simp only [stdRowColIndices] at h
  grind (splits := 80)

theorem std_mp_nnns (rows cols : Int) (ai oi : Bool) (a b c d : Int) {ce : Int}
    (h : stdRowColIndices none none none (some ce) rows cols ai oi = .ok (a, b, c, d)) :
    normStart none rows ai = some (a + outShift oi) ∧ normEnd none rows ai = some (b + outShift oi) ∧
    normStart none cols ai = some (c + outShift oi) ∧ normEnd (some ce) cols ai = some (d + outShift oi) := by
  simp only [stdRowColIndices] at h
  refine ⟨?_, ?_, ?_, ?_⟩ <;> (simp only [normStart, normEnd, outShift]; grind (splits := 80))

theorem std_mpr_nnns (rows cols : Int) (ai oi : Bool) (a b c d : Int) {ce : Int}
    (h1 : normStart none rows ai = some (a + outShift oi)) (h2 : normEnd none rows ai = some (b + outShift oi))
    (h3 : normStart none cols ai = some (c + outShift oi)) (h4 : normEnd (some ce) cols ai = some (d + outShift oi)) :
    stdRowColIndices none none none (some ce) rows cols ai oi = .ok (a, b, c, d) := by
  simp only [normStart, normEnd, outShift] at h1 h2 h3 h4
  simp only [stdRowColIndices]
  grind (splits := 80)

theorem std_err_nnns (rows cols : Int) (ai oi : Bool) (e : ErrKind) {ce : Int}
    (h : stdRowColIndices none none none (some ce) rows cols ai oi = .error e) : e = .value := by
  simp only [stdRowColIndices] at h
  grind (splits := 80)

theorem std_mp_nnsn (rows cols : Int) (ai oi : Bool) (a b c d : Int) {cs : Int}
    (h : stdRowColIndices none none (some cs) none rows cols ai oi = .ok (a, b, c, d)) :
    normStart none rows ai = some (a + outShift oi) ∧ normEnd none rows ai = some (b + outShift oi) ∧
    normStart (some cs) cols ai = some (c + outShift oi) ∧ normEnd none cols ai = some (d + outShift oi) := by
  simp only [stdRowColIndices] at h
  refine ⟨?_, ?_, ?_, ?_⟩ <;> (simp only [normStart, normEnd, outShift]; grind (splits := 80))

theorem std_mpr_nnsn (rows cols : Int) (ai oi : Bool) (a b c d : Int) {cs : Int}
    (h1 : normStart none rows ai = some (a + outShift oi)) (h2 : normEnd none rows ai = some (b + outShift oi))
    (h3 : normStart (some cs) cols ai = some (c + outShift oi)) (h4 : normEnd none cols ai = some (d + outShift oi)) :
    stdRowColIndices none none (some cs) none rows cols ai oi = .ok (a, b, c, d) := by
  simp only [normStart, normEnd, outShift] at h1 h2 h3 h4
  simp only [stdRowColIndices]
  grind (splits := 80)

theorem std_err_nnsn (rows cols : Int) (ai oi : Bool) (e : ErrKind) {cs : Int}
    (h : stdRowColIndices none none (some cs) none rows cols ai oi = .error e) : e = .value := by
  simp only [stdRowColIndices] at h
  grind (splits := 80)

theorem std_mp_nnss (rows cols : Int) (ai oi : Bool) (a b c d : Int) {cs ce : Int}
    (h : stdRowColIndices none none (some cs) (some ce) rows cols ai oi = .ok (a, b, c, d)) :
    normStart none rows ai = some (a + outShift oi) ∧ normEnd none rows ai = some (b + outShift oi) ∧
    normStart (some cs) cols ai = some (c + outShift oi) ∧ normEnd (some ce) cols ai = some (d + outShift oi) := by
  simp only [stdRowColIndices] at h
  refine ⟨?_, ?_, ?_, ?_⟩ <;> (simp only [normStart, normEnd, outShift]; grind (splits := 80))

theorem std_mpr_nnss (rows cols : Int) (ai oi : Bool) (a b c d : Int) {cs ce : Int}
    (h1 : normStart none rows ai = some (a + outShift oi)) (h2 : normEnd none rows ai = some (b + outShift oi))
    (h3 : normStart (some cs) cols ai = some (c + outShift oi)) (h4 : normEnd (some ce) cols ai = some (d + outShift oi)) :
    stdRowColIndices none none (some cs) (some ce) rows cols ai oi = .ok (a, b, c, d) := by
  simp only [normStart, normEnd, outShift] at h1 h2 h3 h4
  simp only [stdRowColIndices]
  grind (splits := 80)

theorem std_err_nnss (rows cols : Int) (ai oi : Bool) (e : ErrKind) {cs ce : Int}
    (h : stdRowColIndices none none (some cs) (some ce) rows cols ai oi = .error e) : e = .value := by
  simp only [stdRowColIndices] at h
  grind (splits := 80)

theorem std_mp_nsnn (rows cols : Int) (ai oi : Bool) (a b c d : Int) {re : Int}
    (h : stdRowColIndices none (some re) none none rows cols ai oi = .ok (a, b, c, d)) :
    normStart none rows ai = some (a + outShift oi) ∧ normEnd (some re) rows ai = some (b + outShift oi) ∧
    normStart none cols ai = some (c + outShift oi) ∧ normEnd none cols ai = some (d + outShift oi) := by
  simp only [stdRowColIndices] at h
  refine ⟨?_, ?_, ?_, ?_⟩ <;> (simp only [normStart, normEnd, outShift]; grind (splits := 80))

theorem std_mpr_nsnn (rows cols : Int) (ai oi : Bool) (a b c d : Int) {re : Int}
    (h1 : normStart none rows ai = some (a + outShift oi)) (h2 : normEnd (some re) rows ai = some (b + outShift oi))
    (h3 : normStart none cols ai = some (c + outShift oi)) (h4 : normEnd none cols ai = some (d + outShift oi)) :
    stdRowColIndices none (some re) none none rows cols ai oi = .ok (a, b, c, d) := by
  simp only [normStart, normEnd, outShift] at h1 h2 h3 h4
  simp only [stdRowColIndices]
  grind (splits := 80)

theorem std_err_nsnn (rows cols : Int) (ai oi : Bool) (e : ErrKind) {re : Int}
    (h : stdRowColIndices none (some re) none none rows cols ai oi = .error e) : e = .value := by
  simp only [stdRowColIndices] at h
  grind (splits := 80)

theorem std_mp_nsns (rows cols : Int) (ai oi : Bool) (a b c d : Int) {re ce : Int}
    (h : stdRowColIndices none (some re) none (some ce) rows cols ai oi = .ok (a, b, c, d)) :
    normStart none rows ai = some (a + outShift oi) ∧ normEnd (some re) rows ai = some (b + outShift oi) ∧
    normStart none cols ai = some (c + outShift oi) ∧ normEnd (some ce) cols ai = some (d + outShift oi) := by
  simp only [stdRowColIndices] at h
  refine ⟨?_, ?_, ?_, ?_⟩ <;> (simp only [normStart, normEnd, outShift]; grind (splits := 80))

theorem std_mpr_nsns (rows cols : Int) (ai oi : Bool) (a b c d : Int) {re ce : Int}
    (h1 : normStart none rows ai = some (a + outShift oi)) (h2 : normEnd (some re) rows ai = some (b + outShift oi))
    (h3 : normStart none cols ai = some (c + outShift oi)) (h4 : normEnd (some ce) cols ai = some (d + outShift oi)) :
    stdRowColIndices none (some re) none (some ce) rows cols ai oi = .ok (a, b, c, d) := by
  simp only [normStart, normEnd, outShift] at h1 h2 h3 h4
  simp only [stdRowColIndices]
  grind (splits := 80)

theorem std_err_nsns (rows cols : Int) (ai oi : Bool) (e : ErrKind) {re ce : Int}
    (h : stdRowColIndices none (some re) none (some ce) rows cols ai oi = .error e) : e = .value := by
  simp only [stdRowColIndices] at h
  grind (splits := 80)

theorem std_mp_nssn (rows cols : Int) (ai oi : Bool) (a b c d : Int) {re cs : Int}
    (h : stdRowColIndices none (some re) (some cs) none rows cols ai oi = .ok (a, b, c, d)) :
    normStart none rows ai = some (a + outShift oi) ∧ normEnd (some re) rows ai = some (b + outShift oi) ∧
    normStart (some cs) cols ai = some (c + outShift oi) ∧ normEnd none cols ai = some (d + outShift oi) := by
  simp only [stdRowColIndices] at h
  refine ⟨?_, ?_, ?_, ?_⟩ <;> (simp only [normStart, normEnd, outShift]; grind (splits := 80))

theorem std_mpr_nssn (rows cols : Int) (ai oi : Bool) (a b c d : Int) {re cs : Int}
    (h1 : normStart none rows ai = some (a + outShift oi)) (h2 : normEnd (some re) rows ai = some (b + outShift oi))
    (h3 : normStart (some cs) cols ai = some (c + outShift oi)) (h4 : normEnd none cols ai = some (d + outShift oi)) :
    stdRowColIndices none (some re) (some cs) none rows cols ai oi = .ok (a, b, c, d) := by
  simp only [normStart, normEnd, outShift] at h1 h2 h3 h4
  simp only [stdRowColIndices]
  grind (splits := 80)

theorem std_err_nssn (rows cols : Int) (ai oi : Bool) (e : ErrKind) {re cs : Int}
    (h : stdRowColIndices none (some re) (some cs) none rows cols ai oi = .error e) : e = .value := by
  simp only [stdRowColIndices] at h
  grind (splits := 80)

theorem std_mp_nsss (rows cols : Int) (ai oi : Bool) (a b c d : Int) {re cs ce : Int}
    (h : stdRowColIndices none (some re) (some cs) (some ce) rows cols ai oi = .ok (a, b, c, d)) :
    normStart none rows ai = some (a + outShift oi) ∧ normEnd (some re) rows ai = some (b + outShift oi) ∧
    normStart (some cs) cols ai = some (c + outShift oi) ∧ normEnd (some ce) cols ai = some (d + outShift oi) := by
  simp only [stdRowColIndices] at h
  refine ⟨?_, ?_, ?_, ?_⟩ <;> (simp only [normStart, normEnd, outShift]; grind (splits := 80))

theorem std_mpr_nsss (rows cols : Int) (ai oi : Bool) (a b c d : Int) {re cs ce : Int}
    (h1 : normStart none rows ai = some (a + outShift oi)) (h2 : normEnd (some re) rows ai = some (b + outShift oi))
    (h3 : normStart (some cs) cols ai = some (c + outShift oi)) (h4 : normEnd (some ce) cols ai = some (d + outShift oi)) :
    stdRowColIndices none (some re) (some cs) (some ce) rows cols ai oi = .ok (a, b, c, d) := by
  simp only [normStart, normEnd, outShift] at h1 h2 h3 h4
  simp only [stdRowColIndices]
  grind (splits := 80)

theorem std_err_nsss (rows cols : Int) (ai oi : Bool) (e : ErrKind) {re cs ce : Int}
    (h : stdRowColIndices none (some re) (some cs) (some ce) rows cols ai oi = .error e) : e = .value := by
  simp only [stdRowColIndices] at h
  grind (splits := 80)

theorem std_mp_snnn (rows cols : Int) (ai oi : Bool) (a b c d : Int) {rs : Int}
    (h : stdRowColIndices (some rs) none none none rows cols ai oi = .ok (a, b, c, d)) :
    normStart (some rs) rows ai = some (a + outShift oi) ∧ normEnd none rows ai = some (b + outShift oi) ∧
    normStart none cols ai = some (c + outShift oi) ∧ normEnd none cols ai = some (d + outShift oi) := by
  simp only [stdRowColIndices] at h
  refine ⟨?_, ?_, ?_, ?_⟩ <;> (simp only [normStart, normEnd, outShift]; grind (splits := 80))

theorem std_mpr_snnn (rows cols : Int) (ai oi : Bool) (a b c d : Int) {rs : Int}
    (h1 : normStart (some rs) rows ai = some (a + outShift oi)) (h2 : normEnd none rows ai = some (b + outShift oi))
    (h3 : normStart none cols ai = some (c + outShift oi)) (h4 : normEnd none cols ai = some (d + outShift oi)) :
    stdRowColIndices (some rs) none none none rows cols ai oi = .ok (a, b, c, d) := by
  simp only [normStart, normEnd, outShift] at h1 h2 h3 h4
  simp only [stdRowColIndices]
  grind (splits := 80)

theorem std_err_snnn (rows cols : Int) (ai oi : Bool) (e : ErrKind) {rs : Int}
    (h : stdRowColIndices (some rs) none none none rows cols ai oi = .error e) : e = .value := by
  simp only [stdRowColIndices] at h
  grind (splits := 80)

theorem std_mp_snns (rows cols : Int) (ai oi : Bool) (a b c d : Int) {rs ce : Int}
    (h : stdRowColIndices (some rs) none none (some ce) rows cols ai oi = .ok (a, b, c, d)) :
    normStart (some rs) rows ai = some (a + outShift oi) ∧ normEnd none rows ai = some (b + outShift oi) ∧
    normStart none cols ai = some (c + outShift oi) ∧ normEnd (some ce) cols ai = some (d + outShift oi) := by
  simp only [stdRowColIndices] at h
  refine ⟨?_, ?_, ?_, ?_⟩ <;> (simp only [normStart, normEnd, outShift]; grind (splits := 80))

theorem std_mpr_snns (rows cols : Int) (ai oi : Bool) (a b c d : Int) {rs ce : Int}
    (h1 : normStart (some rs) rows ai = some (a + outShift oi)) (h2 : normEnd none rows ai = some (b + outShift oi))
    (h3 : normStart none cols ai = some (c + outShift oi)) (h4 : normEnd (some ce) cols ai = some (d + outShift oi)) :
    stdRowColIndices (some rs) none none (some ce) rows cols ai oi = .ok (a, b, c, d) := by
  simp only [normStart, normEnd, outShift] at h1 h2 h3 h4
  simp only [stdRowColIndices]
  grind (splits := 80)

theorem std_err_snns (rows cols : Int) (ai oi : Bool) (e : ErrKind) {rs ce : Int}
    (h : stdRowColIndices (some rs) none none (some ce) rows cols ai oi = .error e) : e = .value := by
  simp only [stdRowColIndices] at h
  grind (splits := 80)

theorem std_mp_snsn (rows cols : Int) (ai oi : Bool) (a b c d : Int) {rs cs : Int}
    (h : stdRowColIndices (some rs) none (some cs) none rows cols ai oi = .ok (a, b, c, d)) :
    normStart (some rs) rows ai = some (a + outShift oi) ∧ normEnd none rows ai = some (b + outShift oi) ∧
    normStart (some cs) cols ai = some (c + outShift oi) ∧ normEnd none cols ai = some (d + outShift oi) := by
  simp only [stdRowColIndices] at h
  refine ⟨?_, ?_, ?_, ?_⟩ <;> (simp only [normStart, normEnd, outShift]; grind (splits := 80))

theorem std_mpr_snsn (rows cols : Int) (ai oi : Bool) (a b c d : Int) {rs cs : Int}
    (h1 : normStart (some rs) rows ai = some (a + outShift oi)) (h2 : normEnd none rows ai = some (b + outShift oi))
    (h3 : normStart (some cs) cols ai = some (c + outShift oi)) (h4 : normEnd none cols ai = some (d + outShift oi)) :
    stdRowColIndices (some rs) none (some cs) none rows cols ai oi = .ok (a, b, c, d) := by
  simp only [normStart, normEnd, outShift] at h1 h2 h3 h4
  simp only [stdRowColIndices]
  grind (splits := 80)

theorem std_err_snsn (rows cols : Int) (ai oi : Bool) (e : ErrKind) {rs cs : Int}
    (h : stdRowColIndices (some rs) none (some cs) none rows cols ai oi = .error e) : e = .value := by
  simp only [stdRowColIndices] at h
  grind (splits := 80)

theorem std_mp_snss (rows cols : Int) (ai oi : Bool) (a b c d : Int) {rs cs ce : Int}
    (h : stdRowColIndices (some rs) none (some cs) (some ce) rows cols ai oi = .ok (a, b, c, d)) :
    normStart (some rs) rows ai = some (a + outShift oi) ∧ normEnd none rows ai = some (b + outShift oi) ∧
    normStart (some cs) cols ai = some (c + outShift oi) ∧ normEnd (some ce) cols ai = some (d + outShift oi) := by
  simp only [stdRowColIndices] at h
  refine ⟨?_, ?_, ?_, ?_⟩ <;> (simp only [normStart, normEnd, outShift]; grind (splits := 80))

theorem std_mpr_snss (rows cols : Int) (ai oi : Bool) (a b c d : Int) {rs cs ce : Int}
    (h1 : normStart (some rs) rows ai = some (a + outShift oi)) (h2 : normEnd none rows ai = some (b + outShift oi))
    (h3 : normStart (some cs) cols ai = some (c + outShift oi)) (h4 : normEnd (some ce) cols ai = some (d + outShift oi)) :
    stdRowColIndices (some rs) none (some cs) (some ce) rows cols ai oi = .ok (a, b, c, d) := by
  simp only [normStart, normEnd, outShift] at h1 h2 h3 h4
  simp only [stdRowColIndices]
  grind (splits := 80)

theorem std_err_snss (rows cols : Int) (ai oi : Bool) (e : ErrKind) {rs cs ce : Int}
    (h : stdRowColIndices (some rs) none (some cs) (some ce) rows cols ai oi = .error e) : e = .value := by
  simp only [stdRowColIndices] at h
  grind (splits := 80)

theorem std_mp_ssnn (rows cols : Int) (ai oi : Bool) (a b c d : Int) {rs re : Int}
    (h : stdRowColIndices (some rs) (some re) none none rows cols ai oi = .ok (a, b, c, d)) :
    normStart (some rs) rows ai = some (a + outShift oi) ∧ normEnd (some re) rows ai = some (b + outShift oi) ∧
    normStart none cols ai = some (c + outShift oi) ∧ normEnd none cols ai = some (d + outShift oi) := by
  simp only [stdRowColIndices] at h
  refine ⟨?_, ?_, ?_, ?_⟩ <;> (simp only [normStart, normEnd, outShift]; grind (splits := 80))

theorem std_mpr_ssnn (rows cols : Int) (ai oi : Bool) (a b c d : Int) {rs re : Int}
    (h1 : normStart (some rs) rows ai = some (a + outShift oi)) (h2 : normEnd (some re) rows ai = some (b + outShift oi))
    (h3 : normStart none cols ai = some (c + outShift oi)) (h4 : normEnd none cols ai = some (d + outShift oi)) :
    stdRowColIndices (some rs) (some re) none none rows cols ai oi = .ok (a, b, c, d) := by
  simp only [normStart, normEnd, outShift] at h1 h2 h3 h4
  simp only [stdRowColIndices]
  grind (splits := 80)

theorem std_err_ssnn (rows cols : Int) (ai oi : Bool) (e : ErrKind) {rs re : Int}
    (h : stdRowColIndices (some rs) (some re) none none rows cols ai oi = .error e) : e = .value := by
  simp only [stdRowColIndices] at h
  grind (splits := 80)

theorem std_mp_ssns (rows cols : Int) (ai oi : Bool) (a b c d : Int) {rs re ce : Int}
    (h : stdRowColIndices (some rs) (some re) none (some ce) rows cols ai oi = .ok (a, b, c, d)) :
    normStart (some rs) rows ai = some (a + outShift oi) ∧ normEnd (some re) rows ai = some (b + outShift oi) ∧
    normStart none cols ai = some (c + outShift oi) ∧ normEnd (some ce) cols ai = some (d + outShift oi) := by
  simp only [stdRowColIndices] at h
  refine ⟨?_, ?_, ?_, ?_⟩ <;> (simp only [normStart, normEnd, outShift]; grind (splits := 80))

theorem std_mpr_ssns (rows cols : Int) (ai oi : Bool) (a b c d : Int) {rs re ce : Int}
    (h1 : normStart (some rs) rows ai = some (a + outShift oi)) (h2 : normEnd (some re) rows ai = some (b + outShift oi))
    (h3 : normStart none cols ai = some (c + outShift oi)) (h4 : normEnd (some ce) cols ai = some (d + outShift oi)) :
    stdRowColIndices (some rs) (some re) none (some ce) rows cols ai oi = .ok (a, b, c, d) := by
  simp only [normStart, normEnd, outShift] at h1 h2 h3 h4
  simp only [stdRowColIndices]
  grind (splits := 80)

theorem std_err_ssns (rows cols : Int) (ai oi : Bool) (e : ErrKind) {rs re ce : Int}
    (h : stdRowColIndices (some rs) (some re) none (some ce) rows cols ai oi = .error e) : e = .value := by
  simp only [stdRowColIndices] at h
  grind (splits := 80)

theorem std_mp_sssn (rows cols : Int) (ai oi : Bool) (a b c d : Int) {rs re cs : Int}
    (h : stdRowColIndices (some rs) (some re) (some cs) none rows cols ai oi = .ok (a, b, c, d)) :
    normStart (some rs) rows ai = some (a + outShift oi) ∧ normEnd (some re) rows ai = some (b + outShift oi) ∧
    normStart (some cs) cols ai = some (c + outShift oi) ∧ normEnd none cols ai = some (d + outShift oi) := by
  simp only [stdRowColIndices] at h
  refine ⟨?_, ?_, ?_, ?_⟩ <;> (simp only [normStart, normEnd, outShift]; grind (splits := 80))

theorem std_mpr_sssn (rows cols : Int) (ai oi : Bool) (a b c d : Int) {rs re cs : Int}
    (h1 : normStart (some rs) rows ai = some (a + outShift oi)) (h2 : normEnd (some re) rows ai = some (b + outShift oi))
    (h3 : normStart (some cs) cols ai = some (c + outShift oi)) (h4 : normEnd none cols ai = some (d + outShift oi)) :
    stdRowColIndices (some rs) (some re) (some cs) none rows cols ai oi = .ok (a, b, c, d) := by
  simp only [normStart, normEnd, outShift] at h1 h2 h3 h4
  simp only [stdRowColIndices]
  grind (splits := 80)

theorem std_err_sssn (rows cols : Int) (ai oi : Bool) (e : ErrKind) {rs re cs : Int}
    (h : stdRowColIndices (some rs) (some re) (some cs) none rows cols ai oi = .error e) : e = .value := by
  simp only [stdRowColIndices] at h
  grind (splits := 80)

theorem std_mp_ssss (rows cols : Int) (ai oi : Bool) (a b c d : Int) {rs re cs ce : Int}
    (h : stdRowColIndices (some rs) (some re) (some cs) (some ce) rows cols ai oi = .ok (a, b, c, d)) :
    normStart (some rs) rows ai = some (a + outShift oi) ∧ normEnd (some re) rows ai = some (b + outShift oi) ∧
    normStart (some cs) cols ai = some (c + outShift oi) ∧ normEnd (some ce) cols ai = some (d + outShift oi) := by
  simp only [stdRowColIndices] at h
  refine ⟨?_, ?_, ?_, ?_⟩ <;> (simp only [normStart, normEnd, outShift]; grind (splits := 80))

theorem std_mpr_ssss (rows cols : Int) (ai oi : Bool) (a b c d : Int) {rs re cs ce : Int}
    (h1 : normStart (some rs) rows ai = some (a + outShift oi)) (h2 : normEnd (some re) rows ai = some (b + outShift oi))
    (h3 : normStart (some cs) cols ai = some (c + outShift oi)) (h4 : normEnd (some ce) cols ai = some (d + outShift oi)) :
    stdRowColIndices (some rs) (some re) (some cs) (some ce) rows cols ai oi = .ok (a, b, c, d) := by
  simp only [normStart, normEnd, outShift] at h1 h2 h3 h4
  simp only [stdRowColIndices]
  grind (splits := 80)

theorem std_err_ssss (rows cols : Int) (ai oi : Bool) (e : ErrKind) {rs re cs ce : Int}
    (h : stdRowColIndices (some rs) (some re) (some cs) (some ce) rows cols ai oi = .error e) : e = .value := by
  simp only [stdRowColIndices] at h
  grind (splits := 80)

/-- **Specification of the translated normalisation**: a request is accepted iff each of its four arguments
denotes a row / column of the matrix, and the result is what the arguments denote (shifted to 0-based when
`outputs_as_indices`). -/
theorem stdRowCol_ok_iff (rs re cs ce : Option Int) (rows cols : Int) (ai oi : Bool) (a b c d : Int) :
    stdRowColIndices rs re cs ce rows cols ai oi = .ok (a, b, c, d) ↔
    (normStart rs rows ai = some (a + outShift oi) ∧ normEnd re rows ai = some (b + outShift oi) ∧
     normStart cs cols ai = some (c + outShift oi) ∧ normEnd ce cols ai = some (d + outShift oi)) := by
  cases rs <;> cases re <;> cases cs <;> cases ce
  · exact ⟨std_mp_nnnn rows cols ai oi a b c d,
      fun h => std_mpr_nnnn rows cols ai oi a b c d h.1 h.2.1 h.2.2.1 h.2.2.2⟩
  · exact ⟨std_mp_nnns rows cols ai oi a b c d,
      fun h => std_mpr_nnns rows cols ai oi a b c d h.1 h.2.1 h.2.2.1 h.2.2.2⟩
  · exact ⟨std_mp_nnsn rows cols ai oi a b c d,
      fun h => std_mpr_nnsn rows cols ai oi a b c d h.1 h.2.1 h.2.2.1 h.2.2.2⟩
  · exact ⟨std_mp_nnss rows cols ai oi a b c d,
      fun h => std_mpr_nnss rows cols ai oi a b c d h.1 h.2.1 h.2.2.1 h.2.2.2⟩
  · exact ⟨std_mp_nsnn rows cols ai oi a b c d,
      fun h => std_mpr_nsnn rows cols ai oi a b c d h.1 h.2.1 h.2.2.1 h.2.2.2⟩
  · exact ⟨std_mp_nsns rows cols ai oi a b c d,
      fun h => std_mpr_nsns rows cols ai oi a b c d h.1 h.2.1 h.2.2.1 h.2.2.2⟩
  · exact ⟨std_mp_nssn rows cols ai oi a b c d,
      fun h => std_mpr_nssn rows cols ai oi a b c d h.1 h.2.1 h.2.2.1 h.2.2.2⟩
  · exact ⟨std_mp_nsss rows cols ai oi a b c d,
      fun h => std_mpr_nsss rows cols ai oi a b c d h.1 h.2.1 h.2.2.1 h.2.2.2⟩
  · exact ⟨std_mp_snnn rows cols ai oi a b c d,
      fun h => std_mpr_snnn rows cols ai oi a b c d h.1 h.2.1 h.2.2.1 h.2.2.2⟩
  · exact ⟨std_mp_snns rows cols ai oi a b c d,
      fun h => std_mpr_snns rows cols ai oi a b c d h.1 h.2.1 h.2.2.1 h.2.2.2⟩
  · exact ⟨std_mp_snsn rows cols ai oi a b c d,
      fun h => std_mpr_snsn rows cols ai oi a b c d h.1 h.2.1 h.2.2.1 h.2.2.2⟩
  · exact ⟨std_mp_snss rows cols ai oi a b c d,
      fun h => std_mpr_snss rows cols ai oi a b c d h.1 h.2.1 h.2.2.1 h.2.2.2⟩
  · exact ⟨std_mp_ssnn rows cols ai oi a b c d,
      fun h => std_mpr_ssnn rows cols ai oi a b c d h.1 h.2.1 h.2.2.1 h.2.2.2⟩
  · exact ⟨std_mp_ssns rows cols ai oi a b c d,
      fun h => std_mpr_ssns rows cols ai oi a b c d h.1 h.2.1 h.2.2.1 h.2.2.2⟩
  · exact ⟨std_mp_sssn rows cols ai oi a b c d,
      fun h => std_mpr_sssn rows cols ai oi a b c d h.1 h.2.1 h.2.2.1 h.2.2.2⟩
  · exact ⟨std_mp_ssss rows cols ai oi a b c d,
      fun h => std_mpr_ssss rows cols ai oi a b c d h.1 h.2.1 h.2.2.1 h.2.2.2⟩

/-- every refusal of the normalisation is a `ValueError` -/
theorem stdRowCol_error_kind (rs re cs ce : Option Int) (rows cols : Int) (ai oi : Bool) (e : ErrKind)
    (h : stdRowColIndices rs re cs ce rows cols ai oi = .error e) : e = .value := by
  cases rs <;> cases re <;> cases cs <;> cases ce
  · exact std_err_nnnn rows cols ai oi e h
  · exact std_err_nnns rows cols ai oi e h
  · exact std_err_nnsn rows cols ai oi e h
  · exact std_err_nnss rows cols ai oi e h
  · exact std_err_nsnn rows cols ai oi e h
  · exact std_err_nsns rows cols ai oi e h
  · exact std_err_nssn rows cols ai oi e h
  · exact std_err_nsss rows cols ai oi e h
  · exact std_err_snnn rows cols ai oi e h
  · exact std_err_snns rows cols ai oi e h
  · exact std_err_snsn rows cols ai oi e h
  · exact std_err_snss rows cols ai oi e h
  · exact std_err_ssnn rows cols ai oi e h
  · exact std_err_ssns rows cols ai oi e h
  · exact std_err_sssn rows cols ai oi e h
  · exact std_err_ssss rows cols ai oi e h

/-- accepted, 1-based output: the region lies inside the matrix -/
theorem stdRowCol_range_num {rs re cs ce : Option Int} {rows cols : Int} {ai : Bool} {a b c d : Int}
    (h : stdRowColIndices rs re cs ce rows cols ai false = .ok (a, b, c, d)) :
    1 ≤ a ∧ a ≤ rows ∧ 1 ≤ b ∧ b ≤ rows + 1 ∧ 1 ≤ c ∧ c ≤ cols ∧ 1 ≤ d ∧ d ≤ cols + 1 := by
  obtain ⟨h1, h2, h3, h4⟩ := (stdRowCol_ok_iff rs re cs ce rows cols ai false a b c d).mp h
  have e : outShift false = 0 := rfl
  rw [e] at h1 h2 h3 h4
  have := normStart_range h1; have := normEnd_range h2; have := normStart_range h3; have := normEnd_range h4
  omega

/-- accepted, 0-based output: `0 ≤ start < n`, `0 ≤ end ≤ n` on both axes -/
theorem stdRowCol_range_idx {rs re cs ce : Option Int} {rows cols : Int} {ai : Bool} {a b c d : Int}
    (h : stdRowColIndices rs re cs ce rows cols ai true = .ok (a, b, c, d)) :
    0 ≤ a ∧ a < rows ∧ 0 ≤ b ∧ b ≤ rows ∧ 0 ≤ c ∧ c < cols ∧ 0 ≤ d ∧ d ≤ cols := by
  obtain ⟨h1, h2, h3, h4⟩ := (stdRowCol_ok_iff rs re cs ce rows cols ai true a b c d).mp h
  have e : outShift true = 1 := rfl
  rw [e] at h1 h2 h3 h4
  have := normStart_range h1; have := normEnd_range h2; have := normStart_range h3; have := normEnd_range h4
  omega

/-- the two output conventions differ by exactly one -/
theorem stdRowCol_idx_of_num {rs re cs ce : Option Int} {rows cols : Int} {ai : Bool} {a b c d : Int}
    (h : stdRowColIndices rs re cs ce rows cols ai false = .ok (a, b, c, d)) :
    stdRowColIndices rs re cs ce rows cols ai true = .ok (a - 1, b - 1, c - 1, d - 1) := by
  rw [stdRowCol_ok_iff] at h ⊢
  have e0 : outShift false = 0 := rfl
  have e1 : outShift true = 1 := rfl
  rw [e0] at h
  rw [e1]
  simpa using h

end HdVerif.TilingLemmas
