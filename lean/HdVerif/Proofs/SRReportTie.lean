import HdVerif.Model.SRReport
import HdVerif.Generated.T16h
import HdVerif.Generated.T16i
import HdVerif.Generated.T16j
/-! Bridges between hand-written definitions of `Model/SRReport.lean` and expressions extracted from the current source
(tie T): the kind test at the head of the query loops (T16j), one iteration of the ROI reference search (T16i), the
arguments every filter forwards to the search helpers (T16h).  The existing proofs are untouched; these are extra theorems
saying that the model's definitions use exactly the extracted expressions. -/
namespace HdVerif.SRReportTie
open HdVerif HdVerif.SRReport

/-! ## the kind test (`isKind`) is the head of the loop -/

/-- `c`, `s`: with a template identifier the head does not consult the content classification (whatever it would say),
without one it does not consult the identifier -/
theorem isKind_planar_is_source_head (g : Group) (c : Bool) (s : String) :
    isKind .planar g =
      match g.templateId with
      | some t => Gen.planarHead true t c
      | none =>
        match containsPlanar g with
        | .error e => .error e
        | .ok p => Gen.planarHead false s p := by
  unfold isKind Gen.planarHead
  cases g.templateId with
  | some t =>
    by_cases h : t = "1410"
    · subst h; simp [Kind.templateId]
    · have hb : (t == "1410") = false := beq_eq_false_iff_ne.mpr h
      simp [Kind.templateId, hb, h]
  | none =>
    simp only
    cases containsPlanar g with
    | error e => rfl
    | ok p => cases p <;> simp

theorem isKind_volumetric_is_source_head (g : Group) (c : Bool) (s : String) :
    isKind .volumetric g =
      match g.templateId with
      | some t => Gen.volumetricHead true t c
      | none =>
        match containsVolumetric g with
        | .error e => .error e
        | .ok v => Gen.volumetricHead false s v := by
  unfold isKind Gen.volumetricHead
  cases g.templateId with
  | some t =>
    by_cases h : t = "1411"
    · subst h; simp [Kind.templateId]
    · have hb : (t == "1411") = false := beq_eq_false_iff_ne.mpr h
      simp [Kind.templateId, hb, h]
  | none =>
    simp only
    cases containsVolumetric g with
    | error e => rfl
    | ok p => cases p <;> simp

theorem isKind_image_is_source_head (g : Group) (c1 c2 : Bool) (s : String) :
    isKind .image g =
      match g.templateId with
      | some t => Gen.imageHead true t c1 c2
      | none =>
        match containsPlanar g with
        | .error e => .error e
        | .ok p =>
          match containsVolumetric g with
          | .error e => .error e
          | .ok v => Gen.imageHead false s p v := by
  unfold isKind Gen.imageHead
  cases g.templateId with
  | some t =>
    by_cases h : t = "1501"
    · subst h; simp [Kind.templateId]
    · have hb : (t == "1501") = false := beq_eq_false_iff_ne.mpr h
      simp [Kind.templateId, hb, h]
  | none =>
    simp only
    cases containsPlanar g with
    | error e => rfl
    | ok p =>
      cases containsVolumetric g with
      | error e => rfl
      | ok v => cases p <;> cases v <;> simp

/-! ## the ROI reference search (`roiRefLoop`) is the iteration of the extracted step -/

/-- One iteration of the model's loop is the step extracted from `_get_roi_reference_items`: skipped / appended (the first
appended item names the reference type) / RuntimeError, decided by the source's own tests in the source's order.
`vts` is the table row of the item's name (`Covered`: every allowed name has one, so the KeyError arm is dead). -/
theorem roiRefLoop_cons (allowed : List String) (it : GItem) (rest : List GItem) (rt : Option String) (acc : List GItem)
    (vts : List String) (hlk : Gen.refTypeValueTypes.lookup it.name = some vts) :
    roiRefLoop allowed (it :: rest) rt acc =
      match Gen.roiRefStep it.rel (allowed.contains it.name) (vts.contains it.vt) rt.isSome (rt == some it.name) (rt.getD "") with
      | .error e => .error e
      | .ok true => roiRefLoop allowed rest (some (rt.getD it.name)) (acc ++ [it])
      | .ok false => roiRefLoop allowed rest rt acc := by
  conv => lhs; rw [roiRefLoop.eq_def]
  simp only
  unfold Gen.roiRefStep
  by_cases hrel : it.rel = "CONTAINS"
  · have h0 : (it.rel != "CONTAINS") = false := by simp [hrel]
    simp only [h0, Bool.false_eq_true, if_false, Bool.not_false, Bool.true_and]
    cases ha : allowed.contains it.name
    · simp
    · simp only [if_true, hlk, Bool.true_and]
      cases hv : vts.contains it.vt
      · simp
      · simp only [if_true, Bool.true_and]
        cases rt with
        | none => simp
        | some t =>
          by_cases hn : it.name = t
          · subst hn
            by_cases h1 : it.name = cImageRegion
            · simp [h1, cImageRegion, cVolumeSurface]
            · by_cases h2 : it.name = cVolumeSurface
              · simp [h2, cImageRegion, cVolumeSurface]
              · have e1 : (it.name != cImageRegion) = true := by simp [h1]
                have e2 : (it.name != cVolumeSurface) = true := by simp [h2]
                have e1' : (it.name != "111030|DCM") = true := e1
                have e2' : (it.name != "121231|DCM") = true := e2
                simp [e1, e2, e1', e2']
          · have hb : (it.name != t) = true := by simp [hn]
            have hb' : (some t == some it.name) = false := by
              apply beq_eq_false_iff_ne.mpr
              intro e; exact hn (Option.some.inj e).symm
            simp [hb, hb']
  · have h0 : (it.rel != "CONTAINS") = true := by simp [hrel]
    simp [h0]

/-! ## the filters forward the source's arguments to the search helpers -/

/-- the searches of one query method, in source order: (helper, parent, concept name, value forwarded, relationship) -/
def callsOf (m : String) : List (String × String × String × String × String) :=
  (Gen.filterCalls.filter (fun r => r.1 == m)).map (fun r => r.2)

/-- the three common filters with the concept name and the relationship type of each search read from the table -/
def commonFrom (calls : List (String × String × String × String × String)) (g : Group) (f : Filters) : Option Bool :=
  match calls with
  | (h1, p1, n1, v1, r1) :: (h2, p2, n2, v2, r2) :: (h3, p3, n3, v3, r3) :: _ =>
    if h1 == "_contains_code_items" && p1 == "group_item" && v1 == "finding_type" &&
       h2 == "_contains_code_items" && p2 == "group_item" && v2 == "finding_site" &&
       h3 == "_contains_uidref_items" && p3 == "group_item" && v3 == "tracking_uid" then
      some ((match f.findingType with | none => true | some v => containsCode g n1 v r1) &&
            (match f.findingSite with | none => true | some v => containsCode g n2 v r2) &&
            (match f.trackingUid with | none => true | some v => containsUidref g n3 v r3))
    else none
  | _ => none

/-- a referenced-UID search with its arguments read from a table row: over the items of the group under a name, or over the
children of the reference item under any name -/
def imageSearchFrom (row : String × String × String × String × String) (g : Group) (it : GItem) (cls inst : Option String) :
    Option Bool :=
  if row.1 == "_contains_image_items" && row.2.2.2.1 == "uids" then
    if row.2.1 == "group_item" && row.2.2.1 != "" then some (containsImage g row.2.2.1 row.2.2.2.2 cls inst)
    else if row.2.1 == "ref_item" && row.2.2.1 == "" then
      some (it.kids.any (fun k => k.vt == "IMAGE" && k.rel == row.2.2.2.2 && refMatches k.ref cls inst))
    else none
  else none

def planarName := "get_planar_roi_measurement_groups"
def volumetricName := "get_volumetric_roi_measurement_groups"
def imageName := "get_image_measurement_groups"

theorem callsOf_planar : callsOf planarName =
    [("_contains_code_items", "group_item", cFinding, "finding_type", "CONTAINS"),
     ("_contains_code_items", "group_item", cFindingSite, "finding_site", "HAS CONCEPT MOD"),
     ("_contains_uidref_items", "group_item", cTrackingUid, "tracking_uid", "HAS OBS CONTEXT"),
     ("_contains_image_items", "ref_item", "", "uids", "SELECTED FROM"),
     ("_contains_image_items", "group_item", cSourceImageForSegmentation, "uids", "CONTAINS")] := by decide

theorem callsOf_volumetric : callsOf volumetricName =
    [("_contains_code_items", "group_item", cFinding, "finding_type", "CONTAINS"),
     ("_contains_code_items", "group_item", cFindingSite, "finding_site", "HAS CONCEPT MOD"),
     ("_contains_uidref_items", "group_item", cTrackingUid, "tracking_uid", "HAS OBS CONTEXT"),
     ("_contains_image_items", "ref_item", "", "uids", "SELECTED FROM"),
     ("_contains_image_items", "group_item", cSourceImageForSegmentation, "uids", "CONTAINS")] := by decide

theorem callsOf_image : callsOf imageName =
    [("_contains_code_items", "group_item", cFinding, "finding_type", "CONTAINS"),
     ("_contains_code_items", "group_item", cFindingSite, "finding_site", "HAS CONCEPT MOD"),
     ("_contains_uidref_items", "group_item", cTrackingUid, "tracking_uid", "HAS OBS CONTEXT"),
     ("_contains_image_items", "group_item", cSource, "uids", "CONTAINS")] := by decide

/-- **`commonMatches` forwards exactly the source's arguments** in all three queries: the concept name and the relationship
type of the finding-type, finding-site and tracking-UID search are the ones of the calls in the source. -/
theorem commonMatches_forwards_source_arguments (g : Group) (f : Filters) :
    commonFrom (callsOf planarName) g f = some (commonMatches g f) ∧
    commonFrom (callsOf volumetricName) g f = some (commonMatches g f) ∧
    commonFrom (callsOf imageName) g f = some (commonMatches g f) := by
  rw [callsOf_planar, callsOf_volumetric, callsOf_image]
  refine ⟨?_, ?_, ?_⟩ <;> simp only [commonFrom, commonMatches] <;>
    cases f.findingType <;> cases f.findingSite <;> cases f.trackingUid <;> rfl

/-- **The referenced-UID searches forward exactly the source's arguments**: source images of a region among its children
with relationship SELECTED FROM under any name; source images of a segment / segmentation frame among the items of the group
under "Source Image for Segmentation" with CONTAINS; source images of an image group under "Source" with CONTAINS. -/
theorem uid_searches_forward_source_arguments (g : Group) (it : GItem) (cls inst : Option String) :
    ((callsOf planarName).drop 3).map (fun r => imageSearchFrom r g it cls inst) =
      [some (kidsContainImage it cls inst), some (containsImage g cSourceImageForSegmentation "CONTAINS" cls inst)] ∧
    ((callsOf volumetricName).drop 3).map (fun r => imageSearchFrom r g it cls inst) =
      [some (kidsContainImage it cls inst), some (containsImage g cSourceImageForSegmentation "CONTAINS" cls inst)] ∧
    ((callsOf imageName).drop 3).map (fun r => imageSearchFrom r g it cls inst) =
      [some (containsImage g cSource "CONTAINS" cls inst)] := by
  rw [callsOf_planar, callsOf_volumetric, callsOf_image]
  refine ⟨?_, ?_, ?_⟩ <;>
    simp [imageSearchFrom, kidsContainImage, cSourceImageForSegmentation, cSource]

end HdVerif.SRReportTie
