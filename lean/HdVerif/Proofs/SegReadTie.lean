import HdVerif.Proofs.SegRead
import HdVerif.Generated.T8j
import HdVerif.Generated.T8k
import HdVerif.Generated.T8m
import HdVerif.Generated.T8n
import HdVerif.Proofs.Effects
/-! C02: the hand-written loops and tables of `Model/SegRead.lean` use exactly the expressions the current source
contains (regenerated as `Generated/T8j.lean`, `T8k.lean`, `T8m.lean` on every run).

* `combineStep` (the combination loop of `_get_pixels_by_seg_frame`) = the same step written with the regenerated
  per-pixel expressions only (`combineStepGen`): admissible FRACTIONAL values, divisor, overlap test, update.
* `remapValues` / the default `chanTable` = what `_get_segment_remap_values` and `_prepare_channel_tables` say; every
  read entry point hands the caller's options on unchanged (`forwarding`).
* `oneHot` = row `v` of the identity matrix of the regenerated size from the regenerated first column on; the rescaling
  tail of `stackRead` = the regenerated guard and divisor.

A change of one of these expressions in the source breaks the corresponding statement. -/
namespace HdVerif.SegReadTie
open HdVerif HdVerif.Gen HdVerif.SegRead HdVerif.SegReadLemmas

/-! ### generic -/

theorem mapM_id_ok {α} (l : List α) : (l.map (Except.ok (ε := ErrKind))).mapM id = .ok l := by
  rw [List.mapM_map]
  have := mapM_ok (fun x : α => (Except.ok x : Except ErrKind α)) id l (fun _ _ => rfl)
  simpa using this

theorem zipWith_ok {α β γ} (f : α → β → γ) (a : List α) (b : List β) :
    (List.zipWith (fun x y => (Except.ok (f x y) : Except ErrKind γ)) a b).mapM id = .ok (List.zipWith f a b) := by
  have : List.zipWith (fun x y => (Except.ok (f x y) : Except ErrKind γ)) a b = (List.zipWith f a b).map Except.ok := by
    rw [List.map_zipWith]
  rw [this, mapM_id_ok]

/-! ### the combination loop (T8j) -/

/-- one iteration of the combination loop written with the regenerated per-pixel expressions only; the reductions
(`.all()` over the frame's values, `np.any` over the pixels), the order test / test / update and the kinds of refusal
are what the builder of T8j checks in the source -/
def combineStepGen (ty : SegType) (mfv : Nat) (skip : Bool) (d : DType) (acc : List Int) (r : SFrame × Nat) :
    Except ErrKind (List Int) := do
  let pixValue := castVal d (r.2 : Int)
  let pix ← (if ty = .fractional then
      (if mfv = 0 then .error .other
       else match r.1.pix.mapM (fun (p : Nat) => combBinaryValue (p : Int) (mfv : Int)) with
         | .error e => .error e
         | .ok bs => if bs.all id then r.1.pix.mapM (fun (p : Nat) => combDivide (p : Int) (mfv : Int)) else .error .value)
    else .ok (natFrame r.1) : Except ErrKind (List Int))
  let ov ← (List.zipWith combOverlapAt pix acc).mapM id
  if !skip && ov.any id then .error .runtime
  else do
    let upd ← (List.zipWith (fun p o => combUpdateAt p pixValue o) pix acc).mapM id
    .ok (castFrame d upd)

theorem fdiv_nat (p m : Nat) : Int.fdiv (p : Int) (m : Int) = ((p / m : Nat) : Int) := by
  cases m with
  | zero => cases p <;> simp [Int.fdiv]
  | succ k =>
    rw [Int.fdiv_eq_ediv_of_nonneg _ (by omega)]
    rfl

/-- **the model's combination step is the regenerated one** -/
theorem combineStep_uses_source (ty : SegType) (mfv : Nat) (skip : Bool) (d : DType) (acc : List Int) (r : SFrame × Nat) :
    combineStep ty mfv skip d acc r = combineStepGen ty mfv skip d acc r := by
  unfold combineStep combineStepGen combOverlapAt combUpdateAt combBinaryValue combDivide
  have hb : r.1.pix.mapM (fun (p : Nat) => (Except.ok (((p : Int) == 0) || ((p : Int) == (mfv : Int))) : Except ErrKind Bool)) =
      .ok (r.1.pix.map fun (p : Nat) => ((p : Int) == 0) || ((p : Int) == (mfv : Int))) := mapM_ok _ _ _ (fun _ _ => rfl)
  have hd : r.1.pix.mapM (fun (p : Nat) => (Except.ok (Int.fdiv (p : Int) (mfv : Int)) : Except ErrKind Int)) =
      .ok (r.1.pix.map fun (p : Nat) => ((p / mfv : Nat) : Int)) := by
    rw [mapM_ok _ (fun (p : Nat) => Int.fdiv (p : Int) (mfv : Int)) _ (fun _ _ => rfl)]
    congr 1
    apply List.map_congr_left
    intro p _; exact fdiv_nat p mfv
  have hall : (r.1.pix.map fun (p : Nat) => ((p : Int) == 0) || ((p : Int) == (mfv : Int))).all id =
      r.1.pix.all (fun p => p == 0 || p == mfv) := by
    rw [List.all_map]
    apply List.all_congr rfl
    intro p
    simp only [Function.comp, id]
    have e0 : (((p : Nat) : Int) == 0) = (p == 0) := by
      by_cases h : p = 0
      · subst h; rfl
      · have h' : ¬ ((p : Int) = 0) := by omega
        rw [beq_eq_false_iff_ne.mpr h, beq_eq_false_iff_ne.mpr h']
    have e1 : (((p : Nat) : Int) == (mfv : Int)) = (p == mfv) := by
      by_cases h : p = mfv
      · subst h; simp
      · have h' : ¬ ((p : Int) = (mfv : Int)) := by omega
        rw [beq_eq_false_iff_ne.mpr h, beq_eq_false_iff_ne.mpr h']
    rw [e0, e1]
  simp only [hb, hd, hall, zipWith_ok, bind, Except.bind]

/-! ### how the request reaches the frame loop (T8k) -/

/-- **`remapValues` is `_get_segment_remap_values`** -/
theorem remapValues_uses_source (segs : List Nat) (combine relabel : Bool) :
    remapValues segs combine relabel =
      (match remapKind combine relabel (segs.length : Int) with
       | .ok (k, a, b) =>
         if k = 0 then none else if k = 1 then some (List.range' a.toNat (b - a).toNat) else some segs
       | .error _ => none) := by
  unfold remapValues remapKind
  cases combine <;> cases relabel <;> simp

/-- **the channel table without remapping numbers the channels as `_prepare_channel_tables` does**, and pairs the
output channel (first) with the requested segment (second) -/
theorem chanTable_default_uses_source (segs : List Nat) :
    chanTable segs none =
      (match defaultChannels (segs.length : Int) with
       | .ok (lo, hi) => (List.range' lo.toNat (hi - lo).toNat).zip segs
       | .error _ => []) := by
  unfold chanTable defaultChannels
  simp [List.range_eq_range']

/-- the caller's option named `p`, possibly wrapped for the callee -/
def forms (p : String) : List String := [p, "np.array(" ++ p ++ ")", "list(" ++ p ++ ")", "[" ++ p ++ "]"]

def forwardedNames : List String :=
  ["segment_numbers", "combine_segments", "relabel", "rescale_fractional", "skip_overlap_checks", "dtype",
   "remap_channel_indices", "channel_indices"]

/-- a row hands the option of the same name on -/
def rowOk (r : String × String × String) : Bool :=
  forwardedNames.any fun p =>
    (r.2.1 == "frames:" ++ p || r.2.1 == "remap:" ++ p || r.2.1 == "channel:" ++ p || r.2.1 == "iterate:" ++ p) &&
      (forms p).contains r.2.2

/-- **every read entry point hands the caller's options on unchanged** (to the frame loop, to
`_get_segment_remap_values`, to the channel table): the model's `read` passes the request through as it is -/
theorem forwarding_passes_options_unchanged : forwarding.all rowOk = true := by decide +kernel

/-- all five entry points are in the table -/
theorem forwarding_covers_entry_points :
    (["get_pixels_by_source_instance", "get_pixels_by_source_frame", "get_volume",
      "get_pixels_by_dimension_index_values", "get_total_pixel_matrix"].all fun e =>
        ["frames:relabel", "frames:combine_segments", "remap:relabel", "channel:segment_numbers"].all fun k =>
          forwarding.any fun r => r.1 == e && r.2.1 == k) = true := by decide +kernel

/-- the documented default of every read option (the docstrings of the five entry points say the same) -/
def documentedDefaults : List (String × String) :=
  [("segment_numbers", "None"), ("combine_segments", "False"), ("relabel", "False"), ("rescale_fractional", "True"),
   ("skip_overlap_checks", "False"), ("dtype", "None"), ("assert_missing_frames_are_empty", "False")]

/-- **an option left out means the same at every entry point**: every default in the five signatures is the documented
one (so the model's request, which always carries a value, is the call with the omitted options filled in) -/
theorem option_defaults_agree :
    optionDefaults.all (fun r => documentedDefaults.lookup r.2.1 == some r.2.2) = true ∧
    (["get_pixels_by_source_instance", "get_pixels_by_source_frame", "get_volume",
      "get_pixels_by_dimension_index_values", "get_total_pixel_matrix"].all fun e =>
        ["segment_numbers", "combine_segments", "relabel", "rescale_fractional", "skip_overlap_checks", "dtype"].all fun k =>
          optionDefaults.any fun r => r.1 == e && r.2.1 == k) = true := by
  constructor <;> decide +kernel

/-- **the list-valued accessors hand out new values**: by the alias analysis of `Model/Effects.lean` over the regenerated
tables of `segment_numbers`, `number_of_segments`, `get_segment_numbers`, `get_tracking_ids`,
`segmented_property_categories/types` (T8n), no returned value can refer to state kept on the object, and no statement
of these accessors writes to the object — a caller editing a returned list cannot change what the object reports -/
theorem accessors_return_new_values :
    Effects.pureProg [0] accessorEffects = true ∧
    (accessorResults.all fun n => !(Effects.mayAlias [0] accessorEffects).contains n) = true := by
  constructor <;> decide +kernel

/-! ### after the frames are read (T8m) -/

/-- **`oneHot` is row `v` of `np.eye(SIZE)` from column START on**, SIZE and START as in the source -/
theorem oneHot_uses_source (d : DType) (n : Nat) (v : Int) :
    oneHot d n v =
      (match oneHotShape (n : Int) with
       | .ok (size, start) =>
         let i := if v < 0 then v + size else v
         if i < 0 ∨ i ≥ size then .error .index
         else .ok (((List.range size.toNat).map fun (k : Nat) => castVal d (if i = (k : Int) then 1 else 0)).drop start.toNat)
       | .error e => .error e) := by
  unfold oneHot oneHotShape
  simp only []
  have e1 : ((n : Int) + 1).toNat = n + 1 := by omega
  have e2 : (1 : Int).toNat = 1 := rfl
  have e3 : (((n + 1 : Nat) : Int)) = (n : Int) + 1 := by push_cast; rfl
  rw [e1, e2, e3]
  have hdrop : ∀ g : Nat → Int, ((List.range (n + 1)).map g).drop 1 = (List.range' 1 n).map g := by
    intro g
    rw [← List.map_drop, List.range_eq_range', List.drop_range']
    simp
  rw [hdrop]
  by_cases h : (if v < 0 then v + ((n : Int) + 1) else v) < 0 ∨ (if v < 0 then v + ((n : Int) + 1) else v) > (n : Int)
  · have h' : (if v < 0 then v + ((n : Int) + 1) else v) < 0 ∨ (if v < 0 then v + ((n : Int) + 1) else v) ≥ (n : Int) + 1 := by
      rcases h with h | h
      · exact Or.inl h
      · exact Or.inr (by omega)
    simp only [h, h', ↓reduceIte]
  · have h' : ¬ ((if v < 0 then v + ((n : Int) + 1) else v) < 0 ∨ (if v < 0 then v + ((n : Int) + 1) else v) ≥ (n : Int) + 1) := by
      intro hh; apply h
      rcases hh with hh | hh
      · exact Or.inl hh
      · exact Or.inr (by omega)
    simp only [h, h', ↓reduceIte]

/-- the largest value of the frames read (the output array starts as zeros) -/
def flatMax (l : List Int) : Int := l.foldl max 0

theorem foldl_max_gt (l : List Int) (a m : Int) : (l.foldl max a > m) ↔ (a > m ∨ ∃ v ∈ l, v > m) := by
  induction l generalizing a with
  | nil => simp
  | cons b t ih =>
    rw [List.foldl_cons, ih]
    constructor
    · rintro (h | ⟨v, hv, h⟩)
      · by_cases ha : a > m
        · exact Or.inl ha
        · exact Or.inr ⟨b, by simp, by omega⟩
      · exact Or.inr ⟨v, by simp [hv], h⟩
    · rintro (h | ⟨v, hv, h⟩)
      · exact Or.inl (by omega)
      · rcases List.mem_cons.mp hv with rfl | hvt
        · exact Or.inl (by omega)
        · exact Or.inr ⟨v, hvt, h⟩

/-- **the rescaling tail of `stackRead` is the regenerated guard and divisor**: refusal iff the largest value read
exceeds MaximumFractionalValue (`out_array.max() > …`), else division by exactly that value -/
theorem rescale_tail_uses_source (mfv : Nat) (frames : List (List (List Int))) :
    (if frames.any (fun fr => fr.any (fun ch => ch.any (fun v => v > (mfv : Int)))) then (.error .runtime : Except ErrKind Nat)
     else .ok mfv) =
      (match rescaleGuard (flatMax (frames.flatten.flatten)) (mfv : Int) with
       | .ok dv => .ok dv.toNat
       | .error e => .error e) := by
  unfold rescaleGuard flatMax
  have hany : (frames.any (fun fr => fr.any (fun ch => ch.any (fun v => decide (v > (mfv : Int))))) = true) ↔
      (frames.flatten.flatten.foldl max 0 > (mfv : Int)) := by
    rw [foldl_max_gt]
    simp only [List.any_eq_true, decide_eq_true_eq, List.mem_flatten]
    constructor
    · rintro ⟨fr, hfr, ch, hch, v, hv, h⟩
      exact Or.inr ⟨v, ⟨ch, ⟨fr, hfr, hch⟩, hv⟩, h⟩
    · rintro (h | ⟨v, ⟨ch, ⟨fr, hfr, hch⟩, hv⟩, h⟩)
      · omega
      · exact ⟨fr, hfr, ch, hch, v, hv, h⟩
  by_cases h : frames.flatten.flatten.foldl max 0 > (mfv : Int)
  · have := hany.mpr h
    simp [this, h]
  · have : ¬ (frames.any (fun fr => fr.any (fun ch => ch.any (fun v => decide (v > (mfv : Int))))) = true) :=
      fun hh => h (hany.mp hh)
    simp [this, h]

end HdVerif.SegReadTie
