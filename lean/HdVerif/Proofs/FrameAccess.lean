import HdVerif.Model.FrameAccess
import HdVerif.Proofs.Bits
import HdVerif.Proofs.RatFloor
/-! Helper lemmas for C05 (and C01): the translated byte-range / bit-offset arithmetic in closed form. -/
namespace HdVerif.FrameAccessLemmas
open HdVerif HdVerif.Bits HdVerif.Gen HdVerif.FrameAccess

/-- Nat-level statement: the frame is recovered from the minimal byte range and bit offset -/
theorem extract_frame_nat (frames : List (List Bool)) (n : Nat) (hn : 0 < n)
    (hlen : ∀ f ∈ frames, f.length = n) (i : Nat) (hi : i < frames.length) :
    pySlice (unpack (pySlice (pack frames.flatten) ((i * n) / 8) (((i + 1) * n + 7) / 8)))
      ((i * n) % 8) ((i * n) % 8 + n) = frames[i] := by
  obtain ⟨pad, hup, _, _⟩ := unpack_pack frames.flatten
  have hL := flatten_length frames n hlen
  simp only [pySlice]
  rw [unpack_take, unpack_drop, hup]
  have h4 : (i+1) * n = i * n + n := Nat.succ_mul i n
  have h3 : (i + 1) * n ≤ frames.flatten.length := by
    rw [hL]; exact Nat.mul_le_mul_right n hi
  generalize hA : i * n = A at *
  generalize hB : (i + 1) * n = B at *
  generalize hbits : frames.flatten = bits at *
  have h1 : 8 * (A / 8) + A % 8 = A := Nat.div_add_mod A 8
  rw [List.drop_take, List.drop_drop, List.take_take, h1]
  have : min (A % 8 + n - A % 8) (8 * ((B + 7) / 8 - A / 8) - A % 8) = n := by omega
  rw [this, List.drop_append_of_le_length (by omega), List.take_append_of_le_length (by simp; omega)]
  subst hA hbits
  exact flatten_drop_take frames n hlen i hi

theorem rawFrameRange_bit (i n rows cols : Int) (hn : rows * cols = n) (hi : 0 ≤ i) :
    rawFrameRange i rows cols 1 1 "MONOCHROME2" = .ok ((i * n) / 8, ((i + 1) * n + 7) / 8) := by
  unfold rawFrameRange
  simp only [fdiv_pos _ 8 (by omega), fmod_pos _ 8 (by omega)]
  have e : rows * cols * 1 = n := by omega
  simp only [show ("MONOCHROME2" == "YBR_FULL_422") = false by decide, Bool.false_eq_true, ↓reduceIte, e, Int.one_mul]
  by_cases h : n % 8 = 0
  · obtain ⟨m, rfl⟩ : ∃ m, n = 8 * m := ⟨n / 8, by omega⟩
    have e1 : i * (8 * m) = 8 * (i * m) := by ring
    have e2 : (i + 1) * (8 * m) = 8 * (i * m) + 8 * m := by ring
    have e3 : 8 * m / 8 = m := by omega
    have e4 : 8 * m % 8 = 0 := by omega
    simp only [e1, e2, e3, e4]
    generalize hp : i * m = p
    simp
    omega
  · simp [h]

theorem stdFrameIndex_ok_iff (k N : Int) (ai : Bool) (r : Int) :
    stdFrameIndex k ai N = .ok r ↔ (0 ≤ r ∧ r < N ∧ r = (if ai then k else k - 1)) := by
  unfold stdFrameIndex
  grind (splits := 40)

theorem bitSlice_eq (idx rows cols s : Int) :
    bitSlice idx rows cols s = .ok ((idx * (rows * cols * s)) % 8, (idx * (rows * cols * s)) % 8 + rows * cols * s) := by
  unfold bitSlice
  simp only []
  have h := rat_frac_mul (idx * (rows * cols * s)) 8 (by omega)
  rw [h]
  have hnn : ¬ (((idx * (rows * cols * s) % 8 : Int) : Rat) < 0) := by
    have : 0 ≤ idx * (rows * cols * s) % 8 := Int.emod_nonneg _ (by omega)
    have : (0:Rat) ≤ ((idx * (rows * cols * s) % 8 : Int) : Rat) := by exact_mod_cast this
    linarith
  simp only [hnn, ↓reduceIte, Rat.floor_intCast]

theorem slice_nat {α} (l : List α) (a b : Nat) : slice l (a : Int) (b : Int) = .ok (pySlice l a b) := by
  unfold slice
  have : ¬ ((a : Int) < 0 ∨ (b : Int) < 0) := by omega
  simp [this]

theorem mem_frame_bits (frames : List (List Bool)) (rows cols : Nat) (hn : 0 < rows * cols)
    (hlen : ∀ f ∈ frames, f.length = rows * cols) (i : Nat) (hi : i < frames.length) :
    memFrameBits (pack frames.flatten) rows cols 1 frames.length ((i : Int) + 1) false = .ok frames[i] := by
  have h1 : stdFrameIndex ((i : Int) + 1) false frames.length = .ok (i : Int) := by
    rw [stdFrameIndex_ok_iff]; simp; omega
  unfold memFrameBits Skel.frameBits Skel.index
  simp only [singleSkel, singleStdArgs, singleRawArgs, singleDecodeIndex, bind, Except.bind]
  rw [h1]
  simp only []
  unfold memRaw decodeBits
  simp only [bind, Except.bind]
  rw [rawFrameRange_bit (i : Int) ((rows * cols : Nat) : Int) rows cols (by push_cast; rfl) (by omega)]
  simp only [bitSlice_eq]
  have ea : ((i : Int) * ((rows * cols : Nat) : Int)) / 8 = ((i * (rows * cols) / 8 : Nat) : Int) := by
    push_cast; rfl
  have eb : (((i : Int) + 1) * ((rows * cols : Nat) : Int) + 7) / 8 = (((i + 1) * (rows * cols) + 7) / 8 : Nat) := by
    push_cast; rfl
  have ec : ((i : Int) * ((rows : Int) * (cols : Int) * 1)) % 8 = ((i * (rows * cols) % 8 : Nat) : Int) := by
    push_cast; simp
  have ed : ((i * (rows * cols) % 8 : Nat) : Int) + (rows : Int) * (cols : Int) * 1
      = ((i * (rows * cols) % 8 + rows * cols : Nat) : Int) := by
    push_cast; simp
  rw [ea, eb, slice_nat]
  simp only [ec]
  simp only [ed, slice_nat]
  rw [extract_frame_nat frames (rows * cols) hn hlen i hi]
  have : ((frames[i].length : Nat) : Int) = (rows : Int) * (cols : Int) := by
    rw [hlen _ (List.getElem_mem hi)]; push_cast; rfl
  simp [this]

theorem lazyIndexGuard_ok_iff (i N r : Int) :
    lazyIndexGuard i N = .ok r ↔ (r = i ∧ 0 ≤ i ∧ i < N) := by
  unfold lazyIndexGuard
  grind (splits := 40)

theorem lazyOffsetBit_eq (i n : Int) : lazyOffsetBit i n = .ok ((i * n) / 8) := by
  unfold lazyOffsetBit
  simp only []
  rw [rat_floor_div (i * n) 8 (by omega)]
  simp only [Rat.floor_intCast, Rat.ceil_intCast, ite_self]

theorem lazy_frame_bits (frames : List (List Bool)) (rows cols : Nat) (hn : 0 < rows * cols)
    (hlen : ∀ f ∈ frames, f.length = rows * cols) (i : Nat) (hi : i < frames.length) :
    lazyFrameBits (pack frames.flatten) rows cols 1 frames.length ((i : Int) + 1) false = .ok frames[i] := by
  have h1 : stdFrameIndex ((i : Int) + 1) false frames.length = .ok (i : Int) := by
    rw [stdFrameIndex_ok_iff]; simp; omega
  have h2 : lazyIndexGuard (i : Int) frames.length = .ok (i : Int) := by
    rw [lazyIndexGuard_ok_iff]; omega
  have hm := mem_frame_bits frames rows cols hn hlen i hi
  unfold memFrameBits Skel.frameBits Skel.index at hm
  simp only [singleSkel, singleStdArgs, singleRawArgs, singleDecodeIndex, bind, Except.bind] at hm
  rw [h1] at hm
  simp only [] at hm
  unfold memRaw at hm
  simp only [bind, Except.bind] at hm
  rw [rawFrameRange_bit (i : Int) ((rows * cols : Nat) : Int) rows cols (by push_cast; rfl) (by omega)] at hm
  dsimp only at hm
  unfold lazyFrameBits Skel.frameBits Skel.index
  simp only [singleSkel, singleStdArgs, singleRawArgs, singleDecodeIndex, bind, Except.bind]
  rw [h1]
  simp only []
  unfold lazyRaw
  simp only [bind, Except.bind, h2]
  have hb : lazyBytesPerFrame ((rows : Int) * cols * 1) 1 "MONOCHROME2" rows cols
      = .ok (Int.fdiv ((rows : Int) * cols * 1) 8 + (if (decide (Int.fmod ((rows : Int) * cols * 1) 8 > 0)) then 1 else 0)) := by
    unfold lazyBytesPerFrame; simp
  rw [hb]
  simp only [↓reduceIte, lazyOffsetBit_eq]
  unfold lazyReadLength
  simp only [fdiv_pos _ 8 (by omega), show ((1:Int) == 1) = true by decide, ↓reduceIte]
  have e1 : (i : Int) * ((rows : Int) * cols * 1) = (i : Int) * ((rows * cols : Nat) : Int) := by push_cast; ring
  have e2 : ((i : Int) + 1) * ((rows : Int) * cols * 1) = ((i : Int) + 1) * ((rows * cols : Nat) : Int) := by push_cast; ring
  rw [e1, e2]
  have e3 : ∀ a b : Int, a + (b - a) = b := by intros; omega
  rw [e3]
  -- same slice as the in-memory path
  cases hs : slice (pack frames.flatten) ((i : Int) * ((rows * cols : Nat) : Int) / 8)
      ((((i : Int) + 1) * ((rows * cols : Nat) : Int) + 7) / 8) with
  | error e => rw [hs] at hm; simp at hm
  | ok raw =>
    rw [hs] at hm
    simp only at hm ⊢
    by_cases hz : raw.length = 0
    · exfalso
      have : raw = [] := List.length_eq_zero_iff.mp hz
      subst this
      unfold decodeBits at hm
      simp only [bitSlice_eq, bind, Except.bind, unpack, List.flatMap_nil] at hm
      unfold slice pySlice at hm
      split at hm
      · simp at hm
      · rename_i v heq
        have hv : v = [] := by
          split at heq
          · simp at heq
          · simp at heq; exact heq
        subst hv
        split at hm
        · rename_i hc
          have : (0 : Int) < (rows : Int) * (cols : Int) := by exact_mod_cast hn
          simp only [List.length_nil, Int.natCast_zero] at hc; omega
        · simp at hm
    · simp only [hz, ↓reduceIte]; exact hm

end HdVerif.FrameAccessLemmas
