import HdVerif.Proofs.SegReadStack
import HdVerif.Proofs.SegReadLabel
/-! C02 helper lemmas: the combination loop of the BINARY / FRACTIONAL branch. -/
namespace HdVerif.SegReadLemmas
open HdVerif HdVerif.Gen HdVerif.SegRead

/-! ### the combination loop, abstractly: rows are (binary plane, value) -/

/-- pixel `i` of the plane is set -/
def covI (b : List Int) (i : Nat) : Prop := ∃ p, b[i]? = some p ∧ 0 < p

def step' (skip : Bool) (acc : List Int) (bv : List Int × Int) : Except ErrKind (List Int) :=
  if !skip && (List.zipWith (fun p o => decide (p > 0) && decide (o > 0)) bv.1 acc).any id then .error .runtime
  else .ok (List.zipWith (fun p o => max (p * bv.2) o) bv.1 acc)

theorem any_overlap_iff (b acc : List Int) :
    (List.zipWith (fun p o => decide (p > 0) && decide (o > 0)) b acc).any id = true ↔ ∃ i, covI b i ∧ covI acc i := by
  rw [List.any_eq_true]
  constructor
  · rintro ⟨x, hx, hid⟩
    obtain ⟨i, hi⟩ := List.mem_iff_getElem?.mp hx
    rw [List.getElem?_zipWith] at hi
    cases hb : b[i]? with
    | none => simp [hb] at hi
    | some p =>
      cases ha : acc[i]? with
      | none => simp [hb, ha] at hi
      | some o =>
        simp only [hb, ha, Option.some.injEq] at hi
        subst hi
        simp only [id, Bool.and_eq_true, decide_eq_true_eq] at hid
        exact ⟨i, ⟨p, hb, hid.1⟩, ⟨o, ha, hid.2⟩⟩
  · rintro ⟨i, ⟨p, hb, hp⟩, ⟨o, ha, ho⟩⟩
    refine ⟨true, ?_, rfl⟩
    apply List.mem_iff_getElem?.mpr
    refine ⟨i, ?_⟩
    rw [List.getElem?_zipWith, hb, ha]
    simp [hp, ho]

theorem cov_step (b acc : List Int) (v : Int) (hv : 0 < v) (hlen : b.length = acc.length)
    (hb : ∀ p ∈ b, p = 0 ∨ p = 1) (ha : ∀ o ∈ acc, 0 ≤ o) (i : Nat) :
    covI (List.zipWith (fun p o => max (p * v) o) b acc) i ↔ covI b i ∨ covI acc i := by
  unfold covI
  rw [List.getElem?_zipWith]
  cases hbi : b[i]? with
  | none =>
    have : acc[i]? = none := by
      rw [List.getElem?_eq_none_iff] at hbi ⊢; omega
    simp [this]
  | some p =>
    have hil : i < b.length := (List.getElem?_eq_some_iff.mp hbi).1
    obtain ⟨o, hai⟩ : ∃ o, acc[i]? = some o := ⟨acc[i]'(by omega), List.getElem?_eq_getElem (by omega)⟩
    have hp := hb p (List.mem_of_getElem? hbi)
    have ho := ha o (List.mem_of_getElem? hai)
    simp only [hai, Option.some.injEq, exists_eq_left']
    rcases hp with rfl | rfl
    · simp; omega
    · simp; omega

/-- two planes share no pixel -/
def disj (x y : List Int × Int) : Prop := ∀ i, ¬ (covI x.1 i ∧ covI y.1 i)

def maxFold (rows : List (List Int × Int)) (acc : List Int) : List Int :=
  rows.foldl (fun a bv => List.zipWith (fun p o => max (p * bv.2) o) bv.1 a) acc

def RowsOk (n : Nat) (rows : List (List Int × Int)) : Prop :=
  ∀ bv ∈ rows, bv.1.length = n ∧ (∀ p ∈ bv.1, p = 0 ∨ p = 1) ∧ 0 < bv.2

theorem step_nonneg (b acc : List Int) (v : Int) (ha : ∀ o ∈ acc, 0 ≤ o) :
    ∀ x ∈ List.zipWith (fun p o => max (p * v) o) b acc, 0 ≤ x := by
  intro x hx
  obtain ⟨i, hi⟩ := List.mem_iff_getElem?.mp hx
  rw [List.getElem?_zipWith] at hi
  cases hb : b[i]? with
  | none => simp [hb] at hi
  | some p =>
    cases hai : acc[i]? with
    | none => simp [hb, hai] at hi
    | some o =>
      simp only [hb, hai, Option.some.injEq] at hi
      have := ha o (List.mem_of_getElem? hai)
      omega

theorem loop_skip (rows : List (List Int × Int)) (acc : List Int) :
    rows.foldlM (step' true) acc = .ok (maxFold rows acc) := by
  induction rows generalizing acc with
  | nil => rfl
  | cons r t ih =>
    rw [List.foldlM_cons]
    simp only [step', Bool.not_true, Bool.false_and, Bool.false_eq_true, ↓reduceIte, bind, Except.bind]
    rw [ih]; rfl

theorem loop_err (n : Nat) (rows : List (List Int × Int)) (acc : List Int) (hr : RowsOk n rows)
    (hlen : acc.length = n) (hnn : ∀ o ∈ acc, 0 ≤ o)
    (h : (∃ bv ∈ rows, ∃ i, covI bv.1 i ∧ covI acc i) ∨ ¬ rows.Pairwise disj) :
    rows.foldlM (step' false) acc = .error .runtime := by
  induction rows generalizing acc with
  | nil =>
    rcases h with ⟨bv, hm, _⟩ | h
    · cases hm
    · exact absurd List.Pairwise.nil h
  | cons r t ih =>
    rw [List.foldlM_cons]
    obtain ⟨hrl, hrb, hrv⟩ := hr r (by simp)
    by_cases hchk : ∃ i, covI r.1 i ∧ covI acc i
    · have := (any_overlap_iff r.1 acc).mpr hchk
      simp only [step', Bool.not_false, Bool.true_and, this, ↓reduceIte, bind, Except.bind]
    · have hf : (List.zipWith (fun p o => decide (p > 0) && decide (o > 0)) r.1 acc).any id = false := by
        cases hh : (List.zipWith (fun p o => decide (p > 0) && decide (o > 0)) r.1 acc).any id
        · rfl
        · exact absurd ((any_overlap_iff r.1 acc).mp hh) hchk
      simp only [step', Bool.not_false, Bool.true_and, hf, Bool.false_eq_true, ↓reduceIte, bind, Except.bind]
      apply ih _ (fun bv hbv => hr bv (by simp [hbv]))
      · simp [List.length_zipWith, hrl, hlen]
      · exact step_nonneg r.1 acc r.2 hnn
      · have hcs := cov_step r.1 acc r.2 hrv (by omega) hrb hnn
        rcases h with ⟨bv, hm, i, hc1, hc2⟩ | hnp
        · rcases List.mem_cons.mp hm with rfl | hmt
          · exact absurd ⟨i, hc1, hc2⟩ hchk
          · exact Or.inl ⟨bv, hmt, i, hc1, (hcs i).mpr (Or.inr hc2)⟩
        · by_cases hpt : t.Pairwise disj
          · have : ¬ ∀ r' ∈ t, disj r r' := fun hall => hnp (List.pairwise_cons.mpr ⟨hall, hpt⟩)
            have : ∃ r' ∈ t, ¬ disj r r' := by
              apply Classical.byContradiction
              intro hne
              apply this
              intro r' hr'
              apply Classical.byContradiction
              intro hnd
              exact hne ⟨r', hr', hnd⟩
            obtain ⟨r', hr', hnd⟩ := this
            have : ∃ i, covI r.1 i ∧ covI r'.1 i := by
              apply Classical.byContradiction
              intro hne
              apply hnd
              intro i hi
              exact hne ⟨i, hi⟩
            obtain ⟨i, hi1, hi2⟩ := this
            exact Or.inl ⟨r', hr', i, hi2, (hcs i).mpr (Or.inl hi1)⟩
          · exact Or.inr hpt

theorem loop_ok (n : Nat) (rows : List (List Int × Int)) (acc : List Int) (hr : RowsOk n rows)
    (hlen : acc.length = n) (hnn : ∀ o ∈ acc, 0 ≤ o)
    (h1 : ∀ bv ∈ rows, ∀ i, ¬ (covI bv.1 i ∧ covI acc i)) (h2 : rows.Pairwise disj) :
    rows.foldlM (step' false) acc = .ok (maxFold rows acc) := by
  induction rows generalizing acc with
  | nil => rfl
  | cons r t ih =>
    rw [List.foldlM_cons]
    obtain ⟨hrl, hrb, hrv⟩ := hr r (by simp)
    have hf : (List.zipWith (fun p o => decide (p > 0) && decide (o > 0)) r.1 acc).any id = false := by
      cases hh : (List.zipWith (fun p o => decide (p > 0) && decide (o > 0)) r.1 acc).any id
      · rfl
      · obtain ⟨i, hi⟩ := (any_overlap_iff r.1 acc).mp hh
        exact absurd hi (h1 r (by simp) i)
    simp only [step', Bool.not_false, Bool.true_and, hf, Bool.false_eq_true, ↓reduceIte, bind, Except.bind]
    have hp := List.pairwise_cons.mp h2
    rw [ih _ (fun bv hbv => hr bv (by simp [hbv])) (by simp [List.length_zipWith, hrl, hlen])
      (step_nonneg r.1 acc r.2 hnn) ?_ hp.2]
    · rfl
    · intro bv hbv i ⟨hc1, hc2⟩
      have hcs := cov_step r.1 acc r.2 hrv (by omega) hrb hnn
      rcases (hcs i).mp hc2 with h | h
      · exact hp.1 bv hbv i ⟨h, hc1⟩
      · exact h1 bv (by simp [hbv]) i ⟨hc1, h⟩


/-- pixel `i` of the result of the (unchecked) loop, as a scalar fold -/
def maxAt (rows : List (List Int × Int)) (i : Nat) (m : Int) : Int :=
  rows.foldl (fun m bv => max (bv.1.getD i 0 * bv.2) m) m

theorem maxFold_length (n : Nat) (rows : List (List Int × Int)) (acc : List Int) (hr : RowsOk n rows)
    (hlen : acc.length = n) : (maxFold rows acc).length = n := by
  induction rows generalizing acc with
  | nil => exact hlen
  | cons r t ih =>
    unfold maxFold
    rw [List.foldl_cons]
    apply ih _ (fun bv hbv => hr bv (by simp [hbv]))
    simp [List.length_zipWith, (hr r (by simp)).1, hlen]

theorem maxFold_get (n : Nat) (rows : List (List Int × Int)) (acc : List Int) (hr : RowsOk n rows)
    (hlen : acc.length = n) (i : Nat) (hi : i < n) :
    (maxFold rows acc)[i]? = some (maxAt rows i (acc.getD i 0)) := by
  induction rows generalizing acc with
  | nil =>
    simp only [maxFold, maxAt, List.foldl_nil]
    rw [List.getD_eq_getElem?_getD, List.getElem?_eq_getElem (by omega)]; rfl
  | cons r t ih =>
    unfold maxFold maxAt
    rw [List.foldl_cons, List.foldl_cons]
    have hrl := (hr r (by simp)).1
    have hl' : (List.zipWith (fun p o => max (p * r.2) o) r.1 acc).length = n := by
      simp [List.length_zipWith, hrl, hlen]
    have := ih _ (fun bv hbv => hr bv (by simp [hbv])) hl'
    unfold maxFold maxAt at this
    rw [this]
    congr 2
    rw [List.getD_eq_getElem?_getD, List.getElem?_zipWith, List.getD_eq_getElem?_getD, List.getD_eq_getElem?_getD,
      List.getElem?_eq_getElem (by omega : i < r.1.length), List.getElem?_eq_getElem (by omega : i < acc.length)]
    rfl

/-- a binary plane's pixel, read with default 0, is 1 exactly when it is set -/
theorem getD_of_cov (b : List Int) (hb : ∀ p ∈ b, p = 0 ∨ p = 1) (i : Nat) :
    (covI b i → b.getD i 0 = 1) ∧ (¬ covI b i → b.getD i 0 = 0) := by
  unfold covI
  rw [List.getD_eq_getElem?_getD]
  cases h : b[i]? with
  | none => simp
  | some p =>
    rcases hb p (List.mem_of_getElem? h) with rfl | rfl <;> simp

theorem maxAt_ge (rows : List (List Int × Int)) (i : Nat) (m : Int) : m ≤ maxAt rows i m := by
  induction rows generalizing m with
  | nil => exact Int.le_refl _
  | cons r t ih =>
    unfold maxAt; rw [List.foldl_cons]
    have := ih (max (r.1.getD i 0 * r.2) m)
    unfold maxAt at this
    omega

/-- **the loop computes a maximum**: the result dominates the value of every row covering the pixel … -/
theorem maxAt_dominates (n : Nat) (rows : List (List Int × Int)) (hr : RowsOk n rows) (i : Nat) (m : Int) :
    ∀ bv ∈ rows, covI bv.1 i → bv.2 ≤ maxAt rows i m := by
  induction rows generalizing m with
  | nil => intro bv hbv; cases hbv
  | cons r t ih =>
    intro bv hbv hc
    unfold maxAt; rw [List.foldl_cons]
    rcases List.mem_cons.mp hbv with rfl | hmt
    · have h1 := (getD_of_cov bv.1 (hr bv (by simp)).2.1 i).1 hc
      have := maxAt_ge t i (max (bv.1.getD i 0 * bv.2) m)
      unfold maxAt at this
      rw [h1] at this ⊢
      omega
    · have := ih (fun b hb => hr b (by simp [hb])) (max (r.1.getD i 0 * r.2) m) bv hmt hc
      unfold maxAt at this
      exact this

/-- … and is the start value or the value of a covering row. -/
theorem maxAt_attained (n : Nat) (rows : List (List Int × Int)) (hr : RowsOk n rows) (i : Nat) (m : Int) (hm : 0 ≤ m) :
    maxAt rows i m = m ∨ ∃ bv ∈ rows, covI bv.1 i ∧ maxAt rows i m = bv.2 := by
  induction rows generalizing m with
  | nil => exact Or.inl rfl
  | cons r t ih =>
    unfold maxAt; rw [List.foldl_cons]
    obtain ⟨_, hrb, hrv⟩ := hr r (by simp)
    have hg := getD_of_cov r.1 hrb i
    by_cases hc : covI r.1 i
    · rw [hg.1 hc]
      have := ih (fun b hb => hr b (by simp [hb])) (max (1 * r.2) m) (by omega)
      unfold maxAt at this
      rcases this with h | ⟨bv, hbv, hcv, h⟩
      · rw [h]
        by_cases hmax : r.2 ≤ m
        · left; omega
        · right; exact ⟨r, by simp, hc, by omega⟩
      · right; exact ⟨bv, by simp [hbv], hcv, h⟩
    · rw [hg.2 hc]
      have : max (0 * r.2) m = m := by omega
      rw [this]
      have := ih (fun b hb => hr b (by simp [hb])) m hm
      unfold maxAt at this
      rcases this with h | ⟨bv, hbv, hcv, h⟩
      · left; exact h
      · right; exact ⟨bv, by simp [hbv], hcv, h⟩



/-- the 0/1 plane the loop works with: the stored frame (BINARY) or the stored frame `// mfv` (FRACTIONAL) -/
def binPlane (ty : SegType) (mfv : Nat) (f : SFrame) : List Int :=
  if ty = .fractional then f.pix.map (fun p => ((p / mfv : Nat) : Int)) else natFrame f

def absRow (ty : SegType) (mfv : Nat) (r : SFrame × Nat) : List Int × Int := (binPlane ty mfv r.1, (r.2 : Int))

/-- a frame the loop can work with: 0/1 (BINARY), 0/mfv (FRACTIONAL) -/
def FrameBinary (ty : SegType) (mfv : Nat) (f : SFrame) : Prop :=
  if ty = .fractional then mfv ≠ 0 ∧ ∀ p ∈ f.pix, p = 0 ∨ p = mfv else ∀ p ∈ f.pix, p ≤ 1

theorem binPlane_binary (ty : SegType) (mfv : Nat) (f : SFrame) (h : FrameBinary ty mfv f) :
    ∀ p ∈ binPlane ty mfv f, p = 0 ∨ p = 1 := by
  unfold FrameBinary at h
  unfold binPlane
  by_cases hty : ty = .fractional
  · simp only [hty, ↓reduceIte] at h ⊢
    intro p hp
    obtain ⟨q, hq, rfl⟩ := List.mem_map.mp hp
    rcases h.2 q hq with rfl | rfl
    · left; simp
    · right; simp [Nat.div_self (Nat.pos_of_ne_zero h.1)]
  · simp only [hty, ↓reduceIte] at h ⊢
    intro p hp
    obtain ⟨q, hq, rfl⟩ := List.mem_map.mp hp
    have := h q hq
    simp only [Int.ofNat_eq_natCast]
    omega

theorem binPlane_length (ty : SegType) (mfv : Nat) (f : SFrame) : (binPlane ty mfv f).length = f.pix.length := by
  unfold binPlane natFrame
  by_cases hty : ty = .fractional <;> simp [hty]

theorem combineStep_eq (ty : SegType) (mfv : Nat) (skip : Bool) (d : DType) (acc : List Int) (r : SFrame × Nat)
    (hf : FrameBinary ty mfv r.1) (hv : (r.2 : Int) ≤ d.maxVal)
    (hacc : ∀ o ∈ acc, 0 ≤ o ∧ o ≤ d.maxVal) :
    combineStep ty mfv skip d acc r = step' skip acc (absRow ty mfv r) := by
  have hbp := binPlane_binary ty mfv r.1 hf
  have hcv : castVal d (r.2 : Int) = (r.2 : Int) := castVal_of_le d _ (by omega) hv
  have hpix : (if ty = .fractional then
      (if mfv = 0 then .error .other
       else if r.1.pix.all (fun p => p == 0 || p == mfv) then .ok (r.1.pix.map (fun p => ((p / mfv : Nat) : Int)))
       else .error .value)
    else .ok (natFrame r.1) : Except ErrKind (List Int)) = .ok (binPlane ty mfv r.1) := by
    unfold binPlane
    unfold FrameBinary at hf
    by_cases hty : ty = .fractional
    · simp only [hty, ↓reduceIte] at hf ⊢
      have : r.1.pix.all (fun p => p == 0 || p == mfv) = true := by
        rw [List.all_eq_true]; intro p hp
        rcases hf.2 p hp with rfl | rfl <;> simp
      simp [hf.1, this]
    · simp [hty]
  unfold combineStep step' absRow
  simp only [hcv, hpix, bind, Except.bind]
  by_cases hchk : (!skip && (List.zipWith (fun p o => decide (p > 0) && decide (o > 0)) (binPlane ty mfv r.1) acc).any id) = true
  · simp only [hchk, ↓reduceIte]
  · simp only [hchk, Bool.false_eq_true, ↓reduceIte]
    congr 1
    apply castFrame_id
    intro x hx
    obtain ⟨i, hi⟩ := List.mem_iff_getElem?.mp hx
    rw [List.getElem?_zipWith] at hi
    cases hb : (binPlane ty mfv r.1)[i]? with
    | none => simp [hb] at hi
    | some p =>
      cases hai : acc[i]? with
      | none => simp [hb, hai] at hi
      | some o =>
        simp only [hb, hai, Option.some.injEq] at hi
        have ho := hacc o (List.mem_of_getElem? hai)
        rcases hbp p (List.mem_of_getElem? hb) with rfl | rfl
        · omega
        · omega



theorem foldlM_congr_inv {α β} (P : α → Prop) (f g : α → β → Except ErrKind α) (l : List β) (init : α)
    (hfg : ∀ a, P a → ∀ r ∈ l, f a r = g a r)
    (hP : ∀ a, P a → ∀ r ∈ l, ∀ a', g a r = .ok a' → P a') (h0 : P init) :
    l.foldlM f init = l.foldlM g init := by
  induction l generalizing init with
  | nil => rfl
  | cons r t ih =>
    rw [List.foldlM_cons, List.foldlM_cons, hfg init h0 r (by simp)]
    cases hg : g init r with
    | error e => rfl
    | ok a' =>
      simp only [bind, Except.bind]
      exact ih a' (fun a ha x hx => hfg a ha x (by simp [hx])) (fun a ha x hx => hP a ha x (by simp [hx]))
        (hP init h0 r (by simp) a' hg)

theorem step'_inv (skip : Bool) (M : Int) (acc : List Int) (bv : List Int × Int) (a' : List Int)
    (hb : ∀ p ∈ bv.1, p = 0 ∨ p = 1) (hv : 0 ≤ bv.2 ∧ bv.2 ≤ M)
    (hacc : ∀ o ∈ acc, 0 ≤ o ∧ o ≤ M) (h : step' skip acc bv = .ok a') : ∀ o ∈ a', 0 ≤ o ∧ o ≤ M := by
  unfold step' at h
  split at h
  · cases h
  · simp only [Except.ok.injEq] at h
    subst h
    intro x hx
    obtain ⟨i, hi⟩ := List.mem_iff_getElem?.mp hx
    rw [List.getElem?_zipWith] at hi
    cases hbi : bv.1[i]? with
    | none => simp [hbi] at hi
    | some p =>
      cases hai : acc[i]? with
      | none => simp [hbi, hai] at hi
      | some o =>
        simp only [hbi, hai, Option.some.injEq] at hi
        have ho := hacc o (List.mem_of_getElem? hai)
        rcases hb p (List.mem_of_getElem? hbi) with rfl | rfl <;> omega

/-- the loop of the code is the abstract loop, for rows of binary frames whose values fit the dtype -/
theorem combineRow_abs (ty : SegType) (mfv : Nat) (skip : Bool) (d : DType) (npix : Nat) (rows : List (SFrame × Nat))
    (hf : ∀ r ∈ rows, FrameBinary ty mfv r.1) (hv : ∀ r ∈ rows, (r.2 : Int) ≤ d.maxVal) :
    combineRow ty mfv skip d npix rows = (rows.map (absRow ty mfv)).foldlM (step' skip) (zeros npix) := by
  unfold combineRow
  rw [List.foldlM_map]
  apply foldlM_congr_inv (fun acc => ∀ o ∈ acc, 0 ≤ o ∧ o ≤ d.maxVal)
  · intro a ha r hr
    exact combineStep_eq ty mfv skip d a r (hf r hr) (hv r hr) ha
  · intro a ha r hr a' h
    exact step'_inv skip d.maxVal a (absRow ty mfv r) a' (binPlane_binary ty mfv r.1 (hf r hr))
      ⟨by simp [absRow], hv r hr⟩ ha h
  · intro o ho
    have := List.eq_of_mem_replicate ho
    have := one_le_maxVal d
    omega



/-! ### the rows of a combined read and the requested segments -/

/-- an entry of the channel table of a combined read: the requested segment and its output value -/
theorem mem_chan_combined (segs : List Nat) (relabel : Bool) (hnd : segs.Nodup) (v s : Nat) :
    (v, s) ∈ chanTable segs (remapValues segs true relabel) ↔ s ∈ segs ∧ (v : Int) = outVal segs relabel s := by
  unfold chanTable remapValues
  cases relabel with
  | false =>
    simp only [↓reduceIte, Bool.false_eq_true]
    constructor
    · intro h
      obtain ⟨j, hj⟩ := List.mem_iff_getElem?.mp h
      rw [List.getElem?_zip_eq_some] at hj
      have : v = s := by
        have := hj.1.symm.trans hj.2; exact Option.some.inj this
      subst this
      have hm := List.mem_of_getElem? hj.1
      exact ⟨hm, (outVal_own segs v hm).symm⟩
    · rintro ⟨hm, hv⟩
      rw [outVal_own segs s hm] at hv
      have : v = s := by exact_mod_cast hv
      subst this
      obtain ⟨j, hj⟩ := List.mem_iff_getElem?.mp hm
      exact List.mem_iff_getElem?.mpr ⟨j, by rw [List.getElem?_zip_eq_some]; exact ⟨hj, hj⟩⟩
  | true =>
    simp only [↓reduceIte]
    rw [outVal_relabel]
    unfold posVal
    constructor
    · intro h
      obtain ⟨j, hj⟩ := List.mem_iff_getElem?.mp h
      rw [List.getElem?_zip_eq_some] at hj
      have hjl : j < segs.length := (List.getElem?_eq_some_iff.mp hj.2).1
      rw [List.getElem?_range' (by omega)] at hj
      have hv : v = 1 + j := by have := hj.1; simp at this; omega
      have hp := (posNat_eq_succ_iff segs hnd s j).mpr hj.2
      exact ⟨List.mem_of_getElem? hj.2, by rw [hp, hv]; congr 1; omega⟩
    · rintro ⟨hm, hv⟩
      have hv' : v = posNat segs s := by exact_mod_cast hv
      obtain ⟨hlt, hget⟩ := firstIdx_getElem segs s hm
      have hpn : posNat segs s = firstIdx segs s + 1 := by
        unfold posNat
        have : segs.contains s = true := by simpa using hm
        simp only [this, ↓reduceIte]
      apply List.mem_iff_getElem?.mpr
      refine ⟨firstIdx segs s, ?_⟩
      rw [List.getElem?_zip_eq_some, List.getElem?_range' (by omega), List.getElem?_eq_getElem hlt, hget]
      exact ⟨by rw [hv', hpn]; congr 1; omega, rfl⟩

theorem mem_joinRows (frames : List SFrame) (chan : List (Nat × Nat)) (k : Nat) (f : SFrame) (v : Nat) :
    (f, v) ∈ joinRows frames chan k ↔ f ∈ frames ∧ f.key = k ∧ (v, f.seg) ∈ chan := by
  unfold joinRows
  simp only [List.mem_flatMap, List.mem_filter, List.mem_map, beq_iff_eq, Prod.mk.injEq]
  constructor
  · rintro ⟨g, ⟨hg, hk⟩, ⟨c, ⟨hc, hcs⟩, rfl, rfl⟩⟩
    exact ⟨hg, hk, by rw [← hcs]; exact hc⟩
  · rintro ⟨hf, hk, hc⟩
    exact ⟨f, ⟨hf, hk⟩, ⟨(v, f.seg), ⟨hc, rfl⟩, rfl, rfl⟩⟩

/-- at most one channel-table entry per segment (distinct requested segments) -/
theorem chan_filter_le_one (segs : List Nat) (relabel : Bool) (hnd : segs.Nodup) (s : Nat) :
    ((chanTable segs (remapValues segs true relabel)).filter (fun c => c.2 == s)).length ≤ 1 := by
  apply Decidable.byContradiction
  intro hgt
  have hlen : 2 ≤ ((chanTable segs (remapValues segs true relabel)).filter (fun c => c.2 == s)).length := by omega
  -- two entries with the same segment have the same value, but the zip of a duplicate-free list has no duplicates
  generalize hL : (chanTable segs (remapValues segs true relabel)).filter (fun c => c.2 == s) = L at hlen
  match L, hlen with
  | a :: b :: t, _ =>
    have hsub : [a, b].Sublist (chanTable segs (remapValues segs true relabel)) := by
      have h1 : [a, b].Sublist (a :: b :: t) := by simp
      exact h1.trans (hL ▸ List.filter_sublist)
    have ha : a ∈ (chanTable segs (remapValues segs true relabel)).filter (fun c => c.2 == s) := by rw [hL]; simp
    have hb : b ∈ (chanTable segs (remapValues segs true relabel)).filter (fun c => c.2 == s) := by rw [hL]; simp
    have has : a.2 = s := by simpa using (List.mem_filter.mp ha).2
    have hbs : b.2 = s := by simpa using (List.mem_filter.mp hb).2
    -- second components of the table are a sublist of segs
    have hsnd : (chanTable segs (remapValues segs true relabel)).map Prod.snd = segs := by
      unfold chanTable remapValues
      cases relabel <;> simp only [↓reduceIte, Bool.false_eq_true] <;> apply List.map_snd_zip <;> simp
    have h2 : ([a, b].map Prod.snd).Sublist segs := hsnd ▸ (hsub.map _)
    have h3 := List.Pairwise.sublist h2 hnd
    simp only [List.map_cons, List.map_nil, List.pairwise_cons, List.mem_cons, List.not_mem_nil, or_false,
      forall_eq] at h3
    exact h3.1 (has.trans hbs.symm)



theorem pairwise_of_length_le_one {α} (R : α → α → Prop) (l : List α) (h : l.length ≤ 1) : l.Pairwise R := by
  match l, h with
  | [], _ => exact List.Pairwise.nil
  | [a], _ => exact List.pairwise_singleton R a

theorem joinRows_pairwise (st : Stored) (wf : WfStack st) (segs : List Nat) (relabel : Bool) (hnd : segs.Nodup)
    (k : Nat) :
    (joinRows st.frames (chanTable segs (remapValues segs true relabel)) k).Pairwise
      (fun a b => a.1.seg ≠ b.1.seg) := by
  unfold joinRows
  rw [List.pairwise_flatMap]
  constructor
  · intro f _
    apply pairwise_of_length_le_one
    rw [List.length_map]
    exact chan_filter_le_one segs relabel hnd f.seg
  · apply List.Pairwise.imp _ (pairwise_seg_of_unique st wf.type wf.unique k)
    intro f g hfg x hx y hy
    obtain ⟨_, _, rfl⟩ := List.mem_map.mp hx
    obtain ⟨_, _, rfl⟩ := List.mem_map.mp hy
    exact hfg

theorem inj_of_nodup_map {α β} (f : α → β) (l : List α) (h : (l.map f).Nodup) :
    ∀ x ∈ l, ∀ y ∈ l, f x = f y → x = y := by
  induction l with
  | nil => intro x hx; cases hx
  | cons a t ih =>
    rw [List.map_cons, List.nodup_cons] at h
    intro x hx y hy hxy
    rcases List.mem_cons.mp hx with rfl | hxt <;> rcases List.mem_cons.mp hy with rfl | hyt
    · rfl
    · exact absurd (List.mem_map.mpr ⟨y, hyt, hxy.symm⟩) h.1
    · exact absurd (List.mem_map.mpr ⟨x, hxt, hxy⟩) h.1
    · exact ih h.2 x hxt y hyt hxy

theorem segPlane_of_mem (st : Stored) (wf : WfStack st) (f : SFrame) (hf : f ∈ st.frames) :
    segPlane st f.key f.seg = f.pix := by
  unfold segPlane
  have hu := wf.unique
  unfold framesUnique at hu
  simp only [wf.type, ↓reduceIte, decide_eq_true_eq] at hu
  cases h : st.frames.find? (fun g => g.key == f.key && g.seg == f.seg) with
  | none =>
    have := List.find?_eq_none.mp h f hf
    simp at this
  | some g =>
    have hg := List.mem_of_find?_eq_some h
    have hp := List.find?_some h
    simp only [Bool.and_eq_true, beq_iff_eq] at hp
    have : g = f := inj_of_nodup_map (fun f => (f.key, f.seg)) st.frames hu g hg f hf (by simp [hp.1, hp.2])
    rw [this]

/-- a stored frame covers pixel `i` -/
def frameCovers (f : SFrame) (i : Nat) : Prop := ∃ p, f.pix[i]? = some p ∧ 0 < p

theorem cov_binPlane (ty : SegType) (mfv : Nat) (f : SFrame) (h : FrameBinary ty mfv f) (i : Nat) :
    covI (binPlane ty mfv f) i ↔ frameCovers f i := by
  unfold covI frameCovers binPlane natFrame
  unfold FrameBinary at h
  by_cases hty : ty = .fractional
  · simp only [hty, ↓reduceIte] at h ⊢
    rw [List.getElem?_map]
    cases hp : f.pix[i]? with
    | none => simp
    | some p =>
      have hm := h.2 p (List.mem_of_getElem? hp)
      simp only [Option.map_some, Option.some.injEq, exists_eq_left']
      rcases hm with h0 | hmf
      · rw [h0]; simp
      · have : mfv / mfv = 1 := Nat.div_self (Nat.pos_of_ne_zero h.1)
        rw [hmf, this]
        have := Nat.pos_of_ne_zero h.1
        simp; omega
  · simp only [hty, ↓reduceIte] at h ⊢
    rw [List.getElem?_map]
    cases hp : f.pix[i]? with
    | none => simp
    | some p => simp



/-- the output value of a requested segment as a natural number -/
def outValNat (segs : List Nat) (relabel : Bool) (s : Nat) : Nat := if relabel then posNat segs s else s

theorem outValNat_eq (segs : List Nat) (relabel : Bool) (s : Nat) (hs : s ∈ segs) :
    ((outValNat segs relabel s : Nat) : Int) = outVal segs relabel s := by
  unfold outValNat
  cases relabel with
  | false => simp only [Bool.false_eq_true, ↓reduceIte]; exact (outVal_own segs s hs).symm
  | true => simp only [↓reduceIte]; rw [outVal_relabel]; rfl

theorem outVal_pos (segs : List Nat) (relabel : Bool) (s : Nat) (hs : s ∈ segs) (hp : 0 < s) :
    0 < outVal segs relabel s := by
  cases relabel with
  | false => rw [outVal_own segs s hs]; omega
  | true =>
    obtain ⟨i, _, _, _, h⟩ := outVal_position segs s hs
    rw [h]; omega

section rows
variable (st : Stored) (wf : WfStack st) (segs : List Nat) (relabel : Bool) (hnd : segs.Nodup) (k : Nat)
include wf hnd

/-- what a row of the join is: a stored frame of a requested segment at `k`, with that segment's output value -/
theorem row_facts (r : SFrame × Nat)
    (hr : r ∈ joinRows st.frames (chanTable segs (remapValues segs true relabel)) k) :
    r.1 ∈ st.frames ∧ r.1.key = k ∧ r.1.seg ∈ segs ∧ (r.2 : Int) = outVal segs relabel r.1.seg ∧
      segPlane st k r.1.seg = r.1.pix := by
  obtain ⟨f, v⟩ := r
  obtain ⟨hf, hk, hc⟩ := (mem_joinRows _ _ k f v).mp hr
  obtain ⟨hs, hv⟩ := (mem_chan_combined segs relabel hnd v f.seg).mp hc
  refine ⟨hf, hk, hs, hv, ?_⟩
  have := segPlane_of_mem st wf f hf
  rw [hk] at this
  exact this

/-- a requested segment covering a pixel has a row -/
theorem row_of_covers (s i : Nat) (hs : s ∈ segs) (hc : covers st k s i) :
    ∃ f, (f, outValNat segs relabel s) ∈ joinRows st.frames (chanTable segs (remapValues segs true relabel)) k ∧
      f.seg = s ∧ frameCovers f i := by
  unfold covers segPlane at hc
  cases h : st.frames.find? (fun f => f.key == k && f.seg == s) with
  | none =>
    rw [h] at hc
    obtain ⟨p, hp, hpos⟩ := hc
    have := List.mem_of_getElem? hp
    have := List.eq_of_mem_replicate this
    omega
  | some f =>
    rw [h] at hc
    have hf := List.mem_of_find?_eq_some h
    have hp := List.find?_some h
    simp only [Bool.and_eq_true, beq_iff_eq] at hp
    refine ⟨f, ?_, hp.2, hc⟩
    rw [mem_joinRows]
    refine ⟨hf, hp.1, ?_⟩
    rw [hp.2, mem_chan_combined segs relabel hnd]
    exact ⟨hs, outValNat_eq segs relabel s hs⟩

end rows



theorem pairwise_either {α} (R : α → α → Prop) (l : List α) (h : l.Pairwise R) (a b : α) (ha : a ∈ l) (hb : b ∈ l)
    (hab : a ≠ b) : R a b ∨ R b a := by
  induction l with
  | nil => cases ha
  | cons x t ih =>
    have hp := List.pairwise_cons.mp h
    rcases List.mem_cons.mp ha with rfl | hat <;> rcases List.mem_cons.mp hb with rfl | hbt
    · exact absurd rfl hab
    · exact Or.inl (hp.1 b hbt)
    · exact Or.inr (hp.1 a hat)
    · exact ih hp.2 hat hbt

theorem zeros_not_cov (n i : Nat) : ¬ covI (zeros n) i := by
  rintro ⟨p, hp, hpos⟩
  have := List.eq_of_mem_replicate (List.mem_of_getElem? hp)
  omega

section assemble
variable (st : Stored) (wf : WfStack st) (segs : List Nat) (relabel : Bool) (hnd : segs.Nodup) (k : Nat)
  (hsub : ∀ s ∈ segs, s ∈ st.segNums) (hbin : ∀ f ∈ st.frames, f.key = k → f.seg ∈ segs → FrameBinary st.type st.mfv f) (d : DType)
  (hcap : ∀ s ∈ segs, outVal segs relabel s ≤ d.maxVal)
include wf hnd hsub hbin hcap

theorem rows_frameBinary :
    ∀ r ∈ joinRows st.frames (chanTable segs (remapValues segs true relabel)) k, FrameBinary st.type st.mfv r.1 := by
  intro r hr
  obtain ⟨h1, h2, h3, _⟩ := row_facts st wf segs relabel hnd k r hr
  exact hbin r.1 h1 h2 h3

theorem rows_val_le :
    ∀ r ∈ joinRows st.frames (chanTable segs (remapValues segs true relabel)) k, (r.2 : Int) ≤ d.maxVal := by
  intro r hr
  obtain ⟨_, _, hs, hv, _⟩ := row_facts st wf segs relabel hnd k r hr
  rw [hv]; exact hcap _ hs

theorem rows_ok :
    RowsOk st.npix ((joinRows st.frames (chanTable segs (remapValues segs true relabel)) k).map
      (absRow st.type st.mfv)) := by
  intro bv hbv
  obtain ⟨r, hr, rfl⟩ := List.mem_map.mp hbv
  obtain ⟨hf, _, hs, hv, _⟩ := row_facts st wf segs relabel hnd k r hr
  refine ⟨?_, binPlane_binary _ _ _ (rows_frameBinary st wf segs relabel hnd k hsub hbin d hcap r hr), ?_⟩
  · simp only [absRow]; rw [binPlane_length]; exact wf.len r.1 hf
  · simp only [absRow]; rw [hv]; exact outVal_pos segs relabel _ hs (wf.pos _ (hsub _ hs))

/-- covering, seen from a row -/
theorem row_cov_iff (r : SFrame × Nat)
    (hr : r ∈ joinRows st.frames (chanTable segs (remapValues segs true relabel)) k) (i : Nat) :
    covI (absRow st.type st.mfv r).1 i ↔ covers st k r.1.seg i := by
  obtain ⟨_, _, _, _, hpl⟩ := row_facts st wf segs relabel hnd k r hr
  simp only [absRow]
  rw [cov_binPlane _ _ _ (rows_frameBinary st wf segs relabel hnd k hsub hbin d hcap r hr)]
  unfold covers frameCovers
  rw [hpl]

/-- accepted: the overlap check is skipped, or no two requested segments overlap at `k` -/
theorem combineRow_ok (skip : Bool) (hno : skip = true ∨ NoOverlap st segs k) :
    combineRow st.type st.mfv skip d st.npix (joinRows st.frames (chanTable segs (remapValues segs true relabel)) k) =
      .ok (maxFold ((joinRows st.frames (chanTable segs (remapValues segs true relabel)) k).map
        (absRow st.type st.mfv)) (zeros st.npix)) := by
  rw [combineRow_abs _ _ _ _ _ _ (rows_frameBinary st wf segs relabel hnd k hsub hbin d hcap)
    (rows_val_le st wf segs relabel hnd k hsub hbin d hcap)]
  cases skip with
  | true => exact loop_skip _ _
  | false =>
    have hno' : NoOverlap st segs k := by
      rcases hno with h | h
      · cases h
      · exact h
    apply loop_ok st.npix _ _ (rows_ok st wf segs relabel hnd k hsub hbin d hcap) (by simp [zeros])
    · intro o ho; have := List.eq_of_mem_replicate ho; omega
    · intro bv _ i ⟨_, h⟩; exact zeros_not_cov _ _ h
    · rw [List.pairwise_map]
      apply List.Pairwise.imp_of_mem _ (joinRows_pairwise st wf segs relabel hnd k)
      intro a b ha hb hab i ⟨h1, h2⟩
      rw [row_cov_iff st wf segs relabel hnd k hsub hbin d hcap a ha] at h1
      rw [row_cov_iff st wf segs relabel hnd k hsub hbin d hcap b hb] at h2
      exact hno' _ (row_facts st wf segs relabel hnd k a ha).2.2.1 _ (row_facts st wf segs relabel hnd k b hb).2.2.1
        hab i ⟨h1, h2⟩

/-- refused: the check is on and two different requested segments share a pixel at `k` -/
theorem combineRow_overlap (s₁ s₂ i : Nat) (h1 : s₁ ∈ segs) (h2 : s₂ ∈ segs) (hne : s₁ ≠ s₂)
    (hc1 : covers st k s₁ i) (hc2 : covers st k s₂ i) :
    combineRow st.type st.mfv false d st.npix (joinRows st.frames (chanTable segs (remapValues segs true relabel)) k) =
      .error .runtime := by
  rw [combineRow_abs _ _ _ _ _ _ (rows_frameBinary st wf segs relabel hnd k hsub hbin d hcap)
    (rows_val_le st wf segs relabel hnd k hsub hbin d hcap)]
  apply loop_err st.npix _ _ (rows_ok st wf segs relabel hnd k hsub hbin d hcap) (by simp [zeros])
  · intro o ho; have := List.eq_of_mem_replicate ho; omega
  · right
    intro hp
    obtain ⟨f1, hr1, hs1, _⟩ := row_of_covers st wf segs relabel hnd k s₁ i h1 hc1
    obtain ⟨f2, hr2, hs2, _⟩ := row_of_covers st wf segs relabel hnd k s₂ i h2 hc2
    have hp' := List.pairwise_map.mp hp
    have hne' : (f1, outValNat segs relabel s₁) ≠ (f2, outValNat segs relabel s₂) := by
      intro h
      have : f1 = f2 := (Prod.mk.inj h).1
      exact hne (by rw [← hs1, ← hs2, this])
    have hcov1 := (row_cov_iff st wf segs relabel hnd k hsub hbin d hcap _ hr1 i).mpr (by simpa [hs1] using hc1)
    have hcov2 := (row_cov_iff st wf segs relabel hnd k hsub hbin d hcap _ hr2 i).mpr (by simpa [hs2] using hc2)
    rcases pairwise_either _ _ hp' _ _ hr1 hr2 hne' with h | h
    · exact h i ⟨hcov1, hcov2⟩
    · exact h i ⟨hcov2, hcov1⟩

end assemble



section assemble2
variable (st : Stored) (wf : WfStack st) (segs : List Nat) (relabel : Bool) (hnd : segs.Nodup) (k : Nat)
  (hsub : ∀ s ∈ segs, s ∈ st.segNums) (hbin : ∀ f ∈ st.frames, f.key = k → f.seg ∈ segs → FrameBinary st.type st.mfv f) (d : DType)
  (hcap : ∀ s ∈ segs, outVal segs relabel s ≤ d.maxVal)
include wf hnd hsub hbin hcap

/-- every pixel of the loop's result is the combined value the property asks for -/
theorem combined_pixel (i : Nat) (hi : i < st.npix) :
    ∃ v, (maxFold ((joinRows st.frames (chanTable segs (remapValues segs true relabel)) k).map
        (absRow st.type st.mfv)) (zeros st.npix))[i]? = some v ∧ IsCombinedValue st segs relabel k i v := by
  have hok := rows_ok st wf segs relabel hnd k hsub hbin d hcap
  refine ⟨_, maxFold_get st.npix _ _ hok (by simp [zeros]) i hi, ?_⟩
  have hz : (zeros st.npix).getD i 0 = 0 := by
    rw [List.getD_eq_getElem?_getD]; simp [zeros, List.getElem?_replicate, hi]
  rw [hz]
  constructor
  · intro s hs hc
    obtain ⟨f, hr, hfs, _⟩ := row_of_covers st wf segs relabel hnd k s i hs hc
    have hcov := (row_cov_iff st wf segs relabel hnd k hsub hbin d hcap _ hr i).mpr (by simpa [hfs] using hc)
    have := maxAt_dominates st.npix _ hok i 0 _ (List.mem_map.mpr ⟨_, hr, rfl⟩) hcov
    simp only [absRow] at this
    rw [outValNat_eq segs relabel s hs] at this
    exact this
  · rcases maxAt_attained st.npix _ hok i 0 (by omega) with h | ⟨bv, hbv, hcv, h⟩
    · left; exact h
    · right
      obtain ⟨r, hr, rfl⟩ := List.mem_map.mp hbv
      obtain ⟨_, _, hs, hv, _⟩ := row_facts st wf segs relabel hnd k r hr
      refine ⟨r.1.seg, hs, (row_cov_iff st wf segs relabel hnd k hsub hbin d hcap r hr i).mp hcv, ?_⟩
      rw [h]; simp only [absRow]; exact hv

end assemble2



theorem outVal_le_ceiling (st : Stored) (rq : Req) (hc : rq.combine = true) (s : Nat) (hs : s ∈ rq.segs) :
    outVal rq.segs rq.relabel s ≤ ceiling st rq := by
  unfold ceiling
  simp only [hc, ↓reduceIte]
  cases hr : rq.relabel with
  | false =>
    simp only [Bool.false_eq_true, ↓reduceIte]
    rw [outVal_own rq.segs s hs]
    have := le_listMax rq.segs s hs
    exact_mod_cast this
  | true =>
    simp only [↓reduceIte]
    rw [outVal_relabel]
    unfold posVal
    have := posNat_le rq.segs s
    exact_mod_cast this

theorem remap_nodup (segs : List Nat) (relabel : Bool) (hnd : segs.Nodup) :
    remapDup (remapValues segs true relabel) = false := by
  unfold remapDup remapValues
  cases relabel with
  | false => simp [hnd]
  | true => simp [List.nodup_range']

/-- the rows of output frame `k` of a combined read, abstractly (binary plane, output value) -/
def absRows (st : Stored) (segs : List Nat) (relabel : Bool) (k : Nat) : List (List Int × Int) :=
  (joinRows st.frames (chanTable segs (remapValues segs true relabel)) k).map (absRow st.type st.mfv)

theorem stackRead_combined_head (st : Stored) (rq : Req) (d : DType) (hc : rq.combine = true) (hnd : rq.segs.Nodup)
    (hfr : st.type = .fractional → rq.rescale = true) :
    stackRead st rq d false =
      (rq.keys.mapM fun k => combineRow st.type st.mfv rq.skipOverlap d st.npix
        (joinRows st.frames (chanTable rq.segs (remapValues rq.segs true rq.relabel)) k)).map Out.combined := by
  unfold stackRead
  rw [stackDecision_eq]
  have h1 : (true && (st.type == SegType.fractional) && !rq.rescale) = false := by
    by_cases hty : st.type = .fractional
    · simp [hfr hty]
    · have : (st.type == SegType.fractional) = false := by simpa using hty
      simp [this]
  simp only [hc, Bool.false_and, Bool.false_eq_true, ↓reduceIte, h1, bind, Except.bind, ofCode_code,
    remap_nodup rq.segs rq.relabel hnd]
  cases rq.keys.mapM fun k => combineRow st.type st.mfv rq.skipOverlap d st.npix
        (joinRows st.frames (chanTable rq.segs (remapValues rq.segs true rq.relabel)) k) with
  | error e => rfl
  | ok v => rfl

theorem stackRead_combined_ok (st : Stored) (rq : Req) (d : DType) (wf : WfStack st) (hc : rq.combine = true)
    (hnd : rq.segs.Nodup) (hsub : ∀ s ∈ rq.segs, s ∈ st.segNums) (hbin : UsedBinary st rq.keys rq.segs)
    (hfr : st.type = .fractional → rq.rescale = true) (hcap : ceiling st rq ≤ d.maxVal)
    (hno : rq.skipOverlap = true ∨ ∀ k ∈ rq.keys, NoOverlap st rq.segs k) :
    stackRead st rq d false =
      .ok (.combined (rq.keys.map fun k => maxFold (absRows st rq.segs rq.relabel k) (zeros st.npix))) := by
  rw [stackRead_combined_head st rq d hc hnd hfr]
  have hcapV : ∀ s ∈ rq.segs, outVal rq.segs rq.relabel s ≤ d.maxVal :=
    fun s hs => Int.le_trans (outVal_le_ceiling st rq hc s hs) hcap
  rw [mapM_ok _ (fun k => maxFold (absRows st rq.segs rq.relabel k) (zeros st.npix))]
  · rfl
  · intro k hk
    apply combineRow_ok st wf rq.segs rq.relabel hnd k hsub (fun f hf hfk hs => hbin f hf (hfk ▸ hk) hs) d hcapV
    rcases hno with h | h
    · exact Or.inl h
    · exact Or.inr (h k hk)

theorem stackRead_combined_overlap (st : Stored) (rq : Req) (d : DType) (wf : WfStack st) (hc : rq.combine = true)
    (hnd : rq.segs.Nodup) (hsub : ∀ s ∈ rq.segs, s ∈ st.segNums) (hbin : UsedBinary st rq.keys rq.segs)
    (hfr : st.type = .fractional → rq.rescale = true) (hcap : ceiling st rq ≤ d.maxVal)
    (hskip : rq.skipOverlap = false) (k : Nat) (hk : k ∈ rq.keys) (hov : ¬ NoOverlap st rq.segs k) :
    stackRead st rq d false = .error .runtime := by
  rw [stackRead_combined_head st rq d hc hnd hfr, hskip]
  have hcapV : ∀ s ∈ rq.segs, outVal rq.segs rq.relabel s ≤ d.maxVal :=
    fun s hs => Int.le_trans (outVal_le_ceiling st rq hc s hs) hcap
  have hcase : ∀ k', k' ∈ rq.keys → ¬ NoOverlap st rq.segs k' →
      combineRow st.type st.mfv false d st.npix
        (joinRows st.frames (chanTable rq.segs (remapValues rq.segs true rq.relabel)) k') = .error .runtime := by
    intro k' hk' hov'
    unfold NoOverlap at hov'
    have : ∃ s₁ ∈ rq.segs, ∃ s₂ ∈ rq.segs, s₁ ≠ s₂ ∧ ∃ i, covers st k' s₁ i ∧ covers st k' s₂ i := by
      apply Classical.byContradiction
      intro hne
      apply hov'
      intro s₁ h1 s₂ h2 hne12 i hcv
      exact hne ⟨s₁, h1, s₂, h2, hne12, i, hcv⟩
    obtain ⟨s₁, h1, s₂, h2, hne12, i, hc1, hc2⟩ := this
    exact combineRow_overlap st wf rq.segs rq.relabel hnd k' hsub (fun f hf hfk hs => hbin f hf (hfk ▸ hk') hs) d hcapV
      s₁ s₂ i h1 h2 hne12 hc1 hc2
  rw [mapM_error _ _ .runtime]
  · rfl
  · intro k' hk'
    by_cases hn : NoOverlap st rq.segs k'
    · left
      exact ⟨_, combineRow_ok st wf rq.segs rq.relabel hnd k' hsub (fun f hf hfk hs => hbin f hf (hfk ▸ hk') hs) d hcapV
        false (Or.inr hn)⟩
    · right; exact hcase k' hk' hn
  · exact ⟨k, hk, hcase k hk hov⟩



theorem foldlM_error_of_mem {α β} (f : α → β → Except ErrKind α) (l : List β) (init : α)
    (h : ∃ r ∈ l, ∀ a, ∃ e, f a r = .error e) : ∃ e, l.foldlM f init = .error e := by
  induction l generalizing init with
  | nil => obtain ⟨r, hr, _⟩ := h; cases hr
  | cons x t ih =>
    rw [List.foldlM_cons]
    cases hx : f init x with
    | error e => exact ⟨e, rfl⟩
    | ok a' =>
      simp only [bind, Except.bind]
      obtain ⟨r, hr, hall⟩ := h
      rcases List.mem_cons.mp hr with rfl | hrt
      · obtain ⟨e, he⟩ := hall init
        rw [hx] at he; cases he
      · exact ih a' ⟨r, hrt, hall⟩

theorem mapM_error_of_mem {α β} (f : α → Except ErrKind β) (l : List α)
    (h : ∃ x ∈ l, ∃ e, f x = .error e) : ∃ e, l.mapM f = .error e := by
  induction l with
  | nil => obtain ⟨x, hx, _⟩ := h; cases hx
  | cons a t ih =>
    rw [List.mapM_cons]
    cases ha : f a with
    | error e => exact ⟨e, rfl⟩
    | ok y =>
      obtain ⟨x, hx, e, he⟩ := h
      rcases List.mem_cons.mp hx with rfl | hxt
      · rw [ha] at he; cases he
      · obtain ⟨e', he'⟩ := ih ⟨x, hxt, e, he⟩
        exact ⟨e', by simp only [bind, Except.bind, he']⟩

/-- a FRACTIONAL frame with a value other than 0 and MaximumFractionalValue stops the combination loop -/
theorem combineStep_nonbinary (mfv : Nat) (skip : Bool) (d : DType) (acc : List Int) (r : SFrame × Nat)
    (h : ∃ p ∈ r.1.pix, p ≠ 0 ∧ p ≠ mfv) : ∃ e, combineStep .fractional mfv skip d acc r = .error e := by
  unfold combineStep
  by_cases hm : mfv = 0
  · exact ⟨.other, by simp [hm, bind, Except.bind]⟩
  · have : r.1.pix.all (fun p => p == 0 || p == mfv) = false := by
      rw [List.all_eq_false]
      obtain ⟨p, hp, h0, h1⟩ := h
      exact ⟨p, hp, by simp [h0, h1]⟩
    exact ⟨.value, by simp [hm, this, bind, Except.bind]⟩


end HdVerif.SegReadLemmas
