import HdVerif.Proofs.AliasSound
/-! Helper lemmas for C20 (copy-or-alias data flow): reduction of valuations modulo `2^k`, and soundness of the three
Boolean table checks with respect to the store semantics (every concrete run, `Proofs/AliasSound.lean`). -/
set_option linter.unusedSimpArgs false
namespace HdVerif.Aliasing

mutual
theorem exec_mod (k v : Nat) :
    ∀ (st : Stmt) (s : AState), condsBelow k st = true → exec v st s = exec (v % 2 ^ k) st s
  | .assign x e, s, _ => by unfold exec; rfl
  | .write e, s, _ => by unfold exec; rfl
  | .writeDeep e, s, _ => by unfold exec; rfl
  | .link a f b, s, _ => by unfold exec; rfl
  | .ite c t e, s, h => by
    unfold condsBelow at h
    simp only [Bool.and_eq_true, decide_eq_true_eq] at h
    obtain ⟨⟨hc, ht⟩, he⟩ := h
    unfold exec
    rw [Nat.testBit_mod_two_pow]
    simp only [hc, decide_true, Bool.true_and]
    rw [execList_mod k v t s ht, execList_mod k v e s he]
  | .ret e, s, _ => by unfold exec; rfl
  | .raise, s, _ => by unfold exec; rfl
  | .widen ws, s, _ => by unfold exec; rfl

theorem execList_mod (k v : Nat) :
    ∀ (p : List Stmt) (s : AState), condsBelowList k p = true → execList v p s = execList (v % 2 ^ k) p s
  | [], s, _ => by unfold execList; rfl
  | st :: rest, s, h => by
    unfold condsBelowList at h
    simp only [Bool.and_eq_true] at h
    unfold execList
    rw [exec_mod k v st s h.1, execList_mod k v rest _ h.2]
end

/-- only the conditions a program mentions matter to the analysis -/
theorem analyse_mod (e : Entry) (hc : condsBelowList e.nCond e.prog = true) (v : Nat) :
    analyse e.prog e.nIn v = analyse e.prog e.nIn (v % 2 ^ e.nCond) := by
  unfold analyse; exact execList_mod e.nCond v e.prog _ hc

theorem mem_range_mod (v k : Nat) : v % 2 ^ k ∈ List.range (2 ^ k) :=
  List.mem_range.mpr (Nat.mod_lt _ (Nat.two_pow_pos k))

/-! ## soundness of the table checks (about every concrete run) -/

/-- a table entry that passes `neverWritesInputs`: in every run of its program on the store semantics — any world of the
caller, any valuation of the opaque conditions, any oracle, any effect of writes — every cell of the caller ends with the
content it started with -/
theorem neverWritesInputs_sound (e : Entry) (hc : condsBelowList e.nCond e.prog = true) (h : neverWritesInputs e = true)
    (W : World) (hW : W.ok e.nIn) (v : Nat) (ch : Nat → Nat) (w : Nat → Nat → Nat) (c : Nat) (hlt : c < W.base) :
    (runC e.prog e.nIn W v ch w).store c = W.store c := by
  apply sound_clean e.prog hW v ch w _ c hlt
  rw [analyse_mod e hc]
  exact List.all_eq_true.mp h _ (mem_range_mod v e.nCond)

/-- `copy = True`: the caller's cells keep their content and whatever is returned is a cell allocated during the call -/
theorem copyLeavesOriginal_sound (e : Entry) (hc : condsBelowList e.nCond e.prog = true) (hk : 0 < e.nCond)
    (h : copyLeavesOriginal e = true) (W : World) (hW : W.ok e.nIn) (v : Nat) (hv : v.testBit 0 = true) (ch : Nat → Nat)
    (w : Nat → Nat → Nat) :
    (∀ c, c < W.base → (runC e.prog e.nIn W v ch w).store c = W.store c) ∧
    (∀ val, (runC e.prog e.nIn W v ch w).result = some val → W.base ≤ val.cell) := by
  apply sound_fresh e.prog hW v ch w
  rw [analyse_mod e hc]
  have h1 := List.all_eq_true.mp h _ (mem_range_mod v e.nCond)
  have hb : (v % 2 ^ e.nCond).testBit 0 = true := by
    rw [Nat.testBit_mod_two_pow]; simp [hk, hv]
  simpa [hb] using h1

/-- `copy = False`: whatever is returned is the very object passed as argument 0 -/
theorem nocopyReturnsSame_sound (e : Entry) (hc : condsBelowList e.nCond e.prog = true) (hn : 0 < e.nIn)
    (h : nocopyReturnsSame e = true) (W : World) (hW : W.ok e.nIn) (v : Nat) (hv : v.testBit 0 = false) (ch : Nat → Nat)
    (w : Nat → Nat → Nat) (val : CVal)
    (hval : (runC e.prog e.nIn W v ch w).result = some val) : val = ⟨W.args.getD 0 0, true⟩ := by
  apply sound_same e.prog hW hn v ch w _ val hval
  rw [analyse_mod e hc]
  have h1 := List.all_eq_true.mp h _ (mem_range_mod v e.nCond)
  have hb : (v % 2 ^ e.nCond).testBit 0 = false := by
    rw [Nat.testBit_mod_two_pow]; simp [hv]
  simpa [hb] using h1

end HdVerif.Aliasing
