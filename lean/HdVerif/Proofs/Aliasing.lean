import HdVerif.Model.Aliasing
/-! Helper lemmas for C20 (copy-or-alias data flow): the frame property of the write log, independence of the log from
contents, reduction of valuations modulo `2^k`, and soundness of the three Boolean table checks. -/
set_option linter.unusedSimpArgs false
namespace HdVerif.Aliasing

/-- `s'` extends `s`: the write log only grows and every region outside the final log kept its content -/
def Ext (s s' : State) : Prop :=
  (∀ r, r ∈ s.writes → r ∈ s'.writes) ∧ (∀ r, r ∉ s'.writes → s'.store r = s.store r)

theorem Ext.refl (s : State) : Ext s s := ⟨fun _ h => h, fun _ _ => rfl⟩

theorem Ext.trans {a b c : State} (h1 : Ext a b) (h2 : Ext b c) : Ext a c := by
  refine ⟨fun r h => h2.1 r (h1.1 r h), fun r h => ?_⟩
  rw [h2.2 r h]
  exact h1.2 r (fun hb => h (h2.1 r hb))

mutual
theorem exec_ext (v : Nat) (w : Nat → Nat → Nat) : ∀ (st : Stmt) (s : State), Ext s (exec v w st s)
  | .assign x e, s => by
    unfold exec; split
    · exact Ext.refl s
    · exact ⟨fun _ h => h, fun _ _ => rfl⟩
  | .write e, s => by
    unfold exec; split
    · exact Ext.refl s
    · refine ⟨fun r h => ?_, fun r h => ?_⟩
      · simp only [List.mem_append]; exact Or.inr h
      · simp only [List.mem_append, not_or] at h
        have : ((eval s.env s.links s.next e).1.regions).contains r = false := by
          simpa using h.1
        simp only [this]
        rfl
  | .writeDeep e, s => by
    unfold exec; split
    · exact Ext.refl s
    · refine ⟨fun r h => ?_, fun r h => ?_⟩
      · simp only [List.mem_append]; exact Or.inr h
      · simp only [List.mem_append, not_or] at h
        have : (closure s.links (s.links.length + 1) (eval s.env s.links s.next e).1.regions).contains r = false := by
          simpa using h.1
        simp only [this]
        rfl
  | .link a f b, s => by
    unfold exec; split
    · exact Ext.refl s
    · exact ⟨fun _ h => h, fun _ _ => rfl⟩
  | .ite c t e, s => by
    unfold exec; split
    · exact Ext.refl s
    · split
      · exact execList_ext v w t s
      · exact execList_ext v w e s
  | .ret e, s => by
    unfold exec; split
    · exact Ext.refl s
    · exact ⟨fun _ h => h, fun _ _ => rfl⟩
  | .raise, s => by
    unfold exec; split
    · exact Ext.refl s
    · exact ⟨fun _ h => h, fun _ _ => rfl⟩

theorem execList_ext (v : Nat) (w : Nat → Nat → Nat) : ∀ (p : List Stmt) (s : State), Ext s (execList v w p s)
  | [], s => by unfold execList; exact Ext.refl s
  | st :: rest, s => by
    unfold execList
    exact Ext.trans (exec_ext v w st s) (execList_ext v w rest (exec v w st s))
end

/-- **frame**: whatever a program does, a region that is not in its write log has the content it had before -/
theorem frame (p : Prog) (nIn v : Nat) (w : Nat → Nat → Nat) (store : Nat → Nat) (r : Nat)
    (h : r ∉ (run p nIn v w store).writes) : (run p nIn v w store).store r = store r :=
  (execList_ext v w p (init nIn store)).2 r h

/-- two states that agree on everything but the contents -/
def Sim (a b : State) : Prop :=
  a.env = b.env ∧ a.next = b.next ∧ a.links = b.links ∧ a.writes = b.writes ∧ a.result = b.result ∧ a.halted = b.halted

mutual
theorem exec_sim (v : Nat) (w w' : Nat → Nat → Nat) :
    ∀ (st : Stmt) (a b : State), Sim a b → Sim (exec v w st a) (exec v w' st b)
  | .assign x e, a, b, h => by
    obtain ⟨h1, h2, h3, h4, h5, h6⟩ := h
    unfold exec; rw [h6]; split
    · exact ⟨h1, h2, h3, h4, h5, h6⟩
    · refine ⟨?_, ?_, ?_, ?_, ?_, ?_⟩ <;> simp [h1, h2, h3, h4, h5, h6]
  | .write e, a, b, h => by
    obtain ⟨h1, h2, h3, h4, h5, h6⟩ := h
    unfold exec; rw [h6]; split
    · exact ⟨h1, h2, h3, h4, h5, h6⟩
    · refine ⟨?_, ?_, ?_, ?_, ?_, ?_⟩ <;> simp [h1, h2, h3, h4, h5, h6]
  | .writeDeep e, a, b, h => by
    obtain ⟨h1, h2, h3, h4, h5, h6⟩ := h
    unfold exec; rw [h6]; split
    · exact ⟨h1, h2, h3, h4, h5, h6⟩
    · refine ⟨?_, ?_, ?_, ?_, ?_, ?_⟩ <;> simp [h1, h2, h3, h4, h5, h6]
  | .link x f y, a, b, h => by
    obtain ⟨h1, h2, h3, h4, h5, h6⟩ := h
    unfold exec; rw [h6]; split
    · exact ⟨h1, h2, h3, h4, h5, h6⟩
    · refine ⟨?_, ?_, ?_, ?_, ?_, ?_⟩ <;> simp [h1, h2, h3, h4, h5, h6]
  | .ite c t e, a, b, h => by
    have h6 := h.2.2.2.2.2
    unfold exec; rw [h6]; split
    · exact h
    · split
      · exact execList_sim v w w' t a b h
      · exact execList_sim v w w' e a b h
  | .ret e, a, b, h => by
    obtain ⟨h1, h2, h3, h4, h5, h6⟩ := h
    unfold exec; rw [h6]; split
    · exact ⟨h1, h2, h3, h4, h5, h6⟩
    · refine ⟨?_, ?_, ?_, ?_, ?_, ?_⟩ <;> simp [h1, h2, h3, h4, h5, h6]
  | .raise, a, b, h => by
    obtain ⟨h1, h2, h3, h4, h5, h6⟩ := h
    unfold exec; rw [h6]; split
    · exact ⟨h1, h2, h3, h4, h5, h6⟩
    · refine ⟨?_, ?_, ?_, ?_, ?_, ?_⟩ <;> simp [h1, h2, h3, h4, h5, h6]

theorem execList_sim (v : Nat) (w w' : Nat → Nat → Nat) :
    ∀ (p : List Stmt) (a b : State), Sim a b → Sim (execList v w p a) (execList v w' p b)
  | [], a, b, h => by unfold execList; exact h
  | st :: rest, a, b, h => by
    unfold execList
    exact execList_sim v w w' rest _ _ (exec_sim v w w' st a b h)
end

/-- the write log, the result and termination of a run do not depend on the contents or on what a write does:
`summary` describes every run -/
theorem run_summary (p : Prog) (nIn v : Nat) (w : Nat → Nat → Nat) (store : Nat → Nat) :
    ((run p nIn v w store).writes, (run p nIn v w store).result, (run p nIn v w store).halted) = summary p nIn v := by
  have h := execList_sim v w (fun _ x => x) p (init nIn store) (init nIn (fun _ => 0)) ⟨rfl, rfl, rfl, rfl, rfl, rfl⟩
  unfold summary run
  obtain ⟨_, _, _, h4, h5, h6⟩ := h
  simp only [h4, h5, h6]

mutual
theorem exec_mod (k v : Nat) (w : Nat → Nat → Nat) :
    ∀ (st : Stmt) (s : State), condsBelow k st = true → exec v w st s = exec (v % 2 ^ k) w st s
  | .assign x e, s, _ => by unfold exec; rfl
  | .write e, s, _ => by unfold exec; rfl
  | .writeDeep e, s, _ => by unfold exec; rfl
  | .link a f b, s, _ => by unfold exec; rfl
  | .ite c t e, s, h => by
    unfold condsBelow at h
    simp only [Bool.and_eq_true, decide_eq_true_eq] at h
    obtain ⟨⟨hc, ht⟩, he⟩ := h
    unfold exec
    rw [Nat.testBit_mod_two_pow]
    simp only [hc, decide_true, Bool.true_and]
    rw [execList_mod k v w t s ht, execList_mod k v w e s he]
  | .ret e, s, _ => by unfold exec; rfl
  | .raise, s, _ => by unfold exec; rfl

theorem execList_mod (k v : Nat) (w : Nat → Nat → Nat) :
    ∀ (p : List Stmt) (s : State), condsBelowList k p = true → execList v w p s = execList (v % 2 ^ k) w p s
  | [], s, _ => by unfold execList; rfl
  | st :: rest, s, h => by
    unfold condsBelowList at h
    simp only [Bool.and_eq_true] at h
    unfold execList
    rw [exec_mod k v w st s h.1, execList_mod k v w rest _ h.2]
end

/-! ## soundness of the table checks -/

theorem run_mod (e : Entry) (hc : condsBelowList e.nCond e.prog = true) (v : Nat) (w : Nat → Nat → Nat)
    (store : Nat → Nat) : run e.prog e.nIn v w store = run e.prog e.nIn (v % 2 ^ e.nCond) w store := by
  unfold run; exact execList_mod e.nCond v w e.prog _ hc

theorem mem_range_mod (v k : Nat) : v % 2 ^ k ∈ List.range (2 ^ k) :=
  List.mem_range.mpr (Nat.mod_lt _ (Nat.two_pow_pos k))

/-- a table entry that passes `neverWritesInputs`: in every run, whatever the opaque conditions decide and whatever a
write does to the content of the regions it hits, every input region ends with the content it started with -/
theorem neverWritesInputs_sound (e : Entry) (hc : condsBelowList e.nCond e.prog = true)
    (h : neverWritesInputs e = true) (v : Nat) (w : Nat → Nat → Nat) (store : Nat → Nat) (r : Nat) (hr : r < e.nIn) :
    (run e.prog e.nIn v w store).store r = store r := by
  rw [run_mod e hc]
  apply frame
  intro hmem
  have hs := run_summary e.prog e.nIn (v % 2 ^ e.nCond) w store
  unfold neverWritesInputs at h
  have h1 := List.all_eq_true.mp h _ (mem_range_mod v e.nCond)
  rw [← hs] at h1
  have := List.all_eq_true.mp h1 r hmem
  simp at this
  omega

/-- `copy = True`: the inputs keep their content and whatever is returned lives in a newly allocated region -/
theorem copyLeavesOriginal_sound (e : Entry) (hc : condsBelowList e.nCond e.prog = true) (hk : 0 < e.nCond)
    (h : copyLeavesOriginal e = true) (v : Nat) (hv : v.testBit 0 = true) (w : Nat → Nat → Nat) (store : Nat → Nat) :
    (∀ r, r < e.nIn → (run e.prog e.nIn v w store).store r = store r) ∧
    (∀ ref, (run e.prog e.nIn v w store).result = some ref → ∀ k ∈ ref.regions, e.nIn ≤ k) := by
  rw [run_mod e hc]
  have hs := run_summary e.prog e.nIn (v % 2 ^ e.nCond) w store
  unfold copyLeavesOriginal at h
  have h1 := List.all_eq_true.mp h _ (mem_range_mod v e.nCond)
  have hb : (v % 2 ^ e.nCond).testBit 0 = true := by
    rw [Nat.testBit_mod_two_pow]; simp [hk, hv]
  rw [← hs] at h1
  simp only [hb, Bool.not_true, Bool.false_or, Bool.and_eq_true] at h1
  refine ⟨fun r hr => ?_, fun ref href => ?_⟩
  · apply frame
    intro hmem
    have := List.all_eq_true.mp h1.1 r hmem
    simp at this
    omega
  · have h2 := h1.2
    rw [href] at h2
    intro k hk
    have := List.all_eq_true.mp h2 k hk
    simpa using this

/-- `copy = False`: whatever is returned is the object that was passed in -/
theorem nocopyReturnsSame_sound (e : Entry) (hc : condsBelowList e.nCond e.prog = true)
    (h : nocopyReturnsSame e = true) (v : Nat) (hv : v.testBit 0 = false) (w : Nat → Nat → Nat) (store : Nat → Nat)
    (ref : Ref) (href : (run e.prog e.nIn v w store).result = some ref) : ref = ⟨[0], true⟩ := by
  rw [run_mod e hc] at href
  have hs := run_summary e.prog e.nIn (v % 2 ^ e.nCond) w store
  unfold nocopyReturnsSame at h
  have h1 := List.all_eq_true.mp h _ (mem_range_mod v e.nCond)
  have hb : (v % 2 ^ e.nCond).testBit 0 = false := by
    rw [Nat.testBit_mod_two_pow]; simp [hv]
  rw [← hs] at h1
  simp only [hb, Bool.false_or, href] at h1
  simpa using h1

end HdVerif.Aliasing
