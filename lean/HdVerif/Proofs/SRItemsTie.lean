import HdVerif.Model.SRItems
import HdVerif.Generated.T13v
import HdVerif.Generated.T14v
/-! C13: three hand-written accessors/constructors of `Model/SRItems.lean` use exactly the expressions the
current source contains (regenerated as `Generated/T13v.lean` on every run):

* `numValue` / `mkNum`: the order in which `NumContentItem.value` tries `FloatingPointValue` and
  `NumericValue`, and the guard under which the constructor writes `FloatingPointValue`;
* `pairUp`: the `range(start, stop, step)` and the two indices of
  `WaveformContentItem.referenced_waveform_channels`;
* `scoordValue` / `scoord3dValue`: the widths of `reshape(-1, …)`.

A change of the attempt order, of the guard, of a `range` argument, of an index or of a width breaks one of
these statements. -/
namespace HdVerif.SRItemsTie
open HdVerif HdVerif.SRItems

/-! ## NUM -/

/-- the attributes of a MeasuredValueSequence item by keyword -/
def measuredField (num : Rat) (fp : Option Rat) (k : String) : Option Rat :=
  if k == "FloatingPointValue" then fp else if k == "NumericValue" then some num else none

/-- `try: return float(item.<first>) except AttributeError: return float(item.<second>)`: the first keyword of the
regenerated order whose attribute is present -/
def numReadGen (num : Rat) (fp : Option Rat) : Option Rat := Gen.numValueOrder.findSome? (measuredField num fp)

/-- the model's `numValue` reads in the regenerated order -/
theorem numValue_order (it : Item) :
    numValue it =
      (match it.attrs.lookup "MeasuredValueSequence" with
       | some (.measured num fp _) => numReadGen num fp
       | _ => none) := by
  unfold numValue
  cases h : it.attrs.lookup "MeasuredValueSequence" with
  | none => rfl
  | some v =>
    cases v <;> try rfl
    rename_i num fp u
    cases fp <;> simp [numReadGen, Gen.numValueOrder, measuredField]

/-- the model's constructor writes `FloatingPointValue` under the regenerated guard -/
theorem mkNum_float_guard (ds : Rat → Rat) (name : Coded) (value : Rat) (isFloat : Bool) (unit : Coded)
    (qualifier : Option Coded) (rel : Option String) :
    mkNum ds name value isFloat unit qualifier rel =
      withAttrs .num name rel
        ([("MeasuredValueSequence",
            .measured (ds value) (if Gen.numWritesFloat isFloat = .ok true then some value else none) unit)] ++
         (match qualifier with
          | none => []
          | some q => [("NumericValueQualifierCodeSequence", .code q)])) := by
  cases isFloat <;> cases qualifier <;> simp [mkNum, Gen.numWritesFloat]

/-! ## WAVEFORM -/

/-- Python's `range(start, stop, step)` for a positive step -/
def pyRange3 (start stop step : Int) : List Int :=
  (List.range ((stop - start + step - 1) / step).toNat).map (fun (k : Nat) => start + (k : Int) * step)

/-- `[(val[a(i)], val[b(i)]) for i in range(start, stop, step)]` with every expression regenerated -/
def pairUpGen (l : List Int) : Except ErrKind (List (Int × Int)) := do
  let start ← Gen.wfRangeStart l.length
  let stop ← Gen.wfRangeStop l.length
  let step ← Gen.wfRangeStep l.length
  (pyRange3 start stop step).mapM (fun i => do
    let a ← Gen.wfFirstIndex i
    let b ← Gen.wfSecondIndex i
    .ok (l.getD a.toNat 0, l.getD b.toNat 0))

theorem pairUp_closed : ∀ l : List Int,
    pairUp l = (List.range (l.length / 2)).map (fun k => (l.getD (2 * k) 0, l.getD (2 * k + 1) 0))
  | [] => by simp [pairUp]
  | [_] => by simp [pairUp]
  | a :: b :: r => by
    have h : (a :: b :: r).length / 2 = r.length / 2 + 1 := by simp only [List.length_cons]; omega
    rw [pairUp, pairUp_closed r, h, List.range_succ_eq_map]
    simp only [List.map_cons, List.map_map, Nat.mul_zero, List.getD_cons_zero, List.getD_cons_succ]
    congr 1

theorem mapM_ok {α β} (f : α → β) : ∀ l : List α, l.mapM (fun x => (Except.ok (f x) : Except ErrKind β)) = .ok (l.map f)
  | [] => rfl
  | x :: r => by
    rw [List.mapM_cons, mapM_ok f r]; rfl

/-- the model's pairing is the regenerated comprehension -/
theorem pairUp_eq_gen (l : List Int) : pairUpGen l = .ok (pairUp l) := by
  simp only [pairUpGen, Gen.wfRangeStart, Gen.wfRangeStop, Gen.wfRangeStep, Gen.wfFirstIndex, Gen.wfSecondIndex,
    bind, Except.bind]
  rw [mapM_ok (fun i : Int => (l.getD i.toNat 0, l.getD (i + 1).toNat 0)), pairUp_closed, pyRange3]
  have hc : (((l.length : Int) - 1 - 0 + 2 - 1) / 2).toNat = l.length / 2 := by omega
  rw [hc, List.map_map]
  congr 1
  apply List.map_congr_left
  intro k _
  have a : ((0 : Int) + (k : Int) * 2).toNat = 2 * k := by omega
  have b : ((0 : Int) + (k : Int) * 2 + 1).toNat = 2 * k + 1 := by omega
  simp only [Function.comp, a, b]

/-! ## SCOORD / SCOORD3D -/

/-- the model's accessors cut `GraphicData` into rows of the regenerated widths -/
theorem scoordValue_width (it : Item) :
    scoordValue it = (graphicData it).map (fun l => chunk Gen.scoordReshapeWidth l.length l) := rfl

theorem scoord3dValue_width (it : Item) :
    scoord3dValue it = (graphicData it).map (fun l => chunk Gen.scoord3dReshapeWidth l.length l) := rfl

/-! ## nested content: the attribute setter -/

/-- `item.ContentSequence = children` as the current `ContentItem.__setattr__` reads (T14v): a sequence is BUILT from the
children with the regenerated flags — the children are checked by the constructor's tree and the item gets content of its
own (a value of the model: nothing the caller still holds is inside the item) -/
def setContentGen (it : Item) (children : List Item) : Except ErrKind Item :=
  if Gen.csAttachRebuilds then
    match ctorAll Gen.csAttachFlags.1 Gen.csAttachFlags.2 children with
    | .error e => .error e
    | .ok _ => .ok (.mk it.cls it.attrs (some children))
  else .error .other

theorem setContent_eq_gen (it : Item) (children : List Item) : setContent it children = setContentGen it children := rfl

end HdVerif.SRItemsTie
