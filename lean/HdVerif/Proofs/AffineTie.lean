import HdVerif.Proofs.Affine
import HdVerif.Generated.TC10f
/-! Bridges between the hand-written coordinate model (`Model/Affine.lean`) and the source.

The transformers, `create_affine_matrix_from_components` and `compute_tile_positions_per_frame` are written by hand in the
model: which constructor argument reaches which parameter, which defaults apply, in which order the matrices are multiplied,
the centre formula, the tile index arithmetic.  `translate/targets_C10.py` (target TC10f) extracts all of that from the
source; here every such hand-written definition is shown EQUAL to a twin (`…Src`) that takes those pieces from the regenerated
definitions.  A change of the source changes the regenerated definition, and the bridge (an obligation of C10) fails. -/
namespace HdVerif.Affine
open HdVerif

/-! ## argument forwarding, defaults, product order of the transformers -/

/-- a call `create_affine_matrix_from_attributes(image_position=, image_orientation=, pixel_spacing=[, spacing_between_slices=])`
as the source writes it: omitted arguments take the source's defaults -/
def callAffine (a : List Rat × List Rat × Spacing × Option Rat) : Except ErrKind Aff :=
  affineFromAttributes a.1 a.2.1 a.2.2.1 (a.2.2.2.getD Gen.affineDefaultSpacingBetweenSlices)
    Gen.affineDefaultConvention Gen.affineDefaultSlicesFirst Gen.affineDefaultRightHanded

/-- `_create_inv_affine_matrix_from_attributes` with the source's rotation call: the arguments it does not pass take the
defaults of `create_rotation_matrix` -/
def invAffineFromAttributesSrc (pos : List Rat) (ori : List Rat) (ps : Spacing) (sbs : Rat) : Except ErrKind Aff := do
  let p ← (match V3.ofList pos with | some p => pure p | none => .error .value : Except ErrKind V3)
  let c := Gen.invAffineRotationCall pos ori ps sbs
  let o ← (match Ori.ofList c.1 with | some o => pure o | none => .error .value : Except ErrKind Ori)
  match ps with
  | .scalar _ => .error .type
  | .seq l =>
    if l.length ≠ 2 then .error .value
    else do
      let r ← createRotation o (c.2.1.getD Gen.rotationDefaultConvention) (c.2.2.1.getD Gen.rotationDefaultSlicesFirst)
        (c.2.2.2.1.getD Gen.rotationDefaultRightHanded) (c.2.2.2.2.1.getD (.scalar Gen.rotationDefaultPixelSpacing))
        (c.2.2.2.2.2.getD Gen.rotationDefaultSpacingBetweenSlices)
      let ri ← r.inv
      pure ⟨ri, (ri.mulVec p).neg⟩

theorem invAffineFromAttributes_uses_source (pos ori : List Rat) (ps : Spacing) (sbs : Rat) :
    invAffineFromAttributes pos ori ps sbs = invAffineFromAttributesSrc pos ori ps sbs := rfl

/-- the same call as a transformer constructor writes it -/
def callInvAffine (a : List Rat × List Rat × Spacing × Option Rat) : Except ErrKind Aff :=
  invAffineFromAttributes a.1 a.2.1 a.2.2.1 (a.2.2.2.getD Gen.invAffineDefaultSpacingBetweenSlices)

/-- `_are_images_coplanar(image_position_a=, image_orientation_a=, image_position_b=, image_orientation_b=)` on raw lists -/
def callCoplanar (c : List Rat × List Rat × List Rat × List Rat) : Except ErrKind Bool := do
  let pf ← (match V3.ofList c.1 with | some p => pure p | none => .error .value : Except ErrKind V3)
  let pt ← (match V3.ofList c.2.2.1 with | some p => pure p | none => .error .value : Except ErrKind V3)
  let of' ← (match Ori.ofList c.2.1 with | some o => pure o | none => .error .value : Except ErrKind Ori)
  let ot ← (match Ori.ofList c.2.2.2 with | some o => pure o | none => .error .value : Except ErrKind Ori)
  areCoplanar pf of' pt ot

theorem one_div_one : ((1 : Rat) / 1) = 1 := by decide +kernel

theorem pixToRefAffine_uses_source (pos ori : List Rat) (ps : Spacing) :
    pixToRefAffine pos ori ps = callAffine (Gen.pixToRefCall pos ori ps) := by
  simp only [pixToRefAffine, callAffine, Gen.pixToRefCall, Option.getD_none, Gen.affineDefaultSpacingBetweenSlices,
    Gen.affineDefaultConvention, Gen.affineDefaultSlicesFirst, Gen.affineDefaultRightHanded, one_div_one]

theorem refToPix_uses_source (pos ori : List Rat) (ps : Spacing) (sbs : Rat) (v : V3) :
    refToPix pos ori ps sbs v = (do let a ← callInvAffine (Gen.refToPixCall pos ori ps sbs); pure (a.apply v)) := rfl

def pixToPixAffineSrc (posF oriF : List Rat) (psF : Spacing) (posT oriT : List Rat) (psT : Spacing) : Except ErrKind Aff := do
  let cop ← callCoplanar (Gen.pixToPixCoplanarCall posF oriF psF posT oriT psT)
  if !cop then .error .value
  else do
    let p2r ← callAffine (Gen.pixToPixForwardCall posF oriF psF posT oriT psT)
    let r2p ← callInvAffine (Gen.pixToPixInverseCall posF oriF psF posT oriT psT)
    pure (Gen.pixToPixProduct Aff.comp p2r r2p)

theorem bind_assoc' {α β γ} (x : Except ErrKind α) (f : α → Except ErrKind β) (g : β → Except ErrKind γ) :
    (x >>= f) >>= g = x >>= fun a => f a >>= g := by
  cases x <;> rfl

theorem pixToPixAffine_uses_source (posF oriF : List Rat) (psF : Spacing) (posT oriT : List Rat) (psT : Spacing) :
    pixToPixAffine posF oriF psF posT oriT psT = pixToPixAffineSrc posF oriF psF posT oriT psT := by
  simp only [pixToPixAffine, pixToPixAffineSrc, callCoplanar, callAffine, callInvAffine, Gen.pixToPixCoplanarCall,
    Gen.pixToPixForwardCall, Gen.pixToPixInverseCall, Gen.pixToPixProduct, Option.getD_none,
    Gen.affineDefaultSpacingBetweenSlices, Gen.invAffineDefaultSpacingBetweenSlices,
    Gen.affineDefaultConvention, Gen.affineDefaultSlicesFirst, Gen.affineDefaultRightHanded, one_div_one, bind_assoc']
  rfl

def imgToRefAffineSrc (pos ori : List Rat) (ps : Spacing) : Except ErrKind Aff := do
  let a ← callAffine (Gen.imgToRefCall pos ori ps)
  pure (Gen.imgToRefProduct Aff.comp a (Aff.shift (vecOfTriple Gen.imgToRefCorrection)))

theorem imgToRefAffine_uses_source (pos ori : List Rat) (ps : Spacing) :
    imgToRefAffine pos ori ps = imgToRefAffineSrc pos ori ps := by
  simp only [imgToRefAffine, imgToRefAffineSrc, callAffine, Gen.imgToRefCall, Gen.imgToRefProduct, Option.getD_none,
    Gen.affineDefaultSpacingBetweenSlices, Gen.affineDefaultConvention, Gen.affineDefaultSlicesFirst,
    Gen.affineDefaultRightHanded, one_div_one]

def refToImgAffineSrc (pos ori : List Rat) (ps : Spacing) (sbs : Rat) : Except ErrKind Aff := do
  let a ← callInvAffine (Gen.refToImgCall pos ori ps sbs)
  pure (Gen.refToImgProduct Aff.comp a (Aff.shift (vecOfTriple Gen.refToImgCorrection)))

theorem refToImgAffine_uses_source (pos ori : List Rat) (ps : Spacing) (sbs : Rat) :
    refToImgAffine pos ori ps sbs = refToImgAffineSrc pos ori ps sbs := rfl

def imgToImgAffineSrc (posF oriF : List Rat) (psF : Spacing) (posT oriT : List Rat) (psT : Spacing) : Except ErrKind Aff := do
  let cop ← callCoplanar (Gen.imgToImgCoplanarCall posF oriF psF posT oriT psT)
  if !cop then .error .value
  else do
    let r2p ← callInvAffine (Gen.imgToImgInverseCall posF oriF psF posT oriT psT)
    let p2r ← callAffine (Gen.imgToImgForwardCall posF oriF psF posT oriT psT)
    pure (Gen.imgToImgProduct Aff.comp (Aff.shift (vecOfTriple Gen.pixToImCorrection)) r2p p2r
      (Aff.shift (vecOfTriple Gen.imToPixCorrection)))

theorem imgToImgAffine_uses_source (posF oriF : List Rat) (psF : Spacing) (posT oriT : List Rat) (psT : Spacing) :
    imgToImgAffine posF oriF psF posT oriT psT = imgToImgAffineSrc posF oriF psF posT oriT psT := by
  simp only [imgToImgAffine, imgToImgAffineSrc, callCoplanar, callAffine, callInvAffine, Gen.imgToImgCoplanarCall,
    Gen.imgToImgForwardCall, Gen.imgToImgInverseCall, Gen.imgToImgProduct, Option.getD_none,
    Gen.affineDefaultSpacingBetweenSlices, Gen.invAffineDefaultSpacingBetweenSlices,
    Gen.affineDefaultConvention, Gen.affineDefaultSlicesFirst, Gen.affineDefaultRightHanded, one_div_one, bind_assoc']
  rfl

/-! ## `create_affine_matrix_from_components`: scaled direction and the centre formula -/

/-- a column of `direction_arr * spacing` with the source's entry expression -/
def scaledColSrc (s : Rat) (v : V3) : Except ErrKind V3 := do
  let x ← Gen.scaledDirectionEntry v.x s
  let y ← Gen.scaledDirectionEntry v.y s
  let z ← Gen.scaledDirectionEntry v.z s
  pure ⟨x, y, z⟩

/-- position of the first voxel from the centre with the source's expressions -/
def positionFromCenterSrc (scaled : M3) (cv : V3) (n0 n1 n2 : Int) : Except ErrKind V3 := do
  let i0 ← Gen.centerIndex n0
  let i1 ← Gen.centerIndex n1
  let i2 ← Gen.centerIndex n2
  let moved := scaled.mulVec ⟨i0, i1, i2⟩
  let x ← Gen.centerToPosition cv.x moved.x
  let y ← Gen.centerToPosition cv.y moved.y
  let z ← Gen.centerToPosition cv.z moved.z
  pure ⟨x, y, z⟩

/-- `affineFromComponents` with the source's expressions for the scaled direction and the centre -/
def affineFromComponentsSrc (spacing : Spacing) (position center : Option (List Rat))
    (direction : Option (List Rat)) (orient : Option (List Char)) (shape : Option (List Int)) :
    Except ErrKind Aff := do
  if direction.isNone == orient.isNone then .error .type
  else if position.isNone == center.isNone then .error .type
  else do
    let s ← (match spacing with
      | .scalar s => pure (⟨s, s, s⟩ : V3)
      | .seq [a, b, c] => pure ⟨a, b, c⟩
      | .seq _ => .error .value : Except ErrKind V3)
    if s.x ≤ 0 ∨ s.y ≤ 0 ∨ s.z ≤ 0 then .error .value
    else do
      let dir ← (match direction, orient with
        | some [a, b, c, d, e, f, g, h, i], _ =>
          let m := M3.ofRows ⟨a, b, c⟩ ⟨d, e, f⟩ ⟨g, h, i⟩
          if isOrthogonal m true then pure m else .error .value
        | some _, _ => .error .value
        | none, some o => rotationForOrientation o ⟨1, 1, 1⟩
        | none, none => .error .type : Except ErrKind M3)
      let c0 ← scaledColSrc s.x dir.c0
      let c1 ← scaledColSrc s.y dir.c1
      let c2 ← scaledColSrc s.z dir.c2
      let scaled : M3 := ⟨c0, c1, c2⟩
      match position, center with
      | some p, _ =>
        match V3.ofList p with
        | some pv => pure ⟨scaled, pv⟩
        | none => .error .value
      | none, some c =>
        match shape with
        | none => .error .type
        | some [n0, n1, n2] =>
          match V3.ofList c with
          | some cv => do
            let t ← positionFromCenterSrc scaled cv n0 n1 n2
            pure ⟨scaled, t⟩
          | none => .error .value
        | some _ => .error .value
      | none, none => .error .type

theorem scaledColSrc_eq (s : Rat) (v : V3) : scaledColSrc s v = .ok (V3.smul s v) := by
  simp only [scaledColSrc, Gen.scaledDirectionEntry, bind, Except.bind, pure, Except.pure, V3.smul, mul_comm]

theorem positionFromCenterSrc_eq (scaled : M3) (cv : V3) (n0 n1 n2 : Int) :
    positionFromCenterSrc scaled cv n0 n1 n2
      = .ok (cv.sub (scaled.mulVec ⟨((n0 : Rat) - 1) / 2, ((n1 : Rat) - 1) / 2, ((n2 : Rat) - 1) / 2⟩)) := by
  have h2 : ((2 : Rat) / 1) = 2 := by norm_num
  simp only [positionFromCenterSrc, Gen.centerIndex, Gen.centerToPosition, bind, Except.bind, pure, Except.pure, V3.sub,
    one_div_one, h2]

theorem affineFromComponents_uses_source (spacing : Spacing) (position center : Option (List Rat))
    (direction : Option (List Rat)) (orient : Option (List Char)) (shape : Option (List Int)) :
    affineFromComponents spacing position center direction orient shape
      = affineFromComponentsSrc spacing position center direction orient shape := by
  unfold affineFromComponents affineFromComponentsSrc
  simp only [scaledColSrc_eq, positionFromCenterSrc_eq, bind, Except.bind, pure, Except.pure]
  rfl

/-! ## `compute_tile_positions_per_frame`: index arithmetic -/

/-- `tilePosition` with the source's expressions: pixel index of the tile, transformer arguments, the reported 1-based
offsets; the position is computed from the pixel index before (`Gen.tilePositionsBeforeShift`) or after the shift -/
def tilePositionSrc (rows cols totalRows totalCols : Int) (totalPos ori : List Rat) (ps : Spacing) (tc tr : Int) :
    Except ErrKind ((Int × Int) × V3) := do
  let ix := Gen.tilePixelIndex tc tr cols rows
  let a := Gen.tileTransformerCall rows cols totalRows totalCols totalPos ori ps
  let c ← Gen.tileOneBased ix.1
  let r ← Gen.tileOneBased ix.2
  let p ← (if Gen.tilePositionsBeforeShift then pixToRef a.1 a.2.1 a.2.2 ix.1 ix.2 else pixToRef a.1 a.2.1 a.2.2 c r)
  pure ((c, r), p)

theorem tilePosition_uses_source (rows cols totalRows totalCols : Int) (totalPos ori : List Rat) (ps : Spacing) (tc tr : Int) :
    tilePosition rows cols totalPos ori ps tc tr = tilePositionSrc rows cols totalRows totalCols totalPos ori ps tc tr := by
  simp only [tilePosition, tilePositionSrc, Gen.tilePixelIndex, Gen.tileTransformerCall, Gen.tileOneBased,
    Gen.tilePositionsBeforeShift, if_true, bind, Except.bind, pure, Except.pure]

end HdVerif.Affine
