import HdVerif.Model.SegFrameLoop
import HdVerif.Proofs.SegGeom
import Mathlib.Data.List.Perm.Subperm
/-! Lemmas for the frame loop of `Segmentation.__init__` (`Model/SegFrameLoop.lean`): bridges to the regenerated pieces
(TC03loop), `np.unique(…, return_index=True)` = strictly sorted permutation, the frames of the loop by induction over
the planes, rank of a plane along the normal = its dimension index value. -/
namespace HdVerif.SegFrameLoopLemmas
open HdVerif HdVerif.Gen HdVerif.SegGeom HdVerif.SegGeom.V3 HdVerif.SegFrameLoop HdVerif.SegGeomLemmas

/-! ## bridges to the regenerated expressions (tie T) -/

/-- the skip test of the model is the regenerated one -/
theorem frameSkipped_eq (s : Option Nat) (om present : Bool) :
    frameSkipped (s.map Int.ofNat) om present = .ok (skipped s om present) := by
  cases s <;> cases om <;> cases present <;> rfl

/-- the dimension index value of a frame is `plane_dim_ind` -/
theorem framePlaneIndexValue_eq (d p : Int) : framePlaneIndexValue d p = .ok d := rfl

/-- `omit_empty_frames` as the loop sees it -/
theorem omitEffective_eq (nonempty : List Bool) (om : Bool) :
    omitEffective om (nonemptyIdx nonempty).isEmpty = .ok (omitEff nonempty om) := by
  unfold omitEffective omitEff
  cases om <;> cases (nonemptyIdx nonempty).isEmpty <;> rfl

theorem frameEnumStart_eq : frameEnumStart = 1 := rfl

/-- the regenerated index bookkeeping of the loop body: pixels and position are taken with the SAME `plane_index`, the
dimension index value is `plane_dim_ind` (what `planeFrames` writes into `plane`, `posPlane`, `div`) -/
theorem frameBookkeeping_eq (d p : Int) : frameBookkeeping d p = .ok (p, p, d) := rfl

/-- the planes kept by the model of the read-side theorems (`SegGeom.keptPlanes`) use the same index list -/
theorem keptPlanes_eq (nonempty : List Bool) (om : Bool) :
    keptPlanes nonempty om = if omitEff nonempty om then nonemptyIdx nonempty else List.range nonempty.length := rfl

/-! ## `np.unique(values, return_index=True)` -/

theorem mem_insertKey (d : Rat) (i : Nat) (l : List (Rat × Nat)) (x : Rat × Nat) (h : x ∈ insertKey d i l) :
    x = (d, i) ∨ x ∈ l := by
  induction l with
  | nil => simp only [insertKey, List.mem_singleton] at h; exact Or.inl h
  | cons a t ih =>
    obtain ⟨e, j⟩ := a
    simp only [insertKey] at h
    split at h
    · rcases List.mem_cons.mp h with h | h
      · exact Or.inl h
      · exact Or.inr h
    · split at h
      · rcases List.mem_cons.mp h with h | h
        · exact Or.inl h
        · exact Or.inr (List.mem_cons_of_mem _ h)
      · rcases List.mem_cons.mp h with h | h
        · exact Or.inr (by rw [h]; exact List.mem_cons_self)
        · rcases ih h with h | h
          · exact Or.inl h
          · exact Or.inr (List.mem_cons_of_mem _ h)

theorem insertKey_sorted (d : Rat) (i : Nat) (l : List (Rat × Nat)) (h : l.Pairwise (fun a b => a.1 < b.1)) :
    (insertKey d i l).Pairwise (fun a b => a.1 < b.1) := by
  induction l with
  | nil => simp [insertKey]
  | cons a t ih =>
    obtain ⟨e, j⟩ := a
    have ht := (List.pairwise_cons.mp h).2
    have ha := (List.pairwise_cons.mp h).1
    simp only [insertKey]
    split
    · rename_i hlt
      refine List.pairwise_cons.mpr ⟨?_, h⟩
      intro x hx
      rcases List.mem_cons.mp hx with hx | hx
      · rw [hx]; exact hlt
      · exact lt_trans hlt (ha x hx)
    · split
      · rename_i _ heq
        refine List.pairwise_cons.mpr ⟨?_, ht⟩
        intro x hx
        show d < x.1
        rw [heq]; exact ha x hx
      · rename_i hnlt hne
        refine List.pairwise_cons.mpr ⟨?_, ih ht⟩
        intro x hx
        rcases mem_insertKey d i t x hx with hx | hx
        · rw [hx]
          show e < d
          rcases lt_trichotomy d e with h1 | h1 | h1
          · exact absurd h1 hnlt
          · exact absurd h1 hne
          · exact h1
        · exact ha x hx

theorem insertKey_perm (d : Rat) (i : Nat) (l : List (Rat × Nat)) (h : ∀ x ∈ l, x.1 ≠ d) :
    (insertKey d i l).Perm ((d, i) :: l) := by
  induction l with
  | nil => simp [insertKey]
  | cons a t ih =>
    obtain ⟨e, j⟩ := a
    simp only [insertKey]
    split
    · exact List.Perm.refl _
    · split
      · rename_i heq
        exact absurd heq.symm (h (e, j) List.mem_cons_self)
      · exact ((ih (fun x hx => h x (List.mem_cons_of_mem _ hx))).cons (e, j)).trans (List.Perm.swap _ _ _)

theorem uniqueSorted_sorted (l : List (Rat × Nat)) : (uniqueSorted l).Pairwise (fun a b => a.1 < b.1) := by
  induction l with
  | nil => simp [uniqueSorted]
  | cons a t ih => obtain ⟨d, i⟩ := a; exact insertKey_sorted d i _ ih

theorem uniqueSorted_perm (l : List (Rat × Nat)) (h : (l.map Prod.fst).Nodup) : (uniqueSorted l).Perm l := by
  induction l with
  | nil => simp [uniqueSorted]
  | cons a t ih =>
    obtain ⟨d, i⟩ := a
    simp only [List.map_cons, List.nodup_cons] at h
    have iht := ih h.2
    refine (insertKey_perm d i _ ?_).trans (iht.cons _)
    intro x hx hxd
    exact h.1 (List.mem_map.mpr ⟨x, iht.subset hx, hxd⟩)

theorem mem_uniqueSorted (l : List (Rat × Nat)) (x : Rat × Nat) (h : x ∈ uniqueSorted l) : x ∈ l := by
  induction l with
  | nil => simp [uniqueSorted] at h
  | cons a t ih =>
    obtain ⟨d, i⟩ := a
    rcases mem_insertKey d i _ x h with h | h
    · rw [h]; exact List.mem_cons_self
    · exact List.mem_cons_of_mem _ (ih h)

/-- every value of the input is a value of the result -/
theorem key_mem_insertKey (d : Rat) (i : Nat) (l : List (Rat × Nat)) :
    d ∈ (insertKey d i l).map Prod.fst ∧ ∀ e ∈ l.map Prod.fst, e ∈ (insertKey d i l).map Prod.fst := by
  induction l with
  | nil => simp [insertKey]
  | cons a t ih =>
    obtain ⟨e, j⟩ := a
    simp only [insertKey]
    split
    · simp only [List.map_cons, List.mem_cons]
      exact ⟨Or.inl trivial, fun x hx => Or.inr hx⟩
    · split
      · rename_i heq
        simp only [List.map_cons, List.mem_cons]
        refine ⟨Or.inl trivial, fun x hx => ?_⟩
        rcases hx with hx | hx
        · exact Or.inl (hx.trans heq.symm)
        · exact Or.inr hx
      · simp only [List.map_cons, List.mem_cons]
        refine ⟨Or.inr ih.1, ?_⟩
        intro x hx
        rcases hx with hx | hx
        · exact Or.inl hx
        · exact Or.inr (ih.2 x hx)

theorem keys_uniqueSorted (l : List (Rat × Nat)) : ∀ e ∈ l.map Prod.fst, e ∈ (uniqueSorted l).map Prod.fst := by
  induction l with
  | nil => simp
  | cons a t ih =>
    obtain ⟨d, i⟩ := a
    intro e he
    simp only [List.map_cons, List.mem_cons] at he
    rcases he with he | he
    · rw [he]; exact (key_mem_insertKey d i _).1
    · exact (key_mem_insertKey d i _).2 e (ih e he)

/-- two planes at the same distance: the result is shorter than the input (the constructor refuses) -/
theorem uniqueSorted_length_lt (l : List (Rat × Nat)) (h : ¬ (l.map Prod.fst).Nodup) : (uniqueSorted l).length < l.length := by
  have hs := uniqueSorted_sorted l
  have hnd : ((uniqueSorted l).map Prod.fst).Nodup := by
    rw [List.Nodup, List.pairwise_map]
    exact hs.imp (fun hab => ne_of_lt hab)
  have hsub : (uniqueSorted l).map Prod.fst ⊆ l.map Prod.fst := by
    intro e he
    obtain ⟨x, hx, rfl⟩ := List.mem_map.mp he
    exact List.mem_map.mpr ⟨x, mem_uniqueSorted l x hx, rfl⟩
  have hsp : ((uniqueSorted l).map Prod.fst).Subperm (l.map Prod.fst) := List.subperm_of_subset hnd hsub
  by_contra hge
  have hle : (l.map Prod.fst).length ≤ ((uniqueSorted l).map Prod.fst).length := by
    simp only [List.length_map]; omega
  have hp := hsp.perm_of_length_le hle
  exact h (hp.nodup_iff.mp hnd)

theorem zipIdx_map_range (n : Nat) (D : Nat → Rat) :
    ((List.range n).map D).zipIdx = (List.range n).map (fun k => (D k, k)) := by
  apply List.ext_getElem?
  intro i
  simp only [List.getElem?_zipIdx, List.getElem?_map]
  by_cases h : i < n
  · simp [List.getElem?_range h]
  · simp [List.getElem?_eq_none (l := List.range n) (by simpa using h)]

/-- **`get_index_values` on planes at pairwise different distances**: accepted; the order is a permutation of the planes,
strictly ascending in the distance -/
theorem planeSortIndex_spec (n : Nat) (D : Nat → Rat) (hinj : ∀ a < n, ∀ b < n, D a = D b → a = b) :
    ∃ psi, planeSortIndex ((List.range n).map D) = .ok psi ∧ psi.Perm (List.range n) ∧
      psi.Pairwise (fun a b => D a < D b) := by
  have hnd : (((List.range n).map (fun k => (D k, k))).map Prod.fst).Nodup := by
    rw [List.map_map]
    apply List.Nodup.map_on _ List.nodup_range
    intro a ha b hb hab
    exact hinj a (List.mem_range.mp ha) b (List.mem_range.mp hb) hab
  have hp := uniqueSorted_perm _ hnd
  have hs := uniqueSorted_sorted ((List.range n).map (fun k => (D k, k)))
  refine ⟨(uniqueSorted ((List.range n).map (fun k => (D k, k)))).map (fun p => p.2), ?_, ?_, ?_⟩
  · unfold planeSortIndex
    simp only [zipIdx_map_range]
    rw [if_pos (by rw [hp.length_eq]; simp)]
  · have := hp.map (fun p => p.2)
    rw [List.map_map] at this
    have hid : List.map ((fun (p : Rat × Nat) => p.2) ∘ fun k => (D k, k)) (List.range n) = List.range n := by
      have : ((fun (p : Rat × Nat) => p.2) ∘ fun k => (D k, k)) = id := rfl
      rw [this, List.map_id]
    rw [hid] at this
    exact this
  · rw [List.pairwise_map]
    apply hs.imp_of_mem
    intro a b ha hb hab
    have ha' := hp.subset ha
    have hb' := hp.subset hb
    obtain ⟨ka, _, rfl⟩ := List.mem_map.mp ha'
    obtain ⟨kb, _, rfl⟩ := List.mem_map.mp hb'
    exact hab

/-- **`get_index_values` refuses planes that share a distance along the normal** -/
theorem planeSortIndex_refuses (n : Nat) (D : Nat → Rat) (a b : Nat) (ha : a < n) (hb : b < n) (hab : a ≠ b) (hd : D a = D b) :
    planeSortIndex ((List.range n).map D) = .error .value := by
  unfold planeSortIndex
  simp only [zipIdx_map_range]
  have hnd : ¬ (((List.range n).map (fun k => (D k, k))).map Prod.fst).Nodup := by
    rw [List.map_map]
    intro h
    have := List.inj_on_of_nodup_map h (List.mem_range.mpr ha) (List.mem_range.mpr hb) hd
    exact hab this
  have := uniqueSorted_length_lt _ hnd
  rw [if_neg]
  simp only [List.length_map, List.length_range] at this ⊢
  omega

/-! ## the plane loop, by induction over the planes -/

/-- membership in the frames of one segment: the plane at index `i` of the sort index gets dimension index `d + i` -/
theorem mem_planeFrames (s : Option Nat) (om : Bool) (present : Option Nat → Nat → Bool) (d : Int) (l : List Nat) (f : Frame) :
    f ∈ planeFrames s om present d l ↔
      f.seg = s ∧ f.posPlane = f.plane ∧ skipped s om (present s f.plane) = false ∧ ∃ i : Nat, l[i]? = some f.plane ∧ f.div = d + i := by
  induction l generalizing d with
  | nil => simp [planeFrames]
  | cons p t ih =>
    simp only [planeFrames]
    have key : (f.seg = s ∧ f.posPlane = f.plane ∧ skipped s om (present s f.plane) = false ∧
          ∃ i : Nat, (p :: t)[i]? = some f.plane ∧ f.div = d + i) ↔
        (f = ⟨s, p, p, d⟩ ∧ skipped s om (present s p) = false) ∨
        (f.seg = s ∧ f.posPlane = f.plane ∧ skipped s om (present s f.plane) = false ∧ ∃ i : Nat, t[i]? = some f.plane ∧ f.div = d + 1 + i) := by
      constructor
      · rintro ⟨h1, hpp, h2, i, h3, h4⟩
        cases i with
        | zero =>
          left
          simp only [List.getElem?_cons_zero, Option.some.injEq] at h3
          obtain ⟨fs, fp, fq, fd⟩ := f
          simp only at h1 hpp h2 h3 h4
          subst h1 h3 hpp
          refine ⟨by simp [h4], h2⟩
        | succ j =>
          right
          refine ⟨h1, hpp, h2, j, by simpa using h3, by push_cast at h4; omega⟩
      · rintro (⟨rfl, h2⟩ | ⟨h1, hpp, h2, i, h3, h4⟩)
        · exact ⟨rfl, rfl, h2, 0, by simp, by simp⟩
        · exact ⟨h1, hpp, h2, i + 1, by simpa using h3, by push_cast; omega⟩
    rw [key]
    split
    · rename_i hsk
      rw [ih]
      constructor
      · intro h; exact Or.inr h
      · rintro (⟨_, h2⟩ | h)
        · rw [hsk] at h2; cases h2
        · exact h
    · rename_i hsk
      rw [List.mem_cons, ih]
      constructor
      · rintro (h | h)
        · exact Or.inl ⟨h, by simpa using hsk⟩
        · exact Or.inr h
      · rintro (⟨h, _⟩ | h)
        · exact Or.inl h
        · exact Or.inr h

/-- the frames of one segment are stored in strictly ascending dimension index -/
theorem planeFrames_sorted (s : Option Nat) (om : Bool) (present : Option Nat → Nat → Bool) (d : Int) (l : List Nat) :
    (planeFrames s om present d l).Pairwise (fun a b => a.div < b.div) ∧ ∀ f ∈ planeFrames s om present d l, d ≤ f.div := by
  induction l generalizing d with
  | nil => simp [planeFrames]
  | cons p t ih =>
    obtain ⟨ih1, ih2⟩ := ih (d + 1)
    simp only [planeFrames]
    split
    · exact ⟨ih1, fun f hf => by have := ih2 f hf; omega⟩
    · refine ⟨List.pairwise_cons.mpr ⟨fun f hf => ?_, ih1⟩, ?_⟩
      · have := ih2 f hf
        show d < f.div
        omega
      · intro f hf
        rcases List.mem_cons.mp hf with rfl | hf
        · exact le_refl _
        · have := ih2 f hf; omega

/-- the planes of the frames of one segment, in stored order, are the planes of the sort index that are not skipped -/
theorem planeFrames_planes (s : Option Nat) (om : Bool) (present : Option Nat → Nat → Bool) (d : Int) (l : List Nat) :
    (planeFrames s om present d l).map (fun f => f.plane) = l.filter (fun p => !skipped s om (present s p)) := by
  induction l generalizing d with
  | nil => simp [planeFrames]
  | cons p t ih =>
    simp only [planeFrames, List.filter_cons]
    split
    · rename_i h; simp [h, ih]
    · rename_i h; simp [h, ih]

/-- index of an element of a strictly sorted list = number of elements before it in the order -/
theorem sorted_rank (D : Nat → Rat) (l : List Nat) (h : l.Pairwise (fun a b => D a < D b)) (i : Nat) (p : Nat)
    (hp : l[i]? = some p) : (l.filter (fun q => decide (D q < D p))).length = i := by
  induction l generalizing i with
  | nil => simp at hp
  | cons a t ih =>
    have ha := (List.pairwise_cons.mp h).1
    have ht := (List.pairwise_cons.mp h).2
    cases i with
    | zero =>
      simp only [List.getElem?_cons_zero, Option.some.injEq] at hp
      subst hp
      rw [List.filter_cons, if_neg (by simp)]
      rw [List.filter_eq_nil_iff.mpr]
      · rfl
      · intro q hq
        have := ha q hq
        simp only [decide_eq_true_eq, not_lt]
        exact le_of_lt this
    | succ j =>
      simp only [List.getElem?_cons_succ] at hp
      have hmem : p ∈ t := List.mem_of_getElem? hp
      rw [List.filter_cons, if_pos (by simpa using ha p hmem)]
      simp only [List.length_cons]
      rw [ih ht j hp]

theorem filter_sorted {α : Type} (R : α → α → Prop) (P : α → Bool) (l : List α) (h : l.Pairwise R) : (l.filter P).Pairwise R :=
  h.sublist List.filter_sublist

/-- the sort index after the omission step: a permutation of the kept planes, still strictly ascending -/
theorem includedPlanes_spec (D : Nat → Rat) (psi : List Nat) (nonempty : List Bool) (om : Bool)
    (hperm : psi.Perm (List.range nonempty.length)) (hs : psi.Pairwise (fun a b => D a < D b)) :
    (includedPlanes psi nonempty om).Perm (keptPlanes nonempty om) ∧
      (includedPlanes psi nonempty om).Pairwise (fun a b => D a < D b) := by
  unfold includedPlanes
  rw [keptPlanes_eq]
  split
  · refine ⟨?_, filter_sorted _ _ _ hs⟩
    have hnd1 : (psi.filter (fun k => (nonemptyIdx nonempty).contains k)).Nodup :=
      (hperm.nodup_iff.mpr List.nodup_range).sublist List.filter_sublist
    have hnd2 : (nonemptyIdx nonempty).Nodup := by
      have := keptPlanes_nodup nonempty true
      unfold keptPlanes at this
      by_cases he : (nonemptyIdx nonempty).isEmpty
      · have : nonemptyIdx nonempty = [] := by simpa using he
        rw [this]; exact List.nodup_nil
      · unfold nonemptyIdx at he ⊢
        simp only [Bool.true_and, he] at this
        simpa using this
    apply (List.perm_ext_iff_of_nodup hnd1 hnd2).mpr
    intro k
    simp only [List.mem_filter, List.contains_iff_mem]
    constructor
    · exact fun h => h.2
    · intro h
      refine ⟨hperm.symm.subset (List.mem_range.mpr ?_), h⟩
      have := (mem_nonemptyIdx nonempty k).mp h
      by_contra hc
      rw [List.getElem?_eq_none (by omega)] at this; cases this
  · exact ⟨hperm, hs⟩

/-! ## the constructor's frames -/

/-- distance of plane `k` along the normal the constructor orders by -/
def distOf (P : Nat → V3) (rowCos colCos : V3) (k : Nat) : Rat := dot (normal rowCos colCos) (P k)

/-- **Structure of the stored frames** for planes `P 0 … P (n−1)` at pairwise different distances along the normal:
the constructor accepts, and the frames are — segment by segment — the kept planes in strictly ascending distance
(`psi`), numbered from 1 -/
theorem segFrames_structure (P : Nat → V3) (rowCos colCos : V3) (nonempty : List Bool)
    (hinj : ∀ a < nonempty.length, ∀ b < nonempty.length, distOf P rowCos colCos a = distOf P rowCos colCos b → a = b)
    (om : Bool) (segs : List (Option Nat)) (present : Option Nat → Nat → Bool) :
    ∃ psi : List Nat, psi.Perm (keptPlanes nonempty om) ∧
      psi.Pairwise (fun a b => distOf P rowCos colCos a < distOf P rowCos colCos b) ∧
      segFrames ((List.range nonempty.length).map P) rowCos colCos nonempty om segs present
        = .ok (segs.flatMap (fun s => planeFrames s (omitEff nonempty om) present 1 psi)) := by
  obtain ⟨psi0, h0, hperm, hs⟩ := planeSortIndex_spec nonempty.length (distOf P rowCos colCos) hinj
  obtain ⟨h1, h2⟩ := includedPlanes_spec (distOf P rowCos colCos) psi0 nonempty om hperm hs
  refine ⟨includedPlanes psi0 nonempty om, h1, h2, ?_⟩
  unfold segFrames
  have : ((List.range nonempty.length).map P).map (dot (normal rowCos colCos)) = (List.range nonempty.length).map (distOf P rowCos colCos) := by
    rw [List.map_map]; rfl
  rw [this, h0]
  rfl

/-- two planes at the same distance along the normal: the constructor refuses -/
theorem segFrames_refuses (P : Nat → V3) (rowCos colCos : V3) (nonempty : List Bool) (a b : Nat) (ha : a < nonempty.length)
    (hb : b < nonempty.length) (hab : a ≠ b) (hd : distOf P rowCos colCos a = distOf P rowCos colCos b)
    (om : Bool) (segs : List (Option Nat)) (present : Option Nat → Nat → Bool) :
    segFrames ((List.range nonempty.length).map P) rowCos colCos nonempty om segs present = .error .value := by
  unfold segFrames
  have : ((List.range nonempty.length).map P).map (dot (normal rowCos colCos)) = (List.range nonempty.length).map (distOf P rowCos colCos) := by
    rw [List.map_map]; rfl
  rw [this, planeSortIndex_refuses nonempty.length (distOf P rowCos colCos) a b ha hb hab hd]

theorem mem_of_getElem?_eq {α : Type} {l : List α} {i : Nat} {a : α} (h : l[i]? = some a) : a ∈ l := List.mem_of_getElem? h

/-- in a strictly sorted list the order of indices is the order of the values -/
theorem sorted_index_lt (D : Nat → Rat) (l : List Nat) (h : l.Pairwise (fun a b => D a < D b)) (i j : Nat) (p q : Nat)
    (hp : l[i]? = some p) (hq : l[j]? = some q) : i < j ↔ D p < D q := by
  have hi : i < l.length := by
    by_contra hc; rw [List.getElem?_eq_none (by omega)] at hp; cases hp
  have hj : j < l.length := by
    by_contra hc; rw [List.getElem?_eq_none (by omega)] at hq; cases hq
  rw [List.getElem?_eq_getElem hi] at hp
  rw [List.getElem?_eq_getElem hj] at hq
  simp only [Option.some.injEq] at hp hq
  subst hp hq
  have hpw := List.pairwise_iff_getElem.mp h
  constructor
  · intro hij; exact hpw i j hi hj hij
  · intro hlt
    by_contra hc
    rcases Nat.lt_or_eq_of_le (Nat.not_lt.mp hc) with h1 | h1
    · have := hpw j i hj hi h1; linarith
    · subst h1; exact lt_irrefl _ hlt

/-- **Which frames are stored, and their dimension index values** (all properties of one frame): a frame exists for a
segment of the loop and a kept plane unless it is skipped, and its dimension index value is 1 + the number of kept
planes that lie before its plane along the normal -/
theorem mem_segFrames (P : Nat → V3) (rowCos colCos : V3) (nonempty : List Bool)
    (hinj : ∀ a < nonempty.length, ∀ b < nonempty.length, distOf P rowCos colCos a = distOf P rowCos colCos b → a = b)
    (om : Bool) (segs : List (Option Nat)) (present : Option Nat → Nat → Bool) :
    ∃ frames, segFrames ((List.range nonempty.length).map P) rowCos colCos nonempty om segs present = .ok frames ∧
      ∀ f : Frame, f ∈ frames ↔
        f.seg ∈ segs ∧ f.plane ∈ keptPlanes nonempty om ∧ skipped f.seg (omitEff nonempty om) (present f.seg f.plane) = false ∧
        f.div = 1 + (((keptPlanes nonempty om).filter
          (fun k => decide (distOf P rowCos colCos k < distOf P rowCos colCos f.plane))).length : Int) ∧
        f.posPlane = f.plane := by
  obtain ⟨psi, hperm, hs, hok⟩ := segFrames_structure P rowCos colCos nonempty hinj om segs present
  refine ⟨_, hok, ?_⟩
  intro f
  have hrank : ∀ i : Nat, psi[i]? = some f.plane →
      ((keptPlanes nonempty om).filter (fun k => decide (distOf P rowCos colCos k < distOf P rowCos colCos f.plane))).length = i := by
    intro i hi
    rw [← (hperm.filter _).length_eq]
    exact sorted_rank (distOf P rowCos colCos) psi hs i f.plane hi
  rw [List.mem_flatMap]
  constructor
  · rintro ⟨s, hs1, hf⟩
    obtain ⟨h1, hpp, h2, i, h3, h4⟩ := (mem_planeFrames s _ present 1 psi f).mp hf
    subst h1
    refine ⟨hs1, hperm.subset (List.mem_of_getElem? h3), h2, ?_, hpp⟩
    rw [hrank i h3, h4]
  · rintro ⟨h1, h2, h3, h4, hpp⟩
    refine ⟨f.seg, h1, (mem_planeFrames f.seg _ present 1 psi f).mpr ⟨rfl, hpp, h3, ?_⟩⟩
    obtain ⟨i, hi, hip⟩ := List.getElem_of_mem (hperm.symm.subset h2)
    refine ⟨i, by rw [List.getElem?_eq_getElem hi, hip], ?_⟩
    rw [h4, hrank i (by rw [List.getElem?_eq_getElem hi, hip])]

/-- **Dimension index values follow the normal**: of two stored frames the one with the smaller dimension index value
lies before the other along the normal — and conversely -/
theorem div_lt_iff (P : Nat → V3) (rowCos colCos : V3) (nonempty : List Bool)
    (hinj : ∀ a < nonempty.length, ∀ b < nonempty.length, distOf P rowCos colCos a = distOf P rowCos colCos b → a = b)
    (om : Bool) (segs : List (Option Nat)) (present : Option Nat → Nat → Bool) (frames : List Frame)
    (hok : segFrames ((List.range nonempty.length).map P) rowCos colCos nonempty om segs present = .ok frames)
    (f f' : Frame) (hf : f ∈ frames) (hf' : f' ∈ frames) :
    f.div < f'.div ↔ distOf P rowCos colCos f.plane < distOf P rowCos colCos f'.plane := by
  obtain ⟨psi, _, hs, hok'⟩ := segFrames_structure P rowCos colCos nonempty hinj om segs present
  rw [hok'] at hok
  simp only [Except.ok.injEq] at hok
  subst hok
  obtain ⟨s, _, hfs⟩ := List.mem_flatMap.mp hf
  obtain ⟨s', _, hfs'⟩ := List.mem_flatMap.mp hf'
  obtain ⟨_, _, _, i, h3, h4⟩ := (mem_planeFrames s _ present 1 psi f).mp hfs
  obtain ⟨_, _, _, j, h3', h4'⟩ := (mem_planeFrames s' _ present 1 psi f').mp hfs'
  rw [h4, h4', ← sorted_index_lt (distOf P rowCos colCos) psi hs i j f.plane f'.plane h3 h3']
  omega

/-- rank of a segment in the order of DimensionIndexValues (label maps have no segment entry) -/
def segRank : Option Nat → Nat
  | none => 0
  | some s => s + 1

/-- **Stored order = dimension order**: with the segments of the loop in ascending order, the frames are stored in
strictly ascending (segment, dimension index value) — so DimensionIndexValues identify a frame uniquely -/
theorem frames_in_dimension_order (P : Nat → V3) (rowCos colCos : V3) (nonempty : List Bool)
    (hinj : ∀ a < nonempty.length, ∀ b < nonempty.length, distOf P rowCos colCos a = distOf P rowCos colCos b → a = b)
    (om : Bool) (segs : List (Option Nat)) (hsegs : segs.Pairwise (fun a b => segRank a < segRank b))
    (present : Option Nat → Nat → Bool) (frames : List Frame)
    (hok : segFrames ((List.range nonempty.length).map P) rowCos colCos nonempty om segs present = .ok frames) :
    frames.Pairwise (fun a b => segRank a.seg < segRank b.seg ∨ (a.seg = b.seg ∧ a.div < b.div)) := by
  obtain ⟨psi, _, hs, hok'⟩ := segFrames_structure P rowCos colCos nonempty hinj om segs present
  rw [hok'] at hok
  simp only [Except.ok.injEq] at hok
  subst hok
  rw [List.pairwise_flatMap]
  constructor
  · intro s _
    have h1 := (planeFrames_sorted s (omitEff nonempty om) present 1 psi).1
    apply h1.imp_of_mem
    intro a b ha hb hab
    right
    exact ⟨((mem_planeFrames s _ present 1 psi a).mp ha).1.trans ((mem_planeFrames s _ present 1 psi b).mp hb).1.symm, hab⟩
  · apply hsegs.imp
    intro s s' hss x hx y hy
    left
    rw [((mem_planeFrames s _ present 1 psi x).mp hx).1, ((mem_planeFrames s' _ present 1 psi y).mp hy).1]
    exact hss

theorem mapM_range_map {α : Type} (l : List α) (g : α → Nat) (n : Nat) (P : Nat → V3) (h : ∀ x ∈ l, g x < n) :
    l.mapM (fun x => ((List.range n).map P)[g x]?) = some (l.map (fun x => P (g x))) := by
  induction l with
  | nil => rfl
  | cons a t ih =>
    rw [List.mapM_cons, ih (fun x hx => h x (List.mem_cons_of_mem _ hx))]
    have : ((List.range n).map P)[g a]? = some (P (g a)) := by
      rw [List.getElem?_map, List.getElem?_range (h a List.mem_cons_self)]; rfl
    rw [this]
    rfl

/-- **Every stored frame carries the position of its own input plane**: the per-frame positions, in frame order, are
`P (plane of the frame)` -/
theorem framePositions_of_segFrames (P : Nat → V3) (rowCos colCos : V3) (nonempty : List Bool)
    (hinj : ∀ a < nonempty.length, ∀ b < nonempty.length, distOf P rowCos colCos a = distOf P rowCos colCos b → a = b)
    (om : Bool) (segs : List (Option Nat)) (present : Option Nat → Nat → Bool) (frames : List Frame)
    (hok : segFrames ((List.range nonempty.length).map P) rowCos colCos nonempty om segs present = .ok frames) :
    framePositionsOf ((List.range nonempty.length).map P) frames = some (frames.map (fun f => P f.posPlane)) ∧
      ∀ f ∈ frames, f.posPlane = f.plane := by
  obtain ⟨frames', hok', hmem⟩ := mem_segFrames P rowCos colCos nonempty hinj om segs present
  rw [hok'] at hok
  simp only [Except.ok.injEq] at hok
  subst hok
  refine ⟨?_, fun f hf => ((hmem f).mp hf).2.2.2.2⟩
  unfold framePositionsOf
  apply mapM_range_map
  intro f hf
  rw [((hmem f).mp hf).2.2.2.2]
  exact keptPlanes_bound nonempty om f.plane ((hmem f).mp hf).2.1

/-! ## planes of a volume -/

theorem volume_dist {g : Geom} (hg : Admissible g) (k : Nat) :
    distOf (planePosition g) g.d2 g.d1 k = dot (normal g.d2 g.d1) g.p + ((handInt g * (k : Int) : Int) : Rat) * g.s0 := by
  unfold distOf
  have hn : dot (normal g.d2 g.d1) (normal g.d2 g.d1) = 1 := (stackOK_store hg []).unitN
  rw [planePosition_line hg, dot_linePos _ _ _ _ hn]

/-- along the normal the planes of a volume come in index order when it is right-handed, in reverse order otherwise -/
theorem volume_dist_lt {g : Geom} (hg : Admissible g) (a b : Nat) :
    distOf (planePosition g) g.d2 g.d1 a < distOf (planePosition g) g.d2 g.d1 b ↔ handInt g * (a : Int) < handInt g * (b : Int) := by
  rw [volume_dist hg, volume_dist hg]
  have hs := hg.s0
  constructor
  · intro h
    have : ((handInt g * (a : Int) : Int) : Rat) < ((handInt g * (b : Int) : Int) : Rat) := by
      by_contra hc
      have := mul_le_mul_of_nonneg_right (not_lt.mp hc) (le_of_lt hs)
      linarith
    exact_mod_cast this
  · intro h
    have : ((handInt g * (a : Int) : Int) : Rat) < ((handInt g * (b : Int) : Int) : Rat) := by exact_mod_cast h
    have := mul_lt_mul_of_pos_right this hs
    linarith

theorem volume_dist_inj {g : Geom} (hg : Admissible g) (a b : Nat)
    (h : distOf (planePosition g) g.d2 g.d1 a = distOf (planePosition g) g.d2 g.d1 b) : a = b := by
  have h1 := (volume_dist_lt hg a b).not.mp (by rw [h]; exact lt_irrefl _)
  have h2 := (volume_dist_lt hg b a).not.mp (by rw [h]; exact lt_irrefl _)
  have hh : handInt g = 1 ∨ handInt g = -1 := by unfold handInt; split <;> simp
  rcases hh with hh | hh <;> rw [hh] at h1 h2 <;> omega

theorem planePosition_inj {g : Geom} (hg : Admissible g) (a b : Nat) (h : planePosition g a = planePosition g b) : a = b :=
  volume_dist_inj hg a b (by unfold distOf; rw [h])

/-- what the read side sees of the frames stored for a volume is the stack of the read-side theorems
(`storeStack` on the planes of the frames, in frame order) with the frames' segment numbers -/
theorem framesStack_volume {g : Geom} (hg : Admissible g) (nonempty : List Bool) (om : Bool) (segs : List (Option Nat))
    (present : Option Nat → Nat → Bool) (frames : List Frame)
    (hok : segFrames ((List.range nonempty.length).map (planePosition g)) g.d2 g.d1 nonempty om segs present = .ok frames) :
    framesStack g.d2 g.d1 g.s1 g.s2 (some g.s0) ((List.range nonempty.length).map (planePosition g)) frames
      = .ok (withChan (storeStack g (frames.map (fun f => f.plane))) (frames.filterMap (fun f => f.seg))) := by
  unfold framesStack
  obtain ⟨hpos, hpp⟩ := framePositions_of_segFrames (planePosition g) g.d2 g.d1 nonempty
    (fun a _ b _ h => volume_dist_inj hg a b h) om segs present frames hok
  rw [hpos]
  have : frames.map (fun f => planePosition g f.posPlane) = frames.map (fun f => planePosition g f.plane) :=
    List.map_congr_left (fun f hf => by rw [hpp f hf])
  rw [this]
  simp only [withChan, storeStack, List.map_map]
  rfl

theorem filterMap_seg_of_some (frames : List Frame) (h : ∀ f ∈ frames, f.seg.isSome = true) :
    frames.filterMap (fun f => f.seg) = frames.map (fun f => f.seg.getD 0) := by
  induction frames with
  | nil => rfl
  | cons a t ih =>
    have ha := h a List.mem_cons_self
    rw [List.filterMap_cons, List.map_cons, ih (fun f hf => h f (List.mem_cons_of_mem _ hf))]
    cases hs : a.seg with
    | none => rw [hs] at ha; cases ha
    | some v => rfl

theorem filterMap_seg_of_none (frames : List Frame) (h : ∀ f ∈ frames, f.seg = none) :
    frames.filterMap (fun f => f.seg) = [] := by
  induction frames with
  | nil => rfl
  | cons a t ih =>
    rw [List.filterMap_cons, h a List.mem_cons_self]
    exact ih (fun f hf => h f (List.mem_cons_of_mem _ hf))

/-- no two stored frames have the same (segment, plane) -/
theorem frames_distinct (P : Nat → V3) (rowCos colCos : V3) (nonempty : List Bool)
    (hinj : ∀ a < nonempty.length, ∀ b < nonempty.length, distOf P rowCos colCos a = distOf P rowCos colCos b → a = b)
    (om : Bool) (segs : List (Option Nat)) (hsegs : segs.Nodup) (present : Option Nat → Nat → Bool) (frames : List Frame)
    (hok : segFrames ((List.range nonempty.length).map P) rowCos colCos nonempty om segs present = .ok frames) :
    frames.Pairwise (fun a b => a.seg ≠ b.seg ∨ a.plane ≠ b.plane) := by
  obtain ⟨psi, hperm, _, hok'⟩ := segFrames_structure P rowCos colCos nonempty hinj om segs present
  rw [hok'] at hok
  simp only [Except.ok.injEq] at hok
  subst hok
  rw [List.pairwise_flatMap]
  constructor
  · intro s _
    have hnd : ((planeFrames s (omitEff nonempty om) present 1 psi).map (fun f => f.plane)).Nodup := by
      rw [planeFrames_planes]
      exact (hperm.nodup_iff.mpr (keptPlanes_nodup nonempty om)).sublist List.filter_sublist
    rw [List.Nodup, List.pairwise_map] at hnd
    exact hnd.imp (fun h => Or.inr h)
  · apply (hsegs : segs.Pairwise (· ≠ ·)).imp
    intro s s' hss x hx y hy
    left
    rw [((mem_planeFrames s _ present 1 psi x).mp hx).1, ((mem_planeFrames s' _ present 1 psi y).mp hy).1]
    exact hss

/-- the frames the constructor stores for a volume are distinguishable on the read side (`framesUnique`): by position
for a label map, by (position, segment) otherwise -/
theorem framesUnique_volume {g : Geom} (hg : Admissible g) (nonempty : List Bool) (om : Bool) (labelmap : Bool)
    (described : List Nat) (hd : described.Nodup) (present : Option Nat → Nat → Bool) (frames : List Frame)
    (hok : segFrames ((List.range nonempty.length).map (planePosition g)) g.d2 g.d1 nonempty om
      (segmentsIterable labelmap described) present = .ok frames) :
    framesUnique .seg (withChan (storeStack g (frames.map (fun f => f.plane))) (frames.filterMap (fun f => f.seg))) = true := by
  have hinj : ∀ a < nonempty.length, ∀ b < nonempty.length,
      distOf (planePosition g) g.d2 g.d1 a = distOf (planePosition g) g.d2 g.d1 b → a = b := fun a _ b _ h => volume_dist_inj hg a b h
  have hsegs : (segmentsIterable labelmap described).Nodup := by
    unfold segmentsIterable
    split
    · simp
    · exact hd.map (fun a b h => by simpa using h)
  have hdist := frames_distinct (planePosition g) g.d2 g.d1 nonempty hinj om _ hsegs present frames hok
  obtain ⟨frames', hok', hmem⟩ := mem_segFrames (planePosition g) g.d2 g.d1 nonempty hinj om (segmentsIterable labelmap described) present
  rw [hok'] at hok
  simp only [Except.ok.injEq] at hok
  subst hok
  cases labelmap with
  | true =>
    have hnone : ∀ f ∈ frames', f.seg = none := by
      intro f hf
      have := ((hmem f).mp hf).1
      simpa [segmentsIterable] using this
    rw [filterMap_seg_of_none _ hnone]
    apply framesUnique_of_nodup .seg _ rfl
    show ((frames'.map (fun f => f.plane)).map (planePosition g)).Nodup
    rw [List.map_map, List.Nodup, List.pairwise_map]
    apply hdist.imp_of_mem
    intro a b ha hb hab heq
    rcases hab with hab | hab
    · exact hab ((hnone a ha).trans (hnone b hb).symm)
    · exact hab (planePosition_inj hg _ _ heq)
  | false =>
    have hsome : ∀ f ∈ frames', f.seg.isSome = true := by
      intro f hf
      have := ((hmem f).mp hf).1
      simp only [segmentsIterable, Bool.false_eq_true, if_false, List.mem_map] at this
      obtain ⟨v, _, hv⟩ := this
      rw [← hv]; rfl
    rw [filterMap_seg_of_some _ hsome]
    unfold framesUnique withChan storeStack
    simp only [List.length_map, beq_self_eq_true, if_true]
    rw [allDistinct_iff_nodup, List.map_map, List.zip_map', List.Nodup, List.pairwise_map]
    apply hdist.imp_of_mem
    intro a b ha hb hab heq
    simp only [Function.comp, Prod.mk.injEq] at heq
    rcases hab with hab | hab
    · apply hab
      have h1 := hsome a ha
      have h2 := hsome b hb
      cases hsa : a.seg with
      | none => rw [hsa] at h1; cases h1
      | some va =>
        cases hsb : b.seg with
        | none => rw [hsb] at h2; cases h2
        | some vb =>
          have := heq.2
          rw [hsa, hsb] at this
          simp only [Option.getD_some] at this
          rw [this]
    · exact hab (planePosition_inj hg _ _ heq.1)

theorem range_filter_gt (n p : Nat) (h : p < n) : ((List.range n).filter (fun j => decide (p < j))).length = n - 1 - p := by
  have h1 := range_filter_lt n (p + 1) (by omega)
  have h2 := List.length_eq_countP_add_countP (fun j => decide (j < p + 1)) (l := List.range n)
  rw [List.countP_eq_length_filter, List.countP_eq_length_filter, List.length_range] at h2
  have : (List.range n).filter (fun j => decide (p < j)) = (List.range n).filter (fun a => decide (¬ (decide (a < p + 1) = true))) := by
    apply List.filter_congr
    intro x _
    by_cases hx : p < x <;> simp [hx] <;> omega
  rw [this]
  omega

theorem map_range_getD {α : Type} (l : List α) (d : α) : (List.range l.length).map (fun k => l.getD k d) = l := by
  apply List.ext_getElem?
  intro i
  by_cases h : i < l.length
  · simp [h, List.getD_eq_getElem?_getD]
  · have h' : l.length ≤ i := Nat.le_of_not_lt h
    simp [h]

end HdVerif.SegFrameLoopLemmas
