import HdVerif.Model.SREvidence
import HdVerif.Generated.T15f
import HdVerif.Generated.T15g
import HdVerif.Generated.T15h
/-! C15: hand-written definitions of `Model/SREvidence.lean` use exactly the expressions the current source contains
(regenerated on every run as `Generated/T15f.lean` — `ReferencedSegmentationFrame.from_segmentation`, `T15g.lean` —
`ReferencedSegment.from_segmentation`, `T15h.lean` — `_SR.__init__`).  A change of a range guard, of the 0-based index, of a
branch of the loop body, of the choice between naming frames and the whole image, of the merge of two mentions of a source
instance, of a guard of the document constructor or of what it records breaks one of these statements. -/
namespace HdVerif.SREvidence
open HdVerif HdVerif.Gen

/-! ## `ReferencedSegmentationFrame.from_segmentation` (T15f) -/

/-- what the source reads off a frame item: `hasattr(item, 'DerivationImageSequence')`, its length, the
`SourceImageSequence` of its first item (`hasattr`, length, first item) -/
def FrameInfo.hasDrv (fi : FrameInfo) : Bool := fi.drv.isSome
def FrameInfo.nDrv (fi : FrameInfo) : Int := match fi.drv with | some l => l.length | none => 0
def FrameInfo.firstDrv (fi : FrameInfo) : Option (List SrcImg) := match fi.drv with | some (d :: _) => d | _ => none
def FrameInfo.hasSrc (fi : FrameInfo) : Bool := fi.firstDrv.isSome
def FrameInfo.nSrc (fi : FrameInfo) : Int := match fi.firstDrv with | some l => l.length | none => 0
def FrameInfo.firstSrc (fi : FrameInfo) : Option SrcImg := match fi.firstDrv with | some (x :: _) => some x | _ => none
def FrameInfo.hasFrames (fi : FrameInfo) : Bool := match fi.firstSrc with | some src => src.frames.isSome | none => false

/-- `src_uids != source_image_uids` -/
def uidsDiffer (a : LoopAcc) (fi : FrameInfo) : Bool :=
  match a.srcUids, fi.firstSrc with
  | some u, some src => decide (u ≠ (src.cls, src.inst))
  | _, _ => false

/-- the state after one iteration, given the three flags the regenerated loop body answers -/
def applyStep (a : LoopAcc) (fi : FrameInfo) (r : Bool × Bool × Bool) : LoopAcc :=
  match fi.firstSrc with
  | none => { a with segs := a.segs ++ [fi.segment] }
  | some src =>
    { segs := a.segs ++ [fi.segment],
      srcUids := if r.1 then some (src.cls, src.inst) else a.srcUids,
      srcFrames := if r.2.1 then unionInto a.srcFrames (src.frames.getD []) else a.srcFrames,
      srcWhole := if r.2.2 then true else a.srcWhole }

/-- `seq[frame_number - 1]` behind the range guard: the model's frame lookup is the regenerated guard and index -/
theorem frame?_eq_gen (s : Seg) (f : Int) :
    s.frame? f = (match segFrameIndex f s.frames.length with
      | .ok i => s.frames[i.toNat]?
      | .error _ => none) := by
  unfold Seg.frame? segFrameIndex
  by_cases h : f < 1 ∨ f > (s.frames.length : Int)
  · have : (decide (f < 1) || decide (f > (s.frames.length : Int))) = true := by simpa using h
    simp [h, this]
  · have : (decide (f < 1) || decide (f > (s.frames.length : Int))) = false := by
      simp only [not_or] at h; simp; omega
    simp [h, this]

/-- the refusal of the range guard is the model's refusal (ValueError) -/
theorem segFrameIndex_error (f n : Int) (e : ErrKind) (h : segFrameIndex f n = .error e) : e = .value := by
  unfold segFrameIndex at h
  by_cases c : (decide (f < 1) || decide (f > n)) = true
  · simp [c] at h; exact h.symm
  · simp [c] at h

/-- one iteration of the model's loop over the named frames = range guard, index and loop body regenerated from the
source -/
theorem segFrameLoop_cons (s : Seg) (f : Int) (fs : List Int) (a : LoopAcc) :
    segFrameLoop s (f :: fs) a =
      (match segFrameIndex f s.frames.length with
       | .error e => .error e
       | .ok i =>
         match s.frames[i.toNat]? with
         | none => .error .value
         | some fi =>
           match segFrameStep fi.hasDrv fi.nDrv fi.hasSrc fi.nSrc a.srcUids.isNone (uidsDiffer a fi) fi.hasFrames with
           | .error e => .error e
           | .ok r => segFrameLoop s fs (applyStep a fi r)) := by
  rw [segFrameLoop, frame?_eq_gen]
  cases hi : segFrameIndex f s.frames.length with
  | error e => have := segFrameIndex_error _ _ _ hi; subst this; rfl
  | ok i =>
    simp only
    cases hfi : s.frames[i.toNat]? with
    | none => rfl
    | some fi =>
      simp only
      obtain ⟨sg, drv⟩ := fi
      obtain ⟨segs, uids, frs, wh⟩ := a
      match drv with
      | none => simp [FrameInfo.single, segFrameStep, applyStep, FrameInfo.hasDrv, FrameInfo.firstSrc, FrameInfo.firstDrv]
      | some [] =>
        simp [FrameInfo.single, segFrameStep, FrameInfo.hasDrv, FrameInfo.nDrv]
      | some (_ :: _ :: dt) =>
        have hlen : ¬ ((dt.length : Int) + 1 + 1 = 1) := by omega
        simp [FrameInfo.single, segFrameStep, FrameInfo.hasDrv, FrameInfo.nDrv, hlen]
      | some [none] =>
        simp [FrameInfo.single, segFrameStep, applyStep, FrameInfo.hasDrv, FrameInfo.nDrv, FrameInfo.hasSrc, FrameInfo.firstSrc,
          FrameInfo.firstDrv]
      | some [some []] =>
        simp [FrameInfo.single, segFrameStep, FrameInfo.hasDrv, FrameInfo.nDrv, FrameInfo.hasSrc, FrameInfo.nSrc, FrameInfo.firstDrv]
      | some [some (_ :: _ :: st)] =>
        have hlen : ¬ ((st.length : Int) + 1 + 1 = 1) := by omega
        simp [FrameInfo.single, segFrameStep, FrameInfo.hasDrv, FrameInfo.nDrv, FrameInfo.hasSrc, FrameInfo.nSrc, FrameInfo.firstDrv, hlen]
      | some [some [src]] =>
        obtain ⟨c, ins, sf⟩ := src
        cases uids with
        | none =>
          cases sf <;>
            simp [FrameInfo.single, segFrameStep, applyStep, FrameInfo.hasDrv, FrameInfo.nDrv, FrameInfo.hasSrc, FrameInfo.nSrc,
              FrameInfo.firstDrv, FrameInfo.firstSrc, FrameInfo.hasFrames, uidsDiffer]
        | some u =>
          by_cases hu : u = (c, ins)
          · cases sf <;>
              simp [FrameInfo.single, segFrameStep, applyStep, FrameInfo.hasDrv, FrameInfo.nDrv, FrameInfo.hasSrc, FrameInfo.nSrc,
                FrameInfo.firstDrv, FrameInfo.firstSrc, FrameInfo.hasFrames, uidsDiffer, hu]
          · cases sf <;>
              simp [FrameInfo.single, segFrameStep, FrameInfo.hasDrv, FrameInfo.nDrv, FrameInfo.hasSrc, FrameInfo.nSrc,
                FrameInfo.firstDrv, FrameInfo.firstSrc, uidsDiffer, hu]

/-- a source image found in the named frames is named with the collected frame numbers or as a whole by the regenerated
choice (`source_frame_numbers if source_frame_numbers and not source_is_whole_image else None`) -/
theorem segFrameSource_named (s : Seg) (a : LoopAcc) (c i : String) (h : a.srcUids = some (c, i)) :
    segFrameSource s a =
      (match segFrameNameFrames a.srcFrames.length a.srcWhole with
       | .ok named => .ok (SrcImg.mk c i (if named then some a.srcFrames else none))
       | .error e => .error e) := by
  unfold segFrameSource segFrameNameFrames
  rw [h]
  cases hw : a.srcWhole <;> cases hl : a.srcFrames <;> simp

/-- no source image in the named frames: the regenerated fallback decides between the single instance of the referenced
series and the refusals -/
theorem segFrameSource_fallback (s : Seg) (a : LoopAcc) (h : a.srcUids = none) :
    segFrameSource s a =
      (match segFrameFallback s.refSeries.isSome s.refInstances.isSome ((s.refInstances.getD []).length) with
       | .error e => .error e
       | .ok _ =>
         match s.refInstances with
         | some [r] => .ok (SrcImg.mk r.cls r.inst none)
         | _ => .error .value) := by
  unfold segFrameSource segFrameFallback
  rw [h]
  rcases hs : s.refSeries with _ | ser <;> rcases hr : s.refInstances with _ | l
  · simp
  · simp
  · simp
  · match l with
    | [] => simp
    | [r] => simp
    | _ :: _ :: lt =>
      have hlen : ¬ ((lt.length : Int) + 1 + 1 = 1) := by omega
      simp [hlen]

/-- the checks on the segment numbers of the named frames are the regenerated ones -/
theorem segFrameSegment_gen (a : LoopAcc) (segment : Option Int) (sn : Int) (rest : List Int)
    (h : dedup a.segs [] = sn :: rest) :
    segFrameSegment a segment =
      (match segFrameSegmentCheck (sn :: rest).length segment.isSome (decide (some sn ≠ segment)) with
       | .ok _ => .ok sn
       | .error e => .error e) := by
  unfold segFrameSegment segFrameSegmentCheck
  rw [h]
  match rest, segment with
  | [], none => simp
  | [], some w =>
    by_cases hw : sn = w
    · simp [hw]
    · simp [hw]
  | _ :: rt, none =>
    have hlen : (1 : Int) < (rt.length : Int) + 1 + 1 := by omega
    simp [hlen]
  | _ :: rt, some w =>
    have hlen : (1 : Int) < (rt.length : Int) + 1 + 1 := by omega
    simp [hlen]

/-- no frame number given: the frames of the segment are refused by the regenerated guard (none found; several without a
total pixel matrix) -/
theorem segFrameNumbers_own (s : Seg) (sn : Int) :
    segFrameNumbers s none (some sn) =
      (match segFrameOwnGuard (framesOfSegment s.frames sn).length s.tiled with
       | .ok _ => .ok (framesOfSegment s.frames sn)
       | .error e => .error e) := by
  unfold segFrameNumbers segFrameOwnGuard
  simp only
  match hl : framesOfSegment s.frames sn with
  | [] => simp
  | [x] => simp
  | _ :: _ :: lt =>
    have h1 : (1 : Int) < (lt.length : Int) + 1 + 1 := by omega
    have h0 : ¬ ((lt.length : Int) + 1 + 1 = 0) := by omega
    cases ht : s.tiled <;> simp [h1, h0]

/-! ## `ReferencedSegment.from_segmentation` (T15g) -/

/-- one step of the validation of the named frames = range guard, index and segment guard regenerated from the source -/
theorem namedFrames_cons (s : Seg) (segment f : Int) (fs : List Int) :
    namedFrames s segment (f :: fs) =
      (match segRefIndex f s.frames.length with
       | .error e => .error e
       | .ok i =>
         match s.frames[i.toNat]? with
         | none => .error .value
         | some fi =>
           match segRefSegmentGuard fi.segment segment with
           | .error e => .error e
           | .ok _ => (namedFrames s segment fs).map (fi :: ·)) := by
  have hidx : segRefIndex f s.frames.length = segFrameIndex f s.frames.length := rfl
  rw [namedFrames, frame?_eq_gen, hidx]
  cases hi : segFrameIndex f s.frames.length with
  | error e => have := segFrameIndex_error _ _ _ hi; subst this; rfl
  | ok i =>
    simp only
    cases hfi : s.frames[i.toNat]? with
    | none => rfl
    | some fi =>
      by_cases hseg : fi.segment = segment <;> simp [segRefSegmentGuard, hseg]

/-- a source image that meets an entry of the same instance: the regenerated merge decides between "the whole instance
from now on" (1) and the union of the frame numbers (2) -/
theorem mergeSrc_known (y x : SrcImg) (ys : List SrcImg) (h : y.inst = x.inst) :
    mergeSrc (y :: ys) x =
      (match segRefMerge false y.frames.isNone x.frames.isNone with
       | .ok 1 => { y with frames := none } :: ys
       | .ok 2 => { y with frames := some (unionInto (y.frames.getD []) (x.frames.getD [])) } :: ys
       | _ => y :: ys) := by
  obtain ⟨yc, yi, yf⟩ := y
  obtain ⟨xc, xi, xf⟩ := x
  simp only at h
  cases yf <;> cases xf <;> simp [mergeSrc, mergeFrames, segRefMerge, h]

/-- a source image of an instance the table does not hold yet is a new entry, behind all others (regenerated: 0) -/
theorem mergeSrc_new (t : List SrcImg) (x : SrcImg) (h : ∀ y ∈ t, y.inst ≠ x.inst) :
    segRefMerge true (decide False) x.frames.isNone = .ok 0 ∧ mergeSrc t x = t ++ [x] := by
  refine ⟨by simp [segRefMerge], ?_⟩
  induction t with
  | nil => rfl
  | cons y ys ih =>
    have hy : y.inst ≠ x.inst := h y (by simp)
    simp [mergeSrc, hy, ih (fun z hz => h z (by simp [hz]))]

/-- no frame number given: a segment without frames is refused by the regenerated guard -/
theorem refSegment_own (s : Seg) (segment : Int) (r : SegmentRef) (h : refSegment s segment none = .ok r) :
    segRefOwnGuard (s.frames.filter (fun fi => fi.segment = segment)).length = .ok true := by
  unfold refSegment at h
  unfold segRefOwnGuard
  generalize s.frames.filter (fun fi => fi.segment = segment) = l at h ⊢
  cases l with
  | nil => by_cases hs : s.isSeg <;> simp [hs, bind, Except.bind, throw, throwThe, MonadExceptOf.throw] at h
  | cons x lt =>
    have h0 : ¬ ((lt.length : Int) + 1 = 0) := by omega
    simp [h0]

/-! ## `_SR.__init__` (T15h) -/

/-- the document constructor of the model refuses by the regenerated guards on the evidence list and on the number of
roots, and records the two evidence sequences and the predecessors by the regenerated tests -/
theorem buildSR_gen (a : DocArgs) (d : Doc) (h : buildSR a = .ok d) :
    srEvidenceGuard a.evidence.length = .ok true ∧ srContentGuard a.nRoots = .ok true ∧
    ∃ cur oth, collectEvidence a.evidence a.tree = .ok (cur, oth) ∧
      d.current = (if srRecordCurrent cur.length = .ok true then cur else []) ∧
      d.other = (if srRecordOther a.record oth.length = .ok true then oth else []) ∧
      d.predecessors = (if srRecordPredecessors a.previous.isSome = .ok true then a.previous.map predecessors else none) := by
  unfold buildSR at h
  split at h; · simp at h
  rename_i hev
  split at h; · simp at h
  split at h; · simp at h
  rename_i hroots
  split at h; · simp at h
  split at h; · simp at h
  split at h; · simp at h
  split at h; · simp at h
  rename_i cur oth hce
  split at h; · simp at h
  split at h; · simp at h
  simp only [Except.ok.injEq] at h
  subst h
  refine ⟨?_, ?_, cur, oth, hce, ?_, ?_, ?_⟩
  · cases hl : a.evidence with
    | nil => simp [hl] at hev
    | cons _ et =>
      have h0 : ¬ ((et.length : Int) + 1 = 0) := by omega
      simp [srEvidenceGuard, h0]
  · have : a.nRoots = 1 := by simpa using hroots
    simp [srContentGuard, this]
  · cases cur with
    | nil => simp [srRecordCurrent]
    | cons _ ct =>
      have h0 : (0 : Int) < (ct.length : Int) + 1 := by omega
      simp [srRecordCurrent, h0]
  · cases oth with
    | nil => simp [srRecordOther]
    | cons _ ot =>
      have h0 : (0 : Int) < (ot.length : Int) + 1 := by omega
      cases hr : a.record <;> simp [srRecordOther, h0]
  · cases a.previous <;> simp [srRecordPredecessors]

/-- the regenerated guards pass only what the tests of the model pass (a non-empty evidence list, exactly one root) -/
theorem buildSR_guards_complete (a : DocArgs) (h1 : srEvidenceGuard a.evidence.length = .ok true)
    (h2 : srContentGuard a.nRoots = .ok true) : a.evidence.isEmpty = false ∧ a.nRoots = 1 := by
  constructor
  · cases hl : a.evidence with
    | nil => simp [hl, srEvidenceGuard] at h1
    | cons _ _ => rfl
  · by_cases hn : a.nRoots = 1
    · exact hn
    · have : ¬ ((a.nRoots : Int) = 1) := by omega
      simp [srContentGuard, this] at h2

/-- the regenerated guards refuse what the model refuses: no evidence, a sequence of several roots -/
theorem buildSR_refused_gen (a : DocArgs)
    (h : srEvidenceGuard a.evidence.length ≠ .ok true ∨ srContentGuard a.nRoots ≠ .ok true) :
    ∃ e, buildSR a = .error e := by
  cases hb : buildSR a with
  | error e => exact ⟨e, rfl⟩
  | ok d =>
    obtain ⟨h1, h2, _⟩ := buildSR_gen a d hb
    rcases h with h | h <;> contradiction

end HdVerif.SREvidence
