import HdVerif.Model.SRReportHistory
/-! Lemmas about histories on one report object and about respelled reports. -/
namespace HdVerif.SRReport
open HdVerif

theorem stateAfter_append (r : List Group) (a b : List Op) : stateAfter r (a ++ b) = stateAfter (stateAfter r a) b := by
  induction a generalizing r with
  | nil => rfl
  | cons op rest ih =>
    cases op with
    | edit e => simp only [List.cons_append, stateAfter]; exact ih _
    | query k f => simp only [List.cons_append, stateAfter]; exact ih _

theorem run_append (r : List Group) (a b : List Op) : run r (a ++ b) = run r a ++ run (stateAfter r a) b := by
  induction a generalizing r with
  | nil => rfl
  | cons op rest ih =>
    cases op with
    | edit e => simp only [List.cons_append, run, stateAfter]; exact ih _
    | query k f => simp only [List.cons_append, run, stateAfter, ih]

/-- queries leave the report as it is: the state after a history is the state after its edits alone -/
theorem stateAfter_filter_edits (r : List Group) (ops : List Op) : stateAfter r ops = stateAfter r (ops.filter Op.isEdit) := by
  induction ops generalizing r with
  | nil => rfl
  | cons op rest ih =>
    cases op with
    | edit e => simp only [stateAfter, List.filter, Op.isEdit]; exact ih _
    | query k f => simp only [stateAfter, List.filter, Op.isEdit]; exact ih _

/-- earlier queries do not influence later answers: dropping every query of a prefix changes no answer after it -/
theorem run_after_prefix (r : List Group) (pre post : List Op) :
    run (stateAfter r pre) post = run (stateAfter r (pre.filter Op.isEdit)) post := by
  rw [← stateAfter_filter_edits]

/-! ## respelling -/

theorem GItem.mapCodes_comp (n m : String → String) (it : GItem) :
    GItem.mapCodes n (GItem.mapCodes m it) = GItem.mapCodes (n ∘ m) it := by
  unfold GItem.mapCodes Kid.mapCodes
  cases hv : it.vt == "CODE" <;> simp [hv, List.map_map, Function.comp_def]

theorem Group.mapCodes_comp (n m : String → String) (g : Group) :
    Group.mapCodes n (Group.mapCodes m g) = Group.mapCodes (n ∘ m) g := by
  unfold Group.mapCodes
  simp only [List.map_map]
  congr 1
  apply List.map_congr_left
  intro it _
  exact GItem.mapCodes_comp n m it

/-- a report respelled with equivalent codes (`norm ∘ respell = norm`) answers every query as the original does -/
theorem queryN_respell (norm respell : String → String) (h : ∀ c, norm (respell c) = norm c) (k : Kind) (gs : List Group)
    (f : Filters) : queryN norm k (gs.map (Group.mapCodes respell)) f = queryN norm k gs f := by
  unfold queryN
  congr 1
  rw [List.map_map]
  apply List.map_congr_left
  intro g _
  simp only [Function.comp]
  rw [Group.mapCodes_comp]
  congr 1
  funext c
  exact h c

/-- the same for a respelled QUERY value (the filter names the concept in the other spelling) -/
theorem queryN_respell_filter (norm respell : String → String) (h : ∀ c, norm (respell c) = norm c) (k : Kind) (gs : List Group)
    (f : Filters) : queryN norm k gs (f.mapCodes respell) = queryN norm k gs f := by
  unfold queryN
  congr 1
  unfold Filters.mapCodes
  simp only [Option.map_map]
  have : norm ∘ respell = norm := funext h
  simp [this]

end HdVerif.SRReport

namespace HdVerif.SRReport
open HdVerif

/-- the position a group has BEFORE two groups are exchanged -/
def swapIdx (i j p : Nat) : Nat := if p = i then j else if p = j then i else p

theorem getElem?_swap (r : List Group) (i j : Nat) (hi : i < r.length) (hj : j < r.length) (p : Nat) :
    (applyEdit r (.swap i j))[p]? = r[swapIdx i j p]? := by
  unfold applyEdit swapIdx
  have h1 : r[i]? = some r[i] := List.getElem?_eq_getElem hi
  have h2 : r[j]? = some r[j] := List.getElem?_eq_getElem hj
  simp only [h1, h2]
  rw [List.getElem?_set, List.getElem?_set]
  by_cases hpj : j = p
  · subst hpj
    simp only [if_true, List.length_set, hj]
    by_cases hpi : j = i
    · subst hpi; simp [h1]
    · simp [hpi, h1]
  · simp only [hpj, if_false]
    by_cases hpi : i = p
    · subst hpi
      simp [hi, h2]
    · have : ¬ p = i := fun h => hpi h.symm
      have : ¬ p = j := fun h => hpj h.symm
      simp [*]

end HdVerif.SRReport

namespace HdVerif.SRReport
open HdVerif

theorem filter_map_fst {α} (l : List α) (f : α → String × String) (q : α → Bool) (n : String) :
    ((l.filter q).map f).filter (fun x => x.1 == n) = (l.filter (fun x => (f x).1 == n && q x)).map f := by
  induction l with
  | nil => rfl
  | cons a t ih =>
    simp only [List.filter_cons]
    by_cases hq : q a = true
    · by_cases hn : ((f a).1 == n) = true
      · simp [hq, hn, ih, List.filter_cons]
      · simp [hq, hn, ih, List.filter_cons]
    · simp [hq, ih]

/-- the named accessor is the unnamed one filtered by name (any group, any name) -/
theorem measurementsNamed_eq (g : Group) (n : String) :
    measurementsNamed g n = (measurementsOf g).filter (fun x => x.1 == n) := by
  unfold measurementsNamed measurementsOf
  rw [filter_map_fst]
  congr 1
  apply List.filter_congr
  intro it _
  simp [Bool.and_assoc]

theorem evaluationsNamed_eq (g : Group) (n : String) :
    evaluationsNamed g n = (evaluationsOf g).filter (fun x => x.1 == n) := by
  unfold evaluationsNamed evaluationsOf
  rw [filter_map_fst]
  congr 1
  apply List.filter_congr
  intro it _
  simp [Bool.and_assoc]

end HdVerif.SRReport
