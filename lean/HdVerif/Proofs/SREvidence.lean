import HdVerif.Model.SREvidence
/-! Helper lemmas for C15 (search = filter of the descendants; grouping is a permutation that keeps every
instance once under its own study/series). -/
namespace HdVerif.SREvidenceLemmas
open HdVerif HdVerif.SREvidence

/-! ## search -/

mutual
theorem searchItem_rec (q : Query) : ∀ it : Item, searchItem q true it = (subtree it).filter q.matches
  | .mk i v n r rf hs ch => by
    cases hs with
    | false => simp [searchItem, subtree, List.filter_cons]
    | true =>
      have h := searchList_rec q ch
      by_cases hm : q.matches (.mk i v n r rf true ch) <;>
        simp [searchItem, subtree, h, hm]
theorem searchList_rec (q : Query) : ∀ l : List Item, searchList q true l = (subtreeList l).filter q.matches
  | [] => by simp [searchList, subtreeList]
  | x :: xs => by
    simp [searchList, subtreeList, searchItem_rec q x, searchList_rec q xs]
end

theorem searchItem_flat (q : Query) (it : Item) :
    searchItem q false it = if q.matches it then [it] else [] := by
  cases it with
  | mk i v n r rf hs ch => simp [searchItem]

theorem searchList_flat (q : Query) : ∀ l : List Item, searchList q false l = l.filter q.matches
  | [] => by simp [searchList]
  | x :: xs => by
    simp only [searchList, searchItem_flat, searchList_flat q xs, List.filter_cons]
    by_cases h : q.matches x <;> simp [h]

theorem find_rec (root : Item) (q : Query) (h : root.hasSeq = true) :
    findContentItems root q true = .ok ((descendants root).filter q.matches) := by
  simp [findContentItems, descendants, h, searchList_rec]

theorem find_flat (root : Item) (q : Query) (h : root.hasSeq = true) :
    findContentItems root q false = .ok (root.children.filter q.matches) := by
  simp [findContentItems, h, searchList_flat]

/-- "at any depth": `Below root it` = `it` is reached from `root` through content sequences -/
inductive Below : Item → Item → Prop
  | child {root it : Item} : root.hasSeq = true → it ∈ root.children → Below root it
  | deeper {root c it : Item} : root.hasSeq = true → c ∈ root.children → Below c it → Below root it

mutual
theorem mem_subtree_self : ∀ it : Item, it ∈ subtree it
  | .mk i v n r rf hs ch => by simp [subtree]
theorem subtree_trans_aux : ∀ (it x : Item), x ∈ subtree it → x = it ∨ (it.hasSeq = true ∧ x ∈ subtreeList it.children)
  | .mk i v n r rf hs ch, x, h => by
    cases hs with
    | false => simp [subtree] at h; exact Or.inl h
    | true =>
      simp [subtree] at h
      rcases h with h | h
      · exact Or.inl h
      · exact Or.inr ⟨rfl, h⟩
end

theorem mem_subtreeList {x : Item} : ∀ {l : List Item}, x ∈ subtreeList l ↔ ∃ c ∈ l, x ∈ subtree c
  | [] => by simp [subtreeList]
  | y :: ys => by
    simp only [subtreeList, List.mem_append, mem_subtreeList (l := ys), List.mem_cons]
    constructor
    · rintro (h | ⟨c, hc, hx⟩)
      · exact ⟨y, Or.inl rfl, h⟩
      · exact ⟨c, Or.inr hc, hx⟩
    · rintro ⟨c, hc | hc, hx⟩
      · subst hc; exact Or.inl hx
      · exact Or.inr ⟨c, hc, hx⟩

theorem below_of_mem_subtree : ∀ (n : Nat) (c x : Item), sizeOf c ≤ n → x ∈ subtree c → x = c ∨ Below c x := by
  intro n
  induction n with
  | zero =>
    intro c x hs
    cases c; simp at hs
  | succ n ih =>
    intro c x hs hx
    rcases subtree_trans_aux c x hx with h | ⟨hseq, h⟩
    · exact Or.inl h
    · right
      obtain ⟨c', hc', hx'⟩ := mem_subtreeList.mp h
      have hsz : sizeOf c' ≤ n := by
        cases c with
        | mk i v nm r rf hs' ch =>
          simp only [Item.children] at hc'
          have := List.sizeOf_lt_of_mem hc'
          simp at hs
          omega
      rcases ih c' x hsz hx' with h' | h'
      · subst h'; exact Below.child hseq hc'
      · exact Below.deeper hseq hc' h'

theorem mem_subtree_of_below {root x : Item} (h : Below root x) : x ∈ subtree root := by
  induction h with
  | @child root it hs hm =>
    cases root with
    | mk i v n r rf hs' ch =>
      simp only [Item.hasSeq] at hs
      simp only [Item.children] at hm
      subst hs
      simp only [subtree, List.mem_cons, if_true]
      exact Or.inr (mem_subtreeList.mpr ⟨it, hm, mem_subtree_self it⟩)
  | @deeper root c it hs hm _ ih =>
    cases root with
    | mk i v n r rf hs' ch =>
      simp only [Item.hasSeq] at hs
      simp only [Item.children] at hm
      subst hs
      simp only [subtree, List.mem_cons, if_true]
      exact Or.inr (mem_subtreeList.mpr ⟨c, hm, ih⟩)

/-- the descendants are exactly the items below the root, whatever the depth -/
theorem mem_descendants_iff (root x : Item) : x ∈ descendants root ↔ Below root x := by
  constructor
  · intro h
    unfold descendants at h
    by_cases hs : root.hasSeq = true
    · simp [hs] at h
      obtain ⟨c, hc, hx⟩ := mem_subtreeList.mp h
      rcases below_of_mem_subtree (sizeOf c) c x (Nat.le_refl _) hx with h' | h'
      · subst h'; exact Below.child hs hc
      · exact Below.deeper hs hc h'
    · simp [hs] at h
  · intro h
    have := mem_subtree_of_below h
    cases root with
    | mk i v n r rf hs ch =>
      cases h with
      | child hs' hm =>
        simp only [Item.hasSeq] at hs'
        subst hs'
        simp only [descendants, Item.hasSeq, Item.children, if_true]
        exact mem_subtreeList.mpr ⟨x, hm, mem_subtree_self x⟩
      | deeper hs' hm hb =>
        simp only [Item.hasSeq] at hs'
        subst hs'
        simp only [descendants, Item.hasSeq, Item.children, if_true]
        exact mem_subtreeList.mpr ⟨_, hm, mem_subtree_of_below hb⟩

/-! ## grouping -/

def rowOf (k : Key) (r : Ref) : Row := ⟨k.1, k.2, r.inst, r.cls⟩

/-- flattening of the (study, series)-keyed groups -/
def rowsK : KeyGroups → List Row
  | [] => []
  | (k, rs) :: rest => rs.map (rowOf k) ++ rowsK rest

theorem rowsK_addTo (key : Key) (r : Ref) : ∀ g : KeyGroups,
    (rowsK (addTo key r g)).Perm (rowsK g ++ [rowOf key r])
  | [] => by simp [addTo, rowsK]
  | (k, xs) :: rest => by
    by_cases h : k = key
    · subst h
      simp only [addTo, if_true, rowsK, List.map_append, List.map_cons, List.map_nil, List.append_assoc]
      exact List.Perm.append_left _ List.perm_append_comm
    · simp only [addTo, h, if_false, rowsK, List.append_assoc]
      exact List.Perm.append_left _ (rowsK_addTo key r rest)

theorem rowsSeries_append (st : String) : ∀ a b : List Series, rowsSeries st (a ++ b) = rowsSeries st a ++ rowsSeries st b
  | [], b => by simp [rowsSeries]
  | (se, rs) :: a, b => by simp [rowsSeries, rowsSeries_append st a b]

theorem rows_addTo (st se : String) (rs : List Ref) : ∀ acc : Groups,
    (rows (addTo st (se, rs) acc)).Perm (rows acc ++ rs.map (rowOf (st, se)))
  | [] => by
    simp only [addTo, rows, rowsSeries, List.append_nil, List.nil_append]
    exact List.Perm.refl _
  | (k, ss) :: rest => by
    by_cases h : k = st
    · subst h
      simp only [addTo, if_true, rows, rowsSeries_append, rowsSeries, List.append_nil, List.append_assoc]
      exact List.Perm.append_left _ List.perm_append_comm
    · simp only [addTo, h, if_false, rows, List.append_assoc]
      exact List.Perm.append_left _ (rows_addTo st se rs rest)

theorem rows_createReferences : ∀ (g : KeyGroups) (acc : Groups),
    (rows (createReferences g acc)).Perm (rows acc ++ rowsK g)
  | [], acc => by simp [createReferences, rowsK]
  | ((st, se), rs) :: rest, acc => by
    simp only [createReferences, rowsK]
    refine (rows_createReferences rest _).trans ?_
    refine (List.Perm.append_right _ (rows_addTo st se rs acc)).trans ?_
    simp [List.append_assoc]

/-! keys stay distinct -/

theorem keys_addTo {κ α} [DecidableEq κ] (key : κ) (x : α) : ∀ g : List (κ × List α),
    (addTo key x g).map Prod.fst = if key ∈ g.map Prod.fst then g.map Prod.fst else g.map Prod.fst ++ [key]
  | [] => by simp [addTo]
  | (k, xs) :: rest => by
    by_cases h : k = key
    · subst h; simp [addTo]
    · have h' : ¬ key = k := fun e => h e.symm
      simp only [addTo, h, if_false, List.map_cons, keys_addTo key x rest, List.mem_cons, h', false_or]
      by_cases hm : key ∈ rest.map Prod.fst <;> simp [hm]

theorem nodup_keys_addTo {κ α} [DecidableEq κ] (key : κ) (x : α) (g : List (κ × List α))
    (h : (g.map Prod.fst).Nodup) : ((addTo key x g).map Prod.fst).Nodup := by
  rw [keys_addTo]
  by_cases hm : key ∈ g.map Prod.fst
  · simp [hm, h]
  · simp only [hm, if_false]
    rw [List.nodup_append]
    refine ⟨h, by simp, ?_⟩
    intro a ha b hb
    simp at hb
    subst hb
    intro e
    subst e
    exact hm ha

/-- the (study, series) pairs listed in an evidence sequence -/
def pairs : Groups → List Key
  | [] => []
  | (st, ss) :: rest => ss.map (fun se => (st, se.1)) ++ pairs rest

theorem pairs_addTo (st se : String) (rs : List Ref) : ∀ acc : Groups,
    (pairs (addTo st (se, rs) acc)).Perm (pairs acc ++ [(st, se)])
  | [] => by simp [addTo, pairs]
  | (k, ss) :: rest => by
    by_cases h : k = st
    · subst h
      simp only [addTo, if_true, pairs, List.map_append, List.map_cons, List.map_nil, List.append_assoc]
      exact List.Perm.append_left _ List.perm_append_comm
    · simp only [addTo, h, if_false, pairs, List.append_assoc]
      exact List.Perm.append_left _ (pairs_addTo st se rs rest)

theorem pairs_createReferences : ∀ (g : KeyGroups) (acc : Groups),
    (pairs (createReferences g acc)).Perm (pairs acc ++ g.map Prod.fst)
  | [], acc => by simp [createReferences]
  | ((st, se), rs) :: rest, acc => by
    simp only [createReferences, List.map_cons]
    refine (pairs_createReferences rest _).trans ?_
    refine (List.Perm.append_right _ (pairs_addTo st se rs acc)).trans ?_
    simp [List.append_assoc]

theorem studies_createReferences : ∀ (g : KeyGroups) (acc : Groups),
    (acc.map Prod.fst).Nodup → ((createReferences g acc).map Prod.fst).Nodup
  | [], acc, h => by simpa [createReferences] using h
  | ((st, se), rs) :: rest, acc, h => by
    simp only [createReferences]
    exact studies_createReferences rest _ (nodup_keys_addTo st (se, rs) acc h)

/-- no empty study or series item is ever produced -/
def NonEmpty (g : Groups) : Prop := ∀ st ∈ g, st.2 ≠ [] ∧ ∀ se ∈ st.2, se.2 ≠ []

theorem nonEmpty_addTo (st se : String) (rs : List Ref) (hrs : rs ≠ []) : ∀ acc : Groups,
    NonEmpty acc → NonEmpty (addTo st (se, rs) acc)
  | [], _ => by
    intro x hx
    simp [addTo] at hx
    subst hx
    simp [hrs]
  | (k, ss) :: rest, h => by
    by_cases hk : k = st
    · subst hk
      intro x hx
      simp only [addTo, if_true, List.mem_cons] at hx
      rcases hx with hx | hx
      · subst hx
        refine ⟨by simp, ?_⟩
        intro s hs
        simp only [List.mem_append, List.mem_cons, List.not_mem_nil, or_false] at hs
        rcases hs with hs | hs
        · exact (h (k, ss) (by simp)).2 s hs
        · subst hs; exact hrs
      · exact h x (by simp [hx])
    · intro x hx
      simp only [addTo, hk, if_false, List.mem_cons] at hx
      rcases hx with hx | hx
      · subst hx; exact h (k, ss) (by simp)
      · exact nonEmpty_addTo st se rs hrs rest (fun y hy => h y (by simp [hy])) x hx

def NonEmptyK (g : KeyGroups) : Prop := ∀ x ∈ g, x.2 ≠ []

theorem nonEmptyK_addTo (key : Key) (r : Ref) : ∀ g : KeyGroups, NonEmptyK g → NonEmptyK (addTo key r g)
  | [], _ => by intro x hx; simp [addTo] at hx; subst hx; simp
  | (k, xs) :: rest, h => by
    by_cases hk : k = key
    · subst hk
      intro x hx
      simp only [addTo, if_true, List.mem_cons] at hx
      rcases hx with hx | hx
      · subst hx; simp
      · exact h x (by simp [hx])
    · intro x hx
      simp only [addTo, hk, if_false, List.mem_cons] at hx
      rcases hx with hx | hx
      · subst hx; exact h (k, xs) (by simp)
      · exact nonEmptyK_addTo key r rest (fun y hy => h y (by simp [hy])) x hx

theorem nonEmpty_createReferences : ∀ (g : KeyGroups) (acc : Groups), NonEmptyK g → NonEmpty acc →
    NonEmpty (createReferences g acc)
  | [], acc, _, h => by simpa [createReferences] using h
  | ((st, se), rs) :: rest, acc, hg, h => by
    simp only [createReferences]
    exact nonEmpty_createReferences rest _ (fun y hy => hg y (by simp [hy]))
      (nonEmpty_addTo st se rs (hg ((st, se), rs) (by simp)) acc h)

/-! ## the loop over the supplied instances -/

theorem rowOf_evd (e : Evd) : rowOf (e.study, e.series) ⟨e.cls, e.inst⟩ = e.row := rfl

structure LoopInv (refs : List String) (F : List Evd) (a a' : Acc) : Prop where
  seen : a'.seen = a.seen ++ F.map (·.inst)
  ref : (rowsK a'.refG).Perm (rowsK a.refG ++ (F.filter (fun e => decide (e.inst ∈ refs))).map Evd.row)
  unref : (rowsK a'.unrefG).Perm (rowsK a.unrefG ++ (F.filter (fun e => !decide (e.inst ∈ refs))).map Evd.row)
  refKeys : (a.refG.map Prod.fst).Nodup → (a'.refG.map Prod.fst).Nodup
  unrefKeys : (a.unrefG.map Prod.fst).Nodup → (a'.unrefG.map Prod.fst).Nodup
  refNE : NonEmptyK a.refG → NonEmptyK a'.refG
  unrefNE : NonEmptyK a.unrefG → NonEmptyK a'.unrefG

theorem evdLoop_inv (refs : List String) : ∀ (evd : List Evd) (a : Acc),
    LoopInv refs (firstByInst evd a.seen) a (evdLoop refs evd a)
  | [], a => by
    constructor <;> simp [evdLoop, firstByInst]
  | e :: es, a => by
    by_cases hs : e.inst ∈ a.seen
    · have ih := evdLoop_inv refs es a
      have hF : firstByInst (e :: es) a.seen = firstByInst es a.seen := by simp [firstByInst, hs]
      have hL : evdLoop refs (e :: es) a = evdLoop refs es a := by simp [evdLoop, hs]
      rw [hF, hL]
      exact ih
    · have hF : firstByInst (e :: es) a.seen = e :: firstByInst es (a.seen ++ [e.inst]) := by simp [firstByInst, hs]
      rw [hF]
      by_cases hr : e.inst ∈ refs
      · have ih := evdLoop_inv refs es
          { a with seen := a.seen ++ [e.inst], refG := addTo (e.study, e.series) ⟨e.cls, e.inst⟩ a.refG }
        have hL : evdLoop refs (e :: es) a = evdLoop refs es
            { a with seen := a.seen ++ [e.inst], refG := addTo (e.study, e.series) ⟨e.cls, e.inst⟩ a.refG } := by
          simp [evdLoop, hs, hr]
        rw [hL]
        constructor
        · rw [ih.seen]; simp
        · refine ih.ref.trans ?_
          simp only [List.filter_cons, hr, decide_true, if_true, List.map_cons]
          refine (List.Perm.append_right _ (rowsK_addTo _ _ _)).trans ?_
          rw [rowOf_evd]
          simp
        · refine ih.unref.trans ?_
          simp [hr]
        · intro h; exact ih.refKeys (nodup_keys_addTo _ _ _ h)
        · exact ih.unrefKeys
        · intro h; exact ih.refNE (nonEmptyK_addTo _ _ _ h)
        · exact ih.unrefNE
      · have ih := evdLoop_inv refs es
          { a with seen := a.seen ++ [e.inst], unrefG := addTo (e.study, e.series) ⟨e.cls, e.inst⟩ a.unrefG }
        have hL : evdLoop refs (e :: es) a = evdLoop refs es
            { a with seen := a.seen ++ [e.inst], unrefG := addTo (e.study, e.series) ⟨e.cls, e.inst⟩ a.unrefG } := by
          simp [evdLoop, hs, hr]
        rw [hL]
        constructor
        · rw [ih.seen]; simp
        · refine ih.ref.trans ?_
          simp [hr]
        · refine ih.unref.trans ?_
          simp only [List.filter_cons, hr, decide_false, Bool.not_false, if_true, List.map_cons]
          refine (List.Perm.append_right _ (rowsK_addTo _ _ _)).trans ?_
          rw [rowOf_evd]
          simp
        · exact ih.refKeys
        · intro h; exact ih.unrefKeys (nodup_keys_addTo _ _ _ h)
        · exact ih.refNE
        · intro h; exact ih.unrefNE (nonEmptyK_addTo _ _ _ h)

/-- the translated loop body does what the hand-written loop does -/
theorem evdLoopM_eq (refs : List String) : ∀ (evd : List Evd) (a : Acc), evdLoopM refs evd a = .ok (evdLoop refs evd a)
  | [], a => rfl
  | e :: es, a => by
    unfold evdLoopM evdLoop
    by_cases hs : e.inst ∈ a.seen
    · simp only [hs, decide_true, Gen.evidenceStep, if_true]
      simp
      exact evdLoopM_eq refs es a
    · by_cases hr : e.inst ∈ refs
      · simp only [hs, hr, decide_true, decide_false, Gen.evidenceStep, if_true, if_false]
        simp
        exact evdLoopM_eq refs es _
      · simp only [hs, hr, decide_false, Gen.evidenceStep, if_false]
        simp
        exact evdLoopM_eq refs es _

theorem evidenceGuard_eval (b : Bool) : Gen.evidenceGuard b = if b then .ok true else .error .value := by
  cases b <;> simp [Gen.evidenceGuard]

/-! first occurrences -/

theorem firstByInst_sub : ∀ (evd : List Evd) (seen : List String), ∀ e ∈ firstByInst evd seen, e ∈ evd ∧ e.inst ∉ seen
  | [], _ => by simp [firstByInst]
  | x :: xs, seen => by
    intro e he
    by_cases h : x.inst ∈ seen
    · simp only [firstByInst, h, if_true] at he
      have := firstByInst_sub xs seen e he
      exact ⟨by simp [this.1], this.2⟩
    · simp only [firstByInst, h, if_false, List.mem_cons] at he
      rcases he with he | he
      · subst he; exact ⟨by simp, h⟩
      · have := firstByInst_sub xs (seen ++ [x.inst]) e he
        refine ⟨by simp [this.1], ?_⟩
        intro hc
        exact this.2 (by simp [hc])

theorem firstByInst_nodup : ∀ (evd : List Evd) (seen : List String), ((firstByInst evd seen).map (·.inst)).Nodup
  | [], _ => by simp [firstByInst]
  | x :: xs, seen => by
    by_cases h : x.inst ∈ seen
    · simp only [firstByInst, h, if_true]; exact firstByInst_nodup xs seen
    · simp only [firstByInst, h, if_false, List.map_cons, List.nodup_cons]
      refine ⟨?_, firstByInst_nodup xs _⟩
      intro hc
      obtain ⟨e, he, heq⟩ := List.mem_map.mp hc
      have := (firstByInst_sub xs (seen ++ [x.inst]) e he).2
      exact this (by simp [heq])

/-- every supplied instance UID not seen before has a first occurrence -/
theorem firstByInst_complete : ∀ (evd : List Evd) (seen : List String) (e : Evd), e ∈ evd → e.inst ∉ seen →
    e.inst ∈ (firstByInst evd seen).map (·.inst)
  | [], _, _ => by simp
  | x :: xs, seen, e => by
    intro he hns
    by_cases h : x.inst ∈ seen
    · simp only [firstByInst, h, if_true]
      rcases List.mem_cons.mp he with he | he
      · subst he; exact absurd h hns
      · exact firstByInst_complete xs seen e he hns
    · simp only [firstByInst, h, if_false, List.map_cons, List.mem_cons]
      by_cases hx : e.inst = x.inst
      · exact Or.inl hx
      · right
        rcases List.mem_cons.mp he with he | he
        · subst he; exact absurd rfl hx
        · exact firstByInst_complete xs _ e he (by simp [hns, hx])

/-! ## collect_evidence -/

/-- every study listed once, every (study, series) listed once, no empty items -/
def WellGrouped (g : Groups) : Prop := (g.map Prod.fst).Nodup ∧ (pairs g).Nodup ∧ NonEmpty g

theorem wellGrouped_createReferences (g : KeyGroups) (hk : (g.map Prod.fst).Nodup) (hne : NonEmptyK g) :
    WellGrouped (createReferences g []) := by
  refine ⟨studies_createReferences g [] (by simp), ?_, nonEmpty_createReferences g [] hne (by intro x hx; simp at hx)⟩
  have := pairs_createReferences g []
  simp only [pairs, List.nil_append] at this
  exact (this.nodup_iff).mpr hk

theorem seen_all_iff (refs : List String) (evd : List Evd) :
    (refs.all (fun u => decide (u ∈ (evdLoop refs evd ⟨[], [], []⟩).seen)) = true) ↔ ∀ u ∈ refs, u ∈ evd.map (·.inst) := by
  have hinv := evdLoop_inv refs evd ⟨[], [], []⟩
  simp only [List.all_eq_true, decide_eq_true_eq]
  constructor
  · intro h u hu
    have := h u hu
    rw [hinv.seen] at this
    simp only [List.nil_append] at this
    obtain ⟨e, he, heq⟩ := List.mem_map.mp this
    exact List.mem_map.mpr ⟨e, (firstByInst_sub evd [] e he).1, heq⟩
  · intro h u hu
    obtain ⟨e, he, heq⟩ := List.mem_map.mp (h u hu)
    rw [hinv.seen]
    simp only [List.nil_append]
    rw [← heq]
    exact firstByInst_complete evd [] e he (by simp)

theorem collectEvidence_ok (evd : List Evd) (tree : Item) (refs : List String) (hr : refUids tree = .ok refs)
    (hall : ∀ u ∈ refs, u ∈ evd.map (·.inst)) :
    ∃ cur oth, collectEvidence evd tree = .ok (cur, oth) ∧
      (rows cur).Perm (((firstByInst evd []).filter (fun e => decide (e.inst ∈ refs))).map Evd.row) ∧
      (rows oth).Perm (((firstByInst evd []).filter (fun e => !decide (e.inst ∈ refs))).map Evd.row) ∧
      WellGrouped cur ∧ WellGrouped oth := by
  have hinv := evdLoop_inv refs evd ⟨[], [], []⟩
  refine ⟨createReferences (evdLoop refs evd ⟨[], [], []⟩).refG [], createReferences (evdLoop refs evd ⟨[], [], []⟩).unrefG [], ?_, ?_, ?_, ?_, ?_⟩
  · simp only [collectEvidence, hr, evdLoopM_eq, evidenceGuard_eval]
    rw [if_pos ((seen_all_iff refs evd).mpr hall)]
  · refine (rows_createReferences _ []).trans ?_
    simp only [rows, List.nil_append]
    have := hinv.ref
    simpa [rowsK] using this
  · refine (rows_createReferences _ []).trans ?_
    simp only [rows, List.nil_append]
    have := hinv.unref
    simpa [rowsK] using this
  · exact wellGrouped_createReferences _ (hinv.refKeys (by simp)) (hinv.refNE (by intro x hx; simp at hx))
  · exact wellGrouped_createReferences _ (hinv.unrefKeys (by simp)) (hinv.unrefNE (by intro x hx; simp at hx))

theorem collectEvidence_missing (evd : List Evd) (tree : Item) (refs : List String) (hr : refUids tree = .ok refs)
    (hmiss : ∃ u ∈ refs, u ∉ evd.map (·.inst)) : collectEvidence evd tree = .error .value := by
  simp only [collectEvidence, hr, evdLoopM_eq, evidenceGuard_eval]
  rw [if_neg]
  intro h
  obtain ⟨u, hu, hn⟩ := hmiss
  exact hn ((seen_all_iff refs evd).mp h u hu)

theorem collectEvidence_spec (evd : List Evd) (tree : Item) (cur oth : Groups)
    (h : collectEvidence evd tree = .ok (cur, oth)) :
    ∃ refs, refUids tree = .ok refs ∧ (∀ u ∈ refs, u ∈ evd.map (·.inst)) ∧
      (rows cur).Perm (((firstByInst evd []).filter (fun e => decide (e.inst ∈ refs))).map Evd.row) ∧
      (rows oth).Perm (((firstByInst evd []).filter (fun e => !decide (e.inst ∈ refs))).map Evd.row) ∧
      WellGrouped cur ∧ WellGrouped oth := by
  cases hr : refUids tree with
  | error e => simp [collectEvidence, hr] at h
  | ok refs =>
    by_cases hall : ∀ u ∈ refs, u ∈ evd.map (·.inst)
    · obtain ⟨c, o, hco, h1, h2, h3, h4⟩ := collectEvidence_ok evd tree refs hr hall
      rw [hco] at h
      cases h
      exact ⟨refs, rfl, hall, h1, h2, h3, h4⟩
    · have : ∃ u ∈ refs, u ∉ evd.map (·.inst) := by
        obtain ⟨u, hu⟩ := Classical.not_forall.mp hall
        have := Classical.not_imp.mp hu
        exact ⟨u, this.1, this.2⟩
      rw [collectEvidence_missing evd tree refs hr this] at h
      cases h

/-- what `refUids` collects: the instance UIDs of IMAGE and COMPOSITE items at any depth -/
theorem refUids_mem (tree : Item) (refs : List String) (h : refUids tree = .ok refs) (u : String) :
    u ∈ refs ↔ ∃ it ∈ descendants tree, (it.vt = "IMAGE" ∨ it.vt = "COMPOSITE") ∧ ∃ r, it.ref = some r ∧ r.inst = u := by
  unfold refUids at h
  by_cases hs : tree.hasSeq = true
  · rw [find_rec tree _ hs, find_rec tree _ hs] at h
    simp only [bind, Except.bind] at h
    generalize hl : (List.filter (Query.matches { vt := some "IMAGE" }) (descendants tree) ++
        List.filter (Query.matches { vt := some "COMPOSITE" }) (descendants tree)) = l at h
    have hmem : ∀ it, it ∈ l ↔ it ∈ descendants tree ∧ (it.vt = "IMAGE" ∨ it.vt = "COMPOSITE") := by
      intro it
      rw [← hl]
      simp only [List.mem_append, List.mem_filter, Query.matches, Bool.true_and, Bool.and_true, beq_iff_eq]
      constructor
      · rintro (⟨a, b⟩ | ⟨a, b⟩)
        · exact ⟨a, Or.inl b⟩
        · exact ⟨a, Or.inr b⟩
      · rintro ⟨a, b | b⟩
        · exact Or.inl ⟨a, b⟩
        · exact Or.inr ⟨a, b⟩
    clear hl
    have key : ∀ (l : List Item) (refs : List String),
        l.mapM (fun it => match it.ref with | some r => (Except.ok r.inst : Except ErrKind String) | none => .error .attribute) = .ok refs →
        ∀ u, u ∈ refs ↔ ∃ it ∈ l, ∃ r, it.ref = some r ∧ r.inst = u := by
      intro l
      induction l with
      | nil => intro refs h u; simp [List.mapM_nil, pure, Except.pure] at h; subst h; simp
      | cons x xs ih =>
        intro refs h u
        rw [List.mapM_cons] at h
        cases hx : x.ref with
        | none => simp [hx, bind, Except.bind] at h
        | some r =>
          simp only [hx, bind, Except.bind] at h
          cases hxs : xs.mapM (fun it => match it.ref with | some r => (Except.ok r.inst : Except ErrKind String) | none => .error .attribute) with
          | error e => simp [hxs] at h
          | ok rest =>
            simp only [hxs, pure, Except.pure] at h
            cases h
            simp only [List.mem_cons, ih rest hxs u]
            constructor
            · rintro (h | ⟨it, hit, r', hr', hu⟩)
              · exact ⟨x, Or.inl rfl, r, hx, h.symm⟩
              · exact ⟨it, Or.inr hit, r', hr', hu⟩
            · rintro ⟨it, hit | hit, r', hr', hu⟩
              · subst hit; rw [hx] at hr'; cases hr'; exact Or.inl hu.symm
              · exact Or.inr ⟨it, hit, r', hr', hu⟩
    rw [key l refs h u]
    constructor
    · rintro ⟨it, hit, r, hr, hu⟩
      exact ⟨it, ((hmem it).mp hit).1, ((hmem it).mp hit).2, r, hr, hu⟩
    · rintro ⟨it, hit, hv, r, hr, hu⟩
      exact ⟨it, (hmem it).mpr ⟨hit, hv⟩, r, hr, hu⟩
  · simp [findContentItems, hs, bind, Except.bind] at h

end HdVerif.SREvidenceLemmas

namespace HdVerif.SREvidenceLemmas
open HdVerif HdVerif.SREvidence

/-! ## references built from a segmentation -/

theorem frame?_framesOf (fs : List FrameInfo) (seg : Int) : ∀ (start f : Int),
    f ∈ framesOfSegment fs seg start ↔ ∃ fi, start ≤ f ∧ fs[(f - start).toNat]? = some fi ∧ fi.segment = seg := by
  induction fs with
  | nil => intro start f; simp [framesOfSegment]
  | cons x xs ih =>
    intro start f
    simp only [framesOfSegment, List.mem_append, ih (start + 1) f]
    constructor
    · rintro (h | ⟨fi, hle, hget, hseg⟩)
      · by_cases hx : x.segment = seg
        · simp only [hx, if_true, List.mem_cons, List.not_mem_nil, or_false] at h
          subst h
          exact ⟨x, Int.le_refl _, by simp, hx⟩
        · simp [hx] at h
      · refine ⟨fi, by omega, ?_, hseg⟩
        have : (f - start).toNat = (f - (start + 1)).toNat + 1 := by omega
        rw [this, List.getElem?_cons_succ]
        exact hget
    · rintro ⟨fi, hle, hget, hseg⟩
      by_cases hf : f = start
      · subst hf
        simp only [Int.sub_self, Int.toNat_zero, List.getElem?_cons_zero, Option.some.injEq] at hget
        subst hget
        left
        simp [hseg]
      · right
        refine ⟨fi, by omega, ?_, hseg⟩
        have : (f - start).toNat = (f - (start + 1)).toNat + 1 := by omega
        rw [this, List.getElem?_cons_succ] at hget
        exact hget

/-- naming a segment names exactly the frames that belong to it -/
theorem mem_framesOfSegment (s : Seg) (seg f : Int) :
    f ∈ framesOfSegment s.frames seg ↔ ∃ fi, s.frame? f = some fi ∧ fi.segment = seg := by
  rw [frame?_framesOf]
  unfold Seg.frame?
  constructor
  · rintro ⟨fi, hle, hget, hseg⟩
    have hlt : (f - 1).toNat < s.frames.length := by
      have := List.getElem?_eq_some_iff.mp hget
      exact this.1
    refine ⟨fi, ?_, hseg⟩
    rw [if_neg (by omega)]
    exact hget
  · rintro ⟨fi, hget, hseg⟩
    by_cases hc : f < 1 ∨ f > s.frames.length
    · simp [hc] at hget
    · rw [if_neg hc] at hget
      exact ⟨fi, by omega, hget, hseg⟩

theorem dedup_mem {α} [DecidableEq α] : ∀ (l seen : List α) (x : α), x ∈ l → x ∈ seen ∨ x ∈ dedup l seen
  | [], _, _, h => by simp at h
  | y :: ys, seen, x, h => by
    by_cases hy : y ∈ seen
    · simp only [dedup, hy, if_true]
      rcases List.mem_cons.mp h with h | h
      · subst h; exact Or.inl hy
      · exact dedup_mem ys seen x h
    · simp only [dedup, hy, if_false, List.mem_cons]
      rcases List.mem_cons.mp h with h | h
      · exact Or.inr (Or.inl h)
      · rcases dedup_mem ys (seen ++ [y]) x h with h' | h'
        · simp only [List.mem_append, List.mem_cons, List.not_mem_nil, or_false] at h'
          rcases h' with h' | h'
          · exact Or.inl h'
          · exact Or.inr (Or.inl h')
        · exact Or.inr (Or.inr h')

theorem dedup_singleton {α} [DecidableEq α] (l : List α) (x : α) (h : dedup l [] = [x]) : ∀ y ∈ l, y = x := by
  intro y hy
  rcases dedup_mem l [] y hy with h' | h'
  · simp at h'
  · rw [h] at h'; simpa using h'

theorem mem_unionInto : ∀ (l acc : List Int) (x : Int), x ∈ unionInto acc l ↔ x ∈ acc ∨ x ∈ l
  | [], acc, x => by simp [unionInto]
  | y :: ys, acc, x => by
    by_cases hy : y ∈ acc
    · simp only [unionInto, hy, if_true, mem_unionInto ys acc x, List.mem_cons]
      constructor
      · rintro (h | h)
        · exact Or.inl h
        · exact Or.inr (Or.inr h)
      · rintro (h | h | h)
        · exact Or.inl h
        · subst h; exact Or.inl hy
        · exact Or.inr h
    · simp only [unionInto, hy, if_false, mem_unionInto ys (acc ++ [y]) x, List.mem_append, List.mem_cons,
        List.not_mem_nil, or_false]
      constructor
      · rintro ((h | h) | h)
        · exact Or.inl h
        · exact Or.inr (Or.inl h)
        · exact Or.inr (Or.inr h)
      · rintro (h | h | h)
        · exact Or.inl (Or.inl h)
        · exact Or.inl (Or.inr h)
        · exact Or.inr h

/-- the source frames contributed by one source-image item -/
def srcFramesOf (src : SrcImg) : List Int := match src.frames with | none => [] | some l => l

/-- a frame of the segmentation that carries a (single) source image `src` -/
def FrameHasSrc (s : Seg) (f : Int) (src : SrcImg) : Prop := ∃ fi, s.frame? f = some fi ∧ fi.single = .ok (some src)

structure SegLoopInv (s : Seg) (fs : List Int) (a a' : LoopAcc) : Prop where
  valid : ∀ f ∈ fs, ∃ fi, s.frame? f = some fi ∧ fi.segment ∈ a'.segs ∧
            ((fi.single = .ok none) ∨ ∃ src, fi.single = .ok (some src) ∧ a'.srcUids = some (src.cls, src.inst))
  segs : ∀ x, x ∈ a'.segs ↔ x ∈ a.segs ∨ ∃ f ∈ fs, ∃ fi, s.frame? f = some fi ∧ fi.segment = x
  keep : ∀ u, a.srcUids = some u → a'.srcUids = some u
  uids : ∀ u, a'.srcUids = some u → a.srcUids = some u ∨ ∃ f ∈ fs, ∃ src, FrameHasSrc s f src ∧ u = (src.cls, src.inst)
  frames : ∀ x, x ∈ a'.srcFrames ↔ x ∈ a.srcFrames ∨ ∃ f ∈ fs, ∃ src, FrameHasSrc s f src ∧ x ∈ srcFramesOf src
  whole : a'.srcWhole = true ↔ a.srcWhole = true ∨ ∃ f ∈ fs, ∃ src, FrameHasSrc s f src ∧ src.frames = none

/-- extending an invariant by one more leading frame `f` (frame record `fi`) whose effect on the accumulator is `a ↦ a1` -/
theorem segLoopInv_cons (s : Seg) (f : Int) (fs : List Int) (fi : FrameInfo) (a a1 a' : LoopAcc)
    (hfi : s.frame? f = some fi) (ih : SegLoopInv s fs a1 a')
    (hsegs : a1.segs = a.segs ++ [fi.segment])
    (hcase : (fi.single = .ok none ∧ a1.srcUids = a.srcUids ∧ a1.srcFrames = a.srcFrames ∧ a1.srcWhole = a.srcWhole) ∨
      ∃ src, fi.single = .ok (some src) ∧ a1.srcUids = some (src.cls, src.inst) ∧
        (a.srcUids = none ∨ a.srcUids = some (src.cls, src.inst)) ∧
        (∀ x, x ∈ a1.srcFrames ↔ x ∈ a.srcFrames ∨ x ∈ srcFramesOf src) ∧
        (a1.srcWhole = true ↔ a.srcWhole = true ∨ src.frames = none)) :
    SegLoopInv s (f :: fs) a a' := by
  have hsingle : ∀ src, FrameHasSrc s f src ↔ fi.single = .ok (some src) := by
    intro src
    constructor
    · rintro ⟨fi', h1, h2⟩; rw [hfi] at h1; cases h1; exact h2
    · intro h; exact ⟨fi, hfi, h⟩
  constructor
  · intro g hg
    rcases List.mem_cons.mp hg with hg | hg
    · subst hg
      refine ⟨fi, hfi, (ih.segs _).mpr (Or.inl (by rw [hsegs]; simp)), ?_⟩
      rcases hcase with ⟨h, _⟩ | ⟨src, h, hu, _⟩
      · exact Or.inl h
      · exact Or.inr ⟨src, h, ih.keep _ hu⟩
    · exact ih.valid g hg
  · intro x
    rw [ih.segs x, hsegs]
    simp only [List.mem_append, List.mem_cons, List.not_mem_nil, or_false]
    constructor
    · rintro ((h1 | h1) | ⟨g, hg, fi', h1, h2⟩)
      · exact Or.inl h1
      · exact Or.inr ⟨f, Or.inl rfl, fi, hfi, h1.symm⟩
      · exact Or.inr ⟨g, Or.inr hg, fi', h1, h2⟩
    · rintro (h1 | ⟨g, hg | hg, fi', h1, h2⟩)
      · exact Or.inl (Or.inl h1)
      · subst hg; rw [hfi] at h1; cases h1; exact Or.inl (Or.inr h2.symm)
      · exact Or.inr ⟨g, hg, fi', h1, h2⟩
  · intro u hu
    rcases hcase with ⟨_, h, _⟩ | ⟨src, _, h1, h0, _⟩
    · exact ih.keep u (by rw [h]; exact hu)
    · rcases h0 with h0 | h0
      · rw [h0] at hu; cases hu
      · rw [h0] at hu; cases hu; exact ih.keep _ h1
  · intro u hu
    rcases ih.uids u hu with h1 | ⟨g, hg, src', h1, h2⟩
    · rcases hcase with ⟨_, h, _⟩ | ⟨src, hs, hu1, h0, _⟩
      · exact Or.inl (by rw [← h]; exact h1)
      · rw [hu1] at h1
        cases h1
        exact Or.inr ⟨f, by simp, src, (hsingle src).mpr hs, rfl⟩
    · exact Or.inr ⟨g, by simp [hg], src', h1, h2⟩
  · intro x
    rw [ih.frames x]
    rcases hcase with ⟨hs, _, h, _⟩ | ⟨src, hs, _, _, hf, _⟩
    · rw [h]
      constructor
      · rintro (h1 | ⟨g, hg, src', h1, h2⟩)
        · exact Or.inl h1
        · exact Or.inr ⟨g, by simp [hg], src', h1, h2⟩
      · rintro (h1 | ⟨g, hg, src', h1, h2⟩)
        · exact Or.inl h1
        · rcases List.mem_cons.mp hg with hg | hg
          · subst hg
            have := (hsingle src').mp h1
            rw [hs] at this; cases this
          · exact Or.inr ⟨g, hg, src', h1, h2⟩
    · rw [hf x]
      constructor
      · rintro ((h1 | h1) | ⟨g, hg, src', h1, h2⟩)
        · exact Or.inl h1
        · exact Or.inr ⟨f, by simp, src, (hsingle src).mpr hs, h1⟩
        · exact Or.inr ⟨g, by simp [hg], src', h1, h2⟩
      · rintro (h1 | ⟨g, hg, src', h1, h2⟩)
        · exact Or.inl (Or.inl h1)
        · rcases List.mem_cons.mp hg with hg | hg
          · subst hg
            have := (hsingle src').mp h1
            rw [hs] at this; cases this
            exact Or.inl (Or.inr h2)
          · exact Or.inr ⟨g, hg, src', h1, h2⟩
  · rw [ih.whole]
    rcases hcase with ⟨hs, _, _, h⟩ | ⟨src, hs, _, _, _, hw⟩
    · rw [h]
      constructor
      · rintro (h1 | ⟨g, hg, src', h1, h2⟩)
        · exact Or.inl h1
        · exact Or.inr ⟨g, by simp [hg], src', h1, h2⟩
      · rintro (h1 | ⟨g, hg, src', h1, h2⟩)
        · exact Or.inl h1
        · rcases List.mem_cons.mp hg with hg | hg
          · subst hg
            have := (hsingle src').mp h1
            rw [hs] at this; cases this
          · exact Or.inr ⟨g, hg, src', h1, h2⟩
    · rw [hw]
      constructor
      · rintro ((h1 | h1) | ⟨g, hg, src', h1, h2⟩)
        · exact Or.inl h1
        · exact Or.inr ⟨f, by simp, src, (hsingle src).mpr hs, h1⟩
        · exact Or.inr ⟨g, by simp [hg], src', h1, h2⟩
      · rintro (h1 | ⟨g, hg, src', h1, h2⟩)
        · exact Or.inl (Or.inl h1)
        · rcases List.mem_cons.mp hg with hg | hg
          · subst hg
            have := (hsingle src').mp h1
            rw [hs] at this; cases this
            exact Or.inl (Or.inr h2)
          · exact Or.inr ⟨g, hg, src', h1, h2⟩

theorem segFrameLoop_inv (s : Seg) : ∀ (fs : List Int) (a a' : LoopAcc), segFrameLoop s fs a = .ok a' →
    SegLoopInv s fs a a'
  | [], a, a', h => by
    simp only [segFrameLoop, Except.ok.injEq] at h
    subst h
    constructor <;> simp
  | f :: fs, a, a', h => by
    unfold segFrameLoop at h
    cases hfi : s.frame? f with
    | none => simp [hfi] at h
    | some fi =>
      simp only [hfi] at h
      cases hsingle : fi.single with
      | error e => simp [hsingle] at h
      | ok o =>
        cases o with
        | none =>
          simp only [hsingle] at h
          exact segLoopInv_cons s f fs fi a _ a' hfi (segFrameLoop_inv s fs _ a' h) rfl (Or.inl ⟨hsingle, rfl, rfl, rfl⟩)
        | some src =>
          simp only [hsingle] at h
          have hfr : ∀ (base : List Int) (x : Int),
              x ∈ (match src.frames with | none => base | some l => unionInto base l) ↔ x ∈ base ∨ x ∈ srcFramesOf src := by
            intro base x
            unfold srcFramesOf
            cases src.frames with
            | none => simp
            | some l => simp [mem_unionInto]
          have hwh : ∀ (w : Bool), (match src.frames with | none => true | some _ => w) = true ↔ w = true ∨ src.frames = none := by
            intro w
            cases src.frames <;> simp
          cases hu : a.srcUids with
          | none =>
            simp only [hu] at h
            exact segLoopInv_cons s f fs fi a _ a' hfi (segFrameLoop_inv s fs _ a' h) rfl
              (Or.inr ⟨src, hsingle, rfl, Or.inl hu, hfr a.srcFrames, hwh a.srcWhole⟩)
          | some u0 =>
            simp only [hu] at h
            by_cases heq : u0 = (src.cls, src.inst)
            · subst heq
              simp only [if_true] at h
              exact segLoopInv_cons s f fs fi a _ a' hfi (segFrameLoop_inv s fs _ a' h) rfl
                (Or.inr ⟨src, hsingle, rfl, Or.inr hu, hfr a.srcFrames, hwh a.srcWhole⟩)
            · simp [heq] at h

end HdVerif.SREvidenceLemmas

namespace HdVerif.SREvidenceLemmas
open HdVerif HdVerif.SREvidence

theorem namedFrames_spec (s : Seg) (seg : Int) : ∀ (fs : List Int) (infos : List FrameInfo),
    namedFrames s seg fs = .ok infos →
      (∀ f ∈ fs, ∃ fi, s.frame? f = some fi ∧ fi.segment = seg ∧ fi ∈ infos) ∧
      (∀ fi ∈ infos, ∃ f ∈ fs, s.frame? f = some fi ∧ fi.segment = seg)
  | [], infos, h => by
    simp only [namedFrames, Except.ok.injEq] at h
    subst h
    simp
  | f :: fs, infos, h => by
    unfold namedFrames at h
    cases hfi : s.frame? f with
    | none => simp [hfi] at h
    | some fi =>
      simp only [hfi] at h
      by_cases hseg : fi.segment ≠ seg
      · simp [hseg] at h
      · have hseg' : fi.segment = seg := Decidable.not_not.mp hseg
        simp only [hseg, if_false] at h
        cases hrest : namedFrames s seg fs with
        | error e => simp [hrest, Except.map] at h
        | ok rest =>
          simp only [hrest, Except.map, Except.ok.injEq] at h
          subst h
          obtain ⟨h1, h2⟩ := namedFrames_spec s seg fs rest hrest
          constructor
          · intro g hg
            rcases List.mem_cons.mp hg with hg | hg
            · subst hg; exact ⟨fi, hfi, hseg', by simp⟩
            · obtain ⟨fi', a, b, c⟩ := h1 g hg
              exact ⟨fi', a, b, by simp [c]⟩
          · intro fi' hfi'
            rcases List.mem_cons.mp hfi' with hfi' | hfi'
            · subst hfi'; exact ⟨f, by simp, hfi, hseg'⟩
            · obtain ⟨g, a, b, c⟩ := h2 fi' hfi'
              exact ⟨g, by simp [a], b, c⟩

theorem mem_frames_iff (s : Seg) (fi : FrameInfo) : fi ∈ s.frames ↔ ∃ f, s.frame? f = some fi := by
  constructor
  · intro h
    obtain ⟨i, hi, hget⟩ := List.mem_iff_getElem.mp h
    refine ⟨(i : Int) + 1, ?_⟩
    unfold Seg.frame?
    rw [if_neg (by omega)]
    have : ((i : Int) + 1 - 1).toNat = i := by omega
    rw [this, List.getElem?_eq_getElem hi, hget]
  · rintro ⟨f, hf⟩
    unfold Seg.frame? at hf
    by_cases hc : f < 1 ∨ f > s.frames.length
    · simp [hc] at hf
    · rw [if_neg hc] at hf
      exact List.mem_of_getElem? hf

/-! per-instance merge of the source images -/

/-- some mention of instance `i` in `L` lists no frame numbers (derived from the whole instance) -/
def Whole (L : List SrcImg) (i : String) : Prop := ∃ x ∈ L, x.inst = i ∧ x.frames = none
/-- some mention of instance `i` in `L` lists frame `f` -/
def HasFrame (L : List SrcImg) (i : String) (f : Int) : Prop := ∃ x ∈ L, x.inst = i ∧ ∃ l, x.frames = some l ∧ f ∈ l

/-- what one entry of the merged table says about the mentions `L` of its instance -/
def ElemSpec (L : List SrcImg) (y : SrcImg) : Prop :=
  (∃ x ∈ L, x.inst = y.inst) ∧ (y.frames = none ↔ Whole L y.inst) ∧
  (∀ fs, y.frames = some fs → ∀ f, f ∈ fs ↔ HasFrame L y.inst f)

theorem mergeSrc_insts : ∀ (acc : List SrcImg) (x : SrcImg),
    (mergeSrc acc x).map (·.inst) = if x.inst ∈ acc.map (·.inst) then acc.map (·.inst) else acc.map (·.inst) ++ [x.inst]
  | [], x => by simp [mergeSrc]
  | y :: ys, x => by
    by_cases h : y.inst = x.inst
    · simp [mergeSrc, h]
    · have h' : ¬ x.inst = y.inst := fun e => h e.symm
      simp only [mergeSrc, h, if_false, List.map_cons, mergeSrc_insts ys x, List.mem_cons, h', false_or]
      by_cases hm : x.inst ∈ ys.map (·.inst) <;> simp [hm]

theorem elemSpec_other (L : List SrcImg) (x y : SrcImg) (hne : y.inst ≠ x.inst) (h : ElemSpec L y) : ElemSpec (L ++ [x]) y := by
  obtain ⟨⟨x0, hx0, he0⟩, h2, h3⟩ := h
  refine ⟨⟨x0, by simp [hx0], he0⟩, ?_, ?_⟩
  · rw [h2]
    constructor
    · rintro ⟨z, hz, a, b⟩; exact ⟨z, by simp [hz], a, b⟩
    · rintro ⟨z, hz, a, b⟩
      simp only [List.mem_append, List.mem_cons, List.not_mem_nil, or_false] at hz
      rcases hz with hz | hz
      · exact ⟨z, hz, a, b⟩
      · subst hz; exact absurd a.symm hne
  · intro fs hfs f
    rw [h3 fs hfs f]
    constructor
    · rintro ⟨z, hz, a, b⟩; exact ⟨z, by simp [hz], a, b⟩
    · rintro ⟨z, hz, a, b⟩
      simp only [List.mem_append, List.mem_cons, List.not_mem_nil, or_false] at hz
      rcases hz with hz | hz
      · exact ⟨z, hz, a, b⟩
      · subst hz; exact absurd a.symm hne

theorem elemSpec_merged (L : List SrcImg) (x y : SrcImg) (he : y.inst = x.inst) (h : ElemSpec L y) :
    ElemSpec (L ++ [x]) { y with frames := mergeFrames y.frames x.frames } := by
  obtain ⟨⟨x0, hx0, he0⟩, h2, h3⟩ := h
  refine ⟨⟨x0, by simp [hx0], he0⟩, ?_, ?_⟩
  · simp only
    cases hy : y.frames with
    | none =>
      simp only [mergeFrames, true_iff]
      obtain ⟨z, hz, a, b⟩ := h2.mp hy
      exact ⟨z, by simp [hz], a, b⟩
    | some fy =>
      cases hx : x.frames with
      | none =>
        simp only [mergeFrames, true_iff]
        exact ⟨x, by simp, he.symm, hx⟩
      | some fx =>
        simp only [mergeFrames, reduceCtorEq, false_iff]
        rintro ⟨z, hz, a, b⟩
        simp only [List.mem_append, List.mem_cons, List.not_mem_nil, or_false] at hz
        rcases hz with hz | hz
        · have := h2.mpr ⟨z, hz, a, b⟩
          rw [hy] at this; cases this
        · subst hz; rw [hx] at b; cases b
  · intro fs hfs f
    simp only at hfs
    cases hy : y.frames with
    | none => rw [hy] at hfs; simp [mergeFrames] at hfs
    | some fy =>
      cases hx : x.frames with
      | none => rw [hy, hx] at hfs; simp [mergeFrames] at hfs
      | some fx =>
        rw [hy, hx] at hfs
        simp only [mergeFrames, Option.some.injEq] at hfs
        subst hfs
        rw [mem_unionInto, h3 fy hy f]
        constructor
        · rintro (⟨z, hz, a, b⟩ | hf)
          · exact ⟨z, by simp [hz], a, b⟩
          · exact ⟨x, by simp, he.symm, fx, hx, hf⟩
        · rintro ⟨z, hz, a, l, b, c⟩
          simp only [List.mem_append, List.mem_cons, List.not_mem_nil, or_false] at hz
          rcases hz with hz | hz
          · exact Or.inl ⟨z, hz, a, l, b, c⟩
          · subst hz; rw [hx] at b; cases b; exact Or.inr c

theorem elemSpec_new (L : List SrcImg) (x : SrcImg) (hnew : ∀ z ∈ L, z.inst ≠ x.inst) : ElemSpec (L ++ [x]) x := by
  refine ⟨⟨x, by simp, rfl⟩, ?_, ?_⟩
  · constructor
    · intro h; exact ⟨x, by simp, rfl, h⟩
    · rintro ⟨z, hz, a, b⟩
      simp only [List.mem_append, List.mem_cons, List.not_mem_nil, or_false] at hz
      rcases hz with hz | hz
      · exact absurd a (hnew z hz)
      · subst hz; exact b
  · intro fs hfs f
    constructor
    · intro hf; exact ⟨x, by simp, rfl, fs, hfs, hf⟩
    · rintro ⟨z, hz, a, l, b, c⟩
      simp only [List.mem_append, List.mem_cons, List.not_mem_nil, or_false] at hz
      rcases hz with hz | hz
      · exact absurd a (hnew z hz)
      · subst hz; rw [hfs] at b; cases b; exact c

theorem mergeSrc_elems (L : List SrcImg) (x : SrcImg) : ∀ (acc : List SrcImg),
    (acc.map (·.inst)).Nodup → (∀ y ∈ acc, ElemSpec L y) → (∀ z ∈ L, z.inst = x.inst → x.inst ∈ acc.map (·.inst)) →
    ∀ y ∈ mergeSrc acc x, ElemSpec (L ++ [x]) y
  | [], _, _, hL => by
    intro y hy
    simp only [mergeSrc, List.mem_cons, List.not_mem_nil, or_false] at hy
    subst hy
    exact elemSpec_new L y (fun z hz e => by simpa using hL z hz e)
  | y0 :: ys, hN, hE, hL => by
    intro y hy
    simp only [List.map_cons, List.nodup_cons] at hN
    by_cases h : y0.inst = x.inst
    · simp only [mergeSrc, if_pos h, List.mem_cons] at hy
      rcases hy with hy | hy
      · subst hy; exact elemSpec_merged L x y0 h (hE y0 (by simp))
      · have hne : y.inst ≠ x.inst := by
          intro e
          apply hN.1
          rw [h, ← e]
          exact List.mem_map.mpr ⟨y, hy, rfl⟩
        exact elemSpec_other L x y hne (hE y (by simp [hy]))
    · simp only [mergeSrc, h, if_false, List.mem_cons] at hy
      rcases hy with hy | hy
      · subst hy; exact elemSpec_other L x y h (hE y (by simp))
      · refine mergeSrc_elems L x ys hN.2 (fun z hz => hE z (by simp [hz])) ?_ y hy
        intro z hz e
        have := hL z hz e
        simp only [List.map_cons, List.mem_cons] at this
        rcases this with this | this
        · exact absurd this.symm h
        · exact this

structure GatherInv (L acc : List SrcImg) : Prop where
  nodup : (acc.map (·.inst)).Nodup
  elems : ∀ y ∈ acc, ElemSpec L y
  complete : ∀ z ∈ L, z.inst ∈ acc.map (·.inst)

theorem gatherInv_step (L acc : List SrcImg) (x : SrcImg) (h : GatherInv L acc) : GatherInv (L ++ [x]) (mergeSrc acc x) := by
  have hi := mergeSrc_insts acc x
  constructor
  · rw [hi]
    by_cases hm : x.inst ∈ acc.map (·.inst)
    · simp only [hm, if_true]; exact h.nodup
    · simp only [hm, if_false]
      rw [List.nodup_append]
      refine ⟨h.nodup, by simp, ?_⟩
      intro a ha b hb
      simp at hb
      subst hb
      intro e
      subst e
      exact hm ha
  · exact mergeSrc_elems L x acc h.nodup h.elems (fun z hz e => by rw [← e]; exact h.complete z hz)
  · intro z hz
    rw [hi]
    simp only [List.mem_append, List.mem_cons, List.not_mem_nil, or_false] at hz
    by_cases hm : x.inst ∈ acc.map (·.inst)
    · simp only [hm, if_true]
      rcases hz with hz | hz
      · exact h.complete z hz
      · subst hz; exact hm
    · simp only [hm, if_false, List.mem_append, List.mem_cons, List.not_mem_nil, or_false]
      rcases hz with hz | hz
      · exact Or.inl (h.complete z hz)
      · subst hz; exact Or.inr rfl

theorem gatherInv_foldl : ∀ (l L acc : List SrcImg), GatherInv L acc → GatherInv (L ++ l) (l.foldl mergeSrc acc)
  | [], L, acc, h => by simpa using h
  | x :: xs, L, acc, h => by
    have := gatherInv_foldl xs (L ++ [x]) (mergeSrc acc x) (gatherInv_step L acc x h)
    simpa [List.append_assoc] using this

/-- **the merged source table**: every instance once; an entry names no frames iff some mention names none, otherwise
exactly the frames the mentions name -/
theorem gatherSources_spec (l : List SrcImg) : GatherInv l (gatherSources l) := by
  have := gatherInv_foldl l [] [] ⟨by simp, by intro y hy; simp at hy, by intro z hz; simp at hz⟩
  simpa [gatherSources] using this

/-- the frames a `ReferencedSegment` request names: the listed ones, or all frames of the segment -/
def NamedBy (s : Seg) (seg : Int) (fs : Option (List Int)) (f : Int) : Prop :=
  match fs with
  | some l => f ∈ l
  | none => f ∈ framesOfSegment s.frames seg

/-- first half of `refSegment`: the frame records it works on are exactly those of the named frames, all of
which exist and belong to the requested segment -/
theorem refSegment_infos (s : Seg) (seg : Int) (fs : Option (List Int)) (r : SegmentRef)
    (h : refSegment s seg fs = .ok r) :
    s.isSeg = true ∧ ∃ infos : List FrameInfo,
      (∀ f, NamedBy s seg fs f → ∃ fi, s.frame? f = some fi ∧ fi.segment = seg ∧ fi ∈ infos) ∧
      (∀ fi ∈ infos, ∃ f, NamedBy s seg fs f ∧ s.frame? f = some fi) ∧
      (fs = none → infos ≠ []) ∧
      (let sources := gatherSources (infos.flatMap frameSources)
       if !sources.isEmpty then r = ⟨s.cls, s.inst, fs, seg, sources, none⟩
       else match s.refSeries with
         | none => False
         | some ser => match s.refInstances with
           | some l => l ≠ [] ∧ r = ⟨s.cls, s.inst, fs, seg, l.map (fun x => ⟨x.cls, x.inst, none⟩), none⟩
           | none => r = ⟨s.cls, s.inst, fs, seg, [], some ser⟩) := by
  unfold refSegment at h
  simp only [bind, Except.bind, pure, Except.pure] at h
  cases hseg : s.isSeg with
  | false => simp [hseg] at h
  | true =>
    refine ⟨rfl, ?_⟩
    simp only [hseg, Bool.not_true, Bool.false_eq_true, if_false] at h
    have tail : ∀ infos : List FrameInfo,
        (if (!(gatherSources (infos.flatMap frameSources)).isEmpty) = true then
            (Except.ok ⟨s.cls, s.inst, fs, seg, gatherSources (infos.flatMap frameSources), none⟩ : Except ErrKind SegmentRef)
          else match s.refSeries with
            | none => throw .attribute
            | some ser => match s.refInstances with
              | some l => if l.isEmpty = true then throw .value
                          else Except.ok ⟨s.cls, s.inst, fs, seg, l.map (fun r => ⟨r.cls, r.inst, none⟩), none⟩
              | none => Except.ok ⟨s.cls, s.inst, fs, seg, [], some ser⟩) = .ok r →
        (let sources := gatherSources (infos.flatMap frameSources)
         if !sources.isEmpty then r = ⟨s.cls, s.inst, fs, seg, sources, none⟩
         else match s.refSeries with
           | none => False
           | some ser => match s.refInstances with
             | some l => l ≠ [] ∧ r = ⟨s.cls, s.inst, fs, seg, l.map (fun x => ⟨x.cls, x.inst, none⟩), none⟩
             | none => r = ⟨s.cls, s.inst, fs, seg, [], some ser⟩) := by
      intro infos ht
      simp only
      by_cases hne : (!(gatherSources (infos.flatMap frameSources)).isEmpty) = true
      · rw [if_pos hne] at ht ⊢
        cases ht; rfl
      · rw [if_neg hne] at ht ⊢
        cases hser : s.refSeries with
        | none => simp [hser, throw, throwThe, MonadExceptOf.throw] at ht
        | some ser =>
          simp only [hser] at ht ⊢
          cases hri : s.refInstances with
          | none => simp only [hri] at ht ⊢; cases ht; rfl
          | some l =>
            simp only [hri] at ht ⊢
            by_cases hl : l.isEmpty = true
            · simp [hl, throw, throwThe, MonadExceptOf.throw] at ht
            · rw [if_neg hl] at ht
              cases ht
              exact ⟨by intro e; subst e; simp at hl, rfl⟩
    cases fs with
    | some l =>
      simp only at h
      cases hn : namedFrames s seg l with
      | error e => simp [hn] at h
      | ok infos =>
        simp only [hn] at h
        obtain ⟨h1, h2⟩ := namedFrames_spec s seg l infos hn
        refine ⟨infos, ?_, ?_, (by intro hc; cases hc), tail infos h⟩
        · intro f hf; exact h1 f hf
        · intro fi hfi
          obtain ⟨f, a, b, _⟩ := h2 fi hfi
          exact ⟨f, a, b⟩
    | none =>
      simp only at h
      by_cases hemp : (s.frames.filter (fun fi => decide (fi.segment = seg))).isEmpty = true
      · simp [hemp, throw, throwThe, MonadExceptOf.throw] at h
      · rw [if_neg hemp] at h
        refine ⟨s.frames.filter (fun fi => decide (fi.segment = seg)), ?_, ?_, ?_, tail _ h⟩
        · intro f hf
          obtain ⟨fi, a, b⟩ := (mem_framesOfSegment s seg f).mp hf
          refine ⟨fi, a, b, ?_⟩
          simp only [List.mem_filter, decide_eq_true_eq]
          exact ⟨(mem_frames_iff s fi).mpr ⟨f, a⟩, b⟩
        · intro fi hfi
          simp only [List.mem_filter, decide_eq_true_eq] at hfi
          obtain ⟨f, hf⟩ := (mem_frames_iff s fi).mp hfi.1
          exact ⟨f, (mem_framesOfSegment s seg f).mpr ⟨fi, hf, hfi.2⟩, hf⟩
        · intro _ hc
          rw [hc] at hemp
          simp at hemp

end HdVerif.SREvidenceLemmas

namespace HdVerif.SREvidenceLemmas
open HdVerif HdVerif.SREvidence

/-! ## helper lemmas for the document-level theorems -/

/-- every item below the root has a value type of the enumeration and a relationship type; the root's value type is of
the enumeration (what the conversion of the copied tree demands) -/
def Convertible (tree : Item) : Prop :=
  Gen.srValueTypes.contains tree.vt = true ∧
  ∀ it ∈ descendants tree, Gen.srValueTypes.contains it.vt = true ∧ it.rel.isSome = true

theorem convertTree_ok_iff (tree : Item) : convertTree tree = .ok () ↔ Convertible tree := by
  unfold convertTree Convertible
  cases hr : Gen.srValueTypes.contains tree.vt with
  | false => simp
  | true =>
    simp only [Bool.not_true, Bool.false_eq_true, if_false, true_and]
    cases hf : (descendants tree).find? (fun it => !Gen.srValueTypes.contains it.vt || it.rel.isNone) with
    | none =>
      simp only [true_iff]
      intro it hit
      have := List.find?_eq_none.mp hf it hit
      cases hv : Gen.srValueTypes.contains it.vt <;> cases hrel : it.rel <;> simp_all
    | some it =>
      have hmem := List.mem_of_find?_eq_some hf
      have hp := List.find?_some hf
      simp only
      constructor
      · intro h
        exfalso
        split at h <;> cases h
      · intro h
        have := h it hmem
        cases hv : Gen.srValueTypes.contains it.vt <;> cases hrel : it.rel <;> simp_all

/-- no SCOORD3D item at any depth -/
def NoScoord3d (tree : Item) : Prop := ∀ it ∈ descendants tree, it.vt ≠ "SCOORD3D"

/-- every IMAGE/COMPOSITE item carries a referenced SOP instance and that instance was supplied -/
def RefsSupplied (tree : Item) (evd : List Evd) : Prop :=
  ∀ it ∈ descendants tree, (it.vt = "IMAGE" ∨ it.vt = "COMPOSITE") → ∃ r, it.ref = some r ∧ r.inst ∈ evd.map (·.inst)

theorem countScoord3d_zero_iff (tree : Item) (hs : tree.hasSeq = true) :
    countScoord3d tree = .ok 0 ↔ NoScoord3d tree := by
  unfold countScoord3d NoScoord3d
  rw [find_rec tree _ hs]
  simp only [Except.map, Except.ok.injEq, List.length_eq_zero_iff, List.filter_eq_nil_iff, Query.matches,
    Bool.true_and, Bool.and_true, beq_iff_eq]

theorem countScoord3d_ok (tree : Item) (hs : tree.hasSeq = true) :
    ∃ n, countScoord3d tree = .ok n ∧ (n = 0 ↔ NoScoord3d tree) := by
  refine ⟨((descendants tree).filter (Query.matches { vt := some "SCOORD3D" })).length, ?_, ?_⟩
  · unfold countScoord3d; rw [find_rec tree _ hs]; rfl
  · rw [← countScoord3d_zero_iff tree hs]
    unfold countScoord3d; rw [find_rec tree _ hs]
    simp [Except.map]

theorem refUids_ok_of_supplied (tree : Item) (evd : List Evd) (hs : tree.hasSeq = true) (h : RefsSupplied tree evd) :
    ∃ refs, refUids tree = .ok refs := by
  unfold refUids
  rw [find_rec tree _ hs, find_rec tree _ hs]
  simp only [bind, Except.bind]
  generalize hl : (List.filter (Query.matches { vt := some "IMAGE" }) (descendants tree) ++
      List.filter (Query.matches { vt := some "COMPOSITE" }) (descendants tree)) = l
  have hmem : ∀ it ∈ l, ∃ r, it.ref = some r := by
    intro it hit
    rw [← hl] at hit
    simp only [List.mem_append, List.mem_filter, Query.matches, Bool.true_and, Bool.and_true, beq_iff_eq] at hit
    rcases hit with ⟨a, b⟩ | ⟨a, b⟩
    · obtain ⟨r, hr, _⟩ := h it a (Or.inl b); exact ⟨r, hr⟩
    · obtain ⟨r, hr, _⟩ := h it a (Or.inr b); exact ⟨r, hr⟩
  clear hl
  induction l with
  | nil => exact ⟨[], rfl⟩
  | cons x xs ih =>
    obtain ⟨r, hr⟩ := hmem x (by simp)
    obtain ⟨rest, hrest⟩ := ih (fun it hit => hmem it (by simp [hit]))
    refine ⟨r.inst :: rest, ?_⟩
    rw [List.mapM_cons]
    simp [hr, hrest, bind, Except.bind, pure, Except.pure]

/-- what an accepted document consists of -/
theorem built_fields (a : DocArgs) (d : Doc) (h : buildSR a = .ok d) :
    ∃ cur oth, collectEvidence a.evidence a.tree = .ok (cur, oth) ∧ d.content = a.tree ∧ d.current = cur ∧
      d.other = (if a.record then oth else []) ∧ d.predecessors = a.previous.map predecessors ∧
      d.verifiedFlag = a.verified := by
  unfold buildSR at h
  split at h
  · cases h
  split at h
  · cases h
  split at h
  · cases h
  split at h
  · cases h
  split at h
  · cases h
  split at h
  · cases h
  split at h
  · cases h
  rename_i cur oth hce
  split at h
  · cases h
  split at h
  · cases h
  cases h
  exact ⟨cur, oth, hce, rfl, rfl, rfl, rfl, rfl⟩

theorem rows_filter_inst_of_perm (l : List Row) (F : List Evd) (hp : l.Perm (F.map Evd.row))
    (hn : (F.map (·.inst)).Nodup) (e : Evd) (he : e ∈ F) :
    l.filter (fun r => decide (r.inst = e.inst)) = [e.row] := by
  have h1 : (l.filter (fun r => decide (r.inst = e.inst))).Perm ((F.map Evd.row).filter (fun r => decide (r.inst = e.inst))) :=
    hp.filter _
  have h2 : (F.map Evd.row).filter (fun r => decide (r.inst = e.inst)) = [e.row] := by
    clear hp h1
    induction F with
    | nil => simp at he
    | cons x xs ih =>
      simp only [List.map_cons, List.nodup_cons] at hn
      rcases List.mem_cons.mp he with he | he
      · subst he
        have : (xs.map Evd.row).filter (fun r => decide (r.inst = e.inst)) = [] := by
          rw [List.filter_eq_nil_iff]
          intro r hr
          obtain ⟨y, hy, hyr⟩ := List.mem_map.mp hr
          subst hyr
          simp only [Evd.row]
          intro heq
          exact hn.1 (List.mem_map.mpr ⟨y, hy, of_decide_eq_true heq⟩)
        simp [Evd.row, this]
      · have hne : x.inst ≠ e.inst := by
          intro heq
          exact hn.1 (List.mem_map.mpr ⟨e, he, heq.symm⟩)
        simp [Evd.row, hne]
        have := ih hn.2 he
        simpa [Evd.row] using this
  rw [h2] at h1
  exact List.perm_singleton.mp h1

theorem rows_filter_inst_nil_of_perm (l : List Row) (F : List Evd) (hp : l.Perm (F.map Evd.row)) (u : String)
    (hn : u ∉ F.map (·.inst)) : l.filter (fun r => decide (r.inst = u)) = [] := by
  rw [List.filter_eq_nil_iff]
  intro r hr
  have := (hp.mem_iff).mp hr
  obtain ⟨y, hy, hyr⟩ := List.mem_map.mp this
  subst hyr
  simp only [Evd.row]
  intro heq
  exact hn (List.mem_map.mpr ⟨y, hy, of_decide_eq_true heq⟩)

theorem dedup_of_nodup {α} [DecidableEq α] : ∀ (l seen : List α), l.Nodup → (∀ x ∈ l, x ∉ seen) → dedup l seen = l
  | [], _, _, _ => rfl
  | x :: xs, seen, hn, hd => by
    have hx : x ∉ seen := hd x (by simp)
    simp only [dedup, hx, if_false]
    rw [dedup_of_nodup xs (seen ++ [x]) (List.nodup_cons.mp hn).2]
    intro y hy
    simp only [List.mem_append, List.mem_cons, List.not_mem_nil, or_false, not_or]
    refine ⟨hd y (by simp [hy]), ?_⟩
    intro e
    subst e
    exact (List.nodup_cons.mp hn).1 hy

theorem nodup_of_map {α β} (f : α → β) : ∀ l : List α, (l.map f).Nodup → l.Nodup
  | [], _ => List.nodup_nil
  | x :: xs, h => by
    simp only [List.map_cons, List.nodup_cons] at h
    refine List.nodup_cons.mpr ⟨fun hx => h.1 (List.mem_map.mpr ⟨x, hx, rfl⟩), nodup_of_map f xs h.2⟩

theorem subtreeList_leaves (f : Ref → Item) (hf : ∀ r, (f r).hasSeq = false) :
    ∀ l : List Ref, subtreeList (l.map f) = l.map f
  | [] => rfl
  | r :: rs => by
    have : subtree (f r) = [f r] := by
      have := hf r
      cases hfr : f r with
      | mk i v n rl rf hs ch =>
        rw [hfr] at this
        simp only [Item.hasSeq] at this
        subst this
        simp [subtree]
    simp [subtreeList, this, subtreeList_leaves f hf rs]

theorem ko_refUids_mem (refs : List Ref) (hasDesc : Bool) (us : List String)
    (h : refUids (koTree refs hasDesc) = .ok us) (u : String) : u ∈ us ↔ u ∈ refs.map (·.inst) := by
  rw [refUids_mem _ _ h]
  have hd : descendants (koTree refs hasDesc) =
      (if hasDesc then [Item.mk 1 "TEXT" "113012|DCM" (some "CONTAINS") none false []] else []) ++
      refs.map (fun r => Item.mk 2 "IMAGE" "260753009|SCT" (some "CONTAINS") (some r) false []) := by
    simp only [descendants, koTree, Item.hasSeq, Item.children, if_true]
    have hl := subtreeList_leaves (fun r => Item.mk 2 "IMAGE" "260753009|SCT" (some "CONTAINS") (some r) false [])
      (fun _ => rfl) refs
    cases hasDesc
    · simpa using hl
    · simp only [if_true, List.cons_append, List.nil_append, subtreeList, subtree, Bool.false_eq_true, if_false]
      rw [hl]
  rw [hd]
  constructor
  · rintro ⟨it, hit, hvt, r, hr, hu⟩
    simp only [List.mem_append, List.mem_map] at hit
    rcases hit with hit | ⟨r', hr', hit⟩
    · cases hasDesc <;> simp at hit
      subst hit
      simp [Item.ref] at hr
    · subst hit
      simp only [Item.ref, Option.some.injEq] at hr
      subst hr
      exact List.mem_map.mpr ⟨r', hr', hu⟩
  · intro hu
    obtain ⟨r, hr, hru⟩ := List.mem_map.mp hu
    refine ⟨Item.mk 2 "IMAGE" "260753009|SCT" (some "CONTAINS") (some r) false [], ?_, Or.inl rfl, r, rfl, hru⟩
    simp only [List.mem_append, List.mem_map]
    exact Or.inr ⟨r, hr, rfl⟩

theorem lookup_rows (u : String) : ∀ (l : List Row),
    (l.map (fun r => (r.inst, (r.study, r.series, r.inst)))).lookup u =
      ((l.filter (fun r => decide (r.inst = u))).head?).map (fun r => (r.study, r.series, r.inst))
  | [] => rfl
  | r :: rs => by
    by_cases h : r.inst = u
    · have hb : (u == r.inst) = true := by simp [h]
      simp [h]
    · have hb : (u == r.inst) = false := by
        simp only [beq_eq_false_iff_ne, ne_eq]
        exact fun e => h e.symm
      simp [List.lookup, hb, h, lookup_rows u rs]

end HdVerif.SREvidenceLemmas

namespace HdVerif.SREvidenceLemmas
open HdVerif HdVerif.SREvidence

theorem refSegFrame_unpack (s : Seg) (fs : Option (List Int)) (seg : Option Int) (r : SegFrameRef)
    (h : refSegFrame s fs seg = .ok r) :
    s.isSeg = true ∧ ∃ fnums a sn src, segFrameNumbers s fs seg = .ok fnums ∧
      segFrameLoop s fnums ⟨[], none, [], false⟩ = .ok a ∧ segFrameSource s a = .ok src ∧ segFrameSegment a seg = .ok sn ∧
      r = ⟨s.cls, s.inst, fnums, sn, src⟩ := by
  unfold refSegFrame at h
  cases hs : s.isSeg with
  | false => simp [hs] at h
  | true =>
    simp only [hs, Bool.not_true, Bool.false_eq_true, if_false] at h
    split at h
    · cases h
    rename_i fnums hn
    split at h
    · cases h
    rename_i a ha
    split at h
    · cases h
    rename_i src hsrc
    split at h
    · cases h
    rename_i sn hsn
    cases h
    exact ⟨rfl, fnums, a, sn, src, hn, ha, hsrc, hsn, rfl⟩

theorem segFrameSegment_spec (a : LoopAcc) (seg : Option Int) (sn : Int) (h : segFrameSegment a seg = .ok sn) :
    (∀ x ∈ a.segs, x = sn) ∧ (∀ want, seg = some want → sn = want) := by
  unfold segFrameSegment at h
  split at h
  · rename_i sn' hd
    cases seg with
    | none =>
      simp only [Except.ok.injEq] at h
      subst h
      exact ⟨dedup_singleton _ _ hd, by intro w hw; cases hw⟩
    | some want =>
      simp only at h
      by_cases he : sn' = want
      · simp only [he, if_true, Except.ok.injEq] at h
        subst h
        subst he
        exact ⟨dedup_singleton _ _ hd, by intro w hw; cases hw; rfl⟩
      · simp [he] at h
  · cases h
  · cases h

end HdVerif.SREvidenceLemmas

namespace HdVerif.SREvidenceLemmas
open HdVerif HdVerif.SREvidence

theorem foldl_addTo_inv : ∀ (prev : List Evd) (g : KeyGroups),
    (rowsK (prev.foldl (fun g p => addTo (p.study, p.series) ⟨p.cls, p.inst⟩ g) g)).Perm (rowsK g ++ prev.map Evd.row) ∧
    ((g.map Prod.fst).Nodup → ((prev.foldl (fun g p => addTo (p.study, p.series) ⟨p.cls, p.inst⟩ g) g).map Prod.fst).Nodup) ∧
    (NonEmptyK g → NonEmptyK (prev.foldl (fun g p => addTo (p.study, p.series) ⟨p.cls, p.inst⟩ g) g))
  | [], g => by simp
  | e :: es, g => by
    obtain ⟨h1, h2, h3⟩ := foldl_addTo_inv es (addTo (e.study, e.series) ⟨e.cls, e.inst⟩ g)
    simp only [List.foldl_cons, List.map_cons]
    refine ⟨?_, fun h => h2 (nodup_keys_addTo _ _ _ h), fun h => h3 (nonEmptyK_addTo _ _ _ h)⟩
    refine h1.trans ?_
    refine (List.Perm.append_right _ (rowsK_addTo _ _ _)).trans ?_
    rw [rowOf_evd]
    simp

/-- `_collect_predecessors`: every previous version listed (no deduplication), under its own study and series -/
theorem predecessors_spec (prev : List Evd) :
    (rows (predecessors prev)).Perm (prev.map Evd.row) ∧ WellGrouped (predecessors prev) := by
  obtain ⟨h1, h2, h3⟩ := foldl_addTo_inv prev []
  unfold predecessors
  constructor
  · refine (rows_createReferences _ []).trans ?_
    simpa [rows, rowsK] using h1
  · exact wellGrouped_createReferences _ (h2 (by simp)) (h3 (by intro x hx; simp at hx))

end HdVerif.SREvidenceLemmas

namespace HdVerif.SREvidenceLemmas
open HdVerif HdVerif.SREvidence

theorem dedup_sub {α} [DecidableEq α] : ∀ (l seen : List α) (x : α), x ∈ dedup l seen → x ∈ l ∧ x ∉ seen
  | [], _, _, h => by simp [dedup] at h
  | y :: ys, seen, x, h => by
    by_cases hy : y ∈ seen
    · simp only [dedup, hy, if_true] at h
      have := dedup_sub ys seen x h
      exact ⟨by simp [this.1], this.2⟩
    · simp only [dedup, hy, if_false, List.mem_cons] at h
      rcases h with h | h
      · subst h; exact ⟨by simp, hy⟩
      · have := dedup_sub ys (seen ++ [y]) x h
        exact ⟨by simp [this.1], fun hc => this.2 (by simp [hc])⟩

theorem dedup_nodup {α} [DecidableEq α] : ∀ (l seen : List α), (dedup l seen).Nodup
  | [], _ => by simp [dedup]
  | y :: ys, seen => by
    by_cases hy : y ∈ seen
    · simp only [dedup, hy, if_true]; exact dedup_nodup ys seen
    · simp only [dedup, hy, if_false, List.nodup_cons]
      exact ⟨fun hc => (dedup_sub ys (seen ++ [y]) y hc).2 (by simp), dedup_nodup ys _⟩

/-- order-preserving deduplication keeps exactly the elements, once each -/
theorem dedup_spec {α} [DecidableEq α] (l : List α) : (dedup l []).Nodup ∧ ∀ x, x ∈ dedup l [] ↔ x ∈ l := by
  refine ⟨dedup_nodup l [], fun x => ⟨fun h => (dedup_sub l [] x h).1, fun h => ?_⟩⟩
  rcases dedup_mem l [] x h with h' | h'
  · simp at h'
  · exact h'

theorem pairs_eq_flatMap : ∀ g : Groups, g.flatMap (fun st => st.2.map (fun se => (st.1, se.1))) = pairs g
  | [] => rfl
  | (st, ss) :: rest => by simp [pairs, pairs_eq_flatMap rest]

end HdVerif.SREvidenceLemmas
