import HdVerif.Proofs.Volume
import HdVerif.Generated.T9o
/-! C08 (round 2): bridges for the argument handling of `swap_spatial_axes`, `flip_spatial`, `_permute_affine` and
`_prepare_pad_width`: the hand-written `swapList`, `flipItems`, `permOfList`, `rawPadWidth` / `fullPadWidth` (+ the origin
offset of `padAxis`) give, on every argument of the enumerated domains, exactly what the current source gives (T9o:
the source run on those arguments), error kinds included. -/
namespace HdVerif.VolLemmas
open HdVerif HdVerif.Gen HdVerif.Vol

def padWOf : PadW → PadWidth
  | .int k => .int k
  | .flat l => .flat l
  | .nested l => .nested l

/-- what the model hands on for a `pad_width`: the six widths and the three origin offsets (T9e) -/
def modelPadWidth (w : PadW) : Except ErrKind (List Int × List Int) := do
  let full ← fullPadWidth (padWOf w)
  let o0 ← padOriginOffset full.1.1 full.1.2
  let o1 ← padOriginOffset full.2.1.1 full.2.1.2
  let o2 ← padOriginOffset full.2.2.1 full.2.2.2
  pure ([full.1.1, full.1.2, full.2.1.1, full.2.1.2, full.2.2.1, full.2.2.2], [o0, o1, o2])

theorem padWidth_is_source_table : padWidthTable.all (fun row => decide (modelPadWidth row.1 = row.2)) = true := by
  decide +kernel

theorem swapList_is_source_table : swapTable.all (fun row => decide (swapList row.1.1 row.1.2 = row.2)) = true := by
  decide +kernel

/-- `slice(-1, None, -1)` ↦ true, `slice(None)` ↦ false -/
def isFlipItem (it : Item) : Bool := it == Item.slice (some (-1)) none (some (-1))

def modelFlip (axes : List Int) : Except ErrKind (List Bool) :=
  match flipItems axes with
  | .ok items => .ok (items.map isFlipItem)
  | .error e => .error e

theorem flipItems_is_source_table : flipTable.all (fun row => decide (modelFlip row.1 = row.2)) = true := by
  decide +kernel

theorem flipItems_only_two_slices (axes : List Int) (items : List Item) (h : flipItems axes = .ok items) :
    ∀ it ∈ items, it = Item.slice (some (-1)) none (some (-1)) ∨ it = Item.slice none none none := by
  unfold flipItems at h
  split at h
  · cases h
  · simp only [Except.ok.injEq] at h
    subst h
    intro it hit
    simp only [List.map, List.mem_cons, List.not_mem_nil, or_false] at hit
    rcases hit with rfl | rfl | rfl <;> split <;> simp

theorem permOfList_iff_source (l : List Int) : (∃ q, permOfList l = .ok q) ↔ l ∈ permuteAccepted := by
  constructor
  · rintro ⟨q, h⟩
    unfold permOfList at h
    split at h
    · rename_i a b c
      have ha : ∀ k : Int, (∃ x, Ax.ofInt k = some x) → k = 0 ∨ k = 1 ∨ k = 2 := by
        intro k ⟨x, hx⟩
        unfold Ax.ofInt at hx
        split at hx
        · left; assumption
        · split at hx
          · right; left; assumption
          · split at hx
            · right; right; assumption
            · cases hx
      cases hx : Ax.ofInt a with
      | none => simp [hx] at h
      | some x =>
        cases hy : Ax.ofInt b with
        | none => simp [hx, hy] at h
        | some y =>
          cases hz : Ax.ofInt c with
          | none => simp [hx, hy, hz] at h
          | some z =>
            rcases ha a ⟨x, hx⟩ with rfl | rfl | rfl <;> rcases ha b ⟨y, hy⟩ with rfl | rfl | rfl <;>
              rcases ha c ⟨z, hz⟩ with rfl | rfl | rfl <;> first | decide | (simp [Ax.ofInt] at h)
    · cases h
  · intro h
    have : permuteAccepted.all (fun l => (permOfList l).toBool) = true := by decide
    have h2 := List.all_eq_true.mp this l h
    cases hq : permOfList l with
    | ok q => exact ⟨q, rfl⟩
    | error e => rw [hq] at h2; cases h2

end HdVerif.VolLemmas
