import HdVerif.Model.Match
import HdVerif.Proofs.RatFloor
import Mathlib.Tactic.Linarith
import Mathlib.Tactic.FieldSimp
import Mathlib.Tactic.Ring
import Mathlib.Tactic.Push
/-! Specification predicates and helper lemmas for C09 (`Model/Match.lean`). -/
namespace HdVerif.Match
open HdVerif HdVerif.Gen

/-! ## small algebra -/

theorem V3.ext' {a b : V3} (hx : a.x = b.x) (hy : a.y = b.y) (hz : a.z = b.z) : a = b := by
  cases a; cases b; simp_all

theorem rabs_nonneg (x : Rat) : 0 ≤ rabs x := by
  by_cases hx : x < 0 <;> simp only [rabs, hx, if_true, if_false] <;> linarith

theorem rabs_le_iff (x c : Rat) : rabs x ≤ c ↔ -c ≤ x ∧ x ≤ c := by
  by_cases hx : x < 0 <;> simp only [rabs, hx, if_true, if_false] <;> constructor
  · intro h; constructor <;> linarith
  · rintro ⟨h1, h2⟩; linarith
  · intro h; constructor <;> linarith
  · rintro ⟨h1, h2⟩; linarith

theorem rabs_lt_iff (x c : Rat) : rabs x < c ↔ -c < x ∧ x < c := by
  by_cases hx : x < 0 <;> simp only [rabs, hx, if_true, if_false] <;> constructor
  · intro h; constructor <;> linarith
  · rintro ⟨h1, h2⟩; linarith
  · intro h; constructor <;> linarith
  · rintro ⟨h1, h2⟩; linarith

theorem rabs_zero : rabs 0 = 0 := by unfold rabs; simp

theorem ax_cases (a : Ax) : a = 0 ∨ a = 1 ∨ a = 2 := by
  rcases a with ⟨v, hv⟩
  have : v = 0 ∨ v = 1 ∨ v = 2 := by omega
  rcases this with rfl | rfl | rfl
  · left; rfl
  · right; left; rfl
  · right; right; rfl

theorem forall_ax {P : Ax → Prop} : (∀ a, P a) ↔ P 0 ∧ P 1 ∧ P 2 := by
  constructor
  · intro h; exact ⟨h 0, h 1, h 2⟩
  · rintro ⟨h0, h1, h2⟩ a
    rcases ax_cases a with rfl | rfl | rfl <;> assumption

@[simp] theorem mk3_0 {α : Type} (a b c : α) : mk3 a b c 0 = a := rfl
@[simp] theorem mk3_1 {α : Type} (a b c : α) : mk3 a b c 1 = b := rfl
@[simp] theorem mk3_2 {α : Type} (a b c : α) : mk3 a b c 2 = c := rfl

theorem mk3_eta {α : Type} (f : Ax → α) : mk3 (f 0) (f 1) (f 2) = f := by
  funext a; rcases ax_cases a with rfl | rfl | rfl <;> rfl

/-! ## geometry_equal -/

/-- one affine entry within tolerance, `np.allclose` style: `|a - b| ≤ atol + rtol |b|` -/
def EntryWithin (atol a b : Rat) : Prop := rabs (a - b) ≤ atol + rtolDefault * rabs b

def VecWithin (atol : Rat) (a b : V3) : Prop :=
  EntryWithin atol a.x b.x ∧ EntryWithin atol a.y b.y ∧ EntryWithin atol a.z b.z

/-- "affine within tolerance": every entry of the affine matrix of `g` is within tolerance of the
entry of `h` (`tol = none`: identical) -/
def AffineWithin (g h : Geom) : Option Rat → Prop
  | some t => (∀ a, VecWithin t (g.col a) (h.col a)) ∧ VecWithin t g.pos h.pos
  | none => (∀ a, g.col a = h.col a) ∧ g.pos = h.pos

/-- "no conflicting frame of reference": if both are known they are the same -/
def NoForConflict (g h : Geom) : Prop := ∀ u v, g.frameOfRef = some u → h.frameOfRef = some v → u = v

theorem closeEntry_iff (t a b : Rat) : closeEntry t a b = true ↔ EntryWithin t a b := by
  unfold closeEntry EntryWithin; simp

theorem closeV_iff (t : Rat) (a b : V3) : closeV t a b = true ↔ VecWithin t a b := by
  unfold closeV VecWithin; simp [closeEntry_iff, and_assoc]

theorem affineClose_iff (g h : Geom) (t : Rat) : affineClose g h t = true ↔ AffineWithin g h (some t) := by
  unfold affineClose AffineWithin
  simp only [Bool.and_eq_true, closeV_iff, forall_ax]
  tauto

theorem affineIdentical_iff (g h : Geom) : affineIdentical g h = true ↔ AffineWithin g h none := by
  unfold affineIdentical AffineWithin
  simp only [Bool.and_eq_true, decide_eq_true_eq, forall_ax]
  tauto

theorem geometryEqual_true_iff (g h : Geom) (tol : Option Rat) :
    geometryEqual g h tol = .ok true ↔
      ((∀ a, g.shape a = h.shape a) ∧ g.cs = h.cs ∧ NoForConflict g h ∧ AffineWithin g h tol) := by
  unfold geometryEqual geomEqualDecision NoForConflict
  rw [forall_ax]
  rcases hg : g.frameOfRef with _ | u <;> rcases hh : h.frameOfRef with _ | v <;> rcases tol with _ | t <;>
    simp only [← affineClose_iff, ← affineIdentical_iff] <;>
    by_cases h0 : g.shape 0 = h.shape 0 <;> by_cases h1 : g.shape 1 = h.shape 1 <;>
    by_cases h2 : g.shape 2 = h.shape 2 <;> by_cases hc : g.cs = h.cs <;>
    simp [h0, h1, h2, hc] <;> (try split_ifs) <;> simp_all

theorem geometryEqual_total (g h : Geom) (tol : Option Rat) : ∃ b, geometryEqual g h tol = .ok b := by
  unfold geometryEqual geomEqualDecision
  rcases g.frameOfRef with _ | u <;> rcases h.frameOfRef with _ | v <;> rcases tol with _ | t <;>
    simp only [] <;> split <;> (try split) <;> (try split) <;> (try split) <;> simp_all

/-! ## affine maps: product and inverse (the transformer) -/

theorem Aff.comp_apply (A B : Aff) (v : V3) : (A.comp B).apply v = A.apply (B.apply v) := by
  rcases A with ⟨⟨a0, a1, a2⟩, ⟨b0, b1, b2⟩, ⟨c0, c1, c2⟩, ⟨t0, t1, t2⟩⟩
  rcases B with ⟨⟨d0, d1, d2⟩, ⟨e0, e1, e2⟩, ⟨f0, f1, f2⟩, ⟨s0, s1, s2⟩⟩
  rcases v with ⟨x, y, z⟩
  apply V3.ext' <;> simp only [Aff.comp, Aff.apply, Aff.lin, V3.add, V3.smul] <;> ring

theorem Aff.inv_ok_det {A B : Aff} (h : A.inv = .ok B) : A.det ≠ 0 := by
  intro hd
  unfold Aff.inv at h
  simp [hd] at h

theorem Aff.inv_eq {A B : Aff} (h : A.inv = .ok B) :
    A.det ≠ 0 ∧ B = { c0 := ⟨(V3.smul (1 / A.det) (V3.cross A.c1 A.c2)).x, (V3.smul (1 / A.det) (V3.cross A.c2 A.c0)).x,
                             (V3.smul (1 / A.det) (V3.cross A.c0 A.c1)).x⟩,
                      c1 := ⟨(V3.smul (1 / A.det) (V3.cross A.c1 A.c2)).y, (V3.smul (1 / A.det) (V3.cross A.c2 A.c0)).y,
                             (V3.smul (1 / A.det) (V3.cross A.c0 A.c1)).y⟩,
                      c2 := ⟨(V3.smul (1 / A.det) (V3.cross A.c1 A.c2)).z, (V3.smul (1 / A.det) (V3.cross A.c2 A.c0)).z,
                             (V3.smul (1 / A.det) (V3.cross A.c0 A.c1)).z⟩,
                      t := V3.neg (Aff.lin
                        { c0 := ⟨(V3.smul (1 / A.det) (V3.cross A.c1 A.c2)).x, (V3.smul (1 / A.det) (V3.cross A.c2 A.c0)).x,
                                 (V3.smul (1 / A.det) (V3.cross A.c0 A.c1)).x⟩,
                          c1 := ⟨(V3.smul (1 / A.det) (V3.cross A.c1 A.c2)).y, (V3.smul (1 / A.det) (V3.cross A.c2 A.c0)).y,
                                 (V3.smul (1 / A.det) (V3.cross A.c0 A.c1)).y⟩,
                          c2 := ⟨(V3.smul (1 / A.det) (V3.cross A.c1 A.c2)).z, (V3.smul (1 / A.det) (V3.cross A.c2 A.c0)).z,
                                 (V3.smul (1 / A.det) (V3.cross A.c0 A.c1)).z⟩,
                          t := ⟨0, 0, 0⟩ } A.t) } := by
  have hd := Aff.inv_ok_det h
  refine ⟨hd, ?_⟩
  unfold Aff.inv at h
  simp only [hd, if_false] at h
  injection h with h
  exact h.symm

theorem Aff.inv_left {A B : Aff} (h : A.inv = .ok B) (v : V3) : B.apply (A.apply v) = v := by
  obtain ⟨hd, rfl⟩ := Aff.inv_eq h
  generalize hD : A.det = D at hd ⊢
  rcases A with ⟨⟨a0, a1, a2⟩, ⟨b0, b1, b2⟩, ⟨c0, c1, c2⟩, ⟨t0, t1, t2⟩⟩
  rcases v with ⟨x, y, z⟩
  simp only [Aff.det, V3.dot, V3.cross] at hD
  apply V3.ext' <;> simp only [Aff.apply, Aff.lin, V3.add, V3.smul, V3.neg, V3.cross] <;>
    field_simp <;> rw [← hD] <;> ring

theorem Aff.inv_right {A B : Aff} (h : A.inv = .ok B) (v : V3) : A.apply (B.apply v) = v := by
  obtain ⟨hd, rfl⟩ := Aff.inv_eq h
  generalize hD : A.det = D at hd ⊢
  rcases A with ⟨⟨a0, a1, a2⟩, ⟨b0, b1, b2⟩, ⟨c0, c1, c2⟩, ⟨t0, t1, t2⟩⟩
  rcases v with ⟨x, y, z⟩
  simp only [Aff.det, V3.dot, V3.cross] at hD
  apply V3.ext' <;> simp only [Aff.apply, Aff.lin, V3.add, V3.smul, V3.neg, V3.cross] <;>
    field_simp <;> rw [← hD] <;> ring

/-! ## bounds checks -/

theorem minL_lt_iff (xs : List Rat) (m c : Rat) : minL xs m < c ↔ (m < c ∨ ∃ x ∈ xs, x < c) := by
  induction xs generalizing m with
  | nil => simp [minL]
  | cons x xs ih =>
    simp only [minL, ih, List.mem_cons, exists_eq_or_imp]
    by_cases hx : x < m <;> simp only [hx, if_true, if_false] <;> constructor
    · rintro (h | h)
      · exact Or.inr (Or.inl h)
      · exact Or.inr (Or.inr h)
    · rintro (h | h | h)
      · exact Or.inl (lt_trans hx h)
      · exact Or.inl h
      · exact Or.inr h
    · rintro (h | h)
      · exact Or.inl h
      · exact Or.inr (Or.inr h)
    · rintro (h | h | h)
      · exact Or.inl h
      · exact Or.inl (lt_of_le_of_lt (not_lt.mp hx) h)
      · exact Or.inr h

theorem lt_maxL_iff (xs : List Rat) (m c : Rat) : c < maxL xs m ↔ (c < m ∨ ∃ x ∈ xs, c < x) := by
  induction xs generalizing m with
  | nil => simp [maxL]
  | cons x xs ih =>
    simp only [maxL, ih, List.mem_cons, exists_eq_or_imp]
    by_cases hx : m < x <;> simp only [hx, if_true, if_false] <;> constructor
    · rintro (h | h)
      · exact Or.inr (Or.inl h)
      · exact Or.inr (Or.inr h)
    · rintro (h | h | h)
      · exact Or.inl (lt_trans h hx)
      · exact Or.inl h
      · exact Or.inr h
    · rintro (h | h)
      · exact Or.inl h
      · exact Or.inr (Or.inr h)
    · rintro (h | h | h)
      · exact Or.inl h
      · exact Or.inl (lt_of_lt_of_le h (not_lt.mp hx))
      · exact Or.inr h

/-- coordinate `x` lies outside the extent `[-1/2, n - 1/2]` of an axis with `n` voxels -/
def OutsideAxis (n : Int) (x : Rat) : Prop := x < -(1 / 2) ∨ (n : Rat) - 1 / 2 < x

/-- the point (in continuous index coordinates) lies outside the volume -/
def Outside (shape : Ax → Int) (p : V3) : Prop :=
  OutsideAxis (shape 0) p.x ∨ OutsideAxis (shape 1) p.y ∨ OutsideAxis (shape 2) p.z

theorem v2vBoundsAxis_eq (n : Int) (mn mx : Rat) :
    v2vBoundsAxis n mn mx = .ok (decide (mn < -(1 / 2) ∨ (n : Rat) - 1 / 2 < mx)) := by
  unfold v2vBoundsAxis
  grind

theorem refBoundsAxis_eq (n : Int) (mn mx : Rat) :
    refBoundsAxis n mn mx = .ok (decide (mn < -(1 / 2) ∨ (n : Rat) - 1 / 2 < mx)) := by
  unfold refBoundsAxis
  grind

theorem axis_fail_iff (n : Int) (f : V3 → Rat) (p : V3) (ps : List V3) :
    (minL (ps.map f) (f p) < -(1 / 2) ∨ (n : Rat) - 1 / 2 < maxL (ps.map f) (f p)) ↔
      ∃ q ∈ p :: ps, OutsideAxis n (f q) := by
  rw [minL_lt_iff, lt_maxL_iff]
  simp only [List.mem_map, exists_exists_and_eq_and, List.mem_cons, exists_eq_or_imp, OutsideAxis]
  constructor
  · rintro ((h | ⟨q, hq, h⟩) | (h | ⟨q, hq, h⟩))
    · exact Or.inl (Or.inl h)
    · exact Or.inr ⟨q, hq, Or.inl h⟩
    · exact Or.inl (Or.inr h)
    · exact Or.inr ⟨q, hq, Or.inr h⟩
  · rintro ((h | h) | ⟨q, hq, (h | h)⟩)
    · exact Or.inl (Or.inl h)
    · exact Or.inr (Or.inl h)
    · exact Or.inl (Or.inr ⟨q, hq, h⟩)
    · exact Or.inr (Or.inr ⟨q, hq, h⟩)

/-- the fold over the three axes, for an axis test that is the comparison with `[-1/2, n-1/2]` -/
theorem boundsFail_spec (axisTest : Int → Rat → Rat → Except ErrKind Bool)
    (hT : ∀ n mn mx, axisTest n mn mx = .ok (decide (mn < -(1 / 2) ∨ (n : Rat) - 1 / 2 < mx)))
    (shape : Ax → Int) (pts : List V3) :
    ∃ b, boundsFail axisTest shape pts = .ok b ∧ (b = true ↔ ∃ p ∈ pts, Outside shape p) := by
  cases pts with
  | nil => exact ⟨false, rfl, by simp⟩
  | cons p ps =>
    have e0 := axis_fail_iff (shape 0) (·.x) p ps
    have e1 := axis_fail_iff (shape 1) (·.y) p ps
    have e2 := axis_fail_iff (shape 2) (·.z) p ps
    simp only [boundsFail, hT, bind, Except.bind, pure, Except.pure]
    by_cases h0 : (minL (ps.map (·.x)) p.x < -(1 / 2) ∨ (shape 0 : Rat) - 1 / 2 < maxL (ps.map (·.x)) p.x)
    · refine ⟨true, by rw [decide_eq_true h0]; rfl, ?_⟩
      obtain ⟨q, hq, ho⟩ := e0.mp h0
      simp only [true_iff]
      exact ⟨q, hq, Or.inl ho⟩
    · by_cases h1 : (minL (ps.map (·.y)) p.y < -(1 / 2) ∨ (shape 1 : Rat) - 1 / 2 < maxL (ps.map (·.y)) p.y)
      · refine ⟨true, by rw [decide_eq_false h0, decide_eq_true h1]; rfl, ?_⟩
        obtain ⟨q, hq, ho⟩ := e1.mp h1
        simp only [true_iff]
        exact ⟨q, hq, Or.inr (Or.inl ho)⟩
      · refine ⟨decide (minL (ps.map (·.z)) p.z < -(1 / 2) ∨ (shape 2 : Rat) - 1 / 2 < maxL (ps.map (·.z)) p.z),
          by rw [decide_eq_false h0, decide_eq_false h1]; rfl, ?_⟩
        simp only [decide_eq_true_eq]
        constructor
        · intro h2
          obtain ⟨q, hq, ho⟩ := e2.mp h2
          exact ⟨q, hq, Or.inr (Or.inr ho)⟩
        · rintro ⟨q, hq, (ho | ho | ho)⟩
          · exact absurd (e0.mpr ⟨q, hq, ho⟩) h0
          · exact absurd (e1.mpr ⟨q, hq, ho⟩) h1
          · exact e2.mpr ⟨q, hq, ho⟩

/-! ## rounding -/

theorem roundHalfEven_bounds (x : Rat) :
    ((roundHalfEven x : Int) : Rat) - 1 / 2 ≤ x ∧ x ≤ ((roundHalfEven x : Int) : Rat) + 1 / 2 := by
  have h1 : ((Rat.floor x : Int) : Rat) ≤ x := Rat.le_floor_iff.mp (le_refl _)
  have h2 : x < ((Rat.floor x : Int) : Rat) + 1 := by
    have : Rat.floor x < Rat.floor x + 1 := by omega
    have := Rat.floor_lt_iff.mp this
    push_cast at this
    exact this
  unfold roundHalfEven
  simp only []
  split
  · constructor <;> linarith
  · split
    · push_cast; constructor <;> linarith
    · split
      · constructor <;> linarith
      · push_cast; constructor <;> linarith

theorem roundHalfEven_intCast (k : Int) : roundHalfEven (k : Rat) = k := by
  unfold roundHalfEven
  simp [Rat.floor_intCast]

/-- for an integral coordinate "outside the extent" means "not an index of the axis" -/
theorem outsideAxis_int (n k : Int) : OutsideAxis n (k : Rat) ↔ (k < 0 ∨ n ≤ k) := by
  unfold OutsideAxis
  constructor
  · rintro (h | h)
    · left
      by_contra hk
      have : (0 : Rat) ≤ (k : Rat) := by exact_mod_cast (not_lt.mp hk)
      linarith
    · right
      by_contra hk
      have : (k : Rat) ≤ (n : Rat) - 1 := by
        have : k ≤ n - 1 := by omega
        exact_mod_cast this
      linarith
  · rintro (h | h)
    · left
      have : (k : Rat) ≤ -1 := by
        have : k ≤ -1 := by omega
        exact_mod_cast this
      linarith
    · right
      have : (n : Rat) ≤ (k : Rat) := by exact_mod_cast h
      linarith

/-- a rounded coordinate is not an index only if the coordinate itself is not strictly inside the extent -/
theorem rounded_outside_imp (n : Int) (x : Rat) (h : OutsideAxis n ((roundHalfEven x : Int) : Rat)) :
    x < -(1 / 2) ∨ (n : Rat) - 1 / 2 ≤ x := by
  obtain ⟨b1, b2⟩ := roundHalfEven_bounds x
  rcases (outsideAxis_int n _).mp h with h | h
  · left
    have hk : ((roundHalfEven x : Int) : Rat) ≤ -1 := by
      have : roundHalfEven x ≤ -1 := by omega
      exact_mod_cast this
    by_contra hx
    have hx' : -(1 / 2) ≤ x := not_lt.mp hx
    -- then x = -1/2 exactly and the rounding went to -1: impossible, ties go to the even neighbour 0
    have hxe : x = -(1 / 2) := by linarith
    have hr : roundHalfEven x = -1 := by
      have : ((roundHalfEven x : Int) : Rat) = -1 := by linarith
      exact_mod_cast this
    rw [hxe] at hr
    revert hr
    decide +kernel
  · right
    have hk : (n : Rat) ≤ ((roundHalfEven x : Int) : Rat) := by exact_mod_cast h
    linarith

end HdVerif.Match
