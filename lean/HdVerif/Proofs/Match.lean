import HdVerif.Model.Match
import HdVerif.Proofs.RatFloor
import Mathlib.Tactic.Linarith
import Mathlib.Tactic.FieldSimp
import Mathlib.Tactic.Ring
import Mathlib.Tactic.Push
import Mathlib.Tactic.LinearCombination
/-! Specification predicates and helper lemmas for C09 (`Model/Match.lean`). -/
namespace HdVerif.Match
open HdVerif HdVerif.Gen

/-! ## small algebra -/

theorem V3.ext' {a b : V3} (hx : a.x = b.x) (hy : a.y = b.y) (hz : a.z = b.z) : a = b := by
  cases a; cases b; simp_all

theorem rabs_nonneg (x : Rat) : 0 ≤ rabs x := by
  by_cases hx : x < 0 <;> simp only [rabs, hx, if_true, if_false] <;> linarith

theorem rabs_le_iff (x c : Rat) : rabs x ≤ c ↔ -c ≤ x ∧ x ≤ c := by
  by_cases hx : x < 0 <;> simp only [rabs, hx, if_true, if_false] <;> constructor
  · intro h; constructor <;> linarith
  · rintro ⟨h1, h2⟩; linarith
  · intro h; constructor <;> linarith
  · rintro ⟨h1, h2⟩; linarith

theorem rabs_lt_iff (x c : Rat) : rabs x < c ↔ -c < x ∧ x < c := by
  by_cases hx : x < 0 <;> simp only [rabs, hx, if_true, if_false] <;> constructor
  · intro h; constructor <;> linarith
  · rintro ⟨h1, h2⟩; linarith
  · intro h; constructor <;> linarith
  · rintro ⟨h1, h2⟩; linarith

theorem rabs_zero : rabs 0 = 0 := by unfold rabs; simp

theorem ax_cases (a : Ax) : a = 0 ∨ a = 1 ∨ a = 2 := by
  rcases a with ⟨v, hv⟩
  have : v = 0 ∨ v = 1 ∨ v = 2 := by omega
  rcases this with rfl | rfl | rfl
  · left; rfl
  · right; left; rfl
  · right; right; rfl

theorem forall_ax {P : Ax → Prop} : (∀ a, P a) ↔ P 0 ∧ P 1 ∧ P 2 := by
  constructor
  · intro h; exact ⟨h 0, h 1, h 2⟩
  · rintro ⟨h0, h1, h2⟩ a
    rcases ax_cases a with rfl | rfl | rfl <;> assumption

@[simp] theorem mk3_0 {α : Type} (a b c : α) : mk3 a b c 0 = a := rfl
@[simp] theorem mk3_1 {α : Type} (a b c : α) : mk3 a b c 1 = b := rfl
@[simp] theorem mk3_2 {α : Type} (a b c : α) : mk3 a b c 2 = c := rfl

theorem mk3_eta {α : Type} (f : Ax → α) : mk3 (f 0) (f 1) (f 2) = f := by
  funext a; rcases ax_cases a with rfl | rfl | rfl <;> rfl

/-! ## geometry_equal -/

/-- one affine entry within tolerance, `np.allclose` / `np.isclose` style: `|a - b| ≤ atol + rtol |b|`, or identical
(the second disjunct follows from the first whenever `atol ≥ 0`) -/
def EntryWithin (atol a b : Rat) : Prop := rabs (a - b) ≤ atol + rtolDefault * rabs b ∨ a = b

def VecWithin (atol : Rat) (a b : V3) : Prop :=
  EntryWithin atol a.x b.x ∧ EntryWithin atol a.y b.y ∧ EntryWithin atol a.z b.z

/-- "affine within tolerance": every entry of the affine matrix of `g` is within tolerance of the
entry of `h` (`tol = none`: identical) -/
def AffineWithin (g h : Geom) : Option Rat → Prop
  | some t => (∀ a, VecWithin t (g.col a) (h.col a)) ∧ VecWithin t g.pos h.pos
  | none => (∀ a, g.col a = h.col a) ∧ g.pos = h.pos

/-- "no conflicting frame of reference": if both are known they are the same -/
def NoForConflict (g h : Geom) : Prop := ∀ u v, g.frameOfRef = some u → h.frameOfRef = some v → u = v

theorem closeEntry_iff (t a b : Rat) : closeEntry t a b = true ↔ EntryWithin t a b := by
  unfold closeEntry EntryWithin; simp

theorem closeV_iff (t : Rat) (a b : V3) : closeV t a b = true ↔ VecWithin t a b := by
  unfold closeV VecWithin; simp [closeEntry_iff, and_assoc]

theorem affineClose_iff (g h : Geom) (t : Rat) : affineClose g h t = true ↔ AffineWithin g h (some t) := by
  unfold affineClose AffineWithin
  simp only [Bool.and_eq_true, closeV_iff, forall_ax]
  tauto

theorem affineIdentical_iff (g h : Geom) : affineIdentical g h = true ↔ AffineWithin g h none := by
  unfold affineIdentical AffineWithin
  simp only [Bool.and_eq_true, decide_eq_true_eq, forall_ax]
  tauto

theorem geometryEqual_true_iff (g h : Geom) (tol : Option Rat) :
    geometryEqual g h tol = .ok true ↔
      ((∀ a, g.shape a = h.shape a) ∧ g.cs = h.cs ∧ NoForConflict g h ∧ AffineWithin g h tol) := by
  unfold geometryEqual geometryEqualC geomEqualDecision NoForConflict
  rw [forall_ax]
  rcases hg : g.frameOfRef with _ | u <;> rcases hh : h.frameOfRef with _ | v <;> rcases tol with _ | t <;>
    simp only [← affineClose_iff, ← affineIdentical_iff] <;>
    by_cases h0 : g.shape 0 = h.shape 0 <;> by_cases h1 : g.shape 1 = h.shape 1 <;>
    by_cases h2 : g.shape 2 = h.shape 2 <;> by_cases hc : g.cs = h.cs <;>
    simp [h0, h1, h2, hc] <;> (try split_ifs) <;> simp_all

/-- the translated decision of `geometry_equal` does not look at channel extents -/
theorem geometryEqualC_eq (g h : Geom) (cg ch : Int) (tol : Option Rat) :
    geometryEqualC g h cg ch tol = geometryEqual g h tol := by
  unfold geometryEqual geometryEqualC geomEqualDecision
  rfl

theorem geometryEqual_total (g h : Geom) (tol : Option Rat) : ∃ b, geometryEqual g h tol = .ok b := by
  unfold geometryEqual geometryEqualC geomEqualDecision
  rcases g.frameOfRef with _ | u <;> rcases h.frameOfRef with _ | v <;> rcases tol with _ | t <;>
    simp only [] <;> split <;> (try split) <;> (try split) <;> (try split) <;> simp_all

/-! ## affine maps: product and inverse (the transformer) -/

theorem Aff.comp_apply (A B : Aff) (v : V3) : (A.comp B).apply v = A.apply (B.apply v) := by
  rcases A with ⟨⟨a0, a1, a2⟩, ⟨b0, b1, b2⟩, ⟨c0, c1, c2⟩, ⟨t0, t1, t2⟩⟩
  rcases B with ⟨⟨d0, d1, d2⟩, ⟨e0, e1, e2⟩, ⟨f0, f1, f2⟩, ⟨s0, s1, s2⟩⟩
  rcases v with ⟨x, y, z⟩
  apply V3.ext' <;> simp only [Aff.comp, Aff.apply, Aff.lin, V3.add, V3.smul] <;> ring

theorem Aff.inv_ok_det {A B : Aff} (h : A.inv = .ok B) : A.det ≠ 0 := by
  intro hd
  unfold Aff.inv at h
  simp [hd] at h

theorem Aff.inv_eq {A B : Aff} (h : A.inv = .ok B) :
    A.det ≠ 0 ∧ B = { c0 := ⟨(V3.smul (1 / A.det) (V3.cross A.c1 A.c2)).x, (V3.smul (1 / A.det) (V3.cross A.c2 A.c0)).x,
                             (V3.smul (1 / A.det) (V3.cross A.c0 A.c1)).x⟩,
                      c1 := ⟨(V3.smul (1 / A.det) (V3.cross A.c1 A.c2)).y, (V3.smul (1 / A.det) (V3.cross A.c2 A.c0)).y,
                             (V3.smul (1 / A.det) (V3.cross A.c0 A.c1)).y⟩,
                      c2 := ⟨(V3.smul (1 / A.det) (V3.cross A.c1 A.c2)).z, (V3.smul (1 / A.det) (V3.cross A.c2 A.c0)).z,
                             (V3.smul (1 / A.det) (V3.cross A.c0 A.c1)).z⟩,
                      t := V3.neg (Aff.lin
                        { c0 := ⟨(V3.smul (1 / A.det) (V3.cross A.c1 A.c2)).x, (V3.smul (1 / A.det) (V3.cross A.c2 A.c0)).x,
                                 (V3.smul (1 / A.det) (V3.cross A.c0 A.c1)).x⟩,
                          c1 := ⟨(V3.smul (1 / A.det) (V3.cross A.c1 A.c2)).y, (V3.smul (1 / A.det) (V3.cross A.c2 A.c0)).y,
                                 (V3.smul (1 / A.det) (V3.cross A.c0 A.c1)).y⟩,
                          c2 := ⟨(V3.smul (1 / A.det) (V3.cross A.c1 A.c2)).z, (V3.smul (1 / A.det) (V3.cross A.c2 A.c0)).z,
                                 (V3.smul (1 / A.det) (V3.cross A.c0 A.c1)).z⟩,
                          t := ⟨0, 0, 0⟩ } A.t) } := by
  have hd := Aff.inv_ok_det h
  refine ⟨hd, ?_⟩
  unfold Aff.inv at h
  simp only [hd, if_false] at h
  injection h with h
  exact h.symm

theorem Aff.inv_left {A B : Aff} (h : A.inv = .ok B) (v : V3) : B.apply (A.apply v) = v := by
  obtain ⟨hd, rfl⟩ := Aff.inv_eq h
  generalize hD : A.det = D at hd ⊢
  rcases A with ⟨⟨a0, a1, a2⟩, ⟨b0, b1, b2⟩, ⟨c0, c1, c2⟩, ⟨t0, t1, t2⟩⟩
  rcases v with ⟨x, y, z⟩
  simp only [Aff.det, V3.dot, V3.cross] at hD
  apply V3.ext' <;> simp only [Aff.apply, Aff.lin, V3.add, V3.smul, V3.neg, V3.cross] <;>
    field_simp <;> rw [← hD] <;> ring

theorem Aff.inv_right {A B : Aff} (h : A.inv = .ok B) (v : V3) : A.apply (B.apply v) = v := by
  obtain ⟨hd, rfl⟩ := Aff.inv_eq h
  generalize hD : A.det = D at hd ⊢
  rcases A with ⟨⟨a0, a1, a2⟩, ⟨b0, b1, b2⟩, ⟨c0, c1, c2⟩, ⟨t0, t1, t2⟩⟩
  rcases v with ⟨x, y, z⟩
  simp only [Aff.det, V3.dot, V3.cross] at hD
  apply V3.ext' <;> simp only [Aff.apply, Aff.lin, V3.add, V3.smul, V3.neg, V3.cross] <;>
    field_simp <;> rw [← hD] <;> ring

/-! ## bounds checks -/

theorem minL_lt_iff (xs : List Rat) (m c : Rat) : minL xs m < c ↔ (m < c ∨ ∃ x ∈ xs, x < c) := by
  induction xs generalizing m with
  | nil => simp [minL]
  | cons x xs ih =>
    simp only [minL, ih, List.mem_cons, exists_eq_or_imp]
    by_cases hx : x < m <;> simp only [hx, if_true, if_false] <;> constructor
    · rintro (h | h)
      · exact Or.inr (Or.inl h)
      · exact Or.inr (Or.inr h)
    · rintro (h | h | h)
      · exact Or.inl (lt_trans hx h)
      · exact Or.inl h
      · exact Or.inr h
    · rintro (h | h)
      · exact Or.inl h
      · exact Or.inr (Or.inr h)
    · rintro (h | h | h)
      · exact Or.inl h
      · exact Or.inl (lt_of_le_of_lt (not_lt.mp hx) h)
      · exact Or.inr h

theorem lt_maxL_iff (xs : List Rat) (m c : Rat) : c < maxL xs m ↔ (c < m ∨ ∃ x ∈ xs, c < x) := by
  induction xs generalizing m with
  | nil => simp [maxL]
  | cons x xs ih =>
    simp only [maxL, ih, List.mem_cons, exists_eq_or_imp]
    by_cases hx : m < x <;> simp only [hx, if_true, if_false] <;> constructor
    · rintro (h | h)
      · exact Or.inr (Or.inl h)
      · exact Or.inr (Or.inr h)
    · rintro (h | h | h)
      · exact Or.inl (lt_trans h hx)
      · exact Or.inl h
      · exact Or.inr h
    · rintro (h | h)
      · exact Or.inl h
      · exact Or.inr (Or.inr h)
    · rintro (h | h | h)
      · exact Or.inl h
      · exact Or.inl (lt_of_lt_of_le h (not_lt.mp hx))
      · exact Or.inr h

/-- coordinate `x` lies outside the extent `[-1/2, n - 1/2]` of an axis with `n` voxels -/
def OutsideAxis (n : Int) (x : Rat) : Prop := x < -(1 / 2) ∨ (n : Rat) - 1 / 2 < x

/-- the point (in continuous index coordinates) lies outside the volume -/
def Outside (shape : Ax → Int) (p : V3) : Prop :=
  OutsideAxis (shape 0) p.x ∨ OutsideAxis (shape 1) p.y ∨ OutsideAxis (shape 2) p.z

theorem v2vBoundsAxis_eq (n : Int) (mn mx : Rat) :
    v2vBoundsAxis n mn mx = .ok (decide (mn < -(1 / 2) ∨ (n : Rat) - 1 / 2 < mx)) := by
  unfold v2vBoundsAxis
  grind

theorem refBoundsAxis_eq (n : Int) (mn mx : Rat) :
    refBoundsAxis n mn mx = .ok (decide (mn < -(1 / 2) ∨ (n : Rat) - 1 / 2 < mx)) := by
  unfold refBoundsAxis
  grind

theorem axis_fail_iff (n : Int) (f : V3 → Rat) (p : V3) (ps : List V3) :
    (minL (ps.map f) (f p) < -(1 / 2) ∨ (n : Rat) - 1 / 2 < maxL (ps.map f) (f p)) ↔
      ∃ q ∈ p :: ps, OutsideAxis n (f q) := by
  rw [minL_lt_iff, lt_maxL_iff]
  simp only [List.mem_map, exists_exists_and_eq_and, List.mem_cons, exists_eq_or_imp, OutsideAxis]
  constructor
  · rintro ((h | ⟨q, hq, h⟩) | (h | ⟨q, hq, h⟩))
    · exact Or.inl (Or.inl h)
    · exact Or.inr ⟨q, hq, Or.inl h⟩
    · exact Or.inl (Or.inr h)
    · exact Or.inr ⟨q, hq, Or.inr h⟩
  · rintro ((h | h) | ⟨q, hq, (h | h)⟩)
    · exact Or.inl (Or.inl h)
    · exact Or.inr (Or.inl h)
    · exact Or.inl (Or.inr ⟨q, hq, h⟩)
    · exact Or.inr (Or.inr ⟨q, hq, h⟩)

/-- the fold over the three axes, for an axis test that is the comparison with `[-1/2, n-1/2]` -/
theorem boundsFail_spec (axisTest : Int → Rat → Rat → Except ErrKind Bool)
    (hT : ∀ n mn mx, axisTest n mn mx = .ok (decide (mn < -(1 / 2) ∨ (n : Rat) - 1 / 2 < mx)))
    (shape : Ax → Int) (pts : List V3) :
    ∃ b, boundsFail axisTest shape pts = .ok b ∧ (b = true ↔ ∃ p ∈ pts, Outside shape p) := by
  cases pts with
  | nil => exact ⟨false, rfl, by simp⟩
  | cons p ps =>
    have e0 := axis_fail_iff (shape 0) (·.x) p ps
    have e1 := axis_fail_iff (shape 1) (·.y) p ps
    have e2 := axis_fail_iff (shape 2) (·.z) p ps
    simp only [boundsFail, hT, bind, Except.bind, pure, Except.pure]
    by_cases h0 : (minL (ps.map (·.x)) p.x < -(1 / 2) ∨ (shape 0 : Rat) - 1 / 2 < maxL (ps.map (·.x)) p.x)
    · refine ⟨true, by rw [decide_eq_true h0]; rfl, ?_⟩
      obtain ⟨q, hq, ho⟩ := e0.mp h0
      simp only [true_iff]
      exact ⟨q, hq, Or.inl ho⟩
    · by_cases h1 : (minL (ps.map (·.y)) p.y < -(1 / 2) ∨ (shape 1 : Rat) - 1 / 2 < maxL (ps.map (·.y)) p.y)
      · refine ⟨true, by rw [decide_eq_false h0, decide_eq_true h1]; rfl, ?_⟩
        obtain ⟨q, hq, ho⟩ := e1.mp h1
        simp only [true_iff]
        exact ⟨q, hq, Or.inr (Or.inl ho)⟩
      · refine ⟨decide (minL (ps.map (·.z)) p.z < -(1 / 2) ∨ (shape 2 : Rat) - 1 / 2 < maxL (ps.map (·.z)) p.z),
          by rw [decide_eq_false h0, decide_eq_false h1]; rfl, ?_⟩
        simp only [decide_eq_true_eq]
        constructor
        · intro h2
          obtain ⟨q, hq, ho⟩ := e2.mp h2
          exact ⟨q, hq, Or.inr (Or.inr ho)⟩
        · rintro ⟨q, hq, (ho | ho | ho)⟩
          · exact absurd (e0.mpr ⟨q, hq, ho⟩) h0
          · exact absurd (e1.mpr ⟨q, hq, ho⟩) h1
          · exact e2.mpr ⟨q, hq, ho⟩

/-! ## rounding -/

theorem roundHalfEven_bounds (x : Rat) :
    ((roundHalfEven x : Int) : Rat) - 1 / 2 ≤ x ∧ x ≤ ((roundHalfEven x : Int) : Rat) + 1 / 2 := by
  have h1 : ((Rat.floor x : Int) : Rat) ≤ x := Rat.le_floor_iff.mp (le_refl _)
  have h2 : x < ((Rat.floor x : Int) : Rat) + 1 := by
    have : Rat.floor x < Rat.floor x + 1 := by omega
    have := Rat.floor_lt_iff.mp this
    push_cast at this
    exact this
  unfold roundHalfEven
  simp only []
  split
  · constructor <;> linarith
  · split
    · push_cast; constructor <;> linarith
    · split
      · constructor <;> linarith
      · push_cast; constructor <;> linarith

theorem roundHalfEven_intCast (k : Int) : roundHalfEven (k : Rat) = k := by
  unfold roundHalfEven
  simp [Rat.floor_intCast]

/-- for an integral coordinate "outside the extent" means "not an index of the axis" -/
theorem outsideAxis_int (n k : Int) : OutsideAxis n (k : Rat) ↔ (k < 0 ∨ n ≤ k) := by
  unfold OutsideAxis
  constructor
  · rintro (h | h)
    · left
      by_contra hk
      have : (0 : Rat) ≤ (k : Rat) := by exact_mod_cast (not_lt.mp hk)
      linarith
    · right
      by_contra hk
      have : (k : Rat) ≤ (n : Rat) - 1 := by
        have : k ≤ n - 1 := by omega
        exact_mod_cast this
      linarith
  · rintro (h | h)
    · left
      have : (k : Rat) ≤ -1 := by
        have : k ≤ -1 := by omega
        exact_mod_cast this
      linarith
    · right
      have : (n : Rat) ≤ (k : Rat) := by exact_mod_cast h
      linarith

/-- a rounded coordinate is not an index only if the coordinate itself is not strictly inside the extent -/
theorem rounded_outside_imp (n : Int) (x : Rat) (h : OutsideAxis n ((roundHalfEven x : Int) : Rat)) :
    x < -(1 / 2) ∨ (n : Rat) - 1 / 2 ≤ x := by
  obtain ⟨b1, b2⟩ := roundHalfEven_bounds x
  rcases (outsideAxis_int n _).mp h with h | h
  · left
    have hk : ((roundHalfEven x : Int) : Rat) ≤ -1 := by
      have : roundHalfEven x ≤ -1 := by omega
      exact_mod_cast this
    by_contra hx
    have hx' : -(1 / 2) ≤ x := not_lt.mp hx
    -- then x = -1/2 exactly and the rounding went to -1: impossible, ties go to the even neighbour 0
    have hxe : x = -(1 / 2) := by linarith
    have hr : roundHalfEven x = -1 := by
      have : ((roundHalfEven x : Int) : Rat) = -1 := by linarith
      exact_mod_cast this
    rw [hxe] at hr
    revert hr
    decide +kernel
  · right
    have hk : (n : Rat) ≤ ((roundHalfEven x : Int) : Rat) := by exact_mod_cast h
    linarith

/-! ## provenance of the three volume operations -/

/-- `k` is an index of an array of the given shape -/
def InShape (shape : Ax → Int) (k : Ax → Int) : Prop := ∀ a, 0 ≤ k a ∧ k a < shape a

theorem inShape_iff (shape k : Ax → Int) : inShape shape k = true ↔ InShape shape k := by
  unfold inShape inAx InShape
  rw [forall_ax]
  simp only [Bool.and_eq_true, decide_eq_true_eq]
  tauto

theorem inShape_false_iff (shape k : Ax → Int) : inShape shape k = false ↔ ¬ InShape shape k := by
  rw [← inShape_iff]; simp

/-- `w` is `v` seen through the index map `m`; where `m` leaves `v` the voxel is the padding value
`fill (m k)` (a function of the out-of-range index in the coordinates of `v`) -/
structure Prov {α : Type} (v w : Vol α) (fill : (Ax → Int) → α) (m : (Ax → Int) → (Ax → Int)) : Prop where
  ref : ∀ k, w.geom.toRef (toRat k) = v.geom.toRef (toRat (m k))
  val : ∀ k, InShape w.geom.shape k →
    (InShape v.geom.shape (m k) → w.vox k = v.vox (m k)) ∧ (¬ InShape v.geom.shape (m k) → w.vox k = fill (m k))

/-- a re-indexing that maps the index set of `w` onto that of `v` (permutation of axes, identity) -/
structure Iso {α : Type} (v w : Vol α) (m : (Ax → Int) → (Ax → Int)) : Prop where
  ref : ∀ k, w.geom.toRef (toRat k) = v.geom.toRef (toRat (m k))
  dom : ∀ k, InShape w.geom.shape k ↔ InShape v.geom.shape (m k)
  val : ∀ k, w.vox k = v.vox (m k)

/-- a sub-sampling: every index of `w` is an index of `v` (crop / stride / flip, identity) -/
structure Sub {α : Type} (v w : Vol α) (m : (Ax → Int) → (Ax → Int)) : Prop where
  ref : ∀ k, w.geom.toRef (toRat k) = v.geom.toRef (toRat (m k))
  dom : ∀ k, InShape w.geom.shape k → InShape v.geom.shape (m k)
  val : ∀ k, w.vox k = v.vox (m k)

theorem Iso.refl {α : Type} (v : Vol α) : Iso v v id := ⟨fun _ => rfl, fun _ => Iff.rfl, fun _ => rfl⟩
theorem Sub.refl {α : Type} (v : Vol α) : Sub v v id := ⟨fun _ => rfl, fun _ h => h, fun _ => rfl⟩
theorem Prov.refl {α : Type} (v : Vol α) (fill : (Ax → Int) → α) : Prov v v fill id :=
  ⟨fun _ => rfl, fun _ h => ⟨fun _ => rfl, fun hn => absurd h hn⟩⟩

theorem Iso.prov {α : Type} {v w w' : Vol α} {f1 f2 : (Ax → Int) → α} {m1 m2} (h1 : Iso v w m1) (h2 : Prov w w' f2 m2)
    (hf : ∀ j, f2 j = f1 (m1 j)) : Prov v w' f1 (m1 ∘ m2) := by
  refine ⟨fun k => by rw [h2.ref, h1.ref]; rfl, fun k hk => ?_⟩
  obtain ⟨hin, hout⟩ := h2.val k hk
  constructor
  · intro hv
    have hw : InShape w.geom.shape (m2 k) := (h1.dom _).mpr hv
    rw [hin hw, h1.val]; rfl
  · intro hv
    have hw : ¬ InShape w.geom.shape (m2 k) := fun hw => hv ((h1.dom _).mp hw)
    rw [hout hw, hf]; rfl

theorem Prov.sub {α : Type} {v w u : Vol α} {c : (Ax → Int) → α} {m1 m2} (h1 : Prov v w c m1) (h2 : Sub w u m2) :
    Prov v u c (m1 ∘ m2) := by
  refine ⟨fun k => by rw [h2.ref, h1.ref]; rfl, fun k hk => ?_⟩
  have hw := h2.dom k hk
  obtain ⟨hin, hout⟩ := h1.val (m2 k) hw
  constructor
  · intro hv; rw [h2.val, hin hv]; rfl
  · intro hv; rw [h2.val, hout hv]; rfl

/-! ### permutation -/

theorem isPerm_cases (p : Ax → Ax) (h : isPerm p = true) :
    (p 0 = 0 ∧ p 1 = 1 ∧ p 2 = 2) ∨ (p 0 = 0 ∧ p 1 = 2 ∧ p 2 = 1) ∨ (p 0 = 1 ∧ p 1 = 0 ∧ p 2 = 2) ∨
    (p 0 = 1 ∧ p 1 = 2 ∧ p 2 = 0) ∨ (p 0 = 2 ∧ p 1 = 0 ∧ p 2 = 1) ∨ (p 0 = 2 ∧ p 1 = 1 ∧ p 2 = 0) := by
  unfold isPerm at h
  rcases ax_cases (p 0) with h0 | h0 | h0 <;> rcases ax_cases (p 1) with h1 | h1 | h1 <;>
    rcases ax_cases (p 2) with h2 | h2 | h2 <;> simp [h0, h1, h2] at h ⊢

theorem permute_iso {α : Type} (v w : Vol α) (p : Ax → Ax) (h : permute v p = .ok w) :
    Iso v w (fun k a => k (invPerm p a)) ∧
      w.geom = { v.geom with dir := fun i => v.geom.dir (p i), spacing := fun i => v.geom.spacing (p i),
                             shape := fun i => v.geom.shape (p i) } ∧ isPerm p = true := by
  unfold permute permuteGeom at h
  by_cases hp : isPerm p = true
  · simp only [hp, if_true] at h
    injection h with h
    subst h
    refine ⟨⟨?_, ?_, fun _ => rfl⟩, rfl, hp⟩
    · intro k
      rcases isPerm_cases p hp with ⟨h0, h1, h2⟩ | ⟨h0, h1, h2⟩ | ⟨h0, h1, h2⟩ | ⟨h0, h1, h2⟩ | ⟨h0, h1, h2⟩ | ⟨h0, h1, h2⟩ <;>
        apply V3.ext' <;>
        simp [Geom.toRef, Geom.col, toRat, invPerm, h0, h1, h2, V3.add, V3.smul] <;> ring
    · intro k
      simp only [InShape]
      rw [forall_ax, forall_ax]
      rcases isPerm_cases p hp with ⟨h0, h1, h2⟩ | ⟨h0, h1, h2⟩ | ⟨h0, h1, h2⟩ | ⟨h0, h1, h2⟩ | ⟨h0, h1, h2⟩ | ⟨h0, h1, h2⟩ <;>
        simp [invPerm, h0, h1, h2] <;> tauto
  · simp [hp] at h

/-! ### padding -/

theorem pad_prov {α : Type} (v w : Vol α) (b a : Ax → Int) (mode : PadMode α) (h : pad v b a mode = .ok w) :
    Prov v w (mode.fill v) (fun k ax => k ax - b ax) ∧ padGeom v.geom b a = .ok w.geom := by
  unfold pad at h
  cases hg : padGeom v.geom b a with
  | error e => simp [hg] at h
  | ok g =>
    simp only [hg] at h
    injection h with h
    subst h
    refine ⟨⟨?_, ?_⟩, rfl⟩
    · intro k
      unfold padGeom at hg
      split at hg
      · cases hg
      · injection hg with hg
        subst hg
        apply V3.ext' <;> simp [Geom.toRef, Geom.col, toRat, V3.add, V3.smul] <;> ring
    · intro k _
      simp only []
      constructor
      · intro hv
        rw [if_pos ((inShape_iff _ _).mpr hv)]
      · intro hv
        rw [if_neg (by rw [inShape_iff]; exact hv)]

/-! ### indexing with slices -/

theorem adjustBound_pos_le (b n step : Int) (hn : 0 ≤ n) (hs : 0 < step) :
    0 ≤ adjustBound b n step ∧ adjustBound b n step ≤ n := by
  unfold adjustBound; split <;> (try split) <;> (try split) <;> omega

theorem adjustBound_neg_ge (b n step : Int) (hn : 0 ≤ n) (hs : step < 0) :
    -1 ≤ adjustBound b n step ∧ adjustBound b n step ≤ n - 1 := by
  unfold adjustBound; split <;> (try split) <;> omega

theorem adjustBound_start (b n step : Int) (h1 : ¬ b < -n) (h2 : ¬ b ≥ n) :
    0 ≤ adjustBound b n step ∧ adjustBound b n step < n ∧
      adjustBound b n step = (if b < 0 then b + n else b) := by
  unfold adjustBound; split <;> (try split) <;> (try split) <;> omega

/-- what one axis of `__getitem__` with a slice selects: positions `first + step * j`, `j < size`,
all inside the axis -/
theorem lastOf_neg (s : Sl) (n : Int) (hn : 0 ≤ n) (hs : s.step < 0) : -1 ≤ lastOf s n := by
  unfold lastOf; split
  · exact (adjustBound_neg_ge _ n s.step hn hs).1
  · simp [hs]

theorem lastOf_pos (s : Sl) (n : Int) (hn : 0 ≤ n) (hs : 0 < s.step) : lastOf s n ≤ n := by
  unfold lastOf; split
  · exact (adjustBound_pos_le _ n s.step hn hs).2
  · have : ¬ s.step < 0 := by omega
    simp [this]

/-- what one axis of `__getitem__` with a slice selects: positions `first + step * j`, `j < size`,
all inside the axis -/
theorem getitemAxis_range (s : Sl) (n first step size : Int) (h : getitemAxis s n = .ok (first, step, size)) :
    step = s.step ∧ step ≠ 0 ∧ 1 ≤ size ∧
      ∀ j, 0 ≤ j → j < size → 0 ≤ first + step * j ∧ first + step * j < n := by
  unfold getitemAxis at h
  by_cases hstart : (decide (s.start < -n) || decide (s.start ≥ n)) = true
  · rw [if_pos hstart] at h; cases h
  rw [if_neg hstart] at h
  by_cases hstop : stopOutOfRange s.stop n = true
  · rw [if_pos hstop] at h; cases h
  rw [if_neg hstop] at h
  by_cases hstep : s.step = 0
  · rw [if_pos hstep] at h; cases h
  rw [if_neg hstep] at h
  by_cases hrange : (decide (lastOf s n - adjustBound s.start n s.step = 0) ||
      (decide (lastOf s n - adjustBound s.start n s.step < 0) != decide (s.step < 0))) = true
  · rw [if_pos hrange] at h; cases h
  rw [if_neg hrange] at h
  injection h with h
  simp only [Prod.mk.injEq] at h
  obtain ⟨hf, hst, hsz⟩ := h
  simp only [Bool.or_eq_true, decide_eq_true_eq, not_or] at hstart
  obtain ⟨hs1, hs2⟩ := hstart
  obtain ⟨hf0, hfn, _⟩ := adjustBound_start s.start n s.step hs1 hs2
  have hn : 0 ≤ n := by omega
  subst hst
  refine ⟨rfl, hstep, ?_⟩
  generalize hfirst : adjustBound s.start n s.step = fst at *
  rcases lt_or_gt_of_ne hstep with hneg | hpos
  · -- negative step
    have hlast := lastOf_neg s n hn hneg
    generalize lastOf s n = last at hlast hsz hrange
    have hrneg' : last - fst < 0 := by
      by_contra hc
      apply hrange
      simp [hc, hneg]
    obtain ⟨t, ht⟩ : ∃ t : Int, t = -s.step := ⟨_, rfl⟩
    have htpos : 0 < t := by omega
    have hna : ((last - fst).natAbs : Int) = fst - last := by omega
    have hnb : (s.step.natAbs : Int) = t := by omega
    rw [hna, hnb] at hsz
    have hq := Int.mul_ediv_self_le (x := fst - last - 1) (Int.ne_of_gt htpos)
    have hq0 : 0 ≤ (fst - last - 1) / t := Int.ediv_nonneg (by omega) (by omega)
    refine ⟨by omega, fun j hj0 hj => ?_⟩
    have hjq : j ≤ (fst - last - 1) / t := by omega
    have hmul : t * j ≤ t * ((fst - last - 1) / t) := Int.mul_le_mul_of_nonneg_left hjq (by omega)
    have hmul0 : 0 ≤ t * j := Int.mul_nonneg (by omega) hj0
    have hsj : s.step * j = -(t * j) := by rw [ht]; ring
    rw [← hf, hsj]
    omega
  · -- positive step
    have hlast := lastOf_pos s n hn hpos
    generalize lastOf s n = last at hlast hsz hrange
    have hnneg : ¬ s.step < 0 := by omega
    have hrpos' : 0 < last - fst := by
      by_contra hc
      apply hrange
      by_cases h0 : last - fst = 0
      · simp [h0]
      · have : last - fst < 0 := by omega
        simp [this, hnneg]
    have hna : ((last - fst).natAbs : Int) = last - fst := by omega
    have hnb : (s.step.natAbs : Int) = s.step := by omega
    rw [hna, hnb] at hsz
    have hq := Int.mul_ediv_self_le (x := last - fst - 1) (Int.ne_of_gt hpos)
    have hq0 : 0 ≤ (last - fst - 1) / s.step := Int.ediv_nonneg (by omega) (by omega)
    refine ⟨by omega, fun j hj0 hj => ?_⟩
    have hjq : j ≤ (last - fst - 1) / s.step := by omega
    have hmul : s.step * j ≤ s.step * ((last - fst - 1) / s.step) := Int.mul_le_mul_of_nonneg_left hjq (by omega)
    have hmul0 : 0 ≤ s.step * j := Int.mul_nonneg (by omega) hj0
    rw [← hf]
    omega

theorem natAbs_cast_mul (st : Int) (x : Rat) :
    ((st.natAbs : Int) : Rat) * (if st < 0 then -x else x) = (st : Rat) * x := by
  by_cases h : st < 0
  · have : (st.natAbs : Int) = -st := by omega
    rw [this, if_pos h]; push_cast; ring
  · have : (st.natAbs : Int) = st := by omega
    rw [this, if_neg h]

theorem sliceGeom_col (g : Geom) (first step size : Ax → Int) (a : Ax) :
    (sliceGeom g first step size).col a = V3.smul (step a : Rat) (g.col a) := by
  unfold sliceGeom Geom.col
  simp only []
  by_cases h : step a < 0
  · have hn : ((step a).natAbs : Int) = -(step a) := by omega
    rw [if_pos h, hn]
    apply V3.ext' <;> simp only [V3.smul, V3.neg] <;> push_cast <;> ring
  · have hn : ((step a).natAbs : Int) = step a := by omega
    rw [if_neg h, hn]
    apply V3.ext' <;> simp only [V3.smul] <;> ring

theorem sliceGeom_toRef (g : Geom) (first step size : Ax → Int) (k : Ax → Int) :
    (sliceGeom g first step size).toRef (toRat k) = g.toRef (toRat (fun a => first a + step a * k a)) := by
  have hpos : (sliceGeom g first step size).pos = g.toRef (toRat first) := rfl
  unfold Geom.toRef
  rw [sliceGeom_col, sliceGeom_col, sliceGeom_col, hpos]
  unfold Geom.toRef
  apply V3.ext' <;> simp only [V3.add, V3.smul, toRat] <;> push_cast <;> ring

theorem getitemGeom_ok (g : Geom) (s : Ax → Sl) (g' : Geom) (first step : Ax → Int)
    (h : getitemGeom g s = .ok (g', first, step)) :
    ∃ size : Ax → Int, g' = sliceGeom g first step size ∧
      ∀ a, getitemAxis (s a) (g.shape a) = .ok (first a, step a, size a) := by
  unfold getitemGeom at h
  cases h0 : getitemAxis (s 0) (g.shape 0) with
  | error e => simp [h0] at h
  | ok r0 =>
    cases h1 : getitemAxis (s 1) (g.shape 1) with
    | error e => simp [h0, h1] at h
    | ok r1 =>
      cases h2 : getitemAxis (s 2) (g.shape 2) with
      | error e => simp [h0, h1, h2] at h
      | ok r2 =>
        simp only [h0, h1, h2] at h
        injection h with h
        simp only [Prod.mk.injEq] at h
        obtain ⟨hg, hf, hs⟩ := h
        subst hf hs
        refine ⟨mk3 r0.2.2 r1.2.2 r2.2.2, hg.symm, ?_⟩
        rw [forall_ax]
        exact ⟨h0, h1, h2⟩

theorem getitem_sub {α : Type} (v w : Vol α) (s : Ax → Sl) (h : getitem v s = .ok w) :
    ∃ first step : Ax → Int, getitemGeom v.geom s = .ok (w.geom, first, step) ∧
      Sub v w (fun k a => first a + step a * k a) := by
  unfold getitem at h
  cases hg : getitemGeom v.geom s with
  | error e => simp [hg] at h
  | ok r =>
    obtain ⟨g', first, step⟩ := r
    simp only [hg] at h
    injection h with h
    subst h
    refine ⟨first, step, rfl, ?_⟩
    obtain ⟨size, hgeom, hax⟩ := getitemGeom_ok _ _ _ _ _ hg
    refine ⟨?_, ?_, fun _ => rfl⟩
    · intro k
      simp only [hgeom]
      exact sliceGeom_toRef _ _ _ _ _
    · intro k hk a
      have hr := getitemAxis_range _ _ _ _ _ (hax a)
      have hka := hk a
      simp only [hgeom, sliceGeom] at hka
      exact hr.2.2.2 (k a) hka.1 hka.2

/-! ## the head of `match_geometry` -/

/-- both frames of reference are known and they differ -/
def forConflict (g h : Geom) : Bool :=
  match g.frameOfRef, h.frameOfRef with
  | some a, some b => a != b
  | _, _ => false

/-- the translated head of `match_geometry` lets the call go on iff there is no frame-of-reference
conflict and the coordinate systems agree; otherwise it raises RuntimeError -/
theorem mgHead_spec (g h : Geom) :
    (forConflict g h = false ∧ g.cs = h.cs ∧ mgHead g.frameOfRef h.frameOfRef g.cs h.cs = .ok true) ∨
    ((forConflict g h = true ∨ g.cs ≠ h.cs) ∧ mgHead g.frameOfRef h.frameOfRef g.cs h.cs = .error .runtime) := by
  unfold forConflict mgHead
  rcases g.frameOfRef with _ | u <;> rcases h.frameOfRef with _ | v <;> simp only [] <;>
    by_cases hc : g.cs = h.cs <;> (try by_cases huv : u = v) <;> simp_all

/-! ## soundness of `matchGeometry` -/

theorem matchGeometry_ok {α : Type} (src : Vol α) (tgt : Geom) (tol : Rat) (c : PadMode α) (r : Vol α)
    (h : matchGeometry src tgt tol c = .ok r) :
    forConflict src.geom tgt = false ∧ src.geom.cs = tgt.cs ∧
    ∃ p steps nv pl, matchAlign src.geom tgt tol = .ok (p, steps) ∧
      (if requiresPermute p then permute src p else .ok src) = .ok nv ∧
      matchPlan nv.geom tgt steps tol = .ok pl ∧ matchApply nv pl c = .ok r ∧
      geometryEqual r.geom tgt (some tol) = .ok true := by
  unfold matchGeometry at h
  rcases mgHead_spec src.geom tgt with ⟨hf, hc, hhead⟩ | ⟨_, hhead⟩
  swap
  · rw [hhead] at h; cases h
  rw [hhead] at h
  simp only [] at h
  refine ⟨hf, hc, ?_⟩
  cases ha : matchAlign src.geom tgt tol with
  | error e => simp [ha] at h
  | ok ps =>
    obtain ⟨p, steps⟩ := ps
    simp only [ha] at h
    cases hp : (if requiresPermute p then permute src p else .ok src) with
    | error e => simp [hp] at h
    | ok nv =>
      simp only [hp] at h
      cases hpl : matchPlan nv.geom tgt steps tol with
      | error e => simp [hpl] at h
      | ok pl =>
        simp only [hpl] at h
        cases hap : matchApply nv pl c with
        | error e => simp [hap] at h
        | ok r' =>
          simp only [hap] at h
          cases hge : geometryEqual r'.geom tgt (some tol) with
          | error e => simp [hge] at h
          | ok b =>
            cases b with
            | false => simp [hge] at h
            | true =>
              simp only [hge] at h
              injection h with h
              subst h
              exact ⟨p, steps, nv, pl, rfl, hp, hpl, hap, hge⟩

theorem matchApply_prov {α : Type} (nv r : Vol α) (pl : AxisPlan × AxisPlan × AxisPlan) (mode : PadMode α)
    (h : matchApply nv pl mode = .ok r) : ∃ m, Prov nv r (mode.fill nv) m := by
  unfold matchApply at h
  cases hpad : (if pl.2.2.requiresPad then
           pad nv (mk3 pl.1.before pl.2.1.before pl.2.2.before) (mk3 pl.1.after pl.2.1.after pl.2.2.after) mode
         else .ok nv) with
  | error e => simp [hpad] at h
  | ok nv1 =>
    simp only [hpad] at h
    have h1 : ∃ m, Prov nv nv1 (mode.fill nv) m := by
      by_cases hrp : pl.2.2.requiresPad = true
      · rw [if_pos hrp] at hpad
        exact ⟨_, (pad_prov _ _ _ _ _ hpad).1⟩
      · rw [if_neg hrp] at hpad
        injection hpad with hpad
        subst hpad
        exact ⟨id, Prov.refl _ _⟩
    obtain ⟨m1, hm1⟩ := h1
    by_cases hrc : pl.2.2.requiresCrop = true
    · rw [if_pos hrc] at h
      obtain ⟨first, step, _, hsub⟩ := getitem_sub _ _ _ h
      exact ⟨_, hm1.sub hsub⟩
    · rw [if_neg hrc] at h
      injection h with h
      subst h
      exact ⟨m1, hm1⟩

/-- the one law a statistic used for padding (MINIMUM, MAXIMUM, MEAN, MEDIAN; whole array or per
channel) has to obey: it does not depend on the order of the spatial axes -/
def StatLaw {α : Type} : PadMode α → Prop
  | .stat f => ∀ (v w : Vol α) (p : Ax → Ax), permute v p = .ok w → f w = f v
  | _ => True

theorem invPerm_right (p : Ax → Ax) (hp : isPerm p = true) (a : Ax) : p (invPerm p a) = a := by
  rcases isPerm_cases p hp with ⟨h0, h1, h2⟩ | ⟨h0, h1, h2⟩ | ⟨h0, h1, h2⟩ | ⟨h0, h1, h2⟩ | ⟨h0, h1, h2⟩ | ⟨h0, h1, h2⟩ <;>
    rcases ax_cases a with rfl | rfl | rfl <;> simp [invPerm, h0, h1, h2]

/-- the padding rule seen from the permuted volume is the padding rule seen from the source -/
theorem fill_permute {α : Type} (mode : PadMode α) (hlaw : StatLaw mode) (v w : Vol α) (p : Ax → Ax)
    (h : permute v p = .ok w) (j : Ax → Int) :
    mode.fill w j = mode.fill v (fun a => j (invPerm p a)) := by
  obtain ⟨hiso, hgeom, hp⟩ := permute_iso v w p h
  cases mode with
  | constant c => rfl
  | stat f => exact hlaw v w p h
  | edge =>
    simp only [PadMode.fill]
    rw [hiso.val]
    congr 1
    funext a
    simp only [clampIdx, hgeom, invPerm_right p hp a]

/-- everything `matchGeometry` returns is the source seen through an index map; voxels the map sends
outside the source carry the padding rule's value `mode.fill src` at that out-of-range source index -/
theorem matchGeometry_prov {α : Type} (src : Vol α) (tgt : Geom) (tol : Rat) (mode : PadMode α) (hlaw : StatLaw mode)
    (r : Vol α) (h : matchGeometry src tgt tol mode = .ok r) : ∃ m, Prov src r (mode.fill src) m := by
  obtain ⟨_, _, p, steps, nv, pl, _, hp, _, hap, _⟩ := matchGeometry_ok src tgt tol mode r h
  obtain ⟨m2, hm2⟩ := matchApply_prov nv r pl mode hap
  by_cases hrp : requiresPermute p = true
  · rw [if_pos hrp] at hp
    exact ⟨_, (permute_iso _ _ _ hp).1.prov hm2 (fill_permute mode hlaw src nv p hp)⟩
  · rw [if_neg hrp] at hp
    injection hp with hp
    subst hp
    exact ⟨_, (Iso.refl _).prov hm2 (fun _ => rfl)⟩

theorem toRef_eq_apply (g : Geom) (x : Ax → Rat) : g.toRef x = g.aff.apply ⟨x 0, x 1, x 2⟩ := by
  apply V3.ext' <;> simp only [Geom.toRef, Geom.aff, Aff.apply, Aff.lin, V3.add, V3.smul] <;> ring

theorem Aff.inv_of_det {A : Aff} (h : A.det ≠ 0) : ∃ B, A.inv = .ok B := by
  unfold Aff.inv
  simp [h]

/-- distinct voxels of a non-degenerate geometry sit at distinct positions -/
theorem toRef_injective (g : Geom) (hdet : g.aff.det ≠ 0) (i j : Ax → Int)
    (h : g.toRef (toRat i) = g.toRef (toRat j)) : i = j := by
  obtain ⟨B, hB⟩ := Aff.inv_of_det hdet
  rw [toRef_eq_apply, toRef_eq_apply] at h
  have := congrArg B.apply h
  rw [Aff.inv_left hB, Aff.inv_left hB] at this
  injection this with h0 h1 h2
  simp only [toRat] at h0 h1 h2
  funext a
  rcases ax_cases a with rfl | rfl | rfl
  · exact_mod_cast h0
  · exact_mod_cast h1
  · exact_mod_cast h2

/-- provenance + non-degenerate source ⇒ voxels coincide with the source wherever the two overlap;
elsewhere the voxel sits on the (out-of-range) source grid point `j` and carries `fill j` -/
theorem Prov.coincide {α : Type} {src r : Vol α} {fill : (Ax → Int) → α} {m} (hp : Prov src r fill m)
    (hdet : src.geom.aff.det ≠ 0) (k : Ax → Int) (hk : InShape r.geom.shape k) :
    (∀ i, InShape src.geom.shape i → src.geom.toRef (toRat i) = r.geom.toRef (toRat k) → r.vox k = src.vox i) ∧
    ((∀ i, InShape src.geom.shape i → src.geom.toRef (toRat i) ≠ r.geom.toRef (toRat k)) →
      ∃ j, ¬ InShape src.geom.shape j ∧ src.geom.toRef (toRat j) = r.geom.toRef (toRat k) ∧ r.vox k = fill j) := by
  obtain ⟨hin, hout⟩ := hp.val k hk
  constructor
  · intro i hi heq
    rw [hp.ref k] at heq
    have : i = m k := toRef_injective _ hdet _ _ heq
    subst this
    exact hin hi
  · intro hno
    have hmk : ¬ InShape src.geom.shape (m k) := fun hmk => hno (m k) hmk (hp.ref k).symm
    exact ⟨m k, hmk, (hp.ref k).symm, hout hmk⟩

/-! ## completeness: the translated cores on exactly aligned inputs -/


theorem int_trunc (k : Int) : (if ((k : Int) : Rat) < 0 then Rat.ceil ((k : Int) : Rat) else Rat.floor ((k : Int) : Rat)) = k := by
  split <;> simp [Rat.ceil_intCast, Rat.floor_intCast]

theorem mgCropPad_pos (s : Int) (sp : Rat) (hsp : sp ≠ 0) (step no ni : Int) (hstep : 0 < step) (tol : Rat) (htol : 0 ≤ tol)
    (rc rp : Bool) :
    mgCropPad ((s : Rat) * sp) sp step no ni tol rc rp =
      .ok (s + max (-s) 0, false, s + no * step + max (-s) 0, step, max (-s) 0, max (s + no * step - ni) 0,
           (decide (0 < s + max (-s) 0 ∨ s + no * step + max (-s) 0 < ni + max (-s) 0 + max (s + no * step - ni) 0 ∨ 1 < step) || rc),
           (decide (0 < max (-s) 0 ∨ 0 < max (s + no * step - ni) 0) || rp)) := by
  unfold mgCropPad
  have hsc : (s : Rat) * sp / sp = (s : Rat) := by field_simp
  have hz : ¬ (tol < 0) := not_lt.mpr htol
  simp only [hsc, roundHalfEven_intCast, int_trunc]
  simp [hstep, hz, Bool.or_assoc]

theorem mgCropPad_neg (s : Int) (sp : Rat) (hsp : sp ≠ 0) (step no ni : Int) (hstep : step < 0) (tol : Rat) (htol : 0 ≤ tol)
    (rc rp : Bool) :
    mgCropPad ((s : Rat) * sp) sp step no ni tol rc rp =
      .ok (s + max (-(s + no * step) - 1) 0, decide (s + no * step + max (-(s + no * step) - 1) 0 = -1),
           s + no * step + max (-(s + no * step) - 1) 0, step, max (-(s + no * step) - 1) 0, max (s - ni + 1) 0,
           true, (decide (0 < max (-(s + no * step) - 1) 0 ∨ 0 < max (s - ni + 1) 0) || rp)) := by
  unfold mgCropPad
  have hsc : (s : Rat) * sp / sp = (s : Rat) := by field_simp
  have hz : ¬ (tol < 0) := not_lt.mpr htol
  have hs : ¬ (0 < step) := by omega
  simp only [hsc, roundHalfEven_intCast, int_trunc]
  simp [hs, hz, Bool.or_assoc]



theorem mgAlign_orth (s t tol : Rat) (htol : tol ≤ 1) : mgAlign 0 s t tol = .ok (false, 0) := by
  unfold mgAlign
  have h1 : ¬ ((1 : Rat) < tol) := not_lt.mpr htol
  have h0 : ¬ ((1 : Rat) < 0) := by norm_num
  simp [h1, h0, htol]

theorem mgAlign_par (σ : Int) (hσ : σ = 1 ∨ σ = -1) (m : Int) (hm : 1 ≤ m) (t tol : Rat) (ht : t ≠ 0) (htol : 0 < tol) :
    mgAlign (σ : Rat) ((m : Rat) * t) t tol = .ok (true, σ * m) := by
  unfold mgAlign
  have hsc : (m : Rat) * t / t = (m : Rat) := by field_simp
  simp only [hsc, roundHalfEven_intCast, int_trunc]
  rcases hσ with rfl | rfl
  · have : ¬ (tol < 0) := not_lt.mpr (le_of_lt htol)
    simp [htol, this]
  · have : ¬ (tol < 0) := not_lt.mpr (le_of_lt htol)
    simp [htol, this]

/-! ### slices that the plan produces -/


theorem div_count (no step : Int) (hno : 1 ≤ no) (hstep : 0 < step) : (no * step - 1) / step + 1 = no := by
  have h : no * step - 1 = (step - 1) + step * (no - 1) := by ring
  rw [h, Int.add_mul_ediv_left _ _ (Int.ne_of_gt hstep)]
  have : (step - 1) / step = 0 := Int.ediv_eq_zero_of_lt (by omega) (by omega)
  omega

theorem getitemAxis_pos (cs ce step n no : Int) (h0 : 0 ≤ cs) (h1 : cs < n) (h2 : ce ≤ n) (hstep : 0 < step)
    (hno : 1 ≤ no) (hM : ce - cs = no * step) : getitemAxis ⟨cs, some ce, step⟩ n = .ok (cs, step, no) := by
  have hMpos : 0 < no * step := Int.mul_pos (by omega) hstep
  unfold getitemAxis
  have hfirst : adjustBound cs n step = cs := by unfold adjustBound; split <;> (try split) <;> omega
  have hlast : lastOf ⟨cs, some ce, step⟩ n = ce := by
    unfold lastOf adjustBound; simp only []; split <;> (try split) <;> (try split) <;> omega
  simp only [hfirst, hlast]
  have c1 : ¬ ((decide (cs < -n) || decide (cs ≥ n)) = true) := by simp; omega
  have c2 : ¬ (stopOutOfRange (some ce) n = true) := by unfold stopOutOfRange; simp; omega
  have c3 : ¬ (step = 0) := by omega
  have c4 : ¬ ((decide (ce - cs = 0) || (decide (ce - cs < 0) != decide (step < 0))) = true) := by
    have a1 : ¬ (ce - cs = 0) := by omega
    have a2 : ¬ (ce - cs < 0) := by omega
    have a3 : ¬ (step < 0) := by omega
    simp [a1, a2, a3]
  rw [if_neg c1, if_neg c2, if_neg c3, if_neg c4]
  have hna : ((ce - cs).natAbs : Int) = no * step := by omega
  have hnb : (step.natAbs : Int) = step := by omega
  rw [hna, hnb, div_count no step hno hstep]

theorem getitemAxis_neg (cs ce step n no : Int) (h0 : 0 ≤ cs) (h1 : cs < n) (h2 : -1 ≤ ce) (hstep : step < 0)
    (hno : 1 ≤ no) (hM : ce - cs = no * step) :
    getitemAxis ⟨cs, if ce = -1 then none else some ce, step⟩ n = .ok (cs, step, no) := by
  obtain ⟨t, ht⟩ : ∃ t : Int, t = -step := ⟨_, rfl⟩
  have htpos : 0 < t := by omega
  have hMt : no * step = -(no * t) := by rw [ht]; ring
  have hMpos : 0 < no * t := Int.mul_pos (by omega) htpos
  unfold getitemAxis
  have hfirst : adjustBound cs n step = cs := by unfold adjustBound; split <;> (try split) <;> omega
  have hlast : lastOf ⟨cs, if ce = -1 then none else some ce, step⟩ n = ce := by
    unfold lastOf
    by_cases hce : ce = -1
    · simp [hce, hstep]
    · simp only [hce, if_false]
      unfold adjustBound; split <;> (try split) <;> (try split) <;> omega
  simp only [hfirst, hlast]
  have c1 : ¬ ((decide (cs < -n) || decide (cs ≥ n)) = true) := by simp; omega
  have c2 : ¬ (stopOutOfRange (if ce = -1 then none else some ce) n = true) := by
    unfold stopOutOfRange
    by_cases hce : ce = -1
    · simp [hce]
    · simp [hce]; omega
  have c3 : ¬ (step = 0) := by omega
  have c4 : ¬ ((decide (ce - cs = 0) || (decide (ce - cs < 0) != decide (step < 0))) = true) := by
    have a1 : ¬ (ce - cs = 0) := by omega
    have a2 : (ce - cs < 0) := by omega
    simp [a1, a2, hstep]
  rw [if_neg c1, if_neg c2, if_neg c3, if_neg c4]
  have hna : ((ce - cs).natAbs : Int) = no * t := by omega
  have hnb : (step.natAbs : Int) = t := by omega
  rw [hna, hnb, div_count no t hno htpos]

/-- what one iteration of the crop/pad loop guarantees when the target origin sits on voxel `s` of the
(permuted) source axis: non-negative pads, and the slice taken from the padded axis of length
`ni + before + after` selects exactly the `no` positions `s + before + step * j` -/
structure AxisOK (pl : AxisPlan) (s step no ni : Int) (rc rp : Bool) : Prop where
  before_nonneg : 0 ≤ pl.before
  after_nonneg : 0 ≤ pl.after
  slice : getitemAxis pl.sl (ni + pl.before + pl.after) = .ok (s + pl.before, step, no)
  pad_flag : pl.requiresPad = (decide (0 < pl.before ∨ 0 < pl.after) || rp)
  crop_flag : pl.requiresCrop = false → (rc = false ∧ s + pl.before = 0 ∧ step = 1 ∧ no = ni + pl.before + pl.after)
  crop_mono : rc = true → pl.requiresCrop = true

theorem mgCropPad_axisOK (s : Int) (sp : Rat) (hsp : sp ≠ 0) (step no ni : Int) (hstep : step ≠ 0) (hno : 1 ≤ no)
    (tol : Rat) (htol : 0 ≤ tol) (rc rp : Bool) :
    ∃ r, mgCropPad ((s : Rat) * sp) sp step no ni tol rc rp = .ok r ∧ AxisOK (planOf r) s step no ni rc rp := by
  rcases lt_or_gt_of_ne hstep with hneg | hpos
  · refine ⟨_, mgCropPad_neg s sp hsp step no ni hneg tol htol rc rp, ?_⟩
    obtain ⟨t, ht⟩ : ∃ t : Int, t = -step := ⟨_, rfl⟩
    have htpos : 0 < t := by omega
    have hMt : no * step = -(no * t) := by rw [ht]; ring
    have hMge : t ≤ no * t := by
      have := Int.mul_le_mul_of_nonneg_right hno (le_of_lt htpos)
      omega
    generalize hM : no * step = M at *
    refine ⟨?_, ?_, ?_, ?_, ?_, ?_⟩
    · simp only [planOf]; omega
    · simp only [planOf]; omega
    · simp only [planOf, decide_eq_true_eq]
      exact getitemAxis_neg _ _ step _ no (by omega) (by omega) (by omega) hneg hno (by omega)
    · simp only [planOf]
    · simp only [planOf]; intro h; cases h
    · simp only [planOf]; intro _; trivial
  · refine ⟨_, mgCropPad_pos s sp hsp step no ni hpos tol htol rc rp, ?_⟩
    have hMge : step ≤ no * step := by
      have := Int.mul_le_mul_of_nonneg_right hno (le_of_lt hpos)
      omega
    generalize hM : no * step = M at *
    refine ⟨?_, ?_, ?_, ?_, ?_, ?_⟩
    · simp only [planOf]; omega
    · simp only [planOf]; omega
    · simp only [planOf, Bool.false_eq_true, if_false]
      exact getitemAxis_pos _ _ step _ no (by omega) (by omega) (by omega) hpos hno (by omega)
    · simp only [planOf]
    · simp only [planOf, Bool.or_eq_false_iff, decide_eq_false_iff_not, not_or]
      rintro ⟨⟨h1, h2, h3⟩, h4⟩
      refine ⟨h4, by omega, by omega, ?_⟩
      have : step = 1 := by omega
      subst this
      omega
    · simp only [planOf]; intro h; simp [h]

/-! ## completeness: alignment of a reachable target -/


/-- well-formed geometry: orthonormal unit vectors, positive spacings -/
structure WF (g : Geom) : Prop where
  orth : ∀ a b, V3.dot (g.dir a) (g.dir b) = if a = b then 1 else 0
  spacing_pos : ∀ a, 0 < g.spacing a

theorem dot_neg_left (a b : V3) : V3.dot (V3.neg a) b = -(V3.dot a b) := by
  simp only [V3.dot, V3.neg]; ring

theorem natAbs_sign (st : Int) : (if st < 0 then (-1 : Int) else 1) * (st.natAbs : Int) = st := by
  split <;> omega

theorem alignAxis_reach (src : Geom) (hwf : WF src) (j : Ax) (st : Int) (hst : st ≠ 0) (tol : Rat) (h0 : 0 < tol)
    (h1 : tol ≤ 1) :
    alignAxis src (if st < 0 then V3.neg (src.dir j) else src.dir j) (src.spacing j * ((st.natAbs : Int) : Rat)) tol
      = .ok (j, st) := by
  have hdot : ∀ a, V3.dot (if st < 0 then V3.neg (src.dir j) else src.dir j) (src.dir a) =
      if j = a then (((if st < 0 then (-1 : Int) else 1) : Int) : Rat) else 0 := by
    intro a
    by_cases hs : st < 0 <;> by_cases hja : j = a <;> simp [hs, hja, dot_neg_left, hwf.orth]
  have hm : 1 ≤ ((st.natAbs : Int)) := by omega
  have hσ : (if st < 0 then (-1 : Int) else 1) = 1 ∨ (if st < 0 then (-1 : Int) else 1) = -1 := by
    split <;> simp
  have hpar := mgAlign_par (if st < 0 then (-1 : Int) else 1) hσ (st.natAbs : Int) hm (src.spacing j) tol
    (ne_of_gt (hwf.spacing_pos j)) h0
  rw [natAbs_sign, mul_comm] at hpar
  unfold alignAxis
  rcases ax_cases j with rfl | rfl | rfl
  · rw [hdot 0, if_pos rfl, hpar]
  · rw [hdot 0, if_neg (by decide), mgAlign_orth _ _ _ h1]
    simp only []
    rw [hdot 1, if_pos rfl, hpar]
  · rw [hdot 0, if_neg (by decide), mgAlign_orth _ _ _ h1]
    simp only []
    rw [hdot 1, if_neg (by decide), mgAlign_orth _ _ _ h1]
    simp only []
    rw [hdot 2, if_pos rfl, hpar]

theorem dot_toRef_sub (G : Geom) (hwf : WF G) (x : Ax → Rat) (i : Ax) :
    V3.dot (G.dir i) (V3.sub (G.toRef x) G.pos) = x i * G.spacing i := by
  have h0 := hwf.orth i 0
  have h1 := hwf.orth i 1
  have h2 := hwf.orth i 2
  simp only [V3.dot] at h0 h1 h2
  simp only [V3.dot, V3.sub, Geom.toRef, Geom.col, V3.add, V3.smul]
  rcases ax_cases i with rfl | rfl | rfl
  · simp at h0 h1 h2
    linear_combination (x 0 * G.spacing 0) * h0 + (x 1 * G.spacing 1) * h1 + (x 2 * G.spacing 2) * h2
  · simp at h0 h1 h2
    linear_combination (x 0 * G.spacing 0) * h0 + (x 1 * G.spacing 1) * h1 + (x 2 * G.spacing 2) * h2
  · simp at h0 h1 h2
    linear_combination (x 0 * G.spacing 0) * h0 + (x 1 * G.spacing 1) * h1 + (x 2 * G.spacing 2) * h2



/-- the permuted geometry (what `permuteGeom` returns for a permutation) -/
def permuted (g : Geom) (p : Ax → Ax) : Geom :=
  { g with dir := fun i => g.dir (p i), spacing := fun i => g.spacing (p i), shape := fun i => g.shape (p i) }

theorem permuteGeom_eq (g : Geom) (p : Ax → Ax) (hp : isPerm p = true) : permuteGeom g p = .ok (permuted g p) := by
  unfold permuteGeom permuted; rw [if_pos hp]

theorem isPerm_inj (p : Ax → Ax) (hp : isPerm p = true) (a b : Ax) : p a = p b ↔ a = b := by
  rcases isPerm_cases p hp with ⟨h0, h1, h2⟩ | ⟨h0, h1, h2⟩ | ⟨h0, h1, h2⟩ | ⟨h0, h1, h2⟩ | ⟨h0, h1, h2⟩ | ⟨h0, h1, h2⟩ <;>
    rcases ax_cases a with rfl | rfl | rfl <;> rcases ax_cases b with rfl | rfl | rfl <;> simp [h0, h1, h2]

theorem WF.permuted {g : Geom} (hwf : WF g) (p : Ax → Ax) (hp : isPerm p = true) : WF (permuted g p) := by
  refine ⟨fun a b => ?_, fun a => hwf.spacing_pos (p a)⟩
  simp only [Match.permuted]
  rw [hwf.orth]
  by_cases hab : a = b
  · simp [hab]
  · have : ¬ p a = p b := fun h => hab ((isPerm_inj p hp a b).mp h)
    simp [hab, this]

/-- **Reachable** (normal form): the target is a strided sub-lattice — possibly reaching outside, then
to be padded — of the source with permuted axes: target axis `i` runs along source axis `p i`, in
the same or the opposite direction (`st i < 0`), with `|st i|` source voxels per target voxel, and the
target origin sits on the (possibly out-of-range) source voxel `first`.  Every chain of
`permute_spatial_axes`, `flip_spatial`, indexing with slices of any non-zero stride and `pad` ends in
such a geometry (`Chain.reachable`). -/
def Reachable (src tgt : Geom) : Prop :=
  ∃ (p : Ax → Ax) (first st : Ax → Int), isPerm p = true ∧ (∀ i, st i ≠ 0) ∧
    tgt.dir = (sliceGeom (permuted src p) first st tgt.shape).dir ∧
    tgt.spacing = (sliceGeom (permuted src p) first st tgt.shape).spacing ∧
    tgt.pos = (sliceGeom (permuted src p) first st tgt.shape).pos ∧
    tgt.cs = src.cs ∧ forConflict src tgt = false

theorem matchAlign_reach (src tgt : Geom) (hwf : WF src) (tol : Rat) (h0 : 0 < tol) (h1 : tol ≤ 1)
    (p : Ax → Ax) (first st : Ax → Int) (hst : ∀ i, st i ≠ 0)
    (hdir : tgt.dir = (sliceGeom (permuted src p) first st tgt.shape).dir)
    (hsp : tgt.spacing = (sliceGeom (permuted src p) first st tgt.shape).spacing) :
    matchAlign src tgt tol = .ok (p, st) := by
  unfold matchAlign
  have h : ∀ i, alignAxis src (tgt.dir i) (tgt.spacing i) tol = .ok (p i, st i) := by
    intro i
    rw [hdir, hsp]
    simp only [sliceGeom, permuted]
    exact alignAxis_reach src hwf (p i) (st i) (hst i) tol h0 h1
  rw [h 0, h 1, h 2]
  simp only [mk3_eta]

theorem permuted_id (g : Geom) (p : Ax → Ax) (h : requiresPermute p = false) : permuted g p = g := by
  unfold requiresPermute at h
  simp only [Bool.not_eq_false', Bool.and_eq_true, beq_iff_eq] at h
  obtain ⟨⟨h0, h1⟩, h2⟩ := h
  have hp : p = id := by
    funext a; rcases ax_cases a with rfl | rfl | rfl <;> simp [h0, h1, h2]
  subst hp
  rfl

theorem permute_step {α : Type} (src : Vol α) (p : Ax → Ax) (hp : isPerm p = true) :
    ∃ nv, (if requiresPermute p then permute src p else .ok src) = .ok nv ∧ nv.geom = permuted src.geom p := by
  by_cases hr : requiresPermute p = true
  · rw [if_pos hr]
    unfold permute
    rw [permuteGeom_eq _ _ hp]
    exact ⟨_, rfl, rfl⟩
  · rw [if_neg hr]
    exact ⟨src, rfl, (permuted_id _ _ (by simpa using hr)).symm⟩



theorem planAxis_reach (G tgt : Geom) (hwf : WF G) (first st : Ax → Int) (hst : ∀ i, st i ≠ 0)
    (hpos : tgt.pos = (sliceGeom G first st tgt.shape).pos) (hshape : ∀ i, 1 ≤ tgt.shape i)
    (tol : Rat) (htol : 0 ≤ tol) (i : Ax) (rc rp : Bool) :
    ∃ pl, planAxis G tgt (st i) tol i rc rp = .ok pl ∧ AxisOK pl (first i) (st i) (tgt.shape i) (G.shape i) rc rp := by
  unfold planAxis
  have hoff : V3.dot (G.dir i) (V3.sub tgt.pos G.pos) = ((first i : Int) : Rat) * G.spacing i := by
    rw [hpos]
    exact dot_toRef_sub G hwf (toRat first) i
  rw [hoff]
  obtain ⟨r, hr, hok⟩ := mgCropPad_axisOK (first i) (G.spacing i) (ne_of_gt (hwf.spacing_pos i)) (st i) (tgt.shape i)
    (G.shape i) (hst i) (hshape i) tol htol rc rp
  rw [hr]
  exact ⟨_, rfl, hok⟩

theorem matchPlan_reach (G tgt : Geom) (hwf : WF G) (first st : Ax → Int) (hst : ∀ i, st i ≠ 0)
    (hpos : tgt.pos = (sliceGeom G first st tgt.shape).pos) (hshape : ∀ i, 1 ≤ tgt.shape i)
    (tol : Rat) (htol : 0 ≤ tol) :
    ∃ p0 p1 p2, matchPlan G tgt st tol = .ok (p0, p1, p2) ∧
      AxisOK p0 (first 0) (st 0) (tgt.shape 0) (G.shape 0) false false ∧
      AxisOK p1 (first 1) (st 1) (tgt.shape 1) (G.shape 1) p0.requiresCrop p0.requiresPad ∧
      AxisOK p2 (first 2) (st 2) (tgt.shape 2) (G.shape 2) p1.requiresCrop p1.requiresPad := by
  unfold matchPlan
  obtain ⟨p0, h0, ok0⟩ := planAxis_reach G tgt hwf first st hst hpos hshape tol htol 0 false false
  obtain ⟨p1, h1, ok1⟩ := planAxis_reach G tgt hwf first st hst hpos hshape tol htol 1 p0.requiresCrop p0.requiresPad
  obtain ⟨p2, h2, ok2⟩ := planAxis_reach G tgt hwf first st hst hpos hshape tol htol 2 p1.requiresCrop p1.requiresPad
  rw [h0]; simp only []; rw [h1]; simp only []; rw [h2]
  exact ⟨p0, p1, p2, rfl, ok0, ok1, ok2⟩



/-- the padded geometry (what `padGeom` returns for non-negative widths) -/
def padded (G : Geom) (b a : Ax → Int) : Geom :=
  { G with pos := G.toRef (fun x => -(b x : Rat)), shape := fun x => G.shape x + b x + a x }

theorem padGeom_ok (G : Geom) (b a : Ax → Int) (hb : ∀ i, 0 ≤ b i) (ha : ∀ i, 0 ≤ a i) :
    padGeom G b a = .ok (padded G b a) := by
  unfold padGeom padded
  have : ¬ ((decide (b 0 < 0) || decide (b 1 < 0) || decide (b 2 < 0) || decide (a 0 < 0) || decide (a 1 < 0) ||
      decide (a 2 < 0)) = true) := by
    have := hb 0; have := hb 1; have := hb 2; have := ha 0; have := ha 1; have := ha 2
    simp; omega
  rw [if_neg this]

theorem padded_zero (G : Geom) (b a : Ax → Int) (hb : ∀ i, b i = 0) (ha : ∀ i, a i = 0) : padded G b a = G := by
  obtain ⟨dir, spacing, pos, shape, cs, fr⟩ := G
  simp only [padded, Geom.mk.injEq, true_and, and_true]
  constructor
  · apply V3.ext' <;> simp [Geom.toRef, Geom.col, V3.add, V3.smul, hb]
  · funext x; simp [hb, ha]

theorem getitemGeom_of_axes (G : Geom) (s : Ax → Sl) (first step size : Ax → Int)
    (h : ∀ i, getitemAxis (s i) (G.shape i) = .ok (first i, step i, size i)) :
    getitemGeom G s = .ok (sliceGeom G first step size, first, step) := by
  unfold getitemGeom
  rw [h 0, h 1, h 2]
  simp only [mk3_eta]

/-- what the pad / crop stage of `matchGeometry` returns for plans satisfying `AxisOK` -/
theorem matchApply_reach {α : Type} (nv : Vol α) (c : PadMode α) (first st size : Ax → Int) (p0 p1 p2 : AxisPlan)
    (ok0 : AxisOK p0 (first 0) (st 0) (size 0) (nv.geom.shape 0) false false)
    (ok1 : AxisOK p1 (first 1) (st 1) (size 1) (nv.geom.shape 1) p0.requiresCrop p0.requiresPad)
    (ok2 : AxisOK p2 (first 2) (st 2) (size 2) (nv.geom.shape 2) p1.requiresCrop p1.requiresPad) :
    ∃ b a r, matchApply nv (p0, p1, p2) c = .ok r ∧
      (r.geom = sliceGeom (padded nv.geom b a) (fun i => first i + b i) st size ∨
       (r.geom = padded nv.geom b a ∧ ∀ i, first i + b i = 0 ∧ st i = 1 ∧ size i = nv.geom.shape i + b i + a i)) := by
  refine ⟨mk3 p0.before p1.before p2.before, mk3 p0.after p1.after p2.after, ?_⟩
  unfold matchApply
  simp only []
  have hb : ∀ i, 0 ≤ mk3 p0.before p1.before p2.before i := by
    rw [forall_ax]; exact ⟨ok0.before_nonneg, ok1.before_nonneg, ok2.before_nonneg⟩
  have ha : ∀ i, 0 ≤ mk3 p0.after p1.after p2.after i := by
    rw [forall_ax]; exact ⟨ok0.after_nonneg, ok1.after_nonneg, ok2.after_nonneg⟩
  -- pad stage
  have hpadstage : ∃ nv1, (if p2.requiresPad then
        pad nv (mk3 p0.before p1.before p2.before) (mk3 p0.after p1.after p2.after) c else .ok nv) = .ok nv1 ∧
      nv1.geom = padded nv.geom (mk3 p0.before p1.before p2.before) (mk3 p0.after p1.after p2.after) := by
    by_cases hrp : p2.requiresPad = true
    · rw [if_pos hrp]
      unfold pad
      rw [padGeom_ok _ _ _ hb ha]
      exact ⟨_, rfl, rfl⟩
    · rw [if_neg hrp]
      refine ⟨nv, rfl, (padded_zero _ _ _ ?_ ?_).symm⟩ <;>
      · have f2 := ok2.pad_flag
        have f1 := ok1.pad_flag
        have f0 := ok0.pad_flag
        have hrp' : p2.requiresPad = false := by simpa using hrp
        rw [hrp'] at f2
        simp only [Bool.false_eq, Bool.or_eq_false_iff, decide_eq_false_iff_not, not_or] at f2
        rw [f2.2] at f1
        simp only [Bool.false_eq, Bool.or_eq_false_iff, decide_eq_false_iff_not, not_or] at f1
        rw [f1.2] at f0
        simp only [Bool.false_eq, Bool.or_eq_false_iff, decide_eq_false_iff_not, not_or] at f0
        have := ok0.before_nonneg; have := ok1.before_nonneg; have := ok2.before_nonneg
        have := ok0.after_nonneg; have := ok1.after_nonneg; have := ok2.after_nonneg
        rw [forall_ax]
        simp only [mk3_0, mk3_1, mk3_2]
        omega
  obtain ⟨nv1, hnv1, hg1⟩ := hpadstage
  rw [hnv1]
  simp only []
  by_cases hrc : p2.requiresCrop = true
  · rw [if_pos hrc]
    have hax : ∀ i, getitemAxis (mk3 p0.sl p1.sl p2.sl i) (nv1.geom.shape i) =
        .ok (first i + mk3 p0.before p1.before p2.before i, st i, size i) := by
      rw [hg1, forall_ax]
      exact ⟨ok0.slice, ok1.slice, ok2.slice⟩
    unfold getitem
    rw [getitemGeom_of_axes _ _ _ _ _ hax]
    exact ⟨_, rfl, Or.inl (by simp only [hg1])⟩
  · rw [if_neg hrc]
    refine ⟨_, rfl, Or.inr ⟨hg1, ?_⟩⟩
    have hrc' : p2.requiresCrop = false := by simpa using hrc
    obtain ⟨r1, e2⟩ := ok2.crop_flag hrc'
    obtain ⟨r0, e1⟩ := ok1.crop_flag r1
    obtain ⟨_, e0⟩ := ok0.crop_flag r0
    rw [forall_ax]
    exact ⟨e0, e1, e2⟩



theorem entryWithin_self (t : Rat) (_ht : 0 ≤ t) (a : Rat) : EntryWithin t a a := Or.inr rfl

theorem vecWithin_self (t : Rat) (ht : 0 ≤ t) (a : V3) : VecWithin t a a :=
  ⟨entryWithin_self t ht _, entryWithin_self t ht _, entryWithin_self t ht _⟩

theorem padded_toRef (G : Geom) (b a : Ax → Int) (x : Ax → Rat) :
    (padded G b a).toRef x = G.toRef (fun i => x i - (b i : Rat)) := by
  apply V3.ext' <;> simp only [padded, Geom.toRef, Geom.col, V3.add, V3.smul] <;> ring

theorem tgt_col (G tgt : Geom) (first st : Ax → Int)
    (hdir : tgt.dir = (sliceGeom G first st tgt.shape).dir)
    (hsp : tgt.spacing = (sliceGeom G first st tgt.shape).spacing) (i : Ax) :
    tgt.col i = V3.smul (st i : Rat) (G.col i) := by
  have : tgt.col i = (sliceGeom G first st tgt.shape).col i := by
    simp only [Geom.col]; rw [hdir, hsp]
  rw [this, sliceGeom_col]

theorem final_geom (G tgt R : Geom) (first st b a : Ax → Int)
    (hdir : tgt.dir = (sliceGeom G first st tgt.shape).dir)
    (hsp : tgt.spacing = (sliceGeom G first st tgt.shape).spacing)
    (hpos : tgt.pos = (sliceGeom G first st tgt.shape).pos)
    (hR : R = sliceGeom (padded G b a) (fun i => first i + b i) st tgt.shape ∨
      (R = padded G b a ∧ ∀ i, first i + b i = 0 ∧ st i = 1 ∧ tgt.shape i = G.shape i + b i + a i)) :
    (∀ i, R.col i = tgt.col i) ∧ R.pos = tgt.pos ∧ (∀ i, R.shape i = tgt.shape i) ∧ R.cs = G.cs ∧
      R.frameOfRef = G.frameOfRef := by
  have hpos' : tgt.pos = G.toRef (toRat first) := hpos
  rcases hR with rfl | ⟨rfl, hid⟩
  · refine ⟨fun i => ?_, ?_, fun _ => rfl, rfl, rfl⟩
    · rw [tgt_col G tgt first st hdir hsp, sliceGeom_col]; rfl
    · rw [hpos']
      show (padded G b a).toRef (toRat fun i => first i + b i) = _
      rw [padded_toRef]
      congr 1
      funext i
      simp only [toRat]; push_cast; ring
  · refine ⟨fun i => ?_, ?_, fun i => (hid i).2.2.symm, rfl, rfl⟩
    · rw [tgt_col G tgt first st hdir hsp, (hid i).2.1]
      apply V3.ext' <;> simp [padded, Geom.col, V3.smul]
    · rw [hpos']
      show G.toRef (fun x => -(b x : Rat)) = _
      congr 1
      funext i
      have := (hid i).1
      simp only [toRat]
      have h : first i = -(b i) := by omega
      rw [h]; push_cast; ring

theorem forConflict_false_iff (g h : Geom) : forConflict g h = false ↔ NoForConflict g h := by
  unfold forConflict NoForConflict
  rcases g.frameOfRef with _ | u <;> rcases h.frameOfRef with _ | v <;> simp

/-- **completeness in normal form** -/
theorem matchGeometry_complete {α : Type} (src : Vol α) (tgt : Geom) (tol : Rat) (c : PadMode α)
    (hwf : WF src.geom) (hshape : ∀ i, 1 ≤ tgt.shape i) (h0 : 0 < tol) (h1 : tol ≤ 1)
    (hr : Reachable src.geom tgt) :
    ∃ r, matchGeometry src tgt tol c = .ok r ∧ (∀ i, r.geom.col i = tgt.col i) ∧ r.geom.pos = tgt.pos ∧
      (∀ i, r.geom.shape i = tgt.shape i) := by
  obtain ⟨p, first, st, hp, hst, hdir, hsp, hpos, hcs, hfor⟩ := hr
  unfold matchGeometry
  have hhead : mgHead src.geom.frameOfRef tgt.frameOfRef src.geom.cs tgt.cs = .ok true := by
    rcases mgHead_spec src.geom tgt with ⟨_, _, hh⟩ | ⟨hbad, _⟩
    · exact hh
    · rcases hbad with hb | hb
      · rw [hfor] at hb; cases hb
      · exact absurd hcs.symm hb
  rw [hhead]
  simp only []
  rw [matchAlign_reach src.geom tgt hwf tol h0 h1 p first st hst hdir hsp]
  simp only []
  obtain ⟨nv, hnv, hg⟩ := permute_step src p hp
  rw [hnv]
  simp only []
  obtain ⟨p0, p1, p2, hpl, ok0, ok1, ok2⟩ := matchPlan_reach (permuted src.geom p) tgt (hwf.permuted p hp) first st hst
    hpos hshape tol (le_of_lt h0)
  rw [hg, hpl]
  simp only []
  rw [← hg] at ok0 ok1 ok2
  obtain ⟨b, a, r, hap, hR⟩ := matchApply_reach nv c first st tgt.shape p0 p1 p2 ok0 ok1 ok2
  rw [hap]
  simp only []
  rw [hg] at hR
  obtain ⟨hcol, hposR, hshapeR, hcsR, hforR⟩ := final_geom (permuted src.geom p) tgt r.geom first st b a hdir hsp hpos hR
  have hge : geometryEqual r.geom tgt (some tol) = .ok true := by
    rw [geometryEqual_true_iff]
    refine ⟨hshapeR, ?_, ?_, ?_, ?_⟩
    · rw [hcsR, hcs]; rfl
    · have := (forConflict_false_iff src.geom tgt).mp hfor
      intro u v hu hv
      rw [hforR] at hu
      exact this u v hu hv
    · intro i; rw [hcol i]; exact vecWithin_self tol (le_of_lt h0) _
    · rw [hposR]; exact vecWithin_self tol (le_of_lt h0) _
  rw [hge]
  exact ⟨r, rfl, hcol, hposR, hshapeR⟩


/-! ## chains of operations end in the normal form -/


/-- one step of the library that changes a geometry without resampling: `permute_spatial_axes`,
`pad`, or indexing with three slices (crop of a prefix / suffix / interior, any non-zero stride;
a negative stride is a flip) -/
inductive GeomOp : Geom → Geom → Prop
  | permute (g g' : Geom) (p : Ax → Ax) (h : permuteGeom g p = .ok g') : GeomOp g g'
  | pad (g g' : Geom) (b a : Ax → Int) (h : padGeom g b a = .ok g') : GeomOp g g'
  | index (g g' : Geom) (s : Ax → Sl) (first step : Ax → Int) (h : getitemGeom g s = .ok (g', first, step)) : GeomOp g g'

/-- a finite chain of such steps -/
inductive Chain : Geom → Geom → Prop
  | refl (g : Geom) : Chain g g
  | step {g h h' : Geom} (c : Chain g h) (o : GeomOp h h') : Chain g h'

/-- invariant of a chain (implies `Reachable`) -/
def NormalForm (src tgt : Geom) : Prop :=
  ∃ (p : Ax → Ax) (first st : Ax → Int), isPerm p = true ∧ (∀ i, st i ≠ 0) ∧
    tgt.dir = (sliceGeom (permuted src p) first st tgt.shape).dir ∧
    tgt.spacing = (sliceGeom (permuted src p) first st tgt.shape).spacing ∧
    tgt.pos = (sliceGeom (permuted src p) first st tgt.shape).pos ∧
    tgt.cs = src.cs ∧ tgt.frameOfRef = src.frameOfRef

theorem NormalForm.reachable {src tgt : Geom} (h : NormalForm src tgt) : Reachable src tgt := by
  obtain ⟨p, first, st, hp, hst, hd, hs, hpos, hcs, hf⟩ := h
  refine ⟨p, first, st, hp, hst, hd, hs, hpos, hcs, ?_⟩
  unfold forConflict
  rw [hf]
  rcases src.frameOfRef with _ | u <;> simp

theorem toRef_congr (g h : Geom) (hd : g.dir = h.dir) (hs : g.spacing = h.spacing) (hp : g.pos = h.pos)
    (x : Ax → Rat) : g.toRef x = h.toRef x := by
  simp only [Geom.toRef, Geom.col, hd, hs, hp]

theorem sliceGeom_toRef_rat (g : Geom) (first step size : Ax → Int) (x : Ax → Rat) :
    (sliceGeom g first step size).toRef x = g.toRef (fun a => (first a : Rat) + (step a : Rat) * x a) := by
  have hpos : (sliceGeom g first step size).pos = g.toRef (toRat first) := rfl
  unfold Geom.toRef
  rw [sliceGeom_col, sliceGeom_col, sliceGeom_col, hpos]
  unfold Geom.toRef
  apply V3.ext' <;> simp only [V3.add, V3.smul, toRat] <;> ring

theorem isPerm_id : isPerm (id : Ax → Ax) = true := by decide

theorem isPerm_comp (p q : Ax → Ax) (hp : isPerm p = true) (hq : isPerm q = true) : isPerm (p ∘ q) = true := by
  rcases isPerm_cases p hp with ⟨h0, h1, h2⟩ | ⟨h0, h1, h2⟩ | ⟨h0, h1, h2⟩ | ⟨h0, h1, h2⟩ | ⟨h0, h1, h2⟩ | ⟨h0, h1, h2⟩ <;>
    rcases isPerm_cases q hq with ⟨k0, k1, k2⟩ | ⟨k0, k1, k2⟩ | ⟨k0, k1, k2⟩ | ⟨k0, k1, k2⟩ | ⟨k0, k1, k2⟩ | ⟨k0, k1, k2⟩ <;>
    simp [isPerm, Function.comp, h0, h1, h2, k0, k1, k2]

theorem permuted_toRef (G : Geom) (q : Ax → Ax) (hq : isPerm q = true) (x : Ax → Rat) :
    (permuted G q).toRef (fun i => x (q i)) = G.toRef x := by
  rcases isPerm_cases q hq with ⟨k0, k1, k2⟩ | ⟨k0, k1, k2⟩ | ⟨k0, k1, k2⟩ | ⟨k0, k1, k2⟩ | ⟨k0, k1, k2⟩ | ⟨k0, k1, k2⟩ <;>
    apply V3.ext' <;> simp only [permuted, Geom.toRef, Geom.col, V3.add, V3.smul, k0, k1, k2] <;> ring

theorem NormalForm.refl (g : Geom) : NormalForm g g := by
  refine ⟨id, fun _ => 0, fun _ => 1, isPerm_id, fun _ => Int.one_ne_zero, ?_, ?_, ?_, rfl, rfl⟩
  · funext i; simp [sliceGeom, permuted]
  · funext i; simp [sliceGeom, permuted]
  · show g.pos = (permuted g id).toRef (toRat fun _ => 0)
    apply V3.ext' <;> simp [permuted, Geom.toRef, Geom.col, toRat, V3.add, V3.smul]

theorem neg_neg' (d : V3) : V3.neg (V3.neg d) = d := by
  apply V3.ext' <;> simp [V3.neg]

theorem NormalForm.step {src g g' : Geom} (h : NormalForm src g) (o : GeomOp g g') : NormalForm src g' := by
  obtain ⟨p, first, st, hp, hst, hd, hs, hpos, hcs, hf⟩ := h
  have href : ∀ x : Ax → Rat, g.toRef x = (permuted src p).toRef (fun a => (first a : Rat) + (st a : Rat) * x a) := by
    intro x
    rw [toRef_congr g _ hd hs hpos x, sliceGeom_toRef_rat]
  cases o with
  | permute q hq =>
    have hqp : isPerm q = true := by
      by_contra hc; unfold permuteGeom at hq; simp [hc] at hq
    rw [permuteGeom_eq _ _ hqp] at hq
    injection hq with hq
    subst hq
    refine ⟨p ∘ q, fun i => first (q i), fun i => st (q i), isPerm_comp p q hp hqp, fun i => hst (q i), ?_, ?_, ?_, hcs, hf⟩
    · funext i
      show g.dir (q i) = _
      rw [hd]; rfl
    · funext i
      show g.spacing (q i) = _
      rw [hs]; rfl
    · show g.pos = (permuted src (p ∘ q)).toRef (toRat fun i => first (q i))
      rw [hpos]
      show (permuted src p).toRef (toRat first) = _
      have := permuted_toRef (permuted src p) q hqp (toRat first)
      rw [← this]
      rfl
  | pad b a hpad =>
    have hg' : g'.dir = g.dir ∧ g'.spacing = g.spacing ∧ g'.pos = g.toRef (fun x => -(b x : Rat)) ∧ g'.cs = g.cs ∧
        g'.frameOfRef = g.frameOfRef := by
      unfold padGeom at hpad
      split at hpad
      · cases hpad
      · injection hpad with hpad; subst hpad; exact ⟨rfl, rfl, rfl, rfl, rfl⟩
    obtain ⟨e1, e2, e3, e4, e5⟩ := hg'
    refine ⟨p, fun i => first i - st i * b i, st, hp, hst, ?_, ?_, ?_, by rw [e4, hcs], by rw [e5, hf]⟩
    · rw [e1, hd]; rfl
    · rw [e2, hs]; rfl
    · rw [e3, href]
      show _ = (permuted src p).toRef (toRat fun i => first i - st i * b i)
      congr 1
      funext i
      simp only [toRat]; push_cast; ring
  | index s f2 s2 hidx =>
    obtain ⟨size, hgeom, hax⟩ := getitemGeom_ok _ _ _ _ _ hidx
    have hs2 : ∀ i, s2 i ≠ 0 := fun i => (getitemAxis_range _ _ _ _ _ (hax i)).2.1
    subst hgeom
    refine ⟨p, fun i => first i + st i * f2 i, fun i => st i * s2 i, hp, fun i => Int.mul_ne_zero (hst i) (hs2 i),
      ?_, ?_, ?_, hcs, hf⟩
    · funext i
      show (if s2 i < 0 then V3.neg (g.dir i) else g.dir i) =
        (if st i * s2 i < 0 then V3.neg (src.dir (p i)) else src.dir (p i))
      rw [hd]
      show (if s2 i < 0 then V3.neg (if st i < 0 then V3.neg (src.dir (p i)) else src.dir (p i))
        else (if st i < 0 then V3.neg (src.dir (p i)) else src.dir (p i))) = _
      have h1 := hst i
      have h2 := hs2 i
      by_cases a1 : st i < 0 <;> by_cases a2 : s2 i < 0
      · have : ¬ (st i * s2 i < 0) := not_lt.mpr (le_of_lt (Int.mul_pos_of_neg_of_neg a1 a2))
        simp [a1, a2, this, neg_neg']
      · have : st i * s2 i < 0 := Int.mul_neg_of_neg_of_pos a1 (by omega)
        simp [a1, a2, this]
      · have : st i * s2 i < 0 := Int.mul_neg_of_pos_of_neg (by omega) a2
        simp [a1, a2, this]
      · have : ¬ (st i * s2 i < 0) := not_lt.mpr (le_of_lt (Int.mul_pos (by omega) (by omega)))
        simp [a1, a2, this]
    · funext i
      show g.spacing i * (((s2 i).natAbs : Int) : Rat) = src.spacing (p i) * (((st i * s2 i).natAbs : Int) : Rat)
      rw [hs]
      show src.spacing (p i) * (((st i).natAbs : Int) : Rat) * (((s2 i).natAbs : Int) : Rat) = _
      rw [Int.natAbs_mul]; push_cast; ring
    · show g.toRef (toRat f2) = (permuted src p).toRef (toRat fun i => first i + st i * f2 i)
      rw [href]
      congr 1
      funext i
      simp only [toRat]; push_cast; ring

theorem Chain.normalForm {src tgt : Geom} (h : Chain src tgt) : NormalForm src tgt := by
  induction h with
  | refl => exact NormalForm.refl _
  | step _ o ih => exact ih.step o


theorem Chain.shape_pos {src tgt : Geom} (h : Chain src tgt) (hs : ∀ i, 1 ≤ src.shape i) : ∀ i, 1 ≤ tgt.shape i := by
  induction h with
  | refl => exact hs
  | step _ o ih =>
    cases o with
    | permute q hq =>
      have hqp : isPerm q = true := by
        by_contra hc; unfold permuteGeom at hq; simp [hc] at hq
      rw [permuteGeom_eq _ _ hqp] at hq
      injection hq with hq
      subst hq
      intro i; exact ih (q i)
    | pad b a hpad =>
      unfold padGeom at hpad
      split at hpad
      · cases hpad
      · rename_i hneg
        injection hpad with hpad
        subst hpad
        simp only [Bool.or_eq_true, decide_eq_true_eq, not_or, not_lt] at hneg
        intro i
        have := ih i
        show 1 ≤ _ + b i + a i
        rcases ax_cases i with rfl | rfl | rfl <;> omega
    | index s f2 s2 hidx =>
      obtain ⟨size, hgeom, hax⟩ := getitemGeom_ok _ _ _ _ _ hidx
      subst hgeom
      intro i
      exact (getitemAxis_range _ _ _ _ _ (hax i)).2.2.1


/-- a well-formed geometry has a non-singular affine matrix (`det² = (s₀ s₁ s₂)²`, Gram identity) -/
theorem WF.det_ne_zero {g : Geom} (hwf : WF g) : g.aff.det ≠ 0 := by
  have h00 := hwf.orth 0 0; have h01 := hwf.orth 0 1; have h02 := hwf.orth 0 2
  have h11 := hwf.orth 1 1; have h12 := hwf.orth 1 2; have h22 := hwf.orth 2 2
  have s0 := hwf.spacing_pos 0; have s1 := hwf.spacing_pos 1; have s2 := hwf.spacing_pos 2
  simp only [V3.dot] at h00 h01 h02 h11 h12 h22
  simp at h00 h01 h02 h11 h12 h22
  intro hdet
  simp only [Geom.aff, Aff.det, Geom.col, V3.dot, V3.cross, V3.smul] at hdet
  generalize g.dir 0 = d0 at *
  generalize g.dir 1 = d1 at *
  generalize g.dir 2 = d2 at *
  obtain ⟨a0, a1, a2⟩ := d0
  obtain ⟨b0, b1, b2⟩ := d1
  obtain ⟨c0, c1, c2⟩ := d2
  simp only [] at *
  -- D = det of the unit vectors; D^2 = 1 by the Gram identity
  have hD : (a0 * (b1 * c2 - b2 * c1) + a1 * (b2 * c0 - b0 * c2) + a2 * (b0 * c1 - b1 * c0)) ^ 2 = 1 := by
    have gram : (a0 * (b1 * c2 - b2 * c1) + a1 * (b2 * c0 - b0 * c2) + a2 * (b0 * c1 - b1 * c0)) ^ 2 =
        (a0 * a0 + a1 * a1 + a2 * a2) * (b0 * b0 + b1 * b1 + b2 * b2) * (c0 * c0 + c1 * c1 + c2 * c2)
        + 2 * (a0 * b0 + a1 * b1 + a2 * b2) * (b0 * c0 + b1 * c1 + b2 * c2) * (a0 * c0 + a1 * c1 + a2 * c2)
        - (a0 * a0 + a1 * a1 + a2 * a2) * (b0 * c0 + b1 * c1 + b2 * c2) ^ 2
        - (b0 * b0 + b1 * b1 + b2 * b2) * (a0 * c0 + a1 * c1 + a2 * c2) ^ 2
        - (c0 * c0 + c1 * c1 + c2 * c2) * (a0 * b0 + a1 * b1 + a2 * b2) ^ 2 := by ring
    rw [gram, h00, h01, h02, h11, h12, h22]; norm_num
  have hprod : g.spacing 0 * g.spacing 1 * g.spacing 2 *
      (a0 * (b1 * c2 - b2 * c1) + a1 * (b2 * c0 - b0 * c2) + a2 * (b0 * c1 - b1 * c0)) = 0 := by
    rw [← hdet]; ring
  have hs : g.spacing 0 * g.spacing 1 * g.spacing 2 ≠ 0 := by positivity
  have hDz : (a0 * (b1 * c2 - b2 * c1) + a1 * (b2 * c0 - b0 * c2) + a2 * (b0 * c1 - b1 * c0)) = 0 := by
    rcases mul_eq_zero.mp hprod with h | h
    · exact absurd h hs
    · exact h
  rw [hDz] at hD
  norm_num at hD



theorem Chain.trans {a b c : Geom} (h1 : Chain a b) (h2 : Chain b c) : Chain a c := by
  induction h2 with
  | refl => exact h1
  | step _ o ih => exact ih.step o

theorem permute_geom {α : Type} (v w : Vol α) (p : Ax → Ax) (h : permute v p = .ok w) :
    permuteGeom v.geom p = .ok w.geom := by
  unfold permute at h
  cases hg : permuteGeom v.geom p with
  | error e => simp [hg] at h
  | ok g =>
    simp only [hg] at h
    injection h with h
    subst h
    rfl

theorem matchApply_chain {α : Type} (nv r : Vol α) (pl : AxisPlan × AxisPlan × AxisPlan) (c : PadMode α)
    (h : matchApply nv pl c = .ok r) : Chain nv.geom r.geom := by
  unfold matchApply at h
  cases hpad : (if pl.2.2.requiresPad then
           pad nv (mk3 pl.1.before pl.2.1.before pl.2.2.before) (mk3 pl.1.after pl.2.1.after pl.2.2.after) c
         else .ok nv) with
  | error e => simp [hpad] at h
  | ok nv1 =>
    simp only [hpad] at h
    have h1 : Chain nv.geom nv1.geom := by
      by_cases hrp : pl.2.2.requiresPad = true
      · rw [if_pos hrp] at hpad
        exact (Chain.refl _).step (GeomOp.pad _ _ _ _ (pad_prov _ _ _ _ _ hpad).2)
      · rw [if_neg hrp] at hpad
        injection hpad with hpad
        subst hpad
        exact Chain.refl _
    by_cases hrc : pl.2.2.requiresCrop = true
    · rw [if_pos hrc] at h
      obtain ⟨first, step, hg, _⟩ := getitem_sub _ _ _ h
      exact h1.step (GeomOp.index _ _ _ _ _ hg)
    · rw [if_neg hrc] at h
      injection h with h
      subst h
      exact h1

/-- whatever `matchGeometry` returns is obtained from the source by permute / pad / index steps -/
theorem matchGeometry_chain {α : Type} (src : Vol α) (tgt : Geom) (tol : Rat) (c : PadMode α) (r : Vol α)
    (h : matchGeometry src tgt tol c = .ok r) : Chain src.geom r.geom := by
  obtain ⟨_, _, p, steps, nv, pl, _, hp, _, hap, _⟩ := matchGeometry_ok src tgt tol c r h
  have h2 := matchApply_chain nv r pl c hap
  have h1 : Chain src.geom nv.geom := by
    by_cases hrp : requiresPermute p = true
    · rw [if_pos hrp] at hp
      exact (Chain.refl _).step (GeomOp.permute _ _ _ (permute_geom _ _ _ hp))
    · rw [if_neg hrp] at hp
      injection hp with hp
      subst hp
      exact Chain.refl _
  exact h1.trans h2


/-! ## tolerances above 1 -/


/-- Cauchy–Schwarz for unit vectors (Lagrange identity) -/
theorem dot_unit_bounds (a b : V3) (ha : V3.dot a a = 1) (hb : V3.dot b b = 1) :
    -1 ≤ V3.dot a b ∧ V3.dot a b ≤ 1 := by
  obtain ⟨a0, a1, a2⟩ := a
  obtain ⟨b0, b1, b2⟩ := b
  simp only [V3.dot] at *
  have lag : (a0 * b0 + a1 * b1 + a2 * b2) ^ 2 =
      (a0 * a0 + a1 * a1 + a2 * a2) * (b0 * b0 + b1 * b1 + b2 * b2)
      - ((a1 * b2 - a2 * b1) ^ 2 + (a2 * b0 - a0 * b2) ^ 2 + (a0 * b1 - a1 * b0) ^ 2) := by ring
  rw [ha, hb] at lag
  have hsq : (a0 * b0 + a1 * b1 + a2 * b2) ^ 2 ≤ 1 := by
    rw [lag]
    nlinarith [sq_nonneg (a1 * b2 - a2 * b1), sq_nonneg (a2 * b0 - a0 * b2), sq_nonneg (a0 * b1 - a1 * b0)]
  constructor <;> nlinarith [hsq]

/-- with a tolerance above 1 the alignment test accepts *every* pair of unit vectors (and the
"integer scale" test can no longer fail: a number is never further than 1/2 from its rounding) -/
theorem mgAlign_tol_gt_one (d s t tol : Rat) (h : 1 < tol) (hd : -1 ≤ d ∧ d ≤ 1) :
    ∃ st, mgAlign d s t tol = .ok (true, st) := by
  unfold mgAlign
  obtain ⟨b1, b2⟩ := roundHalfEven_bounds (s / t)
  simp only [int_trunc]
  have c0 : (decide ((if d - 1 / 1 < 0 then -(d - 1 / 1) else d - 1 / 1) < tol) ||
      decide ((if d + 1 / 1 < 0 then -(d + 1 / 1) else d + 1 / 1) < tol)) = true := by
    rw [Bool.or_eq_true, decide_eq_true_eq, decide_eq_true_eq]
    by_cases hpos : 0 ≤ d
    · left
      split <;> norm_num <;> linarith [hd.1, hd.2]
    · right
      have hneg : d < 0 := not_le.mp hpos
      split <;> norm_num <;> linarith [hd.1, hd.2]
  have c4 : decide ((if s / t - ((roundHalfEven (s / t) : Int) : Rat) < 0 then -(s / t - ((roundHalfEven (s / t) : Int) : Rat))
      else s / t - ((roundHalfEven (s / t) : Int) : Rat)) > tol) = false := by
    rw [decide_eq_false_iff_not]
    split <;> linarith
  simp only [c0, c4]
  exact ⟨_, rfl⟩

/-- unit vectors: what `unit_vectors()` returns -/
def UnitDirs (g : Geom) : Prop := ∀ a, V3.dot (g.dir a) (g.dir a) = 1

theorem alignAxis_tol_gt_one (src : Geom) (hs : UnitDirs src) (u : V3) (hu : V3.dot u u = 1) (s tol : Rat) (h : 1 < tol) :
    ∃ st, alignAxis src u s tol = .ok (0, st) := by
  obtain ⟨st, hst⟩ := mgAlign_tol_gt_one (V3.dot u (src.dir 0)) s (src.spacing 0) tol h (dot_unit_bounds _ _ hu (hs 0))
  unfold alignAxis
  rw [hst]
  exact ⟨st, rfl⟩

/-- **tolerances above 1**: the alignment loops send all three target axes to source axis 0, so
`permute_spatial_axes([0, 0, 0])` raises ValueError — for every source and every target, the source
itself included -/
theorem matchGeometry_tol_gt_one {α : Type} (src : Vol α) (tgt : Geom) (tol : Rat) (mode : PadMode α) (h : 1 < tol)
    (hs : UnitDirs src.geom) (ht : UnitDirs tgt) (hfor : forConflict src.geom tgt = false) (hcs : src.geom.cs = tgt.cs) :
    matchGeometry src tgt tol mode = .error .value := by
  unfold matchGeometry
  have hhead : mgHead src.geom.frameOfRef tgt.frameOfRef src.geom.cs tgt.cs = .ok true := by
    rcases mgHead_spec src.geom tgt with ⟨_, _, hh⟩ | ⟨hbad, _⟩
    · exact hh
    · rcases hbad with hb | hb
      · rw [hfor] at hb; cases hb
      · exact absurd hcs hb
  rw [hhead]
  simp only []
  obtain ⟨s0, h0⟩ := alignAxis_tol_gt_one src.geom hs (tgt.dir 0) (ht 0) (tgt.spacing 0) tol h
  obtain ⟨s1, h1⟩ := alignAxis_tol_gt_one src.geom hs (tgt.dir 1) (ht 1) (tgt.spacing 1) tol h
  obtain ⟨s2, h2⟩ := alignAxis_tol_gt_one src.geom hs (tgt.dir 2) (ht 2) (tgt.spacing 2) tol h
  unfold matchAlign
  rw [h0, h1, h2]
  simp only []
  have hreq : requiresPermute (mk3 (0 : Ax) 0 0) = true := by decide
  have hperm : isPerm (mk3 (0 : Ax) 0 0) = false := by decide
  rw [if_pos hreq]
  unfold permute permuteGeom
  simp [hperm]


/-! ## 4×4 matrices: product, inverse -/


theorem fin4_cases (i : Fin 4) : i = 0 ∨ i = 1 ∨ i = 2 ∨ i = 3 := by
  rcases i with ⟨v, hv⟩
  have : v = 0 ∨ v = 1 ∨ v = 2 ∨ v = 3 := by omega
  rcases this with rfl | rfl | rfl | rfl
  · left; rfl
  · right; left; rfl
  · right; right; left; rfl
  · right; right; right; rfl

theorem M4.mul_assoc (A B C : M4) : (A.mul B).mul C = A.mul (B.mul C) := by
  funext i j; simp only [M4.mul]; ring

theorem M4.one_mul (A : M4) : M4.one.mul A = A := by
  funext i j
  rcases fin4_cases i with rfl | rfl | rfl | rfl <;> simp [M4.mul, M4.one]

theorem M4.mul_one (A : M4) : A.mul M4.one = A := by
  funext i j
  rcases fin4_cases j with rfl | rfl | rfl | rfl <;> simp [M4.mul, M4.one]

/-- the 4×4 product of two affine matrices is the affine matrix of the composition -/
theorem Aff.hom_comp (A B : Aff) : (A.comp B).hom = A.hom.mul B.hom := by
  funext i j
  rcases fin4_cases i with rfl | rfl | rfl | rfl <;> rcases fin4_cases j with rfl | rfl | rfl | rfl <;>
    simp [Aff.hom, Aff.comp, Aff.lin, Aff.apply, M4.mul, V3.col4, V3.add, V3.smul] <;> ring

theorem Aff.hom_applyPt (A : Aff) (v : V3) : A.hom.applyPt v = A.apply v := by
  apply V3.ext' <;> simp [M4.applyPt, Aff.hom, V3.col4, Aff.apply, Aff.lin, V3.add, V3.smul] <;> ring

def Aff.ident : Aff := ⟨⟨1, 0, 0⟩, ⟨0, 1, 0⟩, ⟨0, 0, 1⟩, ⟨0, 0, 0⟩⟩

theorem Aff.hom_ident : Aff.ident.hom = M4.one := by
  funext i j
  rcases fin4_cases i with rfl | rfl | rfl | rfl <;> rcases fin4_cases j with rfl | rfl | rfl | rfl <;>
    simp [Aff.hom, Aff.ident, M4.one, V3.col4]

/-- an affine map is determined by its values -/
theorem Aff.ext_apply (A B : Aff) (h : ∀ v, A.apply v = B.apply v) : A = B := by
  have h0 := h ⟨0, 0, 0⟩
  have h1 := h ⟨1, 0, 0⟩
  have h2 := h ⟨0, 1, 0⟩
  have h3 := h ⟨0, 0, 1⟩
  obtain ⟨⟨a0, a1, a2⟩, ⟨b0, b1, b2⟩, ⟨c0, c1, c2⟩, ⟨t0, t1, t2⟩⟩ := A
  obtain ⟨⟨a0', a1', a2'⟩, ⟨b0', b1', b2'⟩, ⟨c0', c1', c2'⟩, ⟨t0', t1', t2'⟩⟩ := B
  simp only [Aff.apply, Aff.lin, V3.add, V3.smul, V3.mk.injEq] at h0 h1 h2 h3
  simp only [Aff.mk.injEq, V3.mk.injEq]
  obtain ⟨p0, p1, p2⟩ := h0
  obtain ⟨q0, q1, q2⟩ := h1
  obtain ⟨r0, r1, r2⟩ := h2
  obtain ⟨s0, s1, s2⟩ := h3
  refine ⟨⟨?_, ?_, ?_⟩, ⟨?_, ?_, ?_⟩, ⟨?_, ?_, ?_⟩, ⟨?_, ?_, ?_⟩⟩ <;> linarith

/-- the model's inverse, as a 4×4 matrix, is a two-sided inverse of the 4×4 affine matrix -/
theorem Aff.hom_inv {A B : Aff} (h : A.inv = .ok B) : B.hom.mul A.hom = M4.one ∧ A.hom.mul B.hom = M4.one := by
  have e1 : B.comp A = Aff.ident := by
    apply Aff.ext_apply
    intro v
    rw [Aff.comp_apply, Aff.inv_left h]
    apply V3.ext' <;> simp [Aff.ident, Aff.apply, Aff.lin, V3.add, V3.smul]
  have e2 : A.comp B = Aff.ident := by
    apply Aff.ext_apply
    intro v
    rw [Aff.comp_apply, Aff.inv_right h]
    apply V3.ext' <;> simp [Aff.ident, Aff.apply, Aff.lin, V3.add, V3.smul]
  constructor
  · rw [← Aff.hom_comp, e1, Aff.hom_ident]
  · rw [← Aff.hom_comp, e2, Aff.hom_ident]

/-- **any** 4×4 matrix that inverts the affine matrix from the left (or from the right) — in
particular what `np.linalg.inv` returns — *is* the affine matrix of the model's inverse -/
theorem Aff.inv4_unique {A B : Aff} (h : A.inv = .ok B) (M : M4) (hM : M.mul A.hom = M4.one ∨ A.hom.mul M = M4.one) :
    M = B.hom := by
  obtain ⟨hl, hr⟩ := Aff.hom_inv h
  rcases hM with hM | hM
  · calc M = M.mul M4.one := (M4.mul_one M).symm
      _ = M.mul (A.hom.mul B.hom) := by rw [hr]
      _ = (M.mul A.hom).mul B.hom := (M4.mul_assoc _ _ _).symm
      _ = B.hom := by rw [hM, M4.one_mul]
  · calc M = M4.one.mul M := (M4.one_mul M).symm
      _ = (B.hom.mul A.hom).mul M := by rw [hl]
      _ = B.hom.mul (A.hom.mul M) := M4.mul_assoc _ _ _
      _ = B.hom := by rw [hM, M4.mul_one]


/-! ## the staged model follows the order of operations found in the source (TC09f) -/


section steps
variable {α : Type} (src tgt : Geom) (tol : Rat) (mode : PadMode α)

theorem runMatch_nil (s : MgState α) : runMatch src tgt tol mode [] s = .ok s := rfl

theorem runMatch_cons (op : MgOp) (g : Bool → Bool → Bool → Bool) (rest : List (MgOp × (Bool → Bool → Bool → Bool)))
    (s : MgState α) :
    runMatch src tgt tol mode ((op, g) :: rest) s =
      if g s.requiresPermute s.requiresPad s.requiresCrop then
        bindE (mgStep src tgt tol mode s op) (runMatch src tgt tol mode rest)
      else runMatch src tgt tol mode rest s := rfl

theorem mgStep_head (s : MgState α) : mgStep src tgt tol mode s .head =
    bindE (mgHead src.frameOfRef tgt.frameOfRef src.cs tgt.cs) (fun _ => .ok s) := rfl
theorem mgStep_align (s : MgState α) : mgStep src tgt tol mode s .align =
    bindE (matchAlign s.vol.geom tgt tol) (fun a => .ok ⟨s.vol, some a, s.plan⟩) := rfl
theorem mgStep_permute (v : Vol α) (a : (Ax → Ax) × (Ax → Int)) (pl : Option (AxisPlan × AxisPlan × AxisPlan)) :
    mgStep src tgt tol mode ⟨v, some a, pl⟩ .permute = bindE (permute v a.1) (fun w => .ok ⟨w, some a, pl⟩) := rfl
theorem mgStep_plan (v : Vol α) (a : (Ax → Ax) × (Ax → Int)) (pl : Option (AxisPlan × AxisPlan × AxisPlan)) :
    mgStep src tgt tol mode ⟨v, some a, pl⟩ .plan =
      bindE (matchPlan v.geom tgt a.2 tol) (fun p => .ok ⟨v, some a, some p⟩) := rfl
theorem mgStep_pad (v : Vol α) (al : Option ((Ax → Ax) × (Ax → Int))) (pl : AxisPlan × AxisPlan × AxisPlan) :
    mgStep src tgt tol mode ⟨v, al, some pl⟩ .pad =
      bindE (pad v (mk3 pl.1.before pl.2.1.before pl.2.2.before) (mk3 pl.1.after pl.2.1.after pl.2.2.after) mode)
        (fun w => .ok ⟨w, al, some pl⟩) := rfl
theorem mgStep_crop (v : Vol α) (al : Option ((Ax → Ax) × (Ax → Int))) (pl : AxisPlan × AxisPlan × AxisPlan) :
    mgStep src tgt tol mode ⟨v, al, some pl⟩ .crop =
      bindE (getitem v (mk3 pl.1.sl pl.2.1.sl pl.2.2.sl)) (fun w => .ok ⟨w, al, some pl⟩) := rfl
theorem mgStep_final (s : MgState α) : mgStep src tgt tol mode s .finalCheck =
    bindE (geometryEqual s.vol.geom tgt (some tol)) (fun eq => if eq then .ok s else .error .runtime) := rfl
theorem runMatch_copy (rest : List (MgOp × (Bool → Bool → Bool → Bool))) (g : Bool → Bool → Bool → Bool) (st : MgState α) :
    runMatch src tgt tol mode ((.copy, g) :: rest) st = runMatch src tgt tol mode rest st := by
  rw [runMatch_cons]
  split <;> rfl
end steps

theorem bindE_error {β γ : Type} (e : ErrKind) (f : β → Except ErrKind γ) : bindE (.error e) f = .error e := rfl
theorem bindE_ok {β γ : Type} (b : β) (f : β → Except ErrKind γ) : bindE (.ok b) f = f b := rfl

/-- the staged definition written with `bindE` -/
theorem matchGeometry_eq_bind {α : Type} (src : Vol α) (tgt : Geom) (tol : Rat) (mode : PadMode α) :
    matchGeometry src tgt tol mode =
      bindE (mgHead src.geom.frameOfRef tgt.frameOfRef src.geom.cs tgt.cs) (fun _ =>
      bindE (matchAlign src.geom tgt tol) (fun a =>
      bindE (if requiresPermute a.1 then permute src a.1 else .ok src) (fun nv =>
      bindE (matchPlan nv.geom tgt a.2 tol) (fun pl =>
      bindE (matchApply nv pl mode) (fun r =>
      bindE (geometryEqual r.geom tgt (some tol)) (fun eq => if eq then .ok r else .error .runtime)))))) := by
  unfold matchGeometry
  cases h1 : mgHead src.geom.frameOfRef tgt.frameOfRef src.geom.cs tgt.cs with
  | error e => simp only [bindE_error]
  | ok b =>
    simp only [bindE_ok]
    cases h2 : matchAlign src.geom tgt tol with
    | error e => simp only [bindE_error]
    | ok a =>
      obtain ⟨p, steps⟩ := a
      simp only [bindE_ok]
      cases h3 : (if requiresPermute p then permute src p else .ok src) with
      | error e => simp only [bindE_error]
      | ok nv =>
        simp only [bindE_ok]
        cases h4 : matchPlan nv.geom tgt steps tol with
        | error e => simp only [bindE_error]
        | ok pl =>
          simp only [bindE_ok]
          cases h5 : matchApply nv pl mode with
          | error e => simp only [bindE_error]
          | ok r =>
            simp only [bindE_ok]
            cases h6 : geometryEqual r.geom tgt (some tol) with
            | error e => simp only [bindE_error]
            | ok b => cases b <;> simp [bindE_ok]

theorem matchApply_eq_bind {α : Type} (nv : Vol α) (pl : AxisPlan × AxisPlan × AxisPlan) (mode : PadMode α) :
    matchApply nv pl mode =
      bindE (if pl.2.2.requiresPad then
          pad nv (mk3 pl.1.before pl.2.1.before pl.2.2.before) (mk3 pl.1.after pl.2.1.after pl.2.2.after) mode
        else .ok nv)
        (fun nv1 => if pl.2.2.requiresCrop then getitem nv1 (mk3 pl.1.sl pl.2.1.sl pl.2.2.sl) else .ok nv1) := by
  unfold matchApply
  cases (if pl.2.2.requiresPad then
          pad nv (mk3 pl.1.before pl.2.1.before pl.2.2.before) (mk3 pl.1.after pl.2.1.after pl.2.2.after) mode
        else .ok nv) with
  | error e => simp only [bindE_error]
  | ok nv1 => simp only [bindE_ok]

/-- the last four operations (copy, pad, crop, final comparison) from a state that has a plan -/
theorem runMatch_tail {α : Type} (src tgt : Geom) (tol : Rat) (mode : PadMode α) (vol : Vol α)
    (al : Option ((Ax → Ax) × (Ax → Int))) (pl : AxisPlan × AxisPlan × AxisPlan) :
    bindE (runMatch src tgt tol mode
        [(.copy, fun requires_permute requires_pad requires_crop => (!(requires_permute || requires_pad || requires_crop))),
         (.pad, fun requires_permute requires_pad requires_crop => requires_pad),
         (.crop, fun requires_permute requires_pad requires_crop => requires_crop),
         (.finalCheck, fun requires_permute requires_pad requires_crop => true)] ⟨vol, al, some pl⟩) (fun s => .ok s.vol) =
    bindE (matchApply vol pl mode) (fun r =>
      bindE (geometryEqual r.geom tgt (some tol)) (fun eq => if eq then .ok r else .error .runtime)) := by
  have hfinal : ∀ v : Vol α, bindE (runMatch src tgt tol mode
        [(.finalCheck, fun requires_permute requires_pad requires_crop => true)] ⟨v, al, some pl⟩) (fun s => .ok s.vol) =
      bindE (geometryEqual v.geom tgt (some tol)) (fun eq => if eq then .ok v else .error .runtime) := by
    intro v
    rw [runMatch_cons]
    simp only [if_true]
    rw [mgStep_final]
    cases geometryEqual v.geom tgt (some tol) with
    | error e => simp only [bindE_error]
    | ok b => cases b <;> simp [bindE_ok, bindE_error, runMatch_nil]
  obtain ⟨p0, p1, ⟨sl2, bf2, af2, rc, rp⟩⟩ := pl
  rw [runMatch_copy, matchApply_eq_bind, runMatch_cons]
  cases rp <;> cases rc
  · simp only [MgState.requiresPad, Bool.false_eq_true, if_false, bindE_ok]
    rw [runMatch_cons]
    simp only [MgState.requiresCrop, Bool.false_eq_true, if_false]
    rw [hfinal]
  · simp only [MgState.requiresPad, Bool.false_eq_true, if_false, bindE_ok]
    rw [runMatch_cons]
    simp only [MgState.requiresCrop, if_true]
    rw [mgStep_crop]
    cases getitem vol (mk3 p0.sl p1.sl sl2) with
    | error e => simp only [bindE_error]
    | ok r => simp only [bindE_ok]; rw [hfinal]
  · simp only [MgState.requiresPad, if_true]
    rw [mgStep_pad]
    cases pad vol (mk3 p0.before p1.before bf2) (mk3 p0.after p1.after af2) mode with
    | error e => simp only [bindE_error]
    | ok nv1 =>
      simp only [bindE_ok]
      rw [runMatch_cons]
      simp only [MgState.requiresCrop, Bool.false_eq_true, if_false]
      rw [hfinal, bindE_ok]
  · simp only [MgState.requiresPad, if_true]
    rw [mgStep_pad]
    cases pad vol (mk3 p0.before p1.before bf2) (mk3 p0.after p1.after af2) mode with
    | error e => simp only [bindE_error]
    | ok nv1 =>
      simp only [bindE_ok]
      rw [runMatch_cons]
      simp only [MgState.requiresCrop, if_true]
      rw [mgStep_crop]
      cases getitem nv1 (mk3 p0.sl p1.sl sl2) with
      | error e => simp only [bindE_error]
      | ok r => simp only [bindE_ok]; rw [hfinal]

/-- **the hand model performs exactly the operations found in the source, in their order**: running
the regenerated list `Gen.mgSteps` (operations and guards extracted from the AST of `match_geometry`)
is the staged definition `matchGeometry` all theorems are about -/
theorem match_follows {α : Type} (src : Vol α) (tgt : Geom) (tol : Rat) (mode : PadMode α) :
    matchBySource src tgt tol mode = matchGeometry src tgt tol mode := by
  rw [matchGeometry_eq_bind]
  unfold matchBySource mgSteps
  rw [runMatch_cons]
  simp only [if_true]
  rw [mgStep_head]
  cases mgHead src.geom.frameOfRef tgt.frameOfRef src.geom.cs tgt.cs with
  | error e => simp only [bindE_error]
  | ok b =>
    simp only [bindE_ok]
    rw [runMatch_cons]
    simp only [if_true]
    rw [mgStep_align]
    cases matchAlign src.geom tgt tol with
    | error e => simp only [bindE_error]
    | ok a =>
      simp only [bindE_ok]
      rw [runMatch_cons]
      simp only [MgState.requiresPermute]
      by_cases hrp : requiresPermute a.1 = true
      · simp only [hrp, if_true]
        rw [mgStep_permute]
        cases permute src a.1 with
        | error e => simp only [bindE_error]
        | ok nv =>
          simp only [bindE_ok]
          rw [runMatch_cons]
          simp only [if_true]
          rw [mgStep_plan]
          cases matchPlan nv.geom tgt a.2 tol with
          | error e => simp only [bindE_error]
          | ok pl =>
            simp only [bindE_ok]
            rw [runMatch_tail]
      · have hrp' : requiresPermute a.1 = false := by simpa using hrp
        simp only [hrp', Bool.false_eq_true, if_false, bindE_ok]
        rw [runMatch_cons]
        simp only [if_true]
        rw [mgStep_plan]
        cases matchPlan src.geom tgt a.2 tol with
        | error e => simp only [bindE_error]
        | ok pl =>
          simp only [bindE_ok]
          rw [runMatch_tail]

theorem v2v_follows (fromA toA : Aff) (shape : Ax → Int) (dt : PtDtype) (roundOut check : Bool) (pts : List V3) :
    v2vBySource fromA toA shape dt roundOut check pts = v2v fromA toA shape dt roundOut check pts := by
  unfold v2vBySource v2v
  simp only [v2vSteps, runIdx, idxStep]
  cases hinv : toA.inv with
  | error e => rfl
  | ok inv =>
    simp only []
    have hmap : (if roundOut = true then List.map roundV (List.map (inv.comp fromA).apply pts)
        else List.map (inv.comp fromA).apply pts) =
        List.map (fun p => if roundOut = true then roundV ((inv.comp fromA).apply p) else (inv.comp fromA).apply p) pts := by
      cases roundOut <;> simp [List.map_map]
    rw [hmap]
    cases v2vCast dt roundOut
        (List.map (fun p => if roundOut = true then roundV ((inv.comp fromA).apply p) else (inv.comp fromA).apply p) pts) with
    | error e => rfl
    | ok out =>
      simp only [bindE]
      cases check with
      | false => rfl
      | true =>
        simp only [if_true]
        cases boundsFail v2vBoundsAxis shape out with
        | error e => rfl
        | ok b => cases b <;> rfl

theorem refToIdx_follows (A : Aff) (shape : Ax → Int) (roundOut check : Bool) (pts : List V3) :
    refToIdxBySource A shape roundOut check pts = refToIdx A shape roundOut check pts := by
  unfold refToIdxBySource refToIdx
  simp only [refIdxSteps, runIdx, idxStep]
  cases hinv : A.inv with
  | error e => rfl
  | ok inv =>
    simp only []
    cases check with
    | false => rfl
    | true =>
      simp only [if_true]
      cases boundsFail refBoundsAxis shape (List.map inv.apply pts) with
      | error e => rfl
      | ok b => cases b <;> rfl


/-! ## the cast of the transformer's results (dtype of the index array) -/


theorem wrapInt_id (lo hi v : Int) (h1 : lo ≤ v) (h2 : v ≤ hi) : wrapInt lo hi v = v := by
  unfold wrapInt
  rw [Int.emod_eq_of_lt (by omega) (by omega)]
  omega

theorem minL_le (xs : List Rat) (m : Rat) : minL xs m ≤ m ∧ ∀ x ∈ xs, minL xs m ≤ x := by
  have h := (minL_lt_iff xs m (minL xs m)).not.mp (lt_irrefl _)
  rw [not_or] at h
  exact ⟨not_lt.mp h.1, fun x hx => not_lt.mp (fun hlt => h.2 ⟨x, hx, hlt⟩)⟩

theorem le_maxL (xs : List Rat) (m : Rat) : m ≤ maxL xs m ∧ ∀ x ∈ xs, x ≤ maxL xs m := by
  have h := (lt_maxL_iff xs m (maxL xs m)).not.mp (lt_irrefl _)
  rw [not_or] at h
  exact ⟨not_lt.mp h.1, fun x hx => not_lt.mp (fun hlt => h.2 ⟨x, hx, hlt⟩)⟩

theorem minAll_le (out : List V3) (q : V3) (hq : q ∈ out) : minAll out ≤ q.x ∧ minAll out ≤ q.y ∧ minAll out ≤ q.z := by
  cases out with
  | nil => cases hq
  | cons p ps =>
    obtain ⟨h0, h⟩ := minL_le ((p :: ps).map (·.y) ++ (p :: ps).map (·.z) ++ ps.map (·.x)) p.x
    simp only [minAll]
    refine ⟨?_, ?_, ?_⟩
    · rcases List.mem_cons.mp hq with rfl | hq'
      · exact h0
      · exact h _ (by simp only [List.mem_append, List.mem_map]; exact Or.inr ⟨q, hq', rfl⟩)
    · exact h _ (by simp only [List.mem_append, List.mem_map]; exact Or.inl (Or.inl ⟨q, hq, rfl⟩))
    · exact h _ (by simp only [List.mem_append, List.mem_map]; exact Or.inl (Or.inr ⟨q, hq, rfl⟩))

theorem le_maxAll (out : List V3) (q : V3) (hq : q ∈ out) : q.x ≤ maxAll out ∧ q.y ≤ maxAll out ∧ q.z ≤ maxAll out := by
  cases out with
  | nil => cases hq
  | cons p ps =>
    obtain ⟨h0, h⟩ := le_maxL ((p :: ps).map (·.y) ++ (p :: ps).map (·.z) ++ ps.map (·.x)) p.x
    simp only [maxAll]
    refine ⟨?_, ?_, ?_⟩
    · rcases List.mem_cons.mp hq with rfl | hq'
      · exact h0
      · exact h _ (by simp only [List.mem_append, List.mem_map]; exact Or.inr ⟨q, hq', rfl⟩)
    · exact h _ (by simp only [List.mem_append, List.mem_map]; exact Or.inl (Or.inl ⟨q, hq, rfl⟩))
    · exact h _ (by simp only [List.mem_append, List.mem_map]; exact Or.inl (Or.inr ⟨q, hq, rfl⟩))

/-- every rounded result is an index that int64 can hold (|index| < 2^63) -/
def FitsInt64 (ys : List V3) : Prop :=
  ∀ y ∈ ys, (int64Lo ≤ roundHalfEven y.x ∧ roundHalfEven y.x ≤ int64Hi) ∧
    (int64Lo ≤ roundHalfEven y.y ∧ roundHalfEven y.y ≤ int64Hi) ∧ (int64Lo ≤ roundHalfEven y.z ∧ roundHalfEven y.z ≤ int64Hi)

theorem castIntV_roundV (lo hi : Int) (y : V3)
    (h : (lo ≤ roundHalfEven y.x ∧ roundHalfEven y.x ≤ hi) ∧ (lo ≤ roundHalfEven y.y ∧ roundHalfEven y.y ≤ hi) ∧
      (lo ≤ roundHalfEven y.z ∧ roundHalfEven y.z ≤ hi)) : castIntV lo hi (roundV y) = roundV y := by
  unfold castIntV roundV
  simp only [Rat.floor_intCast]
  rw [wrapInt_id _ _ _ h.1.1 h.1.2, wrapInt_id _ _ _ h.2.1.1 h.2.1.2, wrapInt_id _ _ _ h.2.2.1 h.2.2.2]

theorem keepInput_spec (isInt : Bool) (size : Int) (mn mx : Rat) (lo hi : Int) :
    ∃ k, v2vKeepInputType isInt size mn mx lo hi = .ok k ∧
      (k = true → size = 0 ∨ ((lo : Rat) ≤ mn ∧ mx ≤ (hi : Rat))) := by
  unfold v2vKeepInputType
  refine ⟨_, rfl, ?_⟩
  cases isInt <;> simp only [Bool.false_eq_true, if_false, if_true]
  · intro h; cases h
  · intro h
    split at h
    · rename_i h2
      simp only [Bool.or_eq_true, Bool.and_eq_true, beq_iff_eq, decide_eq_true_eq, ge_iff_le] at h2
      exact h2
    · cases h

/-- **no wrap-around**: rounded results that int64 can hold come back unchanged, whatever the dtype of
the index array (however narrow, signed or unsigned) -/
theorem v2vCast_round (dt : PtDtype) (ys : List V3) (hfit : FitsInt64 ys) :
    v2vCast dt true (ys.map roundV) = .ok (ys.map roundV) := by
  unfold v2vCast v2vInputIsInt
  simp only [if_true, bindE]
  obtain ⟨k, hk, hspec⟩ := keepInput_spec (dt.kind == "i" || dt.kind == "u") (3 * ((ys.map roundV).length : Int))
    (minAll (ys.map roundV)) (maxAll (ys.map roundV)) dt.lo dt.hi
  rw [hk]
  simp only []
  congr 1
  cases k with
  | true =>
    simp only [if_true]
    rw [List.map_map]
    apply List.map_congr_left
    intro y hy
    simp only [Function.comp]
    apply castIntV_roundV
    have hmem : roundV y ∈ ys.map roundV := List.mem_map.mpr ⟨y, hy, rfl⟩
    obtain ⟨a1, a2, a3⟩ := minAll_le _ _ hmem
    obtain ⟨b1, b2, b3⟩ := le_maxAll _ _ hmem
    have hne : ¬ (3 * ((ys.map roundV).length : Int) = 0) := by
      cases ys with
      | nil => cases hy
      | cons _ _ => simp only [List.map_cons, List.length_cons]; omega
    rcases hspec rfl with h0 | ⟨hlo, hhi⟩
    · exact absurd h0 hne
    · simp only [roundV] at a1 a2 a3 b1 b2 b3
      refine ⟨⟨?_, ?_⟩, ⟨?_, ?_⟩, ⟨?_, ?_⟩⟩
      · exact_mod_cast le_trans hlo a1
      · exact_mod_cast le_trans b1 hhi
      · exact_mod_cast le_trans hlo a2
      · exact_mod_cast le_trans b2 hhi
      · exact_mod_cast le_trans hlo a3
      · exact_mod_cast le_trans b3 hhi
  | false =>
    simp only [Bool.false_eq_true, if_false]
    rw [List.map_map]
    apply List.map_congr_left
    intro y hy
    simp only [Function.comp]
    exact castIntV_roundV _ _ _ (hfit y hy)

theorem v2vCast_unrounded (dt : PtDtype) (out : List V3) :
    v2vCast dt false out = .ok (if dt.kind == "f" then out.map (narrowV dt.narrow) else out) := by
  unfold v2vCast v2vCastBack
  simp only [Bool.false_eq_true, if_false, bindE]


end HdVerif.Match
