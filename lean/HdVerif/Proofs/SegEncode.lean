import HdVerif.Model.SegEncode
import HdVerif.Proofs.Bits
import HdVerif.Proofs.FrameAccess
import HdVerif.Proofs.RatFloor
/-! Helper lemmas for C01. -/
namespace HdVerif.SegEncodeLemmas
open HdVerif HdVerif.Bits HdVerif.Gen HdVerif.FrameAccess HdVerif.FrameAccessLemmas HdVerif.SegEncode

/-! ## mapE / foldE / findKey -/

theorem foldE_ok {σ α ε} (f : σ → α → Except ε σ) (g : σ → α → σ) (h : ∀ s a, f s a = .ok (g s a))
    (s : σ) (l : List α) : foldE f s l = .ok (l.foldl g s) := by
  induction l generalizing s with
  | nil => rfl
  | cons a as ih => simp [foldE, h, ih]

theorem mapE_ok_of_forall {α β ε} (f : α → Except ε β) (g : α → β) (l : List α)
    (h : ∀ a ∈ l, f a = .ok (g a)) : mapE f l = .ok (l.map g) := by
  induction l with
  | nil => rfl
  | cons a as ih =>
    simp only [mapE, h a (by simp), ih (fun b hb => h b (by simp [hb])), List.map_cons]

theorem mapE_ok_inv {α β ε} (f : α → Except ε β) (l : List α) (r : List β) (h : mapE f l = .ok r) :
    r.length = l.length ∧ ∀ i (hi : i < l.length) (hr : i < r.length), f l[i] = .ok r[i] := by
  induction l generalizing r with
  | nil => simp [mapE] at h; subst h; simp
  | cons a as ih =>
    simp only [mapE] at h
    split at h
    · simp at h
    · rename_i b hb
      split at h
      · simp at h
      · rename_i bs hbs
        simp at h; subst h
        obtain ⟨hl, hall⟩ := ih bs hbs
        refine ⟨by simp [hl], ?_⟩
        intro i hi hr
        cases i with
        | zero => simpa using hb
        | succ i => simpa using hall i (by simpa using hi) (by simpa using hr)

/-! ## the native 1-bit loop, with the translated guard and arithmetic (T20) -/

/-! The three lemmas below are about *translated* definitions; they are proved by normalisation + `omega`
    rather than by structural rewriting so that a harmless re-phrasing of the source (`!= 0` / `> 0`, `>= 1`)
    does not break them, while a change of meaning does. -/

theorem segPackGuard_binary (rows cols : Nat) :
    segPackGuard "BINARY" rows cols = .ok (decide ((rows * cols) % 8 ≠ 0)) := by
  have e : ((rows : Int) * (cols : Int)) = ((rows * cols : Nat) : Int) := by push_cast; rfl
  unfold segPackGuard
  rw [e]
  generalize rows * cols = n
  simp only [fmod_pos _ 8 (by omega), Except.ok.injEq]
  rw [Bool.eq_iff_iff]
  simp
  all_goals omega

theorem segCarryTake_nat (n : Nat) : segCarryTake (n : Int) = .ok ((8 * (n / 8) : Nat) : Int) := by
  unfold segCarryTake
  simp only [fdiv_pos _ 8 (by omega), Except.ok.injEq]
  push_cast
  omega

theorem segFlushGuard_nat (n : Nat) : segFlushGuard (n : Int) = .ok (decide (n > 0)) := by
  unfold segFlushGuard
  simp only [Except.ok.injEq]
  rw [Bool.eq_iff_iff]
  simp
  all_goals omega

theorem nativeStep_eq (carry : Bool) (st : List Nat × List Bool) (f : List Bool) :
    nativeStep carry st f = .ok (loopStep carry st f) := by
  unfold nativeStep loopStep
  cases carry with
  | false => simp [pure, Except.pure]
  | true =>
    simp only [↓reduceIte, bind, Except.bind]
    have e : ((st.2 ++ f).length : Int) = (((st.2 ++ f).length : Nat) : Int) := rfl
    rw [segCarryTake_nat]
    simp only [sliceTo, sliceFrom]
    have hk : ¬ (((8 * ((st.2 ++ f).length / 8) : Nat) : Int) < 0) := by omega
    simp only [hk, ↓reduceIte, Int.toNat_natCast, pure, Except.pure]

/-- the loop as written (translated guard, translated carry arithmetic, translated flush test)
    is the abstract `packLoop` with the guard `n % 8 ≠ 0` -/
theorem nativeBits_eq_packLoop (rows cols : Nat) (frames : List (List Bool)) :
    nativeBits rows cols frames = .ok (packLoop (fun n => decide (n % 8 ≠ 0)) (rows * cols) frames) := by
  unfold nativeBits packLoop
  rw [segPackGuard_binary]
  simp only [bind, Except.bind]
  rw [foldE_ok _ _ (nativeStep_eq _)]
  simp only [segFlushGuard_nat, pure, Except.pure]
  congr 1
  by_cases h : (List.foldl (loopStep (decide (rows * cols % 8 ≠ 0))) ([], []) frames).2.length > 0 <;> simp

/-- **bits carried from one frame to the next**: for every frame size and every number of frames the
    loop emits exactly the packing of the concatenated frames -/
theorem packLoop_eq_pack_flatten (n : Nat) (frames : List (List Bool)) (hlen : ∀ f ∈ frames, f.length = n) :
    packLoop (fun n => decide (n % 8 ≠ 0)) n frames = pack frames.flatten := by
  by_cases h : n % 8 = 0
  · exact packLoop_nocarry _ n (by simp [h]) h frames hlen
  · exact packLoop_carry _ n (by simp [h]) frames

theorem nativeBits_spec (rows cols : Nat) (frames : List (List Bool)) (hlen : ∀ f ∈ frames, f.length = rows * cols) :
    nativeBits rows cols frames = .ok (pack frames.flatten) := by
  rw [nativeBits_eq_packLoop, packLoop_eq_pack_flatten _ _ hlen]

/-! ## reading a frame back from PixelData that carries a trailing pad -/

theorem pack_length (bs : List Bool) : (pack bs).length = (bs.length + 7) / 8 := by
  induction hn : bs.length using Nat.strongRecOn generalizing bs with
  | _ n ih =>
    subst hn
    by_cases h : bs = []
    · subst h; simp [pack_nil]
    · rw [pack_cons_ne _ h]
      have hpos : 0 < bs.length := List.length_pos_iff.mpr h
      have := ih (bs.drop 8).length (by simp; omega) (bs.drop 8) rfl
      simp only [List.length_cons, this, List.length_drop]
      omega

theorem slice_append {α} (l x : List α) (s e : Int) (hs : 0 ≤ s) (he : 0 ≤ e) (hle : e.toNat ≤ l.length) :
    slice (l ++ x) s e = slice l s e := by
  unfold slice pySlice
  have : ¬ (s < 0 ∨ e < 0) := by omega
  simp only [this, ↓reduceIte]
  congr 1
  by_cases hse : s.toNat ≤ e.toNat
  · rw [List.drop_append_of_le_length (by omega), List.take_append_of_le_length (by simp; omega)]
  · have : e.toNat - s.toNat = 0 := by omega
    simp [this]

/-- the frame access skeleton only ever hands a validated index (0 ≤ idx < n) to its raw-bytes function -/
theorem frameBits_congr (sk : Skel) (f g : Int → Except ErrKind (List Nat)) (rows cols samples n k : Int) (ai : Bool)
    (h : ∀ idx, 0 ≤ idx → idx < n → f idx = g idx) :
    sk.frameBits f rows cols samples n k ai = sk.frameBits g rows cols samples n k ai := by
  unfold Skel.frameBits
  simp only [bind, Except.bind]
  cases sk.index n k ai with
  | error e => rfl
  | ok idx =>
    simp only []
    cases sk.rawArgs k ai idx with
    | error e => rfl
    | ok r =>
      obtain ⟨rk, rai⟩ := r
      simp only []
      cases hs : stdFrameIndex rk rai n with
      | error e => rfl
      | ok ridx =>
        have hr := (stdFrameIndex_ok_iff rk n rai ridx).mp hs
        simp only [h ridx hr.1 hr.2.1]

theorem frameBytes_congr (sk : Skel) (f g : Int → Except ErrKind (List Nat)) (n k : Int) (ai : Bool)
    (h : ∀ idx, 0 ≤ idx → idx < n → f idx = g idx) :
    sk.frameBytes f n k ai = sk.frameBytes g n k ai := by
  unfold Skel.frameBytes
  simp only [bind, Except.bind]
  cases sk.index n k ai with
  | error e => rfl
  | ok idx =>
    simp only []
    cases sk.rawArgs k ai idx with
    | error e => rfl
    | ok r =>
      obtain ⟨rk, rai⟩ := r
      simp only []
      cases hs : stdFrameIndex rk rai n with
      | error e => rfl
      | ok ridx =>
        have hr := (stdFrameIndex_ok_iff rk n rai ridx).mp hs
        simp only [h ridx hr.1 hr.2.1]

theorem memFrameBits_append (frames : List (List Bool)) (rows cols : Nat) (hn : 0 < rows * cols)
    (hlen : ∀ f ∈ frames, f.length = rows * cols) (i : Nat) (hi : i < frames.length) (extra : List Nat) :
    memFrameBits (pack frames.flatten ++ extra) rows cols 1 frames.length ((i : Int) + 1) false = .ok frames[i] := by
  rw [← mem_frame_bits frames rows cols hn hlen i hi]
  unfold memFrameBits
  apply frameBits_congr
  intro idx h0 hN
  obtain ⟨j, rfl⟩ : ∃ j : Nat, idx = (j : Int) := ⟨idx.toNat, by omega⟩
  have hj : j < frames.length := by exact_mod_cast hN
  unfold memRaw
  rw [rawFrameRange_bit (j : Int) ((rows * cols : Nat) : Int) rows cols (by push_cast; rfl) (by omega)]
  simp only [bind, Except.bind]
  rw [slice_append]
  · positivity
  · positivity
  · rw [pack_length, flatten_length frames (rows * cols) hlen]
    have e : (((j : Int) + 1) * ((rows * cols : Nat) : Int) + 7) / 8 = (((j + 1) * (rows * cols) + 7) / 8 : Nat) := by
      push_cast; rfl
    rw [e, Int.toNat_natCast]
    have : (j + 1) * (rows * cols) ≤ frames.length * (rows * cols) := Nat.mul_le_mul_right _ hj
    omega

/-- byte range of frame `idx` of a native image with >= 8 bits, in closed form -/
theorem memRaw_bytes (pd : List Nat) (rows cols bits : Nat) (hb : bits ≠ 1) (j : Nat) :
    memRaw pd rows cols 1 bits "MONOCHROME2" (j : Int) =
      slice pd ((j * (bits * (rows * cols * 1) / 8) : Nat) : Int)
        ((j * (bits * (rows * cols * 1) / 8) + bits * (rows * cols * 1) / 8 : Nat) : Int) := by
  unfold memRaw rawFrameRange
  have hb' : (((bits : Int)) == 1) = false := by
    have : (bits : Int) ≠ 1 := by exact_mod_cast hb
    simpa using this
  simp only [show ("MONOCHROME2" == "YBR_FULL_422") = false by decide, hb', Bool.false_and, Bool.false_eq_true,
    ↓reduceIte, fdiv_pos _ 8 (by omega), bind, Except.bind]
  have e' : (bits : Int) * ((rows : Int) * cols * 1) / 8 = ((bits * (rows * cols * 1) / 8 : Nat) : Int) := by
    push_cast; rfl
  rw [e']
  push_cast
  rfl

theorem memFrameBytes_append (frames : List (List Nat)) (rows cols bits : Nat) (hb : bits ≠ 1)
    (hlen : ∀ f ∈ frames, f.length = bits * (rows * cols * 1) / 8)
    (i : Nat) (hi : i < frames.length) (extra : List Nat) :
    memFrameBytes (frames.flatten ++ extra) rows cols 1 bits frames.length "MONOCHROME2" ((i : Int) + 1) false
      = .ok frames[i] := by
  have h1 : stdFrameIndex ((i : Int) + 1) false frames.length = .ok (i : Int) := by
    rw [stdFrameIndex_ok_iff]; simp; omega
  unfold memFrameBytes Skel.frameBytes Skel.index
  simp only [singleSkel, singleStdArgs, singleRawArgs, bind, Except.bind]
  rw [h1]
  simp only []
  rw [memRaw_bytes _ rows cols bits hb i]
  generalize hL : bits * (rows * cols * 1) / 8 = L at *
  rw [slice_append _ _ _ _ (by positivity) (by positivity), slice_nat]
  · unfold pySlice
    have : i * L + L - i * L = L := by omega
    rw [this, flatten_drop_take frames L hlen i hi]
  · rw [Int.toNat_natCast, flatten_length frames L hlen]
    have : (i + 1) * L ≤ frames.length * L := Nat.mul_le_mul_right _ hi
    rw [Nat.succ_mul] at this; exact this

theorem unLe_leBytes8 (f : List Nat) (h : ∀ v ∈ f, v < 256) : unLe 8 (f.flatMap (leBytes 8)) = f := by
  induction f with
  | nil => rfl
  | cons a t ih =>
    have ha : a % 256 = a := Nat.mod_eq_of_lt (h a (by simp))
    have iht := ih (fun v hv => h v (by simp [hv]))
    simp only [List.flatMap_cons, leBytes, show (8 : Nat) ≠ 16 by decide, ↓reduceIte, List.cons_append, List.nil_append, ha]
    cases ht : t.flatMap (leBytes 8) with
    | nil =>
      rw [ht] at iht
      simp [unLe, ← iht]
    | cons b r =>
      rw [ht] at iht
      simp [unLe, iht]

theorem unLe_leBytes16 (f : List Nat) (h : ∀ v ∈ f, v < 65536) : unLe 16 (f.flatMap (leBytes 16)) = f := by
  induction f with
  | nil => rfl
  | cons a t ih =>
    have ha := h a (by simp)
    have iht := ih (fun v hv => h v (by simp [hv]))
    simp only [List.flatMap_cons, leBytes, ↓reduceIte, List.cons_append, List.nil_append, unLe, iht]
    congr 1
    omega

theorem leBytes_flat_length (bits : Nat) (hb : bits = 8 ∨ bits = 16) (f : List Nat) :
    (f.flatMap (leBytes bits)).length = bits * (f.length * 1) / 8 := by
  induction f with
  | nil => simp
  | cons a t ih =>
    rcases hb with rfl | rfl
    · simp only [List.flatMap_cons, List.length_append, ih, List.length_cons]
      simp [leBytes]; omega
    · simp only [List.flatMap_cons, List.length_append, ih, List.length_cons]
      simp [leBytes]; omega

theorem padEven_ok (raw : List Nat) : ∃ extra, padEven raw = .ok (raw ++ extra) := by
  unfold padEven segPadGuard
  simp only [bind, Except.bind, pure, Except.pure]
  split
  · exact ⟨[segPadByte], rfl⟩
  · exact ⟨[], by simp⟩

theorem bool_nat_roundtrip (f : List Nat) (h : ∀ v ∈ f, v < 2) :
    (f.map (· != 0)).map (fun x => if x then 1 else 0) = f := by
  induction f with
  | nil => rfl
  | cons a t ih =>
    have ha := h a (by simp)
    simp only [List.map_cons, ih (fun v hv => h v (by simp [hv]))]
    congr 1
    rcases (by omega : a = 0 ∨ a = 1) with rfl | rfl <;> simp

/-- **what is stored is what is fetched**: frame `i` read through the translated frame access
    (native 1 / 8 / 16 bit, any trailing pad) or a lossless codec is frame `i` that was encoded -/
theorem readFrame_spec (codec : Option Codec) (hcodec : ∀ c, codec = some c → ∀ x, c.dec (c.enc x) = x)
    (o : SegObj) (F : List (List Nat)) (hbits : o.bits = 1 ∨ o.bits = 8 ∨ o.bits = 16)
    (hn : 0 < o.rows * o.cols)
    (hlen : ∀ f ∈ F, f.length = o.rows * o.cols)
    (hrange : ∀ f ∈ F, ∀ v ∈ f, v < 2 ^ o.bits)
    (hk : o.keys.length = F.length)
    (hpd : encodePixelData codec o.rows o.cols o.bits F = .ok o.pd)
    (i : Nat) (hi : i < F.length) :
    readFrame codec o i = .ok F[i] := by
  unfold encodePixelData at hpd
  unfold readFrame
  cases codec with
  | some c =>
    simp only [Except.ok.injEq] at hpd
    rw [← hpd]
    simp only [List.getElem?_map, List.getElem?_eq_getElem hi, Option.map_some]
    rw [hcodec c rfl]
  | none =>
    simp only [bind, Except.bind] at hpd
    by_cases h1 : o.bits = 1
    · simp only [h1, ↓reduceIte] at hpd
      have hlenb : ∀ f ∈ F.map (·.map (· != 0)), f.length = o.rows * o.cols := by
        intro f hf
        obtain ⟨g, hg, rfl⟩ := List.mem_map.mp hf
        simp [hlen g hg]
      rw [nativeBits_spec _ _ _ hlenb] at hpd
      obtain ⟨extra, hx⟩ := padEven_ok (pack (F.map (·.map (· != 0))).flatten)
      simp only [hx, pure, Except.pure, Except.ok.injEq] at hpd
      rw [← hpd]
      simp only [h1, ↓reduceIte]
      have hN : ((o.keys.length : Nat) : Int) = (((F.map (·.map (· != 0))).length : Nat) : Int) := by simp [hk]
      rw [hN, memFrameBits_append _ _ _ hn hlenb i (by simpa using hi)]
      simp only [bind, Except.bind, pure, Except.pure, List.getElem_map]
      congr 1
      apply bool_nat_roundtrip
      intro v hv
      have := hrange F[i] (List.getElem_mem hi) v hv
      rw [h1] at this; simpa using this
    · simp only [h1, ↓reduceIte, pure, Except.pure] at hpd
      have hb : o.bits = 8 ∨ o.bits = 16 := by omega
      obtain ⟨extra, hx⟩ := padEven_ok (F.flatMap fun f => f.flatMap (leBytes o.bits))
      simp only [hx, Except.ok.injEq] at hpd
      rw [← hpd]
      simp only [h1, ↓reduceIte]
      have hflat : (F.flatMap fun f => f.flatMap (leBytes o.bits)) = (F.map fun f => f.flatMap (leBytes o.bits)).flatten := by
        rw [List.flatMap_def]
      have hlenb : ∀ f ∈ F.map (fun f => f.flatMap (leBytes o.bits)), f.length = o.bits * (o.rows * o.cols * 1) / 8 := by
        intro f hf
        obtain ⟨g, hg, rfl⟩ := List.mem_map.mp hf
        rw [leBytes_flat_length _ hb, hlen g hg]
      have hN : ((o.keys.length : Nat) : Int) = (((F.map fun f => f.flatMap (leBytes o.bits)).length : Nat) : Int) := by
        simp [hk]
      rw [hflat, hN, memFrameBytes_append _ _ _ _ h1 hlenb i (by simpa using hi)]
      simp only [bind, Except.bind, pure, Except.pure, List.getElem_map]
      congr 1
      have hr := hrange F[i] (List.getElem_mem hi)
      rcases hb with h8 | h16
      · rw [h8] at hr ⊢; exact unLe_leBytes8 _ (by simpa using hr)
      · rw [h16] at hr ⊢; exact unLe_leBytes16 _ (by simpa using hr)

/-! ## the frame loop as a comprehension -/

/-- stored pixels of one (segment, plane) cell of the loop -/
def cellE (arr : Mask) (segs : List Nat) (t : SegType) (mfv : Nat) (sg : Option Nat) (p : Nat) :
    Except ErrKind (List Nat) :=
  match arr.plane? p with
  | none => .error .index
  | some pl => match sg with
    | none => labelPlane segs pl
    | some s => segPlane segs t mfv s pl

/-- a frame is kept unless it belongs to a single segment, empty frames are omitted and it is empty -/
def keep (omt : Bool) (sg : Option Nat) (px : List Nat) : Bool :=
  !(sg.isSome && omt && !(px.any (· != 0)))

/-- the loop body as a partial function -/
def cellFrame (arr : Mask) (segs : List Nat) (t : SegType) (mfv : Nat) (omt : Bool) (c : Option Nat × Nat) :
    Option Frame :=
  match cellE arr segs t mfv c.1 c.2 with
  | .ok px => if keep omt c.1 px then some ⟨c.1, c.2, px⟩ else none
  | .error _ => none

theorem loopBody_eq (arr : Mask) (segs : List Nat) (t : SegType) (mfv : Nat) (omt : Bool) (sg : Option Nat) (p : Nat)
    (px : List Nat) (h : cellE arr segs t mfv sg p = .ok px) :
    loopBody arr segs t mfv omt sg p = .ok (cellFrame arr segs t mfv omt (sg, p)) := by
  unfold cellFrame
  simp only [h]
  unfold cellE at h
  unfold loopBody
  cases hp : arr.plane? p with
  | none => rw [hp] at h; simp at h
  | some pl =>
    rw [hp] at h
    cases sg with
    | none =>
      simp only at h
      simp only [h, bind, Except.bind, pure, Except.pure, keep]
      simp
    | some s =>
      simp only at h
      simp only [h, bind, Except.bind, pure, Except.pure, keep]
      by_cases hany : (px.any (· != 0)) = true <;> cases omt <;> simp [hany]

def cells (t : SegType) (segs : List Nat) (ord : List Nat) : List (Option Nat × Nat) :=
  (segmentsIterable t segs).flatMap fun sg => ord.map fun p => (sg, p)

theorem mem_cells (t : SegType) (segs ord : List Nat) (c : Option Nat × Nat) :
    c ∈ cells t segs ord ↔ c.1 ∈ segmentsIterable t segs ∧ c.2 ∈ ord := by
  unfold cells
  simp only [List.mem_flatMap, List.mem_map]
  constructor
  · rintro ⟨sg, hsg, p, hp, rfl⟩; exact ⟨hsg, hp⟩
  · rintro ⟨h1, h2⟩; exact ⟨c.1, h1, c.2, h2, rfl⟩

/-- **stored frames are exactly the comprehension** over segments (outer) x visited planes (inner),
    minus the empty single-segment frames when empty frames are omitted -/
theorem storedFrames_eq (arr : Mask) (segs : List Nat) (t : SegType) (mfv : Nat) (omt : Bool) (order : List Nat)
    (hcell : ∀ c ∈ cells t segs (planOrder arr mfv omt order).2, ∃ px, cellE arr segs t mfv c.1 c.2 = .ok px) :
    storedFrames arr segs t mfv omt order =
      .ok ((cells t segs (planOrder arr mfv omt order).2).filterMap
            (cellFrame arr segs t mfv (planOrder arr mfv omt order).1)) := by
  unfold storedFrames
  simp only []
  have hm : mapE (fun c => loopBody arr segs t mfv (planOrder arr mfv omt order).1 c.1 c.2)
      (cells t segs (planOrder arr mfv omt order).2)
      = .ok ((cells t segs (planOrder arr mfv omt order).2).map (cellFrame arr segs t mfv (planOrder arr mfv omt order).1)) := by
    apply mapE_ok_of_forall
    intro c hc
    obtain ⟨px, hpx⟩ := hcell c hc
    exact loopBody_eq _ _ _ _ _ _ _ px hpx
  unfold cells at hm
  simp only [bind, Except.bind, hm, pure, Except.pure, List.filterMap_map]
  rfl

/-! ## findKey -/

theorem findKey_some {κ} [DecidableEq κ] (l : List κ) (k : κ) (i : Nat) (h : findKey l k = some i) :
    ∃ hi : i < l.length, l[i] = k := by
  induction l generalizing i with
  | nil => simp [findKey] at h
  | cons a t ih =>
    simp only [findKey] at h
    split at h
    · rename_i hak
      simp at h; subst h; exact ⟨by simp, by simpa using hak⟩
    · cases hf : findKey t k with
      | none => rw [hf] at h; simp at h
      | some j =>
        rw [hf] at h; simp at h; subst h
        obtain ⟨hj, hjk⟩ := ih j hf
        exact ⟨by simpa using hj, by simpa using hjk⟩

theorem findKey_none {κ} [DecidableEq κ] (l : List κ) (k : κ) (h : findKey l k = none) : k ∉ l := by
  induction l with
  | nil => simp
  | cons a t ih =>
    simp only [findKey] at h
    split at h
    · simp at h
    · rename_i hak
      cases hf : findKey t k with
      | none =>
        intro hm
        rcases List.mem_cons.mp hm with rfl | hm'
        · exact hak rfl
        · exact ih hf hm'
      | some j => rw [hf] at h; simp at h

/-! ## the frame LUT join -/

theorem cellFrame_key (arr : Mask) (segs : List Nat) (t : SegType) (mfv : Nat) (omt : Bool) (c : Option Nat × Nat)
    (f : Frame) (h : cellFrame arr segs t mfv omt c = some f) : (f.seg, f.plane) = c := by
  unfold cellFrame at h
  split at h
  · split at h
    · simp at h; subst h; rfl
    · simp at h
  · simp at h

theorem cellFrame_of_cell (arr : Mask) (segs : List Nat) (t : SegType) (mfv : Nat) (omt : Bool) (c : Option Nat × Nat)
    (px : List Nat) (h : cellE arr segs t mfv c.1 c.2 = .ok px) :
    cellFrame arr segs t mfv omt c = if keep omt c.1 px then some ⟨c.1, c.2, px⟩ else none := by
  unfold cellFrame; rw [h]

theorem all_zero_eq_replicate (px : List Nat) (h : px.any (· != 0) = false) : px = List.replicate px.length 0 := by
  rw [List.eq_replicate_iff]
  refine ⟨rfl, ?_⟩
  intro v hv
  rw [List.any_eq_false] at h
  have := h v hv
  simpa using this

/-- reading by key from the stored frames delivers the pixels of the cell, stored or skipped -/
theorem readKey_spec (codec : Option Codec) (o : SegObj) (arr : Mask) (segs : List Nat) (t : SegType) (mfv : Nat)
    (omt : Bool) (cs : List (Option Nat × Nat))
    (hkeys : o.keys = (cs.filterMap (cellFrame arr segs t mfv omt)).map (fun f => (f.seg, f.plane)))
    (hread : ∀ i (hi : i < (cs.filterMap (cellFrame arr segs t mfv omt)).length),
      readFrame codec o i = .ok ((cs.filterMap (cellFrame arr segs t mfv omt))[i]).px)
    (k : Option Nat × Nat) (px : List Nat) (hpx : cellE arr segs t mfv k.1 k.2 = .ok px)
    (hlen : px.length = o.rows * o.cols)
    (hmiss : k ∉ cs → px.any (· != 0) = false) :
    readKey codec o k = .ok px := by
  unfold readKey
  cases hf : findKey o.keys k with
  | some i =>
    obtain ⟨hi, hik⟩ := findKey_some _ _ _ hf
    have hi' : i < (cs.filterMap (cellFrame arr segs t mfv omt)).length := by
      rw [hkeys] at hi; simpa using hi
    simp only [hread i hi']
    have hmem := List.getElem_mem hi'
    obtain ⟨c, hc, hcf⟩ := List.mem_filterMap.mp hmem
    have hck := cellFrame_key _ _ _ _ _ _ _ hcf
    have : (cs.filterMap (cellFrame arr segs t mfv omt))[i].seg = k.1 ∧
        (cs.filterMap (cellFrame arr segs t mfv omt))[i].plane = k.2 := by
      have h2 : o.keys[i] = k := hik
      simp only [hkeys, List.getElem_map] at h2
      rw [← h2]; exact ⟨rfl, rfl⟩
    have hck' : c = k := by
      rw [← hck]; exact Prod.ext this.1 this.2
    subst hck'
    rw [cellFrame_of_cell _ _ _ _ _ _ px hpx] at hcf
    split at hcf
    · simp only [Option.some.injEq] at hcf; rw [← hcf]
    · simp at hcf
  | none =>
    have hnot := findKey_none _ _ hf
    show Except.ok (List.replicate (o.rows * o.cols) 0) = Except.ok px
    congr 1
    have hz : px.any (· != 0) = false := by
      by_cases hk : k ∈ cs
      · -- the cell was visited; had its frame been kept, its key would be in the LUT
        cases hcf : cellFrame arr segs t mfv omt k with
        | some f =>
          exfalso
          apply hnot
          rw [hkeys]
          have hfm : f ∈ cs.filterMap (cellFrame arr segs t mfv omt) := List.mem_filterMap.mpr ⟨k, hk, hcf⟩
          have := cellFrame_key _ _ _ _ _ _ _ hcf
          rw [← this]
          exact List.mem_map.mpr ⟨f, hfm, rfl⟩
        | none =>
          rw [cellFrame_of_cell _ _ _ _ _ _ px hpx] at hcf
          split at hcf
          · simp at hcf
          · rename_i hkeep
            unfold keep at hkeep
            cases h : px.any (· != 0)
            · rfl
            · simp [h] at hkeep
      · exact hmiss hk
    rw [← hlen]
    exact (all_zero_eq_replicate px hz).symm

/-! ## round half to even -/

theorem floor_le_self (q : Rat) : ((q.floor : Int) : Rat) ≤ q := Rat.le_floor_iff.mp (Int.le_refl _)

theorem rhe_cases (q : Rat) : roundHalfEven q = q.floor ∨ (roundHalfEven q = q.floor + 1 ∧ (q.floor : Rat) + 1 / 2 ≤ q) := by
  unfold roundHalfEven
  simp only []
  split
  · left; rfl
  · rename_i h1
    split
    · right; refine ⟨rfl, ?_⟩; linarith
    · rename_i h2
      have : q - (q.floor : Rat) = 1 / 2 := by linarith
      split
      · left; rfl
      · right; refine ⟨rfl, ?_⟩; linarith

theorem rhe_nonneg (q : Rat) (h : 0 ≤ q) : 0 ≤ roundHalfEven q := by
  have hf : (0 : Int) ≤ q.floor := Rat.le_floor_iff.mpr (by simpa using h)
  rcases rhe_cases q with h1 | ⟨h1, _⟩ <;> omega

theorem rhe_le (q : Rat) (M : Int) (h : q ≤ (M : Rat)) : roundHalfEven q ≤ M := by
  have hfq := floor_le_self q
  have hf : q.floor ≤ M := by
    have : ((q.floor : Int) : Rat) ≤ (M : Rat) := le_trans hfq h
    exact_mod_cast this
  rcases rhe_cases q with h1 | ⟨h1, h2⟩
  · omega
  · rw [h1]
    by_contra hc
    have : M ≤ q.floor := by omega
    have : (M : Rat) ≤ (q.floor : Rat) := by exact_mod_cast this
    linarith

theorem rhe_zero : roundHalfEven 0 = 0 := by
  have h : (0 : Rat).floor = 0 := by simpa using Rat.floor_intCast 0
  unfold roundHalfEven
  simp [h]


end HdVerif.SegEncodeLemmas
