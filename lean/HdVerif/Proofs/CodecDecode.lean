import HdVerif.Proofs.Codec
/-! C07: what `decode_frame` makes of native pixel data that `encode_frame` did not write: cells whose bits above Bits Stored
carry anything (overlay bits of older objects, garbage) decode to the stored value -- the unused-bit mask -- and colour-by-plane
data (Planar Configuration 1) is returned colour-by-pixel. -/
namespace HdVerif.Codec
open HdVerif HdVerif.Bits HdVerif.Gen

/-- the value of a cell is decided by its low `stored` bits alone -/
theorem maskStored_of_low (stored : Nat) (signed : Bool) (u : Nat) (v : Int) (h1 : 1 ≤ stored)
    (hm : ((u % 2 ^ stored : Nat) : Int) = v % (2 : Int) ^ stored)
    (hv : if signed then -(2 : Int) ^ (stored - 1) ≤ v ∧ v < (2 : Int) ^ (stored - 1) else 0 ≤ v ∧ v < (2 : Int) ^ stored) :
    maskStored signed stored u = v := by
  unfold maskStored
  simp only []
  have hP : (2 : Int) ^ stored = 2 * (2 : Int) ^ (stored - 1) := by
    have : stored = (stored - 1) + 1 := by omega
    conv_lhs => rw [this, pow_succ]
    ring
  have hpos : (0 : Int) < (2 : Int) ^ (stored - 1) := by positivity
  cases signed with
  | false =>
    simp only [Bool.false_eq_true, ↓reduceIte] at hv ⊢
    rw [hm, Int.emod_eq_of_lt hv.1 hv.2]
  | true =>
    simp only [↓reduceIte] at hv ⊢
    unfold toSigned
    generalize hPP : (2 : Int) ^ (stored - 1) = P at *
    by_cases hneg : 0 ≤ v
    · have e : v % (2 : Int) ^ stored = v := Int.emod_eq_of_lt hneg (by rw [hP]; omega)
      have hlt : 2 * (u % 2 ^ stored) < 2 ^ stored := by
        have : (2 : Int) * ((u % 2 ^ stored : Nat) : Int) < (2 : Int) ^ stored := by
          rw [hm, e, hP]; omega
        exact_mod_cast this
      rw [if_pos hlt, hm, e]
    · have e : v % (2 : Int) ^ stored = v + (2 : Int) ^ stored := by
        rw [← Int.add_emod_right]
        exact Int.emod_eq_of_lt (by rw [hP]; omega) (by omega)
      have hge : ¬ 2 * (u % 2 ^ stored) < 2 ^ stored := by
        intro hlt
        have : (2 : Int) * ((u % 2 ^ stored : Nat) : Int) < (2 : Int) ^ stored := by
          exact_mod_cast hlt
        rw [hm, e, hP] at this; omega
      rw [if_neg hge, hm, e]; ring

/-- a cell of `nbytes` bytes whose low `stored` bits hold `v` (two's complement) and whose remaining high bits hold `g` -/
def dirtyCell (nbytes stored : Nat) (v : Int) (g : Nat) : Nat :=
  toUnsigned stored v + 2 ^ stored * (g % 2 ^ (8 * nbytes - stored))

theorem dirtyCell_lt (nbytes stored : Nat) (v : Int) (g : Nat) (h2 : stored ≤ 8 * nbytes) :
    dirtyCell nbytes stored v g < 256 ^ nbytes := by
  unfold dirtyCell
  rw [pow256]
  have h1 := toUnsigned_lt stored v
  have h3 : g % 2 ^ (8 * nbytes - stored) < 2 ^ (8 * nbytes - stored) := Nat.mod_lt _ (by positivity)
  have e : 2 ^ (8 * nbytes) = 2 ^ stored * 2 ^ (8 * nbytes - stored) := by
    rw [← Nat.pow_add]; congr 1; omega
  rw [e]
  generalize 2 ^ stored = A at *
  generalize 2 ^ (8 * nbytes - stored) = B at *
  generalize g % B = r at *
  calc toUnsigned stored v + A * r < A + A * r := by omega
    _ = A * (r + 1) := by ring
    _ ≤ A * B := Nat.mul_le_mul_left A h3

theorem dirtyCell_low (nbytes stored : Nat) (v : Int) (g : Nat) :
    ((dirtyCell nbytes stored v g % 2 ^ stored : Nat) : Int) = v % (2 : Int) ^ stored := by
  unfold dirtyCell
  rw [Nat.add_mul_mod_self_left, Nat.mod_eq_of_lt (toUnsigned_lt stored v), toUnsigned_cast]

/-- **one cell**: whatever the bits above Bits Stored hold, the cell decodes to the stored value -/
theorem dirty_cell_decodes (nbytes stored : Nat) (signed : Bool) (v : Int) (g : Nat) (h1 : 1 ≤ stored) (h2 : stored ≤ 8 * nbytes)
    (hv : if signed then -(2 : Int) ^ (stored - 1) ≤ v ∧ v < (2 : Int) ^ (stored - 1) else 0 ≤ v ∧ v < (2 : Int) ^ stored) :
    maskStored signed stored (ofLeBytes (leBytes nbytes (dirtyCell nbytes stored v g))) = v := by
  rw [ofLeBytes_leBytes _ _ (dirtyCell_lt nbytes stored v g h2)]
  exact maskStored_of_low stored signed _ v h1 (dirtyCell_low nbytes stored v g) hv

/-- the bytes of a frame whose cells carry the values `xs` in their stored bits and `gs` above them -/
def dirtyBytes (nbytes stored : Nat) : List Int → List Nat → List Nat
  | [], _ => []
  | v :: vs, [] => leBytes nbytes (dirtyCell nbytes stored v 0) ++ dirtyBytes nbytes stored vs []
  | v :: vs, g :: gs => leBytes nbytes (dirtyCell nbytes stored v g) ++ dirtyBytes nbytes stored vs gs

theorem dirtyBytes_length (nbytes stored : Nat) (xs : List Int) (gs : List Nat) :
    (dirtyBytes nbytes stored xs gs).length = xs.length * nbytes := by
  induction xs generalizing gs with
  | nil => simp [dirtyBytes]
  | cons x xs ih =>
    cases gs with
    | nil => simp only [dirtyBytes, List.length_append, leBytes_length, ih, List.length_cons]; ring
    | cons g gs => simp only [dirtyBytes, List.length_append, leBytes_length, ih, List.length_cons]; ring

theorem decodeCells_dirty (nbytes stored : Nat) (signed : Bool) (h1 : 1 ≤ stored) (h2 : stored ≤ 8 * nbytes)
    (xs : List Int) (gs : List Nat) (tail : List Nat)
    (hx : ∀ v ∈ xs, if signed then -(2 : Int) ^ (stored - 1) ≤ v ∧ v < (2 : Int) ^ (stored - 1) else 0 ≤ v ∧ v < (2 : Int) ^ stored) :
    decodeCells nbytes signed stored xs.length (dirtyBytes nbytes stored xs gs ++ tail) = xs := by
  induction xs generalizing gs with
  | nil => rfl
  | cons x xs ih =>
    have step : ∀ g gs', decodeCells nbytes signed stored (x :: xs).length
        (leBytes nbytes (dirtyCell nbytes stored x g) ++ dirtyBytes nbytes stored xs gs' ++ tail) = x :: xs := by
      intro g gs'
      simp only [List.length_cons, decodeCells, List.append_assoc]
      have hl := leBytes_length nbytes (dirtyCell nbytes stored x g)
      rw [List.take_append_of_le_length (by omega), List.take_of_length_le (by omega),
          List.drop_append_of_le_length (by omega), List.drop_of_length_le (by omega), List.nil_append]
      rw [dirty_cell_decodes nbytes stored signed x g h1 h2 (hx x (by simp))]
      rw [ih gs' (fun v hv => hx v (by simp [hv]))]
    cases gs with
    | nil => exact step 0 []
    | cons g gs => exact step g gs

theorem decodedDType_itemsize (ba pr : Int) (dt : DType) (h : decodedDType ba pr = .ok dt) (hba : ba ≠ 1) :
    (dt.itemsize : Int) * 8 = ba := by
  unfold decodedDType at h
  by_cases h1 : ba = 1
  · exact absurd h1 hba
  · by_cases h8 : ba = 8
    · simp only [h1, h8, ↓reduceIte] at h
      cases h; split <;> simp [DType.itemsize] <;> omega
    · by_cases h16 : ba = 16
      · simp only [h1, h8, h16, ↓reduceIte] at h
        cases h; split <;> simp [DType.itemsize] <;> omega
      · by_cases h32 : ba = 32
        · simp only [h1, h8, h16, h32, ↓reduceIte] at h
          cases h; split <;> simp [DType.itemsize] <;> omega
        · by_cases h64 : ba = 64
          · simp only [h1, h8, h16, h32, h64, ↓reduceIte] at h
            cases h; split <;> simp [DType.itemsize] <;> omega
          · simp only [h1, h8, h16, h32, h64, ↓reduceIte] at h
            cases h

/-- **Unused high bits are ignored** (pydicom's `correct_unused_bits`, reached through `decode_frame`'s native route): a native
frame of 8 / 16 / 32-bit cells whose samples `xs` fit Bits Stored decodes to `xs` whatever the bits above Bits Stored carry in
each cell -- unsigned and two's complement (the sign is bit `stored - 1`, not the cell's top bit). -/
theorem decode_ignores_high_bits (c : CodecImpl) (conv : List Int → List Int) (p : Params) (rows cols samples : Nat) (dt : DType)
    (xs : List Int) (gs : List Nat) (hts : p.ts ∈ nativeSyntaxes) (hba : p.bitsAllocated ≠ 1)
    (hdt : decodedDType p.bitsAllocated p.pixelRepresentation = .ok dt)
    (hpr : p.pixelRepresentation = 0 ∨ p.pixelRepresentation = 1) (hpi : knownPI p.pi)
    (hs13 : samples = 1 ∨ samples = 3)
    (hpc : (samples : Int) > 1 → p.planar = some 0) (hbs : 1 ≤ p.bitsStored ∧ p.bitsStored ≤ p.bitsAllocated)
    (hshape : shapeInRange rows cols = true) (hlen : xs.length = rows * cols * samples)
    (hfit : ∀ v ∈ xs, if p.pixelRepresentation = 1 then
        -(2 : Int) ^ (p.bitsStored.toNat - 1) ≤ v ∧ v < (2 : Int) ^ (p.bitsStored.toNat - 1)
      else 0 ≤ v ∧ v < (2 : Int) ^ p.bitsStored.toNat)
    (hnc : convertsColour p.pi samples = false) :
    decodeFrame c conv p rows cols samples (dirtyBytes dt.itemsize p.bitsStored.toNat xs gs) = .ok xs := by
  have hsz := decodedDType_itemsize _ _ dt hdt hba
  have hroute : decodeFrameRoute false p.bitsAllocated (samples : Int) p.pi p.pixelRepresentation p.planar = .ok 2 := by
    have := decodeRoute_pydicom false p.bitsAllocated (samples : Int) p.pi p.pixelRepresentation p.planar
      (Or.inr hba) hpr hpi (fun h => Or.inl (hpc h))
    simpa using this
  unfold decodeFrame
  rw [isEncapsulated_native _ hts, hroute]
  simp only [bind, Except.bind]
  have h21 : ¬ ((2 : Int) = 1) := by decide
  simp only [h21, ↓reduceIte]
  unfold pydicomNative
  rw [hdt]
  simp only [bind, Except.bind]
  have hbl : (dirtyBytes dt.itemsize p.bitsStored.toNat xs gs).length = rows * cols * samples * dt.itemsize := by
    rw [dirtyBytes_length, hlen]
  rw [if_neg (by omega : ¬ (samples ≠ 1 ∧ samples ≠ 3)), if_neg (by rw [hshape]; decide), if_neg (by omega), if_neg (by omega)]
  have hnp : ¬ (samples > 1 ∧ p.planar = some 1) := by
    rintro ⟨hgt, hpl⟩
    have := hpc (by exact_mod_cast hgt)
    rw [this] at hpl; cases hpl
  rw [if_neg hnp, hnc]
  simp only [Bool.false_eq_true, ↓reduceIte]
  have hst1 : 1 ≤ p.bitsStored.toNat := by omega
  have hst2 : p.bitsStored.toNat ≤ 8 * dt.itemsize := by omega
  have := decodeCells_dirty dt.itemsize p.bitsStored.toNat (p.pixelRepresentation == 1) hst1 hst2 xs gs []
    (by
      intro v hv
      have hf := hfit v hv
      by_cases hp : p.pixelRepresentation = 1
      · simp only [hp, ↓reduceIte, beq_self_eq_true] at hf ⊢; exact hf
      · have hp' : (p.pixelRepresentation == 1) = false := by simpa using hp
        simp only [hp, ↓reduceIte, hp', Bool.false_eq_true] at hf ⊢; exact hf)
  rw [List.append_nil, hlen] at this
  rw [this]

/-! ### Planar Configuration 1 -/

/-- a loop nest `for k in range(n): for c in range(m)` as a list -/
def nest {α} (n m : Nat) (f : Nat → Nat → α) : List α := (List.range n).flatMap (fun k => (List.range m).map (fun c => f k c))

theorem nest_length {α} (n m : Nat) (f : Nat → Nat → α) : (nest n m f).length = n * m := by
  unfold nest
  induction n with
  | zero => simp
  | succ n ih =>
    rw [List.range_succ, List.flatMap_append, List.length_append, ih]
    simp [Nat.succ_mul]

theorem nest_get {α} (n m : Nat) (f : Nat → Nat → α) (i j : Nat) (hi : i < n) (hj : j < m) :
    (nest n m f)[i * m + j]? = some (f i j) := by
  induction n with
  | zero => omega
  | succ n ih =>
    have hsplit : nest (n + 1) m f = nest n m f ++ (List.range m).map (fun j => f n j) := by
      unfold nest
      rw [List.range_succ, List.flatMap_append]
      simp
    rw [hsplit]
    by_cases hin : i < n
    · have hlt : i * m + j < (nest n m f).length := by
        rw [nest_length]
        calc i * m + j < i * m + m := by omega
          _ = (i + 1) * m := by ring
          _ ≤ n * m := Nat.mul_le_mul_right m (by omega)
      rw [List.getElem?_append_left hlt]
      exact ih hin
    · have hieq : i = n := by omega
      subst hieq
      have hge : (nest i m f).length ≤ i * m + j := by rw [nest_length]; omega
      rw [List.getElem?_append_right hge, nest_length]
      have : i * m + j - i * m = j := by omega
      rw [this]
      simp [hj]

theorem interleavePlanes_eq (npix samples : Nat) (vals : List Int) :
    interleavePlanes npix samples vals = nest npix samples (fun k c => vals.getD (c * npix + k) 0) := rfl

theorem interleavePlanes_length (npix samples : Nat) (vals : List Int) :
    (interleavePlanes npix samples vals).length = npix * samples := by
  rw [interleavePlanes_eq, nest_length]

/-- sample `c` of pixel `k` of the decoded frame is item `c * npix + k` of the stored values -/
theorem interleavePlanes_get (npix samples : Nat) (vals : List Int) (k c : Nat) (hk : k < npix) (hc : c < samples) :
    (interleavePlanes npix samples vals)[k * samples + c]? = some (vals.getD (c * npix + k) 0) := by
  rw [interleavePlanes_eq, nest_get _ _ _ k c hk hc]

/-- the values of a frame given colour-by-pixel (`x.data`), re-listed colour-by-plane -/
def planarOf (npix samples : Nat) (data : List Int) : List Int := nest samples npix (fun c k => data.getD (k * samples + c) 0)

/-- re-ordering the planes into pixels undoes `planarOf` -/
theorem interleave_planarOf (npix samples : Nat) (data : List Int) (hlen : data.length = npix * samples) :
    interleavePlanes npix samples (planarOf npix samples data) = data := by
  apply List.ext_getElem?
  intro i
  by_cases hi : i < npix * samples
  · have hs : 0 < samples := by
      rcases Nat.eq_zero_or_pos samples with h | h
      · subst h; simp at hi
      · exact h
    have hk : i / samples < npix := by
      rw [Nat.div_lt_iff_lt_mul hs]; exact hi
    have hc : i % samples < samples := Nat.mod_lt _ hs
    have hi' : i = (i / samples) * samples + i % samples := by
      rw [Nat.mul_comm]; exact (Nat.div_add_mod i samples).symm
    rw [hi', interleavePlanes_get _ _ _ _ _ hk hc]
    unfold planarOf
    have := nest_get samples npix (fun c k => data.getD (k * samples + c) 0) (i % samples) (i / samples) hc hk
    rw [List.getD_eq_getElem?_getD, this, ← hi']
    simp only [Option.getD_some]
    rw [List.getD_eq_getElem?_getD]
    have hlt : i < data.length := by rw [hlen]; exact hi
    rw [List.getElem?_eq_getElem hlt]
    rfl
  · have h1 : (interleavePlanes npix samples (planarOf npix samples data)).length ≤ i := by
      rw [interleavePlanes_length]; omega
    have h2 : data.length ≤ i := by rw [hlen]; omega
    rw [List.getElem?_eq_none h1, List.getElem?_eq_none h2]

/-- **Planar Configuration 1 is read back colour-by-pixel**: native cells holding the planes of a colour frame one after the
other (`R1 R2 .. G1 G2 .. B1 B2 ..`, what Planar Configuration 1 means -- `encode_frame` never writes it natively, other
software does; 3 samples: pydicom refuses any other number above 1) decode through `decode_frame` with `planar_configuration=1` to the frame in the pixel-interleaved order every
reader of highdicom returns. -/
theorem planar_frame_decodes_interleaved (c : CodecImpl) (conv : List Int → List Int) (p : Params) (rows cols samples : Nat)
    (dt : DType) (data : List Int) (hts : p.ts ∈ nativeSyntaxes) (hba : p.bitsAllocated ≠ 1)
    (hdt : decodedDType p.bitsAllocated p.pixelRepresentation = .ok dt)
    (hpr : p.pixelRepresentation = 0 ∨ p.pixelRepresentation = 1) (hpi : knownPI p.pi)
    (hs3 : samples = 3) (hpc : p.planar = some 1) (hbs : 1 ≤ p.bitsStored ∧ p.bitsStored ≤ p.bitsAllocated)
    (hshape : shapeInRange rows cols = true) (hlen : data.length = rows * cols * samples)
    (hfit : ∀ v ∈ data, if p.pixelRepresentation = 1 then
        -(2 : Int) ^ (p.bitsStored.toNat - 1) ≤ v ∧ v < (2 : Int) ^ (p.bitsStored.toNat - 1)
      else 0 ≤ v ∧ v < (2 : Int) ^ p.bitsStored.toNat)
    (hnc : convertsColour p.pi samples = false) :
    decodeFrame c conv p rows cols samples (encodeCells dt.itemsize (planarOf (rows * cols) samples data)) = .ok data := by
  have hs : samples > 1 := by omega
  have hsz := decodedDType_itemsize _ _ dt hdt hba
  have hroute : decodeFrameRoute false p.bitsAllocated (samples : Int) p.pi p.pixelRepresentation p.planar = .ok 2 := by
    have := decodeRoute_pydicom false p.bitsAllocated (samples : Int) p.pi p.pixelRepresentation p.planar
      (Or.inr hba) hpr hpi (fun _ => Or.inr hpc)
    simpa using this
  unfold decodeFrame
  rw [isEncapsulated_native _ hts, hroute]
  simp only [bind, Except.bind]
  have h21 : ¬ ((2 : Int) = 1) := by decide
  simp only [h21, ↓reduceIte]
  unfold pydicomNative
  rw [hdt]
  simp only [bind, Except.bind]
  have hpl : (planarOf (rows * cols) samples data).length = rows * cols * samples := by
    unfold planarOf; rw [nest_length, Nat.mul_comm]
  have hbl : (encodeCells dt.itemsize (planarOf (rows * cols) samples data)).length = rows * cols * samples * dt.itemsize := by
    rw [encodeCells_length, hpl]
  rw [if_neg (by omega : ¬ (samples ≠ 1 ∧ samples ≠ 3)), if_neg (by rw [hshape]; decide), if_neg (by omega), if_neg (by omega)]
  rw [hnc]
  simp only [Bool.false_eq_true, ↓reduceIte]
  rw [if_pos (⟨hs, hpc⟩ : samples > 1 ∧ p.planar = some 1)]
  have hst1 : 1 ≤ p.bitsStored.toNat := by omega
  have hst2 : p.bitsStored.toNat ≤ 8 * dt.itemsize := by omega
  -- every value of the planar listing is a value of the frame
  have hmem : ∀ v ∈ planarOf (rows * cols) samples data, v ∈ data := by
    intro v hv
    unfold planarOf nest at hv
    simp only [List.mem_flatMap, List.mem_map, List.mem_range] at hv
    obtain ⟨cc, hcc, kk, hkk, rfl⟩ := hv
    rw [List.getD_eq_getElem?_getD]
    have hlt : kk * samples + cc < data.length := by
      rw [hlen]
      calc kk * samples + cc < kk * samples + samples := by omega
        _ = (kk + 1) * samples := by ring
        _ ≤ rows * cols * samples := Nat.mul_le_mul_right samples hkk
    rw [List.getElem?_eq_getElem hlt]
    exact List.getElem_mem hlt
  have := decodeCells_encodeCells dt.itemsize p.bitsStored.toNat (p.pixelRepresentation == 1) hst1 hst2
    (planarOf (rows * cols) samples data) []
    (by
      intro v hv
      have hf := hfit v (hmem v hv)
      by_cases hp : p.pixelRepresentation = 1
      · simp only [hp, ↓reduceIte, beq_self_eq_true] at hf ⊢; exact hf
      · have hp' : (p.pixelRepresentation == 1) = false := by simpa using hp
        simp only [hp, ↓reduceIte, hp', Bool.false_eq_true] at hf ⊢; exact hf)
  rw [List.append_nil, hpl] at this
  rw [this, interleave_planarOf (rows * cols) samples data hlen]

end HdVerif.Codec
