import HdVerif.Model.SRItemsArgs
import HdVerif.Proofs.SRItems
/-! C13, round 2: lemmas about the argument layer `Model/SRItemsArgs.lean` (every decision in it is a definition
regenerated from the current source, target `T13sa`): it ends in the constructors of `Model/SRItems.lean`, it refuses
empty sequences / items that are not pairs / values of other types / no time points, the first given TCOORD argument
wins, and the hand-written accessors `tcoordValue`, `imageFrames`, `imageSegments` agree with the regenerated read
side. -/
namespace HdVerif.SRItemsArgsLemmas
open HdVerif HdVerif.SRItems HdVerif.SRItemsLemmas HdVerif.SRItemsArgs

/-! ## IMAGE -/

/-- an argument the constructor refuses: an empty sequence, or numbers with a fractional part -/
def emptySeq : Option Nums → Prop
  | some (.seq []) => True
  | some (.fractional _ _) => True
  | _ => False

instance : DecidablePred emptySeq := fun a => by
  cases a with
  | none => exact isFalse (by simp [emptySeq])
  | some x =>
    cases x with
    | scalar _ => exact isFalse (by simp [emptySeq])
    | seq l => cases l with
      | nil => exact isTrue (by simp [emptySeq])
      | cons _ _ => exact isFalse (by simp [emptySeq])
    | fractional _ _ => exact isTrue (by simp [emptySeq])

theorem framesCheck_some (x : Nums) :
    Gen.imageFramesCheck true x.nAxes x.len x.isFractional = (if emptySeq (some x) then .error .value else .ok 1) := by
  cases x with
  | scalar v => simp [Gen.imageFramesCheck, Nums.nAxes, Nums.len, Nums.isFractional, emptySeq]
  | seq l =>
    cases l with
    | nil => simp [Gen.imageFramesCheck, Nums.nAxes, Nums.len, Nums.isFractional, emptySeq]
    | cons a r =>
      simp [Gen.imageFramesCheck, Nums.nAxes, Nums.len, Nums.isFractional, emptySeq]
      omega
  | fractional b n =>
    simp only [Gen.imageFramesCheck, Nums.nAxes, Nums.len, Nums.isFractional, emptySeq, if_true]
    cases b <;> by_cases h : ((n : Int) == 0) = true <;> simp [h]

theorem segmentsCheck_some (x : Nums) :
    Gen.imageSegmentsCheck true x.nAxes x.len x.isFractional = (if emptySeq (some x) then .error .value else .ok 1) := by
  cases x with
  | scalar v => simp [Gen.imageSegmentsCheck, Nums.nAxes, Nums.len, Nums.isFractional, emptySeq]
  | seq l =>
    cases l with
    | nil => simp [Gen.imageSegmentsCheck, Nums.nAxes, Nums.len, Nums.isFractional, emptySeq]
    | cons a r =>
      simp [Gen.imageSegmentsCheck, Nums.nAxes, Nums.len, Nums.isFractional, emptySeq]
      omega
  | fractional b n =>
    simp only [Gen.imageSegmentsCheck, Nums.nAxes, Nums.len, Nums.isFractional, emptySeq, if_true]
    cases b <;> by_cases h : ((n : Int) == 0) = true <;> simp [h]

theorem numsArg_frames (a : Option Nums) :
    numsArg Gen.imageFramesCheck a = (if emptySeq a then .error .value else .ok (a.map Nums.values)) := by
  cases a with
  | none => simp [numsArg, Gen.imageFramesCheck, emptySeq]
  | some x =>
    unfold numsArg
    simp only [framesCheck_some]
    by_cases h : emptySeq (some x) <;> simp [h]

theorem numsArg_segments (a : Option Nums) :
    numsArg Gen.imageSegmentsCheck a = (if emptySeq a then .error .value else .ok (a.map Nums.values)) := by
  cases a with
  | none => simp [numsArg, Gen.imageSegmentsCheck, emptySeq]
  | some x =>
    unfold numsArg
    simp only [segmentsCheck_some]
    by_cases h : emptySeq (some x) <;> simp [h]

theorem withAttrs_base_err {cls : Cls} {name : Coded} {rel : Option String} {e : ErrKind} (h : base cls name rel = .error e)
    (extra : Attrs) : withAttrs cls name rel extra = .error e := by
  unfold withAttrs; simp only [h]

/-- no empty sequence: the argument layer is the normalised constructor on the listed values -/
theorem mkImageA_eq (name : Coded) (c i : String) (fr sg : Option Nums) (rel : Option String) (hf : ¬ emptySeq fr)
    (hs : ¬ emptySeq sg) : mkImageA name c i fr sg rel = mkImage name c i (fr.map Nums.values) (sg.map Nums.values) rel := by
  unfold mkImageA
  cases hb : base .image name rel with
  | error e => simp only [mkImage, withAttrs_base_err hb]
  | ok a => simp only [numsArg_frames, numsArg_segments, hf, hs, if_false]

/-- an empty sequence of frame or segment numbers is refused -/
theorem mkImageA_empty (name : Coded) (c i : String) (fr sg : Option Nums) (rel : Option String) (h : emptySeq fr ∨ emptySeq sg) :
    ∀ it, mkImageA name c i fr sg rel ≠ .ok it := by
  intro it hit
  unfold mkImageA at hit
  cases hb : base .image name rel with
  | error e => simp only [hb] at hit; cases hit
  | ok a =>
    simp only [hb, numsArg_frames, numsArg_segments] at hit
    by_cases hf : emptySeq fr
    · simp [hf] at hit
    · rcases h with h | h
      · exact hf h
      · simp [hf, h] at hit

/-! ## WAVEFORM -/

theorem allPairs_some_iff (l : List (List Int)) : (∃ ps, allPairs l = some ps) ↔ l.any (fun p => p.length != 2) = false := by
  induction l with
  | nil => simp [allPairs]
  | cons p r ih =>
    simp only [List.any_cons, Bool.or_eq_false_iff]
    constructor
    · rintro ⟨ps, h⟩
      unfold allPairs at h
      cases hp : toPair p with
      | none => simp [hp] at h
      | some q =>
        cases hr : allPairs r with
        | none => simp [hp, hr] at h
        | some qs =>
          refine ⟨?_, ih.mp ⟨qs, hr⟩⟩
          match p, hp with
          | [a, b], _ => simp
    · rintro ⟨h1, h2⟩
      obtain ⟨qs, hq⟩ := ih.mpr h2
      match p, h1 with
      | [a, b], _ => exact ⟨(a, b) :: qs, by simp [allPairs, toPair, hq]⟩
      | [], h1 => simp at h1
      | [_], h1 => simp at h1
      | _ :: _ :: _ :: _, h1 => simp at h1

/-- the pairs are the items -/
theorem allPairs_items : ∀ (l : List (List Int)) (ps : List (Int × Int)), allPairs l = some ps → ps.map (fun q => [q.1, q.2]) = l
  | [], ps, h => by simp [allPairs] at h; subst h; rfl
  | p :: r, ps, h => by
    unfold allPairs at h
    cases hp : toPair p with
    | none => simp [hp] at h
    | some q =>
      cases hr : allPairs r with
      | none => simp [hp, hr] at h
      | some qs =>
        simp only [hp, hr, Option.some.injEq] at h
        subst h
        have := allPairs_items r qs hr
        match p, hp with
        | [a, b], hp =>
          simp only [toPair, Option.some.injEq] at hp
          subst hp
          simp [this]

theorem length_ne_zero_beq (n : Nat) (h : n ≠ 0) : ((n : Int) == 0) = false := by
  simp only [beq_eq_false_iff_ne, ne_eq]; omega

/-- a non-empty list of pairs: the argument layer is the normalised constructor on those pairs -/
theorem mkWaveformA_eq (name : Coded) (c i : String) (l : List (List Int)) (ps : List (Int × Int)) (rel : Option String)
    (hne : l ≠ []) (hp : allPairs l = some ps) :
    mkWaveformA name c i (some l) rel = mkWaveform name c i (some ps) rel := by
  unfold mkWaveformA mkWaveformAF
  cases hb : base .waveform name rel with
  | error e => simp only [mkWaveform, withAttrs_base_err hb]
  | ok a =>
    have h1 := (allPairs_some_iff l).mp ⟨ps, hp⟩
    have h2 : ((l.length : Int) == 0) = false := length_ne_zero_beq _ (by simpa using hne)
    simp [Gen.waveformChannelsCheck, h1, h2, hp]

theorem mkWaveformA_none (name : Coded) (c i : String) (rel : Option String) :
    mkWaveformA name c i none rel = mkWaveform name c i none rel := by
  unfold mkWaveformA mkWaveformAF
  cases hb : base .waveform name rel with
  | error e => simp only [mkWaveform, withAttrs_base_err hb]
  | ok a => simp [Gen.waveformChannelsCheck]

/-- an empty list of channels and items that are not pairs are refused -/
theorem mkWaveformA_refuses (name : Coded) (c i : String) (l : List (List Int)) (rel : Option String)
    (h : l = [] ∨ ∃ p ∈ l, p.length ≠ 2) : ∀ it, mkWaveformA name c i (some l) rel ≠ .ok it := by
  intro it hit
  unfold mkWaveformA mkWaveformAF at hit
  cases hb : base .waveform name rel with
  | error e => simp only [hb] at hit; cases hit
  | ok a =>
    simp only [hb] at hit
    rcases h with h | ⟨p, hp, hl⟩
    · subst h; simp [Gen.waveformChannelsCheck] at hit
    · have hany : l.any (fun p => p.length != 2) = true := List.any_eq_true.mpr ⟨p, hp, by simpa using hl⟩
      have h2 : ((l.length : Int) == 0) = false := length_ne_zero_beq _ (by
        intro h0; have := List.length_eq_zero_iff.mp h0; subst this; cases hp)
      simp [Gen.waveformChannelsCheck, hany, h2] at hit

/-- channel entries with a fractional part are refused -/
theorem mkWaveformAF_fractional (name : Coded) (c i : String) (l : List (List Int)) (rel : Option String) :
    ∀ it, mkWaveformAF name c i (some l) true rel ≠ .ok it := by
  intro it hit
  unfold mkWaveformAF at hit
  cases hb : base .waveform name rel with
  | error e => simp only [hb] at hit; cases hit
  | ok a =>
    simp only [hb] at hit
    by_cases h1 : ((l.length : Int) == 0) = true <;> by_cases h2 : l.any (fun p => p.length != 2) = true <;>
      simp [Gen.waveformChannelsCheck, h1, h2] at hit

/-! ## TCOORD -/

def optLen {α} (o : Option (List α)) : Int := match o with | none => 0 | some l => l.length

theorem mkTcoord_base_err {ds name rt arg rel e} (h : base .tcoord name rel = .error e) : mkTcoord ds name rt arg rel = .error e := by
  unfold mkTcoord; simp only [h]

theorem mkTcoord_enum_err {ds name rt arg rel a} (hb : base .tcoord name rel = .ok a)
    (h : enumHas Gen.c13TemporalRangeTypes rt = false) : mkTcoord ds name rt arg rel = .error .value := by
  unfold mkTcoord; simp [hb, h]

/-- sample positions given and not empty: they are written, whatever the other two arguments are -/
theorem mkTcoordA_positions (ds : Rat → Rat) (name : Coded) (rt : String) (l : List Int) (off : Option (List Rat))
    (dts : Option (List String)) (rel : Option String) (hne : l ≠ []) :
    mkTcoordA ds name rt (some l) off dts rel = mkTcoord ds name rt (some (.positions l)) rel := by
  unfold mkTcoordA mkTcoordAF
  cases hb : base .tcoord name rel with
  | error e => simp only [mkTcoord_base_err hb]
  | ok a =>
    cases hr : enumHas Gen.c13TemporalRangeTypes rt with
    | false => simp [mkTcoord_enum_err hb hr]
    | true =>
      have h2 : ((l.length : Int) == 0) = false := length_ne_zero_beq _ (by simpa using hne)
      simp [Gen.tcoordArgCheck, h2, Gen.tcoordBranchKeywords]

/-- no sample positions, time offsets given and not empty -/
theorem mkTcoordA_offsets (ds : Rat → Rat) (name : Coded) (rt : String) (l : List Rat) (dts : Option (List String))
    (rel : Option String) (hne : l ≠ []) :
    mkTcoordA ds name rt none (some l) dts rel = mkTcoord ds name rt (some (.offsets l)) rel := by
  unfold mkTcoordA mkTcoordAF
  cases hb : base .tcoord name rel with
  | error e => simp only [mkTcoord_base_err hb]
  | ok a =>
    cases hr : enumHas Gen.c13TemporalRangeTypes rt with
    | false => simp [mkTcoord_enum_err hb hr]
    | true =>
      have h2 : ((l.length : Int) == 0) = false := length_ne_zero_beq _ (by simpa using hne)
      simp [Gen.tcoordArgCheck, h2, Gen.tcoordBranchKeywords]

/-- only date times given and not empty -/
theorem mkTcoordA_datetimes (ds : Rat → Rat) (name : Coded) (rt : String) (l : List String) (rel : Option String) (hne : l ≠ []) :
    mkTcoordA ds name rt none none (some l) rel = mkTcoord ds name rt (some (.datetimes l)) rel := by
  unfold mkTcoordA mkTcoordAF
  cases hb : base .tcoord name rel with
  | error e => simp only [mkTcoord_base_err hb]
  | ok a =>
    cases hr : enumHas Gen.c13TemporalRangeTypes rt with
    | false => simp [mkTcoord_enum_err hb hr]
    | true =>
      have h2 : ((l.length : Int) == 0) = false := length_ne_zero_beq _ (by simpa using hne)
      simp [Gen.tcoordArgCheck, h2, Gen.tcoordBranchKeywords]

/-- the FIRST given argument decides: when it is empty the item is refused (also when a later argument holds time
points); no argument at all is refused -/
theorem mkTcoordA_refuses (ds : Rat → Rat) (name : Coded) (rt : String) (pos : Option (List Int)) (off : Option (List Rat))
    (dts : Option (List String)) (rel : Option String)
    (h : pos = some [] ∨ (pos = none ∧ off = some []) ∨ (pos = none ∧ off = none ∧ dts = some []) ∨
         (pos = none ∧ off = none ∧ dts = none)) :
    ∀ it, mkTcoordA ds name rt pos off dts rel ≠ .ok it := by
  intro it hit
  unfold mkTcoordA mkTcoordAF at hit
  cases hb : base .tcoord name rel with
  | error e => simp only [hb] at hit; cases hit
  | ok a =>
    simp only [hb] at hit
    cases hr : enumHas Gen.c13TemporalRangeTypes rt with
    | false => simp [hr] at hit
    | true =>
      rcases h with h | ⟨h1, h2⟩ | ⟨h1, h2, h3⟩ | ⟨h1, h2, h3⟩
      · subst h; simp [hr, Gen.tcoordArgCheck] at hit
      · subst h1; subst h2; simp [hr, Gen.tcoordArgCheck] at hit
      · subst h1; subst h2; subst h3; simp [hr, Gen.tcoordArgCheck] at hit
      · subst h1; subst h2; subst h3; simp [hr, Gen.tcoordArgCheck] at hit

/-- sample positions with a fractional part are refused -/
theorem mkTcoordAF_fractional (ds : Rat → Rat) (name : Coded) (rt : String) (l : List Int) (off : Option (List Rat))
    (dts : Option (List String)) (rel : Option String) : ∀ it, mkTcoordAF ds name rt (some l) true off dts rel ≠ .ok it := by
  intro it hit
  unfold mkTcoordAF at hit
  cases hb : base .tcoord name rel with
  | error e => simp only [hb] at hit; cases hit
  | ok a =>
    simp only [hb] at hit
    cases hr : enumHas Gen.c13TemporalRangeTypes rt with
    | false => simp [hr] at hit
    | true =>
      by_cases h1 : ((l.length : Int) == 0) = true <;> simp [hr, Gen.tcoordArgCheck, h1] at hit

/-! ## NUM -/

theorem mkNumA_eq (ds : Rat → Rat) (name : Coded) (v : Rat) (sp : NumSpelling) (unit : Coded) (q : Option Coded) (rel : Option String)
    (h : sp.baseType.isSome = true) : mkNumA ds name v sp unit q rel = mkNum ds name v sp.isFloat unit q rel := by
  unfold mkNumA
  cases hb : base .num name rel with
  | error e => simp only [mkNum, withAttrs_base_err hb]
  | ok a => cases sp <;> simp [NumSpelling.baseType] at h <;> simp [NumSpelling.baseType, Gen.numTypeGuard, Gen.numAcceptedTypes]

theorem mkNumA_refuses (ds : Rat → Rat) (name : Coded) (v : Rat) (sp : NumSpelling) (unit : Coded) (q : Option Coded)
    (rel : Option String) (h : sp.baseType = none) : ∀ it, mkNumA ds name v sp unit q rel ≠ .ok it := by
  intro it hit
  unfold mkNumA at hit
  cases hb : base .num name rel with
  | error e => simp only [hb] at hit; cases hit
  | ok a => simp [hb, h, Gen.numTypeGuard] at hit

/-! ## CONTAINER -/

theorem mkContainerA_default (name : Coded) (t rel : Option String) :
    mkContainerA name none t rel = mkContainer name true t rel := by
  have : (defaultOf "ContainerContentItem.__init__" "is_content_continuous").bind pyBool = some true := by decide
  simp only [mkContainerA, this]

theorem mkContainerA_given (name : Coded) (c : Bool) (t rel : Option String) :
    mkContainerA name (some c) t rel = mkContainer name c t rel := rfl

/-- the strings and the mapping resource the model writes are the regenerated ones -/
theorem mkContainer_strings (name : Coded) (c : Bool) (t rel : Option String) :
    mkContainer name c t rel =
      withAttrs .container name rel
        ([("ContinuityOfContent", .str ((Gen.containerContinuity.lookup c).getD ""))] ++
         (match t with
          | none => []
          | some t => [("ContentTemplateSequence", .template Gen.containerMappingResource t)])) := by
  cases c <;> cases t <;> simp [mkContainer, Gen.containerContinuity, Gen.containerMappingResource, List.lookup]

/-! ## the read side -/

/-- the hand-written `tcoordValue` tries the attributes in the regenerated order of `TcoordContentItem.value` -/
theorem tcoordValue_gen (it : Item) : tcoordValue it = tcoordValueGen it := by
  unfold tcoordValue tcoordValueGen
  simp only [Gen.tcoordReadOrder, List.findSome?_cons, List.findSome?_nil, tcoordField]
  cases h1 : it.attrs.lookup "ReferencedSamplePositions" with
  | none =>
    cases h2 : it.attrs.lookup "ReferencedTimeOffsets" with
    | none =>
      cases h3 : it.attrs.lookup "ReferencedDateTime" with
      | none => rfl
      | some v3 => cases v3 <;> rfl
    | some v2 =>
      cases v2 <;> try rfl
      all_goals (cases h3 : it.attrs.lookup "ReferencedDateTime" with
        | none => rfl
        | some v3 => cases v3 <;> rfl)
  | some v1 =>
    cases v1 <;> try rfl
    all_goals (cases h2 : it.attrs.lookup "ReferencedTimeOffsets" with
      | none =>
        cases h3 : it.attrs.lookup "ReferencedDateTime" with
        | none => rfl
        | some v3 => cases v3 <;> rfl
      | some v2 =>
        cases v2 <;> try rfl
        all_goals (cases h3 : it.attrs.lookup "ReferencedDateTime" with
          | none => rfl
          | some v3 => cases v3 <;> rfl))

/-- the frame / segment numbers stored in the referenced SOP item -/
def framesAttr (it : Item) : Option (List Int) :=
  match it.attrs.lookup "ReferencedSOPSequence" with
  | some (.sop _ _ f _ _) => f
  | _ => none

def segmentsAttr (it : Item) : Option (List Int) :=
  match it.attrs.lookup "ReferencedSOPSequence" with
  | some (.sop _ _ _ s _) => s
  | _ => none

theorem numsReadGen_frames (v : Option (List Int)) :
    numsReadGen Gen.imageFramesRead v = .ok (v.map (fun l => asList (stored l))) := by
  cases v with
  | none => simp [numsReadGen, Gen.imageFramesRead]
  | some l =>
    match l with
    | [] => simp [numsReadGen, stored, asList, Gen.imageFramesRead]
    | [x] => simp [numsReadGen, stored, asList, Gen.imageFramesRead]
    | x :: y :: r => simp [numsReadGen, stored, asList, Gen.imageFramesRead]

theorem numsReadGen_segments (v : Option (List Int)) :
    numsReadGen Gen.imageSegmentsRead v = .ok (v.map (fun l => asList (stored l))) := by
  cases v with
  | none => simp [numsReadGen, Gen.imageSegmentsRead]
  | some l =>
    match l with
    | [] => simp [numsReadGen, stored, asList, Gen.imageSegmentsRead]
    | [x] => simp [numsReadGen, stored, asList, Gen.imageSegmentsRead]
    | x :: y :: r => simp [numsReadGen, stored, asList, Gen.imageSegmentsRead]

/-- the hand-written IMAGE accessors take the regenerated branch (`None` / bare value wrapped / list) -/
theorem imageFrames_gen (it : Item) : numsReadGen Gen.imageFramesRead (framesAttr it) = .ok (imageFrames it) := by
  rw [numsReadGen_frames]
  unfold framesAttr imageFrames
  cases h : it.attrs.lookup "ReferencedSOPSequence" with
  | none => rfl
  | some v =>
    cases v <;> try rfl
    rename_i c i f s ch
    cases f <;> rfl

theorem imageSegments_gen (it : Item) : numsReadGen Gen.imageSegmentsRead (segmentsAttr it) = .ok (imageSegments it) := by
  rw [numsReadGen_segments]
  unfold segmentsAttr imageSegments
  cases h : it.attrs.lookup "ReferencedSOPSequence" with
  | none => rfl
  | some v =>
    cases v <;> try rfl
    rename_i c i f s ch
    cases s <;> rfl

/-! ## what the argument layer builds is `Built` -/

theorem built_of_mkImageA {name c i fr sg rel it} (h : mkImageA name c i fr sg rel = .ok it) : Built it := by
  by_cases hf : emptySeq fr
  · exact absurd h (mkImageA_empty name c i fr sg rel (Or.inl hf) it)
  · by_cases hs : emptySeq sg
    · exact absurd h (mkImageA_empty name c i fr sg rel (Or.inr hs) it)
    · rw [mkImageA_eq name c i fr sg rel hf hs] at h
      exact Built.image _ _ _ _ _ _ _ h

theorem built_of_mkWaveformA {name c i ch rel it} (h : mkWaveformA name c i ch rel = .ok it) : Built it := by
  cases ch with
  | none => rw [mkWaveformA_none] at h; exact Built.waveform _ _ _ _ _ _ h
  | some l =>
    by_cases hne : l = []
    · exact absurd h (mkWaveformA_refuses name c i l rel (Or.inl hne) it)
    · cases hp : allPairs l with
      | none =>
        have : l.any (fun p => p.length != 2) = true := by
          cases hb : l.any (fun p => p.length != 2) with
          | true => rfl
          | false => obtain ⟨ps, hps⟩ := (allPairs_some_iff l).mpr hb; rw [hps] at hp; cases hp
        obtain ⟨p, hpm, hpl⟩ := List.any_eq_true.mp this
        exact absurd h (mkWaveformA_refuses name c i l rel (Or.inr ⟨p, hpm, by simpa using hpl⟩) it)
      | some ps =>
        rw [mkWaveformA_eq name c i l ps rel hne hp] at h
        exact Built.waveform _ _ _ _ _ _ h

theorem built_of_mkTcoordA {ds name rt pos off dts rel it} (h : mkTcoordA ds name rt pos off dts rel = .ok it) : Built it := by
  cases pos with
  | some l =>
    by_cases hne : l = []
    · subst hne; exact absurd h (mkTcoordA_refuses ds name rt _ off dts rel (Or.inl rfl) it)
    · rw [mkTcoordA_positions ds name rt l off dts rel hne] at h; exact Built.tcoord _ _ _ _ _ _ h
  | none =>
    cases off with
    | some l =>
      by_cases hne : l = []
      · subst hne; exact absurd h (mkTcoordA_refuses ds name rt _ _ dts rel (Or.inr (Or.inl ⟨rfl, rfl⟩)) it)
      · rw [mkTcoordA_offsets ds name rt l dts rel hne] at h; exact Built.tcoord _ _ _ _ _ _ h
    | none =>
      cases dts with
      | some l =>
        by_cases hne : l = []
        · subst hne; exact absurd h (mkTcoordA_refuses ds name rt _ _ _ rel (Or.inr (Or.inr (Or.inl ⟨rfl, rfl, rfl⟩))) it)
        · rw [mkTcoordA_datetimes ds name rt l rel hne] at h; exact Built.tcoord _ _ _ _ _ _ h
      | none => exact absurd h (mkTcoordA_refuses ds name rt _ _ _ rel (Or.inr (Or.inr (Or.inr ⟨rfl, rfl, rfl⟩))) it)

theorem built_of_mkNumA {ds name v sp unit q rel it} (h : mkNumA ds name v sp unit q rel = .ok it) : Built it := by
  cases hb : sp.baseType with
  | none => exact absurd h (mkNumA_refuses ds name v sp unit q rel hb it)
  | some t =>
    rw [mkNumA_eq ds name v sp unit q rel (by simp [hb])] at h
    exact Built.num _ _ _ _ _ _ _ _ h

theorem built_of_mkContainerA {name c t rel it} (h : mkContainerA name c t rel = .ok it) : Built it := by
  cases c with
  | none => rw [mkContainerA_default] at h; exact Built.container _ _ _ _ _ h
  | some c => rw [mkContainerA_given] at h; exact Built.container _ _ _ _ _ h

end HdVerif.SRItemsArgsLemmas
