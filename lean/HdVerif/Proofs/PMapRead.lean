import HdVerif.Proofs.PMap
import HdVerif.Proofs.PMapReadBase
import HdVerif.Model.PMapRead
import HdVerif.Proofs.CodecGlue
/-! C19: every read path of one image object returns the plane that was stored, after every history (native integer maps);
float maps: which reads work depends on the history (open finding C19-float-frames-unreadable).  The paths are C05's
REGENERATED skeletons; `readStoredFrame` of `Model/PMap.lean` (hand-written) is shown equal to them. -/
namespace HdVerif.PMap
open HdVerif HdVerif.Gen HdVerif.Bits HdVerif.Codec HdVerif.FrameAccess HdVerif.FrameAccessLemmas

theorem stdFrameIndex_key (f n : Nat) (ai : Bool) (hf : f < n) : stdFrameIndex (frameKey f ai) ai (n : Int) = .ok (f : Int) := by
  rw [stdFrameIndex_ok_iff]; unfold frameKey; cases ai <;> simp <;> omega

theorem stdFrameIndex_key_out (f n : Nat) (ai : Bool) (hf : n ≤ f) : stdFrameIndex (frameKey f ai) ai (n : Int) = .error .index := by
  apply HdVerif.PMapBase.frame_number_rejected
  unfold frameKey; cases ai <;> simp <;> omega

/-- the first statement of both methods on the frame key: the standardised index, or IndexError beyond the image -/
theorem skel_index_key (sk : Skel) (hsk : sk = singleSkel ∨ sk = batchSkel) (f n : Nat) (ai : Bool) :
    sk.index (n : Int) (frameKey f ai) ai = stdFrameIndex (frameKey f ai) ai (n : Int) := by
  rcases hsk with rfl | rfl
  · unfold Skel.index; simp only [singleSkel, singleStdArgs, bind, Except.bind]
  · unfold Skel.index; simp only [batchSkel, batchStdArgs, bind, Except.bind]

/-- both methods hand the frame number through unchanged: the bytes they fetch are those of the standardised index -/
theorem frameBytes_of_index (sk : Skel) (hsk : sk = singleSkel ∨ sk = batchSkel) (rawFn : Int → Except ErrKind (List Nat))
    (n k : Int) (ai : Bool) :
    sk.frameBytes rawFn n k ai = (stdFrameIndex k ai n).bind rawFn := by
  rcases hsk with rfl | rfl
  · unfold Skel.frameBytes Skel.index
    simp only [singleSkel, singleStdArgs, singleRawArgs, bind, Except.bind]
    cases stdFrameIndex k ai n <;> simp
  · unfold Skel.frameBytes Skel.index
    simp only [batchSkel, batchStdArgs, batchRawArgs, bind, Except.bind]
    cases stdFrameIndex k ai n <;> simp

/-- the frames of a built map as byte strings, and their common length -/
theorem frames_bytes (x : PMInput) (o : PMObject) (h : build x = .ok o) (hw : CellsWF x) :
    o.pixelData = (o.frames.map List.flatten).flatten ∧ (o.frames.map List.flatten).length = x.n * x.m ∧
    (∀ g ∈ o.frames.map List.flatten, g.length = frameBytes x.r x.c 1 (8 * x.itemsize) "MONOCHROME2") ∧
    ∀ f (hf : f < x.n * x.m), (o.frames.map List.flatten)[f]? = some (plane x (f / x.m) (f % x.m)).flatten := by
  obtain ⟨_, _, _, _, _, _, _, _, _, _, _, _, _, _, _, _, hfr, _, _⟩ := build_ok x o h
  have hfb : frameBytes x.r x.c 1 (8 * x.itemsize) "MONOCHROME2" = x.r * x.c * x.itemsize := by
    unfold frameBytes
    simp only [show ("MONOCHROME2" : String) ≠ "YBR_FULL_422" by decide, ↓reduceIte, Nat.mul_one]
    rw [Nat.mul_assoc 8, Nat.mul_div_cancel_left _ (by decide : 0 < 8), Nat.mul_comm]
  refine ⟨rfl, ?_, ?_, ?_⟩
  · rw [List.length_map, hfr, loopNest_length]
  · intro g hg
    rw [hfr] at hg
    simp only [List.mem_map] at hg
    obtain ⟨p, hp, rfl⟩ := hg
    obtain ⟨i, j, _, _, rfl⟩ := mem_loopNest _ _ _ _ hp
    rw [hfb]; exact plane_flatten_length x hw i j
  · intro f hf
    rw [List.getElem?_map, hfr, loopNest_get_divmod x.n x.m (plane x) f hf]; rfl

/-- **un-cached, in memory and lazily, single and batch method, either spelling of the frame number**: the cells of the plane -/
theorem storedUncached_build (sk : Skel) (hsk : sk = singleSkel ∨ sk = batchSkel) (how : Holding) (x : PMInput) (o : PMObject)
    (h : build x = .ok o) (hel : o.element = "PixelData") (hw : CellsWF x) (hpos : 0 < x.r * x.c * x.itemsize)
    (f : Nat) (ai : Bool) (hf : f < x.n * x.m) :
    storedUncached sk how o (frameKey f ai) ai = .ok (plane x (f / x.m) (f % x.m)) := by
  obtain ⟨hpd, hlenF, hlen, hget⟩ := frames_bytes x o h hw
  obtain ⟨_, _, _, _, _, _, _, _, _, _, _, _, hr, hc, hi, hn, _, _, _⟩ := build_ok x o h
  have hb : 8 * x.itemsize ≠ 1 := by omega
  have hfl : f < (o.frames.map List.flatten).length := by rw [hlenF]; exact hf
  have hfb : frameBytes x.r x.c 1 (8 * x.itemsize) "MONOCHROME2" = x.r * x.c * x.itemsize := by
    unfold frameBytes
    simp only [show ("MONOCHROME2" : String) ≠ "YBR_FULL_422" by decide, ↓reduceIte, Nat.mul_one]
    rw [Nat.mul_assoc 8, Nat.mul_div_cancel_left _ (by decide : 0 < 8), Nat.mul_comm]
  have hkey := stdFrameIndex_key f (x.n * x.m) ai hf
  have hkey1 := stdFrameIndex_key f (x.n * x.m) false hf
  have hfr_get : (o.frames.map List.flatten)[f] = (plane x (f / x.m) (f % x.m)).flatten := by
    have := hget f hf
    rw [List.getElem?_eq_getElem hfl] at this
    exact Option.some.inj this
  have hcells : ∀ c ∈ plane x (f / x.m) (f % x.m), c.length = x.itemsize := by
    intro c hc
    simp only [plane, List.mem_map, List.mem_range] at hc
    obtain ⟨k, _, rfl⟩ := hc
    exact hw _ _ _
  have htc : toCells x.itemsize (x.r * x.c) (plane x (f / x.m) (f % x.m)).flatten = plane x (f / x.m) (f % x.m) := by
    have := toCells_flatten x.itemsize (plane x (f / x.m) (f % x.m)) hcells []
    rw [List.append_nil, plane_length] at this
    exact this
  unfold storedUncached
  have hel' : (o.element != "PixelData") = false := by simp [hel]
  rw [hn, skel_index_key sk hsk, hkey]
  simp only []
  rw [hel']
  simp only [Bool.false_eq_true, ↓reduceIte, hr, hc, hi, hn, hpd]
  cases how with
  | memory =>
    simp only []
    rw [frameBytes_of_index sk hsk, hkey]
    -- the raw bytes of index f, from C05's theorem on frame number f + 1
    have hm := HdVerif.PMapBase.memory_frame_bytes_any (o.frames.map List.flatten) x.r x.c 1 (8 * x.itemsize) "MONOCHROME2" hb hlen f hfl
    unfold memFrameBytes at hm
    rw [frameBytes_of_index singleSkel (Or.inl rfl), hlenF] at hm
    have e1 : ((f : Int) + 1) = frameKey f false := by unfold frameKey; simp
    rw [e1, hkey1] at hm
    simp only [Except.bind] at hm ⊢
    rw [hm, hfr_get]
    simp only []
    rw [htc]
  | lazy =>
    simp only []
    rw [frameBytes_of_index sk hsk, hkey]
    have hm := HdVerif.PMapBase.lazy_frame_bytes_any (o.frames.map List.flatten) x.r x.c 1 (8 * x.itemsize) "MONOCHROME2" hb
      (by rw [hfb]; exact hpos) hlen f hfl
    unfold lazyFrameBytes at hm
    rw [frameBytes_of_index singleSkel (Or.inl rfl), hlenF] at hm
    have e1 : ((f : Int) + 1) = frameKey f false := by unfold frameKey; simp
    rw [e1, hkey1] at hm
    simp only [Except.bind] at hm ⊢
    rw [hm, hfr_get]
    simp only []
    rw [htc]

theorem storedUncached_out (sk : Skel) (hsk : sk = singleSkel ∨ sk = batchSkel) (how : Holding) (x : PMInput) (o : PMObject)
    (h : build x = .ok o) (hel : o.element = "PixelData") (f : Nat) (ai : Bool) (hf : x.n * x.m ≤ f) :
    storedUncached sk how o (frameKey f ai) ai = .error .index := by
  obtain ⟨_, _, _, _, _, _, _, _, _, _, _, _, _, _, _, hn, _, _, _⟩ := build_ok x o h
  unfold storedUncached
  rw [hn, skel_index_key sk hsk, stdFrameIndex_key_out f (x.n * x.m) ai hf]

/-- **cached**: the subscripted `pixel_array` is the plane as well -- for EVERY element (also float maps) -/
theorem storedCached_build (sk : Skel) (hsk : sk = singleSkel ∨ sk = batchSkel) (x : PMInput) (o : PMObject)
    (h : build x = .ok o) (f : Nat) (ai : Bool) (hf : f < x.n * x.m) :
    storedCached sk o (frameKey f ai) ai = .ok (plane x (f / x.m) (f % x.m)) := by
  obtain ⟨_, _, _, _, _, _, _, _, _, _, _, _, _, _, _, _, hfr, _, _⟩ := build_ok x o h
  have hlen : o.frames.length = x.n * x.m := by rw [hfr, loopNest_length]
  have hfl : f < o.frames.length := by rw [hlen]; exact hf
  unfold storedCached
  cases hfs : o.frames with
  | nil => rw [hfs] at hfl; simp at hfl
  | cons w rest =>
    simp only []
    have hw1 : (w :: rest).length = 1 → (w :: rest) = [w] := by
      intro h1; simp at h1; rw [h1]
    have := HdVerif.PMapBase.cached_frame sk hsk (w :: rest) w hw1 f (by rw [← hfs]; exact hfl) ai
    unfold frameKey
    rw [this]
    have hg := loopNest_get_divmod x.n x.m (plane x) f hf
    rw [← hfr, hfs] at hg
    rw [List.getElem?_eq_getElem (by rw [← hfs]; exact hfl)] at hg
    exact congrArg Except.ok (Option.some.inj hg)

theorem storedCached_out (sk : Skel) (hsk : sk = singleSkel ∨ sk = batchSkel) (x : PMInput) (o : PMObject)
    (h : build x = .ok o) (f : Nat) (ai : Bool) (hf : x.n * x.m ≤ f) (hne : 0 < x.n * x.m) :
    storedCached sk o (frameKey f ai) ai = .error .index := by
  obtain ⟨_, _, _, _, _, _, _, _, _, _, _, _, _, _, _, _, hfr, _, _⟩ := build_ok x o h
  have hlen : o.frames.length = x.n * x.m := by rw [hfr, loopNest_length]
  unfold storedCached
  cases hfs : o.frames with
  | nil =>
    exfalso
    have : (0 : Nat) = x.n * x.m := by rw [← hlen, hfs]; rfl
    omega
  | cons w rest =>
    simp only []
    apply HdVerif.PMapBase.cached_frame_rejected sk hsk
    rw [← hfs, hlen]; unfold frameKey; cases ai <;> simp <;> omega

/-- **Bridge**: the hand-written `readStoredFrame` of `Model/PMap.lean` is the un-cached branch of `get_stored_frame` as C05's
regenerated skeleton has it -- in memory and lazily, single and batch method, 1-based number and 0-based index -- and the
cached branch as well. -/
theorem read_paths_tie (x : PMInput) (o : PMObject) (h : build x = .ok o) (hel : o.element = "PixelData") (hw : CellsWF x)
    (hpos : 0 < x.r * x.c * x.itemsize) (f : Nat) (hf : f < x.n * x.m) (sk : Skel) (hsk : sk = singleSkel ∨ sk = batchSkel)
    (how : Holding) (ai : Bool) :
    storedUncached sk how o (frameKey f ai) ai = readStoredFrame o f ∧
    storedCached sk o (frameKey f ai) ai = readStoredFrame o f := by
  rw [readStoredFrame_build x o h hel hw f hf, storedUncached_build sk hsk how x o h hel hw hpos f ai hf,
    storedCached_build sk hsk x o h f ai hf]
  exact ⟨rfl, rfl⟩

/-- one step on a native integer map: the result is the specification's, whatever the state -/
theorem step_spec (how : Holding) (x : PMInput) (o : PMObject) (h : build x = .ok o) (hel : o.element = "PixelData")
    (hw : CellsWF x) (hpos : 0 < x.r * x.c * x.itemsize) (hne : 0 < x.n * x.m) (cached : Bool) (op : ReadOp) :
    (step how o cached op).2 = spec x op := by
  have hel' : (o.element != "PixelData") = false := by simp [hel]
  have key : ∀ sk, (sk = singleSkel ∨ sk = batchSkel) → ∀ f ai,
      storedIn sk how o cached f ai = (if f < x.n * x.m then .ok (plane x (f / x.m) (f % x.m)) else .error .index) := by
    intro sk hsk f ai
    unfold storedIn
    by_cases hf : f < x.n * x.m
    · rw [if_pos hf]
      cases cached
      · simp only [Bool.false_eq_true, ↓reduceIte]; exact storedUncached_build sk hsk how x o h hel hw hpos f ai hf
      · simp only [↓reduceIte]; exact storedCached_build sk hsk x o h f ai hf
    · rw [if_neg hf]
      cases cached
      · simp only [Bool.false_eq_true, ↓reduceIte]; exact storedUncached_out sk hsk how x o h hel f ai (by omega)
      · simp only [↓reduceIte]; exact storedCached_out sk hsk x o h f ai (by omega) hne
  cases op with
  | stored f ai => simp only [step, spec]; rw [key singleSkel (Or.inl rfl)]
  | storedBatch f ai => simp only [step, spec]; rw [key batchSkel (Or.inr rfl)]
  | pixelArray =>
    simp only [step, spec]
    cases cached
    · cases how <;> simp [hel']
    · simp
  | real f ai sel =>
    simp only [step, spec, hel', Bool.false_eq_true, ↓reduceIte]
    rw [key singleSkel (Or.inl rfl)]
    by_cases hf : f < x.n * x.m
    · simp only [hf, ↓reduceIte, bind, Except.bind]
      rw [attachedMappings_build x o h f hf]
    · simp only [hf, ↓reduceIte, bind, Except.bind]

/-- **Every history on one object** (induction over the sequence of operations): reads of a native integer map return the
stored plane -- resp. the plane under the selected mapping of its channel -- whatever was read, decoded or refused before, from
either initial state of the cache. -/
theorem run_spec (how : Holding) (x : PMInput) (o : PMObject) (h : build x = .ok o) (hel : o.element = "PixelData")
    (hw : CellsWF x) (hpos : 0 < x.r * x.c * x.itemsize) (hne : 0 < x.n * x.m) (ops : List ReadOp) (cached : Bool) :
    run how o cached ops = ops.map (spec x) := by
  induction ops generalizing cached with
  | nil => rfl
  | cons op ops ih =>
    simp only [run, List.map_cons]
    rw [step_spec how x o h hel hw hpos hne cached op, ih]

/-- **Float maps: what a read returns depends on the history** (the precise face of the open finding): on a freshly opened
object `get_stored_frame` fails (AttributeError); after `.pixel_array` was touched on the in-memory object the same call returns the
plane, bit-exactly; a lazily read object never gets there (its `pixel_array` is assembled from the failing frame reads); the
real-world transform fails in every state. -/
theorem float_reads_depend_on_history (x : PMInput) (o : PMObject) (h : build x = .ok o) (hel : o.element ≠ "PixelData")
    (f : Nat) (ai : Bool) (hf : f < x.n * x.m) (sel : Selector) (how : Holding) :
    run .memory o false [.stored f ai, .pixelArray, .stored f ai] =
      [.cells (.error .attribute), .done, .cells (.ok (plane x (f / x.m) (f % x.m)))] ∧
    run .lazy o false [.stored f ai, .pixelArray, .stored f ai] =
      [.cells (.error .attribute), .failed .attribute, .cells (.error .attribute)] ∧
    ∀ cached, (step how o cached (.real f ai sel)).2 = .reals (.error .attribute) := by
  have hel' : (o.element != "PixelData") = true := by simpa using hel
  obtain ⟨_, _, _, _, _, _, _, _, _, _, _, _, _, _, _, hn, _, _, _⟩ := build_ok x o h
  have hun : ∀ how, storedUncached singleSkel how o (frameKey f ai) ai = .error .attribute := by
    intro how; unfold storedUncached
    rw [hn, skel_index_key singleSkel (Or.inl rfl), stdFrameIndex_key f (x.n * x.m) ai hf]
    simp only []
    rw [hel']; rfl
  refine ⟨?_, ?_, ?_⟩
  · simp only [run, step, storedIn, Bool.false_eq_true, ↓reduceIte, hun]
    rw [storedCached_build singleSkel (Or.inl rfl) x o h f ai hf]
  · simp only [run, step, storedIn, Bool.false_eq_true, ↓reduceIte, hun, hel']
  · intro cached
    simp only [step, hel', ↓reduceIte]

/-! ### float32 / float64 items as bit patterns -/

/-- cutting item `p` out of the concatenation of equally long items -/
theorem item_of_flatten {α} (items : List (List α)) (k : Nat) (hlen : ∀ c ∈ items, c.length = k) (p : Nat) (hp : p < items.length)
    (pre post : List α) (a : Nat) (ha : a = pre.length) :
    ((pre ++ items.flatten ++ post).drop (a + p * k)).take k = items[p] := by
  subst ha
  rw [List.append_assoc, ← List.drop_drop, List.drop_left, ← flatten_drop_take items k hlen p hp]
  have hl := flatten_length items k hlen
  have hle : p * k + k ≤ items.flatten.length := by
    rw [hl]
    calc p * k + k = (p + 1) * k := (Nat.succ_mul p k).symm
      _ ≤ items.length * k := Nat.mul_le_mul_right k hp
  rw [List.drop_append_of_le_length (by omega), List.take_append_of_le_length (by rw [List.length_drop]; omega)]

/-- **Bit-exact storage of every item, as a statement about bit patterns**: let the items of the array be `itemsize`-byte
patterns `bits i p j < 256^itemsize` (for float32 / float64 the IEEE 754 pattern of the item: every NaN payload, both
infinities, negative zero, denormals -- the model makes no difference between them and any other pattern).  Then in the pixel
data element of the built map the `itemsize` bytes at offset `((f * rows*cols) + p) * itemsize`, read as a little-endian number,
are the pattern of pixel `p` of plane `f / m`, channel `f mod m` -- for every element kind (`PixelData`, `FloatPixelData`,
`DoubleFloatPixelData`). -/
theorem element_holds_bit_patterns (x : PMInput) (o : PMObject) (h : build x = .ok o) (bits : Nat → Nat → Nat → Nat)
    (hcell : ∀ i p j, x.cell i p j = leBytes x.itemsize (bits i p j)) (hb : ∀ i p j, bits i p j < 256 ^ x.itemsize)
    (f p : Nat) (hf : f < x.n * x.m) (hp : p < x.r * x.c) :
    ofLeBytes ((o.pixelData.drop ((f * (x.r * x.c) + p) * x.itemsize)).take x.itemsize) = bits (f / x.m) p (f % x.m) := by
  have hw : CellsWF x := by intro i k j; rw [hcell]; exact leBytes_length _ _
  obtain ⟨hpd, hlenF, _, hget⟩ := frames_bytes x o h hw
  have hlen : ∀ g ∈ o.frames.map List.flatten, g.length = x.r * x.c * x.itemsize := by
    obtain ⟨_, _, _, _, _, _, _, _, _, _, _, _, _, _, _, _, hfr, _, _⟩ := build_ok x o h
    intro g hg
    rw [hfr] at hg
    simp only [List.mem_map] at hg
    obtain ⟨pl, hpl, rfl⟩ := hg
    obtain ⟨i, j, _, _, rfl⟩ := mem_loopNest _ _ _ _ hpl
    exact plane_flatten_length x hw i j
  have hfl : f < (o.frames.map List.flatten).length := by rw [hlenF]; exact hf
  have hfr_get : (o.frames.map List.flatten)[f] = (plane x (f / x.m) (f % x.m)).flatten := by
    have := hget f hf
    rw [List.getElem?_eq_getElem hfl] at this
    exact Option.some.inj this
  -- split the element at frame f
  set L := x.r * x.c * x.itemsize with hL
  have hsplit : o.pixelData = (o.pixelData.take (f * L)) ++ (plane x (f / x.m) (f % x.m)).flatten ++ o.pixelData.drop (f * L + L) := by
    have h1 : (o.pixelData.drop (f * L)).take L = (plane x (f / x.m) (f % x.m)).flatten := by
      rw [hpd, flatten_drop_take _ L hlen f hfl, hfr_get]
    rw [← h1, List.append_assoc]
    conv => lhs; rw [← List.take_append_drop (f * L) o.pixelData]
    congr 1
    conv => lhs; rw [← List.take_append_drop L (o.pixelData.drop (f * L))]
    rw [List.drop_drop]
  have htot : o.pixelData.length = (x.n * x.m) * L := by
    rw [hpd, flatten_length _ L hlen, hlenF]
  have hpre : (o.pixelData.take (f * L)).length = f * L := by
    rw [List.length_take, htot]
    have : f * L ≤ x.n * x.m * L := Nat.mul_le_mul_right L (Nat.le_of_lt hf)
    omega
  have hcells : ∀ c ∈ plane x (f / x.m) (f % x.m), c.length = x.itemsize := by
    intro c hc
    simp only [plane, List.mem_map, List.mem_range] at hc
    obtain ⟨k, _, rfl⟩ := hc
    exact hw _ _ _
  have hoff : (f * (x.r * x.c) + p) * x.itemsize = f * L + p * x.itemsize := by
    rw [hL, Nat.add_mul, Nat.mul_assoc]
  have hpl : p < (plane x (f / x.m) (f % x.m)).length := by rw [plane_length]; exact hp
  rw [hoff, hsplit, item_of_flatten (plane x (f / x.m) (f % x.m)) x.itemsize hcells p hpl _ _ (f * L) hpre.symm]
  have : (plane x (f / x.m) (f % x.m))[p] = x.cell (f / x.m) p (f % x.m) := by
    simp [plane]
  rw [this, hcell, ofLeBytes_leBytes _ _ (hb _ _ _)]

/-! ### the native frame through `decode_frame`: bytes -> stored values -/

theorem ofLeBytes_lt (l : List Nat) (hb : ∀ b ∈ l, b < 256) : ofLeBytes l < 256 ^ l.length := by
  induction l with
  | nil => simp [ofLeBytes]
  | cons b bs ih =>
    have h1 : b < 256 := hb b (by simp)
    have h2 := ih (fun b' hb' => hb b' (by simp [hb']))
    simp only [ofLeBytes, List.length_cons, Nat.pow_succ]
    omega

/-- pydicom's cells -> numbers on unsigned cells with all bits stored: the little-endian value of every cell -/
theorem decodeCells_flatten (k : Nat) (cells : List Cell) (hlen : ∀ c ∈ cells, c.length = k)
    (hb : ∀ c ∈ cells, ∀ b ∈ c, b < 256) (tail : List Nat) :
    decodeCells k false (8 * k) cells.length (cells.flatten ++ tail) = cells.map cellValue := by
  induction cells with
  | nil => rfl
  | cons c cs ih =>
    have hc : c.length = k := hlen c (by simp)
    simp only [List.length_cons, decodeCells, List.flatten_cons, List.append_assoc, List.map_cons]
    rw [List.take_append_of_le_length (by omega), List.take_of_length_le (by omega),
        List.drop_append_of_le_length (by omega), List.drop_of_length_le (by omega), List.nil_append]
    rw [ih (fun c' h' => hlen c' (by simp [h'])) (fun c' h' => hb c' (by simp [h']))]
    congr 1
    unfold maskStored cellValue
    simp only [Bool.false_eq_true, ↓reduceIte]
    have hlt := ofLeBytes_lt c (hb c (by simp))
    rw [hc, pow256] at hlt
    rw [Nat.mod_eq_of_lt hlt]

/-- **The native read path goes through `decode_frame`**: what a reader of the image classes obtains from the raw bytes of
frame `f` of a native uint8 / uint16 map -- `decode_frame` (dispatch regenerated, T13c) with the data set's attributes, then
pydicom's cells -> numbers -- is the little-endian value of every cell of plane `f / m`, channel `f mod m`: the `cellValue`s the
real-world mapping is applied to in `read_applies_attached_mapping_partial`. -/
theorem native_frame_through_decode (c : CodecImpl) (conv : List Int → List Int) (x : PMInput) (o : PMObject) (h : build x = .ok o)
    (hts : x.ts ∈ nativeSyntaxes) (hel : o.element = "PixelData") (hw : CellsWF x)
    (hbytes : ∀ i k j, ∀ b ∈ x.cell i k j, b < 256) (hsz : x.itemsize = 1 ∨ x.itemsize = 2)
    (hshape : shapeInRange x.r x.c = true) (i j : Nat) (index : Int) :
    readFrame c conv (o.module x.ts) (plane x i j).flatten index = .ok ((plane x i j).map cellValue) := by
  obtain ⟨t, attr, ba, bs, hb, pr, hadm, hattr, hBA, hBS, _, hPR, hr, hc, hi, _, _, _, _⟩ := build_ok x o h
  have had := admission_sound x t attr ba bs hb pr hadm
  have hd : ba = (x.itemsize : Int) * 8 ∧ bs = (x.itemsize : Int) * 8 ∧ pr = 0 := by
    rcases had.dtype with ⟨_, _, _, h1, h2, _, h4⟩ | ⟨_, _, he, _⟩ | ⟨_, _, he, _⟩
    · exact ⟨h1, h2, h4⟩
    · rw [hel] at hattr; rw [← hattr] at he; exact absurd he (by decide)
    · rw [hel] at hattr; rw [← hattr] at he; exact absurd he (by decide)
  unfold readFrame PMObject.module PixelModule.params PixelModule.storedOrAllocated
  simp only [hr, hc, hBA, hBS, hPR, hd.1, hd.2.1, hd.2.2]
  have hba1 : ((x.itemsize : Int) * 8) ≠ 1 := by omega
  rw [decode_index_irrelevant c conv _ x.r x.c 1 _ index 0 (fun hh => hba1 hh.1)]
  have hroute : decodeFrameRoute false ((x.itemsize : Int) * 8) ((1 : Nat) : Int) "MONOCHROME2" 0 none = .ok 2 := by
    have := decodeRoute_pydicom false ((x.itemsize : Int) * 8) ((1 : Nat) : Int) "MONOCHROME2" 0 none
      (Or.inr hba1) (Or.inl rfl) (Or.inl (Or.inr (Or.inl rfl))) (fun hgt => by simp at hgt)
    simpa using this
  unfold decodeFrame
  rw [isEncapsulated_native _ hts, hroute]
  simp only [bind, Except.bind]
  have h21 : ¬ ((2 : Int) = 1) := by decide
  simp only [h21, ↓reduceIte]
  unfold pydicomNative
  have hcells : ∀ cl ∈ plane x i j, cl.length = x.itemsize := by
    intro cl hcl
    simp only [plane, List.mem_map, List.mem_range] at hcl
    obtain ⟨k, _, rfl⟩ := hcl
    exact hw _ _ _
  have hcb : ∀ cl ∈ plane x i j, ∀ b ∈ cl, b < 256 := by
    intro cl hcl
    simp only [plane, List.mem_map, List.mem_range] at hcl
    obtain ⟨k, _, rfl⟩ := hcl
    exact hbytes _ _ _
  have hfl : (plane x i j).flatten.length = x.r * x.c * x.itemsize := plane_flatten_length x hw i j
  have hdc := decodeCells_flatten x.itemsize (plane x i j) hcells hcb []
  rw [List.append_nil, plane_length] at hdc
  obtain ⟨dt, hdt, hdsz⟩ : ∃ dt, decodedDType ((x.itemsize : Int) * 8) 0 = .ok dt ∧ dt.itemsize = x.itemsize := by
    rcases hsz with h1 | h2
    · exact ⟨.u8, by rw [h1]; rfl, by rw [h1]; rfl⟩
    · exact ⟨.u16, by rw [h2]; rfl, by rw [h2]; rfl⟩
  rw [hdt]
  simp only [bind, Except.bind, hdsz]
  rw [if_neg (by omega : ¬ ((1 : Nat) ≠ 1 ∧ (1 : Nat) ≠ 3)), if_neg (by rw [hshape]; decide), if_neg (by rw [hfl, Nat.mul_one]; omega),
    if_neg (by rw [hfl, Nat.mul_one]; omega)]
  have hnp : ¬ (1 > 1 ∧ (none : Option Int) = some 1) := by simp
  rw [if_neg hnp]
  have hcc : convertsColour "MONOCHROME2" 1 = false := by decide
  rw [hcc]
  simp only [Bool.false_eq_true, ↓reduceIte]
  have h01 : ((0 : Int) == 1) = false := by decide
  have hst : ((x.itemsize : Int) * 8).toNat = 8 * x.itemsize := by omega
  rw [h01, hst, Nat.mul_one, hdc]

/-! ### a secondary capture through the readers of the image classes -/

/-- **`get_stored_frame` / `get_frame` / `ImageFileReader.read_frame` on a written secondary capture = pydicom's decode of it**:
the readers hand `decode_frame` the data set's own attributes (T13g, `Codec.call_sites_tie`) and the frame index has no effect
on the one frame of a secondary capture (cells of >= 8 bits, or single bits filling whole bytes -- `encode_frame` accepts no
other single-bit frame). -/
theorem sc_readers_eq_decode (c : CodecImpl) (conv : List Int → List Int) (ts pi : String) (ba : Int) (x : Frame) (o : SCObject)
    (h : scBuild c ts pi ba x = .ok o) (index : Int) :
    readFrame c conv (o.module ts) o.frameBytes index = scDecode c conv ts o := by
  obtain ⟨mod, bytes, hmod, henc, rfl⟩ := scBuild_ok c ts pi ba x o h
  obtain ⟨hspp, _, _, _, _, _⟩ := sc_request ts pi ba x mod hmod
  unfold readFrame scDecode SCObject.module PixelModule.params PixelModule.storedOrAllocated
  simp only [hspp]
  have hp : (⟨ts, mod.1, mod.2.1, pi, mod.2.2.2.1, (scParams ts pi mod).planar⟩ : Params) = scParams ts pi mod := rfl
  rw [hp]
  by_cases hcase : (scParams ts pi mod).bitsAllocated = 1 ∧ isEncapsulated (scParams ts pi mod).ts = false
  · -- an accepted native single-bit frame fills whole bytes
    have hts : (scParams ts pi mod).ts ∈ nativeSyntaxes := by
      obtain ⟨r, hr, _⟩ := encodeFrame_ok c _ x bytes henc
      have hs := route_sound (Req.of (scParams ts pi mod) x) r (by rw [← encodeRoute_eq]; exact hr)
      obtain ⟨_, hc⟩ := hs
      have henc2 := hcase.2
      simp only [NativeOK, BaselineOK, RleOK, JpegFamilyOK, jpegBaseline, rle, jpegLs, jpegLsNear, j2k, j2kLossless] at hc
      rcases hc with hc | hc | hc | hc
      · rcases hc.1 with e | e <;> simp only [Req.of] at e <;> rw [e] <;> decide
      · simp only [Req.of] at hc; rw [hc.1] at henc2; exact absurd henc2 (by decide)
      · simp only [Req.of] at hc; rw [hc.1] at henc2; exact absurd henc2 (by decide)
      · simp only [Req.of] at hc
        rcases hc.1 with e | e | e | e <;> rw [e] at henc2 <;> exact absurd henc2 (by decide)
    obtain ⟨r, hr, _⟩ := encodeFrame_ok c _ x bytes henc
    obtain ⟨_, hn⟩ := accepted_native _ x r hr hts
    have h8 : (x.rows * x.cols * x.spp) % 8 = 0 := by
      obtain ⟨_, _, h3⟩ := hn
      rcases h3 with h3 | h3
      · have := h3.2.1
        rw [Req.of_spp] at this
        simp only [Req.of] at this
        have e : ((x.rows : Int) * (x.cols : Int) * (x.spp : Int)) = ((x.rows * x.cols * x.spp : Nat) : Int) := by push_cast; rfl
        rw [e] at this
        exact_mod_cast this
      · exact absurd hcase.1 h3.1
    exact decode_index_irrelevant_aligned c conv _ x.rows x.cols x.spp bytes index h8
  · exact decode_index_irrelevant c conv _ x.rows x.cols x.spp bytes index 0 hcase

/-- **An encapsulated map through the readers of the image classes**: the readers hand `decode_frame` the data set's attributes
and the frame's own index (T13g); for encapsulated pixel data the index has no effect, so what they return for item `f` is
`readStoredFrameEncapsulated` -- whatever index is passed. -/
theorem pm_encapsulated_readers_eq (c : CodecImpl) (conv : List Int → List Int) (ts : String) (e : PMEncapsulated) (f : Nat)
    (b : List Nat) (hb : e.items[f]? = some b) (henc : isEncapsulated ts = true) (index : Int) :
    readFrame c conv (e.obj.module ts) b index = readStoredFrameEncapsulated c conv ts e f := by
  unfold readStoredFrameEncapsulated
  rw [hb]
  unfold readFrame PMObject.module PixelModule.params PixelModule.storedOrAllocated
  simp only []
  have hp : (⟨ts, e.obj.bitsAllocated, e.obj.bitsStored, "MONOCHROME2", e.obj.pixelRepresentation, none⟩ : Params) = pmParams ts e.obj := rfl
  rw [hp]
  exact decode_index_irrelevant c conv (pmParams ts e.obj) e.obj.rows e.obj.cols 1 b index 0
    (fun h => by have : isEncapsulated (pmParams ts e.obj).ts = true := henc
                 rw [this] at h; exact absurd h.2 (by decide))

end HdVerif.PMap
